import RawPanelVerif.Lemmas.MonoOps
import RawPanelVerif.Lemmas.MonoTextXform
import RawPanelVerif.Lemmas.MonoFont
import RawPanelVerif.Lemmas.MonoTextBox
import RawPanelVerif.Lemmas.MonoTextDev
import RawPanelVerif.Lemmas.MonoTextDevLines
import RawPanelVerif.Lemmas.MonoTextPerLine
import RawPanelVerif.Spec.TextSpec
import RawPanelVerif.Driver.Text
/-!
# C20 — Text metrics bound the ink; rendering is translation- and scale-consistent

How the string reaches the renderer: `Model/GoRunes.lean` models `for _, r := range str` + `byte(r)` (U+010A is a line feed,
malformed bytes are `0xFD`); the theorems below are about the resulting byte(rune) list, any list.

**Ink in the box**
* `ink_in_box` — string without line feed, every font number, mode, spacing, size `h ≥ 0`, any `v`, any starting canvas /
  bounding box / cursor, wrapping off: every stored bit outside `clip ∩ [cx, cx + StrWidth + h) × [cy, cy + v·cellHeight)` is
  unchanged (`StrWidth + h` = sum of the advances; `lineHeight_eq`: `v·cellHeight` = `LineHeight()` for `0 ≤ v < 2^24`).
  No "unclipped" hypothesis: clipping only removes ink.
* `renderText_lf`, `ink_in_box_lines` — byte 10 moves the cursor to column 0 of the next line, so a string is rendered line by
  line; **any** string (no `10 ∉ s`): every stored bit outside the union of the line boxes (`lineBoxAt`: line `n` of
  `lines s` at `x_0 = cx`, `x_n = 0`, `n` line advances down, width `StrWidth(segment) + h`) is unchanged.
* `font_tables_sized`, `glyph_facts`, `glyph_index_in_range`, `drawChar_index_in_range`, `charWidth_le` — over the font tables
  regenerated from /repo on every run (proofs in `Lemmas/MonoFont.lean`).

**Translation** (exact pixel statements)
* `translation_any` — **any** well-formed starting canvas and bounding box, background = text colour, wrapping off, no glyph
  rejected by `DrawChar`'s whole-glyph test (`NoEarlyL`): for stored bits `(X,Y)`, `(X+dx,Y+dy)` inside the clip either both
  renderings paint them or both leave the canvas's value.  Strings with line feeds: for `dx = 0`; `translation_lines`: in
  general the first line moves by `(dx,dy)`, the others — cursor column 0 by command — by `(0,dy)`.
* `translation`, `translation_fits` — the blank-canvas instances (`noEarly_of_fits`: boxes on the canvas suffice).

**Scale**
* `scale_general` — any starting canvas: size `(h,v)` with extra spacing `h·k` against size 1 with extra spacing `k`
  (line feeds: for `cx = 0`); `scale_zero_spacing` is `k = 0` on a blank canvas; `scale_single_glyph`: one glyph, any two
  spacing settings.  `scale_with_spacing_counterexample` — the recorded finding C20.scale_with_spacing: with the *same*
  spacing `k ≠ 0` on both sides the clause is false of the code (advance `h·w + s`, not `h·(w+s)`).

**Other**
* `strWidth_append`; `wrap_irrelevant` — wrapping on = wrapping off when the box plus `8·h` fits the bounding-box width;
  `wrap_box_fits_counterexample`: "the box fits" alone is not enough ("#." in the 8×8 font on 12 columns).
* `spec_check_holds_state` — the executable Spec itself: for **every text state** with spacing 0 (wrapping off, background =
  text colour), strings without line feed, `1 ≤ h`, `1 ≤ v < 2^24`, any cursor / offset, any blank canvas whose width is a
  multiple of 8, `Spec.Text.check` answers `none` on the model's three renderings with the model's reported metrics
  (`check_of_facts`, built from `boxOk_of_facts`, `boxOk1_of_facts`, `translateOk_of_facts`, `scaleOk_of_facts`, is the
  Spec-side half, usable for any renderer); `spec_check_holds` is the instance for the fixed setter order of `text.case`.
* `sess_final_holds` — one image object, **any call history** (`Mono.TextCall`: setters in any order incl. `SetBoundingBox` /
  `InvertPixels`, metric queries, earlier texts, re-creations, direct `DrawChar`s — the `text.sess` records): whatever state the history leaves, if its spacing is 0
  and its sizes are `≥ 1` the final case obeys `Spec.Text.check`; `runCalls_bg`: no history separates background and text
  colour.  (The model has no state besides canvas × `TextSt`: a cached line height or a memoised glyph width in the code
  shows as model ≠ implementation and, where it breaks a clause, as a Spec violation of the run.)
* `spec_check_spacing_lines` — the recorded deviation decided by the Spec, **any string (any number of line feeds), any canvas
  width**: for every text state with **any** extra spacing (wrapping off, background = text colour), `1 ≤ h`, `1 ≤ v < 2^24`,
  any cursor / offset, in the class of the finding (`knownSpacingClass`: spacing `> 0`, `h > 1`, two glyphs on some line)
  `Spec.Text.check` — with the case record the driver builds: one segment width and one list of reported glyph widths per
  line (`withCwsL (linesCase …) ((lines s).map (glyphWs base))`) — answers `none` or `scale.spacing` on the model's
  renderings, never `scale`, `box`, `box1` or `translate`: in every line the glyph cells at the advance `h·w + s` are the
  size-1 cells enlarged exactly, nothing lit between or after them (`Lemmas/MonoTextDev.textR0_dev`, per line with its own
  row origin: `Lemmas/MonoTextDevLines.line_dev`; `devSource_lt_adv`: every cell lies inside its line box, so the padding
  bits `W ≤ X` are in no cell).  Spec-side half, any renderer, any `Case`: `check_dev_lines_of_facts` / `scaleDevOk_of_ink`;
  model side per line: `translate_lines_fact`, `dev_lines_fact`.  Box clauses always, the others under the Spec's own gate
  `unclipped`.  No sub-case turned out false.  Corollaries: `spec_check_spacing` (the older one-line statement; its
  hypothesis `W % 8 = 0` is no longer used), `sess_final_spacing_lines` (any call history).  The older one-line Spec-side
  lemmas `check_dev_of_facts` / `scaleDevOk_of_facts` are kept.  Non-vacuity: the recorded example evaluates to
  `scale.spacing`, the same case with one extra pixel to `scale`; "ab⏎⏎cd" at size 2×1 on a 29-pixel-wide canvas (three
  lines, 3 padding bits per row) to `scale.spacing`.
* `spec_check_lines_state` — **any string (any number of line feeds), any canvas width** (no `10 ∉ s`, no `W % 8 = 0`): for
  every text state with spacing 0 (wrapping off, background = text colour), `1 ≤ h`, `1 ≤ v < 2^24`, any cursor / offset,
  `Spec.Text.check` answers `none` on the model's three renderings with the case record the driver builds (`linesCase`: row
  stride `⌈W/8⌉`, one segment width per LF-separated line, reported line heights).  Box clauses always; translation and
  scale under the Spec's own gate `unclipped` = every line box `[lineX_i, lineX_i + segw_i + h) × [cy + i·lh, cy + (i+1)·lh)`
  of `A`, of `B` and (with `segw1`, 1, `lh1`) of `C` lies on the `W × H` canvas, cursor `≥ 0`, `h, v ≥ 1`.  Nothing about the
  cursor column is assumed: after a line feed the code puts it at 0 (`renderText_lf`, `lineSt_eq`), which is exactly the
  Spec's `lineX` / `lineDx`.  Padding bits `W ≤ X < 8·⌈W/8⌉` (scanned by the Spec) stay blank: `DrawPixel` clips at `W`
  (`renderText_blankL`).  Built from `textR0L_lines` (painted region = union of the one-line regions at `lineSt t n`),
  `px_line`, `line_scale`, `lineSt_shift`, `noEarlyL_of_boxesFit` (model side, `Lemmas/MonoTextPerLine.lean`) and
  `check_lines_of_facts` (`boxOk_of_ink`, `translateOk_of_ink`, `scaleOk_of_ink`: Spec side, any renderer, any `Case`).
  Corollaries: `spec_check_holds_state_anyW` (one line, any width), `spec_check_lines` (setter order of `text.case`),
  `sess_final_lines` (any call history).  No sub-case turned out false: wrapping is off in every case the Spec judges.
  NOT YET PROVED at Spec level: extra spacing `> 0` *outside* the class of the finding (`h = 1`, or at most one glyph on
  every line), where `Spec.Text.check` should answer `none` (model level: `scale_general` with `h = 1`,
  `scale_single_glyph`; the clause is evaluated on every run).
-/
namespace RawPanelVerif.C20
open RawPanelVerif RawPanelVerif.Mono RawPanelVerif.Gen

/-! ## cursor advances, the text box and its frame lemma: proved in `Lemmas/MonoTextBox.lean` -/

export RawPanelVerif.Mono (advSum foldl_adv strWidth_eq advSum_nonneg advSum_cx advSum_cxy textBox renderText_box
  noEarly_of_fits lines linesBox renderText_lines_box advSum_app NoWrap renderText_nowrap noWrap_of_fits)

/-- **Ink in box**: for a string without line feed rendered with wrapping off, every stored bit outside
`clip ∩ [cx, cx + StrWidth + h) × [cy, cy + v·cellHeight)` keeps its value. -/
theorem ink_in_box (s : List Nat) (hs : 10 ∉ s) (c : Canvas) (hwf : c.WF) (t : TextSt)
    (hw : t.wrap = false) (hH : 0 ≤ t.tsH) (X Y : Nat) (hX : X < c.geo.wib * 8) (hY : Y < c.geo.H)
    (hout : ¬ ((t.cx + c.geo.bx ≤ (X : Int) ∧ (X : Int) < t.cx + c.geo.bx + (strWidth t s + t.tsH)) ∧
               (t.cy + c.geo.byy ≤ (Y : Int) ∧ (Y : Int) < t.cy + c.geo.byy + (t.fp.bbH : Int) * t.tsV))) :
    getPx (renderText (c, t) s).1 X Y = getPx c X Y := by
  refine (renderText_box s hs c hwf t hw hH).same X Y hX hY ?_
  rintro ⟨_, q1, q2, q3, q4⟩
  apply hout
  rw [strWidth_eq]
  exact ⟨⟨q1, by omega⟩, q3, q4⟩

/-- the reported `LineHeight()` is `v · cellHeight` for every sensible size -/
theorem lineHeight_eq (t : TextSt) (h0 : 0 ≤ t.tsV) (h1 : t.tsV < 16777216) (hb : t.fp.bbH ≤ 255) :
    (lineHeight t : Int) = (t.fp.bbH : Int) * t.tsV := by
  unfold lineHeight
  obtain ⟨n, hn⟩ := Int.eq_ofNat_of_zero_le h0
  rw [hn] at h1 ⊢
  have e0 : (n : Int).emod 4294967296 = (n : Int) := Int.emod_eq_of_lt (by omega) (by omega)
  have e1 : ((n : Int).emod 4294967296).toNat = n := by rw [e0]; simp
  rw [e1]
  have hlt : n * t.fp.bbH < 4294967296 := by
    calc n * t.fp.bbH ≤ n * 255 := Nat.mul_le_mul_left _ hb
      _ < 4294967296 := by omega
  rw [Nat.mod_eq_of_lt hlt]
  simp [Int.mul_comm]

/-! ## Font tables (regenerated from /repo): proved in `Lemmas/MonoFont.lean`, available here under the same names -/

export RawPanelVerif.Mono (fontParams_cases font_tables_sized glyph_index_in_range tf glyphOk glyph_facts glyph_facts'
  drawChar_index_in_range fp_pos)

/-! ## Translation and scale consistency (exact pixel equalities) -/

/-- **Translation consistency** (exact, every pixel pair on the canvas). -/
theorem translation (W H : Nat) (t : TextSt) (s : List Nat) (hs : 10 ∉ s) (hw : t.wrap = false)
    (hbg : t.tbg = t.tcol) (dx dy : Int)
    (hne : NoEarly (geo0 W H) t s)
    (hne' : NoEarly (geo0 W H) { t with cx := t.cx + dx, cy := t.cy + dy } s)
    (X Y X' Y' : Nat) (hX : X < W) (hY : Y < H) (hX' : X' < W) (hY' : Y' < H)
    (ex : (X' : Int) = X + dx) (ey : (Y' : Int) = Y + dy) :
    getPx (renderText (newCanvas W H, { t with cx := t.cx + dx, cy := t.cy + dy }) s).1 X' Y' =
    getPx (renderText (newCanvas W H, t) s).1 X Y := by
  have a := renderText_blank W H t s hs hw hbg hne X Y hX hY
  have b := renderText_blank W H { t with cx := t.cx + dx, cy := t.cy + dy } s hs hw hbg hne' X' Y' hX' hY'
  have sh := textR0_shift W H s t dx dy X Y X' Y' hX hY hX' hY' ex ey
  by_cases hr : textR0 (geo0 W H) t s X Y
  · rw [a.1 hr, b.1 (sh.2 hr)]
  · rw [a.2 hr, b.2 (fun h => hr (sh.1 h))]

/-- `translation` for a text whose box lies on the canvas before and after the move -/
theorem translation_fits (W H : Nat) (t : TextSt) (s : List Nat) (hs : 10 ∉ s) (hw : t.wrap = false)
    (hbg : t.tbg = t.tcol) (dx dy : Int) (hh : 1 ≤ t.tsH) (hv : 1 ≤ t.tsV)
    (hx : 0 ≤ t.cx) (hy : 0 ≤ t.cy) (hyH : t.cy ≤ H) (hfit : t.cx + advSum t s ≤ W)
    (hx' : 0 ≤ t.cx + dx) (hy' : 0 ≤ t.cy + dy) (hyH' : t.cy + dy ≤ H) (hfit' : t.cx + dx + advSum t s ≤ W)
    (X Y X' Y' : Nat) (hX : X < W) (hY : Y < H) (hX' : X' < W) (hY' : Y' < H)
    (ex : (X' : Int) = X + dx) (ey : (Y' : Int) = Y + dy) :
    getPx (renderText (newCanvas W H, { t with cx := t.cx + dx, cy := t.cy + dy }) s).1 X' Y' =
    getPx (renderText (newCanvas W H, t) s).1 X Y := by
  refine translation W H t s hs hw hbg dx dy (noEarly_of_fits W H s t hh hv hx hy hyH hfit) ?_ X Y X' Y' hX hY hX' hY' ex ey
  refine noEarly_of_fits W H s _ hh hv hx' hy' hyH' ?_
  rw [advSum_cxy]; exact hfit'

/-- **Scale consistency for extra spacing 0** (exact): source pixel `(cx+I, cy+J)` of the size-1 rendering becomes the
`h × v` block at `(cx + h·I, cy + v·J)` of the size-`(h,v)` rendering. -/
theorem scale_zero_spacing (W H : Nat) (t : TextSt) (s : List Nat) (hs : 10 ∉ s) (hw : t.wrap = false)
    (hbg : t.tbg = t.tcol) (hsp : t.spacing = 0) (h v cx cy : Int) (hh : 0 < h) (hv : 0 < v)
    (hneh : NoEarly (geo0 W H) (atSize t h v cx cy) s) (hne1 : NoEarly (geo0 W H) (atSize t 1 1 cx cy) s)
    (I J p q : Int) (Xh Yh X1 Y1 : Nat) (hXh : Xh < W) (hYh : Yh < H) (hX1 : X1 < W) (hY1 : Y1 < H)
    (hp0 : 0 ≤ p) (hp : p < h) (hq0 : 0 ≤ q) (hq : q < v)
    (eXh : (Xh : Int) = cx + h * I + p) (eYh : (Yh : Int) = cy + v * J + q)
    (eX1 : (X1 : Int) = cx + I) (eY1 : (Y1 : Int) = cy + J) :
    getPx (renderText (newCanvas W H, atSize t h v cx cy) s).1 Xh Yh =
    getPx (renderText (newCanvas W H, atSize t 1 1 cx cy) s).1 X1 Y1 := by
  have a := renderText_blank W H (atSize t h v cx cy) s hs hw hbg hneh Xh Yh hXh hYh
  have b := renderText_blank W H (atSize t 1 1 cx cy) s hs hw hbg hne1 X1 Y1 hX1 hY1
  have sc := textR0_scale W H s t hsp h v cx cy hh hv 0 I J p q Xh Yh X1 Y1 hXh hYh hX1 hY1 hp0 hp hq0 hq eXh eYh eX1 eY1
  rw [Int.mul_zero, Int.add_zero] at sc
  have tc : (atSize t h v cx cy).tcol = (atSize t 1 1 cx cy).tcol := rfl
  by_cases hr : textR0 (geo0 W H) (atSize t 1 1 cx cy) s X1 Y1
  · rw [b.1 hr, a.1 (sc.2 hr), tc]
  · rw [b.2 hr, a.2 (fun h => hr (sc.1 h))]

/-- non-vacuity: "AZ" in font 0 at (2,1) on a 64×32 canvas meets every hypothesis of both theorems -/
example : NoEarly (geo0 64 32) (atSize {} 2 2 2 1) [65, 90] ∧ NoEarly (geo0 64 32) (atSize {} 1 1 2 1) [65, 90] := by
  constructor <;> exact noEarly_of_fits 64 32 _ _ (by decide) (by decide) (by decide) (by decide) (by decide) (by decide +kernel)

/-! ## Strings with line feeds: line by line -/

export RawPanelVerif.Mono (renderText_lf)

/-- the box of line `n` (segment `l`): cursor column `cx` for the first line, 0 for the others; `n` line advances down -/
def lineBoxAt (g : Geom) (t : TextSt) (n : Nat) (l : List Nat) : Region := fun X Y =>
  clipR g X Y ∧
  (if n = 0 then t.cx else 0) + g.bx ≤ (X : Int) ∧ (X : Int) < (if n = 0 then t.cx else 0) + g.bx + (strWidth t l + t.tsH) ∧
  t.cy + n * lineAdvance t + g.byy ≤ (Y : Int) ∧ (Y : Int) < t.cy + n * lineAdvance t + g.byy + (t.fp.bbH : Int) * t.tsV

theorem linesBox_elim (g : Geom) (ls : List (List Nat)) (t : TextSt) (X Y : Nat) (h : linesBox g t ls X Y) :
    ∃ n l, ls[n]? = some l ∧ lineBoxAt g t n l X Y := by
  induction ls generalizing t with
  | nil => exact h.elim
  | cons l ls ih =>
    rcases h with hb | hr
    · refine ⟨0, l, rfl, ?_⟩
      obtain ⟨hc, q1, q2, q3, q4⟩ := hb
      unfold lineBoxAt
      rw [strWidth_eq]
      simp only [if_true]
      exact ⟨hc, q1, by omega, by simp; omega, by simp; omega⟩
    · obtain ⟨n, l', hn, hb⟩ := ih (nl t) hr
      refine ⟨n + 1, l', by simpa using hn, ?_⟩
      obtain ⟨hc, q1, q2, q3, q4⟩ := hb
      have e0 : (nl t).cy = t.cy + lineAdvance t := rfl
      have e1 : lineAdvance (nl t) = lineAdvance t := rfl
      have e2 : (nl t).cx = 0 := rfl
      have e3 : strWidth (nl t) l' = strWidth t l' := by
        rw [strWidth_eq, strWidth_eq]
        show advSum { t with cy := t.cy + lineAdvance t, cx := 0 } l' - t.tsH = _
        have := advSum_cxy t 0 (t.cy + lineAdvance t) l'
        rw [← this]
      have e4 : (nl t).fp = t.fp := rfl
      have e5 : (nl t).tsH = t.tsH := rfl
      have e6 : (nl t).tsV = t.tsV := rfl
      simp only [e0, e1, e2, e3, e4, e5, e6] at q1 q2 q3 q4
      have em : ((n + 1 : Nat) : Int) * lineAdvance t = (n : Int) * lineAdvance t + lineAdvance t := by
        rw [Int.natCast_add, Int.add_mul]; simp
      unfold lineBoxAt
      rw [em]
      have hn1 : ¬ (n + 1 = 0) := by omega
      simp only [hn1, if_false]
      refine ⟨hc, ?_, ?_, by omega, by omega⟩
      · split at q1 <;> omega
      · split at q2 <;> omega

/-- **Ink in box, any string**: with wrapping off, every stored bit that lies in none of the line boxes — line `n` of the
LF-separated segments `lines s` has the box `[x_n, x_n + StrWidth(segment_n) + h) × [cy + n·lineAdvance, … + v·cellHeight)`,
`x_0 = cx`, `x_n = 0` — keeps its value.  Any canvas, bounding box, cursor, font, mode, spacing, size `h ≥ 0`. -/
theorem ink_in_box_lines (s : List Nat) (c : Canvas) (hwf : c.WF) (t : TextSt)
    (hw : t.wrap = false) (hH : 0 ≤ t.tsH) (X Y : Nat) (hX : X < c.geo.wib * 8) (hY : Y < c.geo.H)
    (hout : ∀ n l, (lines s)[n]? = some l → ¬ lineBoxAt c.geo t n l X Y) :
    getPx (renderText (c, t) s).1 X Y = getPx c X Y := by
  refine (renderText_lines_box s c hwf t hw hH).same X Y hX hY ?_
  intro hb
  obtain ⟨n, l, hn, hbox⟩ := linesBox_elim c.geo (lines s) t X Y hb
  exact hout n l hn hbox

/-- `ink_in_box` is the one-line instance -/
example (s : List Nat) (hs : 10 ∉ s) : lines s = [s] := Mono.lines_no_lf s hs

/-- non-vacuity: "A⏎B" has two lines -/
example : lines [65, 10, 66] = [[65], [66]] := by decide

/-! ## Translation and scale on any canvas, any bounding box -/

/-- **Translation, any starting canvas**: for a string without line feed (with line feeds: for `dx = 0`), wrapping off,
background = text colour, no glyph rejected by `DrawChar`'s whole-glyph test at either cursor: for every pair of stored bits
`(X,Y)`, `(X+dx, Y+dy)` inside the clip rectangle, either both are painted in the text colour by the respective rendering
or both keep the value the starting canvas had there. -/
theorem translation_any (c : Canvas) (hwf : c.WF) (t : TextSt) (s : List Nat) (hw : t.wrap = false)
    (hbg : t.tbg = t.tcol) (dx dy : Int) (hlf : dx = 0 ∨ 10 ∉ s)
    (hne : NoEarlyL c.geo t s) (hne' : NoEarlyL c.geo { t with cx := t.cx + dx, cy := t.cy + dy } s)
    (X Y X' Y' : Nat) (hc : clipR c.geo X Y) (hc' : clipR c.geo X' Y')
    (ex : (X' : Int) = X + dx) (ey : (Y' : Int) = Y + dy) :
    (textR0L c.geo t s X Y →
      getPx (renderText (c, { t with cx := t.cx + dx, cy := t.cy + dy }) s).1 X' Y' = (t.tcol != c.geo.inv) ∧
      getPx (renderText (c, t) s).1 X Y = (t.tcol != c.geo.inv)) ∧
    (¬ textR0L c.geo t s X Y →
      getPx (renderText (c, { t with cx := t.cx + dx, cy := t.cy + dy }) s).1 X' Y' = getPx c X' Y' ∧
      getPx (renderText (c, t) s).1 X Y = getPx c X Y) := by
  have b1 := inClip_bounds hc
  have b2 := inClip_bounds hc'
  have hX : X < c.geo.wib * 8 := by have := hwf.1; omega
  have hX' : X' < c.geo.wib * 8 := by have := hwf.1; omega
  have hY : Y < c.geo.H := by omega
  have hY' : Y' < c.geo.H := by omega
  have pa := renderText_paintL s c hwf t hw hbg
  have pb := renderText_paintL s c hwf { t with cx := t.cx + dx, cy := t.cy + dy } hw hbg
  have sh := textR0L_shift c.geo s t dx dy hlf X Y X' Y' hc hc' ex ey
  constructor
  · intro hr
    exact ⟨pb.inside X' Y' hX' hY' ((textRL_iff_textR0L _ s _ hne' X' Y').2 (sh.2 hr)),
      pa.inside X Y hX hY ((textRL_iff_textR0L _ s _ hne X Y).2 hr)⟩
  · intro hr
    exact ⟨pb.same X' Y' hX' hY' (fun h => hr (sh.1 ((textRL_iff_textR0L _ s _ hne' X' Y').1 h))),
      pa.same X Y hX hY (fun h => hr ((textRL_iff_textR0L _ s _ hne X Y).1 h))⟩

/-- the painted region of `a ++ [LF] ++ b` is that of `a` at the cursor together with that of `b` at column 0 of the next line -/
theorem textR0L_append_lf (g : Geom) (a b : List Nat) (ha : 10 ∉ a) (t : TextSt) (X Y : Nat) :
    textR0L g t (a ++ 10 :: b) X Y ↔ (textR0L g t a X Y ∨ textR0L g (nl t) b X Y) := by
  induction a generalizing t with
  | nil => simp only [List.nil_append, textR0L, if_true, false_or]
  | cons ch rest ih =>
    have hch : ch ≠ 10 := fun e => ha (by simp [e])
    have hrest : 10 ∉ rest := fun e => ha (by simp [e])
    simp only [List.cons_append, textR0L, hch, if_false]
    by_cases h13 : ch = 13
    · simp only [h13, if_true]
      exact ih hrest t
    · simp only [h13, if_false]
      rw [ih hrest, Mono.nl_cx]
      exact ⟨fun h => by rcases h with h | h | h; exact Or.inl (Or.inl h); exact Or.inl (Or.inr h); exact Or.inr h,
        fun h => by rcases h with (h | h) | h; exact Or.inl h; exact Or.inr (Or.inl h); exact Or.inr (Or.inr h)⟩

/-- **Translation, line by line**: for `a ++ [LF] ++ b` (`a` without line feed) the painted region is the union of the
first line's and the rest's; moving the cursor by `(dx, dy)` moves the first line by `(dx, dy)` and the rest — whose
cursor column is 0 by command — by `(0, dy)`. -/
theorem translation_lines (g : Geom) (a b : List Nat) (ha : 10 ∉ a) (t : TextSt) (dx dy : Int) :
    (∀ X Y, textR0L g t (a ++ 10 :: b) X Y ↔ (textR0L g t a X Y ∨ textR0L g (nl t) b X Y)) ∧
    (∀ X Y X' Y' : Nat, clipR g X Y → clipR g X' Y' → (X' : Int) = X + dx → (Y' : Int) = Y + dy →
      (textR0L g { t with cx := t.cx + dx, cy := t.cy + dy } a X' Y' ↔ textR0L g t a X Y)) ∧
    (∀ X Y Y' : Nat, clipR g X Y → clipR g X Y' → (Y' : Int) = Y + dy →
      (textR0L g (nl { t with cx := t.cx + dx, cy := t.cy + dy }) b X Y' ↔ textR0L g (nl t) b X Y)) := by
  refine ⟨fun X Y => textR0L_append_lf g a b ha t X Y, ?_, ?_⟩
  · intro X Y X' Y' hc hc' ex ey
    exact textR0L_shift g a t dx dy (Or.inr ha) X Y X' Y' hc hc' ex ey
  · intro X Y Y' hc hc' ey
    have e : nl { t with cx := t.cx + dx, cy := t.cy + dy } = { nl t with cx := (nl t).cx + 0, cy := (nl t).cy + dy } := by
      unfold nl lineAdvance TextSt.fp
      simp only [TextSt.mk.injEq, and_true, true_and]
      constructor <;> omega
    rw [e]
    exact textR0L_shift g b (nl t) 0 dy (Or.inl rfl) X Y X Y' hc hc' (by omega) ey

/-- **Scale consistency with the spacing scaled as well**, any starting canvas: the rendering at size `(h, v)` with extra
spacing `h·k` read at `(cx + h·I + p, cy + v·J + q)` (`0 ≤ p < h`, `0 ≤ q < v`) and the size-1 rendering with extra spacing
`k` read at `(cx + I, cy + J)` are either both painted or both left as the starting canvas had them.  Strings with line
feeds: for `cx = 0`.  (With the *same* spacing `k ≠ 0` on both sides this is false: `scale_with_spacing_counterexample`.) -/
theorem scale_general (c : Canvas) (hwf : c.WF) (t : TextSt) (s : List Nat) (hw : t.wrap = false)
    (hbg : t.tbg = t.tcol) (h v : Int) (k sph : Nat) (hsp : (sph : Int) = h * k) (cx cy : Int) (hh : 0 < h) (hv : 0 < v)
    (hlf : cx = 0 ∨ 10 ∉ s)
    (hneh : NoEarlyL c.geo (atSizeSp t h v sph cx cy) s) (hne1 : NoEarlyL c.geo (atSizeSp t 1 1 k cx cy) s)
    (I J p q : Int) (Xh Yh X1 Y1 : Nat) (hch : clipR c.geo Xh Yh) (hc1 : clipR c.geo X1 Y1)
    (hp0 : 0 ≤ p) (hp : p < h) (hq0 : 0 ≤ q) (hq : q < v)
    (eXh : (Xh : Int) = cx + c.geo.bx + h * I + p) (eYh : (Yh : Int) = cy + c.geo.byy + v * J + q)
    (eX1 : (X1 : Int) = cx + c.geo.bx + I) (eY1 : (Y1 : Int) = cy + c.geo.byy + J) :
    (textR0L c.geo (atSizeSp t 1 1 k cx cy) s X1 Y1 →
      getPx (renderText (c, atSizeSp t h v sph cx cy) s).1 Xh Yh = (t.tcol != c.geo.inv) ∧
      getPx (renderText (c, atSizeSp t 1 1 k cx cy) s).1 X1 Y1 = (t.tcol != c.geo.inv)) ∧
    (¬ textR0L c.geo (atSizeSp t 1 1 k cx cy) s X1 Y1 →
      getPx (renderText (c, atSizeSp t h v sph cx cy) s).1 Xh Yh = getPx c Xh Yh ∧
      getPx (renderText (c, atSizeSp t 1 1 k cx cy) s).1 X1 Y1 = getPx c X1 Y1) := by
  have b1 := inClip_bounds hch
  have b2 := inClip_bounds hc1
  have hXh : Xh < c.geo.wib * 8 := by have := hwf.1; omega
  have hX1 : X1 < c.geo.wib * 8 := by have := hwf.1; omega
  have hYh : Yh < c.geo.H := by omega
  have hY1 : Y1 < c.geo.H := by omega
  have pa := renderText_paintL s c hwf (atSizeSp t h v sph cx cy) hw hbg
  have pb := renderText_paintL s c hwf (atSizeSp t 1 1 k cx cy) hw hbg
  have sc := textR0L_scale c.geo s t h k sph hsp v cx cy hh hv hlf 0 0 I J p q Xh Yh X1 Y1 hch hc1 hp0 hp hq0 hq eXh eYh eX1 eY1
  simp only [Int.mul_zero, Int.add_zero] at sc
  have tc : (atSizeSp t h v sph cx cy).tcol = t.tcol := rfl
  have tc1 : (atSizeSp t 1 1 k cx cy).tcol = t.tcol := rfl
  rw [tc] at pa; rw [tc1] at pb
  constructor
  · intro hr
    exact ⟨pa.inside Xh Yh hXh hYh ((textRL_iff_textR0L _ s _ hneh Xh Yh).2 (sc.2 hr)),
      pb.inside X1 Y1 hX1 hY1 ((textRL_iff_textR0L _ s _ hne1 X1 Y1).2 hr)⟩
  · intro hr
    exact ⟨pa.same Xh Yh hXh hYh (fun h => hr (sc.1 ((textRL_iff_textR0L _ s _ hneh Xh Yh).1 h))),
      pb.same X1 Y1 hX1 hY1 (fun h => hr ((textRL_iff_textR0L _ s _ hne1 X1 Y1).1 h))⟩

/-- **One glyph scales whatever the spacing settings are** (the spacing only moves the cursor *after* a glyph) -/
theorem scale_single_glyph (g : Geom) (t : TextSt) (ch : Nat) (h v : Int) (sph sp1 : Nat) (cx cy : Int) (hh : 0 < h) (hv : 0 < v)
    (I J p q : Int) (Xh Yh X1 Y1 : Nat) (hch : clipR g Xh Yh) (hc1 : clipR g X1 Y1)
    (hp0 : 0 ≤ p) (hp : p < h) (hq0 : 0 ≤ q) (hq : q < v)
    (eXh : (Xh : Int) = cx + g.bx + h * I + p) (eYh : (Yh : Int) = cy + g.byy + v * J + q)
    (eX1 : (X1 : Int) = cx + g.bx + I) (eY1 : (Y1 : Int) = cy + g.byy + J) :
    textR0L g (atSizeSp t h v sph cx cy) [ch] Xh Yh ↔ textR0L g (atSizeSp t 1 1 sp1 cx cy) [ch] X1 Y1 := by
  simp only [textR0L]
  by_cases h10 : ch = 10
  · simp only [h10, if_true]
  · by_cases h13 : ch = 13
    · subst h13; simp
    · simp only [h10, h13, if_false, or_false]
      have := glyphR_scaleG g (atSizeSp t h v sph cx cy) (atSizeSp t 1 1 sp1 cx cy) rfl rfl h v cx cy 0 0 hh hv ch
        I J p q Xh Yh X1 Y1 hch hc1 hp0 hp hq0 hq eXh eYh eX1 eY1
      simp only [Int.mul_zero, Int.add_zero] at this
      exact this

/-- non-vacuity of `scale_general`: spacing 2 at size 2 against spacing 1 at size 1 ("ab", font 0): the pixel that refutes
the same-spacing reading — (13,2) lit at size 2 — has its pre-image (6,1) lit here -/
example :
    let render := fun (h : Int) (sp : Nat) =>
      let t : TextSt := { font := 0, prop := true, spacing := sp, tsH := h, tsV := h, wrap := false, tcol := true, tbg := true }
      (renderText (newCanvas 32 18, t) [97, 98]).1
    getPx (render 2 2) 14 2 = getPx (render 1 1) 7 1 ∧ getPx (render 2 2) 15 3 = getPx (render 1 1) 7 1 := by
  decide +kernel

/-! ## `StrWidth` of a concatenation; wrapping -/

/-- `StrWidth(a ++ b) = StrWidth(a) + StrWidth(b) + h` (each width leaves out one trailing size step) -/
theorem strWidth_append (t : TextSt) (a b : List Nat) : strWidth t (a ++ b) = strWidth t a + strWidth t b + t.tsH := by
  rw [strWidth_eq, strWidth_eq, strWidth_eq, advSum_app]; omega

theorem advSum_wrap (t : TextSt) (w : Bool) (s : List Nat) : advSum { t with wrap := w } s = advSum t s := by
  induction s with
  | nil => rfl
  | cons ch rest ih =>
    show ((charWidth t ch : Int) * t.tsH + t.spacing) + advSum { t with wrap := w } rest =
      ((charWidth t ch : Int) * t.tsH + t.spacing) + advSum t rest
    rw [ih]

/-- **Wrapping is irrelevant when the text stays eight size steps clear of the right edge**: for a string without line
feed whose box plus `8·h` fits inside the bounding-box width, `RenderText` with wrapping on produces the same canvas as
with wrapping off.  (The wrap test after a glyph of width `cw` fires when fewer than `h·(cw − 1)` columns are left, before
the next — possibly narrower — glyph is looked at; `cw ≤ 9`.) -/
theorem wrap_irrelevant (c : Canvas) (hwf : c.WF) (t : TextSt) (s : List Nat) (hs : 10 ∉ s) (hh : 0 ≤ t.tsH)
    (hfit : t.cx + advSum t s + 8 * t.tsH ≤ getBWidth c.geo) :
    (renderText (c, { t with wrap := true }) s).1 = (renderText (c, { t with wrap := false }) s).1 := by
  have hn : NoWrap c.geo { t with wrap := true } s :=
    noWrap_of_fits c.geo s hs { t with wrap := true } hh (by rw [advSum_wrap]; exact hfit)
  exact (renderText_nowrap s c hwf { t with wrap := true } rfl hn).1

/-- "the text box fits" alone is **not** enough: "#." in the 8×8 font (advances 9 + 3 = 12) on a 12-pixel-wide canvas fits
its box exactly, yet with wrapping on the `.` is drawn on the next line (after `#` only 3 < 8 columns are left) -/
theorem wrap_box_fits_counterexample :
    let t : TextSt := { font := 1, prop := true, wrap := true, tcol := true, tbg := true }
    t.cx + advSum t [35, 46] ≤ getBWidth (newCanvas 12 16).geo ∧
    (renderText (newCanvas 12 16, t) [35, 46]).1 ≠ (renderText (newCanvas 12 16, { t with wrap := false }) [35, 46]).1 := by
  decide +kernel

/-- The recorded genuine finding **C20.scale_with_spacing**: font 0, proportional, extra spacing 1, size 2, "ab":
the rendering is not the size-1 rendering with every pixel enlarged 2×2 (the advance between glyphs is `h·w + s`,
not `h·(w + s)`), while box and translation clauses hold. -/
theorem scale_with_spacing_counterexample :
    let render := fun (h : Int) (cx cy : Int) =>
      let t : TextSt := { font := 0, prop := true, spacing := 1, tsH := h, tsV := h, wrap := false, tcol := true, tbg := true, cx := cx, cy := cy }
      (renderText (newCanvas 32 18, t) [97, 98]).1
    let px := fun (c : Canvas) (X Y : Nat) => getPx c X Y
    -- pixel (13,2) is lit at size 2 but its pre-image (6,1) at size 1 is blank
    px (render 2 0 0) 13 2 = true ∧ px (render 1 0 0) 6 1 = false := by
  decide +kernel

/-! ## The executable Spec itself, evaluated on the model's three renderings -/

/-- the text state the check sets up for one rendering: `SetFont`, `SetTextSize`, spacing, wrap off, `SetTextColor(true)`,
`SetCursor` (the call sequence of `Driver/Text.renderCase` and of the harness) -/
def caseState (font : Int) (prop : Bool) (sp : Nat) (h v cx cy : Int) : TextSt :=
  setCursor (setTextColor { setTextSize (setFont {} font prop) h v with spacing := sp % 256, wrap := false } true) cx cy

/-- it is the driver's call sequence (`Driver/Text.lean`), so `spec_check_holds` is about the very renderings the run compares -/
example (W H : Nat) (font : Int) (prop : Bool) (sp : Nat) (h v cx cy : Int) (s : List Nat) :
    Driver.Text.renderCase W H font prop sp h v cx cy s = renderText (newCanvas W H, caseState font prop sp h v cx cy) s := rfl

/-- the canvas bytes as the harness prints them -/
def bytesU8 (c : Canvas) : Array UInt8 := c.bytes.map (fun b => UInt8.ofNat b.toNat)

theorem bitAt_getPx (c : Canvas) (X Y : Nat) (hX : X < c.geo.wib * 8) :
    Spec.Text.bitAt c.geo.wib (bytesU8 c) (X : Int) (Y : Int) = getPx c X Y := by
  unfold Spec.Text.bitAt getPx bytesU8
  rw [if_neg (by omega)]
  simp only [Int.toNat_natCast]
  rw [if_neg (by omega)]
  have hb : ∀ i, ((c.bytes.map (fun b => UInt8.ofNat b.toNat)).getD i 0).toNat = (c.bytes.getD i 0).toNat := by
    intro i
    rw [Array.getD_eq_getD_getElem?, Array.getD_eq_getD_getElem?, Array.getElem?_map]
    cases c.bytes[i]? with
    | none => rfl
    | some b =>
      simp only [Option.map_some, Option.getD_some]
      have := b.isLt
      rw [UInt8.toNat_ofNat']
      exact Nat.mod_eq_of_lt (by omega)
  rw [hb]
  generalize c.bytes.getD (Y * c.geo.wib + X / 8) 0 = b
  rw [Nat.shiftRight_eq_div_pow]
  have : b.getLsbD (7 - X % 8) = decide (b.toNat / 2 ^ (7 - X % 8) % 2 = 1) := by
    rw [BitVec.getLsbD, Nat.testBit_eq_decide_div_mod_eq]
  rw [this]
  by_cases h : b.toNat / 2 ^ (7 - X % 8) % 2 = 1 <;> simp [h]

theorem mem_textPixels (k : Spec.Text.Case) (p : Int × Int) (h : p ∈ Spec.Text.allPixels k) :
    ∃ X Y : Nat, p = ((X : Int), (Y : Int)) ∧ X < k.wib * 8 ∧ Y < k.H := by
  unfold Spec.Text.allPixels at h
  simp only [List.mem_flatMap, List.mem_range, List.mem_map] at h
  obtain ⟨Y, hY, X, hX, rfl⟩ := h
  exact ⟨X, Y, rfl, hX, hY⟩

/-- the band of a single line -/
theorem lineIdx_one (cy lh Y : Int) (hl : 0 < lh) :
    Spec.Text.lineIdx cy lh 1 Y = if cy ≤ Y ∧ Y < cy + lh then some 0 else none := by
  unfold Spec.Text.lineIdx
  by_cases h1 : Y < cy
  · rw [if_pos (Or.inr h1), if_neg (by omega)]
  · rw [if_neg (by omega)]
    simp only []
    by_cases h2 : Y < cy + lh
    · have : (Y - cy) / lh = 0 := Int.ediv_eq_zero_of_lt (by omega) (by omega)
      rw [this, if_pos (by decide), if_pos ⟨by omega, h2⟩]
      rfl
    · have : 1 ≤ (Y - cy) / lh := by
        have := Int.le_ediv_of_mul_le hl (a := 1) (b := Y - cy) (by omega)
        exact this
      rw [if_neg (by omega), if_neg (by omega)]

/-- the Spec's case record for a string without line feed (one segment) on a `W × H` canvas -/
def oneLineCase (W H : Nat) (cx cy dx dy h v lh lh1 sw sw1 : Int) (sp glyphs : Nat) : Spec.Text.Case :=
  { W := W, wib := (W + 7) / 8, H := H, cx := cx, cy := cy, dx := dx, dy := dy, h := h, v := v, lh := lh, lh1 := lh1,
    segw := [sw], segw1 := [sw1], spacing := sp, glyphs := glyphs }

theorem bitAt_inside {wib : Nat} {A : Array UInt8} {X Y : Int} (h : Spec.Text.bitAt wib A X Y = true) :
    0 ≤ X ∧ X < wib * 8 ∧ 0 ≤ Y := by
  unfold Spec.Text.bitAt at h
  by_cases h1 : X < 0 ∨ Y < 0
  · rw [if_pos h1] at h; exact absurd h (by decide)
  · rw [if_neg h1] at h
    simp only [] at h
    by_cases h2 : X.toNat ≥ wib * 8
    · rw [if_pos h2] at h; exact absurd h (by decide)
    · omega

/-! ### From pixel facts to the executable Spec (one line, canvas width a multiple of 8), clause by clause -/

theorem boxOk_of_facts (W H : Nat) (cx cy dx dy h v lh lh1 sw sw1 : Int) (sp glyphs : Nat) (A : Array UInt8) (hl : 0 < lh)
    (fa : ∀ X Y : Int, Spec.Text.bitAt ((W + 7) / 8) A X Y = true → Y < H ∧ cx ≤ X ∧ X < cx + sw + h ∧ cy ≤ Y ∧ Y < cy + lh) :
    Spec.Text.boxOk (oneLineCase W H cx cy dx dy h v lh lh1 sw sw1 sp glyphs) A = true := by
  unfold Spec.Text.boxOk oneLineCase
  rw [List.all_eq_true]
  intro p hp
  obtain ⟨X, Y, rfl, _, _⟩ := mem_textPixels _ p hp
  simp only []
  cases hb : Spec.Text.bitAt ((W + 7) / 8) A (X : Int) (Y : Int) with
  | false => rfl
  | true =>
    obtain ⟨_, a1, a2, a3, a4⟩ := fa _ _ hb
    simp only [Bool.not_true, Bool.false_or]
    unfold Spec.Text.inBoxes
    simp only [List.length_singleton]
    rw [lineIdx_one _ _ _ hl, if_pos ⟨a3, a4⟩]
    simp only [Spec.Text.lineX, if_true, List.getD_cons_zero, Bool.and_eq_true, decide_eq_true_eq]
    exact ⟨a1, a2⟩

theorem boxOk1_of_facts (W H : Nat) (cx cy dx dy h v lh lh1 sw sw1 : Int) (sp glyphs : Nat) (C : Array UInt8) (hl1 : 0 < lh1)
    (fc : ∀ X Y : Int, Spec.Text.bitAt ((W + 7) / 8) C X Y = true → Y < H ∧ cx ≤ X ∧ X < cx + sw1 + 1 ∧ cy ≤ Y ∧ Y < cy + lh1) :
    Spec.Text.boxOk1 (oneLineCase W H cx cy dx dy h v lh lh1 sw sw1 sp glyphs) C = true := by
  unfold Spec.Text.boxOk1 oneLineCase
  rw [List.all_eq_true]
  intro p hp
  obtain ⟨X, Y, rfl, _, _⟩ := mem_textPixels _ p hp
  simp only []
  cases hb : Spec.Text.bitAt ((W + 7) / 8) C (X : Int) (Y : Int) with
  | false => rfl
  | true =>
    obtain ⟨_, a1, a2, a3, a4⟩ := fc _ _ hb
    simp only [Bool.not_true, Bool.false_or]
    unfold Spec.Text.inBoxes
    simp only [List.length_singleton]
    rw [lineIdx_one _ _ _ hl1, if_pos ⟨a3, a4⟩]
    simp only [Spec.Text.lineX, if_true, List.getD_cons_zero, Bool.and_eq_true, decide_eq_true_eq]
    exact ⟨a1, a2⟩

/-- what the Spec's `unclipped` test says for a one-line case -/
theorem unclipped_elim (W H : Nat) (cx cy dx dy h v lh lh1 sw sw1 : Int) (sp glyphs : Nat)
    (hu : Spec.Text.unclipped (oneLineCase W H cx cy dx dy h v lh lh1 sw sw1 sp glyphs) = true) :
    (0 ≤ cx ∧ 0 ≤ cy ∧ cy + lh ≤ H ∧ cx + sw + h ≤ W) ∧ (0 ≤ cx + dx ∧ 0 ≤ cy + dy ∧ cy + dy + lh ≤ H ∧ cx + dx + sw + h ≤ W) ∧
    (cy + lh1 ≤ H ∧ cx + sw1 + 1 ≤ W) ∧ 1 ≤ h ∧ 1 ≤ v := by
  unfold Spec.Text.unclipped Spec.Text.boxesFit oneLineCase at hu
  simp only [List.length_singleton, List.range_one, List.all_cons, List.all_nil, Bool.and_true, Spec.Text.lineX, if_true,
    List.getD_cons_zero, Bool.and_eq_true, decide_eq_true_eq, Int.natCast_one, Int.one_mul] at hu
  obtain ⟨⟨⟨⟨⟨u1, u2, _, u3⟩, _, u4⟩, ⟨u5, u6, _, u7⟩, _, u8⟩, ⟨_, _, _, u9⟩, _, u10⟩, u11, u12⟩ := hu
  exact ⟨⟨u1, u2, u3, u4⟩, ⟨u5, u6, u7, u8⟩, ⟨u9, u10⟩, u11, u12⟩

theorem translateOk_of_facts (W H : Nat) (hW8 : W % 8 = 0) (cx cy dx dy h v lh lh1 sw sw1 : Int) (sp glyphs : Nat)
    (A B : Array UInt8) (hl : 0 < lh)
    (fa : ∀ X Y : Int, Spec.Text.bitAt ((W + 7) / 8) A X Y = true → Y < H ∧ cx ≤ X ∧ X < cx + sw + h ∧ cy ≤ Y ∧ Y < cy + lh)
    (fb : ∀ X Y : Int, Spec.Text.bitAt ((W + 7) / 8) B X Y = true →
      Y < H ∧ cx + dx ≤ X ∧ X < cx + dx + sw + h ∧ cy + dy ≤ Y ∧ Y < cy + dy + lh)
    (u1 : 0 ≤ cx) (u2 : 0 ≤ cy) (u3 : cy + lh ≤ H) (u4 : cx + sw + h ≤ W)
    (u5 : 0 ≤ cx + dx) (u6 : 0 ≤ cy + dy) (u7 : cy + dy + lh ≤ H) (u8 : cx + dx + sw + h ≤ W)
    (ft' : ∀ X Y : Int, 0 ≤ X → X < W → 0 ≤ Y → Y < H → 0 ≤ X + dx → X + dx < W → 0 ≤ Y + dy → Y + dy < H →
        Spec.Text.bitAt ((W + 7) / 8) B (X + dx) (Y + dy) = Spec.Text.bitAt ((W + 7) / 8) A X Y) :
    Spec.Text.translateOk (oneLineCase W H cx cy dx dy h v lh lh1 sw sw1 sp glyphs) A B = true := by
  have hwib : ((W + 7) / 8 : Nat) * 8 = W := by omega
  unfold Spec.Text.translateOk oneLineCase
  rw [Bool.and_eq_true, List.all_eq_true, List.all_eq_true]
  constructor
  · intro p hp
    obtain ⟨X, Y, rfl, hX, hY⟩ := mem_textPixels _ p hp
    simp only [List.length_singleton] at hX hY ⊢
    rw [lineIdx_one _ _ _ hl]
    by_cases hband : cy ≤ (Y : Int) - dy ∧ (Y : Int) - dy < cy + lh
    · rw [if_pos hband]
      simp only [Spec.Text.lineDx, if_true]
      have hYs : 0 ≤ (Y : Int) - dy ∧ (Y : Int) - dy < H := by omega
      rw [decide_eq_true hYs, Bool.true_and]
      by_cases hXs : 0 ≤ (X : Int) - dx ∧ (X : Int) - dx < W
      · have := ft' ((X : Int) - dx) ((Y : Int) - dy) hXs.1 hXs.2 hYs.1 hYs.2 (by omega) (by omega) (by omega) (by omega)
        have e1 : (X : Int) - dx + dx = X := by omega
        have e2 : (Y : Int) - dy + dy = Y := by omega
        rw [e1, e2] at this
        rw [this]; simp
      · have hA : Spec.Text.bitAt ((W + 7) / 8) A ((X : Int) - dx) ((Y : Int) - dy) = false := by
          cases hb : Spec.Text.bitAt ((W + 7) / 8) A ((X : Int) - dx) ((Y : Int) - dy) with
          | false => rfl
          | true => have := bitAt_inside hb; omega
        have hB : Spec.Text.bitAt ((W + 7) / 8) B (X : Int) (Y : Int) = false := by
          cases hb : Spec.Text.bitAt ((W + 7) / 8) B (X : Int) (Y : Int) with
          | false => rfl
          | true => obtain ⟨_, b1, b2, _, _⟩ := fb _ _ hb; omega
        rw [hA, hB]; rfl
    · rw [if_neg hband]
      cases hb : Spec.Text.bitAt ((W + 7) / 8) B (X : Int) (Y : Int) with
      | false => rfl
      | true => obtain ⟨_, _, _, b3, b4⟩ := fb _ _ hb; omega
  · intro p hp
    obtain ⟨X, Y, rfl, hX, hY⟩ := mem_textPixels _ p hp
    simp only [List.length_singleton] at hX hY ⊢
    cases hb : Spec.Text.bitAt ((W + 7) / 8) A (X : Int) (Y : Int) with
    | false => rfl
    | true =>
      obtain ⟨_, a1, a2, a3, a4⟩ := fa _ _ hb
      rw [lineIdx_one _ _ _ hl, if_pos ⟨a3, a4⟩]
      simp only [Spec.Text.lineDx, if_true, Bool.not_true, Bool.false_or, Bool.and_eq_true, decide_eq_true_eq]
      have : (((W + 7) / 8 : Nat) : Int) * 8 = W := by omega
      refine ⟨⟨⟨by omega, by omega⟩, by omega⟩, by omega⟩

theorem scaleOk_of_facts (W H : Nat) (hW8 : W % 8 = 0) (cx cy dx dy h v lh lh1 sw sw1 : Int) (sp glyphs : Nat)
    (A C : Array UInt8) (hl : 0 < lh) (hlv : lh = v * lh1)
    (fa : ∀ X Y : Int, Spec.Text.bitAt ((W + 7) / 8) A X Y = true → Y < H ∧ cx ≤ X ∧ X < cx + sw + h ∧ cy ≤ Y ∧ Y < cy + lh)
    (u11 : 1 ≤ h) (u12 : 1 ≤ v)
    (fs' : ∀ I J p q : Int, 0 ≤ p → p < h → 0 ≤ q → q < v → 0 ≤ I → 0 ≤ J → cx + h * I + p < W → cy + v * J + q < H →
        Spec.Text.bitAt ((W + 7) / 8) A (cx + h * I + p) (cy + v * J + q) = Spec.Text.bitAt ((W + 7) / 8) C (cx + I) (cy + J)) :
    Spec.Text.scaleOk (oneLineCase W H cx cy dx dy h v lh lh1 sw sw1 sp glyphs) A C = true := by
  have hwib : ((W + 7) / 8 : Nat) * 8 = W := by omega
  unfold Spec.Text.scaleOk oneLineCase
  rw [List.all_eq_true]
  intro p hp
  obtain ⟨X, Y, rfl, hX, hY⟩ := mem_textPixels _ p hp
  simp only [List.length_singleton] at hX hY ⊢
  rw [lineIdx_one _ _ _ hl]
  by_cases hband : cy ≤ (Y : Int) ∧ (Y : Int) < cy + lh
  · rw [if_pos hband]
    simp only [Spec.Text.lineX, if_true, Int.natCast_zero, Int.zero_mul, Int.add_zero]
    by_cases hi : (X : Int) - cx < 0
    · rw [if_pos hi]
      cases hb : Spec.Text.bitAt ((W + 7) / 8) A (X : Int) (Y : Int) with
      | false => rfl
      | true => obtain ⟨_, a1, _, _, _⟩ := fa _ _ hb; omega
    · rw [if_neg hi]
      have hh0 : 0 < h := by omega
      have hv0 : 0 < v := by omega
      have e1 := Int.emod_add_mul_ediv ((X : Int) - cx) h
      have e2 := Int.emod_add_mul_ediv ((Y : Int) - cy) v
      have m1 := Int.emod_nonneg ((X : Int) - cx) (by omega : h ≠ 0)
      have m2 := Int.emod_lt_of_pos ((X : Int) - cx) hh0
      have m3 := Int.emod_nonneg ((Y : Int) - cy) (by omega : v ≠ 0)
      have m4 := Int.emod_lt_of_pos ((Y : Int) - cy) hv0
      have d1 : 0 ≤ ((X : Int) - cx) / h := Int.ediv_nonneg (by omega) (by omega)
      have d2 : 0 ≤ ((Y : Int) - cy) / v := Int.ediv_nonneg (by omega) (by omega)
      have := fs' (((X : Int) - cx) / h) (((Y : Int) - cy) / v) (((X : Int) - cx) % h) (((Y : Int) - cy) % v)
        m1 m2 m3 m4 d1 d2 (by omega) (by omega)
      have ex : cx + h * (((X : Int) - cx) / h) + ((X : Int) - cx) % h = X := by omega
      have ey : cy + v * (((Y : Int) - cy) / v) + ((Y : Int) - cy) % v = Y := by omega
      rw [ex, ey] at this
      rw [this]; simp
  · rw [if_neg hband]
    cases hb : Spec.Text.bitAt ((W + 7) / 8) A (X : Int) (Y : Int) with
    | false => rfl
    | true => obtain ⟨_, _, _, a3, a4⟩ := fa _ _ hb; omega

/-- **From pixel facts to the executable Spec** (one line, canvas width a multiple of 8): if the three observed renderings
have their ink in their boxes and — when unclipped — `B` is `A` translated and `A` is `C` enlarged, `Spec.Text.check`
answers `none`. -/
theorem check_of_facts (W H : Nat) (hW8 : W % 8 = 0) (cx cy dx dy h v lh lh1 sw sw1 : Int) (sp glyphs : Nat)
    (A B C : Array UInt8) (hl : 0 < lh) (hl1 : 0 < lh1) (hlv : lh = v * lh1)
    (fa : ∀ X Y : Int, Spec.Text.bitAt ((W + 7) / 8) A X Y = true → Y < H ∧ cx ≤ X ∧ X < cx + sw + h ∧ cy ≤ Y ∧ Y < cy + lh)
    (fb : ∀ X Y : Int, Spec.Text.bitAt ((W + 7) / 8) B X Y = true →
      Y < H ∧ cx + dx ≤ X ∧ X < cx + dx + sw + h ∧ cy + dy ≤ Y ∧ Y < cy + dy + lh)
    (fc : ∀ X Y : Int, Spec.Text.bitAt ((W + 7) / 8) C X Y = true → Y < H ∧ cx ≤ X ∧ X < cx + sw1 + 1 ∧ cy ≤ Y ∧ Y < cy + lh1)
    (ft : 0 ≤ cx → 0 ≤ cy → cy + lh ≤ H → cx + sw + h ≤ W → 0 ≤ cx + dx → 0 ≤ cy + dy → cy + dy + lh ≤ H → cx + dx + sw + h ≤ W →
      ∀ X Y : Int, 0 ≤ X → X < W → 0 ≤ Y → Y < H → 0 ≤ X + dx → X + dx < W → 0 ≤ Y + dy → Y + dy < H →
        Spec.Text.bitAt ((W + 7) / 8) B (X + dx) (Y + dy) = Spec.Text.bitAt ((W + 7) / 8) A X Y)
    (fs : 0 ≤ cx → 0 ≤ cy → cy + lh ≤ H → cx + sw + h ≤ W → cy + lh1 ≤ H → cx + sw1 + 1 ≤ W → 1 ≤ h → 1 ≤ v →
      ∀ I J p q : Int, 0 ≤ p → p < h → 0 ≤ q → q < v → 0 ≤ I → 0 ≤ J → cx + h * I + p < W → cy + v * J + q < H →
        Spec.Text.bitAt ((W + 7) / 8) A (cx + h * I + p) (cy + v * J + q) = Spec.Text.bitAt ((W + 7) / 8) C (cx + I) (cy + J)) :
    Spec.Text.check (oneLineCase W H cx cy dx dy h v lh lh1 sw sw1 sp glyphs) A B C = none := by
  have hwib : ((W + 7) / 8 : Nat) * 8 = W := by omega
  -- box clauses
  have hbox := boxOk_of_facts W H cx cy dx dy h v lh lh1 sw sw1 sp glyphs A hl fa
  have hbox1 := boxOk1_of_facts W H cx cy dx dy h v lh lh1 sw sw1 sp glyphs C hl1 fc
  unfold Spec.Text.check
  rw [hbox, hbox1]
  simp only [Bool.not_true, Bool.false_eq_true, if_false]
  cases hu : Spec.Text.unclipped (oneLineCase W H cx cy dx dy h v lh lh1 sw sw1 sp glyphs) with
  | false => simp
  | true =>
    simp only [Bool.not_true, Bool.false_eq_true, if_false]
    obtain ⟨⟨u1, u2, u3, u4⟩, ⟨u5, u6, u7, u8⟩, ⟨u9, u10⟩, u11, u12⟩ := unclipped_elim W H cx cy dx dy h v lh lh1 sw sw1 sp glyphs hu
    have htr := translateOk_of_facts W H hW8 cx cy dx dy h v lh lh1 sw sw1 sp glyphs A B hl fa fb u1 u2 u3 u4 u5 u6 u7 u8
      (ft u1 u2 u3 u4 u5 u6 u7 u8)
    have hsc := scaleOk_of_facts W H hW8 cx cy dx dy h v lh lh1 sw sw1 sp glyphs A C hl hlv fa u11 u12
      (fs u1 u2 u3 u4 u9 u10 u11 u12)
    rw [htr, hsc]
    simp

/-! ### The documented deviation `scale.spacing` at Spec level -/

/-- a case with the reported glyph widths of its line attached -/
def withCws (k : Spec.Text.Case) (ws : List Int) : Spec.Text.Case := { k with cws := [ws] }

/-- the bit of the size-1 rendering `devSource` points to (blank outside every glyph cell) -/
def devBit (wib : Nat) (C : Array UInt8) (Y : Int) : Option Int → Bool
  | none => false
  | some xc => Spec.Text.bitAt wib C xc Y

theorem scaleDevOk_of_facts (W H : Nat) (hW8 : W % 8 = 0) (cx cy dx dy h v lh lh1 sw sw1 : Int) (sp glyphs : Nat) (ws : List Int)
    (A C : Array UInt8) (hl : 0 < lh)
    (fa : ∀ X Y : Int, Spec.Text.bitAt ((W + 7) / 8) A X Y = true → Y < H ∧ cx ≤ X ∧ X < cx + sw + h ∧ cy ≤ Y ∧ Y < cy + lh)
    (u12 : 1 ≤ v)
    (fd' : ∀ (X Y : Nat) (J q : Int), X < W → Y < H → 0 ≤ q → q < v → 0 ≤ J → (Y : Int) = cy + v * J + q → (Y : Int) < cy + lh →
        Spec.Text.bitAt ((W + 7) / 8) A X Y = devBit ((W + 7) / 8) C (cy + J) (Spec.Text.devSource h sp ws cx cx X)) :
    Spec.Text.scaleDevOk (withCws (oneLineCase W H cx cy dx dy h v lh lh1 sw sw1 sp glyphs) ws) A C = true := by
  have hwib : ((W + 7) / 8 : Nat) * 8 = W := by omega
  unfold Spec.Text.scaleDevOk withCws oneLineCase
  rw [List.all_eq_true]
  intro p hp
  obtain ⟨X, Y, rfl, hX, hY⟩ := mem_textPixels _ p hp
  simp only [List.length_singleton] at hX hY ⊢
  rw [lineIdx_one _ _ _ hl]
  by_cases hband : cy ≤ (Y : Int) ∧ (Y : Int) < cy + lh
  · rw [if_pos hband]
    simp only [Spec.Text.lineX, if_true, Int.natCast_zero, Int.zero_mul, Int.add_zero, List.getD_cons_zero]
    have hv0 : 0 < v := by omega
    have e2 := Int.emod_add_mul_ediv ((Y : Int) - cy) v
    have m3 := Int.emod_nonneg ((Y : Int) - cy) (by omega : v ≠ 0)
    have m4 := Int.emod_lt_of_pos ((Y : Int) - cy) hv0
    have d2 : 0 ≤ ((Y : Int) - cy) / v := Int.ediv_nonneg (by omega) (by omega)
    have key := fd' X Y (((Y : Int) - cy) / v) (((Y : Int) - cy) % v) (by omega) hY m3 m4 d2 (by omega) hband.2
    rw [key]
    split
    · rename_i hd; rw [hd]; rfl
    · rename_i xc hd; rw [hd]; simp [devBit]
  · rw [if_neg hband]
    cases hb : Spec.Text.bitAt ((W + 7) / 8) A (X : Int) (Y : Int) with
    | false => rfl
    | true => obtain ⟨_, _, _, a3, a4⟩ := fa _ _ hb; omega

/-- **From pixel facts to the executable Spec, any extra spacing**: if the three observed renderings have their ink in
their boxes and — when unclipped — `B` is `A` translated and `A` is what the documented advance rule gives (every glyph cell
the size-1 cell enlarged, nothing between the cells), then in the recorded class (`knownSpacingClass`) `Spec.Text.check`
answers `none` or `scale.spacing`, never `scale` (nor `box`, `box1`, `translate`). -/
theorem check_dev_of_facts (W H : Nat) (hW8 : W % 8 = 0) (cx cy dx dy h v lh lh1 sw sw1 : Int) (sp glyphs : Nat) (ws : List Int)
    (A B C : Array UInt8) (hl : 0 < lh) (hl1 : 0 < lh1)
    (fa : ∀ X Y : Int, Spec.Text.bitAt ((W + 7) / 8) A X Y = true → Y < H ∧ cx ≤ X ∧ X < cx + sw + h ∧ cy ≤ Y ∧ Y < cy + lh)
    (fb : ∀ X Y : Int, Spec.Text.bitAt ((W + 7) / 8) B X Y = true →
      Y < H ∧ cx + dx ≤ X ∧ X < cx + dx + sw + h ∧ cy + dy ≤ Y ∧ Y < cy + dy + lh)
    (fc : ∀ X Y : Int, Spec.Text.bitAt ((W + 7) / 8) C X Y = true → Y < H ∧ cx ≤ X ∧ X < cx + sw1 + 1 ∧ cy ≤ Y ∧ Y < cy + lh1)
    (ft : 0 ≤ cx → 0 ≤ cy → cy + lh ≤ H → cx + sw + h ≤ W → 0 ≤ cx + dx → 0 ≤ cy + dy → cy + dy + lh ≤ H → cx + dx + sw + h ≤ W →
      ∀ X Y : Int, 0 ≤ X → X < W → 0 ≤ Y → Y < H → 0 ≤ X + dx → X + dx < W → 0 ≤ Y + dy → Y + dy < H →
        Spec.Text.bitAt ((W + 7) / 8) B (X + dx) (Y + dy) = Spec.Text.bitAt ((W + 7) / 8) A X Y)
    (fd : 0 ≤ cx → 0 ≤ cy → cy + lh ≤ H → cx + sw + h ≤ W → cy + lh1 ≤ H → cx + sw1 + 1 ≤ W → 1 ≤ h → 1 ≤ v →
      ∀ (X Y : Nat) (J q : Int), X < W → Y < H → 0 ≤ q → q < v → 0 ≤ J → (Y : Int) = cy + v * J + q → (Y : Int) < cy + lh →
        Spec.Text.bitAt ((W + 7) / 8) A X Y = devBit ((W + 7) / 8) C (cy + J) (Spec.Text.devSource h sp ws cx cx X))
    (hk : Spec.Text.knownSpacingClass (withCws (oneLineCase W H cx cy dx dy h v lh lh1 sw sw1 sp glyphs) ws) = true) :
    Spec.Text.check (withCws (oneLineCase W H cx cy dx dy h v lh lh1 sw sw1 sp glyphs) ws) A B C = none ∨
    Spec.Text.check (withCws (oneLineCase W H cx cy dx dy h v lh lh1 sw sw1 sp glyphs) ws) A B C = some "scale.spacing" := by
  have hbox : Spec.Text.boxOk (withCws (oneLineCase W H cx cy dx dy h v lh lh1 sw sw1 sp glyphs) ws) A = true :=
    boxOk_of_facts W H cx cy dx dy h v lh lh1 sw sw1 sp glyphs A hl fa
  have hbox1 : Spec.Text.boxOk1 (withCws (oneLineCase W H cx cy dx dy h v lh lh1 sw sw1 sp glyphs) ws) C = true :=
    boxOk1_of_facts W H cx cy dx dy h v lh lh1 sw sw1 sp glyphs C hl1 fc
  unfold Spec.Text.check
  rw [hbox, hbox1, hk]
  simp only [Bool.not_true, Bool.false_eq_true, if_false]
  cases hu : Spec.Text.unclipped (withCws (oneLineCase W H cx cy dx dy h v lh lh1 sw sw1 sp glyphs) ws) with
  | false => simp
  | true =>
    simp only [Bool.not_true, Bool.false_eq_true, if_false]
    have hu' : Spec.Text.unclipped (oneLineCase W H cx cy dx dy h v lh lh1 sw sw1 sp glyphs) = true := hu
    obtain ⟨⟨u1, u2, u3, u4⟩, ⟨u5, u6, u7, u8⟩, ⟨u9, u10⟩, u11, u12⟩ := unclipped_elim W H cx cy dx dy h v lh lh1 sw sw1 sp glyphs hu'
    have htr : Spec.Text.translateOk (withCws (oneLineCase W H cx cy dx dy h v lh lh1 sw sw1 sp glyphs) ws) A B = true :=
      translateOk_of_facts W H hW8 cx cy dx dy h v lh lh1 sw sw1 sp glyphs A B hl fa fb u1 u2 u3 u4 u5 u6 u7 u8
        (ft u1 u2 u3 u4 u5 u6 u7 u8)
    have hdev := scaleDevOk_of_facts W H hW8 cx cy dx dy h v lh lh1 sw sw1 sp glyphs ws A C hl fa u12
      (fd u1 u2 u3 u4 u9 u10 u11 u12)
    rw [htr, hdev]
    simp only [Bool.not_true, Bool.false_eq_true, if_false, Bool.and_self, if_true]
    cases Spec.Text.scaleOk (withCws (oneLineCase W H cx cy dx dy h v lh lh1 sw sw1 sp glyphs) ws) A C with
    | true => left; simp
    | false => right; simp

/-- the text state of a case with spacing 0, spelled out -/
def mkState (font : Int) (prop : Bool) (cx cy h v : Int) : TextSt :=
  { font := font, prop := prop, spacing := 0, cx := cx, cy := cy, tcol := true, tbg := true, tsH := h, tsV := v, wrap := false }

theorem caseState_eq (font : Int) (prop : Bool) (h v cx cy : Int) (hh : 1 ≤ h) (hv : 1 ≤ v) :
    caseState font prop 0 h v cx cy = mkState font prop cx cy h v := by
  unfold caseState setCursor setTextColor setTextSize setFont mkState
  have h1 : h > 0 := by omega
  have h2 : ¬ v = 0 := by omega
  simp only [h1, h2, if_true, if_false]

/-- a lit bit of a rendering on a blank `W × H` canvas (`W` a multiple of 8), read through the Spec's `bitAt`, lies inside
the text box -/
theorem bitAt_in_box (W H : Nat) (t : TextSt) (s : List Nat) (hs : 10 ∉ s) (hw : t.wrap = false) (hH : 0 ≤ t.tsH)
    (X Y : Int) (hb : Spec.Text.bitAt ((W + 7) / 8) (bytesU8 (renderText (newCanvas W H, t) s).1) X Y = true) :
    Y < H ∧ t.cx ≤ X ∧ X < t.cx + strWidth t s + t.tsH ∧ t.cy ≤ Y ∧ Y < t.cy + (t.fp.bbH : Int) * t.tsV := by
  have hwf := newCanvas_wf' W H
  have tb := renderText_box s hs (newCanvas W H) hwf t hw hH
  have hgeo : (renderText (newCanvas W H, t) s).1.geo = geo0 W H := tb.geo
  have hwib : (renderText (newCanvas W H, t) s).1.geo.wib = (W + 7) / 8 := by rw [hgeo]; rfl
  obtain ⟨b1, b2, b3⟩ := bitAt_inside hb
  obtain ⟨Xn, rfl⟩ := Int.eq_ofNat_of_zero_le b1
  obtain ⟨Yn, rfl⟩ := Int.eq_ofNat_of_zero_le b3
  have hXn : Xn < (renderText (newCanvas W H, t) s).1.geo.wib * 8 := by rw [hwib]; omega
  rw [← hwib, bitAt_getPx _ Xn Yn hXn] at hb
  -- rows beyond the buffer read as blank
  have hYn : Yn < H := by
    by_cases hy : Yn < H
    · exact hy
    · exfalso
      have hsz : (renderText (newCanvas W H, t) s).1.bytes.size = (W + 7) / 8 * H := by
        rw [tb.size]; simp [newCanvas]
      unfold getPx at hb
      rw [hwib] at hb hXn
      have : (W + 7) / 8 * H ≤ Yn * ((W + 7) / 8) + Xn / 8 := by
        have : H * ((W + 7) / 8) ≤ Yn * ((W + 7) / 8) := Nat.mul_le_mul_right _ (by omega)
        rw [Nat.mul_comm] at this; omega
      rw [Array.getD_eq_getD_getElem?, Array.getElem?_eq_none (by omega)] at hb
      simp at hb
  refine ⟨by omega, ?_⟩
  have hXn' : Xn < (newCanvas W H).geo.wib * 8 := by rw [newCanvas_geo]; unfold geo0; simp only []; omega
  have hYn' : Yn < (newCanvas W H).geo.H := by rw [newCanvas_geo]; exact hYn
  have key := ink_in_box s hs (newCanvas W H) hwf t hw hH Xn Yn hXn' hYn'
  rw [newCanvas_geo] at key
  have b0 : (geo0 W H).bx = 0 := rfl
  have b0' : (geo0 W H).byy = 0 := rfl
  rw [b0, b0'] at key
  simp only [Int.add_zero] at key
  by_cases hin : (t.cx ≤ (Xn : Int) ∧ (Xn : Int) < t.cx + (strWidth t s + t.tsH)) ∧
      (t.cy ≤ (Yn : Int) ∧ (Yn : Int) < t.cy + (t.fp.bbH : Int) * t.tsV)
  · exact ⟨hin.1.1, by omega, hin.2.1, hin.2.2⟩
  · rw [key hin, getPx_newCanvas] at hb
    exact absurd hb (by decide)

/-- **The executable Spec holds of the model's three renderings, whatever text state the object is in.**  For every text
state `base` with extra spacing 0, wrapping off and background = text colour (what `SetTextColor` always leaves), every
string without line feed, sizes `1 ≤ h`, `1 ≤ v < 2^24`, cursor and offset, on every blank canvas whose width is a multiple
of 8: `Spec.Text.check` — the predicate the run evaluates on the implementation's output — answers `none` on the renderings
of the model (`A` at the cursor, `B` at the moved cursor, `C` at size 1) with the model's reported widths and line heights:
ink in the box always, translation and scaling whenever the Spec's own `unclipped` test says the boxes lie on the canvas. -/
theorem spec_check_holds_state (W H : Nat) (hW8 : W % 8 = 0) (base : TextSt) (hsp : base.spacing = 0)
    (hwr : base.wrap = false) (hbg : base.tbg = base.tcol) (h v cx cy dx dy : Int) (s : List Nat)
    (hs : 10 ∉ s) (hh : 1 ≤ h) (hv : 1 ≤ v) (hv' : v < 16777216) (glyphs : Nat) :
    Spec.Text.check
      (oneLineCase W H cx cy dx dy h v (lineHeight (atSize base h v cx cy)) (lineHeight (atSize base 1 1 cx cy))
        (strWidth (atSize base h v cx cy) s) (strWidth (atSize base 1 1 cx cy) s) 0 glyphs)
      (bytesU8 (renderText (newCanvas W H, atSize base h v cx cy) s).1)
      (bytesU8 (renderText (newCanvas W H,
        { atSize base h v cx cy with cx := (atSize base h v cx cy).cx + dx, cy := (atSize base h v cx cy).cy + dy }) s).1)
      (bytesU8 (renderText (newCanvas W H, atSize base 1 1 cx cy) s).1) = none := by
  have hfp : ∀ (a b c d : Int), (atSize base a b c d).fp = base.fp := fun _ _ _ _ => rfl
  obtain ⟨hbw, hbh⟩ := fp_pos base.font
  have hbh8 := (font_tables_sized.2.2.2 base.font).2.2.1
  -- line heights
  have elh : (lineHeight (atSize base h v cx cy) : Int) = (base.fp.bbH : Int) * v :=
    lineHeight_eq (atSize base h v cx cy) (by show 0 ≤ v; omega) (by show v < 16777216; exact hv') (by unfold TextSt.fp atSize; simp only []; omega)
  have elh1 : (lineHeight (atSize base 1 1 cx cy) : Int) = (base.fp.bbH : Int) * 1 :=
    lineHeight_eq (atSize base 1 1 cx cy) (by show (0 : Int) ≤ 1; omega) (by show (1 : Int) < 16777216; omega) (by unfold TextSt.fp atSize; simp only []; omega)
  have hbh1 : (1 : Int) ≤ (base.fp.bbH : Int) := by unfold TextSt.fp; omega
  have hlpos : (0 : Int) < (base.fp.bbH : Int) * v := Int.mul_pos (by omega) (by omega)
  -- widths
  have esw := strWidth_eq (atSize base h v cx cy) s
  have esw1 := strWidth_eq (atSize base 1 1 cx cy) s
  have etsH : (atSize base h v cx cy).tsH = h := rfl
  have etsH1 : (atSize base 1 1 cx cy).tsH = 1 := rfl
  refine check_of_facts W H hW8 cx cy dx dy h v _ _ _ _ 0 glyphs _ _ _ (by rw [elh]; exact hlpos) (by rw [elh1]; omega)
    (by rw [elh, elh1]; rw [Int.mul_one, Int.mul_comm]) ?_ ?_ ?_ ?_ ?_
  · intro X Y hb
    have := bitAt_in_box W H (atSize base h v cx cy) s hs hwr (by show 0 ≤ h; omega) X Y hb
    rw [elh]
    exact this
  · intro X Y hb
    have := bitAt_in_box W H { atSize base h v cx cy with cx := (atSize base h v cx cy).cx + dx, cy := (atSize base h v cx cy).cy + dy }
      s hs hwr (by show 0 ≤ h; omega) X Y hb
    rw [elh]
    have e1 : strWidth { atSize base h v cx cy with cx := (atSize base h v cx cy).cx + dx, cy := (atSize base h v cx cy).cy + dy } s =
        strWidth (atSize base h v cx cy) s := by
      rw [strWidth_eq, strWidth_eq, advSum_cxy]
    rw [e1] at this
    exact this
  · intro X Y hb
    have := bitAt_in_box W H (atSize base 1 1 cx cy) s hs hwr (by show (0 : Int) ≤ 1; omega) X Y hb
    rw [elh1]
    exact this
  · -- translation
    intro u1 u2 u3 u4 u5 u6 u7 u8 X Y x0 x1 y0 y1 x2 x3 y2 y3
    rw [esw, etsH] at u4 u8
    rw [elh] at u3 u7
    obtain ⟨Xn, rfl⟩ := Int.eq_ofNat_of_zero_le x0
    obtain ⟨Yn, rfl⟩ := Int.eq_ofNat_of_zero_le y0
    obtain ⟨Xn', hXn'⟩ := Int.eq_ofNat_of_zero_le x2
    obtain ⟨Yn', hYn'⟩ := Int.eq_ofNat_of_zero_le y2
    rw [hXn', hYn']
    have hneA : NoEarly (geo0 W H) (atSize base h v cx cy) s :=
      noEarly_of_fits W H s _ (by show 1 ≤ h; exact hh) (by show 1 ≤ v; exact hv) (by show 0 ≤ cx; exact u1) (by show 0 ≤ cy; exact u2)
        (by show cy ≤ H; omega) (by show cx + advSum (atSize base h v cx cy) s ≤ W; omega)
    have hneB : NoEarly (geo0 W H) { atSize base h v cx cy with cx := (atSize base h v cx cy).cx + dx, cy := (atSize base h v cx cy).cy + dy } s :=
      noEarly_of_fits W H s _ (by show 1 ≤ h; exact hh) (by show 1 ≤ v; exact hv) (by show 0 ≤ cx + dx; exact u5) (by show 0 ≤ cy + dy; exact u6)
        (by show cy + dy ≤ H; omega) (by rw [advSum_cxy]; show cx + dx + advSum (atSize base h v cx cy) s ≤ W; omega)
    have key := translation W H (atSize base h v cx cy) s hs hwr hbg dx dy hneA hneB Xn Yn Xn' Yn' (by omega) (by omega) (by omega) (by omega)
      (by omega) (by omega)
    have gA : (renderText (newCanvas W H, atSize base h v cx cy) s).1.geo.wib = (W + 7) / 8 := by
      rw [(renderText_box s hs (newCanvas W H) (newCanvas_wf' W H) (atSize base h v cx cy) hwr (by show 0 ≤ h; omega)).geo]; rfl
    have gB : (renderText (newCanvas W H, { atSize base h v cx cy with cx := (atSize base h v cx cy).cx + dx, cy := (atSize base h v cx cy).cy + dy }) s).1.geo.wib = (W + 7) / 8 := by
      rw [(renderText_box s hs (newCanvas W H) (newCanvas_wf' W H)
        { atSize base h v cx cy with cx := (atSize base h v cx cy).cx + dx, cy := (atSize base h v cx cy).cy + dy } hwr (by show 0 ≤ h; omega)).geo]; rfl
    have r1 := bitAt_getPx (renderText (newCanvas W H, atSize base h v cx cy) s).1 Xn Yn (by rw [gA]; omega)
    have r2 := bitAt_getPx (renderText (newCanvas W H, { atSize base h v cx cy with cx := (atSize base h v cx cy).cx + dx, cy := (atSize base h v cx cy).cy + dy }) s).1
      Xn' Yn' (by rw [gB]; omega)
    rw [gA] at r1; rw [gB] at r2
    rw [r1, r2]
    exact key
  · -- scaling
    intro u1 u2 u3 u4 u9 u10 u11 u12 I J p q p0 p1 q0 q1 i0 j0 xw yh
    rw [esw, etsH] at u4
    rw [esw1, etsH1] at u10
    rw [elh] at u3
    rw [elh1] at u9
    have hI : I ≤ h * I := by
      have : 0 ≤ (h - 1) * I := Int.mul_nonneg (by omega) i0
      rw [Int.sub_mul, Int.one_mul] at this; omega
    have hJ : J ≤ v * J := by
      have : 0 ≤ (v - 1) * J := Int.mul_nonneg (by omega) j0
      rw [Int.sub_mul, Int.one_mul] at this; omega
    have hI0 : 0 ≤ h * I := Int.mul_nonneg (by omega) i0
    have hJ0 : 0 ≤ v * J := Int.mul_nonneg (by omega) j0
    obtain ⟨Xh, hXh⟩ := Int.eq_ofNat_of_zero_le (a := cx + h * I + p) (by omega)
    obtain ⟨Yh, hYh⟩ := Int.eq_ofNat_of_zero_le (a := cy + v * J + q) (by omega)
    obtain ⟨X1, hX1⟩ := Int.eq_ofNat_of_zero_le (a := cx + I) (by omega)
    obtain ⟨Y1, hY1⟩ := Int.eq_ofNat_of_zero_le (a := cy + J) (by omega)
    rw [hXh, hYh, hX1, hY1]
    have hneh : NoEarly (geo0 W H) (atSize base h v cx cy) s :=
      noEarly_of_fits W H s _ (by show 1 ≤ h; exact hh) (by show 1 ≤ v; exact hv) (by show 0 ≤ cx; exact u1) (by show 0 ≤ cy; exact u2)
        (by show cy ≤ H; omega) (by show cx + advSum (atSize base h v cx cy) s ≤ W; omega)
    have hne1 : NoEarly (geo0 W H) (atSize base 1 1 cx cy) s :=
      noEarly_of_fits W H s _ (by show (1 : Int) ≤ 1; omega) (by show (1 : Int) ≤ 1; omega) (by show 0 ≤ cx; exact u1) (by show 0 ≤ cy; exact u2)
        (by show cy ≤ H; omega) (by show cx + advSum (atSize base 1 1 cx cy) s ≤ W; omega)
    have key := scale_zero_spacing W H base s hs hwr hbg hsp h v cx cy (by omega) (by omega) hneh hne1 I J p q Xh Yh X1 Y1
      (by omega) (by omega) (by omega) (by omega) p0 p1 q0 q1 hXh.symm hYh.symm hX1.symm hY1.symm
    have gA : (renderText (newCanvas W H, atSize base h v cx cy) s).1.geo.wib = (W + 7) / 8 := by
      rw [(renderText_box s hs (newCanvas W H) (newCanvas_wf' W H) (atSize base h v cx cy) hwr (by show 0 ≤ h; omega)).geo]; rfl
    have gC : (renderText (newCanvas W H, atSize base 1 1 cx cy) s).1.geo.wib = (W + 7) / 8 := by
      rw [(renderText_box s hs (newCanvas W H) (newCanvas_wf' W H) (atSize base 1 1 cx cy) hwr (by show (0 : Int) ≤ 1; omega)).geo]; rfl
    have r1 := bitAt_getPx (renderText (newCanvas W H, atSize base h v cx cy) s).1 Xh Yh (by rw [gA]; omega)
    have r2 := bitAt_getPx (renderText (newCanvas W H, atSize base 1 1 cx cy) s).1 X1 Y1 (by rw [gC]; omega)
    rw [gA] at r1; rw [gC] at r2
    rw [r1, r2]
    exact key

/-- non-vacuity of `spec_check_spacing`, and the recorded example: "ab" in font 0 with extra spacing 1 at size 2×2 on a 32×16
canvas lies in the class, is unclipped, and the Spec's verdict on the model's renderings is the excused `scale.spacing`
(not `none`: the plain `scale` clause is false there, `scale_with_spacing_counterexample`) -/
def devSt : TextSt := { spacing := 1, wrap := false, tcol := true, tbg := true }
def devCase : Spec.Text.Case :=
  withCws (oneLineCase 32 16 0 0 0 0 2 2 (lineHeight (atSize devSt 2 2 0 0)) (lineHeight (atSize devSt 1 1 0 0))
    (strWidth (atSize devSt 2 2 0 0) [97, 98]) (strWidth (atSize devSt 1 1 0 0) [97, 98]) devSt.spacing 2) (glyphWs devSt [97, 98])

example : Spec.Text.knownSpacingClass devCase = true ∧ Spec.Text.unclipped devCase = true := by decide +kernel

example : Spec.Text.check devCase (bytesU8 (renderText (newCanvas 32 16, atSize devSt 2 2 0 0) [97, 98]).1)
    (bytesU8 (renderText (newCanvas 32 16, atSize devSt 2 2 0 0) [97, 98]).1)
    (bytesU8 (renderText (newCanvas 32 16, atSize devSt 1 1 0 0) [97, 98]).1) = some "scale.spacing" := by decide +kernel

/-- the deviation clause has teeth: the same case with one more pixel lit in the enlarged rendering (bit 7 of the first
byte: pixel (0,0), inside the first glyph cell, blank in the size-1 rendering) is a plain `scale` violation -/
example : Spec.Text.check devCase
    ((bytesU8 (renderText (newCanvas 32 16, atSize devSt 2 2 0 0) [97, 98]).1).set! 0 128)
    ((bytesU8 (renderText (newCanvas 32 16, atSize devSt 2 2 0 0) [97, 98]).1).set! 0 128)
    (bytesU8 (renderText (newCanvas 32 16, atSize devSt 1 1 0 0) [97, 98]).1) = some "scale" := by decide +kernel

/-- the recorded example in terms of columns: with glyph widths 6, 6, extra spacing 1 and size 2, column 12 of the enlarged
line is the gap between the glyphs (no cell), column 13 the first column of the second glyph, which shows size-1 column 7;
the plain `scale` clause compares it with column 13/2 = 6 -/
example : glyphWs devSt [97, 98] = [6, 6] ∧ Spec.Text.devSource 2 1 [6, 6] 0 0 12 = none ∧
    Spec.Text.devSource 2 1 [6, 6] 0 0 13 = some 7 := by decide +kernel

/-- **The executable Spec holds of the model's three renderings** in the fixed setter order of `text.case` (font, size,
spacing 0, wrap off, colour, cursor): the instance of `spec_check_holds_state` for the state that order leaves. -/
theorem spec_check_holds (W H : Nat) (hW8 : W % 8 = 0) (font : Int) (prop : Bool) (h v cx cy dx dy : Int) (s : List Nat)
    (hs : 10 ∉ s) (hh : 1 ≤ h) (hv : 1 ≤ v) (hv' : v < 16777216) (glyphs : Nat) :
    Spec.Text.check
      (oneLineCase W H cx cy dx dy h v (lineHeight (caseState font prop 0 h v cx cy)) (lineHeight (caseState font prop 0 1 1 cx cy))
        (strWidth (caseState font prop 0 h v cx cy) s) (strWidth (caseState font prop 0 1 1 cx cy) s) 0 glyphs)
      (bytesU8 (renderText (newCanvas W H, caseState font prop 0 h v cx cy) s).1)
      (bytesU8 (renderText (newCanvas W H, caseState font prop 0 h v (cx + dx) (cy + dy)) s).1)
      (bytesU8 (renderText (newCanvas W H, caseState font prop 0 1 1 cx cy) s).1) = none := by
  rw [caseState_eq font prop h v cx cy hh hv, caseState_eq font prop h v (cx + dx) (cy + dy) hh hv,
    caseState_eq font prop 1 1 cx cy (by omega) (by omega)]
  exact spec_check_holds_state W H hW8 (mkState font prop 0 0 1 1) rfl rfl rfl h v cx cy dx dy s hs hh hv hv' glyphs

/-! ## One image object, any call history (`text.sess`) -/

theorem writeChar_colours (ct : Canvas × TextSt) (ch : Nat) :
    (writeChar ct ch).2.tcol = ct.2.tcol ∧ (writeChar ct ch).2.tbg = ct.2.tbg := by
  obtain ⟨c, t⟩ := ct
  unfold writeChar
  simp only []
  split
  · exact ⟨rfl, rfl⟩
  · split
    · exact ⟨rfl, rfl⟩
    · split <;> exact ⟨rfl, rfl⟩

theorem renderText_colours (s : List Nat) (ct : Canvas × TextSt) :
    (renderText ct s).2.tcol = ct.2.tcol ∧ (renderText ct s).2.tbg = ct.2.tbg := by
  unfold renderText
  induction s generalizing ct with
  | nil => exact ⟨rfl, rfl⟩
  | cons ch rest ih =>
    rw [List.foldl_cons]
    obtain ⟨a, b⟩ := ih (writeChar ct ch)
    obtain ⟨a', b'⟩ := writeChar_colours ct ch
    exact ⟨a.trans a', b.trans b'⟩

/-- no call separates the background colour from the text colour (`SetTextColor` sets both; nothing else writes them) -/
theorem applyCall_bg (st : Canvas × TextSt) (call : TextCall) (h : st.2.tbg = st.2.tcol) :
    (applyCall st call).2.tbg = (applyCall st call).2.tcol := by
  cases call with
  | render s =>
    obtain ⟨a, b⟩ := renderText_colours s st
    show (renderText st s).2.tbg = (renderText st s).2.tcol
    rw [a, b]; exact h
  | color b => rfl
  | _ => exact h

/-- **whatever the history**, the object's background colour equals its text colour (a fresh object has both off) -/
theorem runCalls_bg (calls : List TextCall) (st : Canvas × TextSt) (h : st.2.tbg = st.2.tcol) :
    (runCalls st calls).2.tbg = (runCalls st calls).2.tcol := by
  unfold runCalls
  induction calls generalizing st with
  | nil => exact h
  | cons call rest ih => rw [List.foldl_cons]; exact ih _ (applyCall_bg st call h)

/-- **The final case of a session obeys the executable Spec.**  Take any call history on a fresh image object (`NewImage(W0,
H0)`, then setters in any order, metric queries, earlier texts, re-creations, direct `DrawChar`s); let `t` be the text state
it leaves.  If the extra spacing is 0 then and the sizes are `≥ 1`, the three renderings of the final case — wrapping off,
cursor set, `C` at size 1 (`Mono.sessA`, `Mono.sessC`: exactly what `Driver/Text.sess` and the harness do) — of any string
without line feed on a blank canvas satisfy `Spec.Text.check` with the metrics the model reports in that state. -/
theorem sess_final_holds (W0 H0 : Nat) (calls : List TextCall) (W H : Nat) (hW8 : W % 8 = 0) (cx cy dx dy : Int)
    (s : List Nat) (hs : 10 ∉ s) (glyphs : Nat)
    (hsp : (runCalls (newCanvas W0 H0, {}) calls).2.spacing = 0)
    (hh : 1 ≤ (runCalls (newCanvas W0 H0, {}) calls).2.tsH) (hv : 1 ≤ (runCalls (newCanvas W0 H0, {}) calls).2.tsV)
    (hv' : (runCalls (newCanvas W0 H0, {}) calls).2.tsV < 16777216) :
    Spec.Text.check
      (oneLineCase W H cx cy dx dy (runCalls (newCanvas W0 H0, {}) calls).2.tsH (runCalls (newCanvas W0 H0, {}) calls).2.tsV
        (lineHeight (sessA (runCalls (newCanvas W0 H0, {}) calls).2 cx cy)) (lineHeight (sessC (runCalls (newCanvas W0 H0, {}) calls).2 cx cy))
        (strWidth (sessA (runCalls (newCanvas W0 H0, {}) calls).2 cx cy) s) (strWidth (sessC (runCalls (newCanvas W0 H0, {}) calls).2 cx cy) s) 0 glyphs)
      (bytesU8 (renderText (newCanvas W H, sessA (runCalls (newCanvas W0 H0, {}) calls).2 cx cy) s).1)
      (bytesU8 (renderText (newCanvas W H, sessA (runCalls (newCanvas W0 H0, {}) calls).2 (cx + dx) (cy + dy)) s).1)
      (bytesU8 (renderText (newCanvas W H, sessC (runCalls (newCanvas W0 H0, {}) calls).2 cx cy) s).1) = none := by
  have hbg := runCalls_bg calls (newCanvas W0 H0, {}) rfl
  generalize (runCalls (newCanvas W0 H0, {}) calls).2 = t at *
  have eA : sessA t cx cy = atSize { t with wrap := false } t.tsH t.tsV cx cy := rfl
  have eB : sessA t (cx + dx) (cy + dy) =
      { atSize { t with wrap := false } t.tsH t.tsV cx cy with
        cx := (atSize { t with wrap := false } t.tsH t.tsV cx cy).cx + dx,
        cy := (atSize { t with wrap := false } t.tsH t.tsV cx cy).cy + dy } := rfl
  have eC : sessC t cx cy = atSize { t with wrap := false } 1 1 cx cy := by
    unfold sessC setTextSize setCursor atSize
    simp
  rw [eA, eB, eC]
  exact spec_check_holds_state W H hW8 { t with wrap := false } hsp rfl hbg t.tsH t.tsV cx cy dx dy s hs hh hv hv' glyphs

/-- non-vacuity of `sess_final_holds`: size set before the font, a text measured, the font switched, the canvas re-created
and the font set again — the history leaves font 1 fixed at size 1×1 (re-creation resets the size), spacing 0 -/
example : (runCalls (newCanvas 8 8, {}) [.size 3 2, .font 2 true, .strWidth [49, 46], .color true, .newImage 64 24, .font 1 false]).2
    = { font := 1, prop := false, spacing := 0, cx := 0, cy := 0, tcol := true, tbg := true, tsH := 1, tsV := 1, wrap := true } := by
  decide

/-- non-vacuity: for "AZ", font 0, size 2×2 at (2,1) moved by (3,2) on a 64×40 canvas the Spec's `unclipped` test is true, so
`spec_check_holds` speaks about all four clauses there -/
example : Spec.Text.unclipped
    (oneLineCase 64 40 2 1 3 2 2 2 (lineHeight (caseState 0 true 0 2 2 2 1)) (lineHeight (caseState 0 true 0 1 1 2 1))
      (strWidth (caseState 0 true 0 2 2 2 1) [65, 90]) (strWidth (caseState 0 true 0 1 1 2 1) [65, 90]) 0 2) = true := by
  decide +kernel

/-! ## The executable Spec for strings with line feeds, canvases of any width -/

theorem lineIdx_band (cy lh : Int) (N : Nat) (Y : Int) (i : Nat) (hl : 0 < lh) (hi : i < N)
    (h1 : cy + i * lh ≤ Y) (h2 : Y < cy + i * lh + lh) : Spec.Text.lineIdx cy lh N Y = some i := by
  have h0 : (0 : Int) ≤ (i : Int) * lh := Int.mul_nonneg (by omega) (by omega)
  unfold Spec.Text.lineIdx
  rw [if_neg (by omega)]
  simp only []
  have e := Int.emod_add_mul_ediv (Y - cy) lh
  have m1 := Int.emod_nonneg (Y - cy) (by omega : lh ≠ 0)
  have m2 := Int.emod_lt_of_pos (Y - cy) hl
  have ec : (i : Int) * lh = lh * i := Int.mul_comm _ _
  have hd : (Y - cy) / lh = i := block_index lh i ((Y - cy) / lh) ((Y - cy) % lh) hl m1 m2 (by omega) (by omega)
  rw [hd, Int.toNat_natCast, if_pos hi]

theorem lineIdx_some {cy lh : Int} {N : Nat} {Y : Int} {i : Nat} (h : Spec.Text.lineIdx cy lh N Y = some i) :
    0 < lh ∧ i < N ∧ cy + i * lh ≤ Y ∧ Y < cy + i * lh + lh := by
  unfold Spec.Text.lineIdx at h
  by_cases hc : lh ≤ 0 ∨ Y < cy
  · rw [if_pos hc] at h; cases h
  · rw [if_neg hc] at h
    simp only [] at h
    by_cases hi : ((Y - cy) / lh).toNat < N
    · rw [if_pos hi] at h
      injection h with h
      subst h
      have hl : 0 < lh := by omega
      have e := Int.emod_add_mul_ediv (Y - cy) lh
      have m1 := Int.emod_nonneg (Y - cy) (by omega : lh ≠ 0)
      have m2 := Int.emod_lt_of_pos (Y - cy) hl
      have d0 : 0 ≤ (Y - cy) / lh := Int.ediv_nonneg (by omega) (by omega)
      have hn : (((Y - cy) / lh).toNat : Int) = (Y - cy) / lh := Int.toNat_of_nonneg d0
      have ec : ((Y - cy) / lh) * lh = lh * ((Y - cy) / lh) := Int.mul_comm _ _
      rw [hn]
      exact ⟨hl, hi, by omega, by omega⟩
    · rw [if_neg hi] at h; cases h

theorem band_unique (cy lh : Int) (i j : Nat) (Y : Int) (hl : 0 < lh)
    (a1 : cy + i * lh ≤ Y) (a2 : Y < cy + i * lh + lh) (b1 : cy + j * lh ≤ Y) (b2 : Y < cy + j * lh + lh) : i = j := by
  have h1 := lineIdx_band cy lh (i + j + 1) Y i hl (by omega) a1 a2
  have h2 := lineIdx_band cy lh (i + j + 1) Y j hl (by omega) b1 b2
  rw [h1] at h2
  injection h2

theorem band_mul (i N : Nat) (lh : Int) (hi : i < N) (hl : 0 < lh) :
    (0 : Int) ≤ (i : Int) * lh ∧ (i : Int) * lh + lh ≤ (N : Int) * lh := by
  have h0 : (0 : Int) ≤ (i : Int) * lh := Int.mul_nonneg (by omega) (by omega)
  have h1 : ((i : Int) + 1) * lh ≤ (N : Int) * lh := Int.mul_le_mul_of_nonneg_right (by omega) (by omega)
  rw [Int.add_mul, Int.one_mul] at h1
  exact ⟨h0, h1⟩

/-- every lit bit of `A` lies in the box of a line: line `n` at column `lineX cx n`, width `segw_n + h`, rows
`[cy + n·lh, cy + (n+1)·lh)` -/
def InkInBoxes (wib : Nat) (A : Array UInt8) (cx cy h lh : Int) (segw : List Int) : Prop :=
  ∀ X Y : Int, Spec.Text.bitAt wib A X Y = true →
    ∃ n : Nat, n < segw.length ∧ Spec.Text.lineX cx n ≤ X ∧ X < Spec.Text.lineX cx n + segw.getD n 0 + h ∧
      cy + n * lh ≤ Y ∧ Y < cy + n * lh + lh

theorem boxesFit_elim (k : Spec.Text.Case) (cx cy h lh : Int) (segw : List Int)
    (hu : Spec.Text.boxesFit k cx cy h lh segw = true) :
    (0 ≤ cx ∧ 0 ≤ cy ∧ 0 < lh ∧ cy + segw.length * lh ≤ k.H) ∧
    ∀ i, i < segw.length → 0 ≤ segw.getD i 0 + h ∧ Spec.Text.lineX cx i + segw.getD i 0 + h ≤ k.W := by
  unfold Spec.Text.boxesFit at hu
  simp only [Bool.and_eq_true, decide_eq_true_eq, List.all_eq_true, List.mem_range] at hu
  exact hu

theorem inBoxes_of_ink (cx cy h lh : Int) (segw : List Int) (hl : 0 < lh) (X Y : Int)
    (hb : ∃ n : Nat, n < segw.length ∧ Spec.Text.lineX cx n ≤ X ∧ X < Spec.Text.lineX cx n + segw.getD n 0 + h ∧
      cy + n * lh ≤ Y ∧ Y < cy + n * lh + lh) : Spec.Text.inBoxes cx cy h lh segw X Y = true := by
  obtain ⟨n, hn, b1, b2, b3, b4⟩ := hb
  unfold Spec.Text.inBoxes
  rw [lineIdx_band cy lh segw.length Y n hl hn b3 b4]
  simp only [Bool.and_eq_true, decide_eq_true_eq]
  exact ⟨b1, b2⟩

theorem boxOk_of_ink (k : Spec.Text.Case) (A : Array UInt8) (hl : 0 < k.lh)
    (fa : InkInBoxes k.wib A k.cx k.cy k.h k.lh k.segw) : Spec.Text.boxOk k A = true := by
  unfold Spec.Text.boxOk
  rw [List.all_eq_true]
  intro p hp
  obtain ⟨X, Y, rfl, _, _⟩ := mem_textPixels _ p hp
  simp only []
  cases hb : Spec.Text.bitAt k.wib A (X : Int) (Y : Int) with
  | false => rfl
  | true =>
    rw [inBoxes_of_ink k.cx k.cy k.h k.lh k.segw hl _ _ (fa _ _ hb)]
    rfl

theorem boxOk1_of_ink (k : Spec.Text.Case) (C : Array UInt8) (hl1 : 0 < k.lh1)
    (fc : InkInBoxes k.wib C k.cx k.cy 1 k.lh1 k.segw1) : Spec.Text.boxOk1 k C = true := by
  unfold Spec.Text.boxOk1
  rw [List.all_eq_true]
  intro p hp
  obtain ⟨X, Y, rfl, _, _⟩ := mem_textPixels _ p hp
  simp only []
  cases hb : Spec.Text.bitAt k.wib C (X : Int) (Y : Int) with
  | false => rfl
  | true =>
    rw [inBoxes_of_ink k.cx k.cy 1 k.lh1 k.segw1 hl1 _ _ (fc _ _ hb)]
    rfl

theorem lineX_add (cx dx : Int) (n : Nat) : Spec.Text.lineX (cx + dx) n = Spec.Text.lineX cx n + Spec.Text.lineDx dx n := by
  unfold Spec.Text.lineX Spec.Text.lineDx
  by_cases h : n = 0 <;> simp [h]

theorem lineX_nonneg (cx : Int) (n : Nat) (h : 0 ≤ cx) : 0 ≤ Spec.Text.lineX cx n := by
  unfold Spec.Text.lineX; split <;> omega

theorem bitAt_false_of {wib : Nat} {A : Array UInt8} {X Y : Int} (h : Spec.Text.bitAt wib A X Y = true → False) :
    Spec.Text.bitAt wib A X Y = false := by
  cases hb : Spec.Text.bitAt wib A X Y with
  | false => rfl
  | true => exact (h hb).elim

theorem translateOk_of_ink (k : Spec.Text.Case) (A B : Array UInt8) (hW : k.W ≤ k.wib * 8)
    (fa : InkInBoxes k.wib A k.cx k.cy k.h k.lh k.segw)
    (fb : InkInBoxes k.wib B (k.cx + k.dx) (k.cy + k.dy) k.h k.lh k.segw)
    (ua : Spec.Text.boxesFit k k.cx k.cy k.h k.lh k.segw = true)
    (ub : Spec.Text.boxesFit k (k.cx + k.dx) (k.cy + k.dy) k.h k.lh k.segw = true)
    (ft : ∀ (n : Nat) (X Y : Int), n < k.segw.length → 0 ≤ X → X < k.W → 0 ≤ Y → Y < k.H →
      k.cy + n * k.lh ≤ Y → Y < k.cy + n * k.lh + k.lh →
      0 ≤ X + Spec.Text.lineDx k.dx n → X + Spec.Text.lineDx k.dx n < k.W → 0 ≤ Y + k.dy → Y + k.dy < k.H →
      Spec.Text.bitAt k.wib B (X + Spec.Text.lineDx k.dx n) (Y + k.dy) = Spec.Text.bitAt k.wib A X Y) :
    Spec.Text.translateOk k A B = true := by
  obtain ⟨⟨a1, a2, hl, a4⟩, afit⟩ := boxesFit_elim k _ _ _ _ _ ua
  obtain ⟨⟨b1, b2, _, b4⟩, bfit⟩ := boxesFit_elim k _ _ _ _ _ ub
  unfold Spec.Text.translateOk
  rw [Bool.and_eq_true, List.all_eq_true, List.all_eq_true]
  constructor
  · intro p hp
    obtain ⟨X, Y, rfl, hX, hY⟩ := mem_textPixels _ p hp
    simp only []
    cases hli : Spec.Text.lineIdx k.cy k.lh k.segw.length ((Y : Int) - k.dy) with
    | none =>
      simp only []
      rw [bitAt_false_of (A := B)]
      · rfl
      · intro hb
        obtain ⟨n, hn, _, _, c3, c4⟩ := fb _ _ hb
        have := lineIdx_band k.cy k.lh k.segw.length ((Y : Int) - k.dy) n hl hn (by omega) (by omega)
        rw [this] at hli; cases hli
    | some i =>
      obtain ⟨_, hi, c1, c2⟩ := lineIdx_some hli
      obtain ⟨m1, m2⟩ := band_mul i k.segw.length k.lh hi hl
      have hYs : 0 ≤ (Y : Int) - k.dy ∧ (Y : Int) - k.dy < k.H := by omega
      simp only []
      rw [decide_eq_true hYs, Bool.true_and]
      have hAbox : ∀ X' : Int, Spec.Text.bitAt k.wib A X' ((Y : Int) - k.dy) = true →
          Spec.Text.lineX k.cx i ≤ X' ∧ X' < Spec.Text.lineX k.cx i + k.segw.getD i 0 + k.h := by
        intro X' hb
        obtain ⟨n, hn, d1, d2, d3, d4⟩ := fa _ _ hb
        have : n = i := band_unique k.cy k.lh n i _ hl d3 d4 c1 c2
        subst this; exact ⟨d1, d2⟩
      have hBbox : Spec.Text.bitAt k.wib B (X : Int) (Y : Int) = true →
          Spec.Text.lineX (k.cx + k.dx) i ≤ (X : Int) ∧ (X : Int) < Spec.Text.lineX (k.cx + k.dx) i + k.segw.getD i 0 + k.h := by
        intro hb
        obtain ⟨n, hn, d1, d2, d3, d4⟩ := fb _ _ hb
        have : n = i := band_unique k.cy k.lh n i ((Y : Int) - k.dy) hl (by omega) (by omega) c1 c2
        subst this; exact ⟨d1, d2⟩
      obtain ⟨f1, f2⟩ := afit i hi
      obtain ⟨g1, g2⟩ := bfit i hi
      have hlx := lineX_add k.cx k.dx i
      have hx0 := lineX_nonneg k.cx i a1
      by_cases hin : (0 ≤ (X : Int) - Spec.Text.lineDx k.dx i ∧ (X : Int) - Spec.Text.lineDx k.dx i < k.W) ∧ (X : Int) < k.W
      · have key := ft i ((X : Int) - Spec.Text.lineDx k.dx i) ((Y : Int) - k.dy) hi hin.1.1 hin.1.2 hYs.1 hYs.2 c1 c2
          (by omega) (by omega) (by omega) (by omega)
        have e1 : (X : Int) - Spec.Text.lineDx k.dx i + Spec.Text.lineDx k.dx i = X := by omega
        have e2 : (Y : Int) - k.dy + k.dy = Y := by omega
        rw [e1, e2] at key
        rw [key]; simp
      · have hA : Spec.Text.bitAt k.wib A ((X : Int) - Spec.Text.lineDx k.dx i) ((Y : Int) - k.dy) = false := by
          apply bitAt_false_of
          intro hb
          have := hAbox _ hb
          apply hin; omega
        have hB : Spec.Text.bitAt k.wib B (X : Int) (Y : Int) = false := by
          apply bitAt_false_of
          intro hb
          have := hBbox hb
          apply hin; omega
        rw [hA, hB]; rfl
  · intro p hp
    obtain ⟨X, Y, rfl, hX, hY⟩ := mem_textPixels _ p hp
    simp only []
    cases hb : Spec.Text.bitAt k.wib A (X : Int) (Y : Int) with
    | false => rfl
    | true =>
      obtain ⟨n, hn, d1, d2, d3, d4⟩ := fa _ _ hb
      rw [lineIdx_band k.cy k.lh k.segw.length (Y : Int) n hl hn d3 d4]
      obtain ⟨m1, m2⟩ := band_mul n k.segw.length k.lh hn hl
      obtain ⟨g1, g2⟩ := bfit n hn
      have hlx := lineX_add k.cx k.dx n
      have hx0 := lineX_nonneg (k.cx + k.dx) n b1
      simp only [Bool.not_true, Bool.false_or, Bool.and_eq_true, decide_eq_true_eq]
      have hWi : (k.W : Int) ≤ (k.wib : Int) * 8 := by omega
      refine ⟨⟨⟨by omega, by omega⟩, by omega⟩, by omega⟩

theorem scaleOk_of_ink (k : Spec.Text.Case) (A C : Array UInt8)
    (fa : InkInBoxes k.wib A k.cx k.cy k.h k.lh k.segw)
    (fc : InkInBoxes k.wib C k.cx k.cy 1 k.lh1 k.segw1)
    (ua : Spec.Text.boxesFit k k.cx k.cy k.h k.lh k.segw = true)
    (hl1 : 0 < k.lh1) (hh : 1 ≤ k.h) (hv : 1 ≤ k.v) (hlv : k.lh = k.v * k.lh1)
    (hsw : ∀ i, i < k.segw.length → k.segw.getD i 0 + k.h = k.h * (k.segw1.getD i 0 + 1))
    (fs : ∀ (n : Nat) (I J p q : Int), n < k.segw.length → 0 ≤ p → p < k.h → 0 ≤ q → q < k.v → 0 ≤ I → 0 ≤ J → J < k.lh1 →
      Spec.Text.lineX k.cx n + k.h * I + p < k.W → k.cy + n * k.lh + k.v * J + q < k.H →
      Spec.Text.bitAt k.wib A (Spec.Text.lineX k.cx n + k.h * I + p) (k.cy + n * k.lh + k.v * J + q) =
        Spec.Text.bitAt k.wib C (Spec.Text.lineX k.cx n + I) (k.cy + n * k.lh1 + J)) :
    Spec.Text.scaleOk k A C = true := by
  obtain ⟨⟨a1, a2, hl, a4⟩, afit⟩ := boxesFit_elim k _ _ _ _ _ ua
  unfold Spec.Text.scaleOk
  rw [List.all_eq_true]
  intro p hp
  obtain ⟨X, Y, rfl, hX, hY⟩ := mem_textPixels _ p hp
  simp only []
  cases hli : Spec.Text.lineIdx k.cy k.lh k.segw.length (Y : Int) with
  | none =>
    simp only []
    rw [bitAt_false_of (A := A)]
    · rfl
    · intro hb
      obtain ⟨n, hn, _, _, c3, c4⟩ := fa _ _ hb
      rw [lineIdx_band k.cy k.lh k.segw.length (Y : Int) n hl hn c3 c4] at hli; cases hli
  | some i =>
    obtain ⟨_, hi, c1, c2⟩ := lineIdx_some hli
    simp only []
    have hAbox : Spec.Text.bitAt k.wib A (X : Int) (Y : Int) = true →
        Spec.Text.lineX k.cx i ≤ (X : Int) ∧ (X : Int) < Spec.Text.lineX k.cx i + k.segw.getD i 0 + k.h := by
      intro hb
      obtain ⟨n, hn, d1, d2, d3, d4⟩ := fa _ _ hb
      have : n = i := band_unique k.cy k.lh n i _ hl d3 d4 c1 c2
      subst this; exact ⟨d1, d2⟩
    obtain ⟨f1, f2⟩ := afit i hi
    by_cases hii : (X : Int) - Spec.Text.lineX k.cx i < 0
    · rw [if_pos hii, bitAt_false_of (A := A)]
      · rfl
      · intro hb; have := hAbox hb; omega
    · rw [if_neg hii]
      have hh0 : 0 < k.h := by omega
      have hv0 : 0 < k.v := by omega
      have e1 := Int.emod_add_mul_ediv ((X : Int) - Spec.Text.lineX k.cx i) k.h
      have e2 := Int.emod_add_mul_ediv ((Y : Int) - (k.cy + i * k.lh)) k.v
      have m1 := Int.emod_nonneg ((X : Int) - Spec.Text.lineX k.cx i) (by omega : k.h ≠ 0)
      have m2 := Int.emod_lt_of_pos ((X : Int) - Spec.Text.lineX k.cx i) hh0
      have m3 := Int.emod_nonneg ((Y : Int) - (k.cy + i * k.lh)) (by omega : k.v ≠ 0)
      have m4 := Int.emod_lt_of_pos ((Y : Int) - (k.cy + i * k.lh)) hv0
      have d1 : 0 ≤ ((X : Int) - Spec.Text.lineX k.cx i) / k.h := Int.ediv_nonneg (by omega) (by omega)
      have d2 : 0 ≤ ((Y : Int) - (k.cy + i * k.lh)) / k.v := Int.ediv_nonneg (by omega) (by omega)
      have d3 : ((Y : Int) - (k.cy + i * k.lh)) / k.v < k.lh1 :=
        Int.ediv_lt_of_lt_mul hv0 (by rw [show k.lh1 * k.v = k.lh from by rw [hlv, Int.mul_comm]]; omega)
      by_cases hXW : (X : Int) < k.W
      · have key := fs i (((X : Int) - Spec.Text.lineX k.cx i) / k.h) (((Y : Int) - (k.cy + i * k.lh)) / k.v)
          (((X : Int) - Spec.Text.lineX k.cx i) % k.h) (((Y : Int) - (k.cy + i * k.lh)) % k.v) hi m1 m2 m3 m4 d1 d2 d3
          (by omega) (by omega)
        have ex : Spec.Text.lineX k.cx i + k.h * (((X : Int) - Spec.Text.lineX k.cx i) / k.h) +
            ((X : Int) - Spec.Text.lineX k.cx i) % k.h = X := by omega
        have ey : k.cy + i * k.lh + k.v * (((Y : Int) - (k.cy + i * k.lh)) / k.v) +
            ((Y : Int) - (k.cy + i * k.lh)) % k.v = Y := by omega
        rw [ex, ey] at key
        rw [key]; simp
      · have hA : Spec.Text.bitAt k.wib A (X : Int) (Y : Int) = false := by
          apply bitAt_false_of
          intro hb; have := hAbox hb; omega
        have hC : Spec.Text.bitAt k.wib C (Spec.Text.lineX k.cx i + ((X : Int) - Spec.Text.lineX k.cx i) / k.h)
            (k.cy + i * k.lh1 + ((Y : Int) - (k.cy + i * k.lh)) / k.v) = false := by
          apply bitAt_false_of
          intro hb
          obtain ⟨n, hn, g1, g2, g3, g4⟩ := fc _ _ hb
          have : n = i := band_unique k.cy k.lh1 n i _ hl1 g3 g4 (by omega) (by omega)
          subst this
          have hs := hsw n hi
          have hmul : k.h * (((X : Int) - Spec.Text.lineX k.cx n) / k.h) ≤ k.h * k.segw1.getD n 0 :=
            Int.mul_le_mul_of_nonneg_left (by omega) (by omega)
          rw [Int.mul_add, Int.mul_one] at hs
          omega
        rw [hA, hC]; rfl

theorem unclipped_elim_lines (k : Spec.Text.Case) (hu : Spec.Text.unclipped k = true) :
    Spec.Text.boxesFit k k.cx k.cy k.h k.lh k.segw = true ∧
    Spec.Text.boxesFit k (k.cx + k.dx) (k.cy + k.dy) k.h k.lh k.segw = true ∧
    Spec.Text.boxesFit k k.cx k.cy 1 k.lh1 k.segw1 = true ∧ 1 ≤ k.h ∧ 1 ≤ k.v := by
  unfold Spec.Text.unclipped at hu
  simp only [Bool.and_eq_true, decide_eq_true_eq] at hu
  obtain ⟨⟨⟨a, b⟩, c⟩, d, e⟩ := hu
  exact ⟨a, b, c, d, e⟩

/-- **From pixel facts to the executable Spec, any number of lines, any canvas width**: if the three observed renderings
have their ink in their line boxes and — when the Spec's `unclipped` test holds — `B` is `A` translated line by line and `A`
is `C` enlarged line by line, `Spec.Text.check` answers `none`. -/
theorem check_lines_of_facts (k : Spec.Text.Case) (A B C : Array UInt8) (hW : k.W ≤ k.wib * 8)
    (hl : 0 < k.lh) (hl1 : 0 < k.lh1) (hlv : k.lh = k.v * k.lh1)
    (hsw : ∀ i, i < k.segw.length → k.segw.getD i 0 + k.h = k.h * (k.segw1.getD i 0 + 1))
    (fa : InkInBoxes k.wib A k.cx k.cy k.h k.lh k.segw)
    (fb : InkInBoxes k.wib B (k.cx + k.dx) (k.cy + k.dy) k.h k.lh k.segw)
    (fc : InkInBoxes k.wib C k.cx k.cy 1 k.lh1 k.segw1)
    (ft : Spec.Text.unclipped k = true → ∀ (n : Nat) (X Y : Int), n < k.segw.length → 0 ≤ X → X < k.W → 0 ≤ Y → Y < k.H →
      k.cy + n * k.lh ≤ Y → Y < k.cy + n * k.lh + k.lh →
      0 ≤ X + Spec.Text.lineDx k.dx n → X + Spec.Text.lineDx k.dx n < k.W → 0 ≤ Y + k.dy → Y + k.dy < k.H →
      Spec.Text.bitAt k.wib B (X + Spec.Text.lineDx k.dx n) (Y + k.dy) = Spec.Text.bitAt k.wib A X Y)
    (fs : Spec.Text.unclipped k = true → ∀ (n : Nat) (I J p q : Int), n < k.segw.length → 0 ≤ p → p < k.h → 0 ≤ q → q < k.v →
      0 ≤ I → 0 ≤ J → J < k.lh1 →
      Spec.Text.lineX k.cx n + k.h * I + p < k.W → k.cy + n * k.lh + k.v * J + q < k.H →
      Spec.Text.bitAt k.wib A (Spec.Text.lineX k.cx n + k.h * I + p) (k.cy + n * k.lh + k.v * J + q) =
        Spec.Text.bitAt k.wib C (Spec.Text.lineX k.cx n + I) (k.cy + n * k.lh1 + J)) :
    Spec.Text.check k A B C = none := by
  have hbox := boxOk_of_ink k A hl fa
  have hbox1 := boxOk1_of_ink k C hl1 fc
  unfold Spec.Text.check
  rw [hbox, hbox1]
  simp only [Bool.not_true, Bool.false_eq_true, if_false]
  cases hu : Spec.Text.unclipped k with
  | false => simp
  | true =>
    simp only [Bool.not_true, Bool.false_eq_true, if_false]
    obtain ⟨ua, ub, _, u11, u12⟩ := unclipped_elim_lines k hu
    have htr := translateOk_of_ink k A B hW fa fb ua ub (ft hu)
    have hsc := scaleOk_of_ink k A C fa fc ua hl1 u11 u12 hlv hsw (fs hu)
    rw [htr, hsc]
    simp

/-! ### the model's renderings read through the Spec's `bitAt` -/

theorem render_geo (W H : Nat) (t : TextSt) (s : List Nat) (hw : t.wrap = false) (hH : 0 ≤ t.tsH) :
    (renderText (newCanvas W H, t) s).1.geo.wib = (W + 7) / 8 ∧
    (renderText (newCanvas W H, t) s).1.bytes.size = (W + 7) / 8 * H := by
  have tb := renderText_lines_box s (newCanvas W H) (newCanvas_wf' W H) t hw hH
  constructor
  · rw [tb.geo]; rfl
  · rw [tb.size]; simp [newCanvas]

theorem bitAt_render_eq (W H : Nat) (t : TextSt) (s : List Nat) (hw : t.wrap = false) (hH : 0 ≤ t.tsH)
    (X Y : Nat) (hX : X < (W + 7) / 8 * 8) :
    Spec.Text.bitAt ((W + 7) / 8) (bytesU8 (renderText (newCanvas W H, t) s).1) (X : Int) (Y : Int) =
      getPx (renderText (newCanvas W H, t) s).1 X Y := by
  have hg := (render_geo W H t s hw hH).1
  have := bitAt_getPx (renderText (newCanvas W H, t) s).1 X Y (by rw [hg]; exact hX)
  rw [hg] at this
  exact this

/-- a bit that reads as lit is a stored bit of a row of the canvas -/
theorem bitAt_render (W H : Nat) (t : TextSt) (s : List Nat) (hw : t.wrap = false) (hH : 0 ≤ t.tsH) (X Y : Int)
    (hb : Spec.Text.bitAt ((W + 7) / 8) (bytesU8 (renderText (newCanvas W H, t) s).1) X Y = true) :
    ∃ Xn Yn : Nat, X = Xn ∧ Y = Yn ∧ Xn < (W + 7) / 8 * 8 ∧ Yn < H ∧ getPx (renderText (newCanvas W H, t) s).1 Xn Yn = true := by
  obtain ⟨hg, hsz⟩ := render_geo W H t s hw hH
  obtain ⟨b1, b2, b3⟩ := bitAt_inside hb
  obtain ⟨Xn, rfl⟩ := Int.eq_ofNat_of_zero_le b1
  obtain ⟨Yn, rfl⟩ := Int.eq_ofNat_of_zero_le b3
  have hXn : Xn < (W + 7) / 8 * 8 := by omega
  rw [bitAt_render_eq W H t s hw hH Xn Yn hXn] at hb
  refine ⟨Xn, Yn, rfl, rfl, hXn, ?_, hb⟩
  by_cases hy : Yn < H
  · exact hy
  · exfalso
    unfold getPx at hb
    rw [hg] at hb
    have : (W + 7) / 8 * H ≤ Yn * ((W + 7) / 8) + Xn / 8 := by
      have : H * ((W + 7) / 8) ≤ Yn * ((W + 7) / 8) := Nat.mul_le_mul_right _ (by omega)
      rw [Nat.mul_comm] at this; omega
    rw [Array.getD_eq_getD_getElem?, Array.getElem?_eq_none (by omega)] at hb
    simp at hb

theorem lineAdvance_eq (t : TextSt) : lineAdvance t = (t.fp.bbH : Int) * t.tsV := by
  unfold lineAdvance; exact Int.mul_comm _ _

theorem lineSt_fields (t : TextSt) (n : Nat) :
    (lineSt t n).cx = Spec.Text.lineX t.cx n ∧ (lineSt t n).cy = t.cy + n * ((t.fp.bbH : Int) * t.tsV) ∧
    (lineSt t n).tsH = t.tsH ∧ (lineSt t n).tsV = t.tsV ∧ (lineSt t n).fp = t.fp ∧ (lineSt t n).tcol = t.tcol := by
  rw [lineSt_eq, ← lineAdvance_eq]
  unfold Spec.Text.lineX
  by_cases h : n = 0
  · subst h; simp
  · rw [if_neg h, if_neg h]
    exact ⟨rfl, rfl, rfl, rfl, rfl, rfl⟩

theorem strWidth_lineSt (t : TextSt) (n : Nat) (l : List Nat) : advSum (lineSt t n) l = advSum t l := by
  rw [lineSt_eq]
  by_cases h : n = 0
  · rw [if_pos h]
  · rw [if_neg h]; exact advSum_cxy t _ _ l

/-- **Ink in the line boxes, as the Spec reads it**: any string, any canvas width, any state (wrapping off) -/
theorem ink_lines (W H : Nat) (t : TextSt) (s : List Nat) (hw : t.wrap = false) (hH : 0 ≤ t.tsH) :
    InkInBoxes ((W + 7) / 8) (bytesU8 (renderText (newCanvas W H, t) s).1) t.cx t.cy t.tsH ((t.fp.bbH : Int) * t.tsV)
      ((lines s).map (strWidth t)) := by
  intro X Y hb
  obtain ⟨Xn, Yn, rfl, rfl, hXn, hYn, hpx⟩ := bitAt_render W H t s hw hH X Y hb
  have tb := renderText_lines_box s (newCanvas W H) (newCanvas_wf' W H) t hw hH
  have hin : linesBox (geo0 W H) t (lines s) Xn Yn := by
    by_cases hin : linesBox (geo0 W H) t (lines s) Xn Yn
    · exact hin
    · exfalso
      have := tb.same Xn Yn (by rw [newCanvas_geo]; exact hXn) (by rw [newCanvas_geo]; exact hYn) (by rw [newCanvas_geo]; exact hin)
      rw [this, getPx_newCanvas] at hpx
      exact absurd hpx (by decide)
  obtain ⟨n, l, hn, hbox⟩ := linesBox_elim (geo0 W H) (lines s) t Xn Yn hin
  obtain ⟨_, q1, q2, q3, q4⟩ := hbox
  have hlen : n < (lines s).length := by
    rcases Nat.lt_or_ge n (lines s).length with h | h
    · exact h
    · rw [List.getElem?_eq_none h] at hn; cases hn
  have b0 : (geo0 W H).bx = 0 := rfl
  have b0' : (geo0 W H).byy = 0 := rfl
  rw [b0] at q1 q2
  rw [b0', lineAdvance_eq] at q3 q4
  refine ⟨n, by rw [List.length_map]; exact hlen, ?_, ?_, by omega, by omega⟩
  · unfold Spec.Text.lineX; omega
  · have : ((lines s).map (strWidth t)).getD n 0 = strWidth t l := by
      rw [List.getD_eq_getElem?_getD, List.getElem?_map, hn]; rfl
    rw [this]; unfold Spec.Text.lineX; omega

theorem lines_mem_no_lf (s : List Nat) : ∀ l, l ∈ lines s → 10 ∉ l := by
  induction s with
  | nil => intro l hl; simp [lines] at hl; subst hl; simp
  | cons ch rest ih =>
    intro l hl
    by_cases h10 : ch = 10
    · subst h10
      rw [lines_cons_lf] at hl
      rcases List.mem_cons.1 hl with h | h
      · subst h; simp
      · exact ih l h
    · obtain ⟨l0, ls, hl0, e⟩ := lines_cons_ne ch rest h10
      rw [e] at hl
      rcases List.mem_cons.1 hl with h | h
      · subst h
        have := ih l0 (by rw [hl0]; simp)
        intro hm
        rcases List.mem_cons.1 hm with h' | h'
        · exact h10 h'.symm
        · exact this h'
      · exact ih l (by rw [hl0]; exact List.mem_cons_of_mem _ h)

theorem getElem?_lt {α : Type} {xs : List α} {n : Nat} {x : α} (h : xs[n]? = some x) : n < xs.length := by
  rcases Nat.lt_or_ge n xs.length with h' | h'
  · exact h'
  · rw [List.getElem?_eq_none h'] at h; cases h

theorem getD_map_lines (f : List Nat → Int) (ls : List (List Nat)) (n : Nat) (l : List Nat) (hn : ls[n]? = some l) :
    (ls.map f).getD n 0 = f l := by
  rw [List.getD_eq_getElem?_getD, List.getElem?_map, hn]; rfl

/-- the line boxes on the canvas (the Spec's `boxesFit`) ⇒ no glyph of any line is rejected by `DrawChar`'s whole-glyph test -/
theorem noEarlyL_of_boxesFit (W H : Nat) (t : TextSt) (s : List Nat) (hh : 1 ≤ t.tsH) (hv : 1 ≤ t.tsV) (k : Spec.Text.Case)
    (hkW : k.W = W) (hkH : k.H = H)
    (hfit : Spec.Text.boxesFit k t.cx t.cy t.tsH ((t.fp.bbH : Int) * t.tsV) ((lines s).map (strWidth t)) = true) :
    NoEarlyL (geo0 W H) t s := by
  obtain ⟨⟨a1, a2, hl, a4⟩, afit⟩ := boxesFit_elim k _ _ _ _ _ hfit
  apply noEarlyL_of_lines
  intro n l hn
  have hlen := getElem?_lt hn
  obtain ⟨f1, f2, f3, f4, _, _⟩ := lineSt_fields t n
  obtain ⟨m1, m2⟩ := band_mul n (lines s).length _ hlen hl
  have g := (afit n (by rw [List.length_map]; exact hlen)).2
  rw [getD_map_lines (strWidth t) (lines s) n l hn, strWidth_eq, hkW] at g
  rw [List.length_map, hkH] at a4
  have hx0 := lineX_nonneg t.cx n a1
  exact noEarly_of_fits W H l (lineSt t n) (by rw [f3]; exact hh) (by rw [f4]; exact hv) (by rw [f1]; exact hx0)
    (by rw [f2]; omega) (by rw [f2]; omega) (by rw [f1, strWidth_lineSt]; omega)

/-- pixel value inside the band of line `n`: decided by the one-line region of that line -/
theorem px_line (W H : Nat) (t : TextSt) (s : List Nat) (hw : t.wrap = false) (hbg : t.tbg = t.tcol)
    (hne : NoEarlyL (geo0 W H) t s) (hv : 1 ≤ t.tsV) (n : Nat) (l : List Nat) (hn : (lines s)[n]? = some l)
    (X Y : Nat) (hX : X < (W + 7) / 8 * 8) (hY : Y < H)
    (b1 : t.cy + n * ((t.fp.bbH : Int) * t.tsV) ≤ (Y : Int))
    (b2 : (Y : Int) < t.cy + n * ((t.fp.bbH : Int) * t.tsV) + (t.fp.bbH : Int) * t.tsV) :
    (textR0 (geo0 W H) (lineSt t n) l X Y → getPx (renderText (newCanvas W H, t) s).1 X Y = t.tcol) ∧
    (¬ textR0 (geo0 W H) (lineSt t n) l X Y → getPx (renderText (newCanvas W H, t) s).1 X Y = false) := by
  have val := renderText_blankL W H t s hw hbg hne X Y hX hY
  obtain ⟨_, hbh⟩ := fp_pos t.font
  have hbh1 : (1 : Int) ≤ (t.fp.bbH : Int) := by unfold TextSt.fp; omega
  have hlpos : (0 : Int) < (t.fp.bbH : Int) * t.tsV := Int.mul_pos (by omega) (by omega)
  have hiff : textR0L (geo0 W H) t s X Y ↔ textR0 (geo0 W H) (lineSt t n) l X Y := by
    rw [textR0L_lines]
    constructor
    · rintro ⟨n', l', hn', hr⟩
      obtain ⟨_, f2, _, f4, f5, _⟩ := lineSt_fields t n'
      have rows := textR0_rows (geo0 W H) l' (lineSt t n') (by rw [f4]; omega) X Y hr
      rw [f2, f4, f5] at rows
      have b0' : (geo0 W H).byy = 0 := rfl
      rw [b0'] at rows
      have : n' = n := band_unique t.cy ((t.fp.bbH : Int) * t.tsV) n' n Y hlpos (by omega) (by omega) b1 b2
      subst this
      rw [hn] at hn'
      injection hn' with hn'
      subst hn'
      exact hr
    · intro hr; exact ⟨n, l, hn, hr⟩
  exact ⟨fun hr => val.1 (hiff.2 hr), fun hr => val.2 (fun h => hr (hiff.1 h))⟩

theorem lineSt_shift (t : TextSt) (dx dy : Int) (n : Nat) :
    lineSt { t with cx := t.cx + dx, cy := t.cy + dy } n =
      { lineSt t n with cx := (lineSt t n).cx + Spec.Text.lineDx dx n, cy := (lineSt t n).cy + dy } := by
  rw [lineSt_eq, lineSt_eq]
  unfold Spec.Text.lineDx
  have e : lineAdvance { t with cx := t.cx + dx, cy := t.cy + dy } = lineAdvance t := rfl
  by_cases h : n = 0
  · rw [if_pos h, if_pos h, if_pos h]
  · rw [if_neg h, if_neg h, if_neg h, e]
    simp only [TextSt.mk.injEq, and_true, true_and]
    constructor <;> omega

theorem atSizeSp_zero (base : TextSt) (hsp : base.spacing = 0) (h v x y : Int) : atSizeSp base h v 0 x y = atSize base h v x y := by
  unfold atSizeSp atSize
  cases base
  simp only at hsp
  subst hsp
  rfl

/-- line `n` at size `(h,v)` is line `n` at size 1 enlarged about the cursor of the line (extra spacing 0) -/
theorem line_scale (W H : Nat) (base : TextSt) (hsp : base.spacing = 0) (h v cx cy : Int) (hh : 0 < h) (hv : 0 < v)
    (n : Nat) (l : List Nat) (hl : 10 ∉ l) (I J p q : Int) (Xh Yh X1 Y1 : Nat)
    (hXh : Xh < W) (hYh : Yh < H) (hX1 : X1 < W) (hY1 : Y1 < H)
    (hp0 : 0 ≤ p) (hp : p < h) (hq0 : 0 ≤ q) (hq : q < v)
    (eXh : (Xh : Int) = Spec.Text.lineX cx n + h * I + p) (eYh : (Yh : Int) = cy + n * ((base.fp.bbH : Int) * v) + v * J + q)
    (eX1 : (X1 : Int) = Spec.Text.lineX cx n + I) (eY1 : (Y1 : Int) = cy + n * ((base.fp.bbH : Int) * 1) + J) :
    textR0 (geo0 W H) (lineSt (atSize base h v cx cy) n) l Xh Yh ↔
    textR0 (geo0 W H) (lineSt (atSize base 1 1 cx cy) n) l X1 Y1 := by
  have eA : lineSt (atSize base h v cx cy) n =
      atSizeSp base h v 0 (Spec.Text.lineX cx n + h * 0) (cy + v * ((n : Int) * (base.fp.bbH : Int))) := by
    rw [atSizeSp_zero base hsp, lineSt_eq]
    unfold Spec.Text.lineX
    have ela : lineAdvance (atSize base h v cx cy) = v * (base.fp.bbH : Int) := rfl
    have em : v * ((n : Int) * (base.fp.bbH : Int)) = (n : Int) * (v * (base.fp.bbH : Int)) := by
      rw [← Int.mul_assoc, Int.mul_comm v, Int.mul_assoc]
    by_cases h0 : n = 0
    · subst h0
      unfold atSize
      simp
    · rw [if_neg h0, if_neg h0, ela, em]
      unfold atSize
      simp
  have eC : lineSt (atSize base 1 1 cx cy) n =
      atSizeSp base 1 1 0 (Spec.Text.lineX cx n + 0) (cy + (n : Int) * (base.fp.bbH : Int)) := by
    rw [atSizeSp_zero base hsp, lineSt_eq]
    unfold Spec.Text.lineX
    have ela : lineAdvance (atSize base 1 1 cx cy) = 1 * (base.fp.bbH : Int) := rfl
    by_cases h0 : n = 0
    · subst h0
      unfold atSize
      simp
    · rw [if_neg h0, if_neg h0, ela]
      unfold atSize
      simp
  rw [eA, eC, ← textR0L_eq_textR0 _ l hl, ← textR0L_eq_textR0 _ l hl]
  have b0 : (geo0 W H).bx = 0 := rfl
  have b0' : (geo0 W H).byy = 0 := rfl
  have em2 : v * ((n : Int) * (base.fp.bbH : Int) + J) = (n : Int) * ((base.fp.bbH : Int) * v) + v * J := by
    rw [Int.mul_add, ← Int.mul_assoc, Int.mul_comm v, Int.mul_assoc, Int.mul_comm v]
  exact textR0L_scale (geo0 W H) l base h 0 0 (by simp) v (Spec.Text.lineX cx n) cy hh hv (Or.inr hl) 0
    ((n : Int) * (base.fp.bbH : Int)) I ((n : Int) * (base.fp.bbH : Int) + J) p q Xh Yh X1 Y1
    (clipR_geo0 W H Xh Yh hXh hYh) (clipR_geo0 W H X1 Y1 hX1 hY1) hp0 hp hq0 hq
    (by rw [b0]; omega) (by rw [b0', eYh, Int.add_zero, Int.add_assoc cy, em2]) (by rw [b0]; omega) (by rw [b0']; rw [Int.mul_one] at eY1; omega)

/-- the Spec's case record for any string on a `W × H` canvas (row stride `⌈W/8⌉` bytes): one segment per LF-separated line -/
def linesCase (W H : Nat) (cx cy dx dy h v lh lh1 : Int) (segw segw1 : List Int) (sp glyphs : Nat) : Spec.Text.Case :=
  { W := W, wib := (W + 7) / 8, H := H, cx := cx, cy := cy, dx := dx, dy := dy, h := h, v := v, lh := lh, lh1 := lh1,
    segw := segw, segw1 := segw1, spacing := sp, glyphs := glyphs }

/-- the cursor moved by `(dx, dy)` -/
def movedSt (t : TextSt) (dx dy : Int) : TextSt := { t with cx := t.cx + dx, cy := t.cy + dy }

theorem strWidth_moved (t : TextSt) (dx dy : Int) (l : List Nat) : strWidth (movedSt t dx dy) l = strWidth t l := by
  unfold movedSt
  rw [strWidth_eq, strWidth_eq, advSum_cxy]

theorem spec_check_lines_state (W H : Nat) (base : TextSt) (hsp : base.spacing = 0)
    (hwr : base.wrap = false) (hbg : base.tbg = base.tcol) (h v cx cy dx dy : Int) (s : List Nat)
    (hh : 1 ≤ h) (hv : 1 ≤ v) (hv' : v < 16777216) (glyphs : Nat) :
    Spec.Text.check
      (linesCase W H cx cy dx dy h v (lineHeight (atSize base h v cx cy)) (lineHeight (atSize base 1 1 cx cy))
        ((lines s).map (strWidth (atSize base h v cx cy))) ((lines s).map (strWidth (atSize base 1 1 cx cy))) 0 glyphs)
      (bytesU8 (renderText (newCanvas W H, atSize base h v cx cy) s).1)
      (bytesU8 (renderText (newCanvas W H,
        { atSize base h v cx cy with cx := (atSize base h v cx cy).cx + dx, cy := (atSize base h v cx cy).cy + dy }) s).1)
      (bytesU8 (renderText (newCanvas W H, atSize base 1 1 cx cy) s).1) = none := by
  obtain ⟨hbw, hbh⟩ := fp_pos base.font
  have hbh8 := (font_tables_sized.2.2.2 base.font).2.2.1
  have elh : (lineHeight (atSize base h v cx cy) : Int) = (base.fp.bbH : Int) * v :=
    lineHeight_eq (atSize base h v cx cy) (by show 0 ≤ v; omega) (by show v < 16777216; exact hv') (by unfold TextSt.fp atSize; simp only []; omega)
  have elh1 : (lineHeight (atSize base 1 1 cx cy) : Int) = (base.fp.bbH : Int) * 1 :=
    lineHeight_eq (atSize base 1 1 cx cy) (by show (0 : Int) ≤ 1; omega) (by show (1 : Int) < 16777216; omega) (by unfold TextSt.fp atSize; simp only []; omega)
  have hbh1 : (1 : Int) ≤ (base.fp.bbH : Int) := by unfold TextSt.fp; omega
  have hlpos : (0 : Int) < (base.fp.bbH : Int) * v := Int.mul_pos (by omega) (by omega)
  have eB : ({ atSize base h v cx cy with cx := (atSize base h v cx cy).cx + dx, cy := (atSize base h v cx cy).cy + dy } : TextSt)
      = movedSt (atSize base h v cx cy) dx dy := rfl
  rw [eB]
  have hmapB : (lines s).map (strWidth (movedSt (atSize base h v cx cy) dx dy)) = (lines s).map (strWidth (atSize base h v cx cy)) :=
    List.map_congr_left (fun l _ => strWidth_moved _ dx dy l)
  have hA0 : (0 : Int) ≤ (atSize base h v cx cy).tsH := by show 0 ≤ h; omega
  have hC0 : (0 : Int) ≤ (atSize base 1 1 cx cy).tsH := by show (0 : Int) ≤ 1; omega
  refine check_lines_of_facts _ _ _ _ ?hW ?hl ?hl1 ?hlv ?hsw ?fa ?fb ?fc ?ft ?fs
  case hW => show W ≤ (W + 7) / 8 * 8; omega
  case hl => show (0 : Int) < (lineHeight (atSize base h v cx cy) : Int); rw [elh]; exact hlpos
  case hl1 => show (0 : Int) < (lineHeight (atSize base 1 1 cx cy) : Int); rw [elh1]; omega
  case hlv =>
    show (lineHeight (atSize base h v cx cy) : Int) = v * (lineHeight (atSize base 1 1 cx cy) : Int)
    rw [elh, elh1, Int.mul_one, Int.mul_comm]
  case hsw =>
    intro i hi
    have hi' : i < (lines s).length := by
      have : i < ((lines s).map (strWidth (atSize base h v cx cy))).length := hi
      rwa [List.length_map] at this
    have hnl : (lines s)[i]? = some (lines s)[i] := List.getElem?_eq_getElem hi'
    show ((lines s).map (strWidth (atSize base h v cx cy))).getD i 0 + h =
      h * (((lines s).map (strWidth (atSize base 1 1 cx cy))).getD i 0 + 1)
    rw [getD_map_lines _ _ i _ hnl, getD_map_lines _ _ i _ hnl, strWidth_eq, strWidth_eq,
      advSum_scale base hsp h v cx cy cx cy]
    have e1 : (atSize base h v cx cy).tsH = h := rfl
    have e2 : (atSize base 1 1 cx cy).tsH = 1 := rfl
    rw [e1, e2]
    have : advSum (atSize base 1 1 cx cy) (lines s)[i] - 1 + 1 = advSum (atSize base 1 1 cx cy) (lines s)[i] := by omega
    rw [this]; omega
  case fa =>
    have := ink_lines W H (atSize base h v cx cy) s hwr hA0
    show InkInBoxes ((W + 7) / 8) _ cx cy h (lineHeight (atSize base h v cx cy) : Int) _
    rw [elh]; exact this
  case fb =>
    have := ink_lines W H (movedSt (atSize base h v cx cy) dx dy) s hwr hA0
    rw [hmapB] at this
    show InkInBoxes ((W + 7) / 8) _ (cx + dx) (cy + dy) h (lineHeight (atSize base h v cx cy) : Int) _
    rw [elh]; exact this
  case fc =>
    have := ink_lines W H (atSize base 1 1 cx cy) s hwr hC0
    show InkInBoxes ((W + 7) / 8) _ cx cy 1 (lineHeight (atSize base 1 1 cx cy) : Int) _
    rw [elh1]; exact this
  case ft =>
    intro hu n X Y hn x0 x1 y0 y1 c1 c2 x2 x3 y2 y3
    obtain ⟨ua0, ub0, _, _, _⟩ := unclipped_elim_lines _ hu
    have ua : Spec.Text.boxesFit (linesCase W H cx cy dx dy h v _ _ _ _ 0 glyphs) cx cy h
        (lineHeight (atSize base h v cx cy) : Int) ((lines s).map (strWidth (atSize base h v cx cy))) = true := ua0
    have ub : Spec.Text.boxesFit (linesCase W H cx cy dx dy h v _ _ _ _ 0 glyphs) (cx + dx) (cy + dy) h
        (lineHeight (atSize base h v cx cy) : Int) ((lines s).map (strWidth (atSize base h v cx cy))) = true := ub0
    rw [elh] at ua ub
    rw [← hmapB] at ub
    have hneA : NoEarlyL (geo0 W H) (atSize base h v cx cy) s :=
      noEarlyL_of_boxesFit W H (atSize base h v cx cy) s hh hv _ rfl rfl ua
    have hneB : NoEarlyL (geo0 W H) (movedSt (atSize base h v cx cy) dx dy) s :=
      noEarlyL_of_boxesFit W H (movedSt (atSize base h v cx cy) dx dy) s hh hv _ rfl rfl ub
    have hn' : n < (lines s).length := by
      have : n < ((lines s).map (strWidth (atSize base h v cx cy))).length := hn
      rwa [List.length_map] at this
    have hnl : (lines s)[n]? = some (lines s)[n] := List.getElem?_eq_getElem hn'
    have x1' : X < (W : Int) := x1
    have y1' : Y < (H : Int) := y1
    have c1' : cy + n * (lineHeight (atSize base h v cx cy) : Int) ≤ Y := c1
    have c2' : Y < cy + n * (lineHeight (atSize base h v cx cy) : Int) + (lineHeight (atSize base h v cx cy) : Int) := c2
    have x2' : 0 ≤ X + Spec.Text.lineDx dx n := x2
    have x3' : X + Spec.Text.lineDx dx n < (W : Int) := x3
    have y2' : 0 ≤ Y + dy := y2
    have y3' : Y + dy < (H : Int) := y3
    rw [elh] at c1' c2'
    show Spec.Text.bitAt ((W + 7) / 8) _ (X + Spec.Text.lineDx dx n) (Y + dy) = Spec.Text.bitAt ((W + 7) / 8) _ X Y
    obtain ⟨Xn, rfl⟩ := Int.eq_ofNat_of_zero_le x0
    obtain ⟨Yn, rfl⟩ := Int.eq_ofNat_of_zero_le y0
    obtain ⟨Xn', hXn'⟩ := Int.eq_ofNat_of_zero_le x2'
    obtain ⟨Yn', hYn'⟩ := Int.eq_ofNat_of_zero_le y2'
    rw [hXn', hYn']
    rw [bitAt_render_eq W H (atSize base h v cx cy) s hwr hA0 Xn Yn (by omega), bitAt_render_eq W H (movedSt (atSize base h v cx cy) dx dy) s hwr hA0 Xn' Yn' (by omega)]
    have pA := px_line W H (atSize base h v cx cy) s hwr hbg hneA hv n _ hnl Xn Yn (by omega) (by omega) c1' c2'
    have pB := px_line W H (movedSt (atSize base h v cx cy) dx dy) s hwr hbg hneB hv n _ hnl Xn' Yn' (by omega) (by omega)
      (by show cy + dy + n * ((base.fp.bbH : Int) * v) ≤ Yn'; omega)
      (by show (Yn' : Int) < cy + dy + n * ((base.fp.bbH : Int) * v) + (base.fp.bbH : Int) * v; omega)
    have sh := textR0_shift W H (lines s)[n] (lineSt (atSize base h v cx cy) n) (Spec.Text.lineDx dx n) dy Xn Yn Xn' Yn'
      (by omega) (by omega) (by omega) (by omega) (by omega) (by omega)
    have est := lineSt_shift (atSize base h v cx cy) dx dy n
    rw [← est] at sh
    have tc : (movedSt (atSize base h v cx cy) dx dy).tcol = (atSize base h v cx cy).tcol := rfl
    by_cases hr : textR0 (geo0 W H) (lineSt (atSize base h v cx cy) n) (lines s)[n] Xn Yn
    · rw [pA.1 hr, pB.1 (sh.2 hr), tc]
    · rw [pA.2 hr, pB.2 (fun h' => hr (sh.1 h'))]
  case fs =>
    intro hu n I J p q hn p0 p1 q0 q1 i0 j0 j1 xw yh
    obtain ⟨ua0, _, uc0, _, _⟩ := unclipped_elim_lines _ hu
    have ua : Spec.Text.boxesFit (linesCase W H cx cy dx dy h v _ _ _ _ 0 glyphs) cx cy h
        (lineHeight (atSize base h v cx cy) : Int) ((lines s).map (strWidth (atSize base h v cx cy))) = true := ua0
    have uc : Spec.Text.boxesFit (linesCase W H cx cy dx dy h v _ _ _ _ 0 glyphs) cx cy 1
        (lineHeight (atSize base 1 1 cx cy) : Int) ((lines s).map (strWidth (atSize base 1 1 cx cy))) = true := uc0
    rw [elh] at ua
    rw [elh1] at uc
    have hneA : NoEarlyL (geo0 W H) (atSize base h v cx cy) s :=
      noEarlyL_of_boxesFit W H (atSize base h v cx cy) s hh hv _ rfl rfl ua
    have hneC : NoEarlyL (geo0 W H) (atSize base 1 1 cx cy) s :=
      noEarlyL_of_boxesFit W H (atSize base 1 1 cx cy) s (by show (1 : Int) ≤ 1; omega) (by show (1 : Int) ≤ 1; omega) _ rfl rfl uc
    have hn' : n < (lines s).length := by
      have : n < ((lines s).map (strWidth (atSize base h v cx cy))).length := hn
      rwa [List.length_map] at this
    have hnl : (lines s)[n]? = some (lines s)[n] := List.getElem?_eq_getElem hn'
    have hl10 : 10 ∉ (lines s)[n] := lines_mem_no_lf s _ (List.getElem_mem hn')
    obtain ⟨⟨a1, a2, _, _⟩, _⟩ := boxesFit_elim _ _ _ _ _ _ ua
    have p1' : p < h := p1
    have q1' : q < v := q1
    have j1' : J < (lineHeight (atSize base 1 1 cx cy) : Int) := j1
    have xw' : Spec.Text.lineX cx n + h * I + p < (W : Int) := xw
    have yh' : cy + n * (lineHeight (atSize base h v cx cy) : Int) + v * J + q < (H : Int) := yh
    rw [elh] at yh'
    rw [elh1] at j1'
    show Spec.Text.bitAt ((W + 7) / 8) _ (Spec.Text.lineX cx n + h * I + p)
        (cy + n * (lineHeight (atSize base h v cx cy) : Int) + v * J + q) =
      Spec.Text.bitAt ((W + 7) / 8) _ (Spec.Text.lineX cx n + I) (cy + n * (lineHeight (atSize base 1 1 cx cy) : Int) + J)
    rw [elh, elh1]
    have hx0 := lineX_nonneg cx n a1
    have hI : I ≤ h * I := by
      have : 0 ≤ (h - 1) * I := Int.mul_nonneg (by omega) i0
      rw [Int.sub_mul, Int.one_mul] at this; omega
    have hJ : J ≤ v * J := by
      have : 0 ≤ (v - 1) * J := Int.mul_nonneg (by omega) j0
      rw [Int.sub_mul, Int.one_mul] at this; omega
    have hI0 : 0 ≤ h * I := Int.mul_nonneg (by omega) i0
    have hJ0 : 0 ≤ v * J := Int.mul_nonneg (by omega) j0
    have hn0 : (0 : Int) ≤ (n : Int) * ((base.fp.bbH : Int) * v) := Int.mul_nonneg (by omega) (by omega)
    have hn1 : (n : Int) * ((base.fp.bbH : Int) * 1) ≤ (n : Int) * ((base.fp.bbH : Int) * v) :=
      Int.mul_le_mul_of_nonneg_left (Int.mul_le_mul_of_nonneg_left (by omega) (by omega)) (by omega)
    have hn2 : (0 : Int) ≤ (n : Int) * ((base.fp.bbH : Int) * 1) := Int.mul_nonneg (by omega) (by omega)
    obtain ⟨Xh, hXh⟩ := Int.eq_ofNat_of_zero_le (a := Spec.Text.lineX cx n + h * I + p) (by omega)
    obtain ⟨Yh, hYh⟩ := Int.eq_ofNat_of_zero_le (a := cy + n * ((base.fp.bbH : Int) * v) + v * J + q) (by omega)
    obtain ⟨X1, hX1⟩ := Int.eq_ofNat_of_zero_le (a := Spec.Text.lineX cx n + I) (by omega)
    obtain ⟨Y1, hY1⟩ := Int.eq_ofNat_of_zero_le (a := cy + n * ((base.fp.bbH : Int) * 1) + J) (by omega)
    rw [hXh, hYh, hX1, hY1]
    rw [bitAt_render_eq W H (atSize base h v cx cy) s hwr hA0 Xh Yh (by omega), bitAt_render_eq W H (atSize base 1 1 cx cy) s hwr hC0 X1 Y1 (by omega)]
    have pA := px_line W H (atSize base h v cx cy) s hwr hbg hneA hv n _ hnl Xh Yh (by omega) (by omega)
      (by show cy + n * ((base.fp.bbH : Int) * v) ≤ Yh; omega)
      (by show (Yh : Int) < cy + n * ((base.fp.bbH : Int) * v) + (base.fp.bbH : Int) * v
          have : v * J + q < v * (base.fp.bbH : Int) := by
            have : v * (J + 1) ≤ v * (base.fp.bbH : Int) := Int.mul_le_mul_of_nonneg_left (by omega) (by omega)
            rw [Int.mul_add, Int.mul_one] at this; omega
          have ec : (base.fp.bbH : Int) * v = v * (base.fp.bbH : Int) := Int.mul_comm _ _
          omega)
    have pC := px_line W H (atSize base 1 1 cx cy) s hwr hbg hneC (by show (1 : Int) ≤ 1; omega) n _ hnl X1 Y1 (by omega) (by omega)
      (by show cy + n * ((base.fp.bbH : Int) * 1) ≤ Y1; omega)
      (by show (Y1 : Int) < cy + n * ((base.fp.bbH : Int) * 1) + (base.fp.bbH : Int) * 1; omega)
    have sc := line_scale W H base hsp h v cx cy (by omega) (by omega) n _ hl10 I J p q Xh Yh X1 Y1
      (by omega) (by omega) (by omega) (by omega) p0 p1' q0 q1' hXh.symm hYh.symm hX1.symm hY1.symm
    have tc : (atSize base h v cx cy).tcol = (atSize base 1 1 cx cy).tcol := rfl
    by_cases hr : textR0 (geo0 W H) (lineSt (atSize base 1 1 cx cy) n) (lines s)[n] X1 Y1
    · rw [pC.1 hr, pA.1 (sc.2 hr), tc]
    · rw [pC.2 hr, pA.2 (fun h' => hr (sc.1 h'))]


/-- the one-line case record is the one-segment instance -/
example (W H : Nat) (cx cy dx dy h v lh lh1 sw sw1 : Int) (sp glyphs : Nat) :
    oneLineCase W H cx cy dx dy h v lh lh1 sw sw1 sp glyphs = linesCase W H cx cy dx dy h v lh lh1 [sw] [sw1] sp glyphs := rfl

/-- **One line, any canvas width**: `spec_check_holds_state` without the hypothesis `W % 8 = 0` (the canvas stores `⌈W/8⌉`
bytes per row; the padding bits `W ≤ X < 8·⌈W/8⌉`, which the Spec scans as well, are never written: `DrawPixel` clips at `W`) -/
theorem spec_check_holds_state_anyW (W H : Nat) (base : TextSt) (hsp : base.spacing = 0)
    (hwr : base.wrap = false) (hbg : base.tbg = base.tcol) (h v cx cy dx dy : Int) (s : List Nat)
    (hs : 10 ∉ s) (hh : 1 ≤ h) (hv : 1 ≤ v) (hv' : v < 16777216) (glyphs : Nat) :
    Spec.Text.check
      (oneLineCase W H cx cy dx dy h v (lineHeight (atSize base h v cx cy)) (lineHeight (atSize base 1 1 cx cy))
        (strWidth (atSize base h v cx cy) s) (strWidth (atSize base 1 1 cx cy) s) 0 glyphs)
      (bytesU8 (renderText (newCanvas W H, atSize base h v cx cy) s).1)
      (bytesU8 (renderText (newCanvas W H,
        { atSize base h v cx cy with cx := (atSize base h v cx cy).cx + dx, cy := (atSize base h v cx cy).cy + dy }) s).1)
      (bytesU8 (renderText (newCanvas W H, atSize base 1 1 cx cy) s).1) = none := by
  have := spec_check_lines_state W H base hsp hwr hbg h v cx cy dx dy s hh hv hv' glyphs
  rw [lines_no_lf s hs] at this
  exact this

/-- **The executable Spec holds of the model's three renderings, any string, any canvas width** in the fixed setter order
of `text.case`: the instance of `spec_check_lines_state` for the state that order leaves. -/
theorem spec_check_lines (W H : Nat) (font : Int) (prop : Bool) (h v cx cy dx dy : Int) (s : List Nat)
    (hh : 1 ≤ h) (hv : 1 ≤ v) (hv' : v < 16777216) (glyphs : Nat) :
    Spec.Text.check
      (linesCase W H cx cy dx dy h v (lineHeight (caseState font prop 0 h v cx cy)) (lineHeight (caseState font prop 0 1 1 cx cy))
        ((lines s).map (strWidth (caseState font prop 0 h v cx cy))) ((lines s).map (strWidth (caseState font prop 0 1 1 cx cy))) 0 glyphs)
      (bytesU8 (renderText (newCanvas W H, caseState font prop 0 h v cx cy) s).1)
      (bytesU8 (renderText (newCanvas W H, caseState font prop 0 h v (cx + dx) (cy + dy)) s).1)
      (bytesU8 (renderText (newCanvas W H, caseState font prop 0 1 1 cx cy) s).1) = none := by
  rw [caseState_eq font prop h v cx cy hh hv, caseState_eq font prop h v (cx + dx) (cy + dy) hh hv,
    caseState_eq font prop 1 1 cx cy (by omega) (by omega)]
  exact spec_check_lines_state W H (mkState font prop 0 0 1 1) rfl rfl rfl h v cx cy dx dy s hh hv hv' glyphs

/-- **The final case of a session obeys the executable Spec, any string, any canvas width**: `sess_final_holds` without
`10 ∉ s` and without `W % 8 = 0`. -/
theorem sess_final_lines (W0 H0 : Nat) (calls : List TextCall) (W H : Nat) (cx cy dx dy : Int)
    (s : List Nat) (glyphs : Nat)
    (hsp : (runCalls (newCanvas W0 H0, {}) calls).2.spacing = 0)
    (hh : 1 ≤ (runCalls (newCanvas W0 H0, {}) calls).2.tsH) (hv : 1 ≤ (runCalls (newCanvas W0 H0, {}) calls).2.tsV)
    (hv' : (runCalls (newCanvas W0 H0, {}) calls).2.tsV < 16777216) :
    Spec.Text.check
      (linesCase W H cx cy dx dy (runCalls (newCanvas W0 H0, {}) calls).2.tsH (runCalls (newCanvas W0 H0, {}) calls).2.tsV
        (lineHeight (sessA (runCalls (newCanvas W0 H0, {}) calls).2 cx cy)) (lineHeight (sessC (runCalls (newCanvas W0 H0, {}) calls).2 cx cy))
        ((lines s).map (strWidth (sessA (runCalls (newCanvas W0 H0, {}) calls).2 cx cy)))
        ((lines s).map (strWidth (sessC (runCalls (newCanvas W0 H0, {}) calls).2 cx cy))) 0 glyphs)
      (bytesU8 (renderText (newCanvas W H, sessA (runCalls (newCanvas W0 H0, {}) calls).2 cx cy) s).1)
      (bytesU8 (renderText (newCanvas W H, sessA (runCalls (newCanvas W0 H0, {}) calls).2 (cx + dx) (cy + dy)) s).1)
      (bytesU8 (renderText (newCanvas W H, sessC (runCalls (newCanvas W0 H0, {}) calls).2 cx cy) s).1) = none := by
  have hbg := runCalls_bg calls (newCanvas W0 H0, {}) rfl
  generalize (runCalls (newCanvas W0 H0, {}) calls).2 = t at *
  have eA : sessA t cx cy = atSize { t with wrap := false } t.tsH t.tsV cx cy := rfl
  have eB : sessA t (cx + dx) (cy + dy) =
      { atSize { t with wrap := false } t.tsH t.tsV cx cy with
        cx := (atSize { t with wrap := false } t.tsH t.tsV cx cy).cx + dx,
        cy := (atSize { t with wrap := false } t.tsH t.tsV cx cy).cy + dy } := rfl
  have eC : sessC t cx cy = atSize { t with wrap := false } 1 1 cx cy := by
    unfold sessC setTextSize setCursor atSize
    simp
  rw [eA, eB, eC]
  exact spec_check_lines_state W H { t with wrap := false } hsp rfl hbg t.tsH t.tsV cx cy dx dy s hh hv hv' glyphs

/-- non-vacuity: "A⏎Zz" (two lines), font 0, size 2×2 at (2,1) moved by (3,2) on a 61×40 canvas (61 is not a multiple of 8):
the Spec's `unclipped` test is true, so `spec_check_lines` speaks about all four clauses, both lines, there -/
example : Spec.Text.unclipped
    (linesCase 61 40 2 1 3 2 2 2 (lineHeight (caseState 0 true 0 2 2 2 1)) (lineHeight (caseState 0 true 0 1 1 2 1))
      ((lines [65, 10, 90, 122]).map (strWidth (caseState 0 true 0 2 2 2 1)))
      ((lines [65, 10, 90, 122]).map (strWidth (caseState 0 true 0 1 1 2 1))) 0 2) = true := by
  decide +kernel

/-- the gate has teeth for lines: the same case on a canvas one line too low (`H = 30 < 1 + 2·16`) is clipped -/
example : Spec.Text.unclipped
    (linesCase 61 30 2 1 3 2 2 2 (lineHeight (caseState 0 true 0 2 2 2 1)) (lineHeight (caseState 0 true 0 1 1 2 1))
      ((lines [65, 10, 90, 122]).map (strWidth (caseState 0 true 0 2 2 2 1)))
      ((lines [65, 10, 90, 122]).map (strWidth (caseState 0 true 0 1 1 2 1))) 0 2) = false := by
  decide +kernel

/-! ## The documented deviation `scale.spacing` for strings with line feeds, canvases of any width -/

/-- a case with the reported glyph widths of every line attached -/
def withCwsL (k : Spec.Text.Case) (cws : List (List Int)) : Spec.Text.Case := { k with cws := cws }

/-- `withCws` is the one-line instance -/
example (k : Spec.Text.Case) (ws : List Int) : withCws k ws = withCwsL k [ws] := rfl

/-- the widths the driver attaches (`Driver/Text.glyphWidths`) are `glyphWs` line by line -/
example (t : TextSt) (segs : List (List Nat)) : Driver.Text.glyphWidths t segs = segs.map (glyphWs t) := rfl

/-- lit bits of a rendering whose line boxes lie on the canvas have columns `< W` (none in the row padding) -/
theorem ink_lt_W (k : Spec.Text.Case) (wib : Nat) (A : Array UInt8) (cx cy h lh : Int) (segw : List Int)
    (fa : InkInBoxes wib A cx cy h lh segw) (ua : Spec.Text.boxesFit k cx cy h lh segw = true)
    (X Y : Int) (hb : Spec.Text.bitAt wib A X Y = true) : X < k.W := by
  obtain ⟨_, afit⟩ := boxesFit_elim k _ _ _ _ _ ua
  obtain ⟨n, hn, _, d2, _, _⟩ := fa X Y hb
  have := (afit n hn).2
  omega

/-- **Spec side of the deviation clause, per line, any `Case`, any renderer**: ink of `A` in its line boxes, the line boxes
on the canvas, every glyph cell `devSource` knows inside its line box, and — for the stored bits `X < W` of the band of line
`n` — `A` showing what `devSource` points to in `C` (blank outside the cells) give `scaleDevOk`. -/
theorem scaleDevOk_of_ink (k : Spec.Text.Case) (A C : Array UInt8)
    (fa : InkInBoxes k.wib A k.cx k.cy k.h k.lh k.segw)
    (ua : Spec.Text.boxesFit k k.cx k.cy k.h k.lh k.segw = true)
    (hv : 1 ≤ k.v) (hlv : k.lh = k.v * k.lh1)
    (hcell : ∀ (n : Nat) (X xc : Int), n < k.segw.length →
      Spec.Text.devSource k.h k.spacing (k.cws.getD n []) (Spec.Text.lineX k.cx n) (Spec.Text.lineX k.cx n) X = some xc →
      X < Spec.Text.lineX k.cx n + k.segw.getD n 0 + k.h)
    (fd : ∀ (n : Nat) (X Y : Nat) (J q : Int), n < k.segw.length → (X : Int) < k.W → (Y : Int) < k.H →
      0 ≤ q → q < k.v → 0 ≤ J → J < k.lh1 → (Y : Int) = k.cy + n * k.lh + k.v * J + q →
      Spec.Text.bitAt k.wib A X Y = devBit k.wib C (k.cy + n * k.lh1 + J)
        (Spec.Text.devSource k.h k.spacing (k.cws.getD n []) (Spec.Text.lineX k.cx n) (Spec.Text.lineX k.cx n) X)) :
    Spec.Text.scaleDevOk k A C = true := by
  obtain ⟨⟨a1, a2, hl, a4⟩, afit⟩ := boxesFit_elim k _ _ _ _ _ ua
  unfold Spec.Text.scaleDevOk
  rw [List.all_eq_true]
  intro p hp
  obtain ⟨X, Y, rfl, hX, hY⟩ := mem_textPixels _ p hp
  simp only []
  cases hli : Spec.Text.lineIdx k.cy k.lh k.segw.length (Y : Int) with
  | none =>
    simp only []
    rw [bitAt_false_of (A := A)]
    · rfl
    · intro hb
      obtain ⟨n, hn, _, _, c3, c4⟩ := fa _ _ hb
      rw [lineIdx_band k.cy k.lh k.segw.length (Y : Int) n hl hn c3 c4] at hli; cases hli
  | some i =>
    obtain ⟨_, hi, c1, c2⟩ := lineIdx_some hli
    simp only []
    have hv0 : 0 < k.v := by omega
    have e2 := Int.emod_add_mul_ediv ((Y : Int) - (k.cy + i * k.lh)) k.v
    have m3 := Int.emod_nonneg ((Y : Int) - (k.cy + i * k.lh)) (by omega : k.v ≠ 0)
    have m4 := Int.emod_lt_of_pos ((Y : Int) - (k.cy + i * k.lh)) hv0
    have d2 : 0 ≤ ((Y : Int) - (k.cy + i * k.lh)) / k.v := Int.ediv_nonneg (by omega) (by omega)
    have d3 : ((Y : Int) - (k.cy + i * k.lh)) / k.v < k.lh1 :=
      Int.ediv_lt_of_lt_mul hv0 (by rw [show k.lh1 * k.v = k.lh from by rw [hlv, Int.mul_comm]]; omega)
    by_cases hXW : (X : Int) < k.W
    · have key := fd i X Y (((Y : Int) - (k.cy + i * k.lh)) / k.v) (((Y : Int) - (k.cy + i * k.lh)) % k.v)
        hi hXW (by omega) m3 m4 d2 d3 (by omega)
      rw [key]
      split
      · rename_i hd; rw [hd]; rfl
      · rename_i xc hd; rw [hd]; simp [devBit]
    · have hA : Spec.Text.bitAt k.wib A (X : Int) (Y : Int) = false :=
        bitAt_false_of (fun hb => hXW (ink_lt_W k k.wib A _ _ _ _ _ fa ua _ _ hb))
      rw [hA]
      split
      · rfl
      · rename_i xc hd
        exfalso
        have h1 := hcell i X xc hi hd
        have h2 := (afit i hi).2
        omega

/-- **From pixel facts to the executable Spec, any extra spacing, any number of lines, any canvas width**: if the three
observed renderings have their ink in their line boxes and — when the Spec's `unclipped` test holds — `B` is `A` translated
line by line and every line of `A` is what the documented advance rule gives (every glyph cell the size-1 cell enlarged,
nothing between the cells), then in the recorded class (`knownSpacingClass`) `Spec.Text.check` answers `none` or
`scale.spacing`, never `scale` (nor `box`, `box1`, `translate`). -/
theorem check_dev_lines_of_facts (k : Spec.Text.Case) (A B C : Array UInt8) (hW : k.W ≤ k.wib * 8)
    (hl : 0 < k.lh) (hl1 : 0 < k.lh1) (hlv : k.lh = k.v * k.lh1)
    (fa : InkInBoxes k.wib A k.cx k.cy k.h k.lh k.segw)
    (fb : InkInBoxes k.wib B (k.cx + k.dx) (k.cy + k.dy) k.h k.lh k.segw)
    (fc : InkInBoxes k.wib C k.cx k.cy 1 k.lh1 k.segw1)
    (ft : Spec.Text.unclipped k = true → ∀ (n : Nat) (X Y : Int), n < k.segw.length → 0 ≤ X → X < k.W → 0 ≤ Y → Y < k.H →
      k.cy + n * k.lh ≤ Y → Y < k.cy + n * k.lh + k.lh →
      0 ≤ X + Spec.Text.lineDx k.dx n → X + Spec.Text.lineDx k.dx n < k.W → 0 ≤ Y + k.dy → Y + k.dy < k.H →
      Spec.Text.bitAt k.wib B (X + Spec.Text.lineDx k.dx n) (Y + k.dy) = Spec.Text.bitAt k.wib A X Y)
    (hcell : ∀ (n : Nat) (X xc : Int), n < k.segw.length →
      Spec.Text.devSource k.h k.spacing (k.cws.getD n []) (Spec.Text.lineX k.cx n) (Spec.Text.lineX k.cx n) X = some xc →
      X < Spec.Text.lineX k.cx n + k.segw.getD n 0 + k.h)
    (fd : Spec.Text.unclipped k = true → ∀ (n : Nat) (X Y : Nat) (J q : Int), n < k.segw.length → (X : Int) < k.W → (Y : Int) < k.H →
      0 ≤ q → q < k.v → 0 ≤ J → J < k.lh1 → (Y : Int) = k.cy + n * k.lh + k.v * J + q →
      Spec.Text.bitAt k.wib A X Y = devBit k.wib C (k.cy + n * k.lh1 + J)
        (Spec.Text.devSource k.h k.spacing (k.cws.getD n []) (Spec.Text.lineX k.cx n) (Spec.Text.lineX k.cx n) X))
    (hk : Spec.Text.knownSpacingClass k = true) :
    Spec.Text.check k A B C = none ∨ Spec.Text.check k A B C = some "scale.spacing" := by
  have hbox := boxOk_of_ink k A hl fa
  have hbox1 := boxOk1_of_ink k C hl1 fc
  unfold Spec.Text.check
  rw [hbox, hbox1, hk]
  simp only [Bool.not_true, Bool.false_eq_true, if_false]
  cases hu : Spec.Text.unclipped k with
  | false => simp
  | true =>
    simp only [Bool.not_true, Bool.false_eq_true, if_false]
    obtain ⟨ua, ub, _, u11, u12⟩ := unclipped_elim_lines k hu
    have htr := translateOk_of_ink k A B hW fa fb ua ub (ft hu)
    have hdev := scaleDevOk_of_ink k A C fa ua u12 hlv hcell (fd hu)
    rw [htr, hdev]
    simp only [Bool.not_true, Bool.false_eq_true, if_false, Bool.and_self, if_true]
    cases Spec.Text.scaleOk k A C with
    | true => left; simp
    | false => right; simp

/-- model side of the translation clause, per line, any extra spacing: `B` is `A` moved (line `n` by `(lineDx dx n, dy)`)
when the line boxes of both lie on the canvas -/
theorem translate_lines_fact (W H : Nat) (base : TextSt) (hwr : base.wrap = false) (hbg : base.tbg = base.tcol)
    (h v cx cy dx dy : Int) (s : List Nat) (hh : 1 ≤ h) (hv : 1 ≤ v)
    (lh : Int) (elh : lh = (base.fp.bbH : Int) * v) (k : Spec.Text.Case) (hkW : k.W = W) (hkH : k.H = H)
    (ua : Spec.Text.boxesFit k cx cy h lh ((lines s).map (strWidth (atSize base h v cx cy))) = true)
    (ub : Spec.Text.boxesFit k (cx + dx) (cy + dy) h lh ((lines s).map (strWidth (atSize base h v cx cy))) = true)
    (n : Nat) (X Y : Int) (hn : n < (lines s).length) (x0 : 0 ≤ X) (x1 : X < W) (y0 : 0 ≤ Y) (y1 : Y < H)
    (c1 : cy + n * lh ≤ Y) (c2 : Y < cy + n * lh + lh)
    (x2 : 0 ≤ X + Spec.Text.lineDx dx n) (x3 : X + Spec.Text.lineDx dx n < W) (y2 : 0 ≤ Y + dy) (y3 : Y + dy < H) :
    Spec.Text.bitAt ((W + 7) / 8) (bytesU8 (renderText (newCanvas W H, movedSt (atSize base h v cx cy) dx dy) s).1)
        (X + Spec.Text.lineDx dx n) (Y + dy) =
      Spec.Text.bitAt ((W + 7) / 8) (bytesU8 (renderText (newCanvas W H, atSize base h v cx cy) s).1) X Y := by
  subst elh
  have hA0 : (0 : Int) ≤ (atSize base h v cx cy).tsH := by show 0 ≤ h; omega
  have hmapB : (lines s).map (strWidth (movedSt (atSize base h v cx cy) dx dy)) = (lines s).map (strWidth (atSize base h v cx cy)) :=
    List.map_congr_left (fun l _ => strWidth_moved _ dx dy l)
  rw [← hmapB] at ub
  have hneA : NoEarlyL (geo0 W H) (atSize base h v cx cy) s :=
    noEarlyL_of_boxesFit W H (atSize base h v cx cy) s hh hv k hkW hkH ua
  have hneB : NoEarlyL (geo0 W H) (movedSt (atSize base h v cx cy) dx dy) s :=
    noEarlyL_of_boxesFit W H (movedSt (atSize base h v cx cy) dx dy) s hh hv k hkW hkH ub
  have hnl : (lines s)[n]? = some (lines s)[n] := List.getElem?_eq_getElem hn
  obtain ⟨Xn, rfl⟩ := Int.eq_ofNat_of_zero_le x0
  obtain ⟨Yn, rfl⟩ := Int.eq_ofNat_of_zero_le y0
  obtain ⟨Xn', hXn'⟩ := Int.eq_ofNat_of_zero_le x2
  obtain ⟨Yn', hYn'⟩ := Int.eq_ofNat_of_zero_le y2
  rw [hXn', hYn']
  rw [bitAt_render_eq W H (atSize base h v cx cy) s hwr hA0 Xn Yn (by omega),
    bitAt_render_eq W H (movedSt (atSize base h v cx cy) dx dy) s hwr hA0 Xn' Yn' (by omega)]
  have pA := px_line W H (atSize base h v cx cy) s hwr hbg hneA hv n _ hnl Xn Yn (by omega) (by omega) c1 c2
  have pB := px_line W H (movedSt (atSize base h v cx cy) dx dy) s hwr hbg hneB hv n _ hnl Xn' Yn' (by omega) (by omega)
    (by show cy + dy + n * ((base.fp.bbH : Int) * v) ≤ Yn'; omega)
    (by show (Yn' : Int) < cy + dy + n * ((base.fp.bbH : Int) * v) + (base.fp.bbH : Int) * v; omega)
  have sh := textR0_shift W H (lines s)[n] (lineSt (atSize base h v cx cy) n) (Spec.Text.lineDx dx n) dy Xn Yn Xn' Yn'
    (by omega) (by omega) (by omega) (by omega) (by omega) (by omega)
  have est := lineSt_shift (atSize base h v cx cy) dx dy n
  rw [← est] at sh
  have tc : (movedSt (atSize base h v cx cy) dx dy).tcol = (atSize base h v cx cy).tcol := rfl
  by_cases hr : textR0 (geo0 W H) (lineSt (atSize base h v cx cy) n) (lines s)[n] Xn Yn
  · rw [pA.1 hr, pB.1 (sh.2 hr), tc]
  · rw [pA.2 hr, pB.2 (fun h' => hr (sh.1 h'))]

/-- model side of the deviation clause, per line, any extra spacing: inside the band of line `n` (glyph row `J`, sub-row `q`)
a stored bit `X < W` of the enlarged rendering shows the bit of the size-1 rendering `devSource` points to, and is blank
where `devSource` knows no glyph cell -/
theorem dev_lines_fact (W H : Nat) (base : TextSt) (hwr : base.wrap = false) (hbg : base.tbg = base.tcol)
    (h v cx cy : Int) (s : List Nat) (hh : 1 ≤ h) (hv : 1 ≤ v)
    (lh lh1 : Int) (elh : lh = (base.fp.bbH : Int) * v) (elh1 : lh1 = (base.fp.bbH : Int) * 1)
    (k : Spec.Text.Case) (hkW : k.W = W) (hkH : k.H = H)
    (ua : Spec.Text.boxesFit k cx cy h lh ((lines s).map (strWidth (atSize base h v cx cy))) = true)
    (uc : Spec.Text.boxesFit k cx cy 1 lh1 ((lines s).map (strWidth (atSize base 1 1 cx cy))) = true)
    (n : Nat) (X Y : Nat) (J q : Int) (hn : n < (lines s).length) (hXW : (X : Int) < W) (hYH : (Y : Int) < H)
    (q0 : 0 ≤ q) (q1 : q < v) (j0 : 0 ≤ J) (j1 : J < lh1) (eY : (Y : Int) = cy + n * lh + v * J + q) :
    Spec.Text.bitAt ((W + 7) / 8) (bytesU8 (renderText (newCanvas W H, atSize base h v cx cy) s).1) X Y =
      devBit ((W + 7) / 8) (bytesU8 (renderText (newCanvas W H, atSize base 1 1 cx cy) s).1) (cy + n * lh1 + J)
        (Spec.Text.devSource h base.spacing (glyphWs base (lines s)[n]) (Spec.Text.lineX cx n) (Spec.Text.lineX cx n) X) := by
  subst elh elh1
  have hA0 : (0 : Int) ≤ (atSize base h v cx cy).tsH := by show 0 ≤ h; omega
  have hC0 : (0 : Int) ≤ (atSize base 1 1 cx cy).tsH := by show (0 : Int) ≤ 1; omega
  have hneA : NoEarlyL (geo0 W H) (atSize base h v cx cy) s :=
    noEarlyL_of_boxesFit W H (atSize base h v cx cy) s hh hv k hkW hkH ua
  have hneC : NoEarlyL (geo0 W H) (atSize base 1 1 cx cy) s :=
    noEarlyL_of_boxesFit W H (atSize base 1 1 cx cy) s (by show (1 : Int) ≤ 1; omega) (by show (1 : Int) ≤ 1; omega) k hkW hkH uc
  have hnl : (lines s)[n]? = some (lines s)[n] := List.getElem?_eq_getElem hn
  obtain ⟨⟨a1, a2, _, _⟩, _⟩ := boxesFit_elim _ _ _ _ _ _ ua
  obtain ⟨_, cfit⟩ := boxesFit_elim _ _ _ _ _ _ uc
  have hx0 := lineX_nonneg cx n a1
  have hfitC : Spec.Text.lineX cx n + advSum (atSize base 1 1 cx cy) (lines s)[n] ≤ W := by
    have g := (cfit n (by rw [List.length_map]; exact hn)).2
    rw [getD_map_lines (strWidth (atSize base 1 1 cx cy)) (lines s) n _ hnl, strWidth_eq, hkW] at g
    have e : (atSize base 1 1 cx cy).tsH = 1 := rfl
    omega
  obtain ⟨_, hbh⟩ := fp_pos base.font
  have hbh1 : (1 : Int) ≤ (base.fp.bbH : Int) := by unfold TextSt.fp; omega
  have hJ : J ≤ v * J := by
    have : 0 ≤ (v - 1) * J := Int.mul_nonneg (by omega) j0
    rw [Int.sub_mul, Int.one_mul] at this; omega
  have hJ0 : 0 ≤ v * J := Int.mul_nonneg (by omega) j0
  have hn1 : (n : Int) * ((base.fp.bbH : Int) * 1) ≤ (n : Int) * ((base.fp.bbH : Int) * v) :=
    Int.mul_le_mul_of_nonneg_left (Int.mul_le_mul_of_nonneg_left (by omega) (by omega)) (by omega)
  have hn2 : (0 : Int) ≤ (n : Int) * ((base.fp.bbH : Int) * 1) := Int.mul_nonneg (by omega) (by omega)
  obtain ⟨Y1, hY1⟩ := Int.eq_ofNat_of_zero_le (a := cy + n * ((base.fp.bbH : Int) * 1) + J) (by omega)
  have hY1H : Y1 < H := by omega
  have hXW' : X < W := by omega
  have hYH' : Y < H := by omega
  rw [bitAt_render_eq W H (atSize base h v cx cy) s hwr hA0 X Y (by omega)]
  have hband : v * J + q < (base.fp.bbH : Int) * v := by
    have : v * (J + 1) ≤ v * (base.fp.bbH : Int) := Int.mul_le_mul_of_nonneg_left (by omega) (by omega)
    rw [Int.mul_add, Int.mul_one] at this
    have ec : (base.fp.bbH : Int) * v = v * (base.fp.bbH : Int) := Int.mul_comm _ _
    omega
  have pA := px_line W H (atSize base h v cx cy) s hwr hbg hneA hv n _ hnl X Y (by omega) hYH'
    (by show cy + n * ((base.fp.bbH : Int) * v) ≤ Y; omega)
    (by show (Y : Int) < cy + n * ((base.fp.bbH : Int) * v) + (base.fp.bbH : Int) * v; omega)
  have dev := line_dev W H base h v cx cy (by omega) (by omega) n (lines s)[n] hx0 hfitC J q X Y Y1 hXW' hYH' hY1H q0 q1 j0
    eY hY1.symm
  cases hd : Spec.Text.devSource h (↑base.spacing) (glyphWs base (lines s)[n]) (Spec.Text.lineX cx n) (Spec.Text.lineX cx n) ↑X with
  | none =>
    rw [hd] at dev
    simp only [devR] at dev
    simp only [devBit]
    exact pA.2 (fun hr => dev.1 hr)
  | some xc =>
    rw [hd] at dev
    simp only [devR] at dev
    simp only [devBit]
    have hxc0 : Spec.Text.lineX cx n ≤ xc := devSource_ge h base.spacing (by omega) (by omega) (glyphWs base (lines s)[n])
      (by intro w hw; unfold glyphWs at hw; simp only [List.mem_map] at hw; obtain ⟨c, _, rfl⟩ := hw; omega) _ _ _ _ hd
    have hxcn : ((xc.toNat : Nat) : Int) = xc := Int.toNat_of_nonneg (by omega)
    rw [← hxcn, hY1]
    by_cases hxW : xc.toNat < W
    · rw [bitAt_render_eq W H (atSize base 1 1 cx cy) s hwr hC0 xc.toNat Y1 (by omega)]
      have pC := px_line W H (atSize base 1 1 cx cy) s hwr hbg hneC (by show (1 : Int) ≤ 1; omega) n _ hnl xc.toNat Y1 (by omega) hY1H
        (by show cy + n * ((base.fp.bbH : Int) * 1) ≤ Y1; omega)
        (by show (Y1 : Int) < cy + n * ((base.fp.bbH : Int) * 1) + (base.fp.bbH : Int) * 1; omega)
      rw [lineSt_atSize] at pC
      have tc : (atSize base h v cx cy).tcol = (atSize base 1 1 cx cy).tcol := rfl
      by_cases hr : textR0 (geo0 W H) (atSize base 1 1 (Spec.Text.lineX cx n) (cy + n * ((base.fp.bbH : Int) * 1))) (lines s)[n] xc.toNat Y1
      · rw [pC.1 hr, pA.1 (dev.2 hr), tc]
      · rw [pC.2 hr, pA.2 (fun h' => hr (dev.1 h'))]
    · have hC : Spec.Text.bitAt ((W + 7) / 8) (bytesU8 (renderText (newCanvas W H, atSize base 1 1 cx cy) s).1)
          ((xc.toNat : Nat) : Int) ((Y1 : Nat) : Int) = false := by
        apply bitAt_false_of
        intro hb
        have := ink_lt_W k ((W + 7) / 8) _ cx cy 1 _ _ (ink_lines W H (atSize base 1 1 cx cy) s hwr hC0) uc _ _ hb
        rw [hkW] at this
        omega
      rw [hC]
      exact pA.2 (fun hr => hxW (textR0_clip W H _ _ _ _ (dev.1 hr)))

/-- **In the recorded class the model is never a plain `scale` violation — any string, any canvas width.**  For every text
state (any extra spacing, wrapping off, background = text colour), **every** string (any number of line feeds), sizes
`1 ≤ h`, `1 ≤ v < 2^24`, any cursor, offset and blank canvas of **any** width: with the case record the driver builds (one
segment width per LF-separated line, the reported line heights, the glyph widths `GetCharWidth` reports for every line
attached) `Spec.Text.check` answers `none` or — the documented deviation, excused — `scale.spacing` on the model's three
renderings whenever the case lies in the class of the finding (`knownSpacingClass`: spacing `> 0`, `h > 1`, at least two
glyphs on some line).  So on that class `box`, `box1`, `translate` and `scale` are all decided by the Spec against the
code's documented rule, line by line: in every line the glyph cells at the advance `h·w + s` are the size-1 cells enlarged
exactly `h × v` and nothing is lit between or after them (`Lemmas/MonoTextDevLines.line_dev`); the clauses beyond `box` /
`box1` under the Spec's own gate `unclipped`. -/
theorem spec_check_spacing_lines (W H : Nat) (base : TextSt)
    (hwr : base.wrap = false) (hbg : base.tbg = base.tcol) (h v cx cy dx dy : Int) (s : List Nat)
    (hh : 1 ≤ h) (hv : 1 ≤ v) (hv' : v < 16777216) (glyphs : Nat)
    (hk : Spec.Text.knownSpacingClass (withCwsL
      (linesCase W H cx cy dx dy h v (lineHeight (atSize base h v cx cy)) (lineHeight (atSize base 1 1 cx cy))
        ((lines s).map (strWidth (atSize base h v cx cy))) ((lines s).map (strWidth (atSize base 1 1 cx cy))) base.spacing glyphs)
      ((lines s).map (glyphWs base))) = true) :
    Spec.Text.check (withCwsL
      (linesCase W H cx cy dx dy h v (lineHeight (atSize base h v cx cy)) (lineHeight (atSize base 1 1 cx cy))
        ((lines s).map (strWidth (atSize base h v cx cy))) ((lines s).map (strWidth (atSize base 1 1 cx cy))) base.spacing glyphs)
      ((lines s).map (glyphWs base)))
      (bytesU8 (renderText (newCanvas W H, atSize base h v cx cy) s).1)
      (bytesU8 (renderText (newCanvas W H,
        { atSize base h v cx cy with cx := (atSize base h v cx cy).cx + dx, cy := (atSize base h v cx cy).cy + dy }) s).1)
      (bytesU8 (renderText (newCanvas W H, atSize base 1 1 cx cy) s).1) = none ∨
    Spec.Text.check (withCwsL
      (linesCase W H cx cy dx dy h v (lineHeight (atSize base h v cx cy)) (lineHeight (atSize base 1 1 cx cy))
        ((lines s).map (strWidth (atSize base h v cx cy))) ((lines s).map (strWidth (atSize base 1 1 cx cy))) base.spacing glyphs)
      ((lines s).map (glyphWs base)))
      (bytesU8 (renderText (newCanvas W H, atSize base h v cx cy) s).1)
      (bytesU8 (renderText (newCanvas W H,
        { atSize base h v cx cy with cx := (atSize base h v cx cy).cx + dx, cy := (atSize base h v cx cy).cy + dy }) s).1)
      (bytesU8 (renderText (newCanvas W H, atSize base 1 1 cx cy) s).1) = some "scale.spacing" := by
  obtain ⟨hbw, hbh⟩ := fp_pos base.font
  have hbh8 := (font_tables_sized.2.2.2 base.font).2.2.1
  have elh : (lineHeight (atSize base h v cx cy) : Int) = (base.fp.bbH : Int) * v :=
    lineHeight_eq (atSize base h v cx cy) (by show 0 ≤ v; omega) (by show v < 16777216; exact hv') (by unfold TextSt.fp atSize; simp only []; omega)
  have elh1 : (lineHeight (atSize base 1 1 cx cy) : Int) = (base.fp.bbH : Int) * 1 :=
    lineHeight_eq (atSize base 1 1 cx cy) (by show (0 : Int) ≤ 1; omega) (by show (1 : Int) < 16777216; omega) (by unfold TextSt.fp atSize; simp only []; omega)
  have hbh1 : (1 : Int) ≤ (base.fp.bbH : Int) := by unfold TextSt.fp; omega
  have hlpos : (0 : Int) < (base.fp.bbH : Int) * v := Int.mul_pos (by omega) (by omega)
  have eB : ({ atSize base h v cx cy with cx := (atSize base h v cx cy).cx + dx, cy := (atSize base h v cx cy).cy + dy } : TextSt)
      = movedSt (atSize base h v cx cy) dx dy := rfl
  rw [eB]
  have hmapB : (lines s).map (strWidth (movedSt (atSize base h v cx cy) dx dy)) = (lines s).map (strWidth (atSize base h v cx cy)) :=
    List.map_congr_left (fun l _ => strWidth_moved _ dx dy l)
  have hA0 : (0 : Int) ≤ (atSize base h v cx cy).tsH := by show 0 ≤ h; omega
  have hC0 : (0 : Int) ≤ (atSize base 1 1 cx cy).tsH := by show (0 : Int) ≤ 1; omega
  have hlen : ∀ n, n < ((lines s).map (strWidth (atSize base h v cx cy))).length → n < (lines s).length := by
    intro n hn; rwa [List.length_map] at hn
  have ecws : ∀ n (hn : n < (lines s).length), ((lines s).map (glyphWs base)).getD n [] = glyphWs base (lines s)[n] := by
    intro n hn
    rw [List.getD_eq_getElem?_getD, List.getElem?_map, List.getElem?_eq_getElem hn]; rfl
  refine check_dev_lines_of_facts _ _ _ _ ?hW ?hl ?hl1 ?hlv ?fa ?fb ?fc ?ft ?hcell ?fd hk
  case hW => show W ≤ (W + 7) / 8 * 8; omega
  case hl => show (0 : Int) < (lineHeight (atSize base h v cx cy) : Int); rw [elh]; exact hlpos
  case hl1 => show (0 : Int) < (lineHeight (atSize base 1 1 cx cy) : Int); rw [elh1]; omega
  case hlv =>
    show (lineHeight (atSize base h v cx cy) : Int) = v * (lineHeight (atSize base 1 1 cx cy) : Int)
    rw [elh, elh1, Int.mul_one, Int.mul_comm]
  case fa =>
    have := ink_lines W H (atSize base h v cx cy) s hwr hA0
    show InkInBoxes ((W + 7) / 8) _ cx cy h (lineHeight (atSize base h v cx cy) : Int) _
    rw [elh]; exact this
  case fb =>
    have := ink_lines W H (movedSt (atSize base h v cx cy) dx dy) s hwr hA0
    rw [hmapB] at this
    show InkInBoxes ((W + 7) / 8) _ (cx + dx) (cy + dy) h (lineHeight (atSize base h v cx cy) : Int) _
    rw [elh]; exact this
  case fc =>
    have := ink_lines W H (atSize base 1 1 cx cy) s hwr hC0
    show InkInBoxes ((W + 7) / 8) _ cx cy 1 (lineHeight (atSize base 1 1 cx cy) : Int) _
    rw [elh1]; exact this
  case ft =>
    intro hu n X Y hn x0 x1 y0 y1 c1 c2 x2 x3 y2 y3
    obtain ⟨ua0, ub0, _, _, _⟩ := unclipped_elim_lines _ hu
    exact translate_lines_fact W H base hwr hbg h v cx cy dx dy s hh hv _ elh _ rfl rfl ua0 ub0 n X Y (hlen n hn)
      x0 x1 y0 y1 c1 c2 x2 x3 y2 y3
  case hcell =>
    intro n X xc hn hd
    have hn' := hlen n hn
    have hnl : (lines s)[n]? = some (lines s)[n] := List.getElem?_eq_getElem hn'
    have hd' : Spec.Text.devSource h base.spacing (((lines s).map (glyphWs base)).getD n []) (Spec.Text.lineX cx n)
        (Spec.Text.lineX cx n) X = some xc := hd
    rw [ecws n hn'] at hd'
    show X < Spec.Text.lineX cx n + ((lines s).map (strWidth (atSize base h v cx cy))).getD n 0 + h
    rw [getD_map_lines _ _ n _ hnl, strWidth_eq]
    have key := devSource_lt_adv (atSize base h v cx cy) hA0 (lines s)[n] _ _ X xc hd'
    have e : (atSize base h v cx cy).tsH = h := rfl
    omega
  case fd =>
    intro hu n X Y J q hn hXW hYH q0 q1 j0 j1 eY
    obtain ⟨ua0, _, uc0, _, _⟩ := unclipped_elim_lines _ hu
    have hn' := hlen n hn
    show Spec.Text.bitAt ((W + 7) / 8) _ X Y = devBit ((W + 7) / 8) _ (cy + n * (lineHeight (atSize base 1 1 cx cy) : Int) + J)
      (Spec.Text.devSource h base.spacing (((lines s).map (glyphWs base)).getD n []) (Spec.Text.lineX cx n) (Spec.Text.lineX cx n) X)
    rw [ecws n hn']
    exact dev_lines_fact W H base hwr hbg h v cx cy s hh hv _ _ elh elh1 _ rfl rfl ua0 uc0 n X Y J q hn' hXW hYH q0 q1 j0 j1 eY

/-- **`spec_check_spacing`: the one-line instance** (kept under its name, with its historical hypotheses `W % 8 = 0` and
`10 ∉ s`, of which only the second is used — to write the case record with one segment): for every text state with any
extra spacing, in the class of the finding `Spec.Text.check` (with the reported glyph widths attached) answers `none` or
`scale.spacing` on the model's renderings, never `scale`. -/
theorem spec_check_spacing (W H : Nat) (_hW8 : W % 8 = 0) (base : TextSt)
    (hwr : base.wrap = false) (hbg : base.tbg = base.tcol) (h v cx cy dx dy : Int) (s : List Nat)
    (hs : 10 ∉ s) (hh : 1 ≤ h) (hv : 1 ≤ v) (hv' : v < 16777216) (glyphs : Nat)
    (hk : Spec.Text.knownSpacingClass (withCws
      (oneLineCase W H cx cy dx dy h v (lineHeight (atSize base h v cx cy)) (lineHeight (atSize base 1 1 cx cy))
        (strWidth (atSize base h v cx cy) s) (strWidth (atSize base 1 1 cx cy) s) base.spacing glyphs) (glyphWs base s)) = true) :
    Spec.Text.check (withCws
      (oneLineCase W H cx cy dx dy h v (lineHeight (atSize base h v cx cy)) (lineHeight (atSize base 1 1 cx cy))
        (strWidth (atSize base h v cx cy) s) (strWidth (atSize base 1 1 cx cy) s) base.spacing glyphs) (glyphWs base s))
      (bytesU8 (renderText (newCanvas W H, atSize base h v cx cy) s).1)
      (bytesU8 (renderText (newCanvas W H,
        { atSize base h v cx cy with cx := (atSize base h v cx cy).cx + dx, cy := (atSize base h v cx cy).cy + dy }) s).1)
      (bytesU8 (renderText (newCanvas W H, atSize base 1 1 cx cy) s).1) = none ∨
    Spec.Text.check (withCws
      (oneLineCase W H cx cy dx dy h v (lineHeight (atSize base h v cx cy)) (lineHeight (atSize base 1 1 cx cy))
        (strWidth (atSize base h v cx cy) s) (strWidth (atSize base 1 1 cx cy) s) base.spacing glyphs) (glyphWs base s))
      (bytesU8 (renderText (newCanvas W H, atSize base h v cx cy) s).1)
      (bytesU8 (renderText (newCanvas W H,
        { atSize base h v cx cy with cx := (atSize base h v cx cy).cx + dx, cy := (atSize base h v cx cy).cy + dy }) s).1)
      (bytesU8 (renderText (newCanvas W H, atSize base 1 1 cx cy) s).1) = some "scale.spacing" := by
  have key := spec_check_spacing_lines W H base hwr hbg h v cx cy dx dy s hh hv hv' glyphs
  rw [lines_no_lf s hs] at key
  exact key hk

/-- non-vacuity of `spec_check_spacing_lines`: "ab⏎⏎cd" (three lines, the middle one empty) in font 0 with extra spacing 1 at
size 2×1, cursor (3,1), on a 29×26 canvas (29 is not a multiple of 8: row stride 4 bytes, 3 padding bits per row) lies in the
class and is unclipped (the first line ends exactly at the right edge) … -/
def devStL : TextSt := { spacing := 1, wrap := false, tcol := true, tbg := true }
def devCaseL : Spec.Text.Case :=
  withCwsL (linesCase 29 26 3 1 0 0 2 1 (lineHeight (atSize devStL 2 1 3 1)) (lineHeight (atSize devStL 1 1 3 1))
    ((lines [97, 98, 10, 10, 99, 100]).map (strWidth (atSize devStL 2 1 3 1)))
    ((lines [97, 98, 10, 10, 99, 100]).map (strWidth (atSize devStL 1 1 3 1))) devStL.spacing 2)
    ((lines [97, 98, 10, 10, 99, 100]).map (glyphWs devStL))

example : Spec.Text.knownSpacingClass devCaseL = true ∧ Spec.Text.unclipped devCaseL = true ∧
    devCaseL.cws = [[6, 6], [], [6, 6]] := by decide +kernel

/-- … and the Spec's verdict on the model's renderings is the excused `scale.spacing` (the plain `scale` clause is false in
both outer lines) -/
example : Spec.Text.check devCaseL (bytesU8 (renderText (newCanvas 29 26, atSize devStL 2 1 3 1) [97, 98, 10, 10, 99, 100]).1)
    (bytesU8 (renderText (newCanvas 29 26, atSize devStL 2 1 3 1) [97, 98, 10, 10, 99, 100]).1)
    (bytesU8 (renderText (newCanvas 29 26, atSize devStL 1 1 3 1) [97, 98, 10, 10, 99, 100]).1) = some "scale.spacing" := by
  decide +kernel

/-- **The final case of a session, any extra spacing, any string, any canvas width**: whatever text state `t` a call history
on one image object leaves (`Mono.TextCall`: setters in any order, queries, earlier texts, re-creations, direct `DrawChar`s),
if its sizes are `≥ 1` and the final case lies in the class of the recorded finding, `Spec.Text.check` answers `none` or
`scale.spacing` on the three renderings of the final case (`Mono.sessA`, `Mono.sessC`), never `scale`, `box` or `translate`. -/
theorem sess_final_spacing_lines (W0 H0 : Nat) (calls : List TextCall) (W H : Nat) (cx cy dx dy : Int)
    (s : List Nat) (glyphs : Nat) (t : TextSt) (ht : t = (runCalls (newCanvas W0 H0, {}) calls).2)
    (hh : 1 ≤ t.tsH) (hv : 1 ≤ t.tsV) (hv' : t.tsV < 16777216)
    (hk : Spec.Text.knownSpacingClass (withCwsL
      (linesCase W H cx cy dx dy t.tsH t.tsV (lineHeight (sessA t cx cy)) (lineHeight (sessC t cx cy))
        ((lines s).map (strWidth (sessA t cx cy))) ((lines s).map (strWidth (sessC t cx cy))) t.spacing glyphs)
      ((lines s).map (glyphWs t))) = true) :
    Spec.Text.check (withCwsL
      (linesCase W H cx cy dx dy t.tsH t.tsV (lineHeight (sessA t cx cy)) (lineHeight (sessC t cx cy))
        ((lines s).map (strWidth (sessA t cx cy))) ((lines s).map (strWidth (sessC t cx cy))) t.spacing glyphs)
      ((lines s).map (glyphWs t)))
      (bytesU8 (renderText (newCanvas W H, sessA t cx cy) s).1)
      (bytesU8 (renderText (newCanvas W H, sessA t (cx + dx) (cy + dy)) s).1)
      (bytesU8 (renderText (newCanvas W H, sessC t cx cy) s).1) = none ∨
    Spec.Text.check (withCwsL
      (linesCase W H cx cy dx dy t.tsH t.tsV (lineHeight (sessA t cx cy)) (lineHeight (sessC t cx cy))
        ((lines s).map (strWidth (sessA t cx cy))) ((lines s).map (strWidth (sessC t cx cy))) t.spacing glyphs)
      ((lines s).map (glyphWs t)))
      (bytesU8 (renderText (newCanvas W H, sessA t cx cy) s).1)
      (bytesU8 (renderText (newCanvas W H, sessA t (cx + dx) (cy + dy)) s).1)
      (bytesU8 (renderText (newCanvas W H, sessC t cx cy) s).1) = some "scale.spacing" := by
  have hbg : t.tbg = t.tcol := by rw [ht]; exact runCalls_bg calls (newCanvas W0 H0, {}) rfl
  have eA : sessA t cx cy = atSize { t with wrap := false } t.tsH t.tsV cx cy := rfl
  have eB : sessA t (cx + dx) (cy + dy) =
      { atSize { t with wrap := false } t.tsH t.tsV cx cy with
        cx := (atSize { t with wrap := false } t.tsH t.tsV cx cy).cx + dx,
        cy := (atSize { t with wrap := false } t.tsH t.tsV cx cy).cy + dy } := rfl
  have eC : sessC t cx cy = atSize { t with wrap := false } 1 1 cx cy := by
    unfold sessC setTextSize setCursor atSize
    simp
  rw [eA, eC] at hk
  rw [eA, eB, eC]
  exact spec_check_spacing_lines W H { t with wrap := false } rfl hbg t.tsH t.tsV cx cy dx dy s hh hv hv' glyphs hk

/-- non-vacuity of `sess_final_spacing_lines`: a history that leaves extra spacing 2 and size 3×2 (spacing set before the
size, font set last) -/
example : (runCalls (newCanvas 8 8, {}) [.spacing 2, .size 3 2, .color true, .font 0 true]).2.spacing = 2 ∧
    (runCalls (newCanvas 8 8, {}) [.spacing 2, .size 3 2, .color true, .font 0 true]).2.tsH = 3 := by decide

end RawPanelVerif.C20
