import RawPanelVerif.Lemmas.MonoOps
import RawPanelVerif.Lemmas.MonoTextXform
import RawPanelVerif.Spec.TextSpec
/-!
# C20 — Text metrics bound the ink; rendering is translation- and scale-consistent

* `ink_in_box` — for every string without line feed, every font number, proportional/fixed mode, spacing, text size
  `h ≥ 0`, any `v`, any starting canvas / bounding box / cursor, with wrapping off: every stored bit outside
  `clip ∩ [cx, cx + StrWidth + h) × [cy, cy + v·cellHeight)` is unchanged by `RenderText` — the ink lies in the box callers
  centre and right-align with (`StrWidth + h` = sum of the advances).  No "unclipped" hypothesis is needed: clipping only
  removes ink.  `lineHeight_eq` identifies `v·cellHeight` with the reported `LineHeight()` for sizes `0 ≤ v < 2^24`.
* `font_tables_sized`, `glyph_facts`, `glyph_index_in_range` — over the font tables regenerated from /repo on every run:
  every table has 96 glyphs of the declared width and every table index computed by `GetCharWidth`, `GetCharStart`,
  `DrawChar` for any byte is inside the table (no index panic for any string).
* `scale_with_spacing_counterexample` — the recorded genuine finding C20.scale_with_spacing: with extra character
  spacing 1 at size 2 the rendering of "ab" is not the size-1 rendering enlarged (advance is `h·w + s`, not `h·(w+s)`).

* `translation` — on a blank canvas (any size), any font/mode/spacing/size, wrapping off, background = text colour
  (how every caller in the repo draws text), any string without line feed: if no glyph is rejected by `DrawChar`'s
  whole-glyph off-canvas test at either cursor (`NoEarly`, implied by "the text box lies on the canvas":
  `noEarly_of_fits`), then the rendering at cursor `(cx+dx, cy+dy)` read at `(X+dx, Y+dy)` equals the rendering at
  `(cx, cy)` read at `(X, Y)` — for every pair of on-canvas pixels.  `translation_fits` is the corollary for boxes
  that fit.
* `scale_zero_spacing` — with extra character spacing 0: the rendering at text size `(h, v)` read at
  `(cx + h·I + p, cy + v·J + q)` (`0 ≤ p < h`, `0 ≤ q < v`) equals the size-`(1,1)` rendering read at `(cx + I, cy + J)`:
  every source pixel becomes an `h × v` block.  With spacing ≠ 0 this is false of the code (the finding below), so
  spacing = 0 is exactly the guard the code needs.
-/
namespace RawPanelVerif.C20
open RawPanelVerif RawPanelVerif.Mono RawPanelVerif.Gen

/-- sum of the cursor advances = `StrWidth + h` -/
def advSum (t : TextSt) : List Nat → Int
  | [] => 0
  | ch :: rest => ((charWidth t ch : Int) * t.tsH + t.spacing) + advSum t rest

theorem foldl_adv (t : TextSt) (s : List Nat) (acc : Int) :
    s.foldl (fun w ch => w + (charWidth t ch : Int) * t.tsH + t.spacing) acc = acc + advSum t s := by
  induction s generalizing acc with
  | nil => simp [advSum]
  | cons ch rest ih => simp only [List.foldl_cons, advSum]; rw [ih]; omega

theorem strWidth_eq (t : TextSt) (s : List Nat) : strWidth t s = advSum t s - t.tsH := by
  unfold strWidth; rw [foldl_adv]; omega

theorem advSum_nonneg (t : TextSt) (h : 0 ≤ t.tsH) (s : List Nat) : 0 ≤ advSum t s := by
  induction s with
  | nil => simp [advSum]
  | cons ch rest ih =>
    unfold advSum
    have : (0 : Int) ≤ (charWidth t ch : Int) * t.tsH := Int.mul_nonneg (by omega) h
    omega

theorem advSum_cx (t : TextSt) (x : Int) (s : List Nat) : advSum { t with cx := x } s = advSum t s := by
  induction s with
  | nil => rfl
  | cons ch rest ih => unfold advSum; rw [ih]; rfl

theorem advSum_cxy (t : TextSt) (x y : Int) (s : List Nat) : advSum { t with cx := x, cy := y } s = advSum t s := by
  induction s with
  | nil => rfl
  | cons ch rest ih => unfold advSum; rw [ih]; rfl

/-- the text box in absolute coordinates (before clipping) for cursor `(cx,cy)` -/
def textBox (g : Geom) (t : TextSt) (w : Int) : Region :=
  boxR g (t.cx + g.bx) (t.cy + g.byy) (t.cx + g.bx + w) (t.cy + g.byy + (t.fp.bbH : Int) * t.tsV)

theorem renderText_box (s : List Nat) (hs : 10 ∉ s) (c : Canvas) (hwf : c.WF) (t : TextSt)
    (hw : t.wrap = false) (hH : 0 ≤ t.tsH) :
    Touch (textBox c.geo t (advSum t s)) c (renderText (c, t) s).1 := by
  unfold renderText
  induction s generalizing c t with
  | nil => exact Touch.refl _ c hwf
  | cons ch rest ih =>
    have hch : ch ≠ 10 := fun e => hs (by simp [e])
    have hrest : 10 ∉ rest := fun e => hs (by simp [e])
    rw [List.foldl_cons]
    have hadv : (0 : Int) ≤ (charWidth t ch : Int) * t.tsH := Int.mul_nonneg (by omega) hH
    have hrn := advSum_nonneg t hH rest
    by_cases h13 : ch = 13
    · -- CR: skipped, cursor unchanged
      have hw13 : writeChar (c, t) ch = (c, t) := by
        unfold writeChar; simp [h13]
      rw [hw13]
      refine (ih hrest c hwf t hw hH).mono ?_
      rintro X Y ⟨hc, q1, q2, q3, q4⟩
      refine ⟨hc, q1, ?_, q3, q4⟩
      unfold advSum; omega
    · -- a drawn character
      have hwc : writeChar (c, t) ch =
          (drawChar c t t.cx t.cy ch t.tcol t.tbg t.tsH t.tsV,
            { t with cx := t.cx + t.tsH * (charWidth t ch : Int) + t.spacing }) := by
        unfold writeChar; simp [hch, h13, hw]
      rw [hwc]
      have t1 := drawChar_touch c hwf t t.cx t.cy ch t.tcol t.tbg t.tsH t.tsV
      have t1' : Touch (textBox c.geo t (advSum t (ch :: rest))) c
          (drawChar c t t.cx t.cy ch t.tcol t.tbg t.tsH t.tsV) := by
        refine t1.mono ?_
        rintro X Y ⟨hc, q1, q2, q3, q4⟩
        refine ⟨hc, q1, ?_, q3, q4⟩
        unfold advSum; omega
      have t2 := ih hrest _ t1.wf { t with cx := t.cx + t.tsH * (charWidth t ch : Int) + t.spacing } hw hH
      rw [t1.geo, advSum_cx] at t2
      refine t1'.trans (t2.mono ?_)
      rintro X Y ⟨hc, q1, q2, q3, q4⟩
      have e : t.tsH * (charWidth t ch : Int) = (charWidth t ch : Int) * t.tsH := Int.mul_comm _ _
      refine ⟨hc, ?_, ?_, q3, q4⟩
      · simp only [] at q1; omega
      · simp only [] at q2; unfold advSum; omega

/-- **Ink in box**: for a string without line feed rendered with wrapping off, every stored bit outside
`clip ∩ [cx, cx + StrWidth + h) × [cy, cy + v·cellHeight)` keeps its value. -/
theorem ink_in_box (s : List Nat) (hs : 10 ∉ s) (c : Canvas) (hwf : c.WF) (t : TextSt)
    (hw : t.wrap = false) (hH : 0 ≤ t.tsH) (X Y : Nat) (hX : X < c.geo.wib * 8) (hY : Y < c.geo.H)
    (hout : ¬ ((t.cx + c.geo.bx ≤ (X : Int) ∧ (X : Int) < t.cx + c.geo.bx + (strWidth t s + t.tsH)) ∧
               (t.cy + c.geo.byy ≤ (Y : Int) ∧ (Y : Int) < t.cy + c.geo.byy + (t.fp.bbH : Int) * t.tsV))) :
    getPx (renderText (c, t) s).1 X Y = getPx c X Y := by
  refine (renderText_box s hs c hwf t hw hH).same X Y hX hY ?_
  rintro ⟨_, q1, q2, q3, q4⟩
  apply hout
  rw [strWidth_eq]
  exact ⟨⟨q1, by omega⟩, q3, q4⟩

/-- the reported `LineHeight()` is `v · cellHeight` for every sensible size -/
theorem lineHeight_eq (t : TextSt) (h0 : 0 ≤ t.tsV) (h1 : t.tsV < 16777216) (hb : t.fp.bbH ≤ 255) :
    (lineHeight t : Int) = (t.fp.bbH : Int) * t.tsV := by
  unfold lineHeight
  obtain ⟨n, hn⟩ := Int.eq_ofNat_of_zero_le h0
  rw [hn] at h1 ⊢
  have e0 : (n : Int).emod 4294967296 = (n : Int) := Int.emod_eq_of_lt (by omega) (by omega)
  have e1 : ((n : Int).emod 4294967296).toNat = n := by rw [e0]; simp
  rw [e1]
  have hlt : n * t.fp.bbH < 4294967296 := by
    calc n * t.fp.bbH ≤ n * 255 := Nat.mul_le_mul_left _ hb
      _ < 4294967296 := by omega
  rw [Nat.mod_eq_of_lt hlt]
  simp [Int.mul_comm]

/-! ## Font tables (regenerated from /repo) -/

/-- the three cases of `SetFont` -/
theorem fontParams_cases (n : Int) :
    fontParams n = fontParams 1 ∨ fontParams n = fontParams 2 ∨ fontParams n = fontParams 0 := by
  unfold fontParams
  by_cases h1 : n = 1
  · left; simp [h1]
  · by_cases h2 : n = 2
    · right; left; simp [h2]
    · right; right; simp [h1, h2]

theorem font_tables_sized :
    (fontParams 0).table.size = 96 * (fontParams 0).memW ∧
    (fontParams 1).table.size = 96 * (fontParams 1).memW ∧
    (fontParams 2).table.size = 96 * (fontParams 2).memW ∧
    (∀ n : Int, (fontParams n).first = 32 ∧ (fontParams n).last = 127 ∧ (fontParams n).bbH ≤ 8 ∧
      1 ≤ (fontParams n).memW ∧ (fontParams n).memW ≤ (fontParams n).bbW ∧ (fontParams n).bbW ≤ 8) := by
  refine ⟨by decide +kernel, by decide +kernel, by decide +kernel, ?_⟩
  intro n
  rcases fontParams_cases n with h | h | h <;> rw [h] <;> decide +kernel

/-- every table index `(ch - first) * memW + a` with `ch` in the font's range and `a < memW` is inside the table -/
theorem glyph_index_in_range (n : Int) (ch a : Nat) (hr : (fontParams n).inRange ch = true)
    (ha : a < (fontParams n).memW) :
    (ch - (fontParams n).first) * (fontParams n).memW + a < (fontParams n).table.size := by
  obtain ⟨s0, s1, s2, hall⟩ := font_tables_sized
  obtain ⟨hf, hl, _, _, _, _⟩ := hall n
  unfold FontParams.inRange at hr
  simp only [Bool.and_eq_true, decide_eq_true_eq] at hr
  rw [hf, hl] at hr
  have hsz : (fontParams n).table.size = 96 * (fontParams n).memW := by
    rcases fontParams_cases n with h | h | h
    · rw [h]; exact s1
    · rw [h]; exact s2
    · rw [h]; exact s0
  rw [hsz, hf]
  have : ch - 32 ≤ 95 := by omega
  calc (ch - 32) * (fontParams n).memW + a < (ch - 32) * (fontParams n).memW + (fontParams n).memW := by omega
    _ = (ch - 32 + 1) * (fontParams n).memW := by rw [Nat.add_mul]; simp
    _ ≤ 96 * (fontParams n).memW := Nat.mul_le_mul_right _ (by omega)


/-- text state with a given font number / mode (the only fields glyph metrics read) -/
def tf (n : Int) (prop : Bool) : TextSt := { font := n, prop := prop }

/-- per glyph: blank-column counts are consistent, and the width of a blank glyph fits the table row -/
def glyphOk (n : Int) (ch : Nat) : Bool :=
  let p := fontParams n
  let off := (ch - p.first) * p.memW
  let sb := startBlanks p off p.memW 0
  let eb := endBlanks p off p.memW 0
  (sb == p.memW || sb + eb < p.memW) && sb ≤ p.memW &&
  (constrain (p.bbW / 2 : Nat) 3 p.bbW).toNat ≤ p.memW + 1 &&
  ((p.tight == 1 && p.memW + 1 == p.bbW) || (p.tight == 0 && p.memW == p.bbW))

/-- checked over the regenerated tables: all 96 glyphs of all three fonts -/
theorem glyph_facts : ∀ n ∈ [0, 1, 2], ∀ ch ∈ List.range 128, 32 ≤ ch → glyphOk (n : Int) ch = true := by
  decide +kernel

theorem glyph_facts' (n : Int) (ch : Nat) (h1 : 32 ≤ ch) (h2 : ch ≤ 127) : glyphOk n ch = true := by
  have key : ∀ m : Int, m ∈ [0, 1, 2] → glyphOk m ch = true :=
    fun m hm => glyph_facts m hm ch (by simp; omega) h1
  have hdep : ∀ m : Int, fontParams n = fontParams m → glyphOk n ch = glyphOk m ch := by
    intro m hm; unfold glyphOk; rw [hm]
  rcases fontParams_cases n with h | h | h
  · rw [hdep 1 h]; exact key 1 (by simp)
  · rw [hdep 2 h]; exact key 2 (by simp)
  · rw [hdep 0 h]; exact key 0 (by simp)

/-- **No index panic in `DrawChar`**: for any font number, mode, byte and column the font-table index it reads is
inside the (regenerated) table. -/
theorem drawChar_index_in_range (n : Int) (prop : Bool) (ch i : Nat)
    (hr : (fontParams n).inRange ch = true) (hi : i < charWidth (tf n prop) ch)
    (hskip : ¬ ((prop || decide ((fontParams n).tight > 0)) = true ∧ i + 1 = charWidth (tf n prop) ch)) :
    (ch - (fontParams n).first) * (fontParams n).memW + charStart (tf n prop) ch + i < (fontParams n).table.size := by
  obtain ⟨_, _, _, hall⟩ := font_tables_sized
  obtain ⟨hf, hl, _, hm1, hmw, hbw⟩ := hall n
  have hr' := hr
  unfold FontParams.inRange at hr'
  simp only [Bool.and_eq_true, decide_eq_true_eq] at hr'
  rw [hf, hl] at hr'
  have hg := glyph_facts' n ch hr'.1 hr'.2
  unfold glyphOk at hg
  simp only [Bool.and_eq_true, Bool.or_eq_true, beq_iff_eq, decide_eq_true_eq] at hg
  obtain ⟨⟨⟨hsb, hsble⟩, hspace⟩, htight⟩ := hg
  have key : charStart (tf n prop) ch + i < (fontParams n).memW := by
    unfold charWidth charStart tf TextSt.fp at *
    simp only [hr, Bool.true_and] at hi hskip ⊢
    cases prop with
    | true =>
      simp only [if_true, Bool.true_or, true_and] at hi hskip ⊢
      split at hi
      · rename_i hblank
        rw [if_pos hblank]
        rw [if_pos hblank] at hskip
        have : (constrain ((fontParams n).bbW / 2 : Nat) 3 (fontParams n).bbW).toNat % 256 ≤ (fontParams n).memW + 1 :=
          Nat.le_trans (Nat.mod_le _ _) hspace
        omega
      · rename_i hblank
        rw [if_neg hblank] at hskip ⊢
        rcases hsb with hsb | hsb
        · exact absurd hsb hblank
        · omega
    | false =>
      simp only [Bool.false_eq_true, if_false, Bool.false_or] at hi hskip ⊢
      rcases htight with ⟨ht, hm⟩ | ⟨ht, hm⟩
      · have : (fontParams n).tight > 0 := by omega
        simp only [this, decide_true, true_and] at hskip
        omega
      · omega
  have := glyph_index_in_range n ch (charStart (tf n prop) ch + i) hr key
  omega

/-! ## Translation and scale consistency (exact pixel equalities) -/

theorem fp_pos (n : Int) : 1 ≤ (fontParams n).bbW ∧ 1 ≤ (fontParams n).bbH := by
  rcases fontParams_cases n with h | h | h <;> rw [h] <;> decide +kernel

/-- a text whose box `[cx, cx + advSum) × [cy, …)` starts on the canvas and ends inside its width is never rejected by
`DrawChar`'s whole-glyph test -/
theorem noEarly_of_fits (W H : Nat) (s : List Nat) (t : TextSt) (hh : 1 ≤ t.tsH) (hv : 1 ≤ t.tsV)
    (hx : 0 ≤ t.cx) (hy : 0 ≤ t.cy) (hyH : t.cy ≤ H) (hfit : t.cx + advSum t s ≤ W) :
    NoEarly (geo0 W H) t s := by
  induction s generalizing t with
  | nil => simp [NoEarly]
  | cons ch rest ih =>
    simp only [NoEarly]
    have hadv : advSum t (ch :: rest) = ((charWidth t ch : Int) * t.tsH + t.spacing) + advSum t rest := rfl
    have hnn := advSum_nonneg t (by omega) rest
    have hcwh : (0 : Int) ≤ (charWidth t ch : Int) * t.tsH := Int.mul_nonneg (by omega) (by omega)
    by_cases h13 : ch = 13
    · simp only [h13, if_true]
      exact ih t hh hv hx hy hyH (by rw [hadv] at hfit; omega)
    · simp only [h13, if_false]
      refine ⟨?_, ?_⟩
      · unfold earlyRet getBWidth
        have hg : (geo0 W H).bw = W := rfl
        have hgW : (geo0 W H).W = W := rfl
        have hgH : (geo0 W H).H = H := rfl
        rw [hg, hgW, hgH]
        have e1 : ((charWidth t ch : Int) - 1) * t.tsH = (charWidth t ch : Int) * t.tsH - t.tsH := by
          rw [Int.sub_mul, Int.one_mul]
        have ⟨p1, p2⟩ := fp_pos t.font
        have b1 : (1 : Int) ≤ (t.fp.bbW : Int) * t.tsH := by
          have : (1 : Int) * 1 ≤ (t.fp.bbW : Int) * t.tsH :=
            Int.mul_le_mul (by unfold TextSt.fp; omega) hh (by omega) (by omega)
          omega
        have b2 : (1 : Int) ≤ (t.fp.bbH : Int) * t.tsV := by
          have : (1 : Int) * 1 ≤ (t.fp.bbH : Int) * t.tsV :=
            Int.mul_le_mul (by unfold TextSt.fp; omega) hv (by omega) (by omega)
          omega
        rw [e1]
        split <;> omega
      · apply ih
        · exact hh
        · exact hv
        · show 0 ≤ t.cx + t.tsH * (charWidth t ch : Int) + t.spacing
          rw [Int.mul_comm]; omega
        · exact hy
        · exact hyH
        · rw [advSum_cx]
          show t.cx + t.tsH * (charWidth t ch : Int) + t.spacing + advSum t rest ≤ W
          rw [Int.mul_comm]; rw [hadv] at hfit; omega

/-- **Translation consistency** (exact, every pixel pair on the canvas). -/
theorem translation (W H : Nat) (t : TextSt) (s : List Nat) (hs : 10 ∉ s) (hw : t.wrap = false)
    (hbg : t.tbg = t.tcol) (dx dy : Int)
    (hne : NoEarly (geo0 W H) t s)
    (hne' : NoEarly (geo0 W H) { t with cx := t.cx + dx, cy := t.cy + dy } s)
    (X Y X' Y' : Nat) (hX : X < W) (hY : Y < H) (hX' : X' < W) (hY' : Y' < H)
    (ex : (X' : Int) = X + dx) (ey : (Y' : Int) = Y + dy) :
    getPx (renderText (newCanvas W H, { t with cx := t.cx + dx, cy := t.cy + dy }) s).1 X' Y' =
    getPx (renderText (newCanvas W H, t) s).1 X Y := by
  have a := renderText_blank W H t s hs hw hbg hne X Y hX hY
  have b := renderText_blank W H { t with cx := t.cx + dx, cy := t.cy + dy } s hs hw hbg hne' X' Y' hX' hY'
  have sh := textR0_shift W H s t dx dy X Y X' Y' hX hY hX' hY' ex ey
  by_cases hr : textR0 (geo0 W H) t s X Y
  · rw [a.1 hr, b.1 (sh.2 hr)]
  · rw [a.2 hr, b.2 (fun h => hr (sh.1 h))]

/-- `translation` for a text whose box lies on the canvas before and after the move -/
theorem translation_fits (W H : Nat) (t : TextSt) (s : List Nat) (hs : 10 ∉ s) (hw : t.wrap = false)
    (hbg : t.tbg = t.tcol) (dx dy : Int) (hh : 1 ≤ t.tsH) (hv : 1 ≤ t.tsV)
    (hx : 0 ≤ t.cx) (hy : 0 ≤ t.cy) (hyH : t.cy ≤ H) (hfit : t.cx + advSum t s ≤ W)
    (hx' : 0 ≤ t.cx + dx) (hy' : 0 ≤ t.cy + dy) (hyH' : t.cy + dy ≤ H) (hfit' : t.cx + dx + advSum t s ≤ W)
    (X Y X' Y' : Nat) (hX : X < W) (hY : Y < H) (hX' : X' < W) (hY' : Y' < H)
    (ex : (X' : Int) = X + dx) (ey : (Y' : Int) = Y + dy) :
    getPx (renderText (newCanvas W H, { t with cx := t.cx + dx, cy := t.cy + dy }) s).1 X' Y' =
    getPx (renderText (newCanvas W H, t) s).1 X Y := by
  refine translation W H t s hs hw hbg dx dy (noEarly_of_fits W H s t hh hv hx hy hyH hfit) ?_ X Y X' Y' hX hY hX' hY' ex ey
  refine noEarly_of_fits W H s _ hh hv hx' hy' hyH' ?_
  rw [advSum_cxy]; exact hfit'

/-- **Scale consistency for extra spacing 0** (exact): source pixel `(cx+I, cy+J)` of the size-1 rendering becomes the
`h × v` block at `(cx + h·I, cy + v·J)` of the size-`(h,v)` rendering. -/
theorem scale_zero_spacing (W H : Nat) (t : TextSt) (s : List Nat) (hs : 10 ∉ s) (hw : t.wrap = false)
    (hbg : t.tbg = t.tcol) (hsp : t.spacing = 0) (h v cx cy : Int) (hh : 0 < h) (hv : 0 < v)
    (hneh : NoEarly (geo0 W H) (atSize t h v cx cy) s) (hne1 : NoEarly (geo0 W H) (atSize t 1 1 cx cy) s)
    (I J p q : Int) (Xh Yh X1 Y1 : Nat) (hXh : Xh < W) (hYh : Yh < H) (hX1 : X1 < W) (hY1 : Y1 < H)
    (hp0 : 0 ≤ p) (hp : p < h) (hq0 : 0 ≤ q) (hq : q < v)
    (eXh : (Xh : Int) = cx + h * I + p) (eYh : (Yh : Int) = cy + v * J + q)
    (eX1 : (X1 : Int) = cx + I) (eY1 : (Y1 : Int) = cy + J) :
    getPx (renderText (newCanvas W H, atSize t h v cx cy) s).1 Xh Yh =
    getPx (renderText (newCanvas W H, atSize t 1 1 cx cy) s).1 X1 Y1 := by
  have a := renderText_blank W H (atSize t h v cx cy) s hs hw hbg hneh Xh Yh hXh hYh
  have b := renderText_blank W H (atSize t 1 1 cx cy) s hs hw hbg hne1 X1 Y1 hX1 hY1
  have sc := textR0_scale W H s t hsp h v cx cy hh hv 0 I J p q Xh Yh X1 Y1 hXh hYh hX1 hY1 hp0 hp hq0 hq eXh eYh eX1 eY1
  rw [Int.mul_zero, Int.add_zero] at sc
  have tc : (atSize t h v cx cy).tcol = (atSize t 1 1 cx cy).tcol := rfl
  by_cases hr : textR0 (geo0 W H) (atSize t 1 1 cx cy) s X1 Y1
  · rw [b.1 hr, a.1 (sc.2 hr), tc]
  · rw [b.2 hr, a.2 (fun h => hr (sc.1 h))]

/-- non-vacuity: "AZ" in font 0 at (2,1) on a 64×32 canvas meets every hypothesis of both theorems -/
example : NoEarly (geo0 64 32) (atSize {} 2 2 2 1) [65, 90] ∧ NoEarly (geo0 64 32) (atSize {} 1 1 2 1) [65, 90] := by
  constructor <;> exact noEarly_of_fits 64 32 _ _ (by decide) (by decide) (by decide) (by decide) (by decide) (by decide +kernel)

/-- The recorded genuine finding **C20.scale_with_spacing**: font 0, proportional, extra spacing 1, size 2, "ab":
the rendering is not the size-1 rendering with every pixel enlarged 2×2 (the advance between glyphs is `h·w + s`,
not `h·(w + s)`), while box and translation clauses hold. -/
theorem scale_with_spacing_counterexample :
    let render := fun (h : Int) (cx cy : Int) =>
      let t : TextSt := { font := 0, prop := true, spacing := 1, tsH := h, tsV := h, wrap := false, tcol := true, tbg := true, cx := cx, cy := cy }
      (renderText (newCanvas 32 18, t) [97, 98]).1
    let px := fun (c : Canvas) (X Y : Nat) => getPx c X Y
    -- pixel (13,2) is lit at size 2 but its pre-image (6,1) at size 1 is blank
    px (render 2 0 0) 13 2 = true ∧ px (render 1 0 0) 6 1 = false := by
  decide +kernel

end RawPanelVerif.C20
