import RawPanelVerif.Lemmas.TopoXform
import RawPanelVerif.Lemmas.TopoJson
/-!
# C14 — Topology transformations preserve the panel's meaning

Property theorems only.  The statements are the executable predicates `Spec.Topo.checkRandomize`, `checkClean`,
`checkRoundTrip` (Spec/TopologySpec.lean), which the check also evaluates on the implementation's before/after
topologies.  `WF t` is the model's representation invariant (type index = finite map: keys strictly ascending;
a nil flag only on an empty collection) and is preserved by every transformation (`*_keeps_wf`).

Renumbering (`RandomizeTypes`), for **every** iteration order of the Go map (`order.Perm t.ti`) and every random stream:
* `randomize_seq_holds`      sequential mode terminates (fuel 2 suffices for the collision loop) and satisfies every
                             clause: components unchanged up to the type number, number of types unchanged, resolved
                             definition of every component unchanged (domain: every type 0 or indexed, 0 not a key),
                             new ids exactly 1..n.
* `randomize_random_holds`   random mode: whenever the collision loop ends within the fuel, the same clauses hold —
                             under the hypothesis that the stream never yields 0 (see `random_zero_draw_counterexample`:
                             `Intn(1000000)` can return 0, then "disabled" components acquire a type; p = 1e-6 per draw).
* `seq_ids_are_1_to_n`, `resolved_unchanged`, `components_unchanged`, `type_count_unchanged` the clauses one by one.
Section markers: `cleanSections_eq_filter` (no panic; result = filter (type ≠ marker), order kept; any number and
position of markers), `clean_holds`.
JSON (tree level, driven by the regenerated tag table): `json_roundtrip`, `json_fixpoint`, `roundtrip_holds`.
-/
namespace RawPanelVerif.C14
open RawPanelVerif RawPanelVerif.Topo

/-! ## renumbering -/

/-- the state of the key loop determines the result -/
theorem randomize_some (order : List (Nat × TypeDef)) (rnd : Nat → Nat) (fuel : Nat) (sequence : Bool)
    (t t' : Topology) (h : randomizeTypes order rnd fuel sequence t = some t') :
    ∃ st, runKeys sequence rnd fuel {} order = some st ∧
      t' = { t with ti := st.newTypeStruct, tiNil := false, hwc := t.hwc.map (remapHWc st.typeMapping) } := by
  unfold randomizeTypes at h
  split at h
  · cases h
  · rename_i st hs
    exact ⟨st, hs, by simpa using h.symm⟩

theorem components_unchanged (order : List (Nat × TypeDef)) (rnd : Nat → Nat) (fuel : Nat) (sequence : Bool)
    (t t' : Topology) (h : randomizeTypes order rnd fuel sequence t = some t') :
    t'.hwc.map Spec.Topo.eraseType = t.hwc.map Spec.Topo.eraseType ∧ t'.title = t.title := by
  obtain ⟨st, _, rfl⟩ := randomize_some _ _ _ _ _ _ h
  simp only [List.map_map, and_true]
  apply List.map_congr_left
  intro c _
  exact eraseType_remap _ c

theorem type_count_unchanged (order : List (Nat × TypeDef)) (rnd : Nat → Nat) (fuel : Nat) (sequence : Bool)
    (t t' : Topology) (hs : Map.Sorted t.ti) (ho : order.Perm t.ti)
    (h : randomizeTypes order rnd fuel sequence t = some t') :
    t'.ti.length = t.ti.length ∧ Map.Sorted t'.ti := by
  obtain ⟨st, hr, rfl⟩ := randomize_some _ _ _ _ _ _ h
  have hnd := order_nodup t.ti order hs ho
  have hinv := runKeys_RInv sequence rnd fuel order st hnd hr
  exact ⟨by simp only [hinv.len, ho.length_eq], hinv.sorted⟩

/-- every component resolves to the same definition after renumbering, provided no new id is 0 -/
theorem resolved_unchanged_of (order : List (Nat × TypeDef)) (rnd : Nat → Nat) (fuel : Nat) (sequence : Bool)
    (t t' : Topology) (hs : Map.Sorted t.ti) (ho : order.Perm t.ti) (hdom : Spec.Topo.inDomain14 t = true)
    (h : randomizeTypes order rnd fuel sequence t = some t') (h0 : Map.lookup t'.ti 0 = none) :
    t'.hwc.map (Spec.Topo.resolved t') = t.hwc.map (Spec.Topo.resolved t) := by
  obtain ⟨st, hr, rfl⟩ := randomize_some _ _ _ _ _ _ h
  have hnd := order_nodup t.ti order hs ho
  have hinv := runKeys_RInv sequence rnd fuel order st hnd hr
  simp only [Spec.Topo.inDomain14, Bool.and_eq_true, Bool.not_eq_true', List.all_eq_true, Bool.or_eq_true,
    beq_iff_eq] at hdom
  obtain ⟨hk0, hall⟩ := hdom
  simp only [List.map_map]
  apply List.map_congr_left
  intro c hc
  simp only [Function.comp, Spec.Topo.resolved, ← lookup_eq_base]
  by_cases hz : c.type = 0
  · have e1 : remapHWc st.typeMapping c = c := by simp [remapHWc, hz]
    have e2 : Map.lookup t.ti 0 = none := by
      rw [Map.lookup_none_iff]
      intro hm
      have : (Spec.Topo.keys t).contains 0 = true := by
        simp only [List.contains_iff_mem]; exact hm
      rw [this] at hk0; cases hk0
    rw [e1, hz, e2]
    exact congrArg (fun x => Spec.Topo.overlay (x.getD Spec.Topo.zero) c.ov) h0
  · rcases hall c hc with h1 | h1
    · exact absurd h1 hz
    · rw [← lookup_eq_base] at h1
      obtain ⟨v, hv⟩ := Option.isSome_iff_exists.1 h1
      have hmem : (c.type, v) ∈ order := (ho.mem_iff).2 (Map.mem_of_lookup t.ti c.type v hv)
      obtain ⟨m, hm1, hm2⟩ := hinv.mapDef c.type v hmem
      have e1 : remapHWc st.typeMapping c = { c with type := m } := by simp [remapHWc, hz, hm1]
      rw [e1]
      simp only [hm2, hv]

/-- sequential mode: total, and the new index has exactly the keys 1..n (in the model's canonical order) -/
theorem seq_ids_are_1_to_n (order : List (Nat × TypeDef)) (rnd : Nat → Nat) (fuel : Nat) (hf : 2 ≤ fuel) (t : Topology) :
    ∃ t', randomizeTypes order rnd fuel true t = some t' ∧ Map.keys t'.ti = List.range' 1 order.length := by
  obtain ⟨st, hr, hinv⟩ := runKeys_seq rnd fuel hf [] order {} SInv.init
  refine ⟨{ t with ti := st.newTypeStruct, tiNil := false, hwc := t.hwc.map (remapHWc st.typeMapping) },
    by simp only [randomizeTypes, hr], ?_⟩
  simpa using hinv.keys

theorem randomize_seq_holds (order : List (Nat × TypeDef)) (rnd : Nat → Nat) (fuel : Nat) (hf : 2 ≤ fuel)
    (t : Topology) (hs : Map.Sorted t.ti) (ho : order.Perm t.ti) :
    ∃ t', randomizeTypes order rnd fuel true t = some t' ∧ Spec.Topo.checkRandomize true t t' = none := by
  obtain ⟨t', hr, hkeys⟩ := seq_ids_are_1_to_n order rnd fuel hf t
  refine ⟨t', hr, ?_⟩
  have hc := (components_unchanged _ _ _ _ _ _ hr).1
  have ht := (type_count_unchanged _ _ _ _ _ _ hs ho hr).1
  have hlen : (Spec.Topo.keys t').length = (Spec.Topo.keys t).length := by simp [Spec.Topo.keys, ht]
  have h0 : Map.lookup t'.ti 0 = none := by
    rw [Map.lookup_none_iff, hkeys, List.mem_range'_1]; omega
  unfold Spec.Topo.checkRandomize
  simp only [hc, hlen, ne_eq, not_true_eq_false, if_false]
  have hres : (Spec.Topo.inDomain14 t && decide (t'.hwc.map (Spec.Topo.resolved t') ≠ t.hwc.map (Spec.Topo.resolved t))) = false := by
    cases hd : Spec.Topo.inDomain14 t with
    | false => rfl
    | true => simp [resolved_unchanged_of _ _ _ _ _ _ hs ho hd hr h0]
  have hseq : (List.range' 1 (Spec.Topo.keys t).length).all (fun k => (Spec.Topo.keys t').contains k) = true := by
    rw [List.all_eq_true]
    intro k hk
    have e : Spec.Topo.keys t' = List.range' 1 order.length := hkeys
    have e2 : (Spec.Topo.keys t).length = order.length := by simp [Spec.Topo.keys, ho.length_eq]
    rw [List.contains_iff_mem, e, ← e2]
    exact hk
  simp only [hres, hseq, Bool.false_eq_true, if_false, Bool.not_true, Bool.and_false]

/-- the collision loop in random mode only ever returns the initial candidate or a drawn value -/
theorem collide_random_val (rnd : Nat → Nat) (new : Map TypeDef) (fuel m seq pos : Nat) (r : Nat × Nat × Nat)
    (h : collide false rnd new fuel m seq pos = some r) : r.1 = m ∨ ∃ p, r.1 = rnd p := by
  induction fuel generalizing m pos with
  | zero => simp [collide] at h
  | succ n ih =>
    simp only [collide] at h
    by_cases hc : Map.contains new m = true
    · simp only [hc, if_true, Bool.false_eq_true, if_false] at h
      rcases ih _ _ h with h1 | h1
      · exact Or.inr ⟨pos, h1⟩
      · exact Or.inr h1
    · simp only [hc, Bool.false_eq_true, if_false, Option.some.injEq] at h
      subst h; exact Or.inl rfl

theorem random_no_zero_key (order : List (Nat × TypeDef)) (rnd : Nat → Nat) (fuel : Nat) (hz : ∀ i, rnd i ≠ 0)
    (t t' : Topology) (hs : Map.Sorted t.ti) (ho : order.Perm t.ti)
    (h : randomizeTypes order rnd fuel false t = some t') : Map.lookup t'.ti 0 = none := by
  obtain ⟨st, hr, rfl⟩ := randomize_some _ _ _ _ _ _ h
  have hnd := order_nodup t.ti order hs ho
  have := runKeys_inv (fun _ st => Map.lookup st.newTypeStruct 0 = none) false rnd fuel
    (by
      intro done st st' e hp _ hstep
      unfold stepKey at hstep
      simp only [Bool.false_eq_true, if_false] at hstep
      split at hstep
      · cases hstep
      · rename_i m seq pos hc
        simp only [Option.some.injEq] at hstep
        subst hstep
        have hm : m ≠ 0 := by
          rcases collide_random_val _ _ _ _ _ _ _ hc with h1 | ⟨p, h1⟩
          · simp only at h1; rw [h1]; exact hz _
          · simp only at h1; rw [h1]; exact hz _
        simp only
        rw [Map.lookup_insert_ne _ _ _ _ (Ne.symm hm)]
        exact hp)
    [] order {} st (by simpa using hnd) rfl hr
  exact this

theorem randomize_random_holds (order : List (Nat × TypeDef)) (rnd : Nat → Nat) (fuel : Nat) (hz : ∀ i, rnd i ≠ 0)
    (t t' : Topology) (hs : Map.Sorted t.ti) (ho : order.Perm t.ti)
    (hr : randomizeTypes order rnd fuel false t = some t') : Spec.Topo.checkRandomize false t t' = none := by
  have hc := (components_unchanged _ _ _ _ _ _ hr).1
  have ht := (type_count_unchanged _ _ _ _ _ _ hs ho hr).1
  have hlen : (Spec.Topo.keys t').length = (Spec.Topo.keys t).length := by simp [Spec.Topo.keys, ht]
  have h0 := random_no_zero_key order rnd fuel hz t t' hs ho hr
  unfold Spec.Topo.checkRandomize
  simp only [hc, hlen, ne_eq, not_true_eq_false, if_false]
  have hres : (Spec.Topo.inDomain14 t && decide (t'.hwc.map (Spec.Topo.resolved t') ≠ t.hwc.map (Spec.Topo.resolved t))) = false := by
    cases hd : Spec.Topo.inDomain14 t with
    | false => rfl
    | true => simp [resolved_unchanged_of _ _ _ _ _ _ hs ho hd hr h0]
  simp only [hres, Bool.false_eq_true, if_false, Bool.false_and]

/-- the clause "resolved definition unchanged", both modes -/
theorem resolved_unchanged (order : List (Nat × TypeDef)) (rnd : Nat → Nat) (fuel : Nat) (sequence : Bool)
    (hmode : (sequence = true ∧ 2 ≤ fuel) ∨ (sequence = false ∧ ∀ i, rnd i ≠ 0))
    (t t' : Topology) (hs : Map.Sorted t.ti) (ho : order.Perm t.ti) (hdom : Spec.Topo.inDomain14 t = true)
    (hr : randomizeTypes order rnd fuel sequence t = some t') :
    t'.hwc.map (Spec.Topo.resolved t') = t.hwc.map (Spec.Topo.resolved t) := by
  apply resolved_unchanged_of _ _ _ _ _ _ hs ho hdom hr
  rcases hmode with ⟨rfl, hf⟩ | ⟨rfl, hz⟩
  · obtain ⟨t'', hr', hk⟩ := seq_ids_are_1_to_n order rnd fuel hf t
    rw [hr] at hr'
    cases hr'
    rw [Map.lookup_none_iff, hk, List.mem_range'_1]; omega
  · exact random_no_zero_key order rnd fuel hz t t' hs ho hr

theorem randomize_keeps_wf (order : List (Nat × TypeDef)) (rnd : Nat → Nat) (fuel : Nat) (sequence : Bool)
    (t t' : Topology) (hw : WF t) (ho : order.Perm t.ti)
    (hr : randomizeTypes order rnd fuel sequence t = some t') : WF t' := by
  have h2 := (type_count_unchanged _ _ _ _ _ _ hw.1 ho hr).2
  obtain ⟨st, _, rfl⟩ := randomize_some _ _ _ _ _ _ hr
  exact ⟨h2, fun h => by simp [hw.2.1 h], fun h => by cases h⟩

/-! ## section markers -/

theorem cleanSections_eq_filter (t : Topology) :
    cleanSections t = some { t with hwc := t.hwc.filter (fun c => c.type != Gen.sectionType) } := by
  unfold cleanSections
  have h1 := deleteLoop_eq (sectionIdxs t.hwc 0) (sectionIdxs t.hwc 0).length (Nat.le_refl _) t.hwc
  rw [Nat.sub_self, List.take_length] at h1
  have h2 := clean_foldr t.hwc [] 0 rfl
  simp only [List.nil_append] at h2
  simp only [h1, h2]

theorem clean_holds (t : Topology) : ∃ t', cleanSections t = some t' ∧ Spec.Topo.checkClean t t' = none :=
  ⟨_, cleanSections_eq_filter t, by simp [Spec.Topo.checkClean, Spec.Topo.ok]⟩

theorem clean_keeps_wf (t t' : Topology) (hw : WF t) (h : cleanSections t = some t') : WF t' := by
  rw [cleanSections_eq_filter] at h
  cases h
  exact ⟨hw.1, fun h => by simp [hw.2.1 h], hw.2.2⟩

/-! ## JSON -/

theorem json_roundtrip (t : Topology) (hw : WF t) : fromJSON (toJSON t) = some t := topology_rt t hw

theorem json_fixpoint (t t' : Topology) (hw : WF t) (h : fromJSON (toJSON t) = some t') :
    toJSON t' = toJSON t ∧ serialise t' = serialise t := by
  rw [json_roundtrip t hw] at h
  cases h
  exact ⟨rfl, rfl⟩

theorem roundtrip_holds (t : Topology) (hw : WF t) :
    Spec.Topo.checkRoundTrip t (serialise t) (fromJSON (toJSON t))
      (match fromJSON (toJSON t) with | some t' => serialise t' | none => []) = none := by
  rw [json_roundtrip t hw]
  simp [Spec.Topo.checkRoundTrip]

/-! ## non-vacuity and pinned behaviour -/

def d1 : TypeDef := { w := 10, inp := [98] }
def d2 : TypeDef := { w := 20, disp := some { w := 64, subidx := -1 }, sub := [{ x := 1, idx := 3 }] }
def d3 : TypeDef := { h := 5, rotate := [57, 48] }
def exT : Topology :=
  { title := [80], ti := [(7, d1), (10, d2), (250, d3)],
    hwc := [{ id := 1, type := 250 }, { id := 2, type := 10, ov := some { w := 33 } }, { id := 3, type := 0 },
            { id := 4, type := 250 }, { id := 5, type := 250 }, { id := 6, type := 7 }, { id := 7, type := 250 }] }

example : WF exT := by
  refine ⟨?_, by decide, by decide⟩
  simp [Map.Sorted, Map.keys, exT]
example : Spec.Topo.inDomain14 exT = true := by decide
/-- an iteration order different from the key order: ids handed out in that order -/
example : (randomizeTypes [(250, d3), (7, d1), (10, d2)] (fun _ => 5) 2 true exT).map (fun t => (t.ti, t.hwc.map (·.type)))
    = some ([(1, d3), (2, d1), (3, d2)], [1, 3, 0, 1, 1, 2, 1]) := by decide
/-- random mode with a collision (stream 4,4,9,4,4,1): second key redraws -/
example : (randomizeTypes [(10, d2), (7, d1), (250, d3)] (fun i => [4, 4, 9, 4, 4, 1].getD i 2) 3 false exT).map
    (fun t => (t.ti.map (·.1), t.hwc.map (·.type))) = some ([1, 4, 9], [1, 4, 0, 1, 1, 9, 1]) := by decide
/-- out of fuel: a stream that collides forever -/
example : randomizeTypes exT.ti (fun _ => 4) 50 false exT = none := by decide
/-- markers first, adjacent and last are all removed, the others keep their order -/
example : (cleanSections exT).map (fun t => t.hwc.map (·.id)) = some [2, 3, 6] := by decide
example : Spec.Topo.checkClean exT { exT with hwc := exT.hwc.drop 1 } = some "clean" := by decide
example : Spec.Topo.checkRandomize true exT { exT with ti := [(1, d1), (2, d2), (4, d3)] } = some "resolved" := by decide
example : Spec.Topo.checkRandomize true exT { exT with ti := [(7, d1), (10, d2), (250, d3)] } = some "seqids" := by decide
example : fromJSON (toJSON exT) = some exT := by decide
example : fromJSON (toJSON { exT with ti := [(10, d2), (7, d1)] }) ≠ some { exT with ti := [(10, d2), (7, d1)] } := by decide

/-- `RandomizeTypes(false)` draws ids with `Intn(1000000)`, which can be 0: a component of type 0 ("disabled",
no definition) then resolves to a real type.  Model-level witness (not replayable on the implementation, whose
random source is seeded from the clock; probability 1e-6 per draw). -/
theorem random_zero_draw_counterexample :
    ∃ t', randomizeTypes exT.ti (fun i => i) 3 false exT = some t' ∧ Spec.Topo.checkRandomize false exT t' = some "resolved" := by
  refine ⟨_, rfl, ?_⟩
  decide

/-- why 0 must not be a key of the index (domain of the renumbering clause): "resolved definitions unchanged"
and "ids exactly 1..n" contradict each other for a type-0 component when the index has an entry 0 -/
theorem index_key_zero_counterexample :
    let t : Topology := { ti := [(0, d1)], hwc := [{ id := 1, type := 0 }] }
    ∃ t', randomizeTypes t.ti (fun _ => 1) 2 true t = some t' ∧
      t'.hwc.map (Spec.Topo.resolved t') ≠ t.hwc.map (Spec.Topo.resolved t) := by
  refine ⟨_, rfl, ?_⟩
  decide

end RawPanelVerif.C14
