import RawPanelVerif.Lemmas.TopoXform
import RawPanelVerif.Lemmas.TopoJson
import RawPanelVerif.Lemmas.TopoJsonText
/-!
# C14 — Topology transformations preserve the panel's meaning

Property theorems only.  The statements are the executable predicates `Spec.Topo.checkRandomize`, `checkClean`,
`checkRoundTrip` (Spec/TopologySpec.lean), which the check also evaluates on the implementation's before/after
topologies.  `WF t` is the model's representation invariant (type index = finite map: keys strictly ascending;
a nil flag only on an empty collection); it is preserved by every transformation (`*_keeps_wf`) and holds of
everything the JSON decoder returns (`fromJSON_wf`).

Renumbering (`RandomizeTypes`), for **every** iteration order of the Go map (`order.Perm t.ti`) and every random stream:
* `randomize_seq_holds`      sequential mode terminates (fuel 2 suffices for the collision loop) and satisfies every
                             clause: components unchanged up to the type number, number of types unchanged, resolved
                             definitions unchanged (whole-topology clause on the domain "every type 0 or indexed, 0 not a
                             key" **and** the per-component clause without that guard), new ids exactly 1..n.
* `component_clause`, `indexed_component_kept`  per component, no guard on the rest of the topology: a component whose
                             type is indexed keeps its resolved definition (any mode, any stream — also one drawing 0);
                             a type-0 component keeps it when 0 is a key neither before nor after.  What does change:
                             `unindexed_component_counterexample` (a free number is handed to another type).
* `randomize_random_holds`   random mode: whenever the collision loop ends within the fuel, the same clauses hold —
                             under the hypothesis that the stream never yields 0 (`random_zero_draw_counterexample`).
* `randomize_random_total`, `randomize_random_holds_total`  termination is not assumed: pairwise distinct draws never
                             collide (one round of the loop), so the call returns and the clauses hold.
* `randomize_random_fair`    more generally for every stream that keeps producing values outside any finite set
                             (`Fair`): the call returns for some fuel and every larger one, and the clauses hold.
* `seq_ids_are_1_to_n`, `resolved_unchanged`, `components_unchanged`, `type_count_unchanged` the clauses one by one.
Section markers: `cleanSections_eq_filter` (no panic; result = filter (type ≠ marker), order kept; any number and
position of markers), `clean_holds`.
Renumbering then section removal: `seq_then_clean` (fewer than 250 types: exactly the components with the *unindexed*
marker number are removed, no ordinary component ever), `seq_then_clean_guard_exact` (with ≥ 250 types some indexed
type receives the number 250 and its components would be removed), `indexed_marker_survives_counterexample`.
JSON, tree level (driven by the regenerated tag table): `json_roundtrip` (parse ∘ serialise = identity up to Go equality:
a negative-zero rotation is omitted and reads back as 0 — `Topology.norm`), `json_roundtrip_exact`, `fromJSON_wf`,
`json_fixpoint` (for every topology parsed from **any** JSON tree: serialise → parse → serialise is stable),
`json_fixpoint_wf`, `roundtrip_holds`.
JSON, text level (`Model/TopoJsonText.lean`, compared byte for byte with `ToJSON()` by the `topo.jsonraw` records):
`escape_roundtrip` (`unescape (escape s) = some s` for every byte string: quotes, backslashes, control bytes,
`<`, `>`, `&`, U+2028/9).
Observed only (no theorem: the model has ONE serialiser, `serialise`, for both `ToJSON` and `JSONstring`): the clause
`json.serialisers-differ` (`Spec.Topo.checkSerialisers`) — on every `topo.roundtrip` / `topo.jsonraw` record, also after
transformations and after changes written into the same object through its exported fields, both serialisers return
the same bytes.
-/
namespace RawPanelVerif.C14
open RawPanelVerif RawPanelVerif.Topo

/-! ## renumbering -/

/-- the state of the key loop determines the result -/
theorem randomize_some (order : List (Nat × TypeDef)) (rnd : Nat → Nat) (fuel : Nat) (sequence : Bool)
    (t t' : Topology) (h : randomizeTypes order rnd fuel sequence t = some t') :
    ∃ st, runKeys sequence rnd fuel {} order = some st ∧
      t' = { t with ti := st.newTypeStruct, tiNil := false, hwc := t.hwc.map (remapHWc st.typeMapping) } := by
  unfold randomizeTypes at h
  split at h
  · cases h
  · rename_i st hs
    exact ⟨st, hs, by simpa using h.symm⟩

theorem components_unchanged (order : List (Nat × TypeDef)) (rnd : Nat → Nat) (fuel : Nat) (sequence : Bool)
    (t t' : Topology) (h : randomizeTypes order rnd fuel sequence t = some t') :
    t'.hwc.map Spec.Topo.eraseType = t.hwc.map Spec.Topo.eraseType ∧ t'.title = t.title := by
  obtain ⟨st, _, rfl⟩ := randomize_some _ _ _ _ _ _ h
  simp only [List.map_map, and_true]
  apply List.map_congr_left
  intro c _
  exact eraseType_remap _ c

theorem type_count_unchanged (order : List (Nat × TypeDef)) (rnd : Nat → Nat) (fuel : Nat) (sequence : Bool)
    (t t' : Topology) (hs : Map.Sorted t.ti) (ho : order.Perm t.ti)
    (h : randomizeTypes order rnd fuel sequence t = some t') :
    t'.ti.length = t.ti.length ∧ Map.Sorted t'.ti := by
  obtain ⟨st, hr, rfl⟩ := randomize_some _ _ _ _ _ _ h
  have hnd := order_nodup t.ti order hs ho
  have hinv := runKeys_RInv sequence rnd fuel order st hnd hr
  exact ⟨by simp only [hinv.len, ho.length_eq], hinv.sorted⟩

/-- every component resolves to the same definition after renumbering, provided no new id is 0 -/
theorem resolved_unchanged_of (order : List (Nat × TypeDef)) (rnd : Nat → Nat) (fuel : Nat) (sequence : Bool)
    (t t' : Topology) (hs : Map.Sorted t.ti) (ho : order.Perm t.ti) (hdom : Spec.Topo.inDomain14 t = true)
    (h : randomizeTypes order rnd fuel sequence t = some t') (h0 : Map.lookup t'.ti 0 = none) :
    t'.hwc.map (Spec.Topo.resolved t') = t.hwc.map (Spec.Topo.resolved t) := by
  obtain ⟨st, hr, rfl⟩ := randomize_some _ _ _ _ _ _ h
  have hnd := order_nodup t.ti order hs ho
  have hinv := runKeys_RInv sequence rnd fuel order st hnd hr
  simp only [Spec.Topo.inDomain14, Bool.and_eq_true, Bool.not_eq_true', List.all_eq_true, Bool.or_eq_true,
    beq_iff_eq] at hdom
  obtain ⟨hk0, hall⟩ := hdom
  simp only [List.map_map]
  apply List.map_congr_left
  intro c hc
  simp only [Function.comp, Spec.Topo.resolved, ← lookup_eq_base]
  by_cases hz : c.type = 0
  · have e1 : remapHWc st.typeMapping c = c := by simp [remapHWc, hz]
    have e2 : Map.lookup t.ti 0 = none := by
      rw [Map.lookup_none_iff]
      intro hm
      have : (Spec.Topo.keys t).contains 0 = true := by
        simp only [List.contains_iff_mem]; exact hm
      rw [this] at hk0; cases hk0
    rw [e1, hz, e2]
    exact congrArg (fun x => Spec.Topo.overlay (x.getD Spec.Topo.zero) c.ov) h0
  · rcases hall c hc with h1 | h1
    · exact absurd h1 hz
    · rw [← lookup_eq_base] at h1
      obtain ⟨v, hv⟩ := Option.isSome_iff_exists.1 h1
      have hmem : (c.type, v) ∈ order := (ho.mem_iff).2 (Map.mem_of_lookup t.ti c.type v hv)
      obtain ⟨m, hm1, hm2⟩ := hinv.mapDef c.type v hmem
      have e1 : remapHWc st.typeMapping c = { c with type := m } := by simp [remapHWc, hz, hm1]
      rw [e1]
      simp only [hm2, hv]

/-- the per-component clause of the Spec (`compKept`): every component whose type is indexed keeps its resolved
definition — **no hypothesis on the rest of the topology** (other components may have unindexed types, the index may
have an entry 0); a disabled component (type 0) keeps it when 0 is a type number neither before nor after -/
theorem component_clause (order : List (Nat × TypeDef)) (rnd : Nat → Nat) (fuel : Nat) (sequence : Bool)
    (t t' : Topology) (hs : Map.Sorted t.ti) (ho : order.Perm t.ti)
    (hr : randomizeTypes order rnd fuel sequence t = some t') (h0 : Map.lookup t'.ti 0 = none) :
    (t.hwc.zip t'.hwc).all (fun cc => Spec.Topo.compKept t t' cc.1 cc.2) = true := by
  obtain ⟨st, hrk, rfl⟩ := randomize_some _ _ _ _ _ _ hr
  exact compKept_all order st t (runKeys_RInv sequence rnd fuel order st (order_nodup t.ti order hs ho) hrk) ho h0

/-- the same for one component, both modes, every stream (also one that yields 0): an indexed type is never lost -/
theorem indexed_component_kept (order : List (Nat × TypeDef)) (rnd : Nat → Nat) (fuel : Nat) (sequence : Bool)
    (t t' : Topology) (hs : Map.Sorted t.ti) (ho : order.Perm t.ti)
    (hr : randomizeTypes order rnd fuel sequence t = some t') (k : Nat) (c : HWc) (hc : t.hwc[k]? = some c)
    (hz : c.type ≠ 0) (hidx : (Spec.Topo.base t c.type).isSome) :
    ∃ c', t'.hwc[k]? = some c' ∧ Spec.Topo.resolved t' c' = Spec.Topo.resolved t c := by
  obtain ⟨st, hrk, rfl⟩ := randomize_some _ _ _ _ _ _ hr
  obtain ⟨v, hv⟩ := Option.isSome_iff_exists.1 hidx
  refine ⟨remapHWc st.typeMapping c, by simp [hc], ?_⟩
  exact resolved_indexed_kept order st t
    (runKeys_RInv sequence rnd fuel order st (order_nodup t.ti order hs ho) hrk) ho c hz v hv

/-- sequential mode: total, and the new index has exactly the keys 1..n (in the model's canonical order) -/
theorem seq_ids_are_1_to_n (order : List (Nat × TypeDef)) (rnd : Nat → Nat) (fuel : Nat) (hf : 2 ≤ fuel) (t : Topology) :
    ∃ t', randomizeTypes order rnd fuel true t = some t' ∧ Map.keys t'.ti = List.range' 1 order.length := by
  obtain ⟨st, hr, hinv⟩ := runKeys_seq rnd fuel hf [] order {} SInv.init
  refine ⟨{ t with ti := st.newTypeStruct, tiNil := false, hwc := t.hwc.map (remapHWc st.typeMapping) },
    by simp only [randomizeTypes, hr], ?_⟩
  simpa using hinv.keys

theorem randomize_seq_holds (order : List (Nat × TypeDef)) (rnd : Nat → Nat) (fuel : Nat) (hf : 2 ≤ fuel)
    (t : Topology) (hs : Map.Sorted t.ti) (ho : order.Perm t.ti) :
    ∃ t', randomizeTypes order rnd fuel true t = some t' ∧ Spec.Topo.checkRandomize true t t' = none := by
  obtain ⟨t', hr, hkeys⟩ := seq_ids_are_1_to_n order rnd fuel hf t
  refine ⟨t', hr, ?_⟩
  have hc := (components_unchanged _ _ _ _ _ _ hr).1
  have ht := (type_count_unchanged _ _ _ _ _ _ hs ho hr).1
  have hlen : (Spec.Topo.keys t').length = (Spec.Topo.keys t).length := by simp [Spec.Topo.keys, ht]
  have h0 : Map.lookup t'.ti 0 = none := by
    rw [Map.lookup_none_iff, hkeys, List.mem_range'_1]; omega
  unfold Spec.Topo.checkRandomize
  simp only [hc, hlen, ne_eq, not_true_eq_false, if_false]
  have hres : (Spec.Topo.inDomain14 t && decide (t'.hwc.map (Spec.Topo.resolved t') ≠ t.hwc.map (Spec.Topo.resolved t))) = false := by
    cases hd : Spec.Topo.inDomain14 t with
    | false => rfl
    | true => simp [resolved_unchanged_of _ _ _ _ _ _ hs ho hd hr h0]
  have hseq : (List.range' 1 (Spec.Topo.keys t).length).all (fun k => (Spec.Topo.keys t').contains k) = true := by
    rw [List.all_eq_true]
    intro k hk
    have e : Spec.Topo.keys t' = List.range' 1 order.length := hkeys
    have e2 : (Spec.Topo.keys t).length = order.length := by simp [Spec.Topo.keys, ho.length_eq]
    rw [List.contains_iff_mem, e, ← e2]
    exact hk
  have hcomp := component_clause _ _ _ _ _ _ hs ho hr h0
  simp only [hres, hcomp, hseq, Bool.false_eq_true, if_false, Bool.not_true, Bool.and_false]

/-- the collision loop in random mode only ever returns the initial candidate or a drawn value -/
theorem collide_random_val (rnd : Nat → Nat) (new : Map TypeDef) (fuel m seq pos : Nat) (r : Nat × Nat × Nat)
    (h : collide false rnd new fuel m seq pos = some r) : r.1 = m ∨ ∃ p, r.1 = rnd p := by
  induction fuel generalizing m pos with
  | zero => simp [collide] at h
  | succ n ih =>
    simp only [collide] at h
    by_cases hc : Map.contains new m = true
    · simp only [hc, if_true, Bool.false_eq_true, if_false] at h
      rcases ih _ _ h with h1 | h1
      · exact Or.inr ⟨pos, h1⟩
      · exact Or.inr h1
    · simp only [hc, Bool.false_eq_true, if_false, Option.some.injEq] at h
      subst h; exact Or.inl rfl

theorem random_no_zero_key (order : List (Nat × TypeDef)) (rnd : Nat → Nat) (fuel : Nat) (hz : ∀ i, rnd i ≠ 0)
    (t t' : Topology) (hs : Map.Sorted t.ti) (ho : order.Perm t.ti)
    (h : randomizeTypes order rnd fuel false t = some t') : Map.lookup t'.ti 0 = none := by
  obtain ⟨st, hr, rfl⟩ := randomize_some _ _ _ _ _ _ h
  have hnd := order_nodup t.ti order hs ho
  have := runKeys_inv (fun _ st => Map.lookup st.newTypeStruct 0 = none) false rnd fuel
    (by
      intro done st st' e hp _ hstep
      unfold stepKey at hstep
      simp only [Bool.false_eq_true, if_false] at hstep
      split at hstep
      · cases hstep
      · rename_i m seq pos hc
        simp only [Option.some.injEq] at hstep
        subst hstep
        have hm : m ≠ 0 := by
          rcases collide_random_val _ _ _ _ _ _ _ hc with h1 | ⟨p, h1⟩
          · simp only at h1; rw [h1]; exact hz _
          · simp only at h1; rw [h1]; exact hz _
        simp only
        rw [Map.lookup_insert_ne _ _ _ _ (Ne.symm hm)]
        exact hp)
    [] order {} st (by simpa using hnd) rfl hr
  exact this

theorem randomize_random_holds (order : List (Nat × TypeDef)) (rnd : Nat → Nat) (fuel : Nat) (hz : ∀ i, rnd i ≠ 0)
    (t t' : Topology) (hs : Map.Sorted t.ti) (ho : order.Perm t.ti)
    (hr : randomizeTypes order rnd fuel false t = some t') : Spec.Topo.checkRandomize false t t' = none := by
  have hc := (components_unchanged _ _ _ _ _ _ hr).1
  have ht := (type_count_unchanged _ _ _ _ _ _ hs ho hr).1
  have hlen : (Spec.Topo.keys t').length = (Spec.Topo.keys t).length := by simp [Spec.Topo.keys, ht]
  have h0 := random_no_zero_key order rnd fuel hz t t' hs ho hr
  unfold Spec.Topo.checkRandomize
  simp only [hc, hlen, ne_eq, not_true_eq_false, if_false]
  have hres : (Spec.Topo.inDomain14 t && decide (t'.hwc.map (Spec.Topo.resolved t') ≠ t.hwc.map (Spec.Topo.resolved t))) = false := by
    cases hd : Spec.Topo.inDomain14 t with
    | false => rfl
    | true => simp [resolved_unchanged_of _ _ _ _ _ _ hs ho hd hr h0]
  have hcomp := component_clause _ _ _ _ _ _ hs ho hr h0
  simp only [hres, hcomp, Bool.false_eq_true, if_false, Bool.false_and, Bool.not_true]

/-- random mode terminates when the draws are pairwise distinct: the first candidate is always free, one round of
the collision loop suffices -/
theorem randomize_random_total (order : List (Nat × TypeDef)) (rnd : Nat → Nat) (fuel : Nat) (hf : 1 ≤ fuel)
    (hinj : ∀ i j, rnd i = rnd j → i = j) (t : Topology) :
    ∃ t', randomizeTypes order rnd fuel false t = some t' := by
  obtain ⟨st, hr, _⟩ := runKeys_random_inj rnd hinj fuel hf order {} (DrawnInv.init rnd)
  exact ⟨{ t with ti := st.newTypeStruct, tiNil := false, hwc := t.hwc.map (remapHWc st.typeMapping) },
    by simp only [randomizeTypes, hr]⟩

/-- random mode, no assumption that the call returns: distinct non-zero draws ⇒ it terminates and every clause holds -/
theorem randomize_random_holds_total (order : List (Nat × TypeDef)) (rnd : Nat → Nat) (fuel : Nat) (hf : 1 ≤ fuel)
    (hinj : ∀ i j, rnd i = rnd j → i = j) (hz : ∀ i, rnd i ≠ 0)
    (t : Topology) (hs : Map.Sorted t.ti) (ho : order.Perm t.ti) :
    ∃ t', randomizeTypes order rnd fuel false t = some t' ∧ Spec.Topo.checkRandomize false t t' = none := by
  obtain ⟨t', hr⟩ := randomize_random_total order rnd fuel hf hinj t
  exact ⟨t', hr, randomize_random_holds order rnd fuel hz t t' hs ho hr⟩

/-- termination in general: if the stream keeps producing values outside every finite set (`Fair`; implied by
pairwise distinct draws, `fair_of_injective`) the collision loops all end — for some fuel, and for every larger one —
and, for streams without the value 0, every clause holds -/
theorem randomize_random_fair (order : List (Nat × TypeDef)) (rnd : Nat → Nat) (hfair : Fair rnd) (hz : ∀ i, rnd i ≠ 0)
    (t : Topology) (hs : Map.Sorted t.ti) (ho : order.Perm t.ti) :
    ∃ fuel t', (∀ fuel', fuel ≤ fuel' → randomizeTypes order rnd fuel' false t = some t') ∧
      Spec.Topo.checkRandomize false t t' = none := by
  obtain ⟨fuel, st, hr⟩ := runKeys_fair rnd hfair order {}
  have hrun : ∀ fuel', fuel ≤ fuel' → randomizeTypes order rnd fuel' false t
      = some { t with ti := st.newTypeStruct, tiNil := false, hwc := t.hwc.map (remapHWc st.typeMapping) } := by
    intro fuel' hle
    simp only [randomizeTypes, runKeys_mono false rnd fuel fuel' hle order {} st hr]
  exact ⟨fuel, _, hrun, randomize_random_holds order rnd fuel hz t _ hs ho (hrun fuel (Nat.le_refl _))⟩

/-- the clause "resolved definition unchanged", both modes -/
theorem resolved_unchanged (order : List (Nat × TypeDef)) (rnd : Nat → Nat) (fuel : Nat) (sequence : Bool)
    (hmode : (sequence = true ∧ 2 ≤ fuel) ∨ (sequence = false ∧ ∀ i, rnd i ≠ 0))
    (t t' : Topology) (hs : Map.Sorted t.ti) (ho : order.Perm t.ti) (hdom : Spec.Topo.inDomain14 t = true)
    (hr : randomizeTypes order rnd fuel sequence t = some t') :
    t'.hwc.map (Spec.Topo.resolved t') = t.hwc.map (Spec.Topo.resolved t) := by
  apply resolved_unchanged_of _ _ _ _ _ _ hs ho hdom hr
  rcases hmode with ⟨rfl, hf⟩ | ⟨rfl, hz⟩
  · obtain ⟨t'', hr', hk⟩ := seq_ids_are_1_to_n order rnd fuel hf t
    rw [hr] at hr'
    cases hr'
    rw [Map.lookup_none_iff, hk, List.mem_range'_1]; omega
  · exact random_no_zero_key order rnd fuel hz t t' hs ho hr

theorem randomize_keeps_wf (order : List (Nat × TypeDef)) (rnd : Nat → Nat) (fuel : Nat) (sequence : Bool)
    (t t' : Topology) (hw : WF t) (ho : order.Perm t.ti)
    (hr : randomizeTypes order rnd fuel sequence t = some t') : WF t' := by
  have h2 := (type_count_unchanged _ _ _ _ _ _ hw.1 ho hr).2
  obtain ⟨st, _, rfl⟩ := randomize_some _ _ _ _ _ _ hr
  exact ⟨h2, fun h => by simp [hw.2.1 h], fun h => by cases h⟩

/-! ## section markers -/

theorem cleanSections_eq_filter (t : Topology) :
    cleanSections t = some { t with hwc := t.hwc.filter (fun c => c.type != Gen.sectionType) } := by
  unfold cleanSections
  have h1 := deleteLoop_eq (sectionIdxs t.hwc 0) (sectionIdxs t.hwc 0).length (Nat.le_refl _) t.hwc
  rw [Nat.sub_self, List.take_length] at h1
  have h2 := clean_foldr t.hwc [] 0 rfl
  simp only [List.nil_append] at h2
  simp only [h1, h2]

theorem clean_holds (t : Topology) : ∃ t', cleanSections t = some t' ∧ Spec.Topo.checkClean t t' = none :=
  ⟨_, cleanSections_eq_filter t, by simp [Spec.Topo.checkClean, Spec.Topo.ok]⟩

theorem clean_keeps_wf (t t' : Topology) (hw : WF t) (h : cleanSections t = some t') : WF t' := by
  rw [cleanSections_eq_filter] at h
  cases h
  exact ⟨hw.1, fun h => by simp [hw.2.1 h], hw.2.2⟩

/-! ## renumbering, then section removal -/

/-- `CleanSections` after `RandomizeTypes(true)` on fewer types than the marker number (250): the components removed
are exactly those that carried the marker number **and** whose marker number was not a type of the index — no
ordinary component is ever deleted (its new number is one of 1..n < 250), and a marker whose number *was* indexed
is renumbered like any type and stays (`indexed_marker_survives_counterexample`) -/
theorem seq_then_clean (order : List (Nat × TypeDef)) (rnd : Nat → Nat) (fuel : Nat) (hf : 2 ≤ fuel) (t : Topology)
    (hs : Map.Sorted t.ti) (ho : order.Perm t.ti) (hn : order.length < Gen.sectionType) :
    ∃ t' t'', randomizeTypes order rnd fuel true t = some t' ∧ cleanSections t' = some t'' ∧
      t''.hwc.map Spec.Topo.eraseType
        = (t.hwc.filter (fun c => !(c.type == Gen.sectionType && (Spec.Topo.base t Gen.sectionType).isNone))).map
            Spec.Topo.eraseType := by
  obtain ⟨t', hr, hkeys⟩ := seq_ids_are_1_to_n order rnd fuel hf t
  refine ⟨t', _, hr, cleanSections_eq_filter t', ?_⟩
  obtain ⟨st, hrk, rfl⟩ := randomize_some _ _ _ _ _ _ hr
  have hinv := runKeys_RInv true rnd fuel order st (order_nodup t.ti order hs ho) hrk
  have hk : Map.keys st.newTypeStruct = List.range' 1 order.length := hkeys
  simp only [List.filter_map, List.map_map]
  have hf2 : (fun c : HWc => c.type != Gen.sectionType) ∘ remapHWc st.typeMapping
      = fun c => !(c.type == Gen.sectionType && (Spec.Topo.base t Gen.sectionType).isNone) := by
    funext c
    have := seq_marker_iff order st t hinv hk ho hn c
    simp only [Function.comp]
    by_cases hm : (remapHWc st.typeMapping c).type = Gen.sectionType
    · obtain ⟨h1, h2⟩ := this.1 hm
      simp [hm, h1, h2]
    · have hnot : ¬ (c.type = Gen.sectionType ∧ Spec.Topo.base t Gen.sectionType = none) := fun h => hm (this.2 h)
      have e1 : ((remapHWc st.typeMapping c).type != Gen.sectionType) = true := by simp [hm]
      rw [e1]
      by_cases hc : c.type = Gen.sectionType
      · have : Spec.Topo.base t Gen.sectionType ≠ none := fun h => hnot ⟨hc, h⟩
        cases hb : Spec.Topo.base t Gen.sectionType with
        | none => exact absurd hb this
        | some v => simp [hc]
      · simp [hc]
  rw [hf2]
  apply List.map_congr_left
  intro c _
  exact eraseType_remap _ c

/-- the guard `fewer than 250 types` is needed: with 250 or more types sequential renumbering hands the number 250
to an indexed type, and a following `CleanSections` deletes every component of that (ordinary) type -/
theorem seq_then_clean_guard_exact (order : List (Nat × TypeDef)) (rnd : Nat → Nat) (fuel : Nat) (hf : 2 ≤ fuel)
    (t : Topology) (hs : Map.Sorted t.ti) (ho : order.Perm t.ti) (hn : Gen.sectionType ≤ order.length) :
    ∃ t' k, randomizeTypes order rnd fuel true t = some t' ∧ (Spec.Topo.base t k).isSome ∧
      ∀ (i : Nat) (c : HWc), t.hwc[i]? = some c → c.type = k → k ≠ 0 →
        ∃ c' : HWc, t'.hwc[i]? = some c' ∧ c'.type = Gen.sectionType := by
  obtain ⟨t', hr, hkeys⟩ := seq_ids_are_1_to_n order rnd fuel hf t
  obtain ⟨st, hrk, rfl⟩ := randomize_some _ _ _ _ _ _ hr
  have hinv := runKeys_RInv true rnd fuel order st (order_nodup t.ti order hs ho) hrk
  obtain ⟨k, hk1, hk2⟩ := seq_marker_handed_out order st hinv hkeys hn
  refine ⟨_, k, hr, ?_, ?_⟩
  · rw [← lookup_eq_base, Map.lookup_isSome_iff]
    exact ((ho.map (·.1)).mem_iff).1 hk1
  · intro i c hc hck hz
    exact ⟨remapHWc st.typeMapping c, by simp [hc], hk2 c hck hz⟩

/-! ## JSON -/

/-- parsing the serialised topology gives the topology back — as Go compares it: the `float32` rotation by value
(a negative zero is not written, `omitempty`, and so reads back as `0`) -/
theorem json_roundtrip (t : Topology) (hw : WF t) : fromJSON (toJSON t) = some t.norm := topology_rt t hw

/-- … literally the same topology when it carries no negative-zero / non-canonical zero token -/
theorem json_roundtrip_exact (t : Topology) (hw : WF t) (hn : t.norm = t) : fromJSON (toJSON t) = some t := by
  rw [json_roundtrip t hw, hn]

/-- the decoder only ever returns well-formed topologies (from **any** JSON tree) -/
theorem fromJSON_wf (j : JVal) (t : Topology) (h : fromJSON j = some t) : WF t := fromJSON_WF j t h

/-- serialisation is a fixpoint after one round, for every topology that was parsed from *some* JSON tree `j`
(not necessarily one the encoder wrote): serialise, parse, serialise again — same JSON; and the parsed value is
stable from then on -/
theorem json_fixpoint (j : JVal) (t : Topology) (h : fromJSON j = some t) :
    ∃ t', fromJSON (toJSON t) = some t' ∧ toJSON t' = toJSON t ∧ serialise t' = serialise t ∧
      fromJSON (toJSON t') = some t' := by
  have hw := fromJSON_wf j t h
  refine ⟨t.norm, json_roundtrip t hw, toJSON_norm t, by simp only [serialise, toJSON_norm], ?_⟩
  rw [json_roundtrip t.norm (norm_wf t hw), norm_norm]

/-- the same for any well-formed model topology -/
theorem json_fixpoint_wf (t t' : Topology) (hw : WF t) (h : fromJSON (toJSON t) = some t') :
    toJSON t' = toJSON t ∧ serialise t' = serialise t := by
  rw [json_roundtrip t hw] at h
  cases h
  exact ⟨toJSON_norm t, by simp only [serialise, toJSON_norm]⟩

theorem roundtrip_holds (t : Topology) (hw : WF t) :
    Spec.Topo.checkRoundTrip t (serialise t) (fromJSON (toJSON t))
      (match fromJSON (toJSON t) with | some t' => serialise t' | none => []) = none := by
  rw [json_roundtrip t hw]
  simp [Spec.Topo.checkRoundTrip, norm_norm, serialise, toJSON_norm]

/-- the text layer's string escaping (`encoding/json`, HTML escaping on) loses nothing: reading the escaped body
back gives the bytes — quotes, backslashes, control bytes, `<`, `>`, `&`, U+2028/U+2029 included -/
theorem escape_roundtrip (s : Str) : unescape (escape s) = some s := unescape_escape s

/-! ## non-vacuity and pinned behaviour -/

def d1 : TypeDef := { w := 10, inp := [98] }
def d2 : TypeDef := { w := 20, disp := some { w := 64, subidx := -1 }, sub := [{ x := 1, idx := 3 }] }
def d3 : TypeDef := { h := 5, rotate := [57, 48] }
def exT : Topology :=
  { title := [80], ti := [(7, d1), (10, d2), (250, d3)],
    hwc := [{ id := 1, type := 250 }, { id := 2, type := 10, ov := some { w := 33 } }, { id := 3, type := 0 },
            { id := 4, type := 250 }, { id := 5, type := 250 }, { id := 6, type := 7 }, { id := 7, type := 250 }] }

example : WF exT := by
  refine ⟨?_, by decide, by decide⟩
  simp [Map.Sorted, Map.keys, exT]
example : Spec.Topo.inDomain14 exT = true := by decide
/-- an iteration order different from the key order: ids handed out in that order -/
example : (randomizeTypes [(250, d3), (7, d1), (10, d2)] (fun _ => 5) 2 true exT).map (fun t => (t.ti, t.hwc.map (·.type)))
    = some ([(1, d3), (2, d1), (3, d2)], [1, 3, 0, 1, 1, 2, 1]) := by decide
/-- random mode with a collision (stream 4,4,9,4,4,1): second key redraws -/
example : (randomizeTypes [(10, d2), (7, d1), (250, d3)] (fun i => [4, 4, 9, 4, 4, 1].getD i 2) 3 false exT).map
    (fun t => (t.ti.map (·.1), t.hwc.map (·.type))) = some ([1, 4, 9], [1, 4, 0, 1, 1, 9, 1]) := by decide
/-- out of fuel: a stream that collides forever -/
example : randomizeTypes exT.ti (fun _ => 4) 50 false exT = none := by decide
/-- markers first, adjacent and last are all removed, the others keep their order -/
example : (cleanSections exT).map (fun t => t.hwc.map (·.id)) = some [2, 3, 6] := by decide
example : Spec.Topo.checkClean exT { exT with hwc := exT.hwc.drop 1 } = some "clean" := by decide
example : Spec.Topo.checkRandomize true exT { exT with ti := [(1, d1), (2, d2), (4, d3)] } = some "resolved" := by decide
example : Spec.Topo.checkRandomize true exT { exT with ti := [(7, d1), (10, d2), (250, d3)] } = some "seqids" := by decide
example : fromJSON (toJSON exT) = some exT := by decide
example : exT.norm = exT := by decide
/-- a negative zero is read back as zero; the Spec's equality (Go `==`) accepts it, literal equality would not -/
example : fromJSON (toJSON { ti := [(1, { rotate := [45, 48] })] }) = some { ti := [(1, {})] } := by decide
example : Spec.Topo.checkRoundTrip { ti := [(1, { rotate := [45, 48] })] } [] (some { ti := [(1, {})] }) [] = none := by decide
example : Spec.Topo.checkRoundTrip { ti := [(1, { rotate := [57] })] } [] (some { ti := [(1, {})] }) [] = some "json.roundtrip" := by decide
example : escape (bytesOf "a\"<b>&\\\n") = bytesOf "a\\\"\\u003cb\\u003e\\u0026\\\\\\n" := by decide
example : escape [0xE2, 0x80, 0xA8, 0x7F, 0x1F, 0xC3, 0xA6] = bytesOf "\\u2028" ++ [0x7F] ++ bytesOf "\\u001f" ++ [0xC3, 0xA6] := by decide
example : renderText (.obj [([97], .arr [.num [49], .str [60]]), ([98], .null)]) = bytesOf "{\"a\":[1,\"\\u003c\"],\"b\":null}" := by decide
/-- a random stream with pairwise distinct, non-zero draws -/
example : (∀ i j : Nat, (fun i => i + 1) i = (fun i => i + 1) j → i = j) ∧ ∀ i : Nat, (fun i => i + 1) i ≠ 0 :=
  ⟨fun i j h => by simpa using h, fun i => by simp⟩
example : (randomizeTypes exT.ti (fun i => i + 1) 1 false exT).map (fun t => t.ti.map (·.1)) = some [1, 2, 3] := by decide
example : Fair (fun i => i + 1) := fair_of_injective _ (fun i j h => by simpa using h)
/-- a stream that is not injective but fair: 4,4,9,4,4,1, then 7,8,9,… -/
example : (randomizeTypes [(10, d2), (7, d1), (250, d3)] (fun i => [4, 4, 9, 4, 4, 1].getD i (i + 1)) 3 false exT).isSome = true := by decide
/-- the decoder sorts out any key order / duplicates of a hand-written JSON tree: the result is a finite map -/
example : (fromJSON (.obj [(bytesOf "typeIndex", .obj [(bytesOf "5", .obj []), (bytesOf "3", .obj []), (bytesOf "5", .null)])])).map
    (fun t => t.ti.map (·.1)) = some [3, 5] := by decide
example : ∃ t, fromJSON (toJSON exT) = some t := ⟨_, json_roundtrip exT (by
  refine ⟨?_, by decide, by decide⟩
  simp [Map.Sorted, Map.keys, exT])⟩
/-- the guard of `seq_then_clean_guard_exact` is satisfiable: an index of 250 types -/
example : Gen.sectionType ≤ ((List.range 250).map (fun (i : Nat) => (i + 1, ({ w := (i : Int) } : TypeDef)))).length := by simp [Gen.sectionType]
/-- renumbering then section removal on `exT` (3 types; 250 is indexed): the markers get the id 1 and stay -/
theorem indexed_marker_survives_counterexample :
    ((randomizeTypes [(250, d3), (7, d1), (10, d2)] (fun _ => 5) 2 true exT).bind cleanSections).map (fun t => t.hwc.map (·.id))
      = some [1, 2, 3, 4, 5, 6, 7] := by decide
/-- … while unindexed markers are removed as before -/
example : ((randomizeTypes [(7, d1), (10, d2)] (fun _ => 5) 2 true { exT with ti := [(7, d1), (10, d2)] }).bind cleanSections).map
    (fun t => t.hwc.map (·.id)) = some [2, 3, 6] := by decide
/-- what does change for a component whose type is *not* indexed: type 2 is free before, and is handed to `d2` -/
theorem unindexed_component_counterexample :
    let t : Topology := { ti := [(7, d1), (10, d2)], hwc := [{ id := 1, type := 2 }, { id := 2, type := 7 }] }
    ∃ t', randomizeTypes t.ti (fun _ => 5) 2 true t = some t' ∧ Spec.Topo.checkRandomize true t t' = none ∧
      t'.hwc.map (Spec.Topo.resolved t') ≠ t.hwc.map (Spec.Topo.resolved t) ∧
      (t'.hwc.map (Spec.Topo.resolved t'))[1]? = (t.hwc.map (Spec.Topo.resolved t))[1]? := by
  refine ⟨_, rfl, ?_⟩
  decide
example : fromJSON (toJSON { exT with ti := [(10, d2), (7, d1)] }) ≠ some { exT with ti := [(10, d2), (7, d1)] } := by decide

/-- `RandomizeTypes(false)` draws ids with `Intn(1000000)`, which can be 0: a component of type 0 ("disabled",
no definition) then resolves to a real type.  Model-level witness (not replayable on the implementation, whose
random source is seeded from the clock; probability 1e-6 per draw). -/
theorem random_zero_draw_counterexample :
    ∃ t', randomizeTypes exT.ti (fun i => i) 3 false exT = some t' ∧ Spec.Topo.checkRandomize false exT t' = some "resolved" := by
  refine ⟨_, rfl, ?_⟩
  decide

/-- why 0 must not be a key of the index (domain of the renumbering clause): "resolved definitions unchanged"
and "ids exactly 1..n" contradict each other for a type-0 component when the index has an entry 0 -/
theorem index_key_zero_counterexample :
    let t : Topology := { ti := [(0, d1)], hwc := [{ id := 1, type := 0 }] }
    ∃ t', randomizeTypes t.ti (fun _ => 1) 2 true t = some t' ∧
      t'.hwc.map (Spec.Topo.resolved t') ≠ t.hwc.map (Spec.Topo.resolved t) := by
  refine ⟨_, rfl, ?_⟩
  decide

/-- the two serialisers must agree: the clause that names a difference -/
example : Spec.Topo.checkSerialisers false = some "json.serialisers-differ" ∧ Spec.Topo.checkSerialisers true = none := by decide

end RawPanelVerif.C14
