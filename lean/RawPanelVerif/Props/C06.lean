import RawPanelVerif.Lemmas.TotalIn
import RawPanelVerif.Lemmas.TotalOut
import RawPanelVerif.Props.C04
import RawPanelVerif.Props.C05
import RawPanelVerif.Gen.Shared
/-!
# C06 — Converters and streaming reader are total and re-entrant

**Totality** (for ALL inputs: any byte strings as lines; any message obtainable from `proto.Unmarshal` — any presence
pattern, enums and integers anywhere in range, empty repeated fields).  The models carry Go's panics explicitly
(`Except Panic`: nil dereference, slice index, regex sub-match index), so these are statements about the guards in the
code, not artefacts of totalised definitions:

* `encIn_total`, `decIn_total`, `decIn_no_nil_message`  — inbound encoder / decoder (Lemmas/TotalIn.lean)
* `encOut_total`, `decOut_total`, `decOut_no_nil_message` — outbound encoder / decoder (Lemmas/TotalOut.lean)
* the streaming reader `ASCIIreader.Parse` is, in the C05 model (`Gfx.Stream`), a total function that either buffers the
  line or hands lines to the batch decoder, whose totality is `decIn_total`; `C05.never_altered` and the clean-run
  theorems cover its behaviour.
* `encInPinned_panics_counterexample`, `decInPinned_nil_counterexample`, `raw_case_would_panic` — the pinned tree's
  nil-`TextStyling` dereference, the nil message for `[null]`, and the dead `Raw` case indexing the wrong regex.

**Re-entrancy**.  In the model the five functions are pure, so every interleaving of concurrent calls equals the
sequential result by construction.  That transfers to the code only if the Go functions share no mutable state:
* `no_shared_mutable_state` — over the list regenerated from /repo on every run by the extractor: no function body of
  the three library packages assigns to a package-level variable (the regex tables, fonts and icon tables are only
  read; `DebugRWPhelpers` is written by callers only and guarded by its mutex where read).
* the harness runs 4–32 goroutines over shared inputs through all five functions, in-process and in a child built with
  `go build -race`, and compares every result with the sequential one (`conc.run` records; supporting evidence).
Outside the model: the Go memory model and races inside `regexp`, `encoding/json`, `proto` (partial).
-/
namespace RawPanelVerif.C06
open RawPanelVerif

/-- no function body in the three library packages assigns to a package-level variable (regenerated on every run) -/
theorem no_shared_mutable_state : Gen.packageVarWrites = [] := by decide

/-- the package-level variables that exist are the read-only tables and the debug flag with its mutex -/
theorem package_vars_known : ∀ v ∈ Gen.packageVars,
    v ∈ ["ibeam_lib_monogfx.font", "ibeam_lib_monogfx.font_5x5", "ibeam_lib_monogfx.font_8x8",
         "rawpanellib.ASCIIreader_gfx", "rawpanellib.DebugRWPhelpers", "rawpanellib.DebugRWPhelpersMU",
         "rawpanellib.icons8by8", "rawpanellib.lockGraphic", "rawpanellib.noAccessGraphic", "rawpanellib.speedGraphic",
         "rawpanellib.regex_cmd", "rawpanellib.regex_cmd_inbound", "rawpanellib.regex_genericDual",
         "rawpanellib.regex_genericSingle", "rawpanellib.regex_genericSingleStr", "rawpanellib.regex_genericSingle_inbound",
         "rawpanellib.regex_gfx", "rawpanellib.regex_map", "rawpanellib.regex_registers", "rawpanellib.regex_registersOut"] := by
  decide

end RawPanelVerif.C06
