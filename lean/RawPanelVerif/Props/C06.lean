import RawPanelVerif.Lemmas.TotalIn
import RawPanelVerif.Lemmas.TotalOut
import RawPanelVerif.Props.C04
import RawPanelVerif.Props.C05
import RawPanelVerif.Gen.Shared
import RawPanelVerif.Gen.Reader
import RawPanelVerif.Lemmas.GfxTotal
import RawPanelVerif.Lemmas.GfxModels
/-!
# C06 — Converters and streaming reader are total and re-entrant

**Totality** (for ALL inputs: any byte strings as lines; any message obtainable from `proto.Unmarshal` — any presence
pattern, enums and integers anywhere in range, empty repeated fields).  The models carry Go's panics explicitly
(`Except Panic`: nil dereference, slice index, regex sub-match index), so these are statements about the guards in the
code, not artefacts of totalised definitions:

* `encIn_total`, `decIn_total`, `decIn_no_nil_message`  — inbound encoder / decoder (Lemmas/TotalIn.lean)
* `encOut_total`, `decOut_total`, `decOut_no_nil_message` — outbound encoder / decoder (Lemmas/TotalOut.lean)
* `parse_total`, `parse_session_total` — the streaming reader `ASCIIreader.Parse` in a panic-carrying model of its own
  (`Model/GfxE.lean: Stream.parseE`: the regular expression's sub-matches are a list indexed with `sub` in `Except Panic`,
  the hand-over calls the panic-carrying batch decoder `decInE`): for every reader state (any field values, e.g. restored
  from an arbitrary JSON document), every input string and any `encoding/json` results it returns, without panic and
  without a nil message; likewise a whole session of any length.  The batch decoder's totality is `decIn_total`.
* `batch_models_agree`, `parse_models_agree` — ONE function: the panic-carrying inbound decoder (`Model/DecIn.lean`, the
  subject of `decIn_total`, of C01/C02's soundness theorems) and the C05 model of the same Go function
  (`Gfx.Batch.decode Batch.step`, the subject of C05's safety / clean-run theorems) were written independently (two
  matchers for `regex_gfx`, two readings of `strconv.Atoi`, two base64 decoders, image objects by value vs in a store).
  They return the same messages on EVERY line sequence; likewise the panic-carrying `Parse` and C05's `Stream.parse`
  (same reader state, same messages, at every call, from every state).  Lemmas/GfxModels.lean: `matchers_agree`,
  `atoiV_digits`, `b64_same` (every text, error or not), `gstep_sim`.
* "no hang": the Lean models are structural recursions over the input lists; for the Go code `loops_are_bounded` states,
  over a table regenerated from the sources on every run (`Gen.converterLoops`: every `for` statement of
  converterFunctions.go and of the methods of `ASCIIreader`), that every loop is a `range` over a slice / map / string
  evaluated once (bound: its length at loop entry) or a counted loop `for i := a; i < b; i++` whose counter and bound are
  not assigned in the body (bound: `b - a`), and that there is no `goto`, `go`, `select`, channel operation or recursion
  among these functions.  Library calls inside the loops (regexp, strconv, base64, json, proto, fmt) are outside the model.
* `encInPinned_panics_counterexample`, `decInPinned_nil_counterexample`, `raw_case_would_panic` — the pinned tree's
  nil-`TextStyling` dereference, the nil message for `[null]`, and the dead `Raw` case indexing the wrong regex.

**Re-entrancy**.  In the model the five functions are pure, so every interleaving of concurrent calls equals the
sequential result by construction.  That transfers to the code only if the Go functions share no mutable state:
* `no_shared_mutable_state` (clauses `shared_writes_allowed`, `shared_uses_allowed`, `shared_sink_uses_allowed`,
  `shared_mutable_vars_known`, `shared_tables_consistent`) — over tables regenerated from the Go sources on every run by
  the extractor for the four library packages rawpanellib, gorwp, ibeam_lib_monogfx, topology (left out: the
  protoc-generated ibeam_rawpanel, the C binding rawpanel-lib-c and gorwp/examples, both `package main`):
  - no function body and no package-level initialiser writes to a package-level variable (assignment, op-assignment,
    `++`/`--`, range-assignment, `delete`/`clear`; directly or through index / field / dereference);
  - every other occurrence of a package-level variable that is not a pure read (receiver of a method call, call argument,
    address taken, alias into a local / field / return value / literal / channel, `copy` or `append` destination, `range`,
    anything the extractor does not understand) is on a hand-written allow-list: the read-only methods
    `MatchString` / `FindStringSubmatch` of the compiled regexps, `Lock` / `Unlock` of the debug-dump mutex, the font
    tables stored into `MonoImg.font` by `SetFont`, the icon tables passed to `MonoImg.DrawBitmap`;
  - the field / parameter / local a table is handed to is followed by the extractor (to a fixpoint) and may itself only
    be read (`Gen.sinkUses`: `img.font = …` re-binds the field, `len(bitmap)`; no element write);
  - every package-level variable whose type is not bool / integer / float / string must be one of the known ones, so a
    new package-level scratch slice, map, `strings.Builder`, `sync.Map`, … fails the build however it is used.
  Syntactic (go/ast, no type checker, no tracking of reflection, cgo, linkname or pointer-cast tricks): partial in that sense.
* `package_vars_known` — the package-level variables are exactly the known tables, regexps, the debug flag and its mutex.
* the debug flag: `DebugRWPhelpers` (rawpanelhelpers.go:35) is never assigned inside the library; callers set it.  The
  four converters read it WITHOUT the mutex (`if DebugRWPhelpers {` at converterFunctions.go:633, 946, 1479, 1763; the
  reader reaches the first of these through the inbound decoder).  `DebugRWPhelpersMU` is locked only inside those
  branches (634–658, 947–970, 1480–1504, 1764–1789): it serialises the debug dumps of concurrent converter calls, it does
  not guard the flag.  In the tables the reads are pure reads of a bool and the `Lock`/`Unlock` sites are allow-listed
  method uses.  ASSUMPTION of the re-entrancy claim: the flag is constant while converters run.  Observed in a throw-away
  experiment (`go build -race -tags verif`; 8 goroutines × 300 passes through the four converters and the reader, plus
  one goroutine looping `DebugRWPhelpersMU.Lock(); DebugRWPhelpers = …; DebugRWPhelpersMU.Unlock()` as a caller is
  supposed to): the race detector reports `DATA RACE` between the toggler's write and the reads at
  converterFunctions.go:633, 946, 1479 and 1763 (all four sites; exit 66 with `halt_on_error=1`); the same program
  without the toggler gives no report.  Toggling the flag is not a converter call, so this lies outside C06's statement
  (concurrent *calls* equal sequential calls); it is recorded here and in the `assumptions` of tools/propcfg/C06.py.
* the harness runs 4–32 goroutines through all five functions, in-process and in a child built with `go build -race`
  (both tiers), and compares every result with the sequential one (`conc.run` records; supporting evidence): shared
  inputs and inputs that differ from goroutine to goroutine (a `RawPanelSupport` capability set per goroutine, own texts /
  images / event lists), multi-line text and JSON payloads, graphics transfers of all goroutines held at their
  last-but-one line and released together so that one completes while another starts, and every returned slice / message
  held and compared again after later calls and after all goroutines finished (harness/conc.go).
Outside the model: the Go memory model and races inside `regexp`, `encoding/json`, `proto` (partial).
-/
namespace RawPanelVerif.C06
open RawPanelVerif

/-! ## the streaming reader never panics -/

/-- `ASCIIreader.Parse` (panic-carrying model): any reader state, any input, any JSON results — it returns, and no
returned message is nil -/
theorem parse_total (O : MsgIn.Oracles) (s : Gfx.RState) (l : Bytes) :
    ∃ r, Gfx.Stream.parseE O s l = .ok r ∧ ∀ m ∈ r.2, m.isSome = true :=
  Gfx.parseE_total O s l

/-- a whole streaming session of any length from any reader state -/
theorem parse_session_total (O : MsgIn.Oracles) (s : Gfx.RState) (ls : List Bytes) :
    ∃ r, Gfx.Stream.runE O s ls = .ok r ∧ r.2.length = ls.length ∧ ∀ ms ∈ r.2, ∀ m ∈ ms, m.isSome = true :=
  Gfx.runE_total O ls s

/-- non-vacuity: the panic-carrying reader does deliver (chunk 0 of 0..1, then chunk 1: one message at the second call),
and an index out of range IS a panic in this model (`sub` on a list that is too short) -/
example : (Gfx.Stream.runE default {} [C05.Pinned.c0of1, C05.Pinned.c1]).toOption.map (fun r => r.2.map List.length) =
    some [0, 1] := by decide
example : Model.In.sub [[1], [2]] 3 = .error .indexRange := rfl

/-! ## the two models of the inbound decoder / of the reader are one function -/

/-- the full inbound decoder model returns, for every line sequence and any JSON results, exactly the messages of the
C05 model of the same Go function: per delivery a message with the target ids and the image, per non-graphics line what
the decoder returns for that line alone (`Gfx.otherOut`, the C05 model's "opaque per-line function") -/
theorem batch_models_agree (O : MsgIn.Oracles) (ls : List Bytes) :
    Model.In.decInE O ls = .ok (Gfx.expand O (Gfx.Batch.decode Gfx.Batch.step ls)) :=
  Gfx.batch_models_agree O ls

/-- … and the panic-carrying `Parse` is C05's `Stream.parse`, from every reader state, on every input -/
theorem parse_models_agree (O : MsgIn.Oracles) (s : Gfx.RState) (l : Bytes) :
    Gfx.Stream.parseE O s l = .ok ((Gfx.Stream.parse s l).1, Gfx.expand O (Gfx.Stream.parse s l).2) :=
  Gfx.parseE_agrees O s l

/-- non-vacuity: on a history with a delivery both sides are a one-message list -/
example : (Gfx.expand default (Gfx.Batch.decode Gfx.Batch.step [C05.Pinned.c0of1, C05.Pinned.c1])).length = 1 := by
  decide

/-! ## loop bounds of the Go code (regenerated table) -/

/-- every `for` statement of the converters and of the streaming reader is a `range` loop or a counted loop whose
counter and bound the body does not assign; no goto / go / select / channel operation / recursion -/
theorem loops_are_bounded : ∀ l ∈ Gen.converterLoops, l.2.1 = "range" ∨ l.2.1 = "count" := by decide

/-- the table is about the functions the property names -/
theorem loops_cover_converters :
    ∀ f ∈ ["RawPanelASCIIstringsToInboundMessages", "InboundMessagesToRawPanelASCIIstrings",
           "RawPanelASCIIstringsToOutboundMessages", "OutboundMessagesToRawPanelASCIIstrings", "ASCIIreader.Parse"],
      f ∈ Gen.converterFunctions := by decide

example : Gen.converterLoops ≠ [] := by decide

-- ===== BEGIN shared-state block (no_shared_mutable_state, package_vars_known and their allow-lists) =====================
-- Everything `Gen.*` below is regenerated from the Go sources on every run (extract/main.go, genShared): packages
-- rawpanellib, gorwp, ibeam_lib_monogfx, topology.  The allow-lists are written here by hand: a new package-level cache
-- (scratch slice, strings.Builder, sync.Map, map …), or a new way of using an existing variable (alias, copy / append
-- destination, mutating method, address taken, passed to another function), makes one of the `decide`s below false.

/-- type classes whose values can only be changed by an assignment (and assignments are all in `Gen.packageVarWrites`) -/
def immutableClasses : List String := ["bool", "int", "float", "string"]

/-- the package-level variables of a mutable / reference type class that exist in the pinned tree: the read-only tables, the
    compiled regular expressions and the mutex of the debug dump -/
def knownMutableVars : List String :=
  ["ibeam_lib_monogfx.font", "ibeam_lib_monogfx.font_5x5", "ibeam_lib_monogfx.font_8x8",
   "rawpanellib.icons8by8", "rawpanellib.lockGraphic", "rawpanellib.noAccessGraphic", "rawpanellib.speedGraphic",
   "rawpanellib.ASCIIreader_gfx", "rawpanellib.regex_cmd", "rawpanellib.regex_cmd_inbound", "rawpanellib.regex_genericDual",
   "rawpanellib.regex_genericSingle", "rawpanellib.regex_genericSingleStr", "rawpanellib.regex_genericSingle_inbound",
   "rawpanellib.regex_gfx", "rawpanellib.regex_map", "rawpanellib.regex_registers", "rawpanellib.regex_registersOut",
   "rawpanellib.DebugRWPhelpersMU"]

/-- writes (`pkg.var@function[:form]`) to package-level variables that are accepted.  None: in the pinned tree no function
    of the four scanned packages (and no package-level initialiser) writes to a package-level variable; `DebugRWPhelpers`
    is only ever assigned by callers of the library. -/
def allowedWrites : List String := []

/-- (type class, kind): uses accepted for every variable of that type class -/
def allowedUses : List (String × String) := [
  -- *regexp.Regexp is documented "safe for concurrent use by multiple goroutines" (except configuration methods such as
  -- Longest); these two methods only read the compiled program
  ("regexp", "method:MatchString"), ("regexp", "method:FindStringSubmatch"),
  -- taking / releasing a lock is what a mutex is for
  ("mutex", "method:Lock"), ("mutex", "method:Unlock"), ("mutex", "method:RLock"), ("mutex", "method:RUnlock")]

/-- (variable, kind): uses accepted for that variable only.  Each of them hands the table to other code, which is then
    followed by the extractor (`Gen.sinks`) and judged by `allowedSinkUses`. -/
def allowedVarUses : List (String × String) := [
  -- MonoImg.SetFont: `img.font = font…` (the image keeps a reference to the font table; field `font` is followed)
  ("ibeam_lib_monogfx.font", "alias:field:font"), ("ibeam_lib_monogfx.font_5x5", "alias:field:font"),
  ("ibeam_lib_monogfx.font_8x8", "alias:field:font"),
  -- WriteDisplayTileNew: `disp.DrawBitmap(x, y, <table>, …)` (parameter `bitmap` of MonoImg.DrawBitmap is followed)
  ("rawpanellib.speedGraphic", "arg:DrawBitmap"), ("rawpanellib.lockGraphic", "arg:DrawBitmap"),
  ("rawpanellib.noAccessGraphic", "arg:DrawBitmap"), ("rawpanellib.icons8by8", "arg:DrawBitmap")]

/-- (sink, kind): accepted non-read uses of the places the tables are handed to -/
def allowedSinkUses : List (String × String) := [
  -- `img.font = …` re-binds the field of one image; it does not write into the table (that would be `write:elem`)
  ("ibeam_lib_monogfx.(field)font", "write"),
  -- `len(bitmap)`
  ("ibeam_lib_monogfx.MonoImg.DrawBitmap#bitmap", "arg:len")]

def classOf (v : String) : String := (Gen.packageVarTypes.lookup v).getD "?"

def allowedUse (u : String × String × String) : Bool :=
  allowedUses.contains (classOf u.1, u.2.2) || allowedVarUses.contains (u.1, u.2.2)

def allowedSinkUse (u : String × String × String) : Bool := allowedSinkUses.contains (u.1, u.2.2)

/-- 1. no write to a package-level variable outside `allowedWrites` (= none) -/
theorem shared_writes_allowed : ∀ w ∈ Gen.packageVarWrites, w ∈ allowedWrites := by decide
/-- 2. every use of a package-level variable that is not a pure read is on the allow-list -/
theorem shared_uses_allowed : ∀ u ∈ Gen.packageVarUses, allowedUse u = true := by decide
/-- 3. so is every non-read use of a parameter / field / local such a variable is handed to (followed to a fixpoint) -/
theorem shared_sink_uses_allowed : ∀ u ∈ Gen.sinkUses, allowedSinkUse u = true := by decide
/-- 4. every package-level variable is of an assignment-only type class, or one of the known tables / regexps / the mutex -/
theorem shared_mutable_vars_known :
    ∀ vt ∈ Gen.packageVarTypes, vt.2 ∈ immutableClasses ∨ vt.1 ∈ knownMutableVars := by decide
/-- 5. every package-level variable has a type-class entry (the generated tables belong together) -/
theorem shared_tables_consistent : ∀ v ∈ Gen.packageVars, (Gen.packageVarTypes.lookup v).isSome = true := by decide

/-- No shared mutable state, over the tables regenerated from the Go sources on every run (1–5 above; stated separately so
    that a failing build names the clause that broke). -/
theorem no_shared_mutable_state :
    (∀ w ∈ Gen.packageVarWrites, w ∈ allowedWrites) ∧
    (∀ u ∈ Gen.packageVarUses, allowedUse u = true) ∧
    (∀ u ∈ Gen.sinkUses, allowedSinkUse u = true) ∧
    (∀ vt ∈ Gen.packageVarTypes, vt.2 ∈ immutableClasses ∨ vt.1 ∈ knownMutableVars) ∧
    (∀ v ∈ Gen.packageVars, (Gen.packageVarTypes.lookup v).isSome = true) :=
  ⟨shared_writes_allowed, shared_uses_allowed, shared_sink_uses_allowed, shared_mutable_vars_known, shared_tables_consistent⟩

-- non-vacuity: the tables are not empty, allowed things are allowed, and the seeded forms are rejected
example : Gen.packageVarUses ≠ [] ∧ Gen.sinks ≠ [] ∧ Gen.sinkUses ≠ [] ∧ Gen.packageVarTypes ≠ [] := by decide
example : allowedUse ("rawpanellib.regex_cmd", "RawPanelASCIIstringsToInboundMessages", "method:MatchString") = true := by decide
-- a new scratch slice used through an alias (seeded C06-1), a new strings.Builder (C06-6), a new sync.Map (C18-4)
example : allowedUse ("rawpanellib.hwctFields", "InboundMessagesToRawPanelASCIIstrings", "alias:local:stringSlice") = false := by decide
example : allowedUse ("rawpanellib.stripLineBreaksBuf", "stripLineBreaks", "method:WriteString") = false := by decide
example : allowedUse ("ibeam_lib_monogfx.glyphWidths", "MonoImg.GetCharWidth", "method:Store") = false := by decide
-- known variables used in a new way: alias, copy / append destination, address, configuration method of a regexp
example : allowedUse ("rawpanellib.icons8by8", "WriteDisplayTileNew", "alias:local:s") = false := by decide
example : allowedUse ("rawpanellib.icons8by8", "WriteDisplayTileNew", "copydst") = false := by decide
example : allowedUse ("rawpanellib.lockGraphic", "WriteDisplayTileNew", "appenddst") = false := by decide
example : allowedUse ("rawpanellib.lockGraphic", "WriteDisplayTileNew", "addr") = false := by decide
example : allowedUse ("rawpanellib.regex_cmd", "RawPanelASCIIstringsToInboundMessages", "method:Longest") = false := by decide
example : allowedSinkUse ("ibeam_lib_monogfx.(field)font", "MonoImg.RenderText", "write:elem") = false := by decide
example : allowedSinkUse ("ibeam_lib_monogfx.MonoImg.DrawBitmap#bitmap", "MonoImg.DrawBitmap", "write:elem") = false := by decide
example : ¬ ("rawpanellib.DebugRWPhelpers@SetDebug" ∈ allowedWrites) := by decide
example : ¬ ("sync.Map" ∈ immutableClasses ∨ "ibeam_lib_monogfx.glyphWidths" ∈ knownMutableVars) := by decide

/-- the package-level variables that exist are the read-only tables and the debug flag with its mutex
    (gorwp and topology, scanned since the extractor covers all four library packages, declare none) -/
theorem package_vars_known : ∀ v ∈ Gen.packageVars,
    v ∈ ["ibeam_lib_monogfx.font", "ibeam_lib_monogfx.font_5x5", "ibeam_lib_monogfx.font_8x8",
         "rawpanellib.ASCIIreader_gfx", "rawpanellib.DebugRWPhelpers", "rawpanellib.DebugRWPhelpersMU",
         "rawpanellib.icons8by8", "rawpanellib.lockGraphic", "rawpanellib.noAccessGraphic", "rawpanellib.speedGraphic",
         "rawpanellib.regex_cmd", "rawpanellib.regex_cmd_inbound", "rawpanellib.regex_genericDual",
         "rawpanellib.regex_genericSingle", "rawpanellib.regex_genericSingleStr", "rawpanellib.regex_genericSingle_inbound",
         "rawpanellib.regex_gfx", "rawpanellib.regex_map", "rawpanellib.regex_registers", "rawpanellib.regex_registersOut"] := by
  decide
-- ===== END shared-state block ==========================================================================================

end RawPanelVerif.C06
