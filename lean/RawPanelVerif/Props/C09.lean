import RawPanelVerif.Lemmas.NetFeed
import RawPanelVerif.Lemmas.NetAscii
import RawPanelVerif.Lemmas.NetTimed
import RawPanelVerif.Model.NetWriter
/-!
# C09 — submitted messages reach the panel intact, in order, in the negotiated encoding

Property theorems only.  The writer goroutine (connecttopanel.go 138-174) is the LTS `Net.wstep` (Model/NetWriter):
`submit` (a goroutine's send is ordered into the channel), `take` (the writer receives a list), one `conn.Write` per
message / converter line — `writeOk`, or an error after a proper prefix: `writeTimeout` (the connection's *write
deadline* has passed) or `writeError` (connection broken, sticky) — and `readerOp op now`: the reader goroutine
executes one of its `Set…Deadline` calls on the *same* connection (`Net.Cfg`: every call site with its kind,
`SetReadDeadline` or `SetDeadline`).  `marshal` bytes and converter lines are opaque.  Reconnects are the LTS
`Net.rstep`: one writer goroutine per connection, all receiving from the one channel.

One connection (every run, any interleaving of the labels, any number of submitters):
* `write_deadline_never_armed`   the reader's calls are all `SetReadDeadline` (`repaired.readOnly`, checked on the
                                 configuration): the write deadline stays cleared in every run of the writer LTS, and in
                                 every reachable state of the reader LTS (`reader_never_arms_write_deadline`)
* `repaired_is_the_source_layout`, `source_layout_readOnly`   that configuration is the source's: the ordered list of
                                 `Set…Deadline` call sites regenerated from `ConnectToPanel` on every run
                                 (`Gen.deadlineSites`: function, position in the loop structure, `SetReadDeadline` or
                                 `SetDeadline`, zero time or now + constant) gives `repaired` under `Net.cfgOfSites`
* `written_isPrefix`             what reached the wire is a prefix of the concatenation, in channel order, of the
                                 frames (lines + LF) of the lists taken; it is that concatenation minus the chunks not
                                 yet written unless a write returned an error; taken ++ pending = submitted
* `written_is_concat`, `drained_all_written`   no failed write, current list finished: written = the concatenation
* `writes_never_interleave`      at every moment the wire holds the complete lists taken before the current one,
                                 followed by the first k chunks of the current one: contiguous, never interleaved
                                 (`take` is not atomic here: submits and reader calls interleave with the writes)
* `reads_do_not_affect_writes`   deleting every `readerOp` from a run leaves a run with the same writer-visible state:
                                 not a tautology now, it holds because the write deadline is never armed, and
* `set_deadline_breaks_writes_counterexample`   fails for the configuration of seeded changes C09-3 / C09-4
                                 (`SetDeadline` at 198): a write times out half-way, the next succeeds: the stream is
                                 no prefix of the frames any more
* `frames_of_written`            the panel-side reference parse of what was written in binary mode returns exactly
                                 the submitted payloads, in order, nothing left over
* `ascii_one_lf_per_line`        the panel-side split at LF of what was written in ASCII mode returns exactly the
                                 converter lines (each terminated by exactly one LF), nothing left over
Reconnects (every run of `Net.rstep` with `close(quit)`):
* `single_writer`                at most one writer goroutine exists, and it belongs to the current connection
* `taken_while_connected_written_to_live_conn`   a list received while a connection is up is written to that
                                 connection; no list is ever lost to a writer of a dead connection while one is up
* `stale_writer_counterexample`  with a non-blocking `quit <- true` instead of `close(quit)` (seeded change C09-5) a
                                 writer that was busy when its connection was lost survives, and after the reconnect a
                                 list handed over on the new connection is written to the dead one
Assumptions named by the model: one label = one Go statement group; a `conn.Write` error other than a timeout is
sticky; channel order = order of the `submit` labels; in `rstep` a writer whose quit signal is visible has returned
before the retry period (≥ 1 s) ends (a timing assumption: Go's `select` may pick the channel over the closed `quit`).
-/
namespace RawPanelVerif.C09
open RawPanelVerif RawPanelVerif.Net

theorem writeBytes_append (m : Mode) (a b : List Submission) :
    writeBytes m (a ++ b) = writeBytes m a ++ writeBytes m b := by
  simp [writeBytes]

/-! ### one connection -/

theorem submitted_cons (l : WLbl) (ls : List WLbl) : submitted (l :: ls) = submitted [l] ++ submitted ls := by
  cases l <;> simp [submitted]

theorem writeBytes_snoc (m : Mode) (a : List Submission) (x : Submission) :
    writeBytes m (a ++ [x]) = writeBytes m a ++ (chunks m x).flatten := by
  rw [writeBytes_append]; simp [writeBytes, writeOne_eq_chunks]

/-- the invariant of the writer LTS for configurations whose reader calls never touch the write deadline -/
structure WInv (m : Mode) (s : WSt) (subs : List Submission) : Prop where
  subs : s.taken ++ s.pending = subs
  wdl : s.wdl = none
  sticky : s.failed = s.broken
  pre : ∃ rest, s.written ++ rest = writeBytes m s.taken ∧ (s.failed = false → rest = s.cur.flatten)
  cur : s.cur = [] ∨ ∃ pre x k, s.taken = pre ++ [x] ∧ s.cur = (chunks m x).drop k

theorem winv_init (m : Mode) : WInv m WSt.init [] :=
  ⟨rfl, rfl, rfl, ⟨[], by simp [WSt.init, writeBytes], fun _ => rfl⟩, Or.inl rfl⟩

theorem ops_readOnly (cfg : Cfg) (h : cfg.readOnly = true) (op : DlOp) (hop : op ∈ cfg.ops) : op.readOnly = true := by
  simp only [Cfg.readOnly, List.all_eq_true] at h
  exact h op hop

theorem winv_step (cfg : Cfg) (hro : cfg.readOnly = true) (m : Mode) (s s' : WSt) (l : WLbl) (subs : List Submission)
    (h : WInv m s subs) (hs : wstep cfg m s l = some s') : WInv m s' (subs ++ submitted [l]) := by
  obtain ⟨h1, h2, h3, ⟨rest, h4, h5⟩, h6⟩ := h
  cases l with
  | submit x =>
    simp only [wstep, Option.some.injEq] at hs; subst hs
    exact ⟨by simp [submitted, ← h1], h2, h3, ⟨rest, h4, h5⟩, h6⟩
  | take =>
    simp only [wstep] at hs
    split at hs
    · rename_i x r hc hp
      simp only [Option.some.injEq] at hs; subst hs
      refine ⟨by simp [submitted, ← h1, hp], h2, h3, ⟨rest ++ (chunks m x).flatten, ?_, ?_⟩, ?_⟩
      · simp only; rw [writeBytes_snoc, ← List.append_assoc, h4]
      · intro hf; simp only at hf ⊢; rw [h5 hf, hc]; simp
      · exact Or.inr ⟨s.taken, x, 0, rfl, by simp⟩
    · cases hs
  | writeOk now =>
    simp only [wstep] at hs
    split at hs
    · rename_i c rc hc
      split at hs
      · rename_i hg
        simp only [Option.some.injEq] at hs; subst hs
        have hf : s.failed = false := by rw [h3]; exact hg.1
        refine ⟨by simpa [submitted] using h1, h2, h3, ⟨rc.flatten, ?_, fun _ => rfl⟩, ?_⟩
        · simp only; rw [List.append_assoc, ← h4, h5 hf, hc]; simp
        · rcases h6 with h6 | ⟨pre, x, k, ht, hk⟩
          · rw [hc] at h6; cases h6
          · refine Or.inr ⟨pre, x, k + 1, ht, ?_⟩
            simp only
            rw [hc] at hk
            have : (chunks m x).drop (k + 1) = ((chunks m x).drop k).drop 1 := by rw [List.drop_drop]
            rw [this, ← hk]; rfl
      · cases hs
    · cases hs
  | writeTimeout now k =>
    simp only [wstep] at hs
    split at hs
    · split at hs
      · rename_i hg
        have := hg.2.1
        simp [wExpired, h2] at this
      · cases hs
    · cases hs
  | writeError now k =>
    simp only [wstep] at hs
    split at hs
    · rename_i c rc hc
      split at hs
      · rename_i hk
        simp only [Option.some.injEq] at hs; subst hs
        refine ⟨by simpa [submitted] using h1, h2, rfl, ?_, ?_⟩
        · cases hb : s.broken with
          | true => exact ⟨rest, by simpa [hb] using h4, fun hf => by simp at hf⟩
          | false =>
            have hf : s.failed = false := by rw [h3]; exact hb
            refine ⟨c.drop k ++ rc.flatten, ?_, fun hf => by simp at hf⟩
            simp only [hb, Bool.false_eq_true, if_false]
            rw [List.append_assoc, ← List.append_assoc (c.take k), List.take_append_drop, ← h4, h5 hf, hc]; simp
        · rcases h6 with h6 | ⟨pre, x, j, ht, hj⟩
          · rw [hc] at h6; cases h6
          · refine Or.inr ⟨pre, x, j + 1, ht, ?_⟩
            simp only
            rw [hc] at hj
            have : (chunks m x).drop (j + 1) = ((chunks m x).drop j).drop 1 := by rw [List.drop_drop]
            rw [this, ← hj]; rfl
      · cases hs
    · cases hs
  | readerOp op now =>
    simp only [wstep] at hs
    split at hs
    · rename_i hop
      simp only [Option.some.injEq] at hs; subst hs
      refine ⟨by simpa [submitted] using h1, ?_, h3, ⟨rest, h4, h5⟩, h6⟩
      simp only
      rw [apply_readOnly_wr op now _ (ops_readOnly cfg hro op hop)]; exact h2
    · cases hs

theorem winv_run (cfg : Cfg) (hro : cfg.readOnly = true) (m : Mode) (ls : List WLbl) :
    ∀ (s s' : WSt) (subs : List Submission), WInv m s subs → wrun cfg m s ls = some s' → WInv m s' (subs ++ submitted ls) := by
  induction ls with
  | nil => intro s s' subs h hr; simp [wrun] at hr; subst hr; simpa [submitted] using h
  | cons l ls ih =>
    intro s s' subs h hr
    simp only [wrun] at hr
    split at hr
    · cases hr
    · rename_i s1 h1
      have := ih s1 s' _ (winv_step cfg hro m s s1 l subs h h1) hr
      rw [submitted_cons, ← List.append_assoc]; exact this

theorem repaired_readOnly : repaired.readOnly = true := by decide

/-- **the reader's deadline calls in the source are read-only**: the ordered list of `Set…Deadline` call sites regenerated
from `ConnectToPanel` on this run is the configuration `repaired` (every call a `SetReadDeadline`); a `SetDeadline` at any
of them (seeded changes C09-3, C09-4, C09-7) is another configuration and makes this fail -/
theorem repaired_is_the_source_layout : cfgOfSites Gen.deadlineSites = some repaired := by decide

theorem source_layout_readOnly : ∃ cfg, cfgOfSites Gen.deadlineSites = some cfg ∧ cfg.readOnly = true :=
  ⟨repaired, repaired_is_the_source_layout, repaired_readOnly⟩

example : (cfgOfSites (exampleSites.map (fun s => { s with fn := 1 }))).map Cfg.readOnly = some false := by decide
theorem pinned_readOnly : pinned.readOnly = true := by decide

/-- **the write deadline is never armed**: all `Set…Deadline` calls of the reader are `SetReadDeadline`
(`repaired.readOnly`, a check on the configuration), so in every run of the writer LTS — any interleaving of submits,
writes and reader calls at any times — the connection's write deadline stays cleared, and no `conn.Write` can time out -/
theorem write_deadline_never_armed (cfg : Cfg) (hro : cfg.readOnly = true) (m : Mode) (ls : List WLbl) (s : WSt)
    (h : wrun cfg m WSt.init ls = some s) :
    s.wdl = none ∧ ∀ now k, wstep cfg m s (.writeTimeout now k) = none := by
  have hi := winv_run cfg hro m ls WSt.init s [] (winv_init m) h
  refine ⟨hi.wdl, fun now k => ?_⟩
  simp only [wstep]
  split
  · simp [wExpired, hi.wdl]
  · rfl

/-- the same fact on the reader's side: in every reachable state of the reader LTS the write deadline is cleared -/
theorem reader_never_arms_write_deadline (cfg : Cfg) (hro : cfg.readOnly = true) (s : CState) (h : Reachable cfg s) :
    s.dl.wr = none := by
  obtain ⟨tp, ls, e, hr⟩ := h
  refine runL_induct cfg (fun s => s.dl.wr = none) (fun a b l e ha hs => wr_step cfg hro a b l e ha hs) ls _ s e ?_ hr
  show (cfg.probeArm.apply tp {}).wr = none
  rw [apply_readOnly_wr _ _ _ (readOnly_fields cfg hro).1]

/-- **what reached the wire** (every run; configurations whose reader calls are read-only, e.g. the code as it is):
a prefix of the concatenation, in channel order, of one frame per message (binary) / one `line ++ LF` per converter
line (ASCII) of the lists taken so far; exactly that concatenation minus the chunks still to be written, unless a
`conn.Write` returned an error; and the lists taken followed by those still queued are the submitted ones, in order -/
theorem written_isPrefix (cfg : Cfg) (hro : cfg.readOnly = true) (m : Mode) (ls : List WLbl) (s : WSt)
    (h : wrun cfg m WSt.init ls = some s) :
    s.written <+: writeBytes m s.taken ∧
    (s.failed = false → s.written ++ s.cur.flatten = writeBytes m s.taken) ∧
    s.taken ++ s.pending = submitted ls := by
  have hi := winv_run cfg hro m ls WSt.init s [] (winv_init m) h
  obtain ⟨rest, h4, h5⟩ := hi.pre
  exact ⟨⟨rest, h4⟩, fun hf => by rw [← h5 hf]; exact h4, by simpa using hi.subs⟩

/-- no failed write and the current list finished: bytes written = the concatenation, in channel order -/
theorem written_is_concat (cfg : Cfg) (hro : cfg.readOnly = true) (m : Mode) (ls : List WLbl) (s : WSt)
    (h : wrun cfg m WSt.init ls = some s) (hf : s.failed = false) (hc : s.cur = []) :
    s.written = writeBytes m s.taken ∧ s.taken ++ s.pending = submitted ls := by
  obtain ⟨_, h2, h3⟩ := written_isPrefix cfg hro m ls s h
  have := h2 hf
  rw [hc] at this
  exact ⟨by simpa using this, h3⟩

/-- when the queue has drained, everything submitted has been written, in submission order -/
theorem drained_all_written (cfg : Cfg) (hro : cfg.readOnly = true) (m : Mode) (ls : List WLbl) (s : WSt)
    (h : wrun cfg m WSt.init ls = some s) (hf : s.failed = false) (hc : s.cur = []) (hq : s.pending = []) :
    s.written = writeBytes m (submitted ls) := by
  obtain ⟨h1, h2⟩ := written_is_concat cfg hro m ls s h hf hc
  rw [hq, List.append_nil] at h2
  rw [h1, h2]

/-- **never interleaved**: at every moment of every run (no failed write) the wire holds the complete output of the
lists taken before the current one, followed by the first k chunks of the current one -/
theorem writes_never_interleave (cfg : Cfg) (hro : cfg.readOnly = true) (m : Mode) (ls : List WLbl) (s : WSt)
    (h : wrun cfg m WSt.init ls = some s) (hf : s.failed = false) :
    (s.cur = [] ∧ s.written = writeBytes m s.taken) ∨
    ∃ pre x k, s.taken = pre ++ [x] ∧ s.written = writeBytes m pre ++ ((chunks m x).take k).flatten := by
  have hi := winv_run cfg hro m ls WSt.init s [] (winv_init m) h
  obtain ⟨rest, h4, h5⟩ := hi.pre
  have h5 := h5 hf
  rcases hi.cur with hc | ⟨pre, x, k, ht, hk⟩
  · left; refine ⟨hc, ?_⟩; rw [h5, hc] at h4; simpa using h4
  · right
    refine ⟨pre, x, k, ht, ?_⟩
    rw [h5, hk, ht, writeBytes_snoc] at h4
    have : (chunks m x).flatten = ((chunks m x).take k).flatten ++ ((chunks m x).drop k).flatten := by
      rw [← List.flatten_append, List.take_append_drop]
    rw [this, ← List.append_assoc] at h4
    exact List.append_cancel_right h4

/-! #### reader calls and the writer -/

def notReaderOp : WLbl → Bool
  | .readerOp _ _ => false
  | _ => true

/-- the part of the state the writer itself reads and writes (everything but the read deadline) -/
def core (s : WSt) : List Submission × List Submission × List Bytes × Bytes × Option Nat × Bool × Bool :=
  (s.pending, s.taken, s.cur, s.written, s.wdl, s.broken, s.failed)

theorem wstep_rdl (cfg : Cfg) (m : Mode) (a : WSt) (r : Option Nat) (l : WLbl) (hl : notReaderOp l = true) :
    wstep cfg m { a with rdl := r } l = (wstep cfg m a l).map (fun x => { x with rdl := r }) := by
  obtain ⟨ap, at', ac, aw, awd, ard, ab, af⟩ := a
  cases l with
  | submit x => rfl
  | take => cases ac <;> cases ap <;> rfl
  | writeOk now =>
    cases ac with
    | nil => rfl
    | cons c rc =>
      by_cases hg : ab = false ∧ wExpired awd now = false
      · simp only [wstep, hg, and_self, if_true, Option.map]
      · simp only [wstep, hg, if_false, Option.map]
  | writeTimeout now k =>
    cases ac with
    | nil => rfl
    | cons c rc =>
      by_cases hg : ab = false ∧ wExpired awd now = true ∧ k < c.length
      · simp only [wstep, hg, and_self, if_true, Option.map]
      · simp only [wstep, hg, if_false, Option.map]
  | writeError now k =>
    cases ac with
    | nil => rfl
    | cons c rc =>
      by_cases hg : k < c.length
      · simp only [wstep, hg, if_true, Option.map]
      · simp only [wstep, hg, if_false, Option.map]
  | readerOp op now => cases hl

theorem core_eq (a b : WSt) (h : core a = core b) : b = { a with rdl := b.rdl } := by
  obtain ⟨ap, at', ac, aw, awd, ard, ab, af⟩ := a
  obtain ⟨bp, bt, bc, bw, bwd, brd, bb, bf⟩ := b
  simp only [core, Prod.mk.injEq] at h
  obtain ⟨h1, h2, h3, h4, h5, h6, h7⟩ := h
  subst h1 h2 h3 h4 h5 h6 h7
  rfl

theorem wstep_core (cfg : Cfg) (m : Mode) (a b a' : WSt) (l : WLbl) (hl : notReaderOp l = true) (hc : core a = core b)
    (hs : wstep cfg m a l = some a') : ∃ b', wstep cfg m b l = some b' ∧ core a' = core b' := by
  rw [core_eq a b hc, wstep_rdl cfg m a b.rdl l hl, hs]
  exact ⟨_, rfl, rfl⟩

/-- **traffic from the panel does not affect the writer**: what incoming traffic does to the shared connection is
the reader's deadline calls.  For the code as it is (all of them read-only) the same run without any `readerOp` is
possible and leads to the same writer-visible state — same lists taken, same bytes on the wire, same errors. -/
theorem reads_do_not_affect_writes (cfg : Cfg) (hro : cfg.readOnly = true) (m : Mode) (ls : List WLbl) :
    ∀ (s0 t0 s : WSt) (subs : List Submission), WInv m s0 subs → core s0 = core t0 → wrun cfg m s0 ls = some s →
      ∃ t, wrun cfg m t0 (ls.filter notReaderOp) = some t ∧ core t = core s := by
  induction ls with
  | nil => intro s0 t0 s subs _ hc h; simp [wrun] at h; subst h; exact ⟨t0, rfl, hc.symm⟩
  | cons l ls ih =>
    intro s0 t0 s subs hi hc h
    simp only [wrun] at h
    split at h
    · cases h
    · rename_i s1 h1
      have hi1 := winv_step cfg hro m s0 s1 l subs hi h1
      cases hl : notReaderOp l with
      | true =>
        obtain ⟨t1, ht1, hc1⟩ := wstep_core cfg m s0 t0 s1 l hl hc h1
        obtain ⟨t, ht, hct⟩ := ih s1 t1 s _ hi1 hc1 h
        exact ⟨t, by simp only [List.filter, hl, wrun, ht1]; exact ht, hct⟩
      | false =>
        -- a reader call: only the read deadline changes (the write deadline stays cleared)
        have hc1 : core s1 = core t0 := by
          cases l with
          | readerOp op now =>
            simp only [wstep] at h1
            split at h1
            · rename_i hop
              simp only [Option.some.injEq] at h1; subst h1
              rw [← hc]
              simp only [core, Prod.mk.injEq, true_and]
              refine ⟨?_, trivial⟩
              rw [apply_readOnly_wr op now _ (ops_readOnly cfg hro op hop)]
            · cases h1
          | submit x => cases hl
          | take => cases hl
          | writeOk now => cases hl
          | writeTimeout now k => cases hl
          | writeError now k => cases hl
        obtain ⟨t, ht, hct⟩ := ih s1 t0 s _ hi1 hc1 h
        exact ⟨t, by simp only [List.filter, hl]; exact ht, hct⟩

/-- the configuration of seeded changes C09-3 / C09-4: `SetDeadline` instead of `SetReadDeadline` before the payload read -/
def setDeadlineCfg : Cfg := { repaired with payload := .arm .both frameTimeout }

/-- … there incoming traffic *does* affect the writer: a frame from the panel arms a write deadline, a write that is
in progress 2 s later returns after 2 of its 5 bytes, the error is ignored, the next frame arms the deadline anew and
the next message goes out whole: the panel receives `01 00 | 01 00 00 00 02`, no prefix of the two frames -/
theorem set_deadline_breaks_writes_counterexample :
    setDeadlineCfg.readOnly = false ∧
    (wrun setDeadlineCfg .binary WSt.init
      [.submit ⟨[[1], [2]], []⟩, .take, .readerOp (.arm .both frameTimeout) 0, .writeTimeout 2100 2,
       .readerOp (.arm .both frameTimeout) 2200, .writeOk 2300]).map (fun s => (s.written, s.wdl))
      = some ([1, 0, 1, 0, 0, 0, 2], some 4200) ∧
    writeBytes .binary [⟨[[1], [2]], []⟩] = [1, 0, 0, 0, 1, 1, 0, 0, 0, 2] ∧
    wrun repaired .binary WSt.init
      [.submit ⟨[[1], [2]], []⟩, .take, .readerOp (.arm .read frameTimeout) 0, .writeTimeout 2100 2] = none := by
  refine ⟨by decide, by decide, by decide, by decide⟩

theorem writeBytes_binary (subs : List Submission) :
    writeBytes .binary subs = encode (subs.flatMap (·.msgs)) := by
  induction subs with
  | nil => rfl
  | cons s r ih =>
    simp only [writeBytes, List.map_cons, List.flatten_cons, List.flatMap_cons] at ih ⊢
    rw [ih]
    simp [encode, writeOne]

/-- **intact and in order (binary)**: a panel reading the written bytes with the reference parser gets exactly the
submitted payloads, one frame each, in order, with nothing left over — for any number and size (< 2^32) of messages -/
theorem frames_of_written (subs : List Submission) (h : ∀ s ∈ subs, ∀ p ∈ s.msgs, p.length < 4294967296) :
    Spec.Net.parse 4294967296 (writeBytes .binary subs) = (subs.flatMap (·.msgs), .done) := by
  rw [writeBytes_binary]
  apply parse_encode _ (Nat.le_refl _)
  intro f hf
  simp only [List.mem_flatMap] at hf
  obtain ⟨s, hs, hp⟩ := hf
  exact h s hs f hp

theorem splitLF_lines (ls : List Bytes) (h : ∀ l ∈ ls, (10 : UInt8) ∉ l) :
    Spec.Net.splitLF ((ls.map (· ++ [10])).flatten) = (ls, []) := by
  induction ls with
  | nil => rfl
  | cons l r ih =>
    simp only [List.map_cons, List.flatten_cons, List.append_assoc, List.cons_append, List.nil_append]
    rw [splitLF_line l _ (h l (by simp)), ih (fun x hx => h x (by simp [hx]))]

theorem writeBytes_ascii (subs : List Submission) :
    writeBytes .ascii subs = ((subs.flatMap (·.lines)).map (· ++ [10])).flatten := by
  induction subs with
  | nil => rfl
  | cons s r ih =>
    simp only [writeBytes, List.map_cons, List.flatten_cons, List.flatMap_cons] at ih ⊢
    rw [ih]
    simp [writeOne]

/-- **intact and in order (ASCII)**: splitting the written bytes at LF gives exactly the converter's lines, each
terminated by exactly one LF, nothing left over (lines themselves contain no LF: that is C07) -/
theorem ascii_one_lf_per_line (subs : List Submission) (h : ∀ s ∈ subs, ∀ l ∈ s.lines, (10 : UInt8) ∉ l) :
    Spec.Net.splitLF (writeBytes .ascii subs) = (subs.flatMap (·.lines), []) := by
  rw [writeBytes_ascii]
  apply splitLF_lines
  intro l hl
  simp only [List.mem_flatMap] at hl
  obtain ⟨s, hs, hp⟩ := hl
  exact h s hs l hp

/-! ### reconnects -/

structure RInv (s : RSt) : Prop where
  one : s.writers.length ≤ 1
  cur : ∀ w ∈ s.writers, w.conn = s.gen
  quit : s.up = false → ∀ w ∈ s.writers, w.quit = true
  lost : ∀ e ∈ s.lost, e.2.2 = false

theorem mem_removeAt {α : Type} (l : List α) (i : Nat) (a : α) (h : a ∈ removeAt l i) : a ∈ l := by
  induction l generalizing i with
  | nil => simp [removeAt] at h
  | cons x r ih =>
    cases i with
    | zero => simp only [removeAt] at h; exact List.mem_cons_of_mem _ h
    | succ j =>
      simp only [removeAt, List.mem_cons] at h
      rcases h with h | h
      · simp [h]
      · exact List.mem_cons_of_mem _ (ih j h)

theorem length_removeAt {α : Type} (l : List α) (i : Nat) : (removeAt l i).length ≤ l.length := by
  induction l generalizing i with
  | nil => simp [removeAt]
  | cons x r ih =>
    cases i with
    | zero => simp [removeAt]
    | succ j => simp only [removeAt, List.length_cons]; have := ih j; omega

theorem rinv_step (s s' : RSt) (l : RLbl) (h : RInv s) (hs : rstep .closeChan s l = some s') : RInv s' := by
  obtain ⟨h1, h2, h3, h4⟩ := h
  cases l with
  | connect =>
    simp only [rstep] at hs
    split at hs
    · rename_i hg
      simp only [Option.some.injEq] at hs; subst hs
      have hnil : s.writers = [] := by
        cases hw : s.writers with
        | nil => rfl
        | cons w r =>
          have q1 := h3 hg.1 w (by simp [hw])
          have q2 := hg.2
          rw [hw] at q2
          simp [q1] at q2
      refine ⟨by simp [hnil], ?_, by simp, h4⟩
      intro w hw; simp only [hnil, List.nil_append, List.mem_singleton] at hw; subst hw; rfl
    · cases hs
  | lose =>
    simp only [rstep] at hs
    split at hs
    · simp only [Option.some.injEq] at hs; subst hs
      refine ⟨by simpa using h1, ?_, ?_, h4⟩
      · intro w hw
        simp only [List.mem_map] at hw
        obtain ⟨v, hv, rfl⟩ := hw
        have := h2 v hv
        split <;> simp [this]
      · intro _ w hw
        simp only [List.mem_map] at hw
        obtain ⟨v, hv, rfl⟩ := hw
        simp [h2 v hv]
    · cases hs
  | submit => simp only [rstep, Option.some.injEq] at hs; subst hs; exact ⟨h1, h2, h3, h4⟩
  | take i =>
    simp only [rstep] at hs
    split at hs
    · rename_i w x r hw hc
      split at hs
      · cases hs
      · split at hs
        · simp only [Option.some.injEq] at hs; subst hs; exact ⟨h1, h2, h3, h4⟩
        · rename_i hn
          simp only [Option.some.injEq] at hs; subst hs
          refine ⟨h1, h2, h3, ?_⟩
          intro e he
          simp only [List.mem_append, List.mem_singleton] at he
          rcases he with he | he
          · exact h4 e he
          · subst he
            have hwc := h2 w (List.mem_of_getElem? hw)
            cases hu : s.up with
            | false => rfl
            | true => exact absurd ⟨hwc, hu⟩ hn
    · cases hs
  | block i =>
    simp only [rstep] at hs
    split at hs
    · rename_i w hw
      split at hs
      · cases hs
      · simp only [Option.some.injEq] at hs; subst hs
        have hwm := List.mem_of_getElem? hw
        refine ⟨by simpa using h1, ?_, ?_, h4⟩
        · intro v hv
          rcases List.mem_or_eq_of_mem_set hv with hv | hv
          · exact h2 v hv
          · subst hv; exact h2 w hwm
        · intro hu v hv
          rcases List.mem_or_eq_of_mem_set hv with hv | hv
          · exact h3 hu v hv
          · subst hv; exact h3 hu w hwm
    · cases hs
  | unblock i =>
    simp only [rstep] at hs
    split at hs
    · rename_i w hw
      split at hs
      · simp only [Option.some.injEq] at hs; subst hs
        have hwm := List.mem_of_getElem? hw
        refine ⟨by simpa using h1, ?_, ?_, h4⟩
        · intro v hv
          rcases List.mem_or_eq_of_mem_set hv with hv | hv
          · exact h2 v hv
          · subst hv; exact h2 w hwm
        · intro hu v hv
          rcases List.mem_or_eq_of_mem_set hv with hv | hv
          · exact h3 hu v hv
          · subst hv; exact h3 hu w hwm
      · cases hs
    · cases hs
  | exit i =>
    simp only [rstep] at hs
    split at hs
    · split at hs
      · simp only [Option.some.injEq] at hs; subst hs
        exact ⟨Nat.le_trans (length_removeAt _ _) h1, fun w hw => h2 w (mem_removeAt _ _ _ hw),
          fun hu w hw => h3 hu w (mem_removeAt _ _ _ hw), h4⟩
      · cases hs
    · cases hs

theorem rinv_run (ls : List RLbl) : ∀ (s s' : RSt), RInv s → rrun .closeChan s ls = some s' → RInv s' := by
  induction ls with
  | nil => intro s s' h hr; simp [rrun] at hr; subst hr; exact h
  | cons l ls ih =>
    intro s s' h hr
    simp only [rrun] at hr
    split at hr
    · cases hr
    · rename_i s1 h1
      exact ih s1 s' (rinv_step s s1 l h h1) hr

theorem rinv_init : RInv RSt.init := ⟨by simp [RSt.init], by simp [RSt.init], by simp [RSt.init], by simp [RSt.init]⟩

/-- **one writer**: in every run with reconnects (any number of losses, submitters, busy periods) there is at most
one writer goroutine, and it belongs to the current connection — the writer of a lost connection has always been
told to stop (`close(quit)` reaches it whatever it is doing) and is gone before the next connection exists -/
theorem single_writer (ls : List RLbl) (s : RSt) (h : rrun .closeChan RSt.init ls = some s) :
    s.writers.length ≤ 1 ∧ ∀ w ∈ s.writers, w.conn = s.gen :=
  ⟨(rinv_run ls _ s rinv_init h).one, (rinv_run ls _ s rinv_init h).cur⟩

/-- **handed over while connected ⇒ written to the live connection**: in every such run, a list that a writer
receives while a connection is up is written to *that* connection (`wire` grows by `(gen, list)`), and among all
lists ever received by a writer whose connection was already gone (`lost`) none was received while a connection was up -/
theorem taken_while_connected_written_to_live_conn (ls : List RLbl) (s : RSt)
    (h : rrun .closeChan RSt.init ls = some s) :
    (∀ e ∈ s.lost, e.2.2 = false) ∧
    (∀ i s', s.up = true → rstep .closeChan s (.take i) = some s' →
      ∃ x r, s.chan = x :: r ∧ s'.wire = s.wire ++ [(s.gen, x)] ∧ s'.lost = s.lost) := by
  have hi := rinv_run ls _ s rinv_init h
  refine ⟨hi.lost, ?_⟩
  intro i s' hu hs
  simp only [rstep] at hs
  split at hs
  · rename_i w x r hw hc
    have hwc := hi.cur w (List.mem_of_getElem? hw)
    split at hs
    · cases hs
    · split at hs
      · simp only [Option.some.injEq] at hs; subst hs
        exact ⟨x, r, hc, by simp [hwc], rfl⟩
      · rename_i hn; exact absurd ⟨hwc, hu⟩ hn
  · cases hs

/-- **the stale writer** (seeded change C09-5: a non-blocking `quit <- true` instead of `close(quit)`): the writer
of connection 1 is inside `conn.Write` when the connection is lost and never sees the signal; after the reconnect two
writers receive from the channel, and a list handed over while connection 2 is up is written to dead connection 1 -/
theorem stale_writer_counterexample :
    (rrun .trySend RSt.init [.connect, .block 0, .lose, .unblock 0, .connect, .submit, .take 0]).map
      (fun s => (s.writers.length, s.wire, s.lost)) = some (2, [], [(1, ⟨0, 2⟩, true)]) ∧
    rrun .closeChan RSt.init [.connect, .block 0, .lose, .unblock 0, .connect] = none ∧
    (rrun .closeChan RSt.init [.connect, .block 0, .lose, .unblock 0, .exit 0, .connect, .submit, .take 0]).map
      (fun s => (s.writers.length, s.wire, s.lost)) = some (1, [(2, ⟨0, 2⟩)], []) := by
  refine ⟨by decide, by decide, by decide⟩

/-! non-vacuity: concrete executions with two submitters, reader calls in between, a broken connection -/
example :
    (wrun repaired .binary WSt.init [.submit ⟨[[8, 1]], []⟩, .readerOp (.arm .read frameTimeout) 7, .submit ⟨[[], [8, 2]], []⟩,
      .take, .writeOk 9, .take, .writeOk 10, .readerOp (.clear .read) 11, .writeOk 5000]).map (·.written)
      = some [2, 0, 0, 0, 8, 1, 0, 0, 0, 0, 2, 0, 0, 0, 8, 2] := by decide
example :
    (wrun repaired .ascii WSt.init [.submit ⟨[], [[112, 105, 110, 103]]⟩, .take, .writeOk 3]).map (·.written)
      = some [112, 105, 110, 103, 10] := by decide
example :
    (wrun repaired .binary WSt.init [.submit ⟨[[8, 1], [8, 2]], []⟩, .take, .writeError 5 3, .writeError 6 0]).map
      (fun s => (s.written, s.failed)) = some ([2, 0, 0], true) := by decide

end RawPanelVerif.C09
