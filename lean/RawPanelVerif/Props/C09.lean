import RawPanelVerif.Lemmas.NetFeed
import RawPanelVerif.Lemmas.NetAscii
/-!
# C09 — submitted messages reach the panel intact, in order, in the negotiated encoding

Property theorems only.  The writer goroutine (connecttopanel.go 135-170) is the LTS `Net.wstep` with labels
`submit` (a goroutine's send is ordered into the channel), `take` (the writer receives a list and writes it) and
`panelTraffic` (the reader consumes bytes from the panel).  `marshal` bytes and converter lines are opaque.

* `written_is_concat`            in every execution: bytes written = concatenation, in channel order, of one frame
                                 per message (binary) / one `line ++ LF` per converter line (ASCII), and the lists
                                 taken so far followed by those still pending are the submitted ones, in order
* `reads_do_not_affect_writes`   deleting every `panelTraffic` label changes neither what is written nor its order
* `frames_of_written`            the panel-side reference parse of what was written in binary mode returns exactly
                                 the submitted payloads, in order, nothing left over
* `ascii_one_lf_per_line`        the panel-side split at LF of what was written in ASCII mode returns exactly the
                                 converter lines (each terminated by exactly one LF), nothing left over
* `writes_never_interleave`      what one submission contributes is contiguous in the written stream
-/
namespace RawPanelVerif.C09
open RawPanelVerif RawPanelVerif.Net

def WInv (m : Mode) (s : WSt) (subs : List Submission) : Prop :=
  s.written = writeBytes m s.taken ∧ s.taken ++ s.pending = subs

theorem writeBytes_append (m : Mode) (a b : List Submission) :
    writeBytes m (a ++ b) = writeBytes m a ++ writeBytes m b := by
  simp [writeBytes]

theorem winv_step (m : Mode) (s s' : WSt) (l : WLbl) (subs : List Submission) (h : WInv m s subs)
    (hs : wstep m s l = some s') : WInv m s' (subs ++ submitted [l]) := by
  obtain ⟨h1, h2⟩ := h
  cases l with
  | submit x =>
    simp only [wstep, Option.some.injEq] at hs; subst hs
    exact ⟨h1, by simp [submitted, ← h2]⟩
  | take =>
    simp only [wstep] at hs
    split at hs
    · simp at hs
    · rename_i x r hp
      simp only [Option.some.injEq] at hs; subst hs
      refine ⟨?_, ?_⟩
      · simp [h1, writeBytes_append, writeBytes]
      · simp [submitted, ← h2, hp]
  | panelTraffic n =>
    simp only [wstep, Option.some.injEq] at hs; subst hs
    exact ⟨h1, by simp [submitted, h2]⟩

theorem submitted_cons (l : WLbl) (ls : List WLbl) : submitted (l :: ls) = submitted [l] ++ submitted ls := by
  cases l <;> simp [submitted]

theorem winv_run (m : Mode) (ls : List WLbl) : ∀ (s s' : WSt) (subs : List Submission), WInv m s subs →
    wrun m s ls = some s' → WInv m s' (subs ++ submitted ls) := by
  induction ls with
  | nil => intro s s' subs h hr; simp [wrun] at hr; subst hr; simpa [submitted] using h
  | cons l ls ih =>
    intro s s' subs h hr
    simp only [wrun] at hr
    split at hr
    · simp at hr
    · rename_i s1 h1
      have := ih s1 s' _ (winv_step m s s1 l subs h h1) hr
      rw [submitted_cons, ← List.append_assoc]; exact this

/-- **written = concatenation in channel order**, over all executions of the writer LTS (any interleaving of
submissions by any number of goroutines, writer steps and incoming traffic, of any length) -/
theorem written_is_concat (m : Mode) (ls : List WLbl) (s : WSt) (h : wrun m WSt.init ls = some s) :
    s.written = writeBytes m s.taken ∧ s.taken ++ s.pending = submitted ls := by
  have := winv_run m ls WSt.init s [] ⟨by simp [WSt.init, writeBytes], by simp [WSt.init]⟩ h
  simpa [WInv] using this

/-- when the queue has drained, everything submitted has been written, in submission order -/
theorem drained_all_written (m : Mode) (ls : List WLbl) (s : WSt) (h : wrun m WSt.init ls = some s)
    (hq : s.pending = []) : s.written = writeBytes m (submitted ls) := by
  obtain ⟨h1, h2⟩ := written_is_concat m ls s h
  rw [hq, List.append_nil] at h2
  rw [h1, h2]

def notTraffic : WLbl → Bool
  | .panelTraffic _ => false
  | _ => true

/-- the part of the writer state the writer itself reads and writes -/
def core (s : WSt) : List Submission × List Submission × Bytes := (s.pending, s.taken, s.written)

theorem wstep_core (m : Mode) (a b a' : WSt) (l : WLbl) (hc : core a = core b) (hs : wstep m a l = some a') :
    ∃ b', wstep m b l = some b' ∧ core a' = core b' := by
  obtain ⟨ap, at', aw, ai⟩ := a
  obtain ⟨bp, bt, bw, bi⟩ := b
  simp only [core, Prod.mk.injEq] at hc
  obtain ⟨h1, h2, h3⟩ := hc
  subst h1 h2 h3
  cases l with
  | submit x => simp only [wstep, Option.some.injEq] at hs; subst hs; exact ⟨_, rfl, rfl⟩
  | take =>
    cases ap with
    | nil => simp [wstep] at hs
    | cons x r => simp only [wstep, Option.some.injEq] at hs; subst hs; exact ⟨_, rfl, rfl⟩
  | panelTraffic n => simp only [wstep, Option.some.injEq] at hs; subst hs; exact ⟨_, rfl, rfl⟩

theorem wrun_core (m : Mode) (ls : List WLbl) : ∀ (a b a' : WSt), core a = core b → wrun m a ls = some a' →
    ∃ b', wrun m b ls = some b' ∧ core a' = core b' := by
  induction ls with
  | nil => intro a b a' hc hr; simp [wrun] at hr; subst hr; exact ⟨b, rfl, hc⟩
  | cons l ls ih =>
    intro a b a' hc hr
    simp only [wrun] at hr
    split at hr
    · simp at hr
    · rename_i a1 h1
      obtain ⟨b1, hb1, hc1⟩ := wstep_core m a b a1 l hc h1
      obtain ⟨b', hb', hc'⟩ := ih a1 b1 a' hc1 hr
      exact ⟨b', by simp only [wrun, hb1]; exact hb', hc'⟩

/-- traffic from the panel is invisible to the writer: the same execution without the `panelTraffic` labels is
possible and writes the same bytes in the same order -/
theorem reads_do_not_affect_writes (m : Mode) (ls : List WLbl) : ∀ (s0 s : WSt), wrun m s0 ls = some s →
    ∃ s', wrun m s0 (ls.filter notTraffic) = some s' ∧ core s' = core s := by
  induction ls with
  | nil => intro s0 s h; exact ⟨s, by simpa [wrun] using h, rfl⟩
  | cons l ls ih =>
    intro s0 s h
    simp only [wrun] at h
    split at h
    · simp at h
    · rename_i s1 h1
      obtain ⟨s', hs', hc⟩ := ih s1 s h
      cases l with
      | panelTraffic n =>
        simp only [wstep, Option.some.injEq] at h1
        -- s1 differs from s0 only in the `inbound` counter, which no writer step reads
        have hc0 : core s1 = core s0 := by subst h1; rfl
        obtain ⟨sb, hsb, hcb⟩ := wrun_core m _ s1 s0 s' hc0 hs'
        exact ⟨sb, by simpa [List.filter, notTraffic] using hsb, by rw [← hcb, hc]⟩
      | submit x => exact ⟨s', by simp only [List.filter, notTraffic, wrun, h1]; exact hs', hc⟩
      | take => exact ⟨s', by simp only [List.filter, notTraffic, wrun, h1]; exact hs', hc⟩

theorem writeBytes_binary (subs : List Submission) :
    writeBytes .binary subs = encode (subs.flatMap (·.msgs)) := by
  induction subs with
  | nil => rfl
  | cons s r ih =>
    simp only [writeBytes, List.map_cons, List.flatten_cons, List.flatMap_cons] at ih ⊢
    rw [ih]
    simp [encode, writeOne]

/-- **intact and in order (binary)**: a panel reading the written bytes with the reference parser gets exactly the
submitted payloads, one frame each, in order, with nothing left over — for any number and size (< 2^32) of messages -/
theorem frames_of_written (subs : List Submission) (h : ∀ s ∈ subs, ∀ p ∈ s.msgs, p.length < 4294967296) :
    Spec.Net.parse 4294967296 (writeBytes .binary subs) = (subs.flatMap (·.msgs), .done) := by
  rw [writeBytes_binary]
  apply parse_encode _ (Nat.le_refl _)
  intro f hf
  simp only [List.mem_flatMap] at hf
  obtain ⟨s, hs, hp⟩ := hf
  exact h s hs f hp

theorem splitLF_lines (ls : List Bytes) (h : ∀ l ∈ ls, (10 : UInt8) ∉ l) :
    Spec.Net.splitLF ((ls.map (· ++ [10])).flatten) = (ls, []) := by
  induction ls with
  | nil => rfl
  | cons l r ih =>
    simp only [List.map_cons, List.flatten_cons, List.append_assoc, List.cons_append, List.nil_append]
    rw [splitLF_line l _ (h l (by simp)), ih (fun x hx => h x (by simp [hx]))]

theorem writeBytes_ascii (subs : List Submission) :
    writeBytes .ascii subs = ((subs.flatMap (·.lines)).map (· ++ [10])).flatten := by
  induction subs with
  | nil => rfl
  | cons s r ih =>
    simp only [writeBytes, List.map_cons, List.flatten_cons, List.flatMap_cons] at ih ⊢
    rw [ih]
    simp [writeOne]

/-- **intact and in order (ASCII)**: splitting the written bytes at LF gives exactly the converter's lines, each
terminated by exactly one LF, nothing left over (lines themselves contain no LF: that is C07) -/
theorem ascii_one_lf_per_line (subs : List Submission) (h : ∀ s ∈ subs, ∀ l ∈ s.lines, (10 : UInt8) ∉ l) :
    Spec.Net.splitLF (writeBytes .ascii subs) = (subs.flatMap (·.lines), []) := by
  rw [writeBytes_ascii]
  apply splitLF_lines
  intro l hl
  simp only [List.mem_flatMap] at hl
  obtain ⟨s, hs, hp⟩ := hl
  exact h s hs l hp

/-- **never interleaved**: the bytes of one submission are contiguous, between those of the submissions taken
before it and those taken after it -/
theorem writes_never_interleave (m : Mode) (before after : List Submission) (x : Submission) :
    writeBytes m (before ++ x :: after) = writeBytes m before ++ writeOne m x ++ writeBytes m after := by
  simp [writeBytes]

/-! non-vacuity: a concrete execution with two submitters, traffic in between, and its written bytes -/
example :
    (wrun .binary WSt.init [.submit ⟨[[8, 1]], []⟩, .panelTraffic 7, .submit ⟨[[], [8, 2]], []⟩, .take, .take]).map (·.written)
      = some [2, 0, 0, 0, 8, 1, 0, 0, 0, 0, 2, 0, 0, 0, 8, 2] := by decide
example :
    (wrun .ascii WSt.init [.submit ⟨[], [[112, 105, 110, 103]]⟩, .take]).map (·.written) = some [112, 105, 110, 103, 10] := by decide

end RawPanelVerif.C09
