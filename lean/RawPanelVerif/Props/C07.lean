import RawPanelVerif.Lemmas.StripLemmas
import RawPanelVerif.Spec.StripSpec
/-!
# C07 — Every produced ASCII string is exactly one line and flattening loses no content

* `strip_no_lf`, `stripSvg_no_lf`, `singleLine_no_lf`  — the three flattening functions never output a line feed,
  for every input string.
* `strip_structure`, `stripSvg_structure` — for every input, the output is the concatenation, in order, of the
  LF-separated lines of the input, each with only a sequence of white-space runes removed at its two ends (and, for
  SVG, one space appended where the line does not end in `>`): nothing but white space and the line feeds is lost,
  nothing is reordered.
* `singleLine_only_lf` — the return-site flattening changes nothing but line feeds (into spaces), position by position.
* `framing` — strings without LF, each written followed by one LF, are recovered exactly by splitting at LF
  (stated with the Spec's own splitter, for any number of strings).
* `svgPinned_loses_content_counterexample` — the pinned tree's SVG flattening dropped `<path d="M0 0`.

NOT YET PROVED (validated by the correspondence only): that `Spec.Strip.contentEq s (stripLineBreaks s) = true`
for all `s`, i.e. the link between the structural statement above and the executable content comparison used on the
implementation's output (needs: the forward white-space scanner never straddles a rune boundary found by the backward trim).
-/
namespace RawPanelVerif.C07
open RawPanelVerif RawPanelVerif.Bytes RawPanelVerif.Strip

theorem trimSpace_no_lf (p : Bytes) (h : (10 : UInt8) ∉ p) : (10 : UInt8) ∉ trimSpace p :=
  fun hb => h (mem_of_mem_trimSpace p 10 hb)

/-- `stripLineBreaks` never outputs a line feed. -/
theorem strip_no_lf (s : Bytes) : (10 : UInt8) ∉ stripLineBreaks s := by
  unfold stripLineBreaks
  apply not_mem_flatten_map (α := Unit)
  intro l hl
  exact trimSpace_no_lf l (not_mem_of_mem_splitOn 10 s l hl)

/-- `stripLineBreaksSvg` never outputs a line feed. -/
theorem stripSvg_no_lf (s : Bytes) : (10 : UInt8) ∉ stripLineBreaksSvg s := by
  unfold stripLineBreaksSvg
  apply not_mem_flatten_map (α := Unit)
  intro l hl
  have h := trimSpace_no_lf l (not_mem_of_mem_splitOn 10 s l hl)
  unfold svgPart
  simp only []
  split
  · exact h
  · intro hb
    simp only [List.mem_append, List.mem_singleton] at hb
    rcases hb with hb | hb
    · exact h hb
    · exact absurd hb (by decide)

/-- the return-site flattening never outputs a line feed … -/
theorem singleLine_no_lf (s : Bytes) : (10 : UInt8) ∉ singleLine s := by
  unfold singleLine
  intro h
  simp only [List.mem_map] at h
  obtain ⟨b, _, hb⟩ := h
  split at hb
  · exact absurd hb (by decide)
  · rename_i hne; exact hne hb

/-- … keeps the length, and changes a byte only if it is a line feed (into a space) -/
theorem singleLine_only_lf (s : Bytes) :
    (singleLine s).length = s.length ∧
    ∀ i (h : i < s.length), (singleLine s)[i]'(by unfold singleLine; simpa using h) = (if s[i] = 10 then 32 else s[i]) := by
  unfold singleLine
  exact ⟨by simp, fun i h => by simp⟩

theorem singleLine_id (s : Bytes) (h : (10 : UInt8) ∉ s) : singleLine s = s := by
  unfold singleLine
  induction s with
  | nil => rfl
  | cons b bs ih =>
    have hb : b ≠ 10 := fun e => h (by simp [e])
    have hbs : (10 : UInt8) ∉ bs := fun e => h (by simp [e])
    simp [hb, ih hbs]

/-- every line decomposes as white-space runes ++ trimmed core ++ white-space runes -/
theorem lines_structure (ls : List Bytes) :
    ∃ parts : List (Bytes × Bytes × Bytes),
      ls = parts.map (fun p => p.1 ++ p.2.1 ++ p.2.2) ∧
      ls.map trimSpace = parts.map (fun p => p.2.1) ∧
      ∀ p ∈ parts, AllWs p.1 ∧ AllWsRev p.2.2.reverse := by
  induction ls with
  | nil => exact ⟨[], rfl, rfl, fun _ h => by simp at h⟩
  | cons l ls ih =>
    obtain ⟨parts, h1, h2, h3⟩ := ih
    obtain ⟨pre, suf, hl, hp, hs⟩ := trimSpace_decomp l
    refine ⟨(pre, trimSpace l, suf) :: parts, ?_, ?_, ?_⟩
    · simp only [List.map_cons]; rw [← hl, ← h1]
    · simp only [List.map_cons]; rw [h2]
    · intro p hp'
      simp only [List.mem_cons] at hp'
      rcases hp' with rfl | hp'
      · exact ⟨hp, hs⟩
      · exact h3 p hp'

/-- **Structure of the JSON/message flattening**: the input is the LF-join of its lines; every line is
`pre ++ core ++ suf` with `pre`, `suf` sequences of white-space runes; the output is the in-order concatenation of the
cores.  Nothing but white space and the line feeds is lost and nothing is reordered. -/
theorem strip_structure (s : Bytes) :
    ∃ parts : List (Bytes × Bytes × Bytes),
      s = join 10 (parts.map (fun p => p.1 ++ p.2.1 ++ p.2.2)) ∧
      stripLineBreaks s = (parts.map (fun p => p.2.1)).flatten ∧
      ∀ p ∈ parts, AllWs p.1 ∧ AllWsRev p.2.2.reverse := by
  obtain ⟨parts, h1, h2, h3⟩ := lines_structure (splitOn 10 s)
  refine ⟨parts, ?_, ?_, h3⟩
  · rw [← h1]; exact (join_splitOn 10 s).symm
  · unfold stripLineBreaks; rw [h2]

/-- same for the SVG flattening: each core is followed by one extra space exactly when it does not end in `>` -/
theorem stripSvg_structure (s : Bytes) :
    ∃ parts : List (Bytes × Bytes × Bytes),
      s = join 10 (parts.map (fun p => p.1 ++ p.2.1 ++ p.2.2)) ∧
      stripLineBreaksSvg s = (parts.map (fun p => if endsWithGt p.2.1 then p.2.1 else p.2.1 ++ [32])).flatten ∧
      ∀ p ∈ parts, AllWs p.1 ∧ AllWsRev p.2.2.reverse := by
  obtain ⟨parts, h1, h2, h3⟩ := lines_structure (splitOn 10 s)
  refine ⟨parts, ?_, ?_, h3⟩
  · rw [← h1]; exact (join_splitOn 10 s).symm
  · unfold stripLineBreaksSvg
    have : (splitOn 10 s).map svgPart = ((splitOn 10 s).map trimSpace).map (fun t => if endsWithGt t then t else t ++ [32]) := by
      rw [List.map_map]; rfl
    rw [this, h2, List.map_map]; rfl

/-- the Spec's LF splitter on `l ++ LF ++ rest` when `l` has no LF -/
theorem splitLF_append (l rest : Bytes) (h : (10 : UInt8) ∉ l) :
    Spec.Strip.splitLF (l ++ 10 :: rest) = l :: Spec.Strip.splitLF rest := by
  induction l with
  | nil => simp [Spec.Strip.splitLF]
  | cons c cs ih =>
    have hc : c ≠ 10 := fun e => h (by simp [e])
    have hcs : (10 : UInt8) ∉ cs := fun e => h (by simp [e])
    simp [Spec.Strip.splitLF, hc, ih hcs]

/-- **Framing**: any list of LF-free strings, each written followed by one LF, is recovered by splitting at LF. -/
theorem framing (ls : List Bytes) (h : ∀ l ∈ ls, (10 : UInt8) ∉ l) : Spec.Strip.framing ls = true := by
  unfold Spec.Strip.framing
  have : Spec.Strip.splitLF (ls.flatMap (fun l => l ++ [10])) = ls ++ [[]] := by
    induction ls with
    | nil => rfl
    | cons l ls ih =>
      simp only [List.flatMap_cons, List.append_assoc, List.cons_append]
      rw [splitLF_append l _ (h l (by simp)), List.nil_append, ih (fun x hx => h x (by simp [hx]))]
  rw [this]; simp

/-- every string the encoders return is `singleLine _`, hence the list they return frames correctly -/
theorem framing_of_singleLine (raw : List Bytes) : Spec.Strip.framing (raw.map singleLine) = true :=
  framing _ (fun l hl => by
    simp only [List.mem_map] at hl
    obtain ⟨r, _, rfl⟩ := hl
    exact singleLine_no_lf r)

/-- non-vacuity / sanity: a multi-line JSON-like payload -/
example : stripLineBreaks (asc "{\n  \"a\": 1,\r\n\t\"b\": [ 2 ]\n}") = asc "{\"a\": 1,\"b\": [ 2 ]}" := by decide

/-- The pinned tree replaced a line not ending in `>` by a single space: `<path d="M0 0⏎L1 1"/>` lost `<path d="M0 0`;
the repaired function keeps it. -/
theorem svgPinned_loses_content_counterexample :
    stripLineBreaksSvgPinned (asc "<path d=\"M0 0\nL1 1\"/>") = asc " L1 1\"/>" ∧
    stripLineBreaksSvg (asc "<path d=\"M0 0\nL1 1\"/>") = asc "<path d=\"M0 0 L1 1\"/>" := by decide

end RawPanelVerif.C07
