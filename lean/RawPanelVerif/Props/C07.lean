import RawPanelVerif.Lemmas.StripOneLine
import RawPanelVerif.Lemmas.StripContent
import RawPanelVerif.Spec.StripSpec
import RawPanelVerif.Lemmas.TotalIn
import RawPanelVerif.Lemmas.TotalOut
/-!
# C07 — Every produced ASCII string is exactly one line and flattening loses no content

* `strip_no_lf`, `stripSvg_no_lf`, `singleLine_no_lf`  — the three flattening functions never output a line feed,
  for every input string (stated and proved in Lemmas/StripOneLine.lean, same namespace `C07`: the encoder lemma files
  import them).
* `encoders_frame` — FULL-ENCODER theorem: for every list of inbound messages and every list of outbound messages (any
  field contents whatsoever) no string returned by `encIn` / `encOut` (the models of the two public encoders) contains a
  line feed, and the returned lists frame correctly (`Spec.Strip.framing`: each string + LF, split at LF, recovers
  exactly the strings).
* `topo_lines_content` — the two topology lines the outbound encoder returns for a message with a topology are
  `_panelTopology_svgbase=` + the flattened SVG and `_panelTopology_HWC=` + the flattened JSON, each one line whose
  white-space-free content equals that of the field (`Spec.Strip.checkPayload … = none`; JSON under the guard
  `JoinSafe`, implied by valid UTF-8).
* `wire_faithful` — the stream clause as the driver evaluates it on `strip.wire` records (`Spec.Strip.checkWire`): for
  LF-free produced strings, splitting "each string + LF" at LF gives back exactly those strings, so a writer that puts
  each string + LF on the wire passes the check.  The two writers (ConnectToPanel, gorwp) are NOT modelled: that they
  write exactly that is checked by execution only (net.c09 and strip.wire records).
* `strip_structure`, `stripSvg_structure` — for every input, the output is the concatenation, in order, of the
  LF-separated lines of the input, each with only a sequence of white-space runes removed at its two ends (and, for
  SVG, one space appended where the line does not end in `>`): nothing but white space and the line feeds is lost,
  nothing is reordered.
* `singleLine_only_lf` — the return-site flattening changes nothing but line feeds (into spaces), position by position.
* `framing` — strings without LF, each written followed by one LF, are recovered exactly by splitting at LF
  (stated with the Spec's own splitter, for any number of strings).
* `svgPinned_loses_content_counterexample` — the pinned tree's SVG flattening dropped `<path d="M0 0`.

* `strip_content`, `strip_payload` — the executable content comparison of the Spec (`contentEq`, forward scan deleting
  every Unicode white-space rune from both strings) holds between every input `s` and `stripLineBreaks s`, hence
  `Spec.Strip.checkPayload s (stripLineBreaks s) = none`, under the decidable guard `Strip.JoinSafe s`: no line of `s`
  after the first begins, once trimmed, with a UTF-8 continuation byte 0x80..0xBF.  `strip_content_utf8`: every valid
  UTF-8 string (`Strip.validUtf8` = Go `utf8.ValidString`) satisfies the guard; so does every ASCII string and every
  string without LF.
* `contentEq_invalid_utf8_counterexample` — the guard is necessary: for `s = E2 80 0A 85 41` (not valid UTF-8) joining
  the two lines gives `E2 80 85 41`, where `E2 80 85` is the white-space rune U+2005 although none of the three bytes
  was white space in `s`; `contentEq` is false.  (The real `stripLineBreaks` returns exactly `E2 80 85 41` on it.)
  `contentEq_trimmed_start_counterexample`: "no LINE begins with a continuation byte" is not enough (`C2 0A 20 85`):
  the guard has to speak about the trimmed line.
* `stripSvg_content`, `stripSvg_payload` — for the SVG flattening the same holds for EVERY byte string, no guard: each
  line image ends in `>` or in the appended space, so no white-space rune can form across a line boundary (the appended
  spaces are white space and vanish in the comparison).
-/
namespace RawPanelVerif.C07
open RawPanelVerif RawPanelVerif.Bytes RawPanelVerif.Strip

/-- every line decomposes as white-space runes ++ trimmed core ++ white-space runes -/
theorem lines_structure (ls : List Bytes) :
    ∃ parts : List (Bytes × Bytes × Bytes),
      ls = parts.map (fun p => p.1 ++ p.2.1 ++ p.2.2) ∧
      ls.map trimSpace = parts.map (fun p => p.2.1) ∧
      ∀ p ∈ parts, AllWs p.1 ∧ AllWsRev p.2.2.reverse := by
  induction ls with
  | nil => exact ⟨[], rfl, rfl, fun _ h => by simp at h⟩
  | cons l ls ih =>
    obtain ⟨parts, h1, h2, h3⟩ := ih
    obtain ⟨pre, suf, hl, hp, hs⟩ := trimSpace_decomp l
    refine ⟨(pre, trimSpace l, suf) :: parts, ?_, ?_, ?_⟩
    · simp only [List.map_cons]; rw [← hl, ← h1]
    · simp only [List.map_cons]; rw [h2]
    · intro p hp'
      simp only [List.mem_cons] at hp'
      rcases hp' with rfl | hp'
      · exact ⟨hp, hs⟩
      · exact h3 p hp'

/-- **Structure of the JSON/message flattening**: the input is the LF-join of its lines; every line is
`pre ++ core ++ suf` with `pre`, `suf` sequences of white-space runes; the output is the in-order concatenation of the
cores.  Nothing but white space and the line feeds is lost and nothing is reordered. -/
theorem strip_structure (s : Bytes) :
    ∃ parts : List (Bytes × Bytes × Bytes),
      s = join 10 (parts.map (fun p => p.1 ++ p.2.1 ++ p.2.2)) ∧
      stripLineBreaks s = (parts.map (fun p => p.2.1)).flatten ∧
      ∀ p ∈ parts, AllWs p.1 ∧ AllWsRev p.2.2.reverse := by
  obtain ⟨parts, h1, h2, h3⟩ := lines_structure (splitOn 10 s)
  refine ⟨parts, ?_, ?_, h3⟩
  · rw [← h1]; exact (join_splitOn 10 s).symm
  · unfold stripLineBreaks; rw [h2]

/-- same for the SVG flattening: each core is followed by one extra space exactly when it does not end in `>` -/
theorem stripSvg_structure (s : Bytes) :
    ∃ parts : List (Bytes × Bytes × Bytes),
      s = join 10 (parts.map (fun p => p.1 ++ p.2.1 ++ p.2.2)) ∧
      stripLineBreaksSvg s = (parts.map (fun p => if endsWithGt p.2.1 then p.2.1 else p.2.1 ++ [32])).flatten ∧
      ∀ p ∈ parts, AllWs p.1 ∧ AllWsRev p.2.2.reverse := by
  obtain ⟨parts, h1, h2, h3⟩ := lines_structure (splitOn 10 s)
  refine ⟨parts, ?_, ?_, h3⟩
  · rw [← h1]; exact (join_splitOn 10 s).symm
  · unfold stripLineBreaksSvg
    have : (splitOn 10 s).map svgPart = ((splitOn 10 s).map trimSpace).map (fun t => if endsWithGt t then t else t ++ [32]) := by
      rw [List.map_map]; rfl
    rw [this, h2, List.map_map]; rfl

/-- the Spec's LF splitter on `l ++ LF ++ rest` when `l` has no LF -/
theorem splitLF_append (l rest : Bytes) (h : (10 : UInt8) ∉ l) :
    Spec.Strip.splitLF (l ++ 10 :: rest) = l :: Spec.Strip.splitLF rest := by
  induction l with
  | nil => simp [Spec.Strip.splitLF]
  | cons c cs ih =>
    have hc : c ≠ 10 := fun e => h (by simp [e])
    have hcs : (10 : UInt8) ∉ cs := fun e => h (by simp [e])
    simp [Spec.Strip.splitLF, hc, ih hcs]

/-- **Framing**: any list of LF-free strings, each written followed by one LF, is recovered by splitting at LF. -/
theorem framing (ls : List Bytes) (h : ∀ l ∈ ls, (10 : UInt8) ∉ l) : Spec.Strip.framing ls = true := by
  unfold Spec.Strip.framing
  have : Spec.Strip.splitLF (ls.flatMap (fun l => l ++ [10])) = ls ++ [[]] := by
    induction ls with
    | nil => rfl
    | cons l ls ih =>
      simp only [List.flatMap_cons, List.append_assoc, List.cons_append]
      rw [splitLF_append l _ (h l (by simp)), List.nil_append, ih (fun x hx => h x (by simp [hx]))]
  rw [this]; simp

/-- every string the encoders return is `singleLine _`, hence the list they return frames correctly -/
theorem framing_of_singleLine (raw : List Bytes) : Spec.Strip.framing (raw.map singleLine) = true :=
  framing _ (fun l hl => by
    simp only [List.mem_map] at hl
    obtain ⟨r, _, rfl⟩ := hl
    exact singleLine_no_lf r)

/-! ## content: the structural statements above meet the executable comparison of the Spec -/

/-- **The guard is necessary.**  `s = E2 80 ⏎ 85 41` is not valid UTF-8; its two lines join to `E2 80 85 41`, whose first
three bytes are the white-space rune U+2005, while in `s` the bytes `E2`, `80`, `85` are each kept by the scanner. -/
theorem contentEq_invalid_utf8_counterexample :
    stripLineBreaks [0xE2, 0x80, 0x0A, 0x85, 0x41] = [0xE2, 0x80, 0x85, 0x41] ∧
    Spec.Strip.contentOf [0xE2, 0x80, 0x0A, 0x85, 0x41] = [0xE2, 0x80, 0x85, 0x41] ∧
    Spec.Strip.contentOf (stripLineBreaks [0xE2, 0x80, 0x0A, 0x85, 0x41]) = [0x41] ∧
    Spec.Strip.contentEq [0xE2, 0x80, 0x0A, 0x85, 0x41] (stripLineBreaks [0xE2, 0x80, 0x0A, 0x85, 0x41]) = false ∧
    joinSafe [0xE2, 0x80, 0x0A, 0x85, 0x41] = false ∧ validUtf8 [0xE2, 0x80, 0x0A, 0x85, 0x41] = false := by decide

/-- a guard on the untrimmed lines ("no line begins with a continuation byte") is too weak: in `C2 ⏎ 20 85` the second
line begins with a space, the trim exposes `85`, and the join `C2 85` is the white-space rune U+0085 -/
theorem contentEq_trimmed_start_counterexample :
    (splitOn 10 [0xC2, 0x0A, 0x20, 0x85]).all (fun l => !startsCont l) = true ∧
    stripLineBreaks [0xC2, 0x0A, 0x20, 0x85] = [0xC2, 0x85] ∧
    Spec.Strip.contentEq [0xC2, 0x0A, 0x20, 0x85] (stripLineBreaks [0xC2, 0x0A, 0x20, 0x85]) = false := by decide

/-- **Flattening loses no content** (JSON / message text): under the guard `JoinSafe s` — in particular for every valid
UTF-8 `s` — the Spec's executable comparison holds between `s` and `stripLineBreaks s`. -/
theorem strip_content (s : Bytes) (h : JoinSafe s) : Spec.Strip.contentEq s (stripLineBreaks s) = true := by
  unfold Spec.Strip.contentEq
  rw [contentOf_strip s h]
  exact beq_self_eq_true _

theorem strip_content_utf8 (s : Bytes) (h : validUtf8 s = true) : Spec.Strip.contentEq s (stripLineBreaks s) = true :=
  strip_content s (joinSafe_of_validUtf8 s h)

/-- **The SVG flattening loses no content, for every byte string** (the appended spaces are white space). -/
theorem stripSvg_content (s : Bytes) : Spec.Strip.contentEq s (stripLineBreaksSvg s) = true := by
  unfold Spec.Strip.contentEq
  rw [contentOf_stripSvg s]
  exact beq_self_eq_true _

theorem oneLine_of_no_lf (o : Bytes) (h : (10 : UInt8) ∉ o) : Spec.Strip.oneLine o = true := by
  unfold Spec.Strip.oneLine
  simp [h]

/-- the payload check the driver evaluates on `strip.json` records: one line, content kept -/
theorem strip_payload (s : Bytes) (h : JoinSafe s) : Spec.Strip.checkPayload s (stripLineBreaks s) = none := by
  unfold Spec.Strip.checkPayload
  simp [oneLine_of_no_lf _ (strip_no_lf s), strip_content s h]

/-- the payload check the driver evaluates on `strip.svg` records, for every input -/
theorem stripSvg_payload (s : Bytes) : Spec.Strip.checkPayload s (stripLineBreaksSvg s) = none := by
  unfold Spec.Strip.checkPayload
  simp [oneLine_of_no_lf _ (stripSvg_no_lf s), stripSvg_content s]


/-- **Wire clause, faithful writer**: if the strings the encoder produced are LF-free (which `encoders_frame` proves of
both encoder models) and a writer puts each of them on the wire followed by one line feed, the lines a panel reads by
splitting the stream at line feeds are exactly the produced strings: the check the driver evaluates on `strip.wire`
records holds. (The writers themselves - ConnectToPanel, gorwp - are checked by execution only.) -/
theorem wire_faithful (produced : List Bytes) (h : ∀ l ∈ produced, (10 : UInt8) ∉ l) :
    Spec.Strip.splitLF (produced.flatMap (fun l => l ++ [10])) = produced ++ [[]] ∧
    Spec.Strip.checkWire produced produced = none := by
  have hf := framing produced h
  refine ⟨?_, ?_⟩
  · unfold Spec.Strip.framing at hf
    exact eq_of_beq hf
  · unfold Spec.Strip.checkWire
    have h1 : produced.any (fun o => !Spec.Strip.oneLine o) = false := by
      rw [List.any_eq_false]
      intro o ho
      simp [oneLine_of_no_lf o (h o ho)]
    simp [h1, hf]

/-- non-vacuity: a `%` text as produced; a writer that rewrites it is rejected -/
example : Spec.Strip.checkWire [asc "HWCt#13=|||Gain 50%|1"] [asc "HWCt#13=|||Gain 50%|1"] = none ∧
    Spec.Strip.checkWire [asc "HWCt#13=|||Gain 50%!|(MISSING)1"] [asc "HWCt#13=|||Gain 50%|1"] = some "wire-differs-from-produced" := by
  decide

/-- non-vacuity of `strip_content` / `strip_content_utf8`: valid UTF-8 with multi-byte white-space runes at the line
edges, which the flattening really removes; and the guard also admits strings that are not valid UTF-8 -/
example : validUtf8 exUtf8 = true ∧ JoinSafe exUtf8 ∧ stripLineBreaks exUtf8 = [0xC3, 0xA9, 0x78, 0xE2, 0x82, 0xAC] ∧
    stripLineBreaksSvg exUtf8 = [0xC3, 0xA9, 0x20, 0x78, 0x20, 0xE2, 0x82, 0xAC, 0x20] := by decide
example : JoinSafe [0xFF, 0x20, 0x0A, 0x09, 0xFE, 0x85] ∧ validUtf8 [0xFF, 0x20, 0x0A, 0x09, 0xFE, 0x85] = false := by decide

/-- non-vacuity / sanity: a multi-line JSON-like payload -/
example : stripLineBreaks (asc "{\n  \"a\": 1,\r\n\t\"b\": [ 2 ]\n}") = asc "{\"a\": 1,\"b\": [ 2 ]}" := by decide

/-- The pinned tree replaced a line not ending in `>` by a single space: `<path d="M0 0⏎L1 1"/>` lost `<path d="M0 0`;
the repaired function keeps it. -/
theorem svgPinned_loses_content_counterexample :
    stripLineBreaksSvgPinned (asc "<path d=\"M0 0\nL1 1\"/>") = asc " L1 1\"/>" ∧
    stripLineBreaksSvg (asc "<path d=\"M0 0\nL1 1\"/>") = asc "<path d=\"M0 0 L1 1\"/>" := by decide


/-! ## the full encoders -/

/-- **Every string either encoder returns is one line, and the returned lists frame correctly** — for every list of
messages, whatever their string fields contain (`encIn` / `encOut` = the models of
`InboundMessagesToRawPanelASCIIstrings` / `OutboundMessagesToRawPanelASCIIstrings`, tied by the correspondence) -/
theorem encoders_frame (O : MsgIn.Oracles) (ms : List MsgIn.InMsg) (o : MsgOut.OutOracle) (ms' : List MsgOut.OutMsg) :
    (∀ l ∈ Model.In.encIn O ms, (10 : UInt8) ∉ l) ∧ Spec.Strip.framing (Model.In.encIn O ms) = true ∧
    (∀ l ∈ EncOut.encOut o ms', (10 : UInt8) ∉ l) ∧ Spec.Strip.framing (EncOut.encOut o ms') = true :=
  ⟨TotalIn.encIn_no_lf O ms, framing _ (TotalIn.encIn_no_lf O ms), TotalOut.encOut_no_lf o ms',
   framing _ (TotalOut.encOut_no_lf o ms')⟩

/-- non-vacuity: line feeds in a title, a register id and a message text -/
example : Model.In.encIn default [{ states := [{ ids := [1], text := some { title := asc "a\nb", formatting := 1 } }],
                                    registers := [{ reg := 0, id := asc "A\n1", value := 3 }] }] =
      [asc "HWCt#1=0|1||a b|1", asc "MemA 1=3"] ∧
    EncOut.encOut ⟨fun _ t => t, fun t => t, fun _ => [], fun _ => none⟩ [{ message := some (asc " x\n  y z\n"), panelInfo := some { model := asc "M\n1" } }] =
      [asc "_model=M 1", asc "Msg=xy z"] := by decide

/-- **The topology lines carry content-equal payloads**: for a message with topology `t`, the encoder returns (among its
strings) the line `_panelTopology_svgbase=` ++ `stripLineBreaksSvg t.svgbase` and the line `_panelTopology_HWC=` ++
`stripLineBreaks t.json`; both payload images pass the Spec's payload check against the field (one line, same
white-space-free content, same order) — the SVG for every byte string, the JSON under `JoinSafe` (⇐ valid UTF-8). -/
theorem topo_lines_content (o : MsgOut.OutOracle) (m : MsgOut.OutMsg) (t : MsgOut.Topology) (ht : m.topology = some t) :
    EncOut.kSvgbase ++ stripLineBreaksSvg t.svgbase ∈ EncOut.encOut o [m] ∧
    EncOut.kTopoHWC ++ stripLineBreaks t.json ∈ EncOut.encOut o [m] ∧
    Spec.Strip.checkPayload t.svgbase (stripLineBreaksSvg t.svgbase) = none ∧
    (JoinSafe t.json → Spec.Strip.checkPayload t.json (stripLineBreaks t.json) = none) := by
  have hk1 : (10 : UInt8) ∉ EncOut.kSvgbase := by decide
  have hk2 : (10 : UInt8) ∉ EncOut.kTopoHWC := by decide
  have h1 : singleLine (EncOut.kSvgbase ++ stripLineBreaksSvg t.svgbase) = EncOut.kSvgbase ++ stripLineBreaksSvg t.svgbase :=
    singleLine_id _ (by
      intro h; simp only [List.mem_append] at h
      rcases h with h | h
      · exact hk1 h
      · exact stripSvg_no_lf _ h)
  have h2 : singleLine (EncOut.kTopoHWC ++ stripLineBreaks t.json) = EncOut.kTopoHWC ++ stripLineBreaks t.json :=
    singleLine_id _ (by
      intro h; simp only [List.mem_append] at h
      rcases h with h | h
      · exact hk2 h
      · exact strip_no_lf _ h)
  refine ⟨?_, ?_, stripSvg_payload _, fun hj => strip_payload _ hj⟩
  · unfold EncOut.encOut
    simp only [List.flatMap_cons, List.flatMap_nil, List.append_nil, List.mem_map]
    refine ⟨_, ?_, h1⟩
    unfold EncOut.encMsgRaw
    rw [ht]
    simp [EncOut.optLines, EncOut.topologyLines]
  · unfold EncOut.encOut
    simp only [List.flatMap_cons, List.flatMap_nil, List.append_nil, List.mem_map]
    refine ⟨_, ?_, h2⟩
    unfold EncOut.encMsgRaw
    rw [ht]
    simp [EncOut.optLines, EncOut.topologyLines]

example : EncOut.encOut ⟨fun _ t => t, fun t => t, fun _ => [], fun _ => none⟩
      [{ topology := some { svgbase := asc "<svg>\n <path d=\"M0 0\n L1 1\"/>\n</svg>", json := asc "{\n \"a\": [1,\n 2]\n}" } }] =
    [asc "_panelTopology_svgbase=<svg><path d=\"M0 0 L1 1\"/></svg>", asc "_panelTopology_HWC={\"a\": [1,2]}"] := by decide

end RawPanelVerif.C07
