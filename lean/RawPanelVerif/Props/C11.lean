import RawPanelVerif.Lemmas.LifecycleInvA
import RawPanelVerif.Lemmas.LifecycleInvB
import RawPanelVerif.Lemmas.LifecycleInvC
import RawPanelVerif.Lemmas.LifecycleInvE
import RawPanelVerif.Lemmas.LifecycleInvW
import RawPanelVerif.Lemmas.LifecycleMeasure
/-!
# C11 — connection lifecycle of `ConnectToPanel`: property theorems

Every theorem quantifies over ALL executions of the LTS `Model/Lifecycle.lean` (`Reachable ae s`: any number of
reconnect cycles, any interleaving of the main loop, every writer goroutine, cancellation, panel drops, frame
arrivals).  `ae = false` is the pinned wait-group accounting (`wg.Add(1)` inside the goroutine), `ae = true`
the repaired one (`wg.Add(1)` before `go`).  Unless stated otherwise a theorem holds for both.
-/
namespace RawPanelVerif.C11
open RawPanelVerif.Lifecycle

/-- connect and disconnect callbacks strictly alternate, starting with connect -/
theorem callbacks_alternate (ae : Bool) (s : St) (h : Reachable ae s) : alt (cbs s.log) = true :=
  (invA_reachable h).alt

/-- a disconnect is reported as cancelled only after cancellation, at most once, it is the last callback, and the
call is then returning; conversely the call returns directly after a disconnect callback only if that callback
reported the cancellation (after an uncancelled disconnect the client goes on to the retry sleep) -/
theorem cancelled_disconnect_last_and_only_after_cancel (ae : Bool) (s : St) (h : Reachable ae s) :
    (∀ r, cbs s.log = .disconnect true :: r → s.cancelled = true ∧ (s.phase = .exiting ∨ s.phase = .returned))
    ∧ Ev.disconnect true ∉ (cbs s.log).tail
    ∧ (∀ r, s.log = .disconnect false :: r → s.phase = .retrySleep)
    ∧ (∀ b r, s.log = .returned :: .disconnect b :: r → b = true) :=
  ⟨(invA_reachable h).discTrue, (invA_reachable h).once, (invE_reachable h).discFalse, (invE_reachable h).retAfter⟩

/-- deliveries: for every connection the delivery log is exactly frames 0,1,…,delivered-1 in order (each once),
never more than have completely arrived, nothing is logged for a connection that does not exist; and a
connection that was left with its exit flag clear (reported as an uncancelled disconnect) was dropped by the
panel and had delivered every frame that had completely arrived -/
theorem delivered_before_drop_exactly_once (ae : Bool) (s : St) (h : Reachable ae s) :
    (∀ i c, s.conns[i]? = some c →
        delsOf (s.conns.length - 1 - i) s.log = (List.range c.delivered).reverse
        ∧ c.delivered ≤ c.arrived
        ∧ ((i > 0 ∨ (s.phase ≠ .probing ∧ s.phase ≠ .announcing ∧ s.phase ≠ .connected)) → c.exit = false →
              c.peerClosed = true ∧ c.delivered = c.arrived))
    ∧ (∀ j, j ≥ s.conns.length → delsOf j s.log = []) :=
  ⟨fun i c hc => ⟨(invB_reachable h).dels i c hc, (invC_reachable h i c hc).delLe, (invC_reachable h i c hc).dropped⟩,
   (invB_reachable h).none⟩

/-- the same at the moment of the callback: when `ondisconnect(false)` is called, the panel has dropped the
connection and every completely arrived frame has been delivered -/
theorem uncancelled_disconnect_after_all_delivered (ae : Bool) (s s' : St) (h : Reachable ae s)
    (hs : step ae s (.onDisconnect false) = some s') :
    ∃ c rest, s.conns = c :: rest ∧ c.peerClosed = true ∧ c.delivered = c.arrived := by
  obtain ⟨c, rest, hc, hp, hb, _⟩ := step_onDisconnect hs
  have g := invC_reachable h 0 c (by simp [hc])
  exact ⟨c, rest, hc, g.dropped (Or.inr (by simp [hp])) hb.symm⟩

/-- a connection is dialled only after the retry sleep that followed the previous disconnect callback -/
theorem reconnect_only_after_retry_sleep (ae : Bool) (s : St) (h : Reachable ae s) :
    dialsOk s.log = true ∧ ((s.phase = .dialing ∨ s.phase = .noConnWait) → sleptSinceDisc s.log = true) :=
  ⟨(invD_reachable h).dials, (invD_reachable h).slept⟩

/-- every socket the call opened is closed once it has returned (both variants) -/
theorem return_implies_all_sockets_closed (ae : Bool) (s : St) (h : Reachable ae s) (hr : s.phase = .returned) :
    ∀ c ∈ s.conns, c.closed = true := by
  intro c hc
  obtain ⟨i, hi⟩ := List.getElem?_of_mem hc
  exact ((invC_reachable h i c hi).done (Or.inr (by simp [hr, Phase.serving]))).1

/-- a connection that is no longer the current one (the client has dialled again since): its quit channel has been
closed and its socket has been closed by the client, so its writer goroutine — if it still runs — has its stop
signal pending (`writerSeesQuit` is enabled) in every reachable state; no execution leaves the writer of an earlier
connection running without having been told to stop (both variants) -/
theorem earlier_connection_writer_told_to_quit (ae : Bool) (s : St) (h : Reachable ae s) (i : Nat) (c : Conn)
    (hi : i > 0) (hc : s.conns[i]? = some c) :
    c.quit = true ∧ c.closed = true ∧ (c.w = .running → (step ae s (.writerSeesQuit i)).isSome = true) := by
  have g := (invC_reachable h i c hc).done (Or.inl hi)
  refine ⟨g.2, g.1, fun hw => ?_⟩
  simp [step, hc, hw, g.2]

/-- the wait-group counter never goes negative (no `sync: negative WaitGroup counter` panic), both variants -/
theorem wg_nonneg (ae : Bool) (s : St) (h : Reachable ae s) : 0 ≤ s.wg := by
  have := invW_reachable h
  unfold InvW at this
  have h1 := pendingW_nonneg ae s.conns
  have h2 : 0 ≤ base s.phase := by cases s.phase <;> simp [base]
  omega

/-- REPAIRED accounting (`wg.Add(1)` before `go`): when the call has returned and the wait group has drained,
every writer goroutine has exited, the counter is 0 and every socket is closed -/
theorem return_implies_all_writers_exited (s : St) (h : Reachable true s) (hr : s.phase = .returned) (hw : s.wg = 0) :
    (∀ c ∈ s.conns, c.w = .exited) ∧ s.wg = 0 ∧ (∀ c ∈ s.conns, c.closed = true) := by
  refine ⟨?_, hw, return_implies_all_sockets_closed true s h hr⟩
  have hW := invW_reachable h
  unfold InvW at hW
  simp [hr, base, hw] at hW
  intro c hc
  have hz := pendingW_zero true s.conns hW.symm c hc
  obtain ⟨i, hi⟩ := List.getElem?_of_mem hc
  have g := invC_reachable h i c hi
  cases hcw : c.w with
  | unborn => have := g.unbornIff.mp hcw; simp [hr] at this
  | spawned => simp [weight, hcw] at hz
  | running => simp [weight, hcw] at hz
  | exited => rfl

/-- … and before that, while a writer goroutine is still alive, the counter of the repaired variant is positive:
`wg.Wait()` cannot return early -/
theorem repaired_wait_blocks_while_writer_alive (s : St) (h : Reachable true s) (c : Conn) (hc : c ∈ s.conns)
    (hw : c.w = .spawned ∨ c.w = .running) : 0 < s.wg := by
  have hW := invW_reachable h
  unfold InvW at hW
  have h2 : 0 ≤ base s.phase := by cases s.phase <;> simp [base]
  have h3 : 0 < pendingW true s.conns := by
    by_cases h0 : pendingW true s.conns = 0
    · have := pendingW_zero true s.conns h0 c hc
      rcases hw with hw | hw <;> simp [weight, hw] at this
    · have := pendingW_nonneg true s.conns; omega
  omega

/-- PINNED accounting (`wg.Add(1)` inside the goroutine): the statement above is FALSE.
Execution: connection 1 is established, its writer goroutine is spawned but not yet scheduled; the panel drops
the connection; retry sleep; connection 2; its writer starts; cancel; teardown; return.  The call has returned,
the counter is 0 (so `wg.Wait()` returns), the writer goroutine of connection 1 has not finished — and its
`wg.Add(1)` is still to come. -/
def lateAddTrace : List Lbl :=
  [.dialOk, .spawnWriter, .onConnect, .peerClose, .readErr, .closeQuit, .connClose, .onDisconnect false, .sleepDone,
   .dialOk, .spawnWriter, .writerStart 0, .onConnect, .cancel, .writerSeesCancel 0, .readErr, .closeQuit, .connClose,
   .onDisconnect true, .ret]

/-- returned ∧ wg = 0 ∧ some writer goroutine not exited -/
def drainedWithLiveWriter (s : St) : Bool :=
  s.phase = .returned && s.wg = 0 && s.conns.any (fun c => c.w ≠ .exited)

theorem late_wg_add_counterexample : (run false init lateAddTrace).map drainedWithLiveWriter = some true := by decide

/-- and the late goroutine then raises the drained counter again (`wg.Add` after `wg.Wait()` has returned) -/
theorem late_wg_add_raises_drained_counter :
    (run false init (lateAddTrace ++ [.writerStart 1])).map (fun s => decide (s.wg = 1 ∧ s.phase = .returned)) = some true := by
  decide

/-- the same execution under the repaired accounting: the counter is still 1 at return -/
theorem late_wg_add_repaired_on_trace : (run true init lateAddTrace).map (fun s => decide (s.wg = 1)) = some true := by decide

/-- after the return every remaining writer goroutine can finish (its `quit` channel is closed): the wait group
does drain -/
theorem after_return_writers_can_finish (ae : Bool) (s : St) (h : Reachable ae s) (hr : s.phase = .returned)
    (i : Nat) (c : Conn) (hc : s.conns[i]? = some c) (hw : c.w ≠ .exited) :
    (step ae s (.writerStart i)).isSome = true ∨ (step ae s (.writerSeesQuit i)).isSome = true := by
  have g := invC_reachable h i c hc
  have hq := (g.done (Or.inr (by simp [hr, Phase.serving]))).2
  cases hcw : c.w with
  | unborn => have := g.unbornIff.mp hcw; simp [hr] at this
  | spawned => exact Or.inl (by simp [step, hc, hcw])
  | running => exact Or.inr (by simp [step, hc, hcw, hq])
  | exited => exact absurd hcw hw

/-- bounded return: a program-only execution (no step of the environment) from any state has at most `measure s`
steps; and once cancelled, the program can only come to rest when the call has returned or it is waiting for the
result of `net.Dial` (an environment step) — so from `cancel` on, between any two environment steps, the client
makes a bounded number of steps and keeps moving until it has returned -/
theorem bounded_return (ae : Bool) (s : St) (h : Reachable ae s) :
    (∀ ls s', (∀ l ∈ ls, l.isProgram = true) → run ae s ls = some s' → ls.length ≤ measure s)
    ∧ (s.cancelled = true → s.phase ≠ .returned → s.phase ≠ .dialing →
        ∃ l, l.isProgram = true ∧ (step ae s l).isSome = true) := by
  refine ⟨fun ls s' hp hr => ?_, fun hc h1 h2 => cancelled_progress ae s (invA_reachable h) (invC_reachable h) hc ⟨h1, h2⟩⟩
  have := program_run_bounded ae ls s s' hp hr
  omega

/-! ## non-vacuity: reachable non-trivial states satisfying the hypotheses -/

/-- a run with a dropped connection, a reconnect, two deliveries and a cancelled return (repaired accounting) -/
def demoTrace : List Lbl :=
  [.dialOk, .spawnWriter, .writerStart 0, .onConnect, .frameComplete, .deliver, .peerClose, .readErr, .closeQuit,
   .writerSeesQuit 0, .connClose, .onDisconnect false, .sleepDone, .dialOk, .spawnWriter, .writerStart 0, .onConnect,
   .frameComplete, .deliver, .cancel, .writerSeesCancel 0, .readErr, .closeQuit, .connClose, .onDisconnect true, .ret]

example : ∃ s, Reachable true s ∧ s.phase = .returned ∧ s.wg = 0 ∧ s.conns.length = 2 ∧
    cbs s.log = [.disconnect true, .connect, .disconnect false, .connect] ∧ s.cancelled = true := by
  have hrun : (run true init demoTrace).isSome = true := by decide
  obtain ⟨s, hs⟩ := Option.isSome_iff_exists.mp hrun
  refine ⟨s, reachable_of_run true demoTrace init s Reachable.init hs, ?_⟩
  have : (run true init demoTrace).map (fun s => decide (s.phase = .returned ∧ s.wg = 0 ∧ s.conns.length = 2 ∧
      cbs s.log = [.disconnect true, .connect, .disconnect false, .connect] ∧ s.cancelled = true)) = some true := by decide
  rw [hs] at this
  simpa using this

/-- the pinned counterexample state is reachable (so the negative result is about a reachable state) -/
example : ∃ s, Reachable false s ∧ drainedWithLiveWriter s = true := by
  have hrun : (run false init lateAddTrace).isSome = true := by decide
  obtain ⟨s, hs⟩ := Option.isSome_iff_exists.mp hrun
  refine ⟨s, reachable_of_run false lateAddTrace init s Reachable.init hs, ?_⟩
  have := late_wg_add_counterexample
  rw [hs] at this
  simpa using this

/-- the measure of the initial state after one established connection is positive: `bounded_return` bounds something -/
example : measure init = 0 ∧ (run false init [.dialOk]).map measure = some 11 := by decide

end RawPanelVerif.C11
