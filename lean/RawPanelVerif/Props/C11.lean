import RawPanelVerif.Lemmas.LifecycleInvA
import RawPanelVerif.Lemmas.LifecycleInvB
import RawPanelVerif.Lemmas.LifecycleInvC
import RawPanelVerif.Lemmas.LifecycleInvE
import RawPanelVerif.Lemmas.LifecycleInvW
import RawPanelVerif.Lemmas.LifecycleInvT
import RawPanelVerif.Lemmas.LifecycleMeasure
import RawPanelVerif.Lemmas.LifecycleRank
import RawPanelVerif.Lemmas.LifecycleLive
import RawPanelVerif.Lemmas.LifecycleFrames
/-!
# C11 — connection lifecycle of `ConnectToPanel`: property theorems

Every theorem quantifies over ALL executions of the LTS `Model/Lifecycle.lean` (`Reachable ae s`: any retry
periods, any number of reconnect cycles, any interleaving of the main loop, every writer goroutine, cancellation,
panel drops after any number of bytes, byte arrivals, `msgsToPanel` traffic, a pausing consumer, the clock).
`ae = false` is the pinned wait-group accounting (`wg.Add(1)` inside the goroutine), `ae = true` the repaired one
(`wg.Add(1)` before `go`).  Unless stated otherwise a theorem holds for both.

Section 3 also ties the numbers: `constants_are_those_of_the_monitor` (the default retry periods, the probe deadline
and the ASCII loop's EOF sleep regenerated from the source are the numbers `Spec/LifecycleSpec.lean` uses — the monitor never
reads them from the code, so a changed default breaks this obligation) and `model_periods_are_the_monitors` (for every
configuration the model's periods are the monitor's).

Sections: (1) callbacks, (2) deliveries and drop offsets, (3) retry periods on the clock, (4) sockets, writers and the
wait group, (5) return after cancellation, (6) reconnect after a loss, (7) the writer's data path, (8) non-vacuity.
Declared assumptions that show up as hypotheses or as "waiting" states: `net.Dial` answers (no dial timeout in the code;
its duration is the environment's); someone receives from `msgsFromPanel`; a panel that stays connected takes the bytes
written to it; the clock advances.

Observations outside the property's domain (behaviour of the UNCHANGED tree, decided to be assumptions, kept out of the
generator; each has its counterexample theorem in section 5):
* (A) consumer not receiving: `msgsFromPanel <- …` (connecttopanel.go 206/228) is a bare send, not a `select` with
  `ctx.Done()`.  Reproduce: binary panel acks the probe and sends two frames, nobody receives from `msgsFromPanel`,
  `cancel()` → the writer goroutine closes the socket (panel sees RST) but `ConnectToPanel` has not returned 8 s later;
  it returns the moment one item is received.  Documented precondition (doc comment line 28, comment line 149).
  `cancel_blocked_while_consumer_stopped`.
* (B) panel connected but not reading: the writer goroutine sits inside `conn.Write` (line 162/169, no deadline), not in
  its `select`.  Reproduce: panel acks the probe, keeps the connection, never reads; the application hands over 4 lists
  of 20 × 60 kB texts (≈ 5 MB fill the loopback buffers), `cancel()` → no return until the panel reads or drops (8 s
  observed).  Outside the property's panel classes (absent / refusing / accepting-but-silent: all scripted panels read).
  `cancel_blocked_while_writer_in_write`.
* (C) traffic on `msgsToPanel` during the NO-connection wait ends that wait at once (61-68): the client re-dials as fast
  as the application submits; the property promises the retry period only "after panel loss".
  `traffic_ends_noconn_wait`, `noconn_redial_before_period_with_traffic`.
-/
namespace RawPanelVerif.C11
open RawPanelVerif.Lifecycle
open RawPanelVerif.Spec.Lifecycle (completeBefore)

/-! ## 1. callbacks -/

/-- connect and disconnect callbacks strictly alternate, starting with connect — also when the reader ends the
connection itself (`readFault`: in-frame timeout, over-limit header) -/
theorem callbacks_alternate (ae : Bool) (s : St) (h : Reachable ae s) : alt (cbs s.log) = true :=
  (invA_reachable h).alt

/-- a disconnect is reported as cancelled only after cancellation, at most once, it is the last callback, and the
call is then returning; conversely the call returns directly after a disconnect callback only if that callback
reported the cancellation (after an uncancelled disconnect the client goes on to the retry sleep) -/
theorem cancelled_disconnect_last_and_only_after_cancel (ae : Bool) (s : St) (h : Reachable ae s) :
    (∀ r, cbs s.log = .disconnect true :: r → s.cancelled = true ∧ (s.phase = .exiting ∨ s.phase = .returned))
    ∧ Ev.disconnect true ∉ (cbs s.log).tail
    ∧ (∀ r, s.log = .disconnect false :: r → s.phase = .retrySleep)
    ∧ (∀ b r, s.log = .returned :: .disconnect b :: r → b = true) :=
  ⟨(invA_reachable h).discTrue, (invA_reachable h).once, (invE_reachable h).discFalse, (invE_reachable h).retAfter⟩

/-! ## 2. deliveries; every drop offset -/

/-- deliveries: for every connection the delivery log is exactly frames 0,1,…,delivered-1 in order (each once);
never more than the frames that have COMPLETELY arrived (`arrived` counts completing bytes only: the bytes of a started
frame never count, in either mode); the frame the reader holds is one of them; nothing is logged for a connection
that does not exist; and a connection that was left with its exit flag clear (reported as an uncancelled
disconnect) was lost through the panel or given up by the reader, had delivered every frame that had completely
arrived and holds nothing back -/
theorem delivered_before_drop_exactly_once (ae : Bool) (s : St) (h : Reachable ae s) :
    (∀ i c, s.conns[i]? = some c →
        delsOf (s.conns.length - 1 - i) s.log = (List.range c.delivered).reverse
        ∧ c.delivered + (if c.held then 1 else 0) ≤ c.arrived
        ∧ ((i > 0 ∨ s.phase.reading = false) → c.exit = false →
              (c.peerClosed = true ∨ c.fault = true) ∧ c.delivered = c.arrived ∧ c.held = false))
    ∧ (∀ j, j ≥ s.conns.length → delsOf j s.log = []) :=
  ⟨fun i c hc => ⟨(invB_reachable h).dels i c hc, (invC_reachable h i c hc).delLe, (invC_reachable h i c hc).dropped⟩,
   (invB_reachable h).none⟩

/-- EVERY DROP OFFSET, both modes.  Let the panel's stream consist of frames of the byte lengths `lens` (binary:
header + payload; ASCII: line + LF) and let exactly the first `d` bytes have arrived on a connection (`d` arbitrary:
at a boundary, inside a header, inside a payload, inside a line; the connection may be binary or ASCII).  Then at no
time more than the `completeBefore lens d` frames that lie completely before offset `d` have been delivered or taken
— the partial frame is never delivered —, the delivery log of the connection is an initial segment 0,1,… of them;
and once the connection has ended uncancelled exactly these frames have been delivered, each once, in order. -/
theorem drop_at_every_offset (ae : Bool) (s : St) (h : Reachable ae s) (lens : List Nat) (hpos : ∀ n ∈ lens, 0 < n)
    (d i : Nat) (c : Conn) (hc : s.conns[i]? = some c) (hrx : c.rx = (arrivals lens d).reverse) :
    c.delivered + (if c.held then 1 else 0) ≤ completeBefore lens d
    ∧ delsOf (s.conns.length - 1 - i) s.log = (List.range c.delivered).reverse
    ∧ ((i > 0 ∨ s.phase.reading = false) → c.exit = false →
        c.delivered = completeBefore lens d ∧ c.held = false
        ∧ delsOf (s.conns.length - 1 - i) s.log = (List.range (completeBefore lens d)).reverse) := by
  have harr : c.arrived = completeBefore lens d := by
    simp [Conn.arrived, hrx, List.count_reverse, count_arrivals lens d hpos]
  have g := invC_reachable h i c hc
  have hb := (invB_reachable h).dels i c hc
  refine ⟨by rw [← harr]; exact g.delLe, hb, fun he hx => ?_⟩
  have hd := g.dropped he hx
  exact ⟨by rw [← harr]; exact hd.2.1, hd.2.2, by rw [← harr, ← hd.2.1]; exact hb⟩

/-- the monitor `Spec.Lifecycle.framesIn` (which judges the real client's deliveries on the scripted byte stream, and from
which the driver derives the arrival flags it feeds to the LTS) counts exactly the frames of `drop_at_every_offset`:
on a well-formed binary stream (payloads behind 4-byte little-endian headers) resp. ASCII stream (LF-free lines + LF),
for every prefix length `n`, it equals `completeBefore` of the frame lengths = the number of completing bytes among the
first `n` arrivals -/
theorem monitor_counts_the_same_frames (sc : Spec.Lifecycle.Script) (n : Nat) :
    (∀ ps : List (List Nat), (∀ p ∈ ps, p.length < 4294967296) → sc.mode ≠ .asc → sc.stream = binStream ps →
        Spec.Lifecycle.framesIn sc n = completeBefore (ps.map (fun p => 4 + p.length)) n
        ∧ Spec.Lifecycle.framesIn sc n = (arrivals (ps.map (fun p => 4 + p.length)) n).count true)
    ∧ (∀ ls : List (List Nat), (∀ l ∈ ls, 10 ∉ l) → sc.mode = .asc → sc.stream = ascStream ls →
        Spec.Lifecycle.framesIn sc n = completeBefore (ls.map (fun l => l.length + 1)) n
        ∧ Spec.Lifecycle.framesIn sc n = (arrivals (ls.map (fun l => l.length + 1)) n).count true) := by
  constructor
  · intro ps hlen hm hst
    have hpos : ∀ m ∈ ps.map (fun p => 4 + p.length), 0 < m := by
      intro m hm; simp at hm; obtain ⟨q, _, rfl⟩ := hm; omega
    have h1 : Spec.Lifecycle.framesIn sc n = completeBefore (ps.map (fun p => 4 + p.length)) n := by
      have hb := binFramesIn_eq ps (sc.stream.length + 1) n (by rw [hst]; have := length_binStream_ge ps; omega) hlen
      unfold Spec.Lifecycle.framesIn
      cases hmo : sc.mode <;> first | exact absurd hmo hm | (simp only []; rw [hst] at hb ⊢; exact hb)
    exact ⟨h1, by rw [h1, count_arrivals _ n hpos]⟩
  · intro ls hl hm hst
    have hpos : ∀ m ∈ ls.map (fun l => l.length + 1), 0 < m := by
      intro m hm; simp at hm; obtain ⟨q, _, rfl⟩ := hm; omega
    have h1 : Spec.Lifecycle.framesIn sc n = completeBefore (ls.map (fun l => l.length + 1)) n := by
      unfold Spec.Lifecycle.framesIn
      simp only [hm]; rw [hst]; exact ascLinesIn_eq ls n hl
    exact ⟨h1, by rw [h1, count_arrivals _ n hpos]⟩

/-- the same at the moment of the callback: when `ondisconnect(false)` is called, the panel has dropped the
connection or the reader has given it up, every completely arrived frame has been delivered and none is held -/
theorem uncancelled_disconnect_after_all_delivered (ae : Bool) (s s' : St) (h : Reachable ae s)
    (hs : step ae s (.onDisconnect false) = some s') :
    ∃ c rest, s.conns = c :: rest ∧ (c.peerClosed = true ∨ c.fault = true) ∧ c.delivered = c.arrived ∧ c.held = false := by
  obtain ⟨c, rest, hc, hp, hb, _⟩ := step_onDisconnect hs
  have g := invC_reachable h 0 c (by simp [hc])
  exact ⟨c, rest, hc, g.dropped (Or.inr (by simp [hp, Phase.reading])) hb.symm⟩

/-- the reader gives a connection up by itself only in binary mode, only inside a started frame (in-frame deadline,
over-limit header), only after delivering every complete frame, and never while it still serves it -/
theorem reader_fault_only_binary_midframe (ae : Bool) (s : St) (h : Reachable ae s) (i : Nat) (c : Conn)
    (hc : s.conns[i]? = some c) (hf : c.fault = true) :
    c.binary = true ∧ 0 < c.partial ∧ c.delivered = c.arrived ∧ (i > 0 ∨ s.phase.reading = false) :=
  let g := invC_reachable h i c hc
  ⟨(g.faultOnly hf).1, (g.faultOnly hf).2.1, (g.faultOnly hf).2.2, g.faultLate hf⟩

/-- ASSUMPTION MADE EXPLICIT: the delivery is a bare channel send.  While nobody receives from `msgsFromPanel` the
reader can neither deliver nor drop the frame it holds nor read on nor leave the connection: every main-loop
step is disabled, the frame stays held (the client blocks, it does not drop) -/
theorem delivery_blocks_without_consumer (ae : Bool) (s : St) (c : Conn) (rest : List Conn) (hp : s.phase = .connected)
    (hcs : s.conns = c :: rest) (hh : c.held = true) (hco : s.consumer = false) :
    step ae s .deliver = none ∧ step ae s .takeFrame = none ∧ step ae s .readErr = none ∧ step ae s .readFault = none
    ∧ (step ae s .consumerResume).bind (fun s1 => step ae s1 .deliver) ≠ none := by
  refine ⟨by simp [step, hcs, hco], by simp [step, hcs, hh], by simp [step, hcs, hh], by simp [step, hcs, hh], ?_⟩
  simp [step, hp, hcs, hh]

/-! ## 3. retry periods on the clock -/

/-- a connection is dialled only after the retry sleep that followed the previous disconnect callback (order of events) -/
theorem reconnect_only_after_retry_sleep (ae : Bool) (s : St) (h : Reachable ae s) :
    dialsOk s.log = true ∧ ((s.phase = .dialing ∨ s.phase = .noConnWait) → sleptSinceDisc s.log = true) :=
  ⟨(invD_reachable h).dials, (invD_reachable h).slept⟩

/-- … and on the clock: every connection in the history was established at least the reconnect retry period `s.rc`
(the configured `ReConnectionRetryPeriod`, or the default) after EVERY disconnect callback before it, whatever
happened in between (traffic on `msgsToPanel`, failed dials, cancellation attempts …) -/
theorem redial_not_before_period (ae : Bool) (s : St) (h : Reachable ae s) (pre post : List (Ev × Nat)) (t : Nat)
    (hsplit : tl s = pre ++ (.dial, t) :: post) (b : Bool) (t0 : Nat) (hd : (Ev.disconnect b, t0) ∈ post) :
    t0 + s.rc ≤ t := by
  have hT := invT_reachable h
  have hok := hT.ok
  rw [hsplit] at hok
  have h1 := redialOk_split s.rc pre post t hok
  have hs := hT.sorted
  rw [hsplit] at hs
  have hs2 : post.Pairwise (fun a b => b.2 ≤ a.2) := (List.pairwise_cons.mp (List.pairwise_append.mp hs).2.1).2
  obtain ⟨t1, ht1, hle⟩ := lastDisc_ge post hs2 b t0 hd
  rw [ht1] at h1
  simp [afterDisc] at h1
  omega

/-- the same at the moment the sleep ends: `time.Sleep` returns no earlier than the period after the callback -/
theorem retry_sleep_lasts_the_period (ae : Bool) (s s' : St) (h : Reachable ae s) (hs : step ae s .sleepDone = some s') :
    ∃ t0, lastDisc (tl s) = some t0 ∧ t0 + s.rc ≤ s.now := by
  obtain ⟨hp, hw, _⟩ := step_sleepDone hs
  obtain ⟨t0, h1, h2⟩ := (invT_reachable h).sleeping hp
  exact ⟨t0, h1, by omega⟩

/-- the retry periods are those of the configuration for the whole call -/
theorem periods_are_the_configured_ones (ae : Bool) (cfgNc cfgRc : Nat) (ls : List Lbl) (s : St)
    (hr : run ae (initCfg cfgNc cfgRc) ls = some s) :
    s.rc = (if cfgRc = 0 then Gen.clientReconnRetryDefaultS else cfgRc) * 1000
    ∧ s.nc = (if cfgNc = 0 then Gen.clientNoConnRetryDefaultS else cfgNc) * 1000 ∧ 0 < s.nc := by
  have := run_keeps_cfg ae ls _ s hr
  refine ⟨this.1, this.2, ?_⟩
  rw [this.2]
  simp only [initCfg, initWith, effNc]
  split <;> simp [Gen.clientNoConnRetryDefaultS] <;> omega

/-- **the numbers of the monitor are the numbers of the source**: the default retry periods found in
`ConnectToPanel` on this run (`noConnectionRetryPeriod := 3`, `reConnectionRetryPeriod := 1`), the probe deadline and the
ASCII loop's sleep after EOF are the numbers `Spec/LifecycleSpec.lean` uses for "the configured (or default) retry
period" and for its bound on the return after cancellation.  The monitor never reads them from the code: a changed
default in the source breaks this obligation instead of shifting the monitor. -/
theorem constants_are_those_of_the_monitor :
    Gen.clientNoConnRetryDefaultS = Spec.Lifecycle.defaultNoConnRetry
    ∧ Gen.clientReconnRetryDefaultS = Spec.Lifecycle.defaultReconnRetry
    ∧ Gen.clientProbeTimeoutMs = Spec.Lifecycle.probeMs
    ∧ Gen.clientAsciiEofSleepMs = Spec.Lifecycle.eofSleepMs := by decide

/-- hence the periods of the model (`initCfg`, lines 36-45) are the periods the monitor demands, for every
configuration (0 = not configured) -/
theorem model_periods_are_the_monitors (cfgNc cfgRc : Nat) :
    (initCfg cfgNc cfgRc).nc = Spec.Lifecycle.ncMs { nc := cfgNc, rc := cfgRc }
    ∧ (initCfg cfgNc cfgRc).rc = Spec.Lifecycle.rcMs { nc := cfgNc, rc := cfgRc } := ⟨rfl, rfl⟩

/-- DOCUMENTED BEHAVIOUR (connecttopanel.go 61-68): the no-connection wait ends by its timer, by cancellation — or
at once by ANY list arriving on `msgsToPanel`, which the main loop drains and discards there; nothing else ends
it, and nothing re-arms its timer while it lasts -/
theorem noconn_wait_ends_by_timer_traffic_or_cancel (ae : Bool) (s s' : St) (l : Lbl) (hp : s.phase = .noConnWait)
    (hs : step ae s l = some s') :
    (s'.phase = .noConnWait ∧ s'.wake = s.wake)
    ∨ (l = .noConnTimer ∧ s.wake ≤ s.now ∧ s'.phase = .dialing)
    ∨ (l = .noConnDrain ∧ 0 < s.offered ∧ s'.phase = .dialing ∧ s'.offered = s.offered - 1)
    ∨ (l = .ret ∧ s.cancelled = true ∧ s'.phase = .returned) := by
  cases l with
  | cancel => have := step_cancel hs; subst this; exact Or.inl ⟨hp, rfl⟩
  | offer => have := step_offer hs; subst this; exact Or.inl ⟨hp, rfl⟩
  | consumerStop => have := step_consumerStop hs; subst this; exact Or.inl ⟨hp, rfl⟩
  | consumerResume => have := step_consumerResume hs; subst this; exact Or.inl ⟨hp, rfl⟩
  | tick d => have := step_tick hs; subst this; exact Or.inl ⟨hp, rfl⟩
  | dialFail => obtain ⟨h, _⟩ := step_dialFail hs; simp [hp] at h
  | noConnTimer => obtain ⟨_, hw, rfl⟩ := step_noConnTimer hs; exact Or.inr (Or.inl ⟨rfl, hw, rfl⟩)
  | noConnDrain => obtain ⟨_, ho, rfl⟩ := step_noConnDrain hs; exact Or.inr (Or.inr (Or.inl ⟨rfl, ho, rfl, rfl⟩))
  | peerClose => obtain ⟨c, rest, _, _, rfl⟩ := step_peerClose hs; exact Or.inl ⟨hp, rfl⟩
  | byteArrive fin => obtain ⟨c, rest, _, h, _, _⟩ := step_byteArrive hs; simp [hp] at h
  | takeFrame => obtain ⟨c, rest, _, h, _⟩ := step_takeFrame hs; simp [hp] at h
  | spawnWriter => obtain ⟨c, rest, _, h, _⟩ := step_spawnWriter hs; simp [hp] at h
  | readErr => obtain ⟨c, rest, _, h, _⟩ := step_readErr hs; simp [hp] at h
  | readFault => obtain ⟨c, rest, _, h, _⟩ := step_readFault hs; simp [hp] at h
  | closeQuit => obtain ⟨c, rest, _, h, _⟩ := step_closeQuit hs; simp [hp] at h
  | connClose => obtain ⟨c, rest, _, h, _⟩ := step_connClose hs; simp [hp] at h
  | writerStart i => obtain ⟨c, _, _, rfl⟩ := step_writerStart hs; exact Or.inl ⟨hp, rfl⟩
  | writerSeesCancel i => obtain ⟨c, _, _, _, rfl⟩ := step_writerSeesCancel hs; exact Or.inl ⟨hp, rfl⟩
  | writerSeesQuit i => obtain ⟨c, _, _, _, rfl⟩ := step_writerSeesQuit hs; exact Or.inl ⟨hp, rfl⟩
  | writerTake i => obtain ⟨c, _, _, _, rfl⟩ := step_writerTake hs; exact Or.inl ⟨hp, rfl⟩
  | writeDone i => obtain ⟨c, _, _, _, rfl⟩ := step_writeDone hs; exact Or.inl ⟨hp, rfl⟩
  | writeErr i => obtain ⟨c, _, _, _, rfl⟩ := step_writeErr hs; exact Or.inl ⟨hp, rfl⟩
  | onConnect => obtain ⟨h, _⟩ := step_onConnect hs; simp [hp] at h
  | deliver => obtain ⟨c, rest, _, h, _⟩ := step_deliver hs; simp [hp] at h
  | sleepDone => obtain ⟨h, _⟩ := step_sleepDone hs; simp [hp] at h
  | ret =>
    obtain ⟨h, rfl⟩ := step_ret hs
    rcases h with h | ⟨_, hc⟩
    · simp [hp] at h
    · exact Or.inr (Or.inr (Or.inr ⟨rfl, hc, rfl⟩))
  | dialOk bin => obtain ⟨h, _⟩ := step_dialOk hs; simp [hp] at h
  | onDisconnect b => obtain ⟨c, rest, _, h, _⟩ := step_onDisconnect hs; simp [hp] at h

/-- traffic on `msgsToPanel` during the no-connection wait ends the wait at once, whatever the timer says -/
theorem traffic_ends_noconn_wait (ae : Bool) (s : St) (hp : s.phase = .noConnWait) (ho : 0 < s.offered) :
    step ae s .noConnDrain = some { s with phase := .dialing, offered := s.offered - 1 } := by
  simp [step, hp, ho]

/-- hence the NO-connection period is NOT a lower bound between two dials (the property text promises the period
only "after panel loss"): panel absent, a list is offered, the client dials again at the same instant -/
theorem noconn_redial_before_period_with_traffic :
    (run true init [.dialFail, .offer, .noConnDrain]).map (fun s => decide (s.phase = .dialing ∧ s.now = 0 ∧ s.nc = 3000))
      = some true := by decide

/-! ## 4. sockets, writer goroutines, wait group -/

/-- every socket the call opened is closed once it has returned (both variants) -/
theorem return_implies_all_sockets_closed (ae : Bool) (s : St) (h : Reachable ae s) (hr : s.phase = .returned) :
    ∀ c ∈ s.conns, c.closed = true := by
  intro c hc
  obtain ⟨i, hi⟩ := List.getElem?_of_mem hc
  exact ((invC_reachable h i c hi).done (Or.inr (by simp [hr, Phase.serving]))).1

/-- a connection that is no longer the current one (the client has dialled again since): its quit channel has been
closed and its socket has been closed by the client, so its writer goroutine — if it still runs — has its stop
signal pending (`writerSeesQuit` is enabled), and if it sits in `conn.Write` that call fails and brings it back to
its `select` (`writeErr` is enabled), in every reachable state (both variants) -/
theorem earlier_connection_writer_told_to_quit (ae : Bool) (s : St) (h : Reachable ae s) (i : Nat) (c : Conn)
    (hi : i > 0) (hc : s.conns[i]? = some c) :
    c.quit = true ∧ c.closed = true ∧ (c.w = .running → (step ae s (.writerSeesQuit i)).isSome = true)
    ∧ (c.w = .writing → (step ae s (.writeErr i)).isSome = true) := by
  have g := (invC_reachable h i c hc).done (Or.inl hi)
  refine ⟨g.2, g.1, fun hw => ?_, fun hw => ?_⟩
  · simp [step, hc, hw, g.2]
  · simp [step, hc, hw, g.1]

/-- the wait-group counter never goes negative (no `sync: negative WaitGroup counter` panic), both variants -/
theorem wg_nonneg (ae : Bool) (s : St) (h : Reachable ae s) : 0 ≤ s.wg := by
  have := invW_reachable h
  unfold InvW at this
  have h1 := pendingW_nonneg ae s.conns
  have h2 : 0 ≤ base s.phase := by cases s.phase <;> simp [base]
  omega

/-- REPAIRED accounting (`wg.Add(1)` before `go`): when the call has returned and the wait group has drained,
every writer goroutine has exited, the counter is 0 and every socket is closed -/
theorem return_implies_all_writers_exited (s : St) (h : Reachable true s) (hr : s.phase = .returned) (hw : s.wg = 0) :
    (∀ c ∈ s.conns, c.w = .exited) ∧ s.wg = 0 ∧ (∀ c ∈ s.conns, c.closed = true) := by
  refine ⟨?_, hw, return_implies_all_sockets_closed true s h hr⟩
  have hW := invW_reachable h
  unfold InvW at hW
  simp [hr, base, hw] at hW
  intro c hc
  have hz := pendingW_zero true s.conns hW.symm c hc
  obtain ⟨i, hi⟩ := List.getElem?_of_mem hc
  have g := invC_reachable h i c hi
  cases hcw : c.w with
  | unborn => have := g.unbornIff.mp hcw; simp [hr] at this
  | spawned => simp [weight, hcw] at hz
  | running => simp [weight, hcw] at hz
  | writing => simp [weight, hcw] at hz
  | exited => rfl

/-- … and before that, while a writer goroutine is still alive (also inside `conn.Write`), the counter of the
repaired variant is positive: `wg.Wait()` cannot return early -/
theorem repaired_wait_blocks_while_writer_alive (s : St) (h : Reachable true s) (c : Conn) (hc : c ∈ s.conns)
    (hw : c.w = .spawned ∨ c.w = .running ∨ c.w = .writing) : 0 < s.wg := by
  have hW := invW_reachable h
  unfold InvW at hW
  have h2 : 0 ≤ base s.phase := by cases s.phase <;> simp [base]
  have h3 : 0 < pendingW true s.conns := by
    by_cases h0 : pendingW true s.conns = 0
    · have := pendingW_zero true s.conns h0 c hc
      rcases hw with hw | hw | hw <;> simp [weight, hw] at this
    · have := pendingW_nonneg true s.conns; omega
  omega

/-- PINNED accounting (`wg.Add(1)` inside the goroutine): the statement above is FALSE.
Execution: connection 1 is established, its writer goroutine is spawned but not yet scheduled; the panel drops
the connection; retry sleep; connection 2; its writer starts; cancel; teardown; return.  The call has returned,
the counter is 0 (so `wg.Wait()` returns), the writer goroutine of connection 1 has not finished — and its
`wg.Add(1)` is still to come. -/
def lateAddTrace : List Lbl :=
  [.dialOk true, .spawnWriter, .onConnect, .peerClose, .readErr, .closeQuit, .connClose, .onDisconnect false, .tick 1000,
   .sleepDone, .dialOk true, .spawnWriter, .writerStart 0, .onConnect, .cancel, .writerSeesCancel 0, .readErr, .closeQuit,
   .connClose, .onDisconnect true, .ret]

/-- returned ∧ wg = 0 ∧ some writer goroutine not exited -/
def drainedWithLiveWriter (s : St) : Bool :=
  s.phase = .returned && s.wg = 0 && s.conns.any (fun c => c.w ≠ .exited)

theorem late_wg_add_counterexample : (run false init lateAddTrace).map drainedWithLiveWriter = some true := by decide

/-- and the late goroutine then raises the drained counter again (`wg.Add` after `wg.Wait()` has returned) -/
theorem late_wg_add_raises_drained_counter :
    (run false init (lateAddTrace ++ [.writerStart 1])).map (fun s => decide (s.wg = 1 ∧ s.phase = .returned)) = some true := by
  decide

/-- the same execution under the repaired accounting: the counter is still 1 at return -/
theorem late_wg_add_repaired_on_trace : (run true init lateAddTrace).map (fun s => decide (s.wg = 1)) = some true := by decide

/-- after the return every remaining writer goroutine can take a step of its own (it starts, sees its closed `quit`
channel, or its `conn.Write` fails on the closed socket) -/
theorem after_return_writers_can_finish (ae : Bool) (s : St) (h : Reachable ae s) (hr : s.phase = .returned)
    (i : Nat) (c : Conn) (hc : s.conns[i]? = some c) (hw : c.w ≠ .exited) :
    (step ae s (.writerStart i)).isSome = true ∨ (step ae s (.writerSeesQuit i)).isSome = true
    ∨ (step ae s (.writeErr i)).isSome = true := by
  have g := invC_reachable h i c hc
  have hq := g.done (Or.inr (by simp [hr, Phase.serving]))
  cases hcw : c.w with
  | unborn => have := g.unbornIff.mp hcw; simp [hr] at this
  | spawned => exact Or.inl (by simp [step, hc, hcw])
  | running => exact Or.inr (Or.inl (by simp [step, hc, hcw, hq.2]))
  | writing => exact Or.inr (Or.inr (by simp [step, hc, hcw, hq.1]))
  | exited => exact absurd hcw hw

/-- THE WAIT GROUP DRAINS (inevitably, no environment step needed): from every reachable state in which the call has
returned, every program-only run is finite (at most `measure s` steps), and every MAXIMAL one — one that ends in a
state where no program step is enabled — ends with every writer goroutine finished, every socket closed and the
counter at 0.  Both accountings (the pinned one is wrong only transiently, see `late_wg_add_counterexample`). -/
theorem wg_drains (ae : Bool) (s : St) (h : Reachable ae s) (hr : s.phase = .returned) (ls : List Lbl) (s' : St)
    (hp : ∀ l ∈ ls, l.isProgram = true) (hrun : run ae s ls = some s') :
    ls.length ≤ measure s
    ∧ ((∀ l, l.isProgram = true → step ae s' l = none) →
        s'.wg = 0 ∧ (∀ c ∈ s'.conns, c.w = .exited ∧ c.closed = true)) := by
  refine ⟨by have := program_run_bounded ae ls s s' h hp hrun; omega, fun hmax => ?_⟩
  have hR' := reachable_of_run ae ls s s' h hrun
  have hr' := returned_run ae ls s s' hrun hr
  have hC := invC_reachable hR'
  have hall : ∀ c ∈ s'.conns, c.w = .exited := by
    intro c hc
    obtain ⟨i, hi⟩ := List.getElem?_of_mem hc
    cases hcw : c.w with
    | exited => rfl
    | _ =>
      obtain ⟨l, hl, he⟩ := writer_can_move_after_return ae s' hC hr' i c hi (by simp [hcw])
      rw [hmax l hl] at he; simp at he
  have hW := invW_reachable hR'
  unfold InvW at hW
  rw [pendingW_all_exited ae s'.conns hall, hr'] at hW
  exact ⟨by simpa [base] using hW,
    fun c hc => ⟨hall c hc, return_implies_all_sockets_closed ae s' hR' hr' c hc⟩⟩

/-! ## 5. return after cancellation -/

/-- bounded return, part 1: a program-only execution (no step of the environment) from any reachable state has at
most `measure s` steps; and once cancelled, the program can only come to rest when the call has returned or it is in
one of the four `Waiting` states: `net.Dial` pending (assumption: it answers), the retry sleep not over (bounded by the
period), the reader in `msgsFromPanel <-` with nobody receiving (assumption: the consumer reads), the writer of the
current connection inside `conn.Write` on a socket open at both ends (assumption: a connected panel reads) -/
theorem bounded_return (ae : Bool) (s : St) (h : Reachable ae s) :
    (∀ ls s', (∀ l ∈ ls, l.isProgram = true) → run ae s ls = some s' → ls.length ≤ measure s)
    ∧ (s.cancelled = true → s.phase ≠ .returned →
        (∃ l, l.isProgram = true ∧ (step ae s l).isSome = true) ∨ Waiting s) := by
  refine ⟨fun ls s' hp hr => ?_, fun hc h1 => cancelled_progress ae s (invA_reachable h) (invC_reachable h) hc h1⟩
  have := program_run_bounded ae ls s s' h hp hr
  omega

/-- bounded return, part 2 (including the `dialing` state, the sleep and both blocking assumptions).  From a
cancelled reachable state, along ANY run in which the environment does not disturb (no new panel drop, no new byte,
no new `msgsToPanel` list, the consumer does not stop, no clock tick between a failed dial and the evaluation of the
`select` behind it), at most `crank s` helpful steps happen — program steps and the awaited environment steps (dial
result, time during the retry sleep, the consumer receiving, a write being taken); the run stays cancelled; and as
long as the call has not returned a helpful step is enabled.  So every such run that keeps taking helpful steps
reaches `returned` within `crank s` of them.  `crank s` is explicit: it contains the remaining sleep time
`wake - now ≤ rc`, at most one further connection cycle (rc + 14) when the current connection can still end
uncancelled, 14 per undelivered `msgsToPanel` list, 2 per undelivered frame, the writer goroutines. -/
theorem return_after_cancel (ae : Bool) (s : St) (h : Reachable ae s) (hnc : 0 < s.nc) (hcan : s.cancelled = true)
    (ls : List Lbl) (s' : St) (hrun : run ae s ls = some s') (hu : undisturbed ae s ls = true) :
    helpfulCount ae s ls + crank s' ≤ crank s
    ∧ s'.cancelled = true
    ∧ (s'.phase ≠ .returned → ∃ l, helpful s' l = true ∧ (step ae s' l).isSome = true) := by
  have hR' := reachable_of_run ae ls s s' h hrun
  have hc' := cancelled_run ae ls s s' hrun hcan
  exact ⟨undisturbed_run_bounded ae ls s s' h hnc hrun hu, hc',
    fun hne => cancelled_helpful_enabled ae s' (invA_reachable hR') (invC_reachable hR') hc' hne⟩

/-- the first blocking assumption is necessary: a reachable, cancelled, not returned state in which NO program step
is enabled — the reader holds a frame and nobody receives from `msgsFromPanel`; the writer goroutine has already
closed the socket (observed on the real client: it does not return until the consumer receives) -/
def blockedOnConsumer : St :=
  { phase := .connected, cancelled := true, wg := 1, consumer := false, log := [.connect, .dial], stamps := [0, 0],
    conns := [{ w := .exited, exit := true, closed := true, rx := [true], held := true }] }

theorem cancel_blocked_while_consumer_stopped :
    run true init [.dialOk true, .spawnWriter, .writerStart 0, .onConnect, .consumerStop, .byteArrive true, .takeFrame,
      .cancel, .writerSeesCancel 0] = some blockedOnConsumer
    ∧ ∀ l, l.isProgram = true → step true blockedOnConsumer l = none := by
  refine ⟨by decide, fun l hl => ?_⟩
  cases l <;> simp [Lbl.isProgram, Lbl.isEnv] at hl <;> first | (rename_i i; cases i <;> simp [step, blockedOnConsumer]) | simp [step, blockedOnConsumer]

/-- … and so is the second: the writer of the current connection is inside `conn.Write` (panel connected, not
reading), the reader is in `Read`: cancellation reaches nobody -/
def blockedInWrite : St :=
  { phase := .connected, cancelled := true, wg := 2, log := [.connect, .dial], stamps := [0, 0],
    conns := [{ w := .writing }] }

theorem cancel_blocked_while_writer_in_write :
    run true init [.dialOk true, .spawnWriter, .writerStart 0, .onConnect, .offer, .writerTake 0, .cancel] = some blockedInWrite
    ∧ ∀ l, l.isProgram = true → step true blockedInWrite l = none := by
  refine ⟨by decide, fun l hl => ?_⟩
  cases l <;> simp [Lbl.isProgram, Lbl.isEnv] at hl <;>
    first | (rename_i i; cases i <;> simp [step, blockedInWrite]) | simp [step, blockedInWrite, Conn.arrived, Conn.partial, partialOf]

/-! ## 6. cycles and reconnection -/

/-- the number of connect callbacks (= connect/disconnect cycles begun) is at most the number of connections, and that
is at most 1 + the number of connections lost through a panel drop or a reader fault: without a loss there is no
second cycle (failed dials open no connection) -/
theorem extra_cycles_need_drops (ae : Bool) (s : St) (h : Reachable ae s) :
    nConnect s.log ≤ s.conns.length ∧ s.conns.length ≤ 1 + (s.conns.filter Conn.lostFlag).length := by
  have hN := invN_reachable h
  unfold InvN at hN
  exact ⟨by omega, conns_le_losses s (invC_reachable h)⟩

/-- reconnect and resume after a loss, under fairness.  From any reachable state with the retry period configured
(`0 < nc`): along any undisturbed run at most `crank s` helpful steps happen; and in every reachable state that is
neither returned nor in the no-connection wait (the panel is back: dials succeed) and not yet connected on a live
connection, a helpful step other than a failing dial is enabled — the client cannot get stuck between the loss
and the next connection.  Connected on a live connection, every completely arrived frame is taken and handed over
as soon as the consumer receives (`delivery_resumes`). -/
theorem reconnect_after_drop (ae : Bool) (s : St) (h : Reachable ae s) (hnc : 0 < s.nc)
    (ls : List Lbl) (s' : St) (hrun : run ae s ls = some s') (hu : undisturbed ae s ls = true) :
    helpfulCount ae s ls + crank s' ≤ crank s
    ∧ (s'.phase ≠ .returned → s'.phase ≠ .noConnWait → ¬ liveConn s' →
        ∃ l, l ≠ .dialFail ∧ helpful s' l = true ∧ (step ae s' l).isSome = true)
    ∧ (∀ c rest, s'.phase = .connected → s'.conns = c :: rest → c.closed = false → c.delivered < c.arrived →
        (step ae s' .takeFrame).isSome = true ∨ (c.held = true ∧ (s'.consumer = true → (step ae s' .deliver).isSome = true))) := by
  have hR' := reachable_of_run ae ls s s' h hrun
  exact ⟨undisturbed_run_bounded ae ls s s' h hnc hrun hu,
    fun h1 h2 h3 => reconnect_helpful_enabled ae s' (invA_reachable hR') (invC_reachable hR') h1 h2 h3,
    fun c rest hp hcs hcl hlt => delivery_resumes ae s' c rest hp hcs hcl hlt⟩

/-! ## 7. the writer's data path -/

/-- a `conn.Write` that fails (socket closed by the client, or panel gone) changes nothing but the writer goroutine
itself, which is back in its `select`: the main loop / reader, the cancellation flag, the history, the wait group,
the offered lists and every other connection are untouched (a failed write neither kills the reader nor ends the
writer; whether it is leaked is `earlier_connection_writer_told_to_quit` / `wg_drains`) -/
theorem write_failure_harmless (ae : Bool) (s s' : St) (i : Nat) (hs : step ae s (.writeErr i) = some s') :
    ∃ c, s.conns[i]? = some c ∧ c.w = .writing ∧ s' = { s with conns := s.conns.set i { c with w := .running } }
      ∧ s'.phase = s.phase ∧ s'.log = s.log ∧ s'.wg = s.wg ∧ s'.cancelled = s.cancelled ∧ s'.offered = s.offered
      ∧ (∀ j, j ≠ i → s'.conns[j]? = s.conns[j]?) := by
  obtain ⟨c, hc, hw, _, rfl⟩ := step_writeErr hs
  refine ⟨c, hc, hw, rfl, rfl, rfl, rfl, rfl, rfl, fun j hj => ?_⟩
  simp [Ne.symm hj]

/-- a writer goroutine inside `conn.Write` is counted by the wait group and cannot be overlooked at cancellation:
while it is there the connection's exit flag is clear, and the moment the write returns (`writeDone` / `writeErr`) it is in
its `select` where, once cancelled, `writerSeesCancel` is enabled -/
theorem writer_in_write_sees_cancel_after_write (ae : Bool) (s s' : St) (i : Nat) (hcan : s.cancelled = true)
    (hs : step ae s (.writeErr i) = some s' ∨ step ae s (.writeDone i) = some s') :
    (step ae s' (.writerSeesCancel i)).isSome = true := by
  rcases hs with hs | hs
  · obtain ⟨c, hc, hw, _, rfl⟩ := step_writeErr hs
    have hi : i < s.conns.length := by
      rcases Nat.lt_or_ge i s.conns.length with h | h
      · exact h
      · rw [List.getElem?_eq_none h] at hc; simp at hc
    simp [step, hi, hcan]
  · obtain ⟨c, hc, hw, _, rfl⟩ := step_writeDone hs
    have hi : i < s.conns.length := by
      rcases Nat.lt_or_ge i s.conns.length with h | h
      · exact h
      · rw [List.getElem?_eq_none h] at hc; simp at hc
    simp [step, hi, hcan]

/-! ## 8. non-vacuity: reachable non-trivial states satisfying the hypotheses -/

/-- a run with a dropped connection, a reconnect, two deliveries and a cancelled return (repaired accounting) -/
def demoTrace : List Lbl :=
  [.dialOk true, .spawnWriter, .writerStart 0, .onConnect, .byteArrive false, .byteArrive true, .takeFrame, .deliver, .peerClose,
   .readErr, .closeQuit, .writerSeesQuit 0, .connClose, .onDisconnect false, .tick 1000, .sleepDone, .dialOk false, .spawnWriter,
   .writerStart 0, .onConnect, .byteArrive true, .takeFrame, .deliver, .cancel, .writerSeesCancel 0, .readErr, .closeQuit,
   .connClose, .onDisconnect true, .ret]

example : ∃ s, Reachable true s ∧ s.phase = .returned ∧ s.wg = 0 ∧ s.conns.length = 2 ∧
    cbs s.log = [.disconnect true, .connect, .disconnect false, .connect] ∧ s.cancelled = true := by
  have hrun : (run true init demoTrace).isSome = true := by decide
  obtain ⟨s, hs⟩ := Option.isSome_iff_exists.mp hrun
  refine ⟨s, reachable_of_run true demoTrace init s (reachable_init true) hs, ?_⟩
  have : (run true init demoTrace).map (fun s => decide (s.phase = .returned ∧ s.wg = 0 ∧ s.conns.length = 2 ∧
      cbs s.log = [.disconnect true, .connect, .disconnect false, .connect] ∧ s.cancelled = true)) = some true := by decide
  rw [hs] at this
  simpa using this

/-- the timed history of that run: the second connection is established exactly one retry period (1000) after the
uncancelled disconnect — `redial_not_before_period` speaks about such entries -/
example : (run true init demoTrace).map (fun s => (tl s).filter (fun x => x.1 = .dial ∨ x.1 = .disconnect false))
    = some [(.dial, 1000), (.disconnect false, 0), (.dial, 0)] := by decide

/-- without the clock advancing the retry sleep does not end -/
example : run true init [.dialOk true, .spawnWriter, .onConnect, .peerClose, .readErr, .closeQuit, .connClose, .onDisconnect false,
    .tick 999, .sleepDone] = none := by decide

/-- the pinned counterexample state is reachable (so the negative result is about a reachable state) -/
example : ∃ s, Reachable false s ∧ drainedWithLiveWriter s = true := by
  have hrun : (run false init lateAddTrace).isSome = true := by decide
  obtain ⟨s, hs⟩ := Option.isSome_iff_exists.mp hrun
  refine ⟨s, reachable_of_run false lateAddTrace init s (reachable_init false) hs, ?_⟩
  have := late_wg_add_counterexample
  rw [hs] at this
  simpa using this

/-- `drop_at_every_offset` is not vacuous: frames of 6, 4 and 8 bytes, the panel drops after 13 bytes (inside the third
frame), ASCII connection: exactly the 2 complete frames are delivered, the 3 bytes of the third never -/
def dropTrace (bin : Bool) : List Lbl :=
  [.dialOk bin, .spawnWriter, .writerStart 0, .onConnect] ++ (arrivals [6, 4, 8] 13).map .byteArrive
  ++ [.takeFrame, .deliver, .peerClose, .takeFrame, .deliver, .readErr, .closeQuit, .connClose, .writerSeesQuit 0, .onDisconnect false]

example : completeBefore [6, 4, 8] 13 = 2 ∧ completeBefore [6, 4, 8] 10 = 2 ∧ completeBefore [6, 4, 8] 9 = 1
    ∧ completeBefore [6, 4, 8] 18 = 3 ∧ completeBefore [6, 4, 8] 0 = 0 := by decide

example : ∀ bin : Bool, (run true init (dropTrace bin)).map (fun s => s.conns.map (fun c =>
      (decide (c.rx = (arrivals [6, 4, 8] 13).reverse), c.delivered, c.partial, c.exit, s.phase)))
    = some [(true, 2, 3, false, .retrySleep)] := by
  intro bin; cases bin <;> decide

/-- `monitor_counts_the_same_frames` on the harness's kind of stream: three binary frames (payloads of 2, 0, 4 bytes), prefix 13 -/
example : Spec.Lifecycle.framesIn { mode := .bin, stream := binStream [[8, 1], [], [1, 2, 3, 4]] } 13 = 2
    ∧ Spec.Lifecycle.framesIn { mode := .asc, stream := ascStream [[72, 87], [67]] } 4 = 1 := by decide

/-- … and in binary mode the reader may instead give the connection up inside the third frame (in-frame deadline):
still exactly 2 deliveries, an uncancelled disconnect, callbacks alternate -/
example : (run true init ([.dialOk true, .spawnWriter, .writerStart 0, .onConnect] ++ (arrivals [6, 4, 8] 13).map .byteArrive
      ++ [.takeFrame, .deliver, .takeFrame, .deliver, .readFault, .closeQuit, .connClose, .writerSeesQuit 0, .onDisconnect false])).map
      (fun s => (s.conns.map (fun c => (c.fault, c.delivered, c.peerClosed)), cbs s.log, s.phase))
    = some ([(true, 2, false)], [.disconnect false, .connect], .retrySleep) := by decide

/-- an ASCII connection has no in-frame deadline: `readFault` is never enabled there -/
example : run true init ([.dialOk false, .spawnWriter, .writerStart 0, .onConnect, .byteArrive false, .readFault]) = none := by decide

/-- the measures bound something: one established connection -/
example : measure init = 0 ∧ (run false init [.dialOk true]).map measure = some 13
    ∧ (run true init [.dialOk true, .spawnWriter, .onConnect, .peerClose, .cancel]).map crank = some 1023 := by decide

/-- `return_after_cancel` is not vacuous: cancelled during the retry sleep, the undisturbed helpful run
tick, sleepDone, dialFail, ret reaches `returned` -/
example : (run true init [.dialOk true, .spawnWriter, .writerStart 0, .onConnect, .peerClose, .readErr, .closeQuit, .writerSeesQuit 0,
      .connClose, .onDisconnect false, .cancel]).bind (fun s =>
        (run true s [.tick 1000, .sleepDone, .dialFail, .ret]).map (fun s' =>
          (undisturbed true s [.tick 1000, .sleepDone, .dialFail, .ret], helpfulCount true s [.tick 1000, .sleepDone, .dialFail, .ret],
           crank s, crank s', s'.phase))) = some (true, 4, 1016, 1, .returned) := by decide

/-- `wg_drains` is not vacuous: after `lateAddTrace` (pinned accounting) the maximal program-only run
writerStart 1, writerSeesQuit 1 ends with the counter at 0 and everybody exited -/
example : (run false init (lateAddTrace ++ [.writerStart 1, .writerSeesQuit 1])).map
    (fun s => (s.wg, s.conns.map (·.w), s.phase)) = some (0, [.exited, .exited], .returned) := by decide

/-- `extra_cycles_need_drops`: two connections, one of them lost -/
example : (run true init demoTrace).map (fun s => (nConnect s.log, s.conns.length, (s.conns.filter Conn.lostFlag).length))
    = some (2, 2, 1) := by decide

/-- a failed write on the connection the panel has left: the writer is back in its select, the reader untouched -/
example : (run true init [.dialOk true, .spawnWriter, .writerStart 0, .onConnect, .offer, .writerTake 0, .peerClose, .writeErr 0]).map
    (fun s => (s.conns.map (·.w), s.phase, s.offered)) = some ([.running], .connected, 0) := by decide

/-- `delivery_blocks_without_consumer` speaks about a reachable state (`blockedOnConsumer`), and once the consumer receives
the held frame is handed over -/
example : blockedOnConsumer.phase = .connected ∧ blockedOnConsumer.consumer = false
    ∧ blockedOnConsumer.conns.map (·.held) = [true]
    ∧ (run true blockedOnConsumer [.consumerResume, .deliver, .readErr, .closeQuit, .connClose, .onDisconnect true, .ret]).map
        (fun s => (s.phase, s.conns.map (·.delivered), s.wg)) = some (.returned, [1], 0) := by decide

/-- `model_periods_are_the_monitors`: nil config, and 2 s / default -/
example : Spec.Lifecycle.ncMs {} = 3000 ∧ Spec.Lifecycle.rcMs {} = 1000 ∧ Spec.Lifecycle.ncMs { nc := 2 } = 2000 := by decide

/-- `periods_are_the_configured_ones`: config {NoConnectionRetryPeriod: 2} and the default reconnection period -/
example : (run true (initCfg 2 0) [.dialFail]).map (fun s => (s.nc, s.rc, s.wake)) = some (2000, 1000, 2000) := by decide

/-- `reconnect_after_drop` is not vacuous: the panel drops an idle connection; the undisturbed helpful run below (10 helpful
steps ≤ crank = 1021) ends connected on a new, live connection -/
def reconnectRun : List Lbl :=
  [.readErr, .closeQuit, .writerSeesQuit 0, .connClose, .onDisconnect false, .tick 1000, .sleepDone, .dialOk true, .spawnWriter, .onConnect]

example : (run true init [.dialOk true, .spawnWriter, .writerStart 0, .onConnect, .peerClose]).bind (fun s =>
      (run true s reconnectRun).map (fun s' => decide (undisturbed true s reconnectRun = true ∧ helpfulCount true s reconnectRun = 10
        ∧ crank s = 1021 ∧ s'.phase = .connected ∧ s'.conns.map (fun c => (c.peerClosed, c.closed)) = [(false, false), (true, true)])))
    = some true := by decide

/-- `writer_in_write_sees_cancel_after_write`: the state `blockedInWrite`, the panel takes the bytes, the writer sees the cancel -/
example : (run true blockedInWrite [.writeDone 0, .writerSeesCancel 0, .readErr, .closeQuit, .connClose, .onDisconnect true, .ret]).map
    (fun s => (s.phase, s.wg)) = some (.returned, 0) := by decide

end RawPanelVerif.C11
