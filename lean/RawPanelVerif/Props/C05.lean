import RawPanelVerif.Gen.Consts
import RawPanelVerif.Lemmas.GfxCor
import RawPanelVerif.Lemmas.GfxSpecLift
import RawPanelVerif.Lemmas.GfxErase
import RawPanelVerif.Lemmas.GfxMulti
import RawPanelVerif.Lemmas.GfxMsgs
import RawPanelVerif.Lemmas.GfxHeap
import RawPanelVerif.Gen.Reader
/-!
# C05 — Chunked graphics reassemble exactly; no corrupt image is ever delivered

Property theorems only (helpers: `Lemmas/Gfx*.lean`; model: `Model/Gfx.lean`; property: `Spec/GfxSpec.lean`).
The theorems are about the model of the **repaired** decoder (`Batch.step`, `Stream.parse`; `fix:` 87cf381);
the behaviour of the pinned tree is kept as `…Pinned` and refuted by the `pinned_…_counterexample`s.
`C06.batch_models_agree` / `C06.parse_models_agree` prove that this model and the full inbound decoder model of
C01/C02/C06 (`Model/DecIn.lean`) return the same messages on every line sequence, so all of them speak about one function.

**Chunking** (encoder, for every image and target list text)
* `chunk_len_le_170`, `chunk_count`, `chunks_concat`, `chunk_lines_read_back`.

**Clean runs** (liveness; every non-empty image whose fields fit the message types, every valid target list)
* `clean_run_batch`               one call on the encoder's lines: exactly one message, carrying the image sent
* `clean_run_batch_any_state`     … from any state of the decoder's locals, at the position of the last line
* `clean_run_stream`              line by line from any reader state: nothing before, the image at the last line,
                                  the reader reset afterwards
* `clean_run_stream_serialised`   the same with `serialise`/`restore` between any two lines, from any JSON document
* `clean_run_interleaved`         with unrelated non-graphics lines woven in anywhere: the graphics messages of the
                                  batch call are exactly the image; streaming (plain and serialised) returns graphics
                                  at exactly one call — the one on the last chunk line — and it is the image

**Safety** (every history of lines, no length bound; domain `Spec.Gfx.inDomain`: every target id, dimension and offset
below 2^32 — the `uint32` message fields —, every chunk index / declared last index below 2^63 — a Go `int`; any number
of digits and leading zeros.  `numbers_as_the_code_reads_them` says what `su.Intval` / `uint32(…)` do beyond: clamp to
`MaxInt64`, wrap modulo 2^32; `safety_id_domain_counterexample` shows the id bound is needed)
* `all_deliveries_legitimate_batch | _stream | _serialised`   `Spec.Gfx.safetyOn … = none` on the deliveries with their
  (ghost) line positions: every delivery is legitimate where it was returned (chunks 0..N in order of one transfer started
  by its chunk 0, same target list and format, header metadata, no chunk 0 between), no transfer delivered twice, no
  delivered object altered
* `at_most_once_batch | _stream`  the transfers of the deliveries are pairwise different
* `never_altered`                 batch call, no domain condition: bytes at the end of the call = bytes when the message was
                                  made (image objects are cells of a store; a delivered cell is never written again)
* `stream_never_altered`          streaming reader, no domain condition, object identity across calls (one heap region per
                                  hand-over to the batch converter, `Stream.runH`): the deliveries are those of
                                  `Stream.parse`, and every delivered object holds at the END of the history the bytes it
                                  held when `Parse` returned it.  `parse_returns_batch_result`: `Parse` returns nil or what
                                  one batch call returns.  Rests on `reader_fields_are_values` (the reader struct, read
                                  from the source on every run, has the five value-typed fields: no pointer to an image),
                                  on the batch converter allocating its objects itself, and on C06 `no_shared_mutable_state`.

**The Spec's own reading of a line** (every byte string)
* `spec_reading_agrees`           `Spec.Gfx.parseLine l = readLine l`: the Spec's independently written line grammar and
  the decoder's own matcher (`readLine`, used by the safety theorems above) accept the same lines and read the same
  chunk from them (both accept exactly `Lemmas/GfxAgree.lean: Shape`).  The driver still compares the two on every
  line of every record, and the matcher against the real regular expression by the `gfx.match` records.
* `safety_spec_batch`             `Spec.Gfx.checkSafety lines (batchObserved …) = none`: the batch call as its caller
  observes it — a list of messages WITHOUT line positions, images read after the call returned — which is, field by field,
  what the driver builds from the implementation's output (`Driver/Gfx.lean: delivsOf sec false`).  Obtained from the
  positions form (`safety_spec_batch_positions`) by `safety_erase_pos`: deliveries in line order that pass the Spec's check
  with their positions pass it without (the Spec then searches positions itself; `safety_erase_pos_needs_order`), and
  `batchObserved_eq`.
* `safety_spec_stream`            the streaming reader, plain and serialised, with the positions of the `Parse` calls (which
  the driver does observe); the history is the lines with surrounding white-space runes stripped (`Bytes.trimSpace` =
  Go's `strings.TrimSpace`, incl. U+0085, U+00A0, U+2028 …).

**Encoder and clean runs in the Spec's terms** (through `Spec.Gfx.parseLine`)
* `encoder_lines_clean`           `Spec.Gfx.checkEnc (sentOf g) ids (encodeState g ids) = none` for every image whose
  fields fit the message types and every id list (also the empty image / empty list)
* `clean_run_spec`                the encoder's lines for one 32-bit id, woven with unrelated lines: `cleanRuns` holds
  and `checkClean` passes for the batch call, the streaming reader and the serialised reader (delivery at the
  position of the run's last line).  The id must fit `uint32` (the type of `HWCIDs`): for larger ids the decoder
  delivers to `id mod 2^32` and `checkClean` fails — `clean_run_spec_id_domain_counterexample`.
* `clean_run_spec_multi`          the encoder's WHOLE output for an id list (one transfer per id), woven: one delivery per id,
  in order, each at the last line of its run — batch as observed (no positions), streaming, serialised
* `clean_run_spec_multi_any_state` the same from ANY state of the batch locals, ANY reader state, ANY JSON document — hence
  after any earlier history (`history_split`: a history is the earlier history followed by the rest run from the state it
  left, positions continued)

**Several images in ONE encoder call** (`encodeMsgs`: any number of messages, each with any number of states, each state
with its own format, dimensions, offset flag, bytes and target ids; `Spec.Gfx.checkEncAll` / `checkCleanAll` demand, per
image in message order and per id in order, one clean run and one delivery of THAT image)
* `encoder_call_clean`            `Spec.Gfx.checkEncAll (sentImgs msgs.flatten) (encodeMsgs msgs) = none`
* `clean_run_spec_call_any_state` the call's whole output, woven with unrelated lines, from ANY batch locals / reader state /
  JSON document: one delivery per image and id, in message order, each equal to its own image (format included), at the
  last line of its run — batch, streaming, serialised
* `clean_run_spec_call`           … from the initial states in the forms the driver evaluates (batch without positions)
* `call_checks_generalise`        on a single image `cleanRunsAll` / `checkEncAll` / `checkCleanAll` are `cleanRuns` /
  `checkEnc` / `checkClean`;  `call_is_states_in_order`: a call's lines are its states' lines, message after message
* `carried_prefix_rejected`       the whole-call check is not vacuous: an RGB image followed by a MONO image whose lines
  carry the RGB prefix fails `checkEncAll`, and a MONO image delivered as RGB fails `checkCleanAll`

**The JSON hop** (`Lemmas/GfxJson.lean`): `json.Marshal`/`Unmarshal` replace invalid UTF-8 in the held lines by U+FFFD
(`jsonFix`, compared with the real hop on every record: the final reader state lists the held lines).  `serial_stream`:
the serialised reader returns at every line what the plain reader returns (a payload with a byte ≥ 0x80 is undecodable
base64 before and after; groups 1–10 of a chunk line are ASCII).
-/
namespace RawPanelVerif.C05
open RawPanelVerif RawPanelVerif.Gfx

/-! ## what the Spec gets to see of a model run -/

/-- one batch call: each graphics message with the image as it was when the message was created (ghost snapshot)
and the bytes its object holds when the call returns -/
def batchDelivs (step : BState → Bytes → BState × Option Out) (lines : List Bytes) : List Spec.Gfx.Deliv :=
  delivsOf (Batch.run step lines).1.store (Batch.run step lines).2

def streamDelivs (parse : RState → Bytes → RState × List Seen) (lines : List Bytes) : List Spec.Gfx.Deliv :=
  delivsOfStream (Stream.run parse lines).2

def serialDelivs (parse : RState → Bytes → RState × List Seen) (lines : List Bytes) : List Spec.Gfx.Deliv :=
  delivsOfStream (Serial.run parse lines).2

/-- the history as the Spec reads it: the chunk each line denotes -/
def readings (lines : List Bytes) : List (Option Spec.Gfx.Chunk) := lines.map readLine

/-- … as the streaming reader reads it (surrounding white space stripped) -/
def readingsTrimmed (lines : List Bytes) : List (Option Spec.Gfx.Chunk) := lines.map readTrimmed

/-! ## the pattern the matcher was written for is the one in the sources (regenerated on every run) -/

theorem pattern_is_current :
    Gen.regex_gfx_src = gfxPattern ∧ Gen.ASCIIreader_gfx_src = gfxPattern := by decide

/-- `base64.StdEncoding`: `DecodeString (EncodeToString b) = b, nil` -/
theorem base64_round_trip (b : Bytes) : B64.decodeGo (B64.encode b) = (b, true) := B64.decode_encode b

/-! ## chunking -/

/-- every line carries at most 170 payload bytes -/
theorem chunk_len_le_170 (g : Img) (i : Nat) : (segment g i).length ≤ 170 := segment_length_le g i

/-- the number of lines is ⌈len/170⌉: the least `n` with `len ≤ n·170`; an empty image gives no lines -/
theorem chunk_count (g : Img) (ids : Bytes) :
    (chunkLines g ids).length = totalLines g.data.length ∧
    (∀ n, totalLines g.data.length ≤ n ↔ g.data.length ≤ n * 170) ∧
    (g.data = [] → chunkLines g ids = []) := by
  refine ⟨chunkLines_length g ids, fun n => totalLines_is_ceil _ n, fun h => ?_⟩
  have : (chunkLines g ids).length = 0 := by
    rw [chunkLines_length, totalLines_eq_zero]; simp [h]
  exact List.eq_nil_of_length_eq_zero this

/-- the payloads, in order, concatenate to the image -/
theorem chunks_concat (g : Img) : (List.range (totalLines g.data.length)).flatMap (segment g) = g.data :=
  segments_concat g

/-- line `i` is read back by the decoder as: index `i`, the same format and target list, the payload `segment g i`
intact, and (chunk 0) the header declaring the last index and the image's metadata -/
theorem chunk_lines_read_back (g : Img) (ids : Bytes) (hv : ValidIds ids) (hr : InRange g) (i : Nat)
    (hi : i < totalLines g.data.length) :
    parseLine? (chunkLine g ids (totalLines g.data.length) i) =
      some (if i = 0 then
          { idx := 0, ty := g.ty, pfx := pfxOf g.ty, list := ids,
            max := ((totalLines g.data.length - 1 : Nat) : Int), img := headerImg g, data := segment g 0, ok := true }
        else
          { idx := (i : Int), ty := g.ty, pfx := pfxOf g.ty, list := ids, max := 2,
            img := { ty := g.ty, W := 64, H := 32 }, data := segment g i, ok := true }) := by
  have hl := totalLines_lt g hr
  by_cases h0 : i = 0
  · subst h0; simp only [if_true]; exact parseLine?_chunk_zero g ids hv hr _ hl
  · simp only [h0, if_false]; exact parseLine?_chunk_succ g ids hv hr _ i h0 (by omega)

/-! ## clean runs -/

theorem clean_run_batch (g : Img) (ids : Bytes) (hv : ValidIds ids) (hr : InRange g) (h : g.data ≠ []) :
    Batch.decode Batch.step (chunkLines g ids) = [.gfx (intExplode ids) (received g) 1] :=
  decode_chunkLines g ids hv hr h

theorem clean_run_batch_any_state (g : Img) (ids : Bytes) (hv : ValidIds ids) (hr : InRange g) (h : g.data ≠ [])
    (s0 : BState) (pos : Nat) :
    ∃ final, Batch.runFrom Batch.step s0 pos (chunkLines g ids) =
      (final, [⟨pos + (totalLines g.data.length - 1), .gfx (intExplode ids) s0.store.length, final.store⟩]) ∧
      final.store.getD s0.store.length {} = received g ∧ final.list = [] := by
  rw [chunkLines_cons g ids h]
  have hl := totalLines_lt g hr
  have hpos : 0 < totalLines g.data.length := by
    have h1 : g.data.length ≠ 0 := by simpa using h
    have h2 : totalLines g.data.length ≠ 0 := fun e => h1 ((totalLines_eq_zero g.data.length).mp e)
    omega
  have hrun := run_whole g.ty ids s0 (chunkLine g ids (totalLines g.data.length) 0)
    ((List.range' 1 (totalLines g.data.length - 1)).map (chunkLine g ids (totalLines g.data.length)))
    ((List.range' 1 (totalLines g.data.length - 1)).map (segment g))
    { idx := 0, ty := g.ty, pfx := pfxOf g.ty, list := ids, max := ((totalLines g.data.length - 1 : Nat) : Int),
      img := headerImg g, data := segment g 0, ok := true } pos
    (parseLine?_chunk_zero g ids hv hr _ hl) rfl rfl rfl rfl (by simp)
    (isRun_chunkLines g ids hv hr _ _ 1 (by omega) (by omega))
  simp only [List.length_map, List.length_range'] at hrun
  refine ⟨_, hrun, ?_, rfl⟩
  simp only [doneState, List.append_assoc]
  rw [List.getD_eq_getElem?_getD, List.getElem?_append_right (Nat.le_refl _)]
  simp only [Nat.sub_self, List.cons_append, List.nil_append, List.getElem?_cons_zero, Option.getD_some,
    headerImg, received]
  rw [segments_cons g h]

theorem clean_run_stream (g : Img) (ids : Bytes) (hv : ValidIds ids) (hr : InRange g) (h : g.data ≠ [])
    (s : RState) (pos : Nat) :
    Stream.runFrom Stream.parse s pos (chunkLines g ids) =
      (rdone (totalLines g.data.length),
        quiet pos (totalLines g.data.length - 1) ++
          [(pos + (totalLines g.data.length - 1), [.gfx (intExplode ids) (received g) 1])]) :=
  stream_chunkLines g ids hv hr h s pos

theorem clean_run_stream_serialised (g : Img) (ids : Bytes) (hv : ValidIds ids) (hr : InRange g) (h : g.data ≠ [])
    (w : Option Wire) (pos : Nat) :
    (Serial.runFrom Stream.parse w pos (chunkLines g ids)).2 =
      quiet pos (totalLines g.data.length - 1) ++
        [(pos + (totalLines g.data.length - 1), [.gfx (intExplode ids) (received g) 1])] ∧
    restore (Serial.runFrom Stream.parse w pos (chunkLines g ids)).1 = rdone (totalLines g.data.length) := by
  have hs := serial_stream (chunkLines g ids) w pos
  rw [stream_chunkLines g ids hv hr h (restore w) pos] at hs
  exact ⟨hs.1, sim_rdone _ _ hs.2⟩

theorem clean_run_interleaved (g : Img) (ids : Bytes) (hv : ValidIds ids) (hr : InRange g) (h : g.data ≠ [])
    (all : List Bytes) (w : Weave (chunkLines g ids) all) :
    (Batch.decode Batch.step all).filter Seen.isGfx = [.gfx (intExplode ids) (received g) 1] ∧
    hits (Stream.run Stream.parse all).2 all =
      [(chunkLine g ids (totalLines g.data.length) (totalLines g.data.length - 1),
        [.gfx (intExplode ids) (received g) 1])] ∧
    hits (Serial.run Stream.parse all).2 all =
      [(chunkLine g ids (totalLines g.data.length) (totalLines g.data.length - 1),
        [.gfx (intExplode ids) (received g) 1])] := by
  have hst : hits (Stream.run Stream.parse all).2 all =
      [(chunkLine g ids (totalLines g.data.length) (totalLines g.data.length - 1),
        [.gfx (intExplode ids) (received g) 1])] := by
    unfold Stream.run
    rw [stream_weave _ _ w {} {} 0 0 rfl]
    exact hits_chunkLines g ids hv hr h {} 0
  refine ⟨?_, hst, ?_⟩
  · rw [decode_weave _ _ w, clean_run_batch g ids hv hr h]; rfl
  · have := (serial_stream all none 0).1
    unfold Serial.run
    rw [this]
    exact hst

/-! ## safety, for every history -/

theorem all_deliveries_legitimate_batch (lines : List Bytes)
    (hdom : Spec.Gfx.inDomainOn (readings lines) = true) :
    Spec.Gfx.safetyOn (readings lines) (batchDelivs Batch.step lines) = none :=
  batch_safe lines hdom

theorem all_deliveries_legitimate_stream (lines : List Bytes)
    (hdom : Spec.Gfx.inDomainOn (readingsTrimmed lines) = true) :
    Spec.Gfx.safetyOn (readingsTrimmed lines) (streamDelivs Stream.parse lines) = none :=
  stream_safe lines hdom

theorem all_deliveries_legitimate_serialised (lines : List Bytes)
    (hdom : Spec.Gfx.inDomainOn (readingsTrimmed lines) = true) :
    Spec.Gfx.safetyOn (readingsTrimmed lines) (serialDelivs Stream.parse lines) = none :=
  serial_safe lines hdom

/-- every delivery of a batch call belongs to a transfer, and no two to the same -/
theorem at_most_once_batch (lines : List Bytes) (hdom : Spec.Gfx.inDomainOn (readings lines) = true) :
    ((batchDelivs Batch.step lines).map (transferOf (readings lines))).Nodup ∧
    ∀ d ∈ batchDelivs Batch.step lines, (transferOf (readings lines) d).isSome = true := by
  have hg := batch_good lines hdom lines 0 {} [] rfl ⟨by decide, (fun _ hu => nomatch hu), Or.inl rfl⟩
  have := good_transfers _ _ _ hg
  exact ⟨this.1, fun d hd => by
    obtain ⟨p0, h1, _⟩ := this.2 d hd
    rw [show transferOf (readings lines) d = some p0 from h1]; rfl⟩

theorem at_most_once_stream (lines : List Bytes) (hdom : Spec.Gfx.inDomainOn (readingsTrimmed lines) = true) :
    ((streamDelivs Stream.parse lines).map (transferOf (readingsTrimmed lines))).Nodup ∧
    ((serialDelivs Stream.parse lines).map (transferOf (readingsTrimmed lines))).Nodup := by
  have hg := stream_good lines hdom lines 0 {} [] rfl ⟨(fun _ hu => nomatch hu), Or.inl rfl⟩
  have h1 := (good_transfers _ _ _ hg).1
  refine ⟨h1, ?_⟩
  have := (serial_stream lines none 0).1
  unfold serialDelivs Serial.run
  rw [this]
  exact h1

/-- for every history whatsoever: the bytes a delivered image object holds when the call returns are the bytes it
held when its message was created (the repaired decoder never writes to a delivered object) -/
theorem never_altered (lines : List Bytes) :
    ∀ d ∈ batchDelivs Batch.step lines, d.final = d.img.data :=
  batch_never_altered lines

/-! ## never altered, streaming reader: object identity across `Parse` calls -/

/-- the streaming reader with its image objects in a session heap (one region per hand-over to the batch converter):
deliveries as `Parse` returned them, `final` = the bytes the same object holds in the heap after the whole history -/
def streamHeapDelivs (lines : List Bytes) : List Spec.Gfx.Deliv := streamDelivsH lines

/-- `Parse` returns nil or exactly what ONE call of the batch converter returns for the lines it hands over (the
buffered run, or the single non-graphics line); it creates no image object itself -/
theorem parse_returns_batch_result (s : RState) (l : Bytes) :
    Stream.parse s l =
      ((Stream.handover s l).1,
        match (Stream.handover s l).2 with
        | none => []
        | some ls => Batch.decode Batch.step ls) :=
  parse_is_handover s l

/-- for every history whatsoever: the deliveries of the reader with object identity are exactly those of
`Stream.parse` (the model compared with the real `Parse`), and the bytes every delivered object holds at the END of the
history are the bytes it held when `Parse` returned it — later `Parse` calls only allocate new regions -/
theorem stream_never_altered (lines : List Bytes) :
    streamHeapDelivs lines = streamDelivs Stream.parse lines ∧
    ∀ d ∈ streamHeapDelivs lines, d.final = d.img.data :=
  ⟨streamDelivsH_eq lines, RawPanelVerif.Gfx.stream_never_altered lines⟩

/-- the reader keeps no pointer to an image: `type ASCIIreader struct` (regenerated from the source on every run) has
exactly the five value-typed fields of the model's `RState` (and all exported, so `encoding/json` carries them) -/
theorem reader_fields_are_values :
    Gen.asciiReaderFields =
      [("HWCGfx_count", "int"), ("HWCGfx_ImageType", "string"), ("HWCGfx", "[]string"), ("HWCGfx_max", "int"),
       ("HWCGfx_HWClist", "string")] := by decide

/-! ## the Spec's own reading of a line -/

/-- the Spec's line grammar and the decoder's matcher agree on every byte string -/
theorem spec_reading_agrees (l : Bytes) : Spec.Gfx.parseLine l = readLine l := parseLine_eq_readLine l

/-- what the caller of the batch function observes: the graphics messages of the returned list as read after the
call returned — no line positions, the image object's content at that time (also its final content).  Field by field
what `Driver/Gfx.lean: delivsOf sec false` builds from the implementation's printed messages. -/
def batchObserved (step : BState → Bytes → BState × Option Out) (lines : List Bytes) : List Spec.Gfx.Deliv :=
  observedOf (Batch.decode step lines)

/-- the observation is the ghost deliveries (`batchDelivs`: creation position, snapshot at creation) with the
positions erased: no delivered object is written after its message was created -/
theorem batchObserved_eq (lines : List Bytes) :
    batchObserved Batch.step lines = (batchDelivs Batch.step lines).map erasePos := by
  unfold batchObserved batchDelivs Batch.decode
  exact observed_eq_erase _ _ (run_never_altered lines {} 0 (by decide))

/-- `Spec.Gfx.safetyOn` is indifferent to losing the positions of deliveries that came in line order: if deliveries
that all carry positions, strictly increasing, pass the check, they pass it with the positions erased (the Spec then
searches the positions itself).  The order hypothesis is needed: `safety_erase_pos_needs_order`. -/
theorem safety_erase_pos (cs : List (Option Spec.Gfx.Chunk)) (ds : List Spec.Gfx.Deliv) (hs : PosSorted 0 ds)
    (h : Spec.Gfx.safetyOn cs ds = none) : Spec.Gfx.safetyOn cs (ds.map erasePos) = none := by
  unfold Spec.Gfx.safetyOn at h ⊢
  have hg : Good cs ds [] := good_of_safetyLoop cs cs.length ds 0 0 [] (fun d hd => by
    obtain ⟨p, hp, _⟩ := posSorted_ge ds 0 hs d hd; rw [hp]; rfl) h
  exact safetyLoop_erase cs ds [] hg 0 0 [] hs (fun _ _ _ _ hm => by simp at hm)

/-- safety of the batch call on exactly what the driver evaluates: `Spec.Gfx.checkSafety` on the lines and the
caller's observation of the returned messages (no positions) -/
theorem safety_spec_batch (lines : List Bytes) (hdom : Spec.Gfx.inDomain lines = true) :
    Spec.Gfx.checkSafety lines (batchObserved Batch.step lines) = none := by
  have e : readings lines = lines.map Spec.Gfx.parseLine := map_readLine lines
  have hd : Spec.Gfx.inDomainOn (readings lines) = true := by rw [e, ← inDomain_eq]; exact hdom
  have hg := batch_good lines hd lines 0 {} [] rfl ⟨by decide, (fun _ hu => nomatch hu), Or.inl rfl⟩
  have hsort : PosSorted 0 (batchDelivs Batch.step lines) := delivsOf_posSorted Batch.step _ lines {} 0
  have h := safetyLoop_erase (readings lines) (batchDelivs Batch.step lines) [] hg 0 0 [] hsort
    (fun _ _ _ _ hm => by simp at hm)
  unfold Spec.Gfx.checkSafety Spec.Gfx.safety Spec.Gfx.safetyOn
  rw [batchObserved_eq, ← e, h]; rfl

/-- the same with the ghost positions kept (the form the invariant proof produces) -/
theorem safety_spec_batch_positions (lines : List Bytes) (hdom : Spec.Gfx.inDomain lines = true) :
    Spec.Gfx.checkSafety lines (batchDelivs Batch.step lines) = none := by
  have e : readings lines = lines.map Spec.Gfx.parseLine := map_readLine lines
  have h := all_deliveries_legitimate_batch lines (by rw [e, ← inDomain_eq]; exact hdom)
  unfold Spec.Gfx.checkSafety Spec.Gfx.safety
  rw [← e, h]; rfl

/-- … of the streaming reader, plain and serialised: the history is the lines with white space stripped -/
theorem safety_spec_stream (lines : List Bytes) (hdom : Spec.Gfx.inDomain (lines.map Bytes.trimSpace) = true) :
    Spec.Gfx.checkSafety (lines.map Bytes.trimSpace) (streamDelivs Stream.parse lines) = none ∧
    Spec.Gfx.checkSafety (lines.map Bytes.trimSpace) (serialDelivs Stream.parse lines) = none := by
  have e : readingsTrimmed lines = (lines.map Bytes.trimSpace).map Spec.Gfx.parseLine := map_readTrimmed lines
  have hd : Spec.Gfx.inDomainOn (readingsTrimmed lines) = true := by rw [e, ← inDomain_eq]; exact hdom
  have h1 := all_deliveries_legitimate_stream lines hd
  have h2 := all_deliveries_legitimate_serialised lines hd
  unfold Spec.Gfx.checkSafety Spec.Gfx.safety
  rw [← e, h1, h2]; exact ⟨rfl, rfl⟩

/-! ## encoder and clean runs in the Spec's terms -/

/-- the encoder's output passes the Spec's encoder check: only chunk lines; per id, in order, one clean run of the
image (chunks `0..n-1`, at most 170 payload bytes each, header exactly on chunk 0 declaring `n-1` and the image's
metadata, payloads concatenating to the image); nothing for an empty image -/
theorem encoder_lines_clean (g : Img) (ids : List Nat) (hr : InRange g) :
    Spec.Gfx.checkEnc (sentOf g) ids (encodeState g ids) = none :=
  checkEnc_encodeState g hr.ty ids

/-- the encoder's lines for one target id (a `uint32`), with unrelated lines woven in anywhere, are a clean run for
the Spec, and the Spec's clean-run check passes on what the batch call, the streaming reader and the serialised
reader deliver: exactly one image, equal to what was sent, at the run's last line, unaltered at the end -/
theorem clean_run_spec (g : Img) (id : Nat) (hid : id < 2 ^ 32) (hr : InRange g) (all : List Bytes)
    (w : Weave (chunkLines g (dec id)) all) :
    Spec.Gfx.cleanRuns (sentOf g) [id] all = true ∧
    Spec.Gfx.checkClean (sentOf g) [id] all (batchDelivs Batch.step all) = none ∧
    Spec.Gfx.cleanRuns (sentOf g) [id] (all.map Bytes.trimSpace) = true ∧
    Spec.Gfx.checkClean (sentOf g) [id] (all.map Bytes.trimSpace) (streamDelivs Stream.parse all) = none ∧
    Spec.Gfx.checkClean (sentOf g) [id] (all.map Bytes.trimSpace) (serialDelivs Stream.parse all) = none :=
  clean_run_spec_all g id hid hr all w

/-- **the encoder's whole output** (one complete transfer per target id, every id a `uint32`), with unrelated lines
woven in anywhere, from ANY state of the batch decoder's locals `s0`, ANY state `s` of the streaming reader and ANY
serialised reader state `wire` — in particular from every state reachable by an earlier history: the graphics lines
are, for the Spec, one clean run per id, and the Spec's clean-run check passes on the deliveries: exactly one image
per id, in order, equal to what was sent, at the last line of its run, unaltered at the end -/
theorem clean_run_spec_multi_any_state (g : Img) (ids : List Nat) (hids : ∀ id ∈ ids, id < 2 ^ 32) (hr : InRange g)
    (all : List Bytes) (w : Weave (encodeState g ids) all) (s0 : BState) (s : RState) (wire : Option Wire) :
    Spec.Gfx.cleanRuns (sentOf g) ids all = true ∧
    Spec.Gfx.checkClean (sentOf g) ids all
      (delivsOf (Batch.runFrom Batch.step s0 0 all).1.store (Batch.runFrom Batch.step s0 0 all).2) = none ∧
    Spec.Gfx.cleanRuns (sentOf g) ids (all.map Bytes.trimSpace) = true ∧
    Spec.Gfx.checkClean (sentOf g) ids (all.map Bytes.trimSpace)
      (delivsOfStream (Stream.runFrom Stream.parse s 0 all).2) = none ∧
    Spec.Gfx.checkClean (sentOf g) ids (all.map Bytes.trimSpace)
      (delivsOfStream (Serial.runFrom Stream.parse wire 0 all).2) = none :=
  clean_run_multi_any g ids hids hr all w s0 s wire

/-- … from the initial states, in the forms the driver evaluates: the batch call as its caller observes it (no
positions), the streaming reader and the serialised reader with the positions of the `Parse` calls -/
theorem clean_run_spec_multi (g : Img) (ids : List Nat) (hids : ∀ id ∈ ids, id < 2 ^ 32) (hr : InRange g)
    (all : List Bytes) (w : Weave (encodeState g ids) all) :
    Spec.Gfx.cleanRuns (sentOf g) ids all = true ∧
    Spec.Gfx.checkClean (sentOf g) ids all (batchObserved Batch.step all) = none ∧
    Spec.Gfx.cleanRuns (sentOf g) ids (all.map Bytes.trimSpace) = true ∧
    Spec.Gfx.checkClean (sentOf g) ids (all.map Bytes.trimSpace) (streamDelivs Stream.parse all) = none ∧
    Spec.Gfx.checkClean (sentOf g) ids (all.map Bytes.trimSpace) (serialDelivs Stream.parse all) = none := by
  obtain ⟨h1, h2, h3, h4, h5⟩ := clean_run_multi_any g ids hids hr all w {} {} none
  refine ⟨h1, ?_, h3, h4, h5⟩
  rw [batchObserved_eq]
  exact checkClean_erase _ _ _ _ h2

/-! ## several images in one encoder call -/

/-- one call of the encoder is its messages' states in order: the lines of `encodeMsgs` are the lines of every state
(`encodeState`: one transfer per target id), message after message, state after state — and, run by run, the transfers
of `runsOfImgs` (one per non-empty image and id) -/
theorem call_is_states_in_order (msgs : List (List (Img × List Nat))) :
    encodeMsgs msgs = msgs.flatten.flatMap (fun s => encodeState s.1 s.2) ∧
    encodeMsgs msgs = encodeRuns (runsOfImgs msgs.flatten) :=
  ⟨encodeMsgs_eq_flatten msgs, encodeMsgs_eq_runs msgs⟩

/-- the encoder's output for a whole call passes the Spec's whole-call encoder check: only chunk lines; per image in
message order and per id in order one clean run with THAT image's format, header metadata and bytes; nothing for an
empty image or an empty target list -/
theorem encoder_call_clean (msgs : List (List (Img × List Nat))) (hok : ImgsOK msgs.flatten) :
    Spec.Gfx.checkEncAll (sentImgs msgs.flatten) (encodeMsgs msgs) = none :=
  checkEncAll_encodeMsgs msgs hok

/-- **one call carrying several images** (any number of messages and states; formats, dimensions, offsets, sizes and
targets of every state its own; image fields and ids fit `uint32`), its whole output with unrelated lines woven in
anywhere, from ANY state of the batch decoder's locals, ANY reader state, ANY serialised reader state: the graphics
lines are, for the Spec, one clean run per image and id in message order, and the Spec's whole-call clean-run check
passes: exactly one delivery per run, in order, equal to the image of that run, at its last line, unaltered -/
theorem clean_run_spec_call_any_state (msgs : List (List (Img × List Nat))) (hok : ImgsOK msgs.flatten)
    (all : List Bytes) (w : Weave (encodeMsgs msgs) all) (s0 : BState) (s : RState) (wire : Option Wire) :
    Spec.Gfx.cleanRunsAll (sentImgs msgs.flatten) all = true ∧
    Spec.Gfx.checkCleanAll (sentImgs msgs.flatten) all
      (delivsOf (Batch.runFrom Batch.step s0 0 all).1.store (Batch.runFrom Batch.step s0 0 all).2) = none ∧
    Spec.Gfx.cleanRunsAll (sentImgs msgs.flatten) (all.map Bytes.trimSpace) = true ∧
    Spec.Gfx.checkCleanAll (sentImgs msgs.flatten) (all.map Bytes.trimSpace)
      (delivsOfStream (Stream.runFrom Stream.parse s 0 all).2) = none ∧
    Spec.Gfx.checkCleanAll (sentImgs msgs.flatten) (all.map Bytes.trimSpace)
      (delivsOfStream (Serial.runFrom Stream.parse wire 0 all).2) = none :=
  clean_msgs_any msgs hok all w s0 s wire

/-- … from the initial states, in the forms the driver evaluates on a `gfx.multi` record: the batch call as its caller
observes it (no positions), the streaming reader and the serialised reader with the positions of the `Parse` calls -/
theorem clean_run_spec_call (msgs : List (List (Img × List Nat))) (hok : ImgsOK msgs.flatten)
    (all : List Bytes) (w : Weave (encodeMsgs msgs) all) :
    Spec.Gfx.cleanRunsAll (sentImgs msgs.flatten) all = true ∧
    Spec.Gfx.checkCleanAll (sentImgs msgs.flatten) all (batchObserved Batch.step all) = none ∧
    Spec.Gfx.cleanRunsAll (sentImgs msgs.flatten) (all.map Bytes.trimSpace) = true ∧
    Spec.Gfx.checkCleanAll (sentImgs msgs.flatten) (all.map Bytes.trimSpace) (streamDelivs Stream.parse all) = none ∧
    Spec.Gfx.checkCleanAll (sentImgs msgs.flatten) (all.map Bytes.trimSpace) (serialDelivs Stream.parse all) = none := by
  obtain ⟨h1, h2, h3, h4, h5⟩ := clean_msgs_any msgs hok all w {} {} none
  refine ⟨h1, ?_, h3, h4, h5⟩
  rw [batchObserved_eq]
  exact checkCleanAll_erase _ _ _ h2

/-- the whole-call predicates generalise the single-image ones: on a call with one image they are equal to them, on
every history and every list of deliveries -/
theorem call_checks_generalise (g : Spec.Gfx.Sent) (ids : List Nat) (lines : List Bytes) (ds : List Spec.Gfx.Deliv) :
    Spec.Gfx.cleanRunsAll [(g, ids)] lines = Spec.Gfx.cleanRuns g ids lines ∧
    Spec.Gfx.checkEncAll [(g, ids)] lines = Spec.Gfx.checkEnc g ids lines ∧
    Spec.Gfx.checkCleanAll [(g, ids)] lines ds = Spec.Gfx.checkClean g ids lines ds :=
  ⟨cleanRunsAll_single g ids lines, checkEncAll_single g ids lines, checkCleanAll_single g ids lines ds⟩

namespace Call
/-- a 1-byte RGB image for id 5 and a 1-byte MONO image for id 6, both 8x8 -/
def rgb : Spec.Gfx.Sent := { fmt := 1, W := 8, H := 8, off := false, X := 0, Y := 0, data := [1] }
def mono : Spec.Gfx.Sent := { fmt := 0, W := 8, H := 8, off := false, X := 0, Y := 0, data := [2] }
/-- `HWCgRGB#5=0/0,8x8:AQ==` -/
def lRGB5 : Bytes := [72,87,67,103,82,71,66,35,53,61,48,47,48,44,56,120,56,58,65,81,61,61]
/-- `HWCg#6=0/0,8x8:Ag==` -/
def lMono6 : Bytes := [72,87,67,103,35,54,61,48,47,48,44,56,120,56,58,65,103,61,61]
/-- `HWCgRGB#6=0/0,8x8:Ag==`: the mono image's line with the prefix of the image before it -/
def lRGB6 : Bytes := [72,87,67,103,82,71,66,35,54,61,48,47,48,44,56,120,56,58,65,103,61,61]
def dRGB5 : Spec.Gfx.Deliv := ⟨none, { ids := [5], fmt := 1, W := 8, H := 8, off := false, X := 0, Y := 0, data := [1] }, [1]⟩
def dMono6 : Spec.Gfx.Deliv := ⟨none, { ids := [6], fmt := 0, W := 8, H := 8, off := false, X := 0, Y := 0, data := [2] }, [2]⟩
def dRGB6 : Spec.Gfx.Deliv := ⟨none, { ids := [6], fmt := 1, W := 8, H := 8, off := false, X := 0, Y := 0, data := [2] }, [2]⟩
/-- the same two images on the model side: one message with two states -/
def msgs : List (List (Img × List Nat)) :=
  [[({ ty := 1, W := 8, H := 8, data := [1] }, [5]), ({ ty := 0, W := 8, H := 8, data := [2] }, [6])]]
end Call

/-- the whole-call checks are per image: the right lines and deliveries pass; a MONO image whose line carries the prefix
of the RGB image before it (one line-prefix variable for the whole message) fails the encoder check, and a MONO image
delivered with format RGB fails the clean-run check -/
theorem carried_prefix_rejected :
    Spec.Gfx.checkEncAll [(Call.rgb, [5]), (Call.mono, [6])] [Call.lRGB5, Call.lMono6] = none ∧
    Spec.Gfx.checkCleanAll [(Call.rgb, [5]), (Call.mono, [6])] [Call.lRGB5, Call.lMono6] [Call.dRGB5, Call.dMono6] = none ∧
    Spec.Gfx.checkEncAll [(Call.rgb, [5]), (Call.mono, [6])] [Call.lRGB5, Call.lRGB6] = some "enc-not-clean-run" ∧
    Spec.Gfx.checkCleanAll [(Call.rgb, [5]), (Call.mono, [6])] [Call.lRGB5, Call.lMono6] [Call.dRGB5, Call.dRGB6]
      = some "wrong-image@1" := by decide +kernel

/-- hypotheses of `encoder_call_clean` / `clean_run_spec_call` on a real call (one message, an RGB state then a MONO state),
which does emit lines; and what the Spec is told was sent is the two images above -/
example : ImgsOK Call.msgs.flatten ∧ Weave (encodeMsgs Call.msgs) (encodeMsgs Call.msgs) ∧
    (runsOfImgs Call.msgs.flatten).length = 2 ∧
    sentImgs Call.msgs.flatten = [(Call.rgb, [5]), (Call.mono, [6])] := by
  refine ⟨?_, Weave.refl _, by decide, by decide⟩
  intro gi hgi
  simp only [Call.msgs, List.flatten_cons, List.flatten_nil, List.append_nil, List.mem_cons, List.not_mem_nil,
    or_false] at hgi
  rcases hgi with rfl | rfl
  · exact ⟨⟨by decide, by decide, by decide, by decide, by decide, by decide⟩, by decide⟩
  · exact ⟨⟨by decide, by decide, by decide, by decide, by decide, by decide⟩, by decide⟩

/-- a history is the earlier history followed by the rest run from the state the earlier history left behind, with
the position count continued — so `clean_run_spec_multi_any_state` applies to a clean run after ANY earlier history -/
theorem history_split (pre rest : List Bytes) :
    (Stream.run Stream.parse (pre ++ rest)).2 =
      (Stream.run Stream.parse pre).2 ++
        (Stream.runFrom Stream.parse (Stream.run Stream.parse pre).1 0 rest).2.map (fun e => (pre.length + e.1, e.2)) ∧
    (Batch.run Batch.step (pre ++ rest)).2 =
      (Batch.run Batch.step pre).2 ++
        (Batch.runFrom Batch.step (Batch.run Batch.step pre).1 0 rest).2.map
          (fun e => { e with pos := pre.length + e.pos }) := by
  constructor
  · unfold Stream.run
    rw [stream_append]
    simp only []
    have := stream_shift Stream.parse pre.length rest (Stream.runFrom Stream.parse {} 0 pre).1 0
    simp only [Nat.add_zero, Nat.zero_add] at this ⊢
    rw [this.2]
  · unfold Batch.run
    rw [runFrom_append]
    simp only []
    have := batch_shift Batch.step pre.length rest (Batch.runFrom Batch.step {} 0 pre).1 0
    simp only [Nat.add_zero, Nat.zero_add] at this ⊢
    rw [this.2]

/-! ## the domain of the safety theorems: what the code does with numbers beyond it -/

/-- a number of a chunk line as the code reads it (`su.Intval` = `strconv.Atoi` with the error dropped, and the
`uint32(…)` conversion for ids / dimensions / offsets): up to `2^63-1` the value itself (any number of digits and
leading zeros), a `uint32` field keeps it modulo `2^32`; from `2^63` on `Atoi` returns `MaxInt64`, which a `uint32`
field stores as `2^32-1`.  `Spec.Gfx.Chunk.small` (the domain of the safety theorems) is exactly: ids, dimensions
and offsets below `2^32`, chunk index and declared last index below `2^63` — where reading is the identity. -/
theorem numbers_as_the_code_reads_them (ds : Bytes) (hne : ds ≠ []) (hd : ds.all isDigit = true) :
    (natOfDigits ds < 2 ^ 63 → atoi ds = natOfDigits ds ∧ atou32 ds = natOfDigits ds % 2 ^ 32) ∧
    (natOfDigits ds < 2 ^ 32 → atou32 ds = natOfDigits ds) ∧
    (2 ^ 63 ≤ natOfDigits ds → atoi ds = 2 ^ 63 - 1 ∧ atou32 ds = 2 ^ 32 - 1) := by
  have hnum : atoiNat ds = natOfDigits ds := by
    unfold atoiNat
    cases ds with
    | nil => exact absurd rfl hne
    | cons _ _ => simp [hd]
  refine ⟨fun h => ⟨?_, atou32_wraps ds hne hd h⟩, fun h => ?_, fun h => ⟨atoi_clamps ds hne hd h, atou32_clamped ds hne hd h⟩⟩
  · rw [atoi_eq_atoiNat ds (by simp only [intB, decide_eq_true_eq]; exact h), hnum]
  · rw [atou32_eq_atoiNat ds (by simp only [u32B, decide_eq_true_eq]; exact h), hnum]

/-! ## concrete lines used below -/

namespace Pinned
/-- `HWCg#5=0/2,8x8:AQ==` -/
def c0of2 : Bytes := [72,87,67,103,35,53,61,48,47,50,44,56,120,56,58,65,81,61,61]
/-- `HWCg#5=0/1,8x8:AQ==` -/
def c0of1 : Bytes := [72,87,67,103,35,53,61,48,47,49,44,56,120,56,58,65,81,61,61]
/-- `HWCg#5=1:Ag==` -/
def c1 : Bytes := [72,87,67,103,35,53,61,49,58,65,103,61,61]
/-- `HWCg#5=2:Aw==` -/
def c2 : Bytes := [72,87,67,103,35,53,61,50,58,65,119,61,61]
/-- `HWCg#5=7:Bw==` -/
def c7 : Bytes := [72,87,67,103,35,53,61,55,58,66,119,61,61]
/-- `HWCg#5=1:Ag=` (payload is not valid base64) -/
def c1bad : Bytes := [72,87,67,103,35,53,61,49,58,65,103,61]
end Pinned
open Pinned

/-! ## non-vacuity -/

namespace Example
/-- a 3-byte mono image at offset (7,9) -/
def g : Img := { ty := 0, W := 8, H := 8, off := true, X := 7, Y := 9, data := [1, 2, 3] }
/-- target list `5,6` -/
def ids : Bytes := [53, 44, 54]
/-- `ping` -/
def ping : Bytes := [112, 105, 110, 103]
end Example

example : ValidIds Example.ids := ⟨by decide, by decide⟩
example : InRange Example.g := ⟨by decide, by decide, by decide, by decide, by decide, by decide⟩
example : Example.g.data ≠ [] := by decide
example : chunkLines Example.g Example.ids ≠ [] := by
  intro h
  have := congrArg List.length h
  rw [chunkLines_length] at this
  exact absurd this (by decide)
example : Unrelated Example.ping := ⟨by decide, by decide⟩
example : Weave (chunkLines Example.g Example.ids) (Example.ping :: chunkLines Example.g Example.ids ++ [Example.ping]) :=
  Weave.snoc_skip _ (Example.ping :: chunkLines Example.g Example.ids) _ ⟨by decide, by decide⟩
    (.skip _ _ _ ⟨by decide, by decide⟩ (Weave.refl _))
/-- the domain hypothesis of the safety theorems holds on real histories, and deliveries do occur in them
(`HWCg#5=0/1,8x8:AQ==`, `HWCg#5=1:Ag==`, then a stray chunk) -/
example : Spec.Gfx.inDomainOn (readings [Pinned.c0of1, Pinned.c1, Pinned.c2]) = true ∧
    (batchDelivs Batch.step [Pinned.c0of1, Pinned.c1, Pinned.c2]).length = 1 ∧
    Spec.Gfx.inDomainOn (readingsTrimmed [Pinned.c0of1, Pinned.c1, Pinned.c1]) = true ∧
    (streamDelivs Stream.parse [Pinned.c0of1, Pinned.c1, Pinned.c1]).length = 1 := by decide

/-- a delivery does occur in the heap model, and its object is read from the region of the call that returned it -/
example : (streamHeapDelivs [Pinned.c0of1, Pinned.c1, Pinned.c1]).map (fun d => (d.pos, d.final)) = [(some 1, [1, 2])] := by
  decide

/-- hypotheses of `clean_run_spec` / `encoder_lines_clean` on a real input: id 5, `ping` before and after the run -/
example : (5 : Nat) < 2 ^ 32 ∧ InRange Example.g ∧ chunkLines Example.g (dec 5) ≠ [] ∧
    Weave (chunkLines Example.g (dec 5)) (Example.ping :: chunkLines Example.g (dec 5) ++ [Example.ping]) := by
  refine ⟨by decide, ⟨by decide, by decide, by decide, by decide, by decide, by decide⟩, ?_, ?_⟩
  · intro h
    have := congrArg List.length h
    rw [chunkLines_length] at this
    exact absurd this (by decide)
  · exact Weave.snoc_skip _ (Example.ping :: chunkLines Example.g (dec 5)) _ ⟨by decide, by decide⟩
      (.skip _ _ _ ⟨by decide, by decide⟩ (Weave.refl _))
/-- `spec_reading_agrees` on a graphics line and on a non-graphics line -/
example : (Spec.Gfx.parseLine Pinned.c0of2).isSome = true ∧ Spec.Gfx.parseLine Example.ping = none := by decide
/-- the domain hypothesis of the `safety_spec_*` theorems on a real history with a delivery -/
example : Spec.Gfx.inDomain [Pinned.c0of1, Pinned.c1, Pinned.c2] = true ∧
    Spec.Gfx.inDomain ([Pinned.c0of1, Pinned.c1, Pinned.c1].map Bytes.trimSpace) = true := by decide

/-- the id bound of `clean_run_spec` is needed: the target id `2^32` does not fit the `uint32` the decoder stores
ids in, the image arrives for id `0`, and the Spec's clean-run check fails (here on the bare run, batch call) -/
theorem clean_run_spec_id_domain_counterexample :
    Spec.Gfx.checkClean (sentOf Example.g) [2 ^ 32] (chunkLines Example.g (dec (2 ^ 32)))
      (batchDelivs Batch.step (chunkLines Example.g (dec (2 ^ 32)))) ≠ none :=
  clean_run_spec_big_id Example.g (2 ^ 32) (Nat.le_refl _) (by decide)
    ⟨by decide, by decide, by decide, by decide, by decide, by decide⟩ (by decide) _ (Weave.refl _)

namespace Domain
/-- `HWCg#4294967301=0/0,8x8:AQ==` (target id 2^32+5) -/
def bigId : Bytes := [72,87,67,103,35,52,50,57,52,57,54,55,51,48,49,61,48,47,48,44,56,120,56,58,65,81,61,61]
/-- `HWCg#4294967295=0000000000000000000000000/0,4294967295x8:AQ==` (largest id and width, a 25-digit index 0) -/
def edge : Bytes := [72,87,67,103,35,52,50,57,52,57,54,55,50,57,53,61,48,48,48,48,48,48,48,48,48,48,48,48,48,48,48,48,
  48,48,48,48,48,48,48,48,48,47,48,44,52,50,57,52,57,54,55,50,57,53,120,56,58,65,81,61,61]
/-- `HWCg#5=0/0,8x8:AQ==`, `HWCg#5=0/0,8x8:Ag==`: two one-line transfers with payloads 01 and 02 -/
def one1 : Bytes := [72,87,67,103,35,53,61,48,47,48,44,56,120,56,58,65,81,61,61]
def one2 : Bytes := [72,87,67,103,35,53,61,48,47,48,44,56,120,56,58,65,103,61,61]
def img (b : UInt8) : Spec.Gfx.Img := { ids := [5], fmt := 0, W := 8, H := 8, off := false, X := 0, Y := 0, data := [b] }
end Domain

/-- the id bound of the domain is needed: a chunk line for target id `2^32+5` is outside `inDomain`; the decoder
delivers its image to id `5`, which the Spec rejects -/
theorem safety_id_domain_counterexample :
    Spec.Gfx.inDomain [Domain.bigId] = false ∧
    Spec.Gfx.safety [Domain.bigId] (batchObserved Batch.step [Domain.bigId]) = some (.corrupt 0) := by decide

/-- … and it is a bound on the *value*, not on the number of digits: the largest `uint32` id and width and a 25-digit
chunk index `0` are inside the domain, and the line does deliver -/
example : Spec.Gfx.inDomain [Domain.edge] = true ∧ (batchObserved Batch.step [Domain.edge]).length = 1 ∧
    (streamDelivs Stream.parse [Domain.edge]).length = 1 := by decide

/-- `safety_erase_pos` needs the deliveries in line order: listed out of order, two legitimate deliveries pass with
their positions but not without (the Spec assigns increasing positions to a position-less list) -/
theorem safety_erase_pos_needs_order :
    Spec.Gfx.safety [Domain.one1, Domain.one2]
      [⟨some 1, Domain.img 2, [2]⟩, ⟨some 0, Domain.img 1, [1]⟩] = none ∧
    Spec.Gfx.safety [Domain.one1, Domain.one2]
      ([⟨some 1, Domain.img 2, [2]⟩, ⟨some 0, Domain.img 1, [1]⟩].map erasePos) = some (.corrupt 1) := by decide

/-- hypotheses of `safety_erase_pos` / the shape of `batchObserved` on a real history: one delivery, position erased -/
example : PosSorted 0 (batchDelivs Batch.step [Pinned.c0of1, Pinned.c1, Pinned.c2]) ∧
    (batchObserved Batch.step [Pinned.c0of1, Pinned.c1, Pinned.c2]).map (·.pos) = [none] ∧
    (batchDelivs Batch.step [Pinned.c0of1, Pinned.c1, Pinned.c2]).map (·.pos) = [some 1] := by
  refine ⟨delivsOf_posSorted Batch.step _ _ {} 0, by decide, by decide⟩

/-- hypotheses of `clean_run_spec_multi` on a real input: ids 5 and 4294967295, `ping` between the two runs -/
example : (∀ id ∈ [5, 4294967295], id < 2 ^ 32) ∧ InRange Example.g ∧
    Weave (encodeState Example.g [5, 4294967295])
      (chunkLines Example.g (dec 5) ++ Example.ping :: chunkLines Example.g (dec 4294967295)) := by
  refine ⟨by decide, ⟨by decide, by decide, by decide, by decide, by decide, by decide⟩, ?_⟩
  have e : encodeState Example.g [5, 4294967295] =
      chunkLines Example.g (dec 5) ++ chunkLines Example.g (dec 4294967295) := by simp [encodeState]
  rw [e]
  have key : ∀ (a b : List Bytes), Weave b (Example.ping :: b) → Weave (a ++ b) (a ++ Example.ping :: b) := by
    intro a b hb
    induction a with
    | nil => exact hb
    | cons x xs ih => exact .take x _ _ ih
  exact key _ _ (.skip _ _ _ ⟨by decide, by decide⟩ (Weave.refl _))

/-! ## defects of the pinned tree (counterexamples, replayed on the code by corpus/C05/*.rec) -/


/-- (i) the counter is incremented before it is compared: after a wrong index the *next but one* index is accepted,
so `[chunk 0 of 0..2, chunk 7, chunk 2]` delivers chunk0 ++ chunk2. -/
theorem pinned_skip_counterexample :
    Batch.decode Batch.stepPinned [c0of2, c7, c2] = [.gfx [5] { ty := 0, W := 8, H := 8, data := [1, 3] } 1] ∧
    Spec.Gfx.safety [c0of2, c7, c2] (batchDelivs Batch.stepPinned [c0of2, c7, c2]) = some (.corrupt 0) := by
  decide

/-- (ii) the image object stays attached after the wrap-up: `[0 of 0..1, 1, 2]` appends chunk 2 to the image of the
message already created for chunk 1 (the caller receives 3 bytes for a 2-chunk transfer). -/
theorem pinned_alias_counterexample :
    Batch.decode Batch.stepPinned [c0of1, c1, c2] = [.gfx [5] { ty := 0, W := 8, H := 8, data := [1, 2, 3] } 1] ∧
    Spec.Gfx.safety [c0of1, c1, c2] (batchDelivs Batch.stepPinned [c0of1, c1, c2]) = some (.altered 0) := by
  decide

/-- (iii) the streaming reader keeps buffer, list and type after completion: `[0 of 0..1, 1, 1, 1]` delivers the
same transfer a second time at the fourth line. -/
theorem pinned_stream_duplicate_counterexample :
    (streamDelivs Stream.parsePinned [c0of1, c1, c1, c1]).length = 2 ∧
    Spec.Gfx.safety [c0of1, c1, c1, c1] (streamDelivs Stream.parsePinned [c0of1, c1, c1, c1]) = some (.duplicate 1) ∧
    Spec.Gfx.safety [c0of1, c1, c1, c1] (serialDelivs Stream.parsePinned [c0of1, c1, c1, c1]) = some (.duplicate 1) := by
  decide

/-- (iv) the base64 error is dropped: a damaged last chunk completes the transfer with the bytes decoded so far. -/
theorem pinned_damaged_payload_counterexample :
    Batch.decode Batch.stepPinned [c0of1, c1bad] = [.gfx [5] { ty := 0, W := 8, H := 8, data := [1] } 1] ∧
    Spec.Gfx.safety [c0of1, c1bad] (batchDelivs Batch.stepPinned [c0of1, c1bad]) = some (.corrupt 0) := by
  decide

/-- the repaired decoder on the same histories: nothing wrong is delivered -/
example : Batch.decode Batch.step [c0of2, c7, c2] = [] ∧
    Batch.decode Batch.step [c0of1, c1, c2] = [.gfx [5] { ty := 0, W := 8, H := 8, data := [1, 2] } 1] ∧
    (streamDelivs Stream.parse [c0of1, c1, c1, c1]).length = 1 ∧
    Batch.decode Batch.step [c0of1, c1bad] = [] := by decide

end RawPanelVerif.C05
