import RawPanelVerif.Gen.Consts
import RawPanelVerif.Lemmas.GfxCor
import RawPanelVerif.Lemmas.GfxSpecLift
/-!
# C05 — Chunked graphics reassemble exactly; no corrupt image is ever delivered

Property theorems only (helpers: `Lemmas/Gfx*.lean`; model: `Model/Gfx.lean`; property: `Spec/GfxSpec.lean`).
The theorems are about the model of the **repaired** decoder (`Batch.step`, `Stream.parse`; patch fix-C05.patch);
the behaviour of the pinned tree is kept as `…Pinned` and refuted by the `pinned_…_counterexample`s.

**Chunking** (encoder, for every image and target list text)
* `chunk_len_le_170`, `chunk_count`, `chunks_concat`, `chunk_lines_read_back`.

**Clean runs** (liveness; every non-empty image whose fields fit the message types, every valid target list)
* `clean_run_batch`               one call on the encoder's lines: exactly one message, carrying the image sent
* `clean_run_batch_any_state`     … from any state of the decoder's locals, at the position of the last line
* `clean_run_stream`              line by line from any reader state: nothing before, the image at the last line,
                                  the reader reset afterwards
* `clean_run_stream_serialised`   the same with `serialise`/`restore` between any two lines
* `clean_run_interleaved`         with unrelated non-graphics lines woven in anywhere: the graphics messages of the
                                  batch call are exactly the image; streaming (plain and serialised) returns graphics
                                  at exactly one call — the one on the last chunk line — and it is the image

**Safety** (every history of lines, no length bound, numbers of at most 9 digits)
* `all_deliveries_legitimate_batch | _stream | _serialised`   `Spec.Gfx.safetyOn … = none`: every delivery is
  legitimate where it was returned (chunks 0..N in order of one transfer started by its chunk 0, same target list and
  format, header metadata, no chunk 0 between), no transfer delivered twice, no delivered object altered
* `at_most_once_batch | _stream`  the transfers of the deliveries are pairwise different
* `never_altered`                 (no domain condition) bytes at the end of the call = bytes when the message was made

**The Spec's own reading of a line** (every byte string)
* `spec_reading_agrees`           `Spec.Gfx.parseLine l = readLine l`: the Spec's independently written line grammar and
  the decoder's own matcher (`readLine`, used by the safety theorems above) accept the same lines and read the same
  chunk from them (both accept exactly `Lemmas/GfxAgree.lean: Shape`). The driver still compares the two on every
  line of every record, and the matcher against the real regular expression by the `gfx.match` records.
* `safety_spec_batch | _stream`   the safety theorems restated with `Spec.Gfx.checkSafety` / `Spec.Gfx.inDomain` on
  the lines themselves (streaming: the lines with surrounding white space stripped), as the driver evaluates them

**Encoder and clean runs in the Spec's terms** (through `Spec.Gfx.parseLine`)
* `encoder_lines_clean`           `Spec.Gfx.checkEnc (sentOf g) ids (encodeState g ids) = none` for every image whose
  fields fit the message types and every id list (also the empty image / empty list)
* `clean_run_spec`                the encoder's lines for one 32-bit id, woven with unrelated lines: `cleanRuns` holds
  and `checkClean` passes for the batch call, the streaming reader and the serialised reader (delivery at the
  position of the run's last line). The id must fit `uint32` (the type of `HWCIDs`): for larger ids the decoder
  delivers to `id mod 2^32` and `checkClean` fails — `clean_run_spec_id_domain_counterexample`.
-/
namespace RawPanelVerif.C05
open RawPanelVerif RawPanelVerif.Gfx

/-! ## what the Spec gets to see of a model run -/

/-- one batch call: each graphics message with the image as it was when the message was created (ghost snapshot)
and the bytes its object holds when the call returns -/
def batchDelivs (step : BState → Bytes → BState × Option Out) (lines : List Bytes) : List Spec.Gfx.Deliv :=
  delivsOf (Batch.run step lines).1.store (Batch.run step lines).2

def streamDelivs (parse : RState → Bytes → RState × List Seen) (lines : List Bytes) : List Spec.Gfx.Deliv :=
  delivsOfStream (Stream.run parse lines).2

def serialDelivs (parse : RState → Bytes → RState × List Seen) (lines : List Bytes) : List Spec.Gfx.Deliv :=
  delivsOfStream (Serial.run parse lines).2

/-- the history as the Spec reads it: the chunk each line denotes -/
def readings (lines : List Bytes) : List (Option Spec.Gfx.Chunk) := lines.map readLine

/-- … as the streaming reader reads it (surrounding white space stripped) -/
def readingsTrimmed (lines : List Bytes) : List (Option Spec.Gfx.Chunk) := lines.map readTrimmed

/-! ## the pattern the matcher was written for is the one in the sources (regenerated on every run) -/

theorem pattern_is_current :
    Gen.regex_gfx_src = gfxPattern ∧ Gen.ASCIIreader_gfx_src = gfxPattern := by decide

/-- `base64.StdEncoding`: `DecodeString (EncodeToString b) = b, nil` -/
theorem base64_round_trip (b : Bytes) : B64.decodeGo (B64.encode b) = (b, true) := B64.decode_encode b

/-! ## chunking -/

/-- every line carries at most 170 payload bytes -/
theorem chunk_len_le_170 (g : Img) (i : Nat) : (segment g i).length ≤ 170 := segment_length_le g i

/-- the number of lines is ⌈len/170⌉: the least `n` with `len ≤ n·170`; an empty image gives no lines -/
theorem chunk_count (g : Img) (ids : Bytes) :
    (chunkLines g ids).length = totalLines g.data.length ∧
    (∀ n, totalLines g.data.length ≤ n ↔ g.data.length ≤ n * 170) ∧
    (g.data = [] → chunkLines g ids = []) := by
  refine ⟨chunkLines_length g ids, fun n => totalLines_is_ceil _ n, fun h => ?_⟩
  have : (chunkLines g ids).length = 0 := by
    rw [chunkLines_length, totalLines_eq_zero]; simp [h]
  exact List.eq_nil_of_length_eq_zero this

/-- the payloads, in order, concatenate to the image -/
theorem chunks_concat (g : Img) : (List.range (totalLines g.data.length)).flatMap (segment g) = g.data :=
  segments_concat g

/-- line `i` is read back by the decoder as: index `i`, the same format and target list, the payload `segment g i`
intact, and (chunk 0) the header declaring the last index and the image's metadata -/
theorem chunk_lines_read_back (g : Img) (ids : Bytes) (hv : ValidIds ids) (hr : InRange g) (i : Nat)
    (hi : i < totalLines g.data.length) :
    parseLine? (chunkLine g ids (totalLines g.data.length) i) =
      some (if i = 0 then
          { idx := 0, ty := g.ty, pfx := pfxOf g.ty, list := ids,
            max := ((totalLines g.data.length - 1 : Nat) : Int), img := headerImg g, data := segment g 0, ok := true }
        else
          { idx := (i : Int), ty := g.ty, pfx := pfxOf g.ty, list := ids, max := 2,
            img := { ty := g.ty, W := 64, H := 32 }, data := segment g i, ok := true }) := by
  have hl := totalLines_lt g hr
  by_cases h0 : i = 0
  · subst h0; simp only [if_true]; exact parseLine?_chunk_zero g ids hv hr _ hl
  · simp only [h0, if_false]; exact parseLine?_chunk_succ g ids hv hr _ i h0 (by omega)

/-! ## clean runs -/

theorem clean_run_batch (g : Img) (ids : Bytes) (hv : ValidIds ids) (hr : InRange g) (h : g.data ≠ []) :
    Batch.decode Batch.step (chunkLines g ids) = [.gfx (intExplode ids) (received g) 1] :=
  decode_chunkLines g ids hv hr h

theorem clean_run_batch_any_state (g : Img) (ids : Bytes) (hv : ValidIds ids) (hr : InRange g) (h : g.data ≠ [])
    (s0 : BState) (pos : Nat) :
    ∃ final, Batch.runFrom Batch.step s0 pos (chunkLines g ids) =
      (final, [⟨pos + (totalLines g.data.length - 1), .gfx (intExplode ids) s0.store.length, final.store⟩]) ∧
      final.store.getD s0.store.length {} = received g ∧ final.list = [] := by
  rw [chunkLines_cons g ids h]
  have hl := totalLines_lt g hr
  have hpos : 0 < totalLines g.data.length := by
    have h1 : g.data.length ≠ 0 := by simpa using h
    have h2 : totalLines g.data.length ≠ 0 := fun e => h1 ((totalLines_eq_zero g.data.length).mp e)
    omega
  have hrun := run_whole g.ty ids s0 (chunkLine g ids (totalLines g.data.length) 0)
    ((List.range' 1 (totalLines g.data.length - 1)).map (chunkLine g ids (totalLines g.data.length)))
    ((List.range' 1 (totalLines g.data.length - 1)).map (segment g))
    { idx := 0, ty := g.ty, pfx := pfxOf g.ty, list := ids, max := ((totalLines g.data.length - 1 : Nat) : Int),
      img := headerImg g, data := segment g 0, ok := true } pos
    (parseLine?_chunk_zero g ids hv hr _ hl) rfl rfl rfl rfl (by simp)
    (isRun_chunkLines g ids hv hr _ _ 1 (by omega) (by omega))
  simp only [List.length_map, List.length_range'] at hrun
  refine ⟨_, hrun, ?_, rfl⟩
  simp only [doneState, List.append_assoc]
  rw [List.getD_eq_getElem?_getD, List.getElem?_append_right (Nat.le_refl _)]
  simp only [Nat.sub_self, List.cons_append, List.nil_append, List.getElem?_cons_zero, Option.getD_some,
    headerImg, received]
  rw [segments_cons g h]

theorem clean_run_stream (g : Img) (ids : Bytes) (hv : ValidIds ids) (hr : InRange g) (h : g.data ≠ [])
    (s : RState) (pos : Nat) :
    Stream.runFrom Stream.parse s pos (chunkLines g ids) =
      (rdone (totalLines g.data.length),
        quiet pos (totalLines g.data.length - 1) ++
          [(pos + (totalLines g.data.length - 1), [.gfx (intExplode ids) (received g) 1])]) :=
  stream_chunkLines g ids hv hr h s pos

theorem clean_run_stream_serialised (g : Img) (ids : Bytes) (hv : ValidIds ids) (hr : InRange g) (h : g.data ≠ [])
    (w : Option Wire) (pos : Nat) :
    (Serial.runFrom Stream.parse w pos (chunkLines g ids)).2 =
      quiet pos (totalLines g.data.length - 1) ++
        [(pos + (totalLines g.data.length - 1), [.gfx (intExplode ids) (received g) 1])] ∧
    restore (Serial.runFrom Stream.parse w pos (chunkLines g ids)).1 = rdone (totalLines g.data.length) := by
  have hs := serial_stream Stream.parse (chunkLines g ids) w pos
  rw [stream_chunkLines g ids hv hr h (restore w) pos] at hs
  exact hs

theorem clean_run_interleaved (g : Img) (ids : Bytes) (hv : ValidIds ids) (hr : InRange g) (h : g.data ≠ [])
    (all : List Bytes) (w : Weave (chunkLines g ids) all) :
    (Batch.decode Batch.step all).filter Seen.isGfx = [.gfx (intExplode ids) (received g) 1] ∧
    hits (Stream.run Stream.parse all).2 all =
      [(chunkLine g ids (totalLines g.data.length) (totalLines g.data.length - 1),
        [.gfx (intExplode ids) (received g) 1])] ∧
    hits (Serial.run Stream.parse all).2 all =
      [(chunkLine g ids (totalLines g.data.length) (totalLines g.data.length - 1),
        [.gfx (intExplode ids) (received g) 1])] := by
  have hst : hits (Stream.run Stream.parse all).2 all =
      [(chunkLine g ids (totalLines g.data.length) (totalLines g.data.length - 1),
        [.gfx (intExplode ids) (received g) 1])] := by
    unfold Stream.run
    rw [stream_weave _ _ w {} {} 0 0 rfl]
    exact hits_chunkLines g ids hv hr h {} 0
  refine ⟨?_, hst, ?_⟩
  · rw [decode_weave _ _ w, clean_run_batch g ids hv hr h]; rfl
  · have := (serial_stream Stream.parse all none 0).1
    unfold Serial.run
    rw [this]
    exact hst

/-! ## safety, for every history -/

theorem all_deliveries_legitimate_batch (lines : List Bytes)
    (hdom : Spec.Gfx.inDomainOn (readings lines) = true) :
    Spec.Gfx.safetyOn (readings lines) (batchDelivs Batch.step lines) = none :=
  batch_safe lines hdom

theorem all_deliveries_legitimate_stream (lines : List Bytes)
    (hdom : Spec.Gfx.inDomainOn (readingsTrimmed lines) = true) :
    Spec.Gfx.safetyOn (readingsTrimmed lines) (streamDelivs Stream.parse lines) = none :=
  stream_safe lines hdom

theorem all_deliveries_legitimate_serialised (lines : List Bytes)
    (hdom : Spec.Gfx.inDomainOn (readingsTrimmed lines) = true) :
    Spec.Gfx.safetyOn (readingsTrimmed lines) (serialDelivs Stream.parse lines) = none :=
  serial_safe lines hdom

/-- every delivery of a batch call belongs to a transfer, and no two to the same -/
theorem at_most_once_batch (lines : List Bytes) (hdom : Spec.Gfx.inDomainOn (readings lines) = true) :
    ((batchDelivs Batch.step lines).map (transferOf (readings lines))).Nodup ∧
    ∀ d ∈ batchDelivs Batch.step lines, (transferOf (readings lines) d).isSome = true := by
  have hg := batch_good lines hdom lines 0 {} [] rfl ⟨by decide, (fun _ hu => nomatch hu), Or.inl rfl⟩
  have := good_transfers _ _ _ hg
  exact ⟨this.1, fun d hd => by
    obtain ⟨p0, h1, _⟩ := this.2 d hd
    rw [show transferOf (readings lines) d = some p0 from h1]; rfl⟩

theorem at_most_once_stream (lines : List Bytes) (hdom : Spec.Gfx.inDomainOn (readingsTrimmed lines) = true) :
    ((streamDelivs Stream.parse lines).map (transferOf (readingsTrimmed lines))).Nodup ∧
    ((serialDelivs Stream.parse lines).map (transferOf (readingsTrimmed lines))).Nodup := by
  have hg := stream_good lines hdom lines 0 {} [] rfl ⟨(fun _ hu => nomatch hu), Or.inl rfl⟩
  have h1 := (good_transfers _ _ _ hg).1
  refine ⟨h1, ?_⟩
  have := (serial_stream Stream.parse lines none 0).1
  unfold serialDelivs Serial.run
  rw [this]
  exact h1

/-- for every history whatsoever: the bytes a delivered image object holds when the call returns are the bytes it
held when its message was created (the repaired decoder never writes to a delivered object) -/
theorem never_altered (lines : List Bytes) :
    ∀ d ∈ batchDelivs Batch.step lines, d.final = d.img.data :=
  batch_never_altered lines

/-! ## the Spec's own reading of a line -/

/-- the Spec's line grammar and the decoder's matcher agree on every byte string -/
theorem spec_reading_agrees (l : Bytes) : Spec.Gfx.parseLine l = readLine l := parseLine_eq_readLine l

/-- safety of the batch call exactly as the driver evaluates it: `Spec.Gfx.checkSafety` on the lines -/
theorem safety_spec_batch (lines : List Bytes) (hdom : Spec.Gfx.inDomain lines = true) :
    Spec.Gfx.checkSafety lines (batchDelivs Batch.step lines) = none := by
  have e : readings lines = lines.map Spec.Gfx.parseLine := map_readLine lines
  have h := all_deliveries_legitimate_batch lines (by rw [e, ← inDomain_eq]; exact hdom)
  unfold Spec.Gfx.checkSafety Spec.Gfx.safety
  rw [← e, h]; rfl

/-- … of the streaming reader, plain and serialised: the history is the lines with white space stripped -/
theorem safety_spec_stream (lines : List Bytes) (hdom : Spec.Gfx.inDomain (lines.map Trim.trimSpace) = true) :
    Spec.Gfx.checkSafety (lines.map Trim.trimSpace) (streamDelivs Stream.parse lines) = none ∧
    Spec.Gfx.checkSafety (lines.map Trim.trimSpace) (serialDelivs Stream.parse lines) = none := by
  have e : readingsTrimmed lines = (lines.map Trim.trimSpace).map Spec.Gfx.parseLine := map_readTrimmed lines
  have hd : Spec.Gfx.inDomainOn (readingsTrimmed lines) = true := by rw [e, ← inDomain_eq]; exact hdom
  have h1 := all_deliveries_legitimate_stream lines hd
  have h2 := all_deliveries_legitimate_serialised lines hd
  unfold Spec.Gfx.checkSafety Spec.Gfx.safety
  rw [← e, h1, h2]; exact ⟨rfl, rfl⟩

/-! ## encoder and clean runs in the Spec's terms -/

/-- the encoder's output passes the Spec's encoder check: only chunk lines; per id, in order, one clean run of the
image (chunks `0..n-1`, at most 170 payload bytes each, header exactly on chunk 0 declaring `n-1` and the image's
metadata, payloads concatenating to the image); nothing for an empty image -/
theorem encoder_lines_clean (g : Img) (ids : List Nat) (hr : InRange g) :
    Spec.Gfx.checkEnc (sentOf g) ids (encodeState g ids) = none :=
  checkEnc_encodeState g hr.ty ids

/-- the encoder's lines for one target id (a `uint32`), with unrelated lines woven in anywhere, are a clean run for
the Spec, and the Spec's clean-run check passes on what the batch call, the streaming reader and the serialised
reader deliver: exactly one image, equal to what was sent, at the run's last line, unaltered at the end -/
theorem clean_run_spec (g : Img) (id : Nat) (hid : id < 2 ^ 32) (hr : InRange g) (all : List Bytes)
    (w : Weave (chunkLines g (dec id)) all) :
    Spec.Gfx.cleanRuns (sentOf g) [id] all = true ∧
    Spec.Gfx.checkClean (sentOf g) [id] all (batchDelivs Batch.step all) = none ∧
    Spec.Gfx.cleanRuns (sentOf g) [id] (all.map Trim.trimSpace) = true ∧
    Spec.Gfx.checkClean (sentOf g) [id] (all.map Trim.trimSpace) (streamDelivs Stream.parse all) = none ∧
    Spec.Gfx.checkClean (sentOf g) [id] (all.map Trim.trimSpace) (serialDelivs Stream.parse all) = none :=
  clean_run_spec_all g id hid hr all w

/-! ## concrete lines used below -/

namespace Pinned
/-- `HWCg#5=0/2,8x8:AQ==` -/
def c0of2 : Bytes := [72,87,67,103,35,53,61,48,47,50,44,56,120,56,58,65,81,61,61]
/-- `HWCg#5=0/1,8x8:AQ==` -/
def c0of1 : Bytes := [72,87,67,103,35,53,61,48,47,49,44,56,120,56,58,65,81,61,61]
/-- `HWCg#5=1:Ag==` -/
def c1 : Bytes := [72,87,67,103,35,53,61,49,58,65,103,61,61]
/-- `HWCg#5=2:Aw==` -/
def c2 : Bytes := [72,87,67,103,35,53,61,50,58,65,119,61,61]
/-- `HWCg#5=7:Bw==` -/
def c7 : Bytes := [72,87,67,103,35,53,61,55,58,66,119,61,61]
/-- `HWCg#5=1:Ag=` (payload is not valid base64) -/
def c1bad : Bytes := [72,87,67,103,35,53,61,49,58,65,103,61]
end Pinned
open Pinned

/-! ## non-vacuity -/

namespace Example
/-- a 3-byte mono image at offset (7,9) -/
def g : Img := { ty := 0, W := 8, H := 8, off := true, X := 7, Y := 9, data := [1, 2, 3] }
/-- target list `5,6` -/
def ids : Bytes := [53, 44, 54]
/-- `ping` -/
def ping : Bytes := [112, 105, 110, 103]
end Example

example : ValidIds Example.ids := ⟨by decide, by decide⟩
example : InRange Example.g := ⟨by decide, by decide, by decide, by decide, by decide, by decide⟩
example : Example.g.data ≠ [] := by decide
example : chunkLines Example.g Example.ids ≠ [] := by
  intro h
  have := congrArg List.length h
  rw [chunkLines_length] at this
  exact absurd this (by decide)
example : Unrelated Example.ping := ⟨by decide, by decide⟩
example : Weave (chunkLines Example.g Example.ids) (Example.ping :: chunkLines Example.g Example.ids ++ [Example.ping]) :=
  Weave.snoc_skip _ (Example.ping :: chunkLines Example.g Example.ids) _ ⟨by decide, by decide⟩
    (.skip _ _ _ ⟨by decide, by decide⟩ (Weave.refl _))
/-- the domain hypothesis of the safety theorems holds on real histories, and deliveries do occur in them
(`HWCg#5=0/1,8x8:AQ==`, `HWCg#5=1:Ag==`, then a stray chunk) -/
example : Spec.Gfx.inDomainOn (readings [Pinned.c0of1, Pinned.c1, Pinned.c2]) = true ∧
    (batchDelivs Batch.step [Pinned.c0of1, Pinned.c1, Pinned.c2]).length = 1 ∧
    Spec.Gfx.inDomainOn (readingsTrimmed [Pinned.c0of1, Pinned.c1, Pinned.c1]) = true ∧
    (streamDelivs Stream.parse [Pinned.c0of1, Pinned.c1, Pinned.c1]).length = 1 := by decide

/-- hypotheses of `clean_run_spec` / `encoder_lines_clean` on a real input: id 5, `ping` before and after the run -/
example : (5 : Nat) < 2 ^ 32 ∧ InRange Example.g ∧ chunkLines Example.g (dec 5) ≠ [] ∧
    Weave (chunkLines Example.g (dec 5)) (Example.ping :: chunkLines Example.g (dec 5) ++ [Example.ping]) := by
  refine ⟨by decide, ⟨by decide, by decide, by decide, by decide, by decide, by decide⟩, ?_, ?_⟩
  · intro h
    have := congrArg List.length h
    rw [chunkLines_length] at this
    exact absurd this (by decide)
  · exact Weave.snoc_skip _ (Example.ping :: chunkLines Example.g (dec 5)) _ ⟨by decide, by decide⟩
      (.skip _ _ _ ⟨by decide, by decide⟩ (Weave.refl _))
/-- `spec_reading_agrees` on a graphics line and on a non-graphics line -/
example : (Spec.Gfx.parseLine Pinned.c0of2).isSome = true ∧ Spec.Gfx.parseLine Example.ping = none := by decide
/-- the domain hypothesis of the `safety_spec_*` theorems on a real history with a delivery -/
example : Spec.Gfx.inDomain [Pinned.c0of1, Pinned.c1, Pinned.c2] = true ∧
    Spec.Gfx.inDomain ([Pinned.c0of1, Pinned.c1, Pinned.c1].map Trim.trimSpace) = true := by decide

/-- the id bound of `clean_run_spec` is needed: the target id `2^32` does not fit the `uint32` the decoder stores
ids in, the image arrives for id `0`, and the Spec's clean-run check fails (here on the bare run, batch call) -/
theorem clean_run_spec_id_domain_counterexample :
    Spec.Gfx.checkClean (sentOf Example.g) [2 ^ 32] (chunkLines Example.g (dec (2 ^ 32)))
      (batchDelivs Batch.step (chunkLines Example.g (dec (2 ^ 32)))) ≠ none :=
  clean_run_spec_big_id Example.g (2 ^ 32) (Nat.le_refl _) (by decide)
    ⟨by decide, by decide, by decide, by decide, by decide, by decide⟩ (by decide) _ (Weave.refl _)

/-! ## defects of the pinned tree (counterexamples, replayed on the code by corpus/C05/*.rec) -/


/-- (i) the counter is incremented before it is compared: after a wrong index the *next but one* index is accepted,
so `[chunk 0 of 0..2, chunk 7, chunk 2]` delivers chunk0 ++ chunk2. -/
theorem pinned_skip_counterexample :
    Batch.decode Batch.stepPinned [c0of2, c7, c2] = [.gfx [5] { ty := 0, W := 8, H := 8, data := [1, 3] } 1] ∧
    Spec.Gfx.safety [c0of2, c7, c2] (batchDelivs Batch.stepPinned [c0of2, c7, c2]) = some (.corrupt 0) := by
  decide

/-- (ii) the image object stays attached after the wrap-up: `[0 of 0..1, 1, 2]` appends chunk 2 to the image of the
message already created for chunk 1 (the caller receives 3 bytes for a 2-chunk transfer). -/
theorem pinned_alias_counterexample :
    Batch.decode Batch.stepPinned [c0of1, c1, c2] = [.gfx [5] { ty := 0, W := 8, H := 8, data := [1, 2, 3] } 1] ∧
    Spec.Gfx.safety [c0of1, c1, c2] (batchDelivs Batch.stepPinned [c0of1, c1, c2]) = some (.altered 0) := by
  decide

/-- (iii) the streaming reader keeps buffer, list and type after completion: `[0 of 0..1, 1, 1, 1]` delivers the
same transfer a second time at the fourth line. -/
theorem pinned_stream_duplicate_counterexample :
    (streamDelivs Stream.parsePinned [c0of1, c1, c1, c1]).length = 2 ∧
    Spec.Gfx.safety [c0of1, c1, c1, c1] (streamDelivs Stream.parsePinned [c0of1, c1, c1, c1]) = some (.duplicate 1) ∧
    Spec.Gfx.safety [c0of1, c1, c1, c1] (serialDelivs Stream.parsePinned [c0of1, c1, c1, c1]) = some (.duplicate 1) := by
  decide

/-- (iv) the base64 error is dropped: a damaged last chunk completes the transfer with the bytes decoded so far. -/
theorem pinned_damaged_payload_counterexample :
    Batch.decode Batch.stepPinned [c0of1, c1bad] = [.gfx [5] { ty := 0, W := 8, H := 8, data := [1] } 1] ∧
    Spec.Gfx.safety [c0of1, c1bad] (batchDelivs Batch.stepPinned [c0of1, c1bad]) = some (.corrupt 0) := by
  decide

/-- the repaired decoder on the same histories: nothing wrong is delivered -/
example : Batch.decode Batch.step [c0of2, c7, c2] = [] ∧
    Batch.decode Batch.step [c0of1, c1, c2] = [.gfx [5] { ty := 0, W := 8, H := 8, data := [1, 2] } 1] ∧
    (streamDelivs Stream.parse [c0of1, c1, c1, c1]).length = 1 ∧
    Batch.decode Batch.step [c0of1, c1bad] = [] := by decide

end RawPanelVerif.C05
