import RawPanelVerif.Lemmas.GorwpBridge
/-!
# C19 — the high-level client `gorwp`: property theorems

(a) the pure dispatch / state functions (`Model/Gorwp.lean`, mirroring `procesMessagesFromPanel`) against the
    independent specification `Spec/GorwpSpec.lean`, for every binding set and every history;
(b) the LTS of reader + select loop with bounded queues: positive theorems for the repaired variants, `decide`
    counterexamples for the pinned code.
-/
namespace RawPanelVerif.C19
open RawPanelVerif.Gorwp RawPanelVerif.Spec.Gorwp RawPanelVerif.GorwpBridge

/-! ## (a) dispatch -/

theorem map_ite_single {α β} (f : α → β) (c : Prop) [Decidable c] (x : α) :
    (if c then [x] else []).map f = if c then [f x] else [] := by
  split <;> rfl

theorem expectedFor_eq (b : Bindings) (e : Event) :
    (dispatchEvent b e).map toSInv = expectedFor (toSBindings b) (toSEvent e) := by
  obtain ⟨id, bin, pul, ab, sp⟩ := e
  unfold dispatchEvent expectedFor
  simp only [List.map_append, toSBindings, toSEvent, map_ite_single]
  cases bin <;> cases pul <;> cases ab <;> cases sp <;>
    simp [map_ite_single, toSInv, toSEvent] <;> rfl

theorem sameMultiset_refl (l : List SInv) : sameMultiset l l = true := by
  simp [sameMultiset]

theorem checkLog_group (sb : SBindings) (e : SEvent) (es : List SEvent) (rest : List SInv) :
    checkLog sb (e :: es) (expectedFor sb e ++ rest) = checkLog sb es rest := by
  simp only [checkLog]
  have ht : (expectedFor sb e ++ rest).take (expectedFor sb e).length = expectedFor sb e := by simp
  have hd : (expectedFor sb e ++ rest).drop (expectedFor sb e).length = rest := by simp
  rw [ht, hd]
  simp [sameMultiset_refl]

theorem checkLog_events (b : Bindings) : ∀ evs : List Event,
    checkLog (toSBindings b) (evs.map toSEvent) ((evs.flatMap (dispatchEvent b)).map toSInv) = .ok
  | [] => by simp [checkLog]
  | e :: es => by
    simp only [List.map_cons, List.flatMap_cons, List.map_append]
    rw [expectedFor_eq, checkLog_group]
    exact checkLog_events b es

theorem eventsOf_append (a b : List Item) : eventsOf (a ++ b) = eventsOf a ++ eventsOf b := by
  simp [eventsOf]

theorem eventsOf_eventItems : ∀ es : List Event, eventsOf (eventItems es) = es.map toSEvent
  | [] => rfl
  | e :: r => by
    have ih := eventsOf_eventItems r
    unfold eventItems eventsOf at ih ⊢
    simp only [List.map_cons, List.filterMap_cons]
    rw [ih]

theorem eventsOf_toItems (m : OutMsg) : eventsOf (toItems m) = m.events.map toSEvent := by
  unfold toItems
  simp only [eventsOf_append]
  have h1 : eventsOf (flowItems m.flow) = [] := by unfold flowItems; split <;> simp [eventsOf]
  have h2 : eventsOf (infoItems m.info) = [] := by cases m.info <;> simp [eventsOf, infoItems]
  have h3 : eventsOf (availItems m.avail) = [] := by cases m.avail <;> simp [eventsOf, availItems]
  have h4 : eventsOf (topoItems m.topo) = [] := by cases m.topo <;> simp [eventsOf, topoItems]
  have h5 := eventsOf_eventItems m.events
  rw [h1, h2, h3, h4, h5]; simp

theorem eventsOf_histItems : ∀ h : List OutMsg, eventsOf (histItems h) = (h.flatMap (·.events)).map toSEvent
  | [] => by simp [histItems, eventsOf]
  | m :: r => by
    have ih := eventsOf_histItems r
    unfold histItems at ih ⊢
    simp only [List.flatMap_cons, eventsOf_append, List.map_append]
    rw [ih, eventsOf_toItems]

theorem dispatch_flat (b : Bindings) : ∀ h : List OutMsg, dispatch b h = (h.flatMap (·.events)).flatMap (dispatchEvent b)
  | [] => by simp [dispatch]
  | m :: r => by
    have ih := dispatch_flat b r
    unfold dispatch at ih ⊢
    simp only [List.flatMap_cons, List.flatMap_append]
    rw [ih]; rfl

/-- for every binding set and every history: the invocation log is exactly, event by event in panel order, one
invocation per bound handler whose kind matches a component of the event, with the event's id and arguments -/
theorem dispatch_exactly_once_in_order (b : Bindings) (h : List OutMsg) :
    checkLog (toSBindings b) (eventsOf (histItems h)) ((dispatch b h).map toSInv) = .ok := by
  rw [eventsOf_histItems, dispatch_flat]
  exact checkLog_events b _

def Effect.inv? : Effect → Option Invocation
  | .invoke i => some i
  | .sendAck => none

def ackCount (es : List Effect) : Nat := (es.filter (· = .sendAck)).length

theorem ackCount_append (a b : List Effect) : ackCount (a ++ b) = ackCount a + ackCount b := by
  simp [ackCount]

/-- nothing else is an effect of a message: its effects are the ack (iff it is a ping) followed by the invocations -/
theorem effects_are_ack_then_invocations (b : Bindings) (m : OutMsg) :
    (effects b m).filterMap Effect.inv? = dispatchMsg b m
    ∧ ackCount (effects b m) = (if m.flow = .ping then 1 else 0) := by
  unfold effects
  have hsome : (Effect.inv? ∘ Effect.invoke) = some := by funext i; rfl
  have hno : ackCount ((dispatchMsg b m).map Effect.invoke) = 0 := by
    simp [ackCount, List.filter_map]
  constructor
  · split <;> simp [List.filterMap_map, hsome, List.filterMap_cons, Effect.inv?]
  · rw [ackCount_append, hno]; split <;> simp [ackCount]

theorem pingCount_append (a b : List Item) : pingCount (a ++ b) = pingCount a + pingCount b := by
  simp [pingCount]

theorem pingCount_toItems (m : OutMsg) : pingCount (toItems m) = if m.flow = .ping then 1 else 0 := by
  unfold toItems
  simp only [pingCount_append]
  have h2 : pingCount (infoItems m.info) = 0 := by cases m.info <;> simp [pingCount, infoItems]
  have h3 : pingCount (availItems m.avail) = 0 := by cases m.avail <;> simp [pingCount, availItems]
  have h4 : pingCount (topoItems m.topo) = 0 := by cases m.topo <;> simp [pingCount, topoItems]
  have h5 : pingCount (eventItems m.events) = 0 := by simp [pingCount, eventItems, List.filter_map]
  rw [h2, h3, h4, h5]
  unfold flowItems
  split <;> simp [pingCount]

/-- a panel ping is answered with exactly one acknowledge: over any history the number of acks sent equals the
number of pings received -/
theorem ping_gets_one_ack (b : Bindings) : ∀ h : List OutMsg,
    ackCount (h.flatMap (effects b)) = pingCount (histItems h)
  | [] => by simp [histItems, pingCount, ackCount]
  | m :: r => by
    have ih := ping_gets_one_ack b r
    unfold histItems at ih ⊢
    simp only [List.flatMap_cons, ackCount_append, pingCount_append]
    rw [ih, (effects_are_ack_then_invocations b m).2, pingCount_toItems]

/-! ### state -/

theorem lastNonEmpty_append (init : List Nat) : ∀ (a b : List (List Nat)),
    lastNonEmpty init (a ++ b) = lastNonEmpty (lastNonEmpty init a) b
  | [], b => rfl
  | v :: r, b => by simp only [List.cons_append, lastNonEmpty]; exact lastNonEmpty_append _ r b

theorem finalState_cons (s : PState) (m : OutMsg) (r : List OutMsg) :
    finalState s (m :: r) = finalState (applyMsg s m) r := rfl

theorem histItems_cons (m : OutMsg) (r : List OutMsg) : histItems (m :: r) = toItems m ++ histItems r := by
  simp [histItems]

theorem models_append (a b : List Item) : models (a ++ b) = models a ++ models b := by simp [models]

theorem models_toItems (m : OutMsg) : models (toItems m) = (match m.info with | some i => [i.model] | none => []) := by
  unfold toItems
  simp only [models_append]
  have h1 : models (flowItems m.flow) = [] := by unfold flowItems; split <;> simp [models]
  have h3 : models (availItems m.avail) = [] := by cases m.avail <;> simp [models, availItems]
  have h5 : models (eventItems m.events) = [] := by simp [models, eventItems, List.filterMap_map]
  have h4 : models (topoItems m.topo) = [] := by cases m.topo <;> simp [models, topoItems]
  rw [h1, h3, h4, h5]
  cases m.info <;> simp [models, infoItems]

theorem applyMsg_model (s : PState) (m : OutMsg) :
    (applyMsg s m).model = lastNonEmpty s.model (models (toItems m)) := by
  rw [models_toItems]
  unfold applyMsg
  cases m.info <;> cases m.avail <;> cases m.topo <;> simp [lastNonEmpty, setIfNonEmpty]

theorem finalState_model : ∀ (h : List OutMsg) (s : PState),
    (finalState s h).model = lastNonEmpty s.model (models (histItems h))
  | [], s => rfl
  | m :: r, s => by
    rw [finalState_cons, histItems_cons, models_append, lastNonEmpty_append, finalState_model r, applyMsg_model]

theorem serials_append (a b : List Item) : serials (a ++ b) = serials a ++ serials b := by simp [serials]

theorem serials_toItems (m : OutMsg) : serials (toItems m) = (match m.info with | some i => [i.serial] | none => []) := by
  unfold toItems
  simp only [serials_append]
  have h1 : serials (flowItems m.flow) = [] := by unfold flowItems; split <;> simp [serials]
  have h3 : serials (availItems m.avail) = [] := by cases m.avail <;> simp [serials, availItems]
  have h5 : serials (eventItems m.events) = [] := by simp [serials, eventItems, List.filterMap_map]
  have h4 : serials (topoItems m.topo) = [] := by cases m.topo <;> simp [serials, topoItems]
  rw [h1, h3, h4, h5]
  cases m.info <;> simp [serials, infoItems]

theorem applyMsg_serial (s : PState) (m : OutMsg) :
    (applyMsg s m).serial = lastNonEmpty s.serial (serials (toItems m)) := by
  rw [serials_toItems]
  unfold applyMsg
  cases m.info <;> cases m.avail <;> cases m.topo <;> simp [lastNonEmpty, setIfNonEmpty]

theorem finalState_serial : ∀ (h : List OutMsg) (s : PState),
    (finalState s h).serial = lastNonEmpty s.serial (serials (histItems h))
  | [], s => rfl
  | m :: r, s => by
    rw [finalState_cons, histItems_cons, serials_append, lastNonEmpty_append, finalState_serial r, applyMsg_serial]

theorem names_append (a b : List Item) : names (a ++ b) = names a ++ names b := by simp [names]

theorem names_toItems (m : OutMsg) : names (toItems m) = (match m.info with | some i => [i.name] | none => []) := by
  unfold toItems
  simp only [names_append]
  have h1 : names (flowItems m.flow) = [] := by unfold flowItems; split <;> simp [names]
  have h3 : names (availItems m.avail) = [] := by cases m.avail <;> simp [names, availItems]
  have h5 : names (eventItems m.events) = [] := by simp [names, eventItems, List.filterMap_map]
  have h4 : names (topoItems m.topo) = [] := by cases m.topo <;> simp [names, topoItems]
  rw [h1, h3, h4, h5]
  cases m.info <;> simp [names, infoItems]

theorem applyMsg_name (s : PState) (m : OutMsg) :
    (applyMsg s m).name = lastNonEmpty s.name (names (toItems m)) := by
  rw [names_toItems]
  unfold applyMsg
  cases m.info <;> cases m.avail <;> cases m.topo <;> simp [lastNonEmpty, setIfNonEmpty]

theorem finalState_name : ∀ (h : List OutMsg) (s : PState),
    (finalState s h).name = lastNonEmpty s.name (names (histItems h))
  | [], s => rfl
  | m :: r, s => by
    rw [finalState_cons, histItems_cons, names_append, lastNonEmpty_append, finalState_name r, applyMsg_name]

theorem jsons_append (a b : List Item) : jsons (a ++ b) = jsons a ++ jsons b := by simp [jsons]

theorem jsons_toItems (m : OutMsg) : jsons (toItems m) = (match m.topo with | some t => [t.json] | none => []) := by
  unfold toItems
  simp only [jsons_append]
  have h1 : jsons (flowItems m.flow) = [] := by unfold flowItems; split <;> simp [jsons]
  have h3 : jsons (availItems m.avail) = [] := by cases m.avail <;> simp [jsons, availItems]
  have h5 : jsons (eventItems m.events) = [] := by simp [jsons, eventItems, List.filterMap_map]
  have h2 : jsons (infoItems m.info) = [] := by cases m.info <;> simp [jsons, infoItems]
  rw [h1, h2, h3, h5]
  cases m.topo <;> simp [jsons, topoItems]

theorem applyMsg_topoJSON (s : PState) (m : OutMsg) :
    (applyMsg s m).topoJSON = lastNonEmpty s.topoJSON (jsons (toItems m)) := by
  rw [jsons_toItems]
  unfold applyMsg
  cases m.info <;> cases m.avail <;> cases m.topo <;> simp [lastNonEmpty, setIfNonEmpty]

theorem finalState_topoJSON : ∀ (h : List OutMsg) (s : PState),
    (finalState s h).topoJSON = lastNonEmpty s.topoJSON (jsons (histItems h))
  | [], s => rfl
  | m :: r, s => by
    rw [finalState_cons, histItems_cons, jsons_append, lastNonEmpty_append, finalState_topoJSON r, applyMsg_topoJSON]

theorem applyMsg_topoSrc (s : PState) (m : OutMsg) :
    (applyMsg s m).topoSrc = lastNonEmpty s.topoSrc (jsons (toItems m)) := by
  rw [jsons_toItems]
  unfold applyMsg
  cases m.info <;> cases m.avail <;> cases m.topo <;> simp [lastNonEmpty, setIfNonEmpty]

theorem finalState_topoSrc : ∀ (h : List OutMsg) (s : PState),
    (finalState s h).topoSrc = lastNonEmpty s.topoSrc (jsons (histItems h))
  | [], s => rfl
  | m :: r, s => by
    rw [finalState_cons, histItems_cons, jsons_append, lastNonEmpty_append, finalState_topoSrc r, applyMsg_topoSrc]

theorem svgs_append (a b : List Item) : svgs (a ++ b) = svgs a ++ svgs b := by simp [svgs]

theorem svgs_toItems (m : OutMsg) : svgs (toItems m) = (match m.topo with | some t => [t.svg] | none => []) := by
  unfold toItems
  simp only [svgs_append]
  have h1 : svgs (flowItems m.flow) = [] := by unfold flowItems; split <;> simp [svgs]
  have h3 : svgs (availItems m.avail) = [] := by cases m.avail <;> simp [svgs, availItems]
  have h5 : svgs (eventItems m.events) = [] := by simp [svgs, eventItems, List.filterMap_map]
  have h2 : svgs (infoItems m.info) = [] := by cases m.info <;> simp [svgs, infoItems]
  rw [h1, h2, h3, h5]
  cases m.topo <;> simp [svgs, topoItems]

theorem applyMsg_topoSVG (s : PState) (m : OutMsg) :
    (applyMsg s m).topoSVG = lastNonEmpty s.topoSVG (svgs (toItems m)) := by
  rw [svgs_toItems]
  unfold applyMsg
  cases m.info <;> cases m.avail <;> cases m.topo <;> simp [lastNonEmpty, setIfNonEmpty]

theorem finalState_topoSVG : ∀ (h : List OutMsg) (s : PState),
    (finalState s h).topoSVG = lastNonEmpty s.topoSVG (svgs (histItems h))
  | [], s => rfl
  | m :: r, s => by
    rw [finalState_cons, histItems_cons, svgs_append, lastNonEmpty_append, finalState_topoSVG r, applyMsg_topoSVG]

/-- identity and topology getters return the latest non-empty value received -/
theorem getters_return_latest (h : List OutMsg) :
    let st := finalState {} h
    let items := histItems h
    st.model = lastNonEmpty [] (models items) ∧ st.serial = lastNonEmpty [] (serials items)
    ∧ st.name = lastNonEmpty [] (names items) ∧ st.topoJSON = lastNonEmpty [] (jsons items)
    ∧ st.topoSVG = lastNonEmpty [] (svgs items) :=
  ⟨finalState_model h {}, finalState_serial h {}, finalState_name h {}, finalState_topoJSON h {}, finalState_topoSVG h {}⟩

/-- the parsed topology handed out by `GetTopology` is built from the latest non-empty topology JSON received and from
nothing else (a fresh object per update: no remains of earlier topologies) -/
theorem topology_getter_from_latest_json (h : List OutMsg) :
    (finalState {} h).topoSrc = lastNonEmpty [] (jsons (histItems h))
    ∧ (finalState {} h).topoSrc = (finalState {} h).topoJSON :=
  ⟨finalState_topoSrc h {}, by rw [finalState_topoSrc, finalState_topoJSON]⟩

/-! availability map: the latest value per key -/

theorem foldl_cons_eq (kv base : List (Nat × Nat)) : kv.foldl (fun a e => e :: a) base = kv.reverse ++ base := by
  induction kv generalizing base with
  | nil => rfl
  | cons x r ih => simp [List.foldl_cons, ih]

theorem lastValue_eq_find (k : Nat) : ∀ l : List (Nat × Nat),
    lastValue k l = (l.reverse.find? (fun e => e.1 = k)).map (·.2)
  | [] => rfl
  | (k', v) :: r => by
    have ih := lastValue_eq_find k r
    simp only [lastValue, List.reverse_cons, List.find?_append]
    rw [ih]
    cases hf : List.find? (fun e => decide (e.1 = k)) r.reverse with
    | some x => simp
    | none =>
      by_cases hk : k' = k <;> simp [hk]

theorem availEntries_append (a b : List Item) : availEntries (a ++ b) = availEntries a ++ availEntries b := by
  simp [availEntries]

theorem availEntries_toItems (m : OutMsg) : availEntries (toItems m) = (match m.avail with | some kv => kv | none => []) := by
  unfold toItems
  simp only [availEntries_append]
  have h1 : availEntries (flowItems m.flow) = [] := by unfold flowItems; split <;> simp [availEntries]
  have h2 : availEntries (infoItems m.info) = [] := by cases m.info <;> simp [availEntries, infoItems]
  have h4 : availEntries (topoItems m.topo) = [] := by cases m.topo <;> simp [availEntries, topoItems]
  have h5 : availEntries (eventItems m.events) = [] := by simp [availEntries, eventItems]
  rw [h1, h2, h4, h5]
  cases m.avail <;> simp [availEntries, availItems]

theorem applyMsg_avail (s : PState) (m : OutMsg) :
    (applyMsg s m).avail = (availEntries (toItems m)).reverse ++ s.avail := by
  rw [availEntries_toItems]
  unfold applyMsg
  cases m.info <;> cases m.avail <;> cases m.topo <;> simp [foldl_cons_eq]

theorem finalState_avail : ∀ (h : List OutMsg) (s : PState),
    (finalState s h).avail = (availEntries (histItems h)).reverse ++ s.avail
  | [], s => by simp [finalState, histItems, availEntries]
  | m :: r, s => by
    rw [finalState_cons, histItems_cons, availEntries_append, finalState_avail r, applyMsg_avail]
    simp

/-- the availability map holds, for every key, the value most recently received (and nothing for other keys) -/
theorem availability_is_latest (h : List OutMsg) (k : Nat) :
    lookupAvail (finalState {} h) k = lastValue k (availEntries (histItems h)) := by
  unfold lookupAvail
  rw [finalState_avail, lastValue_eq_find]
  simp

theorem lastNonEmpty_eq_nil (init : List Nat) : ∀ l : List (List Nat),
    lastNonEmpty init l = [] ↔ init = [] ∧ ∀ v ∈ l, v = []
  | [] => by simp [lastNonEmpty]
  | v :: r => by
    rw [lastNonEmpty, lastNonEmpty_eq_nil _ r]
    by_cases hv : v = [] <;> simp [hv]

/-- `IsInitialized` holds exactly when model, serial, topology JSON and SVG have all arrived (non-empty) -/
theorem init_iff_four_items (h : List OutMsg) :
    isInitialized (finalState {} h) = allFourArrived (histItems h) := by
  rw [Bool.eq_iff_iff]
  unfold isInitialized allFourArrived
  rw [finalState_model, finalState_serial, finalState_topoJSON, finalState_topoSVG]
  simp [lastNonEmpty_eq_nil]

/-! ## (b) reader + select loop with bounded queues -/

/-- what has been dispatched, what is queued and what the reader may still accept are together exactly the messages
before the first broken frame -/
def QInv (stream0 : List Frame) (s : QSt) : Prop :=
  s.dispatched ++ s.fromPanel.map (·.1) ++ (if s.readerRunning then goodPrefix s.stream else []) = goodPrefix stream0

theorem qinv_init (stream0 : List Frame) : QInv stream0 (qinit stream0) := by simp [QInv, qinit]

theorem qinv_step (dec : Bool) (stream0 : List Frame) (s s' : QSt) (l : QLbl) (hi : QInv stream0 s)
    (hs : qstep true dec s l = some s') : QInv stream0 s' := by
  unfold QInv at *
  cases l with
  | readerFrame =>
    simp only [qstep] at hs
    split at hs
    · rename_i hr
      split at hs
      · simp at hs
      · rename_i id k rest hst
        split at hs
        · simp at hs; subst hs
          simp [hr, hst, goodPrefix] at hi ⊢; exact hi
        · simp at hs
      · rename_i rest hst
        simp at hs; subst hs
        simp [hr, hst, goodPrefix] at hi ⊢; exact hi
      · rename_i rest hst
        simp at hs; subst hs
        simp [hr, hst, goodPrefix] at hi ⊢; exact hi
    · simp at hs
  | loopTakeFrom =>
    simp only [qstep] at hs
    split at hs
    · split at hs
      · rename_i id k rest hfp
        simp at hs; subst hs
        simp [hfp] at hi ⊢; exact hi
      · simp at hs
    · simp at hs
  | loopSend =>
    simp only [qstep] at hs
    split at hs
    · split at hs
      · simp at hs; subst hs; exact hi
      · simp at hs
    · simp at hs
  | loopDrain =>
    simp only [qstep] at hs
    split at hs
    · simp at hs
    · split at hs
      · simp at hs; subst hs; exact hi
      · simp at hs
  | tick =>
    simp only [qstep] at hs
    split at hs
    · simp at hs; subst hs; exact hi
    · split at hs
      · simp at hs; subst hs; exact hi
      · simp at hs
  | writerDrain =>
    simp only [qstep] at hs
    split at hs
    · simp at hs; subst hs; exact hi
    · simp at hs

theorem qinv_reachable {dec : Bool} {stream0 : List Frame} {s : QSt} (h : QReachable true dec stream0 s) : QInv stream0 s := by
  induction h with
  | init => exact qinv_init stream0
  | step l _ hs ih => exact qinv_step dec stream0 _ _ l ih hs

/-- REPAIRED reader (the over-limit branch returns): in every reachable state the dispatched messages are a prefix of
the valid messages that precede the first over-limit or truncated frame — nothing after a broken frame is ever
dispatched, and nothing is dispatched twice or out of order -/
theorem nothing_after_broken_frame (dec : Bool) (stream0 : List Frame) (s : QSt) (h : QReachable true dec stream0 s) :
    ∃ t, s.dispatched ++ t = goodPrefix stream0 := by
  have := qinv_reachable h
  unfold QInv at this
  exact ⟨s.fromPanel.map (·.1) ++ (if s.readerRunning then goodPrefix s.stream else []), by rw [← this]; simp⟩

/-- PINNED reader: an over-limit header is only logged; the frame that follows it is dispatched -/
theorem overlimit_keeps_parsing_counterexample :
    (qrun false false (qinit [.overLimit, .valid 7 0]) [.readerFrame, .readerFrame, .loopTakeFrom]).map
      (fun s => decide (s.dispatched = [7] ∧ goodPrefix [Frame.overLimit, .valid 7 0] = [])) = some true := by decide

/-- the same execution with the repaired reader stops at the broken frame -/
theorem overlimit_repaired_on_trace :
    (qrun true false (qinit [.overLimit, .valid 7 0]) [.readerFrame]).map
      (fun s => decide (s.readerRunning = false ∧ s.dispatched = [])) = some true
    ∧ qrun true false (qinit [.overLimit, .valid 7 0]) [.readerFrame, .readerFrame] = none := by decide

/-- twelve events whose handler sends one feedback message each -/
def burst12 : List Frame := (List.range 12).map (fun i => Frame.valid i 1)

/-- the loop takes each event as soon as it arrives and never gets to drain its own queue: after ten feedback sends
the queue is full and the eleventh blocks the only goroutine that could drain it -/
def deadlockTrace : List QLbl :=
  (List.range 10).flatMap (fun _ => [QLbl.readerFrame, .loopTakeFrom, .loopSend]) ++ [.readerFrame, .loopTakeFrom]

/-- PINNED loop: a reachable state in which the loop goroutine is blocked on the full queue that only it drains,
while an event is still waiting -/
theorem queue_self_deadlock_counterexample :
    (qrun false false (qinit burst12) deadlockTrace).map (fun s => blocked s && pending s && decide (s.dispatched.length = 11)) = some true := by
  decide

/-- PINNED loop: that state is permanent — no step ever unblocks the loop -/
theorem pinned_blocked_is_permanent (strict : Bool) (s s' : QSt) (l : QLbl) (hb : blocked s = true)
    (hs : qstep strict false s l = some s') : blocked s' = true ∧ s'.dispatched = s.dispatched := by
  unfold blocked at hb
  split at hb
  · rename_i r hl
    simp at hb
    cases l with
    | readerFrame =>
      simp only [qstep] at hs
      split at hs
      · split at hs
        · simp at hs
        · split at hs
          · simp at hs; subst hs; simp [blocked, hl, hb]
          · simp at hs
        · split at hs <;> (simp at hs; subst hs; simp [blocked, hl, hb])
        · simp at hs; subst hs; simp [blocked, hl, hb]
      · simp at hs
    | loopTakeFrom => simp [qstep, hl] at hs
    | loopSend => simp [qstep, hl, hb] at hs
    | loopDrain => simp [qstep, hl] at hs
    | tick => simp [qstep, hl] at hs
    | writerDrain => simp [qstep] at hs
  · simp at hb

/-- REPAIRED loop (writer decoupled from the dispatcher): a blocked dispatcher is always released by the writer,
which is never itself waiting on the queue -/
theorem decoupled_blocked_is_released (strict : Bool) (s : QSt) (hb : blocked s = true) :
    ∃ s', qstep strict true s .writerDrain = some s' ∧ blocked s' = false := by
  unfold blocked at hb
  split at hb
  · rename_i r hl
    simp at hb
    refine ⟨{ s with toPanel := s.toPanel - 1, written := s.written + 1 }, ?_, ?_⟩
    · simp [qstep, hb, cap]
    · simp [blocked, hl, hb, cap]
  · simp at hb

/-- the loop is never in a state without a send to do while "sending" -/
def QInv2 (s : QSt) : Prop := s.loop ≠ .sending 0

theorem qinv2_step (strict dec : Bool) (s s' : QSt) (l : QLbl) (hi : QInv2 s) (hs : qstep strict dec s l = some s') : QInv2 s' := by
  unfold QInv2 at *
  cases l with
  | readerFrame =>
    simp only [qstep] at hs
    split at hs
    · split at hs
      · simp at hs
      · split at hs
        · simp at hs; subst hs; exact hi
        · simp at hs
      · split at hs <;> (simp at hs; subst hs; exact hi)
      · simp at hs; subst hs; exact hi
    · simp at hs
  | loopTakeFrom =>
    simp only [qstep] at hs
    split at hs
    · split at hs
      · rename_i id k rest _
        simp at hs; subst hs
        by_cases hk : k = 0 <;> simp [hk]
      · simp at hs
    · simp at hs
  | loopSend =>
    simp only [qstep] at hs
    split at hs
    · rename_i r _
      split at hs
      · simp at hs; subst hs
        by_cases hr : r = 0 <;> simp [hr]
      · simp at hs
    · simp at hs
  | loopDrain =>
    simp only [qstep] at hs
    split at hs
    · simp at hs
    · split at hs
      · simp at hs; subst hs; exact hi
      · simp at hs
  | tick =>
    simp only [qstep] at hs
    split at hs
    · simp at hs; subst hs; exact hi
    · split at hs
      · simp at hs; subst hs; simp
      · simp at hs
  | writerDrain =>
    simp only [qstep] at hs
    split at hs
    · simp at hs; subst hs; exact hi
    · simp at hs

theorem qinv2_reachable {strict dec : Bool} {stream0 : List Frame} {s : QSt} (h : QReachable strict dec stream0 s) : QInv2 s := by
  induction h with
  | init => simp [QInv2, qinit]
  | step l _ hs ih => exact qinv2_step strict dec _ _ l ih hs

/-- REPAIRED loop: whenever events are pending, one of the steps that move them on (reader, take, send, writer —
not counting the ticker) is enabled: there is no stuck state with pending events -/
theorem no_stuck_state_with_pending_events (strict : Bool) (stream0 : List Frame) (s : QSt)
    (h : QReachable strict true stream0 s) (hp : pending s = true) :
    ∃ l, l ≠ QLbl.tick ∧ (qstep strict true s l).isSome = true := by
  have h2 := qinv2_reachable h
  unfold QInv2 at h2
  cases hl : s.loop with
  | sending r =>
    cases r with
    | zero => exact absurd hl h2
    | succ r =>
      by_cases hc : s.toPanel < cap
      · exact ⟨.loopSend, by simp, by simp [qstep, hl, hc]⟩
      · have : s.toPanel > 0 := by simp [cap] at hc; omega
        exact ⟨.writerDrain, by simp, by simp [qstep, this]⟩
  | idle =>
    cases hf : s.fromPanel with
    | cons x rest => exact ⟨.loopTakeFrom, by simp, by simp [qstep, hl, hf]⟩
    | nil =>
      simp [pending, hf] at hp
      obtain ⟨hr, hst⟩ := hp
      cases hs : s.stream with
      | nil => simp [hs] at hst
      | cons f rest =>
        refine ⟨.readerFrame, by simp, ?_⟩
        cases f <;> cases strict <;> simp [qstep, hr, hs, hf, cap]

/-! ## non-vacuity -/

example : checkLog (toSBindings { trigger := [1], binary := [1, 2] })
    (eventsOf (histItems [{ events := [{ id := 1, binary := some ⟨true, 4⟩ }, { id := 2, pulsed := some 1 }, { id := 2, binary := some ⟨false, 0⟩ }] }]))
    [.trigger 1 (toSEvent { id := 1, binary := some ⟨true, 4⟩ }), .binary 1 1 4, .binary 2 0 0] = .ok := by decide

example : (dispatch { trigger := [1], binary := [1, 2] }
    [{ events := [{ id := 1, binary := some ⟨true, 4⟩ }, { id := 2, pulsed := some 1 }, { id := 2, binary := some ⟨false, 0⟩ }] }]).length = 3 := by decide

/-- the checker is not trivially `ok`: a duplicated invocation is rejected -/
example : checkLog { binary := [1] } [{ id := 1, binary := some (true, 0) }] [.binary 1 1 0, .binary 1 1 0] = .extra := by decide

/-- a reachable state of the repaired loop in which the dispatcher is blocked and events are pending -/
example : (qrun true true (qinit burst12) deadlockTrace).map (fun s => blocked s && pending s) = some true := by decide

example : isInitialized (finalState {} [{ info := some { model := [77], serial := [83] } }, { topo := some { json := [123], svg := [60] } }]) = true := by decide

end RawPanelVerif.C19
