import RawPanelVerif.Lemmas.GorwpDispatch
import RawPanelVerif.Lemmas.GorwpLts
import RawPanelVerif.Lemmas.GorwpDeadline
/-!
# C19 — the high-level client `gorwp`: property theorems

(a) The pure functions of `Model/Gorwp.lean` (mirroring `procesMessagesFromPanel`, the reader's message filter, `Bind*`,
    `Connect`/`init`) against the independent specification `Spec/GorwpSpec.lean`, for every binding set and history:
  * `dispatch_exactly_once_in_order` — the invocation log of every history is, event by event in panel order, what the
    event owes: for every kind of handler exactly one invocation if it is bound to the event's id and the event matches,
    none otherwise, with the event's id, press state and edge or value.  The specification (`checkLog`/`groupOk`) says
    this by counting per kind and by membership (`groupOk_means_exactly_once`); it does not compute an expected log.
  * `dispatchDyn_exactly_once_in_order` — the same for runs that interleave `Bind*` calls with events (a handler bound
    before an event is dispatched sees it, one bound after does not); `dispatchDyn_append`, `bindingsAfter_bind_has`;
    `rebinding_does_not_change_dispatch` — re-registering registered handlers anywhere in between changes nothing
    (what the harness's registration-race scripts do).
  * `effects_are_ack_then_invocations`, `ping_gets_one_ack`.
  * `getters_return_latest`, `availability_is_latest`, `init_iff_four_items`;
    `topology_getter_from_latest_json` — ASSUMES what the model states in `PState.topoSrc`: every topology update
    parses into a FRESH object (rawpanel.go 321), so the object handed out depends on the latest JSON text only.  On the
    implementation this is checked by the harness (digest of `GetTopology()` = digest of a fresh parse of the stored
    JSON: Spec clause `getter_topology_not_latest`, driver `tg = tf`), not by this theorem.
  * `reader_filter_transparent`, `client_dispatch_exactly_once_in_order` — the reader of the code as it is drops only a
    bare acknowledge (binary: `proto.Equal` with a bare ACK message; ASCII: the line `ack`): nothing is lost, for every
    history.  `client_dispatch_exactly_once_in_order_pinned` + `ack_message_with_event_dropped_counterexample`: the
    PINNED binary reader dropped every message with flow field ACK whole, so the handler of an event such a message
    carried was not invoked (guard exact).  Repaired by `fix:` 2f9fdd6.
  * `connect_succeeds_iff_four_items_in_window` — `Connect` of the code as it is (a cancelled context during
    initialisation is an error unless initialised; model flag `strictInit`): for every course of the initialisation
    window, success ⇔ model, serial, topology JSON and SVG arrived within it (`Spec.connectResult`).
    `connect_pinned_ok_when_connection_survives_window` / `connect_pinned_succeeds_on_lost_connection` /
    `connect_pinned_success_on_lost_connection_counterexample`: the PINNED `init` returned success whenever the
    connection was lost inside the window (panel closes, over-limit header, stalled frame).  Repaired by `fix:` 800ac1d.
(b) The LTS of the goroutines around the two bounded queues, for all capacities (`caps` = the ones in the source).
    The code as it is has THREE goroutines — reader, dispatcher, writer (+ ticker); the pinned code had one `select`
    loop doing dispatch and writing.
  * `nothing_after_broken_frame` (reader with the over-limit `return`); pinned: `overlimit_keeps_parsing_counterexample`,
    `overlimit_repaired_on_trace`.
  * pinned single loop: `queue_self_deadlock_counterexample`, `pinned_blocked_is_permanent`.
  * code as it is: `decoupled_blocked_is_released[_any_capacity]`, `no_stuck_state_with_pending_events[_any_capacity]`
    (deadlock freedom), `progress_measure_decreases` + `tickfree_execution_bounded` (every step of reader, dispatcher,
    writer decreases `measure`; a tick adds ≤ 1), `all_dispatched_eventually` (every infinite run that is strongly fair
    to reader, dispatcher and writer eventually has dispatched exactly the messages before the first broken frame;
    `demoRun`/`demo_fair`: such runs exist).
  * `at_most_queue_capacity_lost_at_broken_frame` — once the reader has stopped at a broken frame every earlier message
    is dispatched or queued: at most `fromPanel`'s capacity of messages can go undispatched (what the monitor's and the
    driver's allowance around an over-limit header is bounded by).
(c) The reader's read deadlines as a timed LTS (`Model/Gorwp.lean` (c): whole headers / payloads / lines; every
    `SetReadDeadline` call site of `readFromPanel` — and the probe deadline `AutoDetect…` leaves armed — is a field of
    the configuration `DlCfg`; `coded` is regenerated from the source: constants and the syntactic places of the resets).
  * `init_window_is_the_documented_one` — the 2 s initialisation window of the property text (`Spec.initWindowMs`) is the
    constant of `init`'s `time.After`; `coded_resets_in_place` — the code has the header resets (binary: first statement of
    the frame loop; ASCII: before the line loop), arms the payload deadline with the extracted 2 s, heartbeat 1 s < 2 s.
  * `quiet_period_harmless` (every configuration with the header reset, either mode; `…_coded` for the code): while the
    reader waits for a header / line no deadline is armed and the timeout is not enabled — no silence ends the connection.
  * `expire_only_inside_late_frame` — the timeout fires only inside a frame, `T` ms or more after its header.
  * `reset_hoisted_counterexample` — the reset hoisted out of the frame loop (seeded change C19-7): 2 s of silence after a
    frame end the connection, the next frame is not read; `hoisted_reset_needs_silence` — but only a silence of `T` since the
    last frame's header does: a panel that acknowledges the 1 s heartbeat hides the defect (why the scripts of class (12)
    leave the heartbeat unanswered).
  Outside (c): the bytes inside a header (the code has no deadline call between them), the 10 ms poll of `init`.
-/
namespace RawPanelVerif.C19
open RawPanelVerif.Gorwp RawPanelVerif.Spec.Gorwp RawPanelVerif.GorwpBridge RawPanelVerif.GorwpDispatch RawPanelVerif.GorwpLts
open RawPanelVerif.GorwpDeadline

/-! ## (a) dispatch -/

theorem eventsOf_append (a b : List Item) : eventsOf (a ++ b) = eventsOf a ++ eventsOf b := by
  simp [eventsOf]

theorem eventsOf_eventItems : ∀ es : List Event, eventsOf (eventItems es) = es.map toSEvent
  | [] => rfl
  | e :: r => by
    have ih := eventsOf_eventItems r
    unfold eventItems eventsOf at ih ⊢
    simp only [List.map_cons, List.filterMap_cons]
    rw [ih]

theorem eventsOf_toItems (m : OutMsg) : eventsOf (toItems m) = m.events.map toSEvent := by
  unfold toItems
  simp only [eventsOf_append]
  have h1 : eventsOf (flowItems m.flow) = [] := by unfold flowItems; split <;> simp [eventsOf]
  have h2 : eventsOf (infoItems m.info) = [] := by cases m.info <;> simp [eventsOf, infoItems]
  have h3 : eventsOf (availItems m.avail) = [] := by cases m.avail <;> simp [eventsOf, availItems]
  have h4 : eventsOf (topoItems m.topo) = [] := by cases m.topo <;> simp [eventsOf, topoItems]
  have h5 := eventsOf_eventItems m.events
  rw [h1, h2, h3, h4, h5]; simp

theorem eventsOf_histItems : ∀ h : List OutMsg, eventsOf (histItems h) = (h.flatMap (·.events)).map toSEvent
  | [] => by simp [histItems, eventsOf]
  | m :: r => by
    have ih := eventsOf_histItems r
    unfold histItems at ih ⊢
    simp only [List.flatMap_cons, eventsOf_append, List.map_append]
    rw [ih, eventsOf_toItems]

theorem dispatch_flat (b : Bindings) : ∀ h : List OutMsg, dispatch b h = (h.flatMap (·.events)).flatMap (dispatchEvent b)
  | [] => by simp [dispatch]
  | m :: r => by
    have ih := dispatch_flat b r
    unfold dispatch at ih ⊢
    simp only [List.flatMap_cons, List.flatMap_append]
    rw [ih]; rfl

/-! ### registrations interleaved with events -/

/-- `Bind*` DURING DISPATCH.  For every initial binding set and every run of registrations and events (in the order in
which they took the lock): the invocation log is exactly, event by event in order, what that event owes to the
handlers registered BEFORE it — for every kind of handler exactly one invocation if it is bound to the event's id and
the event matches, none otherwise, with the event's id and arguments (`Spec.Gorwp.groupOk`).  So a handler bound before
an event is dispatched sees it, and exactly-once holds whatever is registered in between. -/
theorem dispatchDyn_exactly_once_in_order : ∀ (items : List DynItem) (b : Bindings),
    checkLogDyn (toSBindings b) (items.map toSDyn) ((dispatchDyn b items).map toSInv) = .ok
  | [], _ => by simp [dispatchDyn, checkLogDyn]
  | .bind k id :: r, b => by
    simp only [List.map_cons, toSDyn, dispatchDyn, checkLogDyn]
    rw [← toSBindings_add]
    exact dispatchDyn_exactly_once_in_order r (b.add k id)
  | .event e :: r, b => by
    simp only [List.map_cons, toSDyn, dispatchDyn, List.map_append]
    rw [checkLogDyn_group _ _ _ _ _ (group_of_dispatchEvent b e).1 (group_of_dispatchEvent b e).2]
    exact dispatchDyn_exactly_once_in_order r b

theorem dispatchDyn_events (b : Bindings) : ∀ es : List Event,
    dispatchDyn b (es.map DynItem.event) = es.flatMap (dispatchEvent b)
  | [] => rfl
  | e :: r => by simp only [List.map_cons, dispatchDyn, List.flatMap_cons, dispatchDyn_events b r]

/-- EXACTLY ONCE, IN PANEL ORDER.  For every binding set and every history of messages handed to the dispatcher: the
invocation log is exactly, event by event in panel order, one invocation per bound handler whose kind matches a
component of the event — and none of any other handler — with the event's id and arguments.  The specification side
(`Spec.Gorwp.checkLog` / `groupOk`) states this per kind of handler by counting and membership; it does not compute
the expected log. -/
theorem dispatch_exactly_once_in_order (b : Bindings) (h : List OutMsg) :
    checkLog (toSBindings b) (eventsOf (histItems h)) ((dispatch b h).map toSInv) = .ok := by
  rw [eventsOf_histItems, dispatch_flat, ← dispatchDyn_events]
  unfold checkLog
  have := dispatchDyn_exactly_once_in_order ((h.flatMap (·.events)).map DynItem.event) b
  simp only [List.map_map] at this ⊢
  exact this

/-- what the specification's group predicate means: every kind of handler is invoked exactly once if it is owed and
not at all otherwise, and every invocation carries the event's id and arguments -/
theorem groupOk_means_exactly_once (sb : SBindings) (e : SEvent) (g : List SInv) :
    groupOk sb e g = true ↔ (∀ k, countKind k g = if owesKind sb e k then 1 else 0) ∧ ∀ i ∈ g, argsMatch e i = true :=
  groupOk_iff sb e g

/-- a later registration does not reach back: the log splits at any point of the run into the log of what came before
and the log of the rest under the handlers registered by then -/
def bindingsAfter (b : Bindings) : List DynItem → Bindings
  | [] => b
  | .bind k id :: r => bindingsAfter (b.add k id) r
  | .event _ :: r => bindingsAfter b r

theorem dispatchDyn_append : ∀ (pre post : List DynItem) (b : Bindings),
    dispatchDyn b (pre ++ post) = dispatchDyn b pre ++ dispatchDyn (bindingsAfter b pre) post
  | [], _, _ => rfl
  | .bind k id :: r, post, b => by
    simp only [List.cons_append, dispatchDyn, bindingsAfter]; exact dispatchDyn_append r post _
  | .event e :: r, post, b => by
    simp only [List.cons_append, dispatchDyn, bindingsAfter, List.append_assoc]; rw [dispatchDyn_append r post b]

theorem bindingsAfter_bind_has (b : Bindings) (k : RawPanelVerif.Gorwp.Kind) (id : Nat) :
    (bindingsAfter b [.bind k id]).has k id = true := by
  cases k <;> simp [bindingsAfter, Bindings.add, Bindings.has]

/-- two binding sets with the same handlers -/
def SameHandlers (b b' : Bindings) : Prop := ∀ k id, b.has k id = b'.has k id

theorem dispatchEvent_congr {b b' : Bindings} (h : SameHandlers b b') (e : Event) :
    dispatchEvent b e = dispatchEvent b' e := by
  have h1 : e.id ∈ b.trigger ↔ e.id ∈ b'.trigger := by simpa [Bindings.has] using h .trigger e.id
  have h2 : e.id ∈ b.binary ↔ e.id ∈ b'.binary := by simpa [Bindings.has] using h .binary e.id
  have h3 : e.id ∈ b.pulsed ↔ e.id ∈ b'.pulsed := by simpa [Bindings.has] using h .pulsed e.id
  have h4 : e.id ∈ b.absolute ↔ e.id ∈ b'.absolute := by simpa [Bindings.has] using h .absolute e.id
  have h5 : e.id ∈ b.intensity ↔ e.id ∈ b'.intensity := by simpa [Bindings.has] using h .intensity e.id
  unfold dispatchEvent callTrigger callBinary callPulsed callAbsolute callIntensity
  simp only [h1, h2, h3, h4, h5]

theorem sameHandlers_add {b' b : Bindings} (h : SameHandlers b' b) (k : RawPanelVerif.Gorwp.Kind) (id : Nat)
    (hk : b.has k id = true) : SameHandlers (b'.add k id) b := by
  intro k' id'
  have hh := h k' id'
  have hkk := h k id
  rw [hk] at hkk
  cases k <;> cases k' <;> simp only [Bindings.add, Bindings.has] at hh hkk ⊢ <;>
    first
      | exact hh
      | (simp only [List.mem_cons, decide_eq_true_eq, decide_eq_decide] at hh hkk ⊢
         by_cases he : id' = id
         · subst he
           exact ⟨fun _ => hh.mp hkk, fun _ => Or.inl rfl⟩
         · simp [he, hh])

def eventsOfDyn : List DynItem → List Event
  | [] => []
  | .bind .. :: r => eventsOfDyn r
  | .event e :: r => e :: eventsOfDyn r

theorem rebinding_aux : ∀ (items : List DynItem) (b b' : Bindings), SameHandlers b' b →
    (∀ k id, DynItem.bind k id ∈ items → b.has k id = true) →
    dispatchDyn b' items = (eventsOfDyn items).flatMap (dispatchEvent b)
  | [], _, _, _, _ => rfl
  | .bind k id :: r, b, b', hs, hb => by
    simp only [dispatchDyn, eventsOfDyn]
    exact rebinding_aux r b (b'.add k id) (sameHandlers_add hs k id (hb k id (by simp)))
      (fun k' id' hm => hb k' id' (by simp [hm]))
  | .event e :: r, b, b', hs, hb => by
    simp only [dispatchDyn, eventsOfDyn, List.flatMap_cons]
    rw [dispatchEvent_congr hs e, rebinding_aux r b b' hs (fun k' id' hm => hb k' id' (by simp [hm]))]

/-- re-registering handlers that are already registered (what the harness's registration-race scripts do, from a
second goroutine, all the time) changes nothing, wherever the registrations fall between the events: the log is the
log of the events under the initial handlers -/
theorem rebinding_does_not_change_dispatch (items : List DynItem) (b : Bindings)
    (hb : ∀ k id, DynItem.bind k id ∈ items → b.has k id = true) :
    dispatchDyn b items = (eventsOfDyn items).flatMap (dispatchEvent b) :=
  rebinding_aux items b b (fun _ _ => rfl) hb

def Effect.inv? : Effect → Option Invocation
  | .invoke i => some i
  | .sendAck => none

def ackCount (es : List Effect) : Nat := (es.filter (· = .sendAck)).length

theorem ackCount_append (a b : List Effect) : ackCount (a ++ b) = ackCount a + ackCount b := by
  simp [ackCount]

/-- nothing else is an effect of a message: its effects are the ack (iff it is a ping) followed by the invocations -/
theorem effects_are_ack_then_invocations (b : Bindings) (m : OutMsg) :
    (effects b m).filterMap Effect.inv? = dispatchMsg b m
    ∧ ackCount (effects b m) = (if m.flow = .ping then 1 else 0) := by
  unfold effects
  have hsome : (Effect.inv? ∘ Effect.invoke) = some := by funext i; rfl
  have hno : ackCount ((dispatchMsg b m).map Effect.invoke) = 0 := by
    simp [ackCount, List.filter_map]
  constructor
  · split <;> simp [List.filterMap_map, hsome, List.filterMap_cons, Effect.inv?]
  · rw [ackCount_append, hno]; split <;> simp [ackCount]

theorem pingCount_append (a b : List Item) : pingCount (a ++ b) = pingCount a + pingCount b := by
  simp [pingCount]

theorem pingCount_toItems (m : OutMsg) : pingCount (toItems m) = if m.flow = .ping then 1 else 0 := by
  unfold toItems
  simp only [pingCount_append]
  have h2 : pingCount (infoItems m.info) = 0 := by cases m.info <;> simp [pingCount, infoItems]
  have h3 : pingCount (availItems m.avail) = 0 := by cases m.avail <;> simp [pingCount, availItems]
  have h4 : pingCount (topoItems m.topo) = 0 := by cases m.topo <;> simp [pingCount, topoItems]
  have h5 : pingCount (eventItems m.events) = 0 := by simp [pingCount, eventItems, List.filter_map]
  rw [h2, h3, h4, h5]
  unfold flowItems
  split <;> simp [pingCount]

/-- a panel ping is answered with exactly one acknowledge: over any history the number of acks sent equals the
number of pings received -/
theorem ping_gets_one_ack (b : Bindings) : ∀ h : List OutMsg,
    ackCount (h.flatMap (effects b)) = pingCount (histItems h)
  | [] => by simp [histItems, pingCount, ackCount]
  | m :: r => by
    have ih := ping_gets_one_ack b r
    unfold histItems at ih ⊢
    simp only [List.flatMap_cons, ackCount_append, pingCount_append]
    rw [ih, (effects_are_ack_then_invocations b m).2, pingCount_toItems]

/-! ### state -/

theorem lastNonEmpty_append (init : List Nat) : ∀ (a b : List (List Nat)),
    lastNonEmpty init (a ++ b) = lastNonEmpty (lastNonEmpty init a) b
  | [], b => rfl
  | v :: r, b => by simp only [List.cons_append, lastNonEmpty]; exact lastNonEmpty_append _ r b

theorem finalState_cons (s : PState) (m : OutMsg) (r : List OutMsg) :
    finalState s (m :: r) = finalState (applyMsg s m) r := rfl

theorem histItems_cons (m : OutMsg) (r : List OutMsg) : histItems (m :: r) = toItems m ++ histItems r := by
  simp [histItems]

theorem models_append (a b : List Item) : models (a ++ b) = models a ++ models b := by simp [models]

theorem models_toItems (m : OutMsg) : models (toItems m) = (match m.info with | some i => [i.model] | none => []) := by
  unfold toItems
  simp only [models_append]
  have h1 : models (flowItems m.flow) = [] := by unfold flowItems; split <;> simp [models]
  have h3 : models (availItems m.avail) = [] := by cases m.avail <;> simp [models, availItems]
  have h5 : models (eventItems m.events) = [] := by simp [models, eventItems, List.filterMap_map]
  have h4 : models (topoItems m.topo) = [] := by cases m.topo <;> simp [models, topoItems]
  rw [h1, h3, h4, h5]
  cases m.info <;> simp [models, infoItems]

theorem applyMsg_model (s : PState) (m : OutMsg) :
    (applyMsg s m).model = lastNonEmpty s.model (models (toItems m)) := by
  rw [models_toItems]
  unfold applyMsg
  cases m.info <;> cases m.avail <;> cases m.topo <;> simp [lastNonEmpty, setIfNonEmpty]

theorem finalState_model : ∀ (h : List OutMsg) (s : PState),
    (finalState s h).model = lastNonEmpty s.model (models (histItems h))
  | [], s => rfl
  | m :: r, s => by
    rw [finalState_cons, histItems_cons, models_append, lastNonEmpty_append, finalState_model r, applyMsg_model]

theorem serials_append (a b : List Item) : serials (a ++ b) = serials a ++ serials b := by simp [serials]

theorem serials_toItems (m : OutMsg) : serials (toItems m) = (match m.info with | some i => [i.serial] | none => []) := by
  unfold toItems
  simp only [serials_append]
  have h1 : serials (flowItems m.flow) = [] := by unfold flowItems; split <;> simp [serials]
  have h3 : serials (availItems m.avail) = [] := by cases m.avail <;> simp [serials, availItems]
  have h5 : serials (eventItems m.events) = [] := by simp [serials, eventItems, List.filterMap_map]
  have h4 : serials (topoItems m.topo) = [] := by cases m.topo <;> simp [serials, topoItems]
  rw [h1, h3, h4, h5]
  cases m.info <;> simp [serials, infoItems]

theorem applyMsg_serial (s : PState) (m : OutMsg) :
    (applyMsg s m).serial = lastNonEmpty s.serial (serials (toItems m)) := by
  rw [serials_toItems]
  unfold applyMsg
  cases m.info <;> cases m.avail <;> cases m.topo <;> simp [lastNonEmpty, setIfNonEmpty]

theorem finalState_serial : ∀ (h : List OutMsg) (s : PState),
    (finalState s h).serial = lastNonEmpty s.serial (serials (histItems h))
  | [], s => rfl
  | m :: r, s => by
    rw [finalState_cons, histItems_cons, serials_append, lastNonEmpty_append, finalState_serial r, applyMsg_serial]

theorem names_append (a b : List Item) : names (a ++ b) = names a ++ names b := by simp [names]

theorem names_toItems (m : OutMsg) : names (toItems m) = (match m.info with | some i => [i.name] | none => []) := by
  unfold toItems
  simp only [names_append]
  have h1 : names (flowItems m.flow) = [] := by unfold flowItems; split <;> simp [names]
  have h3 : names (availItems m.avail) = [] := by cases m.avail <;> simp [names, availItems]
  have h5 : names (eventItems m.events) = [] := by simp [names, eventItems, List.filterMap_map]
  have h4 : names (topoItems m.topo) = [] := by cases m.topo <;> simp [names, topoItems]
  rw [h1, h3, h4, h5]
  cases m.info <;> simp [names, infoItems]

theorem applyMsg_name (s : PState) (m : OutMsg) :
    (applyMsg s m).name = lastNonEmpty s.name (names (toItems m)) := by
  rw [names_toItems]
  unfold applyMsg
  cases m.info <;> cases m.avail <;> cases m.topo <;> simp [lastNonEmpty, setIfNonEmpty]

theorem finalState_name : ∀ (h : List OutMsg) (s : PState),
    (finalState s h).name = lastNonEmpty s.name (names (histItems h))
  | [], s => rfl
  | m :: r, s => by
    rw [finalState_cons, histItems_cons, names_append, lastNonEmpty_append, finalState_name r, applyMsg_name]

theorem jsons_append (a b : List Item) : jsons (a ++ b) = jsons a ++ jsons b := by simp [jsons]

theorem jsons_toItems (m : OutMsg) : jsons (toItems m) = (match m.topo with | some t => [t.json] | none => []) := by
  unfold toItems
  simp only [jsons_append]
  have h1 : jsons (flowItems m.flow) = [] := by unfold flowItems; split <;> simp [jsons]
  have h3 : jsons (availItems m.avail) = [] := by cases m.avail <;> simp [jsons, availItems]
  have h5 : jsons (eventItems m.events) = [] := by simp [jsons, eventItems, List.filterMap_map]
  have h2 : jsons (infoItems m.info) = [] := by cases m.info <;> simp [jsons, infoItems]
  rw [h1, h2, h3, h5]
  cases m.topo <;> simp [jsons, topoItems]

theorem applyMsg_topoJSON (s : PState) (m : OutMsg) :
    (applyMsg s m).topoJSON = lastNonEmpty s.topoJSON (jsons (toItems m)) := by
  rw [jsons_toItems]
  unfold applyMsg
  cases m.info <;> cases m.avail <;> cases m.topo <;> simp [lastNonEmpty, setIfNonEmpty]

theorem finalState_topoJSON : ∀ (h : List OutMsg) (s : PState),
    (finalState s h).topoJSON = lastNonEmpty s.topoJSON (jsons (histItems h))
  | [], s => rfl
  | m :: r, s => by
    rw [finalState_cons, histItems_cons, jsons_append, lastNonEmpty_append, finalState_topoJSON r, applyMsg_topoJSON]

theorem applyMsg_topoSrc (s : PState) (m : OutMsg) :
    (applyMsg s m).topoSrc = lastNonEmpty s.topoSrc (jsons (toItems m)) := by
  rw [jsons_toItems]
  unfold applyMsg
  cases m.info <;> cases m.avail <;> cases m.topo <;> simp [lastNonEmpty, setIfNonEmpty]

theorem finalState_topoSrc : ∀ (h : List OutMsg) (s : PState),
    (finalState s h).topoSrc = lastNonEmpty s.topoSrc (jsons (histItems h))
  | [], s => rfl
  | m :: r, s => by
    rw [finalState_cons, histItems_cons, jsons_append, lastNonEmpty_append, finalState_topoSrc r, applyMsg_topoSrc]

theorem svgs_append (a b : List Item) : svgs (a ++ b) = svgs a ++ svgs b := by simp [svgs]

theorem svgs_toItems (m : OutMsg) : svgs (toItems m) = (match m.topo with | some t => [t.svg] | none => []) := by
  unfold toItems
  simp only [svgs_append]
  have h1 : svgs (flowItems m.flow) = [] := by unfold flowItems; split <;> simp [svgs]
  have h3 : svgs (availItems m.avail) = [] := by cases m.avail <;> simp [svgs, availItems]
  have h5 : svgs (eventItems m.events) = [] := by simp [svgs, eventItems, List.filterMap_map]
  have h2 : svgs (infoItems m.info) = [] := by cases m.info <;> simp [svgs, infoItems]
  rw [h1, h2, h3, h5]
  cases m.topo <;> simp [svgs, topoItems]

theorem applyMsg_topoSVG (s : PState) (m : OutMsg) :
    (applyMsg s m).topoSVG = lastNonEmpty s.topoSVG (svgs (toItems m)) := by
  rw [svgs_toItems]
  unfold applyMsg
  cases m.info <;> cases m.avail <;> cases m.topo <;> simp [lastNonEmpty, setIfNonEmpty]

theorem finalState_topoSVG : ∀ (h : List OutMsg) (s : PState),
    (finalState s h).topoSVG = lastNonEmpty s.topoSVG (svgs (histItems h))
  | [], s => rfl
  | m :: r, s => by
    rw [finalState_cons, histItems_cons, svgs_append, lastNonEmpty_append, finalState_topoSVG r, applyMsg_topoSVG]

/-- identity and topology getters return the latest non-empty value received -/
theorem getters_return_latest (h : List OutMsg) :
    let st := finalState {} h
    let items := histItems h
    st.model = lastNonEmpty [] (models items) ∧ st.serial = lastNonEmpty [] (serials items)
    ∧ st.name = lastNonEmpty [] (names items) ∧ st.topoJSON = lastNonEmpty [] (jsons items)
    ∧ st.topoSVG = lastNonEmpty [] (svgs items) :=
  ⟨finalState_model h {}, finalState_serial h {}, finalState_name h {}, finalState_topoJSON h {}, finalState_topoSVG h {}⟩

/-- the parsed topology handed out by `GetTopology` is built from the latest non-empty topology JSON received and from
nothing else (a fresh object per update: no remains of earlier topologies) -/
theorem topology_getter_from_latest_json (h : List OutMsg) :
    (finalState {} h).topoSrc = lastNonEmpty [] (jsons (histItems h))
    ∧ (finalState {} h).topoSrc = (finalState {} h).topoJSON :=
  ⟨finalState_topoSrc h {}, by rw [finalState_topoSrc, finalState_topoJSON]⟩

/-! availability map: the latest value per key -/

theorem foldl_cons_eq (kv base : List (Nat × Nat)) : kv.foldl (fun a e => e :: a) base = kv.reverse ++ base := by
  induction kv generalizing base with
  | nil => rfl
  | cons x r ih => simp [List.foldl_cons, ih]

theorem lastValue_eq_find (k : Nat) : ∀ l : List (Nat × Nat),
    lastValue k l = (l.reverse.find? (fun e => e.1 = k)).map (·.2)
  | [] => rfl
  | (k', v) :: r => by
    have ih := lastValue_eq_find k r
    simp only [lastValue, List.reverse_cons, List.find?_append]
    rw [ih]
    cases hf : List.find? (fun e => decide (e.1 = k)) r.reverse with
    | some x => simp
    | none =>
      by_cases hk : k' = k <;> simp [hk]

theorem availEntries_append (a b : List Item) : availEntries (a ++ b) = availEntries a ++ availEntries b := by
  simp [availEntries]

theorem availEntries_toItems (m : OutMsg) : availEntries (toItems m) = (match m.avail with | some kv => kv | none => []) := by
  unfold toItems
  simp only [availEntries_append]
  have h1 : availEntries (flowItems m.flow) = [] := by unfold flowItems; split <;> simp [availEntries]
  have h2 : availEntries (infoItems m.info) = [] := by cases m.info <;> simp [availEntries, infoItems]
  have h4 : availEntries (topoItems m.topo) = [] := by cases m.topo <;> simp [availEntries, topoItems]
  have h5 : availEntries (eventItems m.events) = [] := by simp [availEntries, eventItems]
  rw [h1, h2, h4, h5]
  cases m.avail <;> simp [availEntries, availItems]

theorem applyMsg_avail (s : PState) (m : OutMsg) :
    (applyMsg s m).avail = (availEntries (toItems m)).reverse ++ s.avail := by
  rw [availEntries_toItems]
  unfold applyMsg
  cases m.info <;> cases m.avail <;> cases m.topo <;> simp [foldl_cons_eq]

theorem finalState_avail : ∀ (h : List OutMsg) (s : PState),
    (finalState s h).avail = (availEntries (histItems h)).reverse ++ s.avail
  | [], s => by simp [finalState, histItems, availEntries]
  | m :: r, s => by
    rw [finalState_cons, histItems_cons, availEntries_append, finalState_avail r, applyMsg_avail]
    simp

/-- the availability map holds, for every key, the value most recently received (and nothing for other keys) -/
theorem availability_is_latest (h : List OutMsg) (k : Nat) :
    lookupAvail (finalState {} h) k = lastValue k (availEntries (histItems h)) := by
  unfold lookupAvail
  rw [finalState_avail, lastValue_eq_find]
  simp

theorem lastNonEmpty_eq_nil (init : List Nat) : ∀ l : List (List Nat),
    lastNonEmpty init l = [] ↔ init = [] ∧ ∀ v ∈ l, v = []
  | [] => by simp [lastNonEmpty]
  | v :: r => by
    rw [lastNonEmpty, lastNonEmpty_eq_nil _ r]
    by_cases hv : v = [] <;> simp [hv]

/-- `IsInitialized` holds exactly when model, serial, topology JSON and SVG have all arrived (non-empty) -/
theorem init_iff_four_items (h : List OutMsg) :
    isInitialized (finalState {} h) = allFourArrived (histItems h) := by
  rw [Bool.eq_iff_iff]
  unfold isInitialized allFourArrived
  rw [finalState_model, finalState_serial, finalState_topoJSON, finalState_topoSVG]
  simp [lastNonEmpty_eq_nil]

/-! ### the reader's message filter (flow field ACK) -/

theorem toItems_pureAck (m : OutMsg) (hf : m.flow = .ack) (hp : pureAck m = true) : toItems m = [] := by
  obtain ⟨flow, info, avail, topo, events⟩ := m
  simp only [pureAck, Bool.and_eq_true, Option.isNone_iff_eq_none, List.isEmpty_iff] at hp
  obtain ⟨⟨⟨h1, h2⟩, h3⟩, h4⟩ := hp
  subst hf h1 h2 h3 h4
  rfl

theorem applyMsg_pureAck (s : PState) (m : OutMsg) (hp : pureAck m = true) : applyMsg s m = s := by
  obtain ⟨flow, info, avail, topo, events⟩ := m
  simp only [pureAck, Bool.and_eq_true, Option.isNone_iff_eq_none, List.isEmpty_iff] at hp
  obtain ⟨⟨⟨h1, h2⟩, h3⟩, h4⟩ := hp
  subst h1 h2 h3 h4
  rfl

theorem dispatchMsg_pureAck (b : Bindings) (m : OutMsg) (hp : pureAck m = true) : dispatchMsg b m = [] := by
  simp only [pureAck, Bool.and_eq_true, List.isEmpty_iff] at hp
  simp [dispatchMsg, hp.2]

theorem dropped_is_pure (f : AckFilter) (m : OutMsg) (hg : f = .whole → m.flow = .ack → pureAck m = true)
    (hk : ¬ readerKeeps f m = true) : m.flow = .ack ∧ pureAck m = true := by
  cases f with
  | whole =>
    have ha : m.flow = .ack := by simpa [readerKeeps] using hk
    exact ⟨ha, hg rfl ha⟩
  | bare => simpa [readerKeeps] using hk
  | none => simp [readerKeeps] at hk

/-- THE READER'S FILTER LOSES NOTHING.  For the code as it is (binary reader: `bare`, ASCII reader: `none`) without any
condition; for the pinned binary reader (`whole`) provided every message whose flow field is ACK carries nothing else
(the guard is exact, see `ack_message_with_event_dropped_counterexample`).  The invocation log, the number of
acknowledges sent and the state are those of the unfiltered history, so every theorem above about `dispatch` /
`effects` / `finalState` holds for what the panel SENT. -/
theorem reader_filter_transparent (f : AckFilter) (b : Bindings) : ∀ (h : List OutMsg) (s : PState),
    (f = .whole → ∀ m ∈ h, m.flow = .ack → pureAck m = true) →
    clientLog f b h = dispatch b h ∧ clientAcks f h = acks h ∧ clientState f s h = finalState s h
      ∧ histItems (readerView f h) = histItems h
  | [], _, _ => ⟨rfl, rfl, rfl, rfl⟩
  | m :: r, s, hg => by
    have hr : f = .whole → ∀ m' ∈ r, m'.flow = .ack → pureAck m' = true := fun hf m' hm => hg hf m' (by simp [hm])
    by_cases hk : readerKeeps f m = true
    · obtain ⟨i1, i2, i3, i4⟩ := reader_filter_transparent f b r (applyMsg s m) hr
      unfold clientLog clientAcks clientState readerView at *
      simp only [List.filter_cons, hk, if_true]
      refine ⟨?_, ?_, ?_, ?_⟩
      · simp only [dispatch, List.flatMap_cons] at i1 ⊢; rw [i1]
      · simp only [acks, List.filter_cons] at i2 ⊢; split <;> simp_all
      · simp only [finalState, List.foldl_cons] at i3 ⊢; exact i3
      · simp only [histItems, List.flatMap_cons] at i4 ⊢; rw [i4]
    · obtain ⟨hack, hp⟩ := dropped_is_pure f m (fun hf => hg hf m (by simp)) hk
      obtain ⟨i1, i2, i3, i4⟩ := reader_filter_transparent f b r s hr
      unfold clientLog clientAcks clientState readerView at *
      simp only [List.filter_cons, hk]
      refine ⟨?_, ?_, ?_, ?_⟩
      · simp only [dispatch, List.flatMap_cons, dispatchMsg_pureAck b m hp, List.nil_append] at i1 ⊢; exact i1
      · simp only [acks, List.filter_cons, hack] at i2 ⊢; simpa using i2
      · simp only [finalState, List.foldl_cons, applyMsg_pureAck s m hp] at i3 ⊢; exact i3
      · simp only [histItems, List.flatMap_cons, toItems_pureAck m hack hp, List.nil_append] at i4 ⊢; exact i4

/-- EXACTLY ONCE for what the panel sent, through the reader's filter of the CODE AS IT IS (either protocol mode):
no condition on the history -/
theorem client_dispatch_exactly_once_in_order (f : AckFilter) (hf : f ≠ .whole) (b : Bindings) (h : List OutMsg) :
    checkLog (toSBindings b) (eventsOf (histItems h)) ((clientLog f b h).map toSInv) = .ok := by
  rw [(reader_filter_transparent f b h {} (fun hw => absurd hw hf)).1]
  exact dispatch_exactly_once_in_order b h

/-- the same for the pinned binary reader, under its guard -/
theorem client_dispatch_exactly_once_in_order_pinned (b : Bindings) (h : List OutMsg)
    (hg : ∀ m ∈ h, m.flow = .ack → pureAck m = true) :
    checkLog (toSBindings b) (eventsOf (histItems h)) ((clientLog .whole b h).map toSInv) = .ok := by
  rw [(reader_filter_transparent .whole b h {} (fun _ => hg)).1]
  exact dispatch_exactly_once_in_order b h

/-- PINNED binary reader (repaired by `fix:` 2f9fdd6): a message with flow field ACK that also carries an event is
dropped whole — the bound handler is not invoked for an event the panel sent (the specification's verdict: the log is
short).  The reader of the code as it is, which drops only a bare acknowledge, dispatches it. -/
theorem ack_message_with_event_dropped_counterexample :
    let m : OutMsg := { flow := .ack, events := [{ id := 1, binary := some ⟨true, 0⟩ }] }
    let b : Bindings := { binary := [1] }
    clientLog .whole b [m] = []
    ∧ checkLog (toSBindings b) (eventsOf (histItems [m])) ((clientLog .whole b [m]).map toSInv) = .short
    ∧ checkLog (toSBindings b) (eventsOf (histItems [m])) ((clientLog .bare b [m]).map toSInv) = .ok := by decide

/-! ### `Connect` -/

theorem setIfNonEmpty_ne_nil (old new : List Nat) (h : old ≠ []) : setIfNonEmpty old new ≠ [] := by
  unfold setIfNonEmpty; split <;> simp_all

theorem isInitialized_applyMsg (s : PState) (m : OutMsg) (h : isInitialized s = true) : isInitialized (applyMsg s m) = true := by
  simp only [isInitialized, Bool.and_eq_true, decide_eq_true_eq] at h ⊢
  obtain ⟨⟨⟨h1, h2⟩, h3⟩, h4⟩ := h
  unfold applyMsg
  cases m.info <;> cases m.avail <;> cases m.topo <;>
    simp only [] <;> refine ⟨⟨⟨?_, ?_⟩, ?_⟩, ?_⟩ <;>
    first | assumption | exact setIfNonEmpty_ne_nil _ _ (by assumption)

theorem isInitialized_finalState (h : List OutMsg) : ∀ (s : PState), isInitialized s = true → isInitialized (finalState s h) = true := by
  induction h with
  | nil => intro s hs; exact hs
  | cons m r ih => intro s hs; exact ih _ (isInitialized_applyMsg s m hs)

/-- `init` with the repaired `ctx.Done()` branch: the result is the initialisation state at the end of the window -/
theorem connectFrom_strict : ∀ (evs : List InitEv) (s : PState),
    connectFrom true s evs = isInitialized (finalState s (windowMsgs evs))
  | [], s => rfl
  | .dispatched m :: r, s => by
    simp only [connectFrom, windowMsgs, finalState_cons]
    rw [connectFrom_strict r]
    cases hs : isInitialized s with
    | false => simp
    | true =>
      have := isInitialized_finalState (windowMsgs r) _ (isInitialized_applyMsg s m hs)
      unfold finalState at this ⊢
      simp [this]
  | .ctxDone :: _, s => by simp [connectFrom, windowMsgs, finalState]
  | .windowClosed :: _, s => by simp [connectFrom, windowMsgs, finalState]

/-- the pinned `init`: additionally "succeeds" whenever the window ends by a cancelled context -/
theorem connectFrom_pinned : ∀ (evs : List InitEv) (s : PState),
    connectFrom false s evs = (isInitialized (finalState s (windowMsgs evs)) || endedByCtxDone evs)
  | [], s => by simp [connectFrom, windowMsgs, finalState, endedByCtxDone]
  | .dispatched m :: r, s => by
    simp only [connectFrom, windowMsgs, finalState_cons, endedByCtxDone]
    rw [connectFrom_pinned r]
    cases hs : isInitialized s with
    | false => simp
    | true =>
      have := isInitialized_finalState (windowMsgs r) _ (isInitialized_applyMsg s m hs)
      unfold finalState at this ⊢
      simp [this]
  | .ctxDone :: _, s => by simp [connectFrom, windowMsgs, finalState, endedByCtxDone]
  | .windowClosed :: _, s => by simp [connectFrom, windowMsgs, finalState, endedByCtxDone]

/-- CONNECT RESULT, code as it is (`ctx.Done()` during initialisation is an error unless the state is
initialised): for every course of the initialisation window — any messages in any order, the window ended by the timer,
by the loss of the connection (EOF, over-limit header, stalled frame) or by the caller's cancel — connecting succeeds
exactly when model, serial, topology JSON and SVG arrived within the window -/
theorem connect_succeeds_iff_four_items_in_window (evs : List InitEv) :
    connect true evs = allFourArrived (windowItems evs)
    ∧ connectResult (windowItems evs) (connect true evs) = none := by
  have h : connect true evs = allFourArrived (windowItems evs) := by
    unfold connect windowItems
    rw [connectFrom_strict, init_iff_four_items]
  exact ⟨h, by simp [connectResult, h]⟩

/-- PINNED `init` (repaired by `fix:` 800ac1d): the same holds as long as the window is ended by the timer or by the
fourth item (guard exact: next theorem) -/
theorem connect_pinned_ok_when_connection_survives_window (evs : List InitEv) (hc : endedByCtxDone evs = false) :
    connect false evs = allFourArrived (windowItems evs)
    ∧ connectResult (windowItems evs) (connect false evs) = none := by
  have h : connect false evs = allFourArrived (windowItems evs) := by
    unfold connect windowItems
    rw [connectFrom_pinned, init_iff_four_items, hc, Bool.or_false]
  exact ⟨h, by simp [connectResult, h]⟩

/-- PINNED `init`: whenever the connection is lost (or the context cancelled) inside the window, `Connect` returns
success — whatever has arrived -/
theorem connect_pinned_succeeds_on_lost_connection (evs : List InitEv) (hc : endedByCtxDone evs = true) :
    connect false evs = true := by
  unfold connect; rw [connectFrom_pinned, hc, Bool.or_true]

/-- PINNED `init`: the panel closes the connection right after the probe, nothing has arrived, `Connect` returns
`(panel, nil)`; and the same after model and serial only.  The specification's verdict, and the repaired `init` on the
same histories. -/
theorem connect_pinned_success_on_lost_connection_counterexample :
    let info : OutMsg := { info := some { model := [77, 49], serial := [83, 49] } }
    connect false [.ctxDone] = true
    ∧ connectResult (windowItems [.ctxDone]) (connect false [.ctxDone]) = some "connect_succeeded_although_item_missing"
    ∧ connect false [.dispatched info, .ctxDone] = true
    ∧ connectResult (windowItems [.dispatched info, .ctxDone]) (connect false [.dispatched info, .ctxDone])
        = some "connect_succeeded_although_item_missing"
    ∧ connect true [.ctxDone] = false ∧ connect true [.dispatched info, .ctxDone] = false := by decide

/-! ## (b) reader, dispatcher and writer around the two bounded queues

All theorems hold for every pair of queue capacities `c : Caps` (where needed: both at least 1); `caps` are the
capacities read from the source (`make(chan …, N)` in `Connect`, via `Gen.gorwpFromPanelCap` / `Gen.gorwpToPanelCap`). -/

theorem caps_pos : 0 < caps.fromPanel ∧ 0 < caps.toPanel := by decide

/-- REPAIRED reader (the over-limit branch returns): in every reachable state the dispatched messages are a prefix of
the forwarded messages that precede the first over-limit or truncated frame — nothing after a broken frame is ever
dispatched, and nothing is dispatched twice or out of order -/
theorem nothing_after_broken_frame (c : Caps) (dec : Bool) (stream0 : List Frame) (s : QSt)
    (h : QReachable c true dec stream0 s) : ∃ t, s.dispatched ++ t = goodPrefix stream0 := by
  have := qinv_reachable h
  unfold QInv at this
  exact ⟨s.fromPanel.map (·.1) ++ (if s.readerRunning then goodPrefix s.stream else []), by rw [← this]; simp⟩

/-- PINNED reader: an over-limit header is only logged; the frame that follows it is dispatched -/
theorem overlimit_keeps_parsing_counterexample :
    (qrun caps false false (qinit [.overLimit, .valid 7 0]) [.readerFrame, .readerFrame, .loopTakeFrom]).map
      (fun s => decide (s.dispatched = [7] ∧ goodPrefix [Frame.overLimit, .valid 7 0] = [])) = some true := by decide

/-- the same execution with the repaired reader stops at the broken frame -/
theorem overlimit_repaired_on_trace :
    (qrun caps true false (qinit [.overLimit, .valid 7 0]) [.readerFrame]).map
      (fun s => decide (s.readerRunning = false ∧ s.dispatched = [])) = some true
    ∧ qrun caps true false (qinit [.overLimit, .valid 7 0]) [.readerFrame, .readerFrame] = none := by decide

/-- two more events than `toPanel` holds, whose handler sends one feedback message each -/
def burst : List Frame := (List.range (caps.toPanel + 2)).map (fun i => Frame.valid i 1)

/-- the loop takes each event as soon as it arrives and never gets to drain its own queue: after `cap` feedback sends
the queue is full and the next one blocks the only goroutine that could drain it -/
def deadlockTrace : List QLbl :=
  (List.range caps.toPanel).flatMap (fun _ => [QLbl.readerFrame, .loopTakeFrom, .loopSend]) ++ [.readerFrame, .loopTakeFrom]

/-- PINNED loop: a reachable state in which the loop goroutine is blocked on the full queue that only it drains,
while an event is still waiting -/
theorem queue_self_deadlock_counterexample :
    (qrun caps false false (qinit burst) deadlockTrace).map
      (fun s => blocked caps s && pending s && decide (s.dispatched.length = caps.toPanel + 1)) = some true := by
  decide

/-- PINNED loop: that state is permanent — no step ever unblocks the loop -/
theorem pinned_blocked_is_permanent (c : Caps) (strict : Bool) (s s' : QSt) (l : QLbl) (hb : blocked c s = true)
    (hs : qstep c strict false s l = some s') : blocked c s' = true ∧ s'.dispatched = s.dispatched := by
  unfold blocked at hb
  split at hb
  · rename_i r hl
    simp at hb
    cases l with
    | readerFrame =>
      obtain ⟨_, f, rest, _, h | h | h⟩ := step_reader hs
      · obtain ⟨id, k, _, _, rfl⟩ := h; simp [blocked, hl, hb]
      · obtain ⟨_, rfl⟩ := h; simp [blocked, hl, hb]
      · obtain ⟨_, rfl⟩ := h; simp [blocked, hl, hb]
    | loopTakeFrom => obtain ⟨hi, _⟩ := step_take hs; rw [hl] at hi; cases hi
    | loopSend => obtain ⟨_, _, hc, _⟩ := step_send hs; omega
    | loopDrain => obtain ⟨_, hi, _⟩ := step_loopDrain hs; rw [hl] at hi; cases hi
    | tick =>
      rcases step_tick hs with ⟨hd, _⟩ | ⟨_, hi, _⟩
      · cases hd
      · rw [hl] at hi; cases hi
    | writerDrain => obtain ⟨hd, _⟩ := step_writerDrain hs; cases hd
  · simp at hb

/-- CODE AS IT IS (writer decoupled from the dispatcher): a blocked dispatcher is always released by the writer,
which is never itself waiting on the queue — for every capacity ≥ 1 -/
theorem decoupled_blocked_is_released_any_capacity (c : Caps) (ht : 0 < c.toPanel) (strict : Bool) (s : QSt)
    (hb : blocked c s = true) : ∃ s', qstep c strict true s .writerDrain = some s' ∧ blocked c s' = false := by
  unfold blocked at hb
  split at hb
  · rename_i r hl
    simp at hb
    refine ⟨{ s with toPanel := s.toPanel - 1, written := s.written + 1 }, ?_, ?_⟩
    · simp [qstep, hb, ht]
    · simp [blocked, hl, hb]; omega
  · simp at hb

/-- … in particular for the capacities of the source -/
theorem decoupled_blocked_is_released (strict : Bool) (s : QSt) (hb : blocked caps s = true) :
    ∃ s', qstep caps strict true s .writerDrain = some s' ∧ blocked caps s' = false :=
  decoupled_blocked_is_released_any_capacity caps caps_pos.2 strict s hb

/-- CODE AS IT IS: whenever events are pending, one of the steps that move them on (reader, take, send, writer —
not counting the ticker) is enabled: there is no stuck state with pending events — for all capacities ≥ 1 -/
theorem no_stuck_state_with_pending_events_any_capacity (c : Caps) (hf : 0 < c.fromPanel) (ht : 0 < c.toPanel)
    (strict : Bool) (stream0 : List Frame) (s : QSt)
    (h : QReachable c strict true stream0 s) (hp : pending s = true) :
    ∃ l, l ≠ QLbl.tick ∧ (qstep c strict true s l).isSome = true := by
  have h2 := qinv2_reachable h
  unfold QInv2 at h2
  cases hl : s.loop with
  | sending r =>
    cases r with
    | zero => exact absurd hl h2
    | succ r =>
      by_cases hc : s.toPanel < c.toPanel
      · exact ⟨.loopSend, by simp, by simp [qstep, hl, hc]⟩
      · have : s.toPanel > 0 := by omega
        exact ⟨.writerDrain, by simp, by simp [qstep, this]⟩
  | idle =>
    cases hfp : s.fromPanel with
    | cons x rest => exact ⟨.loopTakeFrom, by simp, by simp [qstep, hl, hfp]⟩
    | nil =>
      simp [pending, hfp] at hp
      obtain ⟨hr, hst⟩ := hp
      cases hs : s.stream with
      | nil => simp [hs] at hst
      | cons f rest =>
        refine ⟨.readerFrame, by simp, ?_⟩
        cases f <;> cases strict <;> simp [qstep, hr, hs, hfp, hf]

theorem no_stuck_state_with_pending_events (strict : Bool) (stream0 : List Frame) (s : QSt)
    (h : QReachable caps strict true stream0 s) (hp : pending s = true) :
    ∃ l, l ≠ QLbl.tick ∧ (qstep caps strict true s l).isSome = true :=
  no_stuck_state_with_pending_events_any_capacity caps caps_pos.1 caps_pos.2 strict stream0 s h hp

/-- PROGRESS MEASURE, code as it is, every capacity: `measure` = frames still to be read (with the sends their
handlers will make), queued messages, the dispatcher's sends still to do, queued outgoing messages.  Every step of the
reader, the dispatcher or the writer makes it strictly smaller; a tick adds at most one (its ping); hence an
execution has at most `measure` + (number of ticks) steps that are not ticks. -/
theorem progress_measure_decreases (c : Caps) (strict : Bool) (s s' : QSt) (l : QLbl)
    (hs : qstep c strict true s l = some s') :
    (l ≠ .tick → measure c s' < measure c s) ∧ (l = .tick → measure c s' ≤ measure c s + 1) :=
  ⟨fun hl => measure_step_lt hl hs, fun hl => by subst hl; exact measure_tick_le hs⟩

theorem tickfree_execution_bounded (c : Caps) (strict : Bool) (ls : List QLbl) (s s' : QSt)
    (hl : ∀ l ∈ ls, l ≠ QLbl.tick) (h : qrun c strict true s ls = some s') : ls.length + measure c s' ≤ measure c s :=
  tickfree_run_bounded ls s s' hl h

/-- ALL DISPATCHED EVENTUALLY, code as it is (over-limit branch returns, writer decoupled), every pair of capacities
≥ 1, every stream of frames: in every infinite run that is (strongly) fair to the reader's, the dispatcher's and the
writer's steps — the ticker may fire whenever it likes — from some point on every message before the first broken
frame has been handed to the handlers (exactly those, once, in order).  (Strong fairness is needed only because the
abstraction lets the ticker's ping take a slot the writer has just freed for the waiting dispatcher.) -/
theorem all_dispatched_eventually (c : Caps) (hf : 0 < c.fromPanel) (ht : 0 < c.toPanel) (stream0 : List Frame)
    (r : QRun c true) (h0 : r.st 0 = qinit stream0) (fair : ∀ l, l ≠ QLbl.tick → r.Fair l) :
    ∃ n, ∀ m, n ≤ m → (r.st m).dispatched = goodPrefix stream0 := by
  have hreach := run_reachable r h0
  have h2 : ∀ n, QInv2 (r.st n) := fun n => qinv2_reachable (hreach n)
  have h3 : ∀ n, QInv3 c (r.st n) := fun n => qinv3_reachable (hreach n)
  obtain ⟨n, _, hz⟩ := rem_reaches_zero r fair hf ht h2 h3 (rem (r.st 0)) 0 (Nat.le_refl _)
  refine ⟨n, fun m hm => ?_⟩
  have hzm : rem (r.st m) = 0 := by have := run_rem_mono' r hm; omega
  have hinv := qinv_reachable (hreach m)
  unfold QInv at hinv
  unfold rem at hzm
  have hfp : (r.st m).fromPanel = [] := List.eq_nil_of_length_eq_zero (by omega)
  rw [← hinv, hfp]
  cases hr : (r.st m).readerRunning with
  | false => simp
  | true =>
    have : (r.st m).stream = [] := by
      rw [hr] at hzm; simp only [if_true] at hzm
      exact List.eq_nil_of_length_eq_zero (by omega)
    simp [this, goodPrefix]

/-- AT MOST THE QUEUE IS LOST AT A BROKEN FRAME (reader with the over-limit `return`, every capacity, both loop
variants): once the reader has stopped at a broken frame, every forwarded message before that frame has been
dispatched or is in `fromPanel` — so if the dispatcher stops at the cancelled context right then, no more than
`c.fromPanel` messages (the last ones) go undispatched.  The driver and the monitor demand accordingly all but the last
`Gen.gorwpFromPanelCap` events sent right before an over-limit header. -/
theorem at_most_queue_capacity_lost_at_broken_frame (c : Caps) (dec : Bool) (stream0 : List Frame) (s : QSt)
    (h : QReachable c true dec stream0 s) (hr : s.readerRunning = false) :
    s.dispatched ++ s.fromPanel.map (·.1) = goodPrefix stream0
    ∧ (goodPrefix stream0).length ≤ s.dispatched.length + c.fromPanel := by
  have hi := qinv_reachable h
  have h3 := (qinv3_reachable h).2
  unfold QInv at hi
  rw [hr] at hi
  simp only [Bool.false_eq_true, if_false, List.append_nil] at hi
  refine ⟨hi, ?_⟩
  rw [← hi, List.length_append, List.length_map]
  omega

/-! ## (c) the reader's read deadlines

`Model/Gorwp.lean` (c): the timed LTS of `readFromPanel` with every `SetReadDeadline` call site as a field of the
configuration; `coded` is built from what the extractor reads in the source (constants AND the syntactic places of the
resets), so the statements about `coded` stop to check when a reset is moved. -/

/-- the initialisation window of the property text (2 s) is the constant `init` waits for -/
theorem init_window_is_the_documented_one : Gen.gorwpInitWindowMs = Spec.Gorwp.initWindowMs := by decide

/-- the code has its resets where the theorems below need them (binary: first statement of the frame loop; ASCII:
before the line loop, nothing in it) and arms the payload deadline with the extracted constant; the heartbeat
period of the client is shorter than that deadline -/
theorem coded_resets_in_place :
    coded.hdrClear false = true ∧ coded.hdrClear true = true ∧ coded.binPayload = .arm Gen.gorwpFrameTimeoutMs
    ∧ Gen.gorwpHeartbeatMs < Gen.gorwpFrameTimeoutMs := by decide

/-- **QUIET PERIODS ARE HARMLESS** (either mode; every configuration that has the header reset — binary: at the loop
top; ASCII: at the loop top or before a loop without deadline calls): in every reachable state in which the reader
waits for a header / a line, no read deadline is armed and `expire` is not enabled, whatever the time.  So no silence
of the panel, however long, ends the connection. -/
theorem quiet_period_harmless (cfg : DlCfg) (ascii : Bool) (hc : cfg.hdrClear ascii = true) (s : RdSt)
    (h : RdReach cfg ascii s) (hp : s.phase = .header) :
    s.rd = none ∧ ∀ now, rstep cfg ascii s (.expire now) = none := by
  have hd := hdrInv_reachable hc h hp
  exact ⟨hd, fun now => by simp [rstep, hd]⟩

/-- … for the code as the extractor reads it, in both modes -/
theorem quiet_period_harmless_coded (ascii : Bool) (s : RdSt) (h : RdReach coded ascii s) (hp : s.phase = .header) :
    s.rd = none ∧ ∀ now, rstep coded ascii s (.expire now) = none :=
  quiet_period_harmless coded ascii (by cases ascii <;> decide) s h hp

/-- **a deadline fires only inside a late frame**: with the header reset in place and the payload deadline `T`, the
timeout can fire only while the reader waits for a payload, and only `T` ms or more after that frame's header -/
theorem expire_only_inside_late_frame (cfg : DlCfg) (ascii : Bool) (T : Nat) (hc : cfg.hdrClear ascii = true)
    (hpay : cfg.binPayload = .arm T) (s s' : RdSt) (now : Nat) (h : RdReach cfg ascii s)
    (hx : rstep cfg ascii s (.expire now) = some s') : s.phase = .payload ∧ s.lastHdr + T ≤ now := by
  obtain ⟨d, hd, hns, _, hdn, _⟩ := rstep_expire hx
  have hh := hdrInv_reachable hc h
  have hp := payInv_reachable hpay h
  cases hph : s.phase with
  | header => have := hh hph; rw [this] at hd; cases hd
  | stopped => exact absurd hph hns
  | payload =>
    have := hp hph
    rw [this] at hd
    have : d = s.lastHdr + T := (Option.some.inj hd).symm
    exact ⟨rfl, by omega⟩

/-- **the loop-top reset is needed where it is** (the shape of seeded change C19-7: the reset hoisted out of the frame
loop): after one frame the payload deadline stays armed, 2 s of silence end the connection and the frame that comes
after the silence is not read; the code as it is reads it. -/
theorem reset_hoisted_counterexample :
    (rrun (resetHoisted coded) false (RdSt.start (resetHoisted coded) false 0 10) [.hdr 100, .body 101, .expire 2100]).map (·.phase)
      = some .stopped
    ∧ rrun (resetHoisted coded) false (RdSt.start (resetHoisted coded) false 0 10) [.hdr 100, .body 101, .hdr 2700] = none
    ∧ (rrun coded false (RdSt.start coded false 0 10) [.hdr 100, .body 101, .hdr 2700, .body 2701]).map (·.forwarded) = some 2
    ∧ rrun coded false (RdSt.start coded false 0 10) [.hdr 100, .body 101, .expire 2100] = none := by decide

/-- … and why a panel that acknowledges the client's heartbeat hides it: in that configuration (payload deadline `T`)
the timeout can fire only `T` ms or more after the header of the LAST frame — a panel that sends any frame (an
acknowledge per heartbeat, period `Gen.gorwpHeartbeatMs` < `T`, `coded_resets_in_place`) at shorter intervals is never
dropped; only a real silence of `T` shows the defect -/
theorem hoisted_reset_needs_silence (cfg : DlCfg) (T : Nat) (hpay : cfg.binPayload = .arm T)
    (hb : cfg.binBeforeLoop = .clear) (ht : cfg.binLoopTop = .skip) (s s' : RdSt) (now : Nat)
    (h : RdReach cfg false s) (hx : rstep cfg false s (.expire now) = some s') : s.lastHdr + T ≤ now := by
  obtain ⟨d, hd, _, _, hdn, _⟩ := rstep_expire hx
  have := staleInv_reachable hpay hb ht h d hd
  omega

/-! ## non-vacuity -/

/-- a reachable state of the timed reader that waits for a header after two frames and 5 s of silence in between -/
example : ∃ s, RdReach coded false s ∧ s.phase = .header ∧ s.forwarded = 2 ∧ s.clock = 5101 := by
  refine ⟨⟨.header, none, 5101, 5100, 2⟩, ?_, rfl, rfl, rfl⟩
  have h0 := RdReach.start (cfg := coded) (ascii := false) 0 10 (by omega)
  have h1 := RdReach.step (.hdr 100) h0 (s' := ⟨.payload, some 2100, 100, 100, 0⟩) (by decide)
  have h2 := RdReach.step (.body 101) h1 (s' := ⟨.header, none, 101, 100, 1⟩) (by decide)
  have h3 := RdReach.step (.hdr 5100) h2 (s' := ⟨.payload, some 7100, 5100, 5100, 1⟩) (by decide)
  exact RdReach.step (.body 5101) h3 (by decide)

/-- the timeout does fire inside a stalled frame (so `expire_only_inside_late_frame` is not vacuous) -/
example : (rrun coded false (RdSt.start coded false 0 10) [.hdr 100, .expire 2100]).map (·.phase) = some .stopped := by decide
/-- ASCII: lines after long silences are read -/
example : (rrun coded true (RdSt.start coded true 0 2010) [.line 2100, .line 9000]).map (·.forwarded) = some 2 := by decide
/-- the hoisted configuration satisfies the hypotheses of `hoisted_reset_needs_silence` -/
example : (resetHoisted coded).binPayload = .arm Gen.gorwpFrameTimeoutMs ∧ (resetHoisted coded).binBeforeLoop = .clear
    ∧ (resetHoisted coded).binLoopTop = .skip := by decide
/-- a stopped reader with two messages still queued: they are the last two of the good prefix -/
example : (qrun caps true true (qinit [.valid 1 0, .valid 2 0, .valid 3 0, .overLimit, .valid 4 0])
    [.readerFrame, .loopTakeFrom, .readerFrame, .readerFrame, .readerFrame]).map
      (fun s => decide (s.readerRunning = false ∧ s.dispatched = [1] ∧ s.fromPanel.map (·.1) = [2, 3])) = some true := by decide

/-! ## non-vacuity, (a) and (b) -/

example : checkLog (toSBindings { trigger := [1], binary := [1, 2] })
    (eventsOf (histItems [{ events := [{ id := 1, binary := some ⟨true, 4⟩ }, { id := 2, pulsed := some 1 }, { id := 2, binary := some ⟨false, 0⟩ }] }]))
    [.trigger 1 (toSEvent { id := 1, binary := some ⟨true, 4⟩ }), .binary 1 1 4, .binary 2 0 0] = .ok := by decide

example : (dispatch { trigger := [1], binary := [1, 2] }
    [{ events := [{ id := 1, binary := some ⟨true, 4⟩ }, { id := 2, pulsed := some 1 }, { id := 2, binary := some ⟨false, 0⟩ }] }]).length = 3 := by decide

/-- the checker is not trivially `ok`: a duplicated invocation, a missing one, one of an unbound handler, one with a
wrong argument and two groups in the wrong order are rejected; the order inside one group is free -/
example : checkLog { binary := [1] } [{ id := 1, binary := some (true, 0) }] [.binary 1 1 0, .binary 1 1 0] = .extra := by decide
example : checkLog { binary := [1], trigger := [1] } [{ id := 1, binary := some (true, 0) }] [.binary 1 1 0, .binary 1 1 0] = .mismatch := by decide
example : checkLog { binary := [1] } [{ id := 1, binary := some (true, 0) }] [] = .short := by decide
example : checkLog { binary := [1] } [{ id := 1, binary := some (true, 0) }] [.pulsed 1 1] = .mismatch := by decide
example : checkLog { binary := [1] } [{ id := 1, binary := some (true, 4) }] [.binary 1 0 4] = .mismatch := by decide
example : checkLog { binary := [1, 2] } [{ id := 1, binary := some (true, 0) }, { id := 2, binary := some (true, 0) }]
    [.binary 2 1 0, .binary 1 1 0] = .mismatch := by decide
example : checkLog { binary := [1], trigger := [1] } [{ id := 1, binary := some (true, 0) }]
    [.binary 1 1 0, .trigger 1 { id := 1, binary := some (true, 0) }] = .ok := by decide

/-- a handler registered between two events of the same component sees the second one only -/
example : dispatchDyn {} [.event { id := 3, pulsed := some 1 }, .bind .pulsed 3, .event { id := 3, pulsed := some (-1) }]
    = [.pulsed 3 (-1)] := by decide
example : checkLogDyn {} [.event { id := 3, pulsed := some 1 }, .bind .pulsed 3, .event { id := 3, pulsed := some (-1) }]
    [.pulsed 3 1, .pulsed 3 (-1)] = .mismatch := by decide

/-- an acknowledge that carries nothing is dropped without loss -/
example : clientLog .bare { binary := [1] } [{ flow := .ack }, { events := [{ id := 1, binary := some ⟨true, 0⟩ }] }]
    = [.binary 1 1 0] := by decide

/-- the four items arriving in two messages make `Connect` succeed in both variants; the SVG arriving after the
window makes it fail -/
example : connect true [.dispatched { info := some { model := [77], serial := [83] } },
    .dispatched { topo := some { json := [123], svg := [60] } }, .ctxDone] = true := by decide
example : connect false [.dispatched { info := some { model := [77], serial := [83] } },
    .dispatched { topo := some { json := [123] } }, .windowClosed, .dispatched { topo := some { svg := [60] } }] = false := by decide

/-- a reachable state of the code as it is in which the dispatcher is blocked and events are pending -/
example : (qrun caps true true (qinit burst) deadlockTrace).map (fun s => blocked caps s && pending s) = some true := by decide

/-- the measure of that burst -/
example : measure caps (qinit burst) = (caps.toPanel + 2) * (2 + (caps.toPanel + 1)) := by decide

/-- a fair run: read, take, send, then writer and ticker in turn for ever -/
def demoSt : Nat → QSt
  | 0 => qinit [.valid 7 1]
  | 1 => { stream := [], fromPanel := [(7, 1)] }
  | 2 => { stream := [], dispatched := [7], loop := .sending 1 }
  | k + 3 => { stream := [], dispatched := [7], toPanel := (k + 1) % 2, written := (k + 1) / 2 }

def demoLb : Nat → QLbl
  | 0 => .readerFrame
  | 1 => .loopTakeFrom
  | 2 => .loopSend
  | k + 3 => if k % 2 = 0 then .writerDrain else .tick

def demoRun : QRun caps true where
  st := demoSt
  lb := demoLb
  step := by
    intro n
    match n with
    | 0 => decide
    | 1 => decide
    | 2 => decide
    | k + 3 =>
      show qstep caps true true (demoSt (k + 3)) (demoLb (k + 3)) = some (demoSt (k + 1 + 3))
      simp only [demoSt, demoLb]
      by_cases hk : k % 2 = 0
      · have h1 : (k + 1) % 2 = 1 := by omega
        have h2 : (k + 1 + 1) % 2 = 0 := by omega
        have h3 : (k + 1 + 1) / 2 = (k + 1) / 2 + 1 := by omega
        simp [hk, qstep, h1, h2, h3]
      · have h1 : (k + 1) % 2 = 0 := by omega
        have h2 : (k + 1 + 1) % 2 = 1 := by omega
        have h3 : (k + 1 + 1) / 2 = (k + 1) / 2 := by omega
        simp [hk, qstep, h1, h2, h3, caps, Gen.gorwpToPanelCap]

theorem demo_fair : ∀ l, l ≠ QLbl.tick → demoRun.Fair l := by
  intro l hl hen n
  -- from step 3 on only the writer's step is ever enabled (besides the ticker)
  have hw : ∀ k, ¬ enabled caps true (demoSt (k + 3)) .readerFrame ∧ ¬ enabled caps true (demoSt (k + 3)) .loopTakeFrom
      ∧ ¬ enabled caps true (demoSt (k + 3)) .loopSend ∧ ¬ enabled caps true (demoSt (k + 3)) .loopDrain := by
    intro k; simp [enabled, qstep, demoSt]
  cases l with
  | tick => exact absurd rfl hl
  | writerDrain =>
    -- taken at every even offset
    refine ⟨2 * n + 3, by omega, ?_⟩
    show demoLb (2 * n + 3) = .writerDrain
    simp [demoLb]
  | readerFrame => obtain ⟨m, hm, he⟩ := hen 3; obtain ⟨k, rfl⟩ := Nat.exists_eq_add_of_le hm; rw [Nat.add_comm] at he; exact absurd he (hw k).1
  | loopTakeFrom => obtain ⟨m, hm, he⟩ := hen 3; obtain ⟨k, rfl⟩ := Nat.exists_eq_add_of_le hm; rw [Nat.add_comm] at he; exact absurd he (hw k).2.1
  | loopSend => obtain ⟨m, hm, he⟩ := hen 3; obtain ⟨k, rfl⟩ := Nat.exists_eq_add_of_le hm; rw [Nat.add_comm] at he; exact absurd he (hw k).2.2.1
  | loopDrain => obtain ⟨m, hm, he⟩ := hen 3; obtain ⟨k, rfl⟩ := Nat.exists_eq_add_of_le hm; rw [Nat.add_comm] at he; exact absurd he (hw k).2.2.2

example : ∃ n, ∀ m, n ≤ m → (demoRun.st m).dispatched = [7] :=
  all_dispatched_eventually caps caps_pos.1 caps_pos.2 [.valid 7 1] demoRun rfl demo_fair


example : isInitialized (finalState {} [{ info := some { model := [77], serial := [83] } }, { topo := some { json := [123], svg := [60] } }]) = true := by decide

end RawPanelVerif.C19
