import RawPanelVerif.Lemmas.OutSound
/-!
# C03 — Panel messages keep their meaning when written as ASCII lines

Statements are about the encoder model `EncOut.encOut` (= `OutboundMessagesToRawPanelASCIIstrings`, tied by the
correspondence) read by the independent reader `Spec.Out.readLine` / `readOutbound`.

Kernels, each for ALL values (no bounds, no enumeration):
* `event_line`       : every id (32 bit) × edge ∈ {0,1,2,4,8,16} × pressed — the reader returns the event;
* `value_ranges`     : `%d` of every signed / unsigned 32-bit value re-reads to the same value (incl. the boundaries);
  `enc_line`, `speed_line`, `abs_line`, `raw_line` : the four value-carrying event lines;
* `caps_all_subsets` : all 2^13 capability sets, proved over the capability table;
* `map_line`, `register_line`;
* `encOut_no_lf`     : no returned string contains a line feed (C07 at the return site), for every input.

Main theorem:
* `encOut_sound` : for every list of messages of the ASCII-representable domain (`Spec.Out.inDomainOut`, decidable: every
  numeric field in its 32-bit range, edges in {0,1,2,4,8,16}, enums in range, identity strings without LF, list items
  without `;`/LF/outer white space, register ids in `[A-Z0-9]*` (FLAG: decimal), SysStat float texts numerals, JSON of the
  network configuration re-parsing to it) the independent reader of the produced lines returns EXACTLY
  `ms.flatMap effectsOfOut` — every section, in message order, any number of messages / events / registers / map entries.
  Hence (`encOut_sound_approx`) the executable comparison `Spec.Out.approx` the check evaluates on the real output holds.
  Two extra hypotheses, both visible:
  - `flatMsg`: every payload field (SVG, JSON, message text) is EITHER ASCII — with any line feeds, indentation and white
    space whatsoever: for these the theorem proves that the C07 flattening keeps exactly the white-space-free content
    (`OutLemmas.content_strip_ascii`, `content_stripSvg_ascii`) — OR arbitrary bytes on which the flattening is the
    identity (no LF, no white space at the ends; SVG: empty or ending in `>`).  NOT YET PROVED: multi-line payloads
    containing non-ASCII bytes,
      -- theorem encOut_sound_full (h : inDomainOut o ms = true) (hpf : ∀ t, o.parseF t = t) :
      --   readOutbound o (encOut o ms) = ms.flatMap (effectsOfOut o)
    The missing link is `content (stripLineBreaks s) = content s` for valid UTF-8 `s` with multi-byte white-space runes
    at line edges (the same link C07 leaves to the correspondence); the check evaluates exactly this statement on the
    real encoder's output for such payloads.
  - `∀ t, o.parseF t = t`: in this direction float values are compared as the decimal text the line carries
    (`effectsOfOut` takes the `%.1f`/`%.2f` text from the oracle); no float is interpreted.
  The availability map is emitted in the order of the association list, so the theorem covers every order Go's map
  iteration may choose.
-/
namespace RawPanelVerif.C03
open RawPanelVerif RawPanelVerif.Bytes RawPanelVerif.MsgOut RawPanelVerif.EncOut RawPanelVerif.Spec.Out

/-- every binary event line is read back as the event it was made from -/
theorem event_line (o : OutOracle) (id : Nat) (hid : id ≤ u32Max) (edge : Int) (he : edgeOk edge = true) (pressed : Bool) :
    readLine o (binaryLine id ⟨pressed, edge⟩) = .grammar [.event .binary id edge.toNat pressed 0] :=
  OutLemmas.event_line o id hid edge he pressed

/-- `%d` of a signed 32-bit value (`itoa`) and of an unsigned 32-bit value (`utoa`) re-read to the same value: the full
ranges −2^31 … 2^31−1 and 0 … 2^32−1, boundaries included -/
theorem value_ranges :
    (∀ v : Int, inI32 v = true → readInt (itoa v) = some v) ∧
    (∀ n : Nat, n ≤ u32Max → readNum (utoa n) = some n ∧ readInt (utoa n) = some (n : Int)) := by
  constructor
  · intro v hv
    obtain ⟨h1, h2⟩ := OutLemmas.inI32_range v hv
    exact OutLemmas.readInt_itoa v (by omega) (by omega)
  · intro n hn
    exact ⟨OutLemmas.readNum_digitsOf n hn, OutLemmas.readInt_utoa n hn⟩

theorem enc_line (o : OutOracle) (id : Nat) (hid : id ≤ u32Max) (v : Int) (hv : inI32 v = true) :
    readLine o (valueLine id (asc "Enc") (itoa v)) = .grammar [.event .enc id 0 false v] := OutLemmas.enc_line o id hid v hv
theorem speed_line (o : OutOracle) (id : Nat) (hid : id ≤ u32Max) (v : Int) (hv : inI32 v = true) :
    readLine o (valueLine id (asc "Speed") (itoa v)) = .grammar [.event .speed id 0 false v] := OutLemmas.speed_line o id hid v hv
theorem abs_line (o : OutOracle) (id : Nat) (hid : id ≤ u32Max) (v : Nat) (hv : v ≤ u32Max) :
    readLine o (valueLine id (asc "Abs") (utoa v)) = .grammar [.event .abs id 0 false v] := OutLemmas.abs_line o id hid v hv
theorem raw_line (o : OutOracle) (id : Nat) (hid : id ≤ u32Max) (v : Nat) (hv : v ≤ u32Max) :
    readLine o (valueLine id (asc "Raw") (utoa v)) = .grammar [.event .raw id 0 false v] := OutLemmas.raw_line o id hid v hv

/-- all 2^13 capability sets -/
theorem caps_all_subsets (o : OutOracle) (s : Support) :
    readLine o (supportLine s) =
      if (supportFlags s).any id then .grammar [.support (supportFlags s)] else .nonGrammar :=
  OutLemmas.caps_all_subsets o s

theorem map_line (o : OutOracle) (k v : Nat) (hk : k ≤ u32Max) (hv : v ≤ u32Max) :
    readLine o (mapLine (k, v)) = .grammar [.mapEntry k v] := OutLemmas.map_line o k v hk hv

theorem register_line (o : OutOracle) (r : Register) (hr : registerOk r = true) :
    readOutbound o (registerLines r) = regEff r := OutLemmas.register_line o r hr

/-- no string the encoder returns contains a line feed — for every list of messages -/
theorem encOut_no_lf (o : OutOracle) (ms : List OutMsg) : ∀ l ∈ encOut o ms, (10 : UInt8) ∉ l := by
  intro l hl
  unfold encOut at hl
  simp only [List.mem_map] at hl
  obtain ⟨r, _, rfl⟩ := hl
  exact C07.singleLine_no_lf r

/-- the domain of `encOut_sound` -/
def InDomainOutFlat (o : OutOracle) (ms : List OutMsg) : Prop := inDomainOut o ms = true ∧ ms.all OutLemmas.flatMsg = true

instance (o : OutOracle) (ms : List OutMsg) : Decidable (InDomainOutFlat o ms) := by unfold InDomainOutFlat; infer_instance

/-- **Soundness of the encoder**: the produced lines, read by the independent reader, report exactly the events and
information the messages carry, in message order. -/
theorem encOut_sound (o : OutOracle) (ms : List OutMsg) (h : InDomainOutFlat o ms) (hpf : ∀ t, o.parseF t = t) :
    readOutbound o (encOut o ms) = ms.flatMap (effectsOfOut o) := by
  obtain ⟨hd, hf⟩ := h
  unfold inDomainOut at hd
  rw [List.all_eq_true] at hd hf
  rw [OutLemmas.encOut_R]
  exact OutLemmas.flatMap_congr' ms _ _ (fun m hm => OutLemmas.msg_sound o m (hd m hm) (hf m hm) hpf)

/-- … hence the comparison the check runs on the implementation's output (`approx`: per message; events and registers in
order; the other effects, in particular the map entries, as a multiset) holds for the model's output -/
theorem encOut_sound_approx (o : OutOracle) (ms : List OutMsg) (h : InDomainOutFlat o ms) (hpf : ∀ t, o.parseF t = t) :
    approx (ms.map (effectsOfOut o)) (readOutbound o (encOut o ms)) = true := by
  rw [encOut_sound o ms h hpf, List.flatMap_def]
  exact OutLemmas.approx_flatten _

def exOracle : OutOracle := ⟨fun _ t => t, fun t => t, fun _ => asc "{}", fun _ => some {}⟩

def exMsgs : List OutMsg :=
  [{ flow := 1 },
   { panelInfo := some { model := asc "SK_X", maxClients := 4294967295, lockedToIPs := [asc "10.0.0.1", asc "a b"], panelType := 5,
                         bluePillReady := true, support := some { ascii := true, networkSettings := true } },
     topology := some { svgbase := asc "<svg>\n  <path d=\"M0 0\n  L1 1\"/>\n</svg>\n", json := asc "{\n  \"a\": [ 1,\r\n\t2 ]\n}" },
     netConfig := some {}, sleepTimeout := some 0, sleepState := some false, connections := some [],
     runTimeStats := some { bootsCount := 7 }, message := some (asc "hello\n  world "),
     avail := [(1, 4294967295), (65535, 0)], envHealth := some 2,
     sysStat := some { cpuUsage := 99, cpuTemp := asc "45.3", cpuVoltage := asc "-0.00", memFree := -2147483648, throttled := true },
     events := [{ hwcid := 4294967295, binary := some ⟨true, 16⟩ }, { hwcid := 5, pulsed := some (-2147483648), rawAnalog := some 4294967295 }],
     registers := [⟨1, asc "007", 5⟩, ⟨3, asc "A9", 4294967295⟩] }]

/-- non-vacuity of `encOut_sound`: a two-message list with every kind of section is in the domain -/
example : InDomainOutFlat exOracle exMsgs := by decide

/-- non-vacuity: a concrete event at the top of the ranges -/
example : edgeOk 16 = true ∧ (4294967295 : Nat) ≤ u32Max ∧ inI32 (-2147483648) = true := by decide

end RawPanelVerif.C03
