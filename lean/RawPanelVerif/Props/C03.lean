import RawPanelVerif.Lemmas.OutSound
import RawPanelVerif.Lemmas.OutCBinding
import RawPanelVerif.Gen.Consts
/-!
# C03 — Panel messages keep their meaning when written as ASCII lines

Statements are about the encoder model `EncOut.encOut` (= `OutboundMessagesToRawPanelASCIIstrings`, tied by the
correspondence) read by the independent reader `Spec.Out.readLine` / `readOutbound`.

Kernels, each for ALL values (no bounds, no enumeration):
* `event_line`       : every id (32 bit) × edge ∈ {0,1,2,4,8,16} × pressed — the reader returns the event;
* `value_ranges`     : `%d` of every signed / unsigned 32-bit value re-reads to the same value (incl. the boundaries);
  `enc_line`, `speed_line`, `abs_line`, `raw_line` : the four value-carrying event lines;
* `caps_all_subsets` : all 2^13 capability sets, proved over the capability table; `caps_table_tie` : that table
  (`Cap.all`, `Cap.name`, `Cap.goField`) IS the one regenerated from the encoder's and the decoder's Go source;
* `map_line`, `register_line`;
* `encOut_no_lf`     : no returned string contains a line feed (C07 at the return site), for every input;
* `msg_line_verbatim`, `errormsg_line_verbatim`, `profile_lines_verbatim`, `topology_lines_verbatim` : a message text /
  error text / JSON profile / topology JSON without line feed and without white space at its two ends is on the
  produced line byte for byte (interior white space included); the SVG likewise plus one blank where it does not end
  in `>`; `payload_exact_noLF` : the Spec's effect of such a payload is the payload itself (up to the white space at
  its two ends), so an encoder that eats interior blanks fails both the theorem and the check on its real output.

Main theorem:
* `encOut_sound_full` : for every list of messages of the ASCII-representable domain (`Spec.Out.inDomainOut`, decidable:
  every numeric field in its 32-bit range, edges in {0,1,2,4,8,16}, enums in range, identity strings without LF, list items
  without `;`/LF/outer white space, register ids in `[A-Z0-9]*` (FLAG: decimal), SysStat float texts numerals, JSON of the
  network configuration re-parsing to it, every payload field (SVG, JSON, message text) valid UTF-8) the independent reader
  of the produced lines returns EXACTLY `ms.flatMap effectsOfOut` — every section, in message order, any number of
  messages / events / registers / map entries.
  Hence (`encOut_sound_full_approx`) the executable comparison `Spec.Out.approx` the check evaluates on the real output holds.
  Payload fields may have any line structure, indentation and white space whatsoever, including multi-byte white-space
  runes (NBSP, U+2003, U+3000 …) at line edges.  JSON profiles, topology JSON and message texts are compared in the C07
  normal form `Spec.Out.normLines` (every line without the white space at its two ends, concatenated): everything but
  line feeds and white space at line edges must survive, in order — interior white space included.  This needs the
  flattening of a valid UTF-8 string to be trimmed again (`Strip.strip_trimmed`, Lemmas/StripIdem.lean: no white-space
  rune forms across a joint or at the ends); for byte strings that are not valid UTF-8 it is false
  (`C07.contentEq_invalid_utf8_counterexample`: `E2 80 ⏎ 85 41` flattens to a string beginning with U+2005).
  The topology SVG alone is compared by its white-space-free content (`Spec.Strip.contentOf`), for every byte string:
  its flattening inserts a blank where a line does not end in `>`.
  `encOut_sound` is the earlier statement with the additional hypothesis `flatMsg` (payloads ASCII, or flattening =
  identity), kept unchanged; it is now a corollary.
  One extra hypothesis, visible:
  - `∀ t, o.parseF t = t`: in this direction float values are compared as the decimal text the line carries
    (`effectsOfOut` takes the `%.1f`/`%.2f` text from the oracle); no float is interpreted.
  The availability map is emitted in the order of the association list, so the theorem covers every order Go's map
  iteration may choose.

Fields the ASCII form does not carry:
* `proto_fields_partition`, `enc_ignores_noncarried`, `encOutX_sound` : the field names of the proto definitions split
  into the ones the encoder model reads and five it has no line for (bus status, event time stamp, previous value of
  absolute / speed events); message lists that differ only there encode equally, and the reader gets the effects of the
  carried part.  Correspondence: `eout.fields` (the two lists = the real protobuf descriptors), `eout.msgsx` (real encoder
  on messages with these fields set, arbitrary and coinciding with carried values).

C binding (`rawpanel-lib-c/main.go` `OutboundMessageToRawPanelASCIIstring`: LF-join, `C.CString`):
* `cbinding_lines` : if no returned string contains NUL, the C caller (reading to the first NUL, splitting at LF) gets
  exactly the returned strings; `encOut_no_nul` : no NUL in the message's strings / oracle texts ⇒ none in the output
  (every output byte is a field byte, a printable ASCII byte or the blank replacing a line feed);
  `cbinding_nul_truncates_counterexample` : a NUL in a field cuts the C string there (observation; NUL is not printable).
-/
namespace RawPanelVerif.C03
open RawPanelVerif RawPanelVerif.Bytes RawPanelVerif.MsgOut RawPanelVerif.EncOut RawPanelVerif.Spec.Out

/-- every binary event line is read back as the event it was made from -/
theorem event_line (o : OutOracle) (id : Nat) (hid : id ≤ u32Max) (edge : Int) (he : edgeOk edge = true) (pressed : Bool) :
    readLine o (binaryLine id ⟨pressed, edge⟩) = .grammar [.event .binary id edge.toNat pressed 0] :=
  OutLemmas.event_line o id hid edge he pressed

/-- `%d` of a signed 32-bit value (`itoa`) and of an unsigned 32-bit value (`utoa`) re-read to the same value: the full
ranges −2^31 … 2^31−1 and 0 … 2^32−1, boundaries included -/
theorem value_ranges :
    (∀ v : Int, inI32 v = true → readInt (itoa v) = some v) ∧
    (∀ n : Nat, n ≤ u32Max → readNum (utoa n) = some n ∧ readInt (utoa n) = some (n : Int)) := by
  constructor
  · intro v hv
    obtain ⟨h1, h2⟩ := OutLemmas.inI32_range v hv
    exact OutLemmas.readInt_itoa v (by omega) (by omega)
  · intro n hn
    exact ⟨OutLemmas.readNum_digitsOf n hn, OutLemmas.readInt_utoa n hn⟩

theorem enc_line (o : OutOracle) (id : Nat) (hid : id ≤ u32Max) (v : Int) (hv : inI32 v = true) :
    readLine o (valueLine id (asc "Enc") (itoa v)) = .grammar [.event .enc id 0 false v] := OutLemmas.enc_line o id hid v hv
theorem speed_line (o : OutOracle) (id : Nat) (hid : id ≤ u32Max) (v : Int) (hv : inI32 v = true) :
    readLine o (valueLine id (asc "Speed") (itoa v)) = .grammar [.event .speed id 0 false v] := OutLemmas.speed_line o id hid v hv
theorem abs_line (o : OutOracle) (id : Nat) (hid : id ≤ u32Max) (v : Nat) (hv : v ≤ u32Max) :
    readLine o (valueLine id (asc "Abs") (utoa v)) = .grammar [.event .abs id 0 false v] := OutLemmas.abs_line o id hid v hv
theorem raw_line (o : OutOracle) (id : Nat) (hid : id ≤ u32Max) (v : Nat) (hv : v ≤ u32Max) :
    readLine o (valueLine id (asc "Raw") (utoa v)) = .grammar [.event .raw id 0 false v] := OutLemmas.raw_line o id hid v hv

/-- all 2^13 capability sets -/
theorem caps_all_subsets (o : OutOracle) (s : Support) :
    readLine o (supportLine s) =
      if (supportFlags s).any id then .grammar [.support (supportFlags s)] else .nonGrammar :=
  OutLemmas.caps_all_subsets o s

theorem map_line (o : OutOracle) (k v : Nat) (hk : k ≤ u32Max) (hv : v ≤ u32Max) :
    readLine o (mapLine (k, v)) = .grammar [.mapEntry k v] := OutLemmas.map_line o k v hk hv

theorem register_line (o : OutOracle) (r : Register) (hr : registerOk r = true) :
    readOutbound o (registerLines r) = regEff r := OutLemmas.register_line o r hr

/-- no string the encoder returns contains a line feed — for every list of messages -/
theorem encOut_no_lf (o : OutOracle) (ms : List OutMsg) : ∀ l ∈ encOut o ms, (10 : UInt8) ∉ l := by
  intro l hl
  unfold encOut at hl
  simp only [List.mem_map] at hl
  obtain ⟨r, _, rfl⟩ := hl
  exact C07.singleLine_no_lf r

/-- **Soundness of the encoder**: the produced lines, read by the independent reader, report exactly the events and
information the messages carry, in message order — for every list of messages of the domain. -/
theorem encOut_sound_full (o : OutOracle) (ms : List OutMsg) (h : inDomainOut o ms = true) (hpf : ∀ t, o.parseF t = t) :
    readOutbound o (encOut o ms) = ms.flatMap (effectsOfOut o) := by
  unfold inDomainOut at h
  rw [List.all_eq_true] at h
  rw [OutLemmas.encOut_R]
  exact OutLemmas.flatMap_congr' ms _ _ (fun m hm => OutLemmas.msg_sound_full o m (h m hm) hpf)

/-- … hence the comparison the check runs on the implementation's output (`approx`: per message; events and registers in
order; the other effects, in particular the map entries, as a multiset) holds for the model's output -/
theorem encOut_sound_full_approx (o : OutOracle) (ms : List OutMsg) (h : inDomainOut o ms = true) (hpf : ∀ t, o.parseF t = t) :
    approx (ms.map (effectsOfOut o)) (readOutbound o (encOut o ms)) = true := by
  rw [encOut_sound_full o ms h hpf, List.flatMap_def]
  exact OutLemmas.approx_flatten _

/-- the domain of `encOut_sound` (the earlier, narrower statement) -/
def InDomainOutFlat (o : OutOracle) (ms : List OutMsg) : Prop := inDomainOut o ms = true ∧ ms.all OutLemmas.flatMsg = true

instance (o : OutOracle) (ms : List OutMsg) : Decidable (InDomainOutFlat o ms) := by unfold InDomainOutFlat; infer_instance

theorem encOut_sound (o : OutOracle) (ms : List OutMsg) (h : InDomainOutFlat o ms) (hpf : ∀ t, o.parseF t = t) :
    readOutbound o (encOut o ms) = ms.flatMap (effectsOfOut o) := encOut_sound_full o ms h.1 hpf

theorem encOut_sound_approx (o : OutOracle) (ms : List OutMsg) (h : InDomainOutFlat o ms) (hpf : ∀ t, o.parseF t = t) :
    approx (ms.map (effectsOfOut o)) (readOutbound o (encOut o ms)) = true := encOut_sound_full_approx o ms h.1 hpf

def exOracle0 : OutOracle := ⟨fun _ t => t, fun t => t, fun _ => [], fun _ => none⟩

/-! ## payloads: what the produced line carries, exactly -/

theorem flowLines0 : flowLines 0 = [] := by decide

theorem strip_flat (t : Bytes) (h10 : noLF t = true) (ht : trimSpace t = t) : Strip.stripLineBreaks t = t := by
  rw [Strip.strip_noLF t ((OutLemmas.noLF_iff t).1 h10), ht]

theorem singleLine_key (k t : Bytes) (hk : (10 : UInt8) ∉ k) (h10 : noLF t = true) : Strip.singleLine (k ++ t) = k ++ t :=
  C07.singleLine_id _ (by
    intro h; simp only [List.mem_append] at h
    rcases h with h | h
    · exact hk h
    · exact (OutLemmas.noLF_iff t).1 h10 h)

/-- **A message text without line feed and without white space at its two ends is written verbatim**: every byte of it,
interior white space included, is on the produced line -/
theorem msg_line_verbatim (o : OutOracle) (t : Bytes) (h10 : noLF t = true) (ht : trimSpace t = t) :
    encOut o [{ message := some t }] = [kMsg ++ t] := by
  unfold encOut
  simp only [List.flatMap_cons, List.flatMap_nil, List.append_nil]
  unfold encMsgRaw
  simp only [flowLines0, optLine, optLines, List.append_nil, List.nil_append, List.map_nil, List.flatMap_nil, List.map_cons]
  rw [strip_flat t h10 ht, singleLine_key _ t (by decide) h10]

/-- likewise the error message, the three JSON profiles and the topology JSON -/
theorem errormsg_line_verbatim (o : OutOracle) (t : Bytes) (h10 : noLF t = true) (ht : trimSpace t = t) :
    encOut o [{ errorMsg := some t }] = [kErrorMsg ++ t] := by
  unfold encOut
  simp only [List.flatMap_cons, List.flatMap_nil, List.append_nil]
  unfold encMsgRaw
  simp only [flowLines0, optLine, optLines, List.append_nil, List.nil_append, List.map_nil, List.flatMap_nil, List.map_cons]
  rw [strip_flat t h10 ht, singleLine_key _ t (by decide) h10]

theorem profile_lines_verbatim (o : OutOracle) (t : Bytes) (h10 : noLF t = true) (ht : trimSpace t = t) :
    encOut o [{ burnin := some t }] = [kBurnin ++ t] ∧ encOut o [{ calibration := some t }] = [kCalib ++ t] ∧
    encOut o [{ defaultCalibration := some t }] = [kDefCalib ++ t] := by
  refine ⟨?_, ?_, ?_⟩ <;>
  · unfold encOut
    simp only [List.flatMap_cons, List.flatMap_nil, List.append_nil]
    unfold encMsgRaw
    simp only [flowLines0, optLine, optLines, List.append_nil, List.nil_append, List.map_nil, List.flatMap_nil, List.map_cons]
    rw [strip_flat t h10 ht, singleLine_key _ t (by decide) h10]

/-- the topology: the JSON verbatim; the SVG verbatim plus one blank where it does not end in `>` -/
theorem topology_lines_verbatim (o : OutOracle) (svg json : Bytes) (hs10 : noLF svg = true) (hst : trimSpace svg = svg)
    (hj10 : noLF json = true) (hjt : trimSpace json = json) :
    encOut o [{ topology := some { svgbase := svg, json := json } }] =
      [kSvgbase ++ (if Strip.endsWithGt svg then svg else svg ++ [32]), kTopoHWC ++ json] := by
  have hsvg : Strip.stripLineBreaksSvg svg = (if Strip.endsWithGt svg then svg else svg ++ [32]) := by
    unfold Strip.stripLineBreaksSvg
    rw [splitOn_nosep 10 svg ((OutLemmas.noLF_iff svg).1 hs10)]
    simp [Strip.svgPart, hst]
  unfold encOut
  simp only [List.flatMap_cons, List.flatMap_nil, List.append_nil]
  unfold encMsgRaw
  simp only [flowLines0, optLine, optLines, topologyLines, List.append_nil, List.nil_append, List.map_nil, List.flatMap_nil,
    List.map_cons]
  rw [strip_flat json hj10 hjt, singleLine_key _ json (by decide) hj10, hsvg]
  congr 1
  apply C07.singleLine_id
  intro h
  simp only [List.mem_append] at h
  rcases h with h | h
  · exact absurd h (by decide)
  · split at h
    · exact (OutLemmas.noLF_iff svg).1 hs10 h
    · simp only [List.mem_append, List.mem_singleton] at h
      rcases h with h | h
      · exact (OutLemmas.noLF_iff svg).1 hs10 h
      · exact absurd h (by decide)

/-- **the Spec compares such payloads exactly**: the effect of a JSON / message payload without line feed is the payload
itself up to the white space at its two ends (`normLines t = trimSpace t`) — a reader seeing `Msg=helloworld` for the
message text `hello world` reports a different effect -/
theorem payload_exact_noLF (key t : Bytes) (h10 : noLF t = true) :
    payloadEff key t = (if trimSpace t = [] then [] else [.info key (.payload (trimSpace t))]) := by
  unfold payloadEff
  rw [OutLemmas.normLines_eq_strip, Strip.strip_noLF t ((OutLemmas.noLF_iff t).1 h10)]

example : encOut exOracle0 [{ message := some (asc "hello  world") }] = [asc "Msg=hello  world"] ∧
    payloadEff (asc "Msg") (asc "hello  world") ≠ payloadEff (asc "Msg") (asc "helloworld") ∧
    payloadEff (asc "Msg") (asc "hello  world") ≠ payloadEff (asc "Msg") (asc "hello world") ∧
    payloadEff (asc "Msg") (asc " hello\n  world ") = payloadEff (asc "Msg") (asc "helloworld") := by decide

/-! ## the C binding -/

/-- **`rawpanel-lib-c` `OutboundMessageToRawPanelASCIIstring`**: the strings are joined with LF and handed over as a
NUL-terminated C string.  If no returned string contains a NUL byte, the C caller (reading up to the first NUL, splitting
at LF) recovers exactly the returned strings — in particular, by `encOut_sound_full`, the events and information of the
message.  (A message without any line, or whose only line is empty, arrives as the empty string.) -/
theorem cbinding_lines (o : OutOracle) (m : OutMsg) (h0 : ∀ l ∈ encOut o [m], (0 : UInt8) ∉ l) :
    cBindingLines o m = (if encOut o [m] = [[]] then [] else encOut o [m]) := OutLemmas.cbinding_lines o m h0

/-- no NUL in the string fields / list items / register ids / oracle texts of the messages (`OutLemmas.msgStrings`) ⇒ no
NUL in any returned string.  More generally every byte of a returned string is a byte of one of those strings, a
printable ASCII byte, or the blank replacing a line feed (`OutLemmas.encOut_bytes`). -/
theorem encOut_no_nul (o : OutOracle) (ms : List OutMsg) (hs : ∀ m ∈ ms, ∀ s ∈ OutLemmas.msgStrings o m, (0 : UInt8) ∉ s) :
    ∀ l ∈ encOut o ms, (0 : UInt8) ∉ l := OutLemmas.encOut_no_nul o ms hs

/-- **a NUL byte in a string field truncates what the C caller sees** (C.CString): everything after it — here the rest
of the model name and the whole `_serial` line — is lost.  NUL is not a printable character: outside the property's
quantifier, recorded as an observation. -/
theorem cbinding_nul_truncates_counterexample :
    encOut exOracle0 [{ panelInfo := some { model := [65, 0, 66], serial := asc "S1" } }] = [[95, 109, 111, 100, 101, 108, 61, 65, 0, 66], asc "_serial=S1"] ∧
    cBindingLines exOracle0 { panelInfo := some { model := [65, 0, 66], serial := asc "S1" } } = [asc "_model=A"] := by decide

/-! ## the capability table is the one in the Go source -/

/-- `Cap.all` (emission order), `Cap.name` and `Cap.goField` are exactly the table regenerated from the encoder's source
(`if …RawPanelSupport.<Field> { support = append(support, "<Name>") }`), the decoder's `case "<Name>": supportObj.<Field> =
true` table names the same pairs, `capOfName` maps each name to the capability of that field, and the Spec's own list of
names (`capNames`, order of the .proto fields) names the same set -/
theorem caps_table_tie :
    Gen.encoderSupportTable.map (fun p => (p.1, asc p.2)) = Cap.all.map (fun c => (Cap.goField c, Cap.name c)) ∧
    ((∀ p ∈ Gen.decoderSupportTable, p ∈ Gen.encoderSupportTable) ∧ (∀ p ∈ Gen.encoderSupportTable, p ∈ Gen.decoderSupportTable)) ∧
    (∀ c ∈ Cap.all, DecOut.capOfName (Cap.name c) = some c) ∧
    (∀ n, n ∈ capNames ↔ n ∈ Cap.all.map Cap.name) := by
  refine ⟨by decide +kernel, by decide +kernel, by decide +kernel, ?_⟩
  intro n
  rw [OutLemmas.capNames_eq]
  simp only [List.mem_map]
  constructor
  · rintro ⟨c, _, rfl⟩; exact ⟨c, OutLemmas.cap_mem_all c, rfl⟩
  · rintro ⟨c, _, rfl⟩; exact ⟨c, OutLemmas.cap_mem_spec c, rfl⟩

def exOracle : OutOracle := ⟨fun _ t => t, fun t => t, fun _ => asc "{}", fun _ => some {}⟩

def exMsgs : List OutMsg :=
  [{ flow := 1 },
   { panelInfo := some { model := asc "SK_X", maxClients := 4294967295, lockedToIPs := [asc "10.0.0.1", asc "a b"], panelType := 5,
                         bluePillReady := true, support := some { ascii := true, networkSettings := true } },
     topology := some { svgbase := asc "<svg>\n  <path d=\"M0 0\n  L1 1\"/>\n</svg>\n", json := asc "{\n  \"a\": [ 1,\r\n\t2 ]\n}" },
     netConfig := some {}, sleepTimeout := some 0, sleepState := some false, connections := some [],
     runTimeStats := some { bootsCount := 7 }, message := some (asc "hello\n  world "),
     avail := [(1, 4294967295), (65535, 0)], envHealth := some 2,
     sysStat := some { cpuUsage := 99, cpuTemp := asc "45.3", cpuVoltage := asc "-0.00", memFree := -2147483648, throttled := true },
     events := [{ hwcid := 4294967295, binary := some ⟨true, 16⟩ }, { hwcid := 5, pulsed := some (-2147483648), rawAnalog := some 4294967295 }],
     registers := [⟨1, asc "007", 5⟩, ⟨3, asc "A9", 4294967295⟩] }]

/-- non-vacuity of `encOut_sound`: a two-message list with every kind of section is in the domain -/
example : InDomainOutFlat exOracle exMsgs := by decide

/-- multi-line payloads with non-ASCII bytes and multi-byte white-space runes at the line edges
(`é NBSP ⏎ EM-SPACE x IDEOGRAPHIC-SPACE ⏎ SP €`) -/
def exMsgsUtf8 : List OutMsg :=
  [{ topology := some { svgbase := C07.exUtf8 ++ asc "\n<svg>\n", json := asc "{\n" ++ C07.exUtf8 ++ asc "\n}" },
     message := some C07.exUtf8, errorMsg := some (asc "a\n" ++ C07.exUtf8) }]

/-- non-vacuity of `encOut_sound_full`: these messages are in the domain and outside the earlier `flatMsg` restriction,
and the flattening really changes the message text -/
example : inDomainOut exOracle exMsgsUtf8 = true ∧ exMsgsUtf8.all OutLemmas.flatMsg = false ∧
    Strip.stripLineBreaks C07.exUtf8 ≠ C07.exUtf8 := by decide

/-- non-vacuity: a concrete event at the top of the ranges -/
example : edgeOk 16 = true ∧ (4294967295 : Nat) ≤ u32Max ∧ inI32 (-2147483648) = true := by decide

/-! ## fields the ASCII form does not carry

The proto definitions have five fields the encoder has no line for: `OutboundMessage.BusStatus` (`BusStatus.Fault`),
`HWCEvent.Timestamp`, `AbsoluteEvent.PrevValue`, `SpeedEvent.PrevValue` (`EncOut.protoFieldsNotCarried`; every other field
of the definitions is in `EncOut.protoFieldsRead` and is a field of `MsgOut`'s types — the `eout.fields` record compares
the two lists with the real protobuf descriptors).  `OutMsgX` is a message with those fields. -/

/-- the two lists partition the field names: no name is in both, none is listed twice -/
theorem proto_fields_partition :
    protoFieldsRead.all (fun f => !protoFieldsNotCarried.contains f) = true ∧
    (protoFieldsRead ++ protoFieldsNotCarried).Nodup := by
  decide +kernel

/-- **the encoder ignores the non-carried fields**: two message lists that differ only in bus status, time stamps and
previous values encode to the same lines (model level; the real encoder is sampled on messages with these fields set to
arbitrary and to coinciding values — `PrevValue = Value`, `Timestamp = HWCID` — by the `eout.msgsx` records) -/
theorem enc_ignores_noncarried (o : OutOracle) (a b : List OutMsgX) (h : a.map (·.msg) = b.map (·.msg)) :
    encOutX o a = encOutX o b := by
  unfold encOutX
  rw [h]

/-- … and whatever those fields hold, the reader of the lines gets exactly the effects of the carried part -/
theorem encOutX_sound (o : OutOracle) (ms : List OutMsgX) (h : inDomainOut o (ms.map (·.msg)) = true) (hpf : ∀ t, o.parseF t = t) :
    readOutbound o (encOutX o ms) = (ms.map (·.msg)).flatMap (effectsOfOut o) := by
  unfold encOutX
  exact encOut_sound_full o _ h hpf

/-- non-vacuity: a fader event with `PrevValue = Value`, a time stamp and a bus status next to the same message without
them: same lines, and the event is on them -/
example :
    let m : OutMsg := { events := [{ hwcid := 40, absolute := some 700 }, { hwcid := 41, speed := some (-3) }] }
    let a : List OutMsgX := [{ msg := m, busFault := some true, evNC := [{ timestamp := 40, absPrev := 700 }, { speedPrev := -3 }] }]
    let b : List OutMsgX := [{ msg := m }]
    a.map (·.msg) = b.map (·.msg) ∧ encOutX exOracle a = [asc "HWC#40=Abs:700", asc "HWC#41=Speed:-3"] ∧
      encOutX exOracle a = encOutX exOracle b := by
  decide

end RawPanelVerif.C03
