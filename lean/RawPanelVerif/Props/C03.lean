import RawPanelVerif.Lemmas.OutSound
/-!
# C03 — Panel messages keep their meaning when written as ASCII lines

Statements are about the encoder model `EncOut.encOut` (= `OutboundMessagesToRawPanelASCIIstrings`, tied by the
correspondence) read by the independent reader `Spec.Out.readLine` / `readOutbound`.

Kernels, each for ALL values (no bounds, no enumeration):
* `event_line`       : every id (32 bit) × edge ∈ {0,1,2,4,8,16} × pressed — the reader returns the event;
* `value_ranges`     : `%d` of every signed / unsigned 32-bit value re-reads to the same value (incl. the boundaries);
  `enc_line`, `speed_line`, `abs_line`, `raw_line` : the four value-carrying event lines;
* `caps_all_subsets` : all 2^13 capability sets, proved over the capability table;
* `map_line`, `register_line`;
* `encOut_no_lf`     : no returned string contains a line feed (C07 at the return site), for every input.

Main theorem:
* `encOut_sound_full` : for every list of messages of the ASCII-representable domain (`Spec.Out.inDomainOut`, decidable:
  every numeric field in its 32-bit range, edges in {0,1,2,4,8,16}, enums in range, identity strings without LF, list items
  without `;`/LF/outer white space, register ids in `[A-Z0-9]*` (FLAG: decimal), SysStat float texts numerals, JSON of the
  network configuration re-parsing to it, every payload field (SVG, JSON, message text) valid UTF-8) the independent reader
  of the produced lines returns EXACTLY `ms.flatMap effectsOfOut` — every section, in message order, any number of
  messages / events / registers / map entries.
  Hence (`encOut_sound_full_approx`) the executable comparison `Spec.Out.approx` the check evaluates on the real output holds.
  Payload fields may have any line structure, indentation and white space whatsoever, including multi-byte white-space
  runes (NBSP, U+2003, U+3000 …) at line edges: the C07 flattening keeps exactly the white-space-free content
  (`C07.strip_content` under the guard `Strip.JoinSafe`, which valid UTF-8 implies: `OutLemmas.joinSafe_of_payloadOk`;
  the SVG flattening keeps it for every byte string).  The validity of the payloads is needed: see
  `C07.contentEq_invalid_utf8_counterexample` (`E2 80 ⏎ 85 41` flattens to a string beginning with the white-space rune
  U+2005).
  `encOut_sound` is the earlier statement with the additional hypothesis `flatMsg` (payloads ASCII, or flattening =
  identity), kept unchanged; it is now a corollary.
  One extra hypothesis, visible:
  - `∀ t, o.parseF t = t`: in this direction float values are compared as the decimal text the line carries
    (`effectsOfOut` takes the `%.1f`/`%.2f` text from the oracle); no float is interpreted.
  The availability map is emitted in the order of the association list, so the theorem covers every order Go's map
  iteration may choose.
-/
namespace RawPanelVerif.C03
open RawPanelVerif RawPanelVerif.Bytes RawPanelVerif.MsgOut RawPanelVerif.EncOut RawPanelVerif.Spec.Out

/-- every binary event line is read back as the event it was made from -/
theorem event_line (o : OutOracle) (id : Nat) (hid : id ≤ u32Max) (edge : Int) (he : edgeOk edge = true) (pressed : Bool) :
    readLine o (binaryLine id ⟨pressed, edge⟩) = .grammar [.event .binary id edge.toNat pressed 0] :=
  OutLemmas.event_line o id hid edge he pressed

/-- `%d` of a signed 32-bit value (`itoa`) and of an unsigned 32-bit value (`utoa`) re-read to the same value: the full
ranges −2^31 … 2^31−1 and 0 … 2^32−1, boundaries included -/
theorem value_ranges :
    (∀ v : Int, inI32 v = true → readInt (itoa v) = some v) ∧
    (∀ n : Nat, n ≤ u32Max → readNum (utoa n) = some n ∧ readInt (utoa n) = some (n : Int)) := by
  constructor
  · intro v hv
    obtain ⟨h1, h2⟩ := OutLemmas.inI32_range v hv
    exact OutLemmas.readInt_itoa v (by omega) (by omega)
  · intro n hn
    exact ⟨OutLemmas.readNum_digitsOf n hn, OutLemmas.readInt_utoa n hn⟩

theorem enc_line (o : OutOracle) (id : Nat) (hid : id ≤ u32Max) (v : Int) (hv : inI32 v = true) :
    readLine o (valueLine id (asc "Enc") (itoa v)) = .grammar [.event .enc id 0 false v] := OutLemmas.enc_line o id hid v hv
theorem speed_line (o : OutOracle) (id : Nat) (hid : id ≤ u32Max) (v : Int) (hv : inI32 v = true) :
    readLine o (valueLine id (asc "Speed") (itoa v)) = .grammar [.event .speed id 0 false v] := OutLemmas.speed_line o id hid v hv
theorem abs_line (o : OutOracle) (id : Nat) (hid : id ≤ u32Max) (v : Nat) (hv : v ≤ u32Max) :
    readLine o (valueLine id (asc "Abs") (utoa v)) = .grammar [.event .abs id 0 false v] := OutLemmas.abs_line o id hid v hv
theorem raw_line (o : OutOracle) (id : Nat) (hid : id ≤ u32Max) (v : Nat) (hv : v ≤ u32Max) :
    readLine o (valueLine id (asc "Raw") (utoa v)) = .grammar [.event .raw id 0 false v] := OutLemmas.raw_line o id hid v hv

/-- all 2^13 capability sets -/
theorem caps_all_subsets (o : OutOracle) (s : Support) :
    readLine o (supportLine s) =
      if (supportFlags s).any id then .grammar [.support (supportFlags s)] else .nonGrammar :=
  OutLemmas.caps_all_subsets o s

theorem map_line (o : OutOracle) (k v : Nat) (hk : k ≤ u32Max) (hv : v ≤ u32Max) :
    readLine o (mapLine (k, v)) = .grammar [.mapEntry k v] := OutLemmas.map_line o k v hk hv

theorem register_line (o : OutOracle) (r : Register) (hr : registerOk r = true) :
    readOutbound o (registerLines r) = regEff r := OutLemmas.register_line o r hr

/-- no string the encoder returns contains a line feed — for every list of messages -/
theorem encOut_no_lf (o : OutOracle) (ms : List OutMsg) : ∀ l ∈ encOut o ms, (10 : UInt8) ∉ l := by
  intro l hl
  unfold encOut at hl
  simp only [List.mem_map] at hl
  obtain ⟨r, _, rfl⟩ := hl
  exact C07.singleLine_no_lf r

/-- **Soundness of the encoder**: the produced lines, read by the independent reader, report exactly the events and
information the messages carry, in message order — for every list of messages of the domain. -/
theorem encOut_sound_full (o : OutOracle) (ms : List OutMsg) (h : inDomainOut o ms = true) (hpf : ∀ t, o.parseF t = t) :
    readOutbound o (encOut o ms) = ms.flatMap (effectsOfOut o) := by
  unfold inDomainOut at h
  rw [List.all_eq_true] at h
  rw [OutLemmas.encOut_R]
  exact OutLemmas.flatMap_congr' ms _ _ (fun m hm => OutLemmas.msg_sound_full o m (h m hm) hpf)

/-- … hence the comparison the check runs on the implementation's output (`approx`: per message; events and registers in
order; the other effects, in particular the map entries, as a multiset) holds for the model's output -/
theorem encOut_sound_full_approx (o : OutOracle) (ms : List OutMsg) (h : inDomainOut o ms = true) (hpf : ∀ t, o.parseF t = t) :
    approx (ms.map (effectsOfOut o)) (readOutbound o (encOut o ms)) = true := by
  rw [encOut_sound_full o ms h hpf, List.flatMap_def]
  exact OutLemmas.approx_flatten _

/-- the domain of `encOut_sound` (the earlier, narrower statement) -/
def InDomainOutFlat (o : OutOracle) (ms : List OutMsg) : Prop := inDomainOut o ms = true ∧ ms.all OutLemmas.flatMsg = true

instance (o : OutOracle) (ms : List OutMsg) : Decidable (InDomainOutFlat o ms) := by unfold InDomainOutFlat; infer_instance

theorem encOut_sound (o : OutOracle) (ms : List OutMsg) (h : InDomainOutFlat o ms) (hpf : ∀ t, o.parseF t = t) :
    readOutbound o (encOut o ms) = ms.flatMap (effectsOfOut o) := encOut_sound_full o ms h.1 hpf

theorem encOut_sound_approx (o : OutOracle) (ms : List OutMsg) (h : InDomainOutFlat o ms) (hpf : ∀ t, o.parseF t = t) :
    approx (ms.map (effectsOfOut o)) (readOutbound o (encOut o ms)) = true := encOut_sound_full_approx o ms h.1 hpf

def exOracle : OutOracle := ⟨fun _ t => t, fun t => t, fun _ => asc "{}", fun _ => some {}⟩

def exMsgs : List OutMsg :=
  [{ flow := 1 },
   { panelInfo := some { model := asc "SK_X", maxClients := 4294967295, lockedToIPs := [asc "10.0.0.1", asc "a b"], panelType := 5,
                         bluePillReady := true, support := some { ascii := true, networkSettings := true } },
     topology := some { svgbase := asc "<svg>\n  <path d=\"M0 0\n  L1 1\"/>\n</svg>\n", json := asc "{\n  \"a\": [ 1,\r\n\t2 ]\n}" },
     netConfig := some {}, sleepTimeout := some 0, sleepState := some false, connections := some [],
     runTimeStats := some { bootsCount := 7 }, message := some (asc "hello\n  world "),
     avail := [(1, 4294967295), (65535, 0)], envHealth := some 2,
     sysStat := some { cpuUsage := 99, cpuTemp := asc "45.3", cpuVoltage := asc "-0.00", memFree := -2147483648, throttled := true },
     events := [{ hwcid := 4294967295, binary := some ⟨true, 16⟩ }, { hwcid := 5, pulsed := some (-2147483648), rawAnalog := some 4294967295 }],
     registers := [⟨1, asc "007", 5⟩, ⟨3, asc "A9", 4294967295⟩] }]

/-- non-vacuity of `encOut_sound`: a two-message list with every kind of section is in the domain -/
example : InDomainOutFlat exOracle exMsgs := by decide

/-- multi-line payloads with non-ASCII bytes and multi-byte white-space runes at the line edges
(`é NBSP ⏎ EM-SPACE x IDEOGRAPHIC-SPACE ⏎ SP €`) -/
def exMsgsUtf8 : List OutMsg :=
  [{ topology := some { svgbase := C07.exUtf8 ++ asc "\n<svg>\n", json := asc "{\n" ++ C07.exUtf8 ++ asc "\n}" },
     message := some C07.exUtf8, errorMsg := some (asc "a\n" ++ C07.exUtf8) }]

/-- non-vacuity of `encOut_sound_full`: these messages are in the domain and outside the earlier `flatMsg` restriction,
and the flattening really changes the message text -/
example : inDomainOut exOracle exMsgsUtf8 = true ∧ exMsgsUtf8.all OutLemmas.flatMsg = false ∧
    Strip.stripLineBreaks C07.exUtf8 ≠ C07.exUtf8 := by decide

/-- non-vacuity: a concrete event at the top of the ranges -/
example : edgeOk 16 = true ∧ (4294967295 : Nat) ≤ u32Max ∧ inI32 (-2147483648) = true := by decide

end RawPanelVerif.C03
