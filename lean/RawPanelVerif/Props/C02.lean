import RawPanelVerif.Lemmas.InBits
import RawPanelVerif.Lemmas.TotalIn
import RawPanelVerif.Lemmas.DecShape
import RawPanelVerif.Lemmas.DecSound2
/-!
# C02 — inbound ASCII lines decode to exactly the panel state they denote

Kernels, each for ALL values by arithmetic:
* `packed_total_mode`, `packed_total_ext`, `packed_total_color` — for every value `v < 2^32` (in particular the whole
  16-bit space) and every id list, the effects of the message the decoder builds equal the reference reading of `v`
  on every id;
* `colour_readability_bit_irrelevant` — bit 7 of a colour integer changes nothing (reader and decoder);
* `brightness_one_two` — `PanelBrightness=n` and `PanelBrightness=n,n` decode to the same message / effect.
-/
namespace RawPanelVerif.C02
open RawPanelVerif RawPanelVerif.Bytes RawPanelVerif.MsgIn RawPanelVerif.Model.In RawPanelVerif.InBits RawPanelVerif.TotalIn
open RawPanelVerif.Spec.In RawPanelVerif.ReadIn

theorem flatMap_singleton {α β : Type} (l : List α) (f : α → β) : l.flatMap (fun a => [f a]) = l.map f := by
  induction l with
  | nil => rfl
  | cons a as ih => simp [List.flatMap_cons, ih]

theorem effects_stateMsg (s : State) : effectsOfIn (stateMsg s) = effectsOfState s := by
  simp [effectsOfIn, stateMsg, effectsOfFlow, opt]

theorem u32_nat (n : Nat) (h : n < 4294967296) : u32 (n : Int) = n := by unfold u32; omega

theorem packed_total_mode (ids : List Nat) (v : Nat) (hv : v < 4294967296) :
    effectsOfIn (decMode ids (v : Int)) = ids.map (fun id => Effect.setMode id (readMode v)) := by
  unfold decMode
  rw [effects_stateMsg]
  unfold effectsOfState effectsOfStateId
  simp only [opt, List.append_nil]
  rw [flatMap_singleton]
  congr 1
  funext id
  unfold readMode
  rw [landNat_15, shr_nat, landNat_15, u32_nat _ (by omega)]
  have hb := landNat_bit v 5 (by omega)
  simp only [show (2:Nat)^5 = 32 from rfl] at hb
  rw [hb]
  simp only [show (2:Nat)^8 = 256 from rfl, Int.toNat_natCast]
  congr 2
  by_cases h : v / 32 % 2 = 1
  · simp [h]
  · have : v / 32 % 2 = 0 := by omega
    simp [this]

theorem packed_total_ext (ids : List Nat) (v : Nat) (hv : v < 4294967296) :
    effectsOfIn (decExt ids (v : Int)) = ids.map (fun id => Effect.setExt id (readExt v)) := by
  unfold decExt
  rw [effects_stateMsg]
  unfold effectsOfState effectsOfStateId
  simp only [opt, List.append_nil, List.nil_append]
  rw [flatMap_singleton]
  congr 1
  funext id
  unfold readExt
  rw [shr_nat, landNat_15, landNat_4095, u32_nat _ (by omega)]
  simp only [show (2:Nat)^12 = 4096 from rfl, Int.toNat_natCast]

theorem level2_85 (k : Nat) (h : k < 4) : level2 (85 * k) = k := by unfold level2; omega

theorem packed_total_color (ids : List Nat) (v : Nat) (hv : v < 4294967296) :
    effectsOfIn (decColor ids (v : Int)) = ids.map (fun id => Effect.setColor id (readColor v)) := by
  unfold decColor readColor
  have hb := landNat_bit v 6 (by omega)
  simp only [show (2:Nat)^6 = 64 from rfl] at hb
  rw [hb]
  by_cases h : v / 64 % 2 = 1
  · have h' : v / 64 % 2 * 64 > 0 := by omega
    rw [if_pos h', if_pos h]
    rw [effects_stateMsg]
    unfold effectsOfState effectsOfStateId
    simp only [opt, List.append_nil, List.nil_append, colorOf]
    rw [flatMap_singleton]
    congr 1
    funext id
    rw [shr_nat, shr_nat, shr_nat, landNat_3, landNat_3, landNat_3,
      expand2_eq _ (by omega), expand2_eq _ (by omega), expand2_eq _ (by omega),
      level2_85 _ (by omega), level2_85 _ (by omega), level2_85 _ (by omega)]
    simp only [show (2:Nat)^4 = 16 from rfl, show (2:Nat)^2 = 4 from rfl, show (2:Nat)^0 = 1 from rfl, Nat.div_one]
  · have h' : ¬ v / 64 % 2 * 64 > 0 := by omega
    rw [if_neg h', if_neg h]
    rw [effects_stateMsg]
    unfold effectsOfState effectsOfStateId
    simp only [opt, List.append_nil, List.nil_append, colorOf]
    rw [flatMap_singleton]
    congr 1
    funext id
    rw [landNat_31]
    simp only [Int.toNat_natCast]

/-- the readability bit (bit 7) of a colour integer is irrelevant -/
theorem colour_readability_bit_irrelevant (n : Nat) (h : n / 128 % 2 = 0) : readColor (n + 128) = readColor n := by
  unfold readColor
  have e1 : (n + 128) / 64 % 2 = n / 64 % 2 := by omega
  have e2 : (n + 128) / 16 % 4 = n / 16 % 4 := by omega
  have e3 : (n + 128) / 4 % 4 = n / 4 % 4 := by omega
  have e4 : (n + 128) % 4 = n % 4 := by omega
  have e5 : (n + 128) % 32 = n % 32 := by omega
  rw [e1, e2, e3, e4, e5]

/-- one- and two-argument brightness: `PanelBrightness=n` decodes to the same message as `PanelBrightness=n,n` -/
theorem brightness_one_two_model (s1 s2 d : Bytes) :
    decSingle [s1, asc "PanelBrightness", d] = decDual [s2, asc "PanelBrightness", d, d] := by
  simp only [decSingle, decDual, sub, bind, Except.bind, pure, Except.pure, List.getElem?_cons_succ, List.getElem?_cons_zero]
  rw [if_neg (by decide), if_neg (by decide), if_neg (by decide), if_neg (by decide), if_neg (by decide),
    if_neg (by decide), if_neg (by decide), if_neg (by decide), if_neg (by decide)]

/-- … and the reference reader gives both spellings the same effect -/
theorem brightness_one_two_spec (d : Bytes) (h : d.all isDigit = true) :
    readBrightness d = readBrightness (d ++ 44 :: d) := by
  have h44 : (44 : UInt8) ∉ d := EncSound.all_not_mem isDigit d 44 h (by decide)
  unfold readBrightness
  rw [cut_none 44 d h44, cut_append 44 d d h44]
  simp only []
  cases num? d <;> rfl

/-! ## dec_sound

FULL STATEMENT — NOT YET PROVED (validated by the correspondence on every generated record, including the text and
graphics families):

    theorem dec_sound (O : Oracles) (ls : List Bytes) (h : inDomainLines O ls = true) :
        ∃ ms, decInE O ls = .ok ms ∧ ms.flatMap effectsOfMsgOpt = readInbound O ls

(`inDomainLines`: every line well-formed or non-grammar, graphics transfers in order).

PROVED below, for all line sequences of any length: the same statement for sequences whose lines are
* non-grammar lines (any bytes), or
* well-formed lines of every family EXCEPT `HWCt#` text lines and `HWCg#/HWCgRGB#/HWCgGray#` graphics lines, i.e.
  the flow words and the 16 command words, the nine `key=num` commands (all arguments < 2^32), one- and two-argument
  `PanelBrightness`, `SetCalibrationProfile`, `SetNetworkConfig`, `SimulateEnvironmentalHealth`, `HWC#`, `HWCx#`,
  `HWCc#` (whole 32-bit value space, any id list), `HWCrawADCValues#`, `Mem/Shift/State/Flag#` registers, and JSON
  lines (`{…}`, `[…]`, with the `encoding/json` result as a parameter);
one effect group per line, in line order.  What is missing for the full statement: `decText` against `readText`
on arbitrary well-formed field values, and the decoder's graphics reassembly against the reader's transfer state. -/

/-- the partial domain: a line that is non-grammar, or well-formed and not a text / graphics line -/
abbrev InPartialDomain := DecSound.InPartialDomain

/-- **dec_sound_partial** (unbounded in the number of lines) -/
theorem dec_sound_partial (O : Oracles) (ls : List Bytes) (h : ∀ l ∈ ls, InPartialDomain O l) :
    ∃ ms, decInE O ls = .ok ms ∧ ms.flatMap effectsOfMsgOpt = readInbound O ls :=
  DecSound.dec_sound_partial O ls h

/-- one line: the decoder appends exactly the messages whose effects the reference reader reads from the line, and
leaves its graphics state alone -/
theorem line_sound (O : Oracles) (l : Bytes) (hw : classify O l = .wellFormed) (hnt : DecSound.isTextOrGfx l = false) :
    DecSound.LineSound O l := DecSound.line_sound O l hw hnt

/-- non-vacuity: a mixed sequence of the partial domain -/
example : ∀ l ∈ [asc "HWC#1,2=293", asc "hello", asc "PanelBrightness=3", asc "PanelBrightness=3,4", asc "HWCc#7=209",
      asc "MemA1=5", asc "Flag#3=1", asc "Memx=1", asc "list", asc "HeartBeatTimer=4294967295"],
    InPartialDomain default l := by
  intro l hl
  simp only [List.mem_cons, List.not_mem_nil, or_false] at hl
  rcases hl with rfl | rfl | rfl | rfl | rfl | rfl | rfl | rfl | rfl | rfl <;>
    first
      | exact Or.inl (by decide)
      | exact Or.inr (by decide)

/-- **non-grammar lines never produce a state change, command or register write** (any line, any bytes, whose
keyword / key name is not part of the grammar, `classify O l = .nonGrammar`): the decoder returns at most the empty
message for it (nothing at all for the blank line), whose effect list is empty — and the reference reader reads no
effect either.  Holds for the pinned and the repaired tree. -/
theorem nongrammar_silent (O : Oracles) (l : Bytes) (h : classify O l = .nonGrammar) :
    (∃ ms, decInE O [l] = .ok ms ∧ ms.flatMap effectsOfMsgOpt = []) ∧ readInbound O [l] = [] := by
  constructor
  · refine ⟨if l = [] then [] else [some {}], ?_, ?_⟩
    · unfold decInE decLines
      rw [DecShape.nongrammar_decLine O false {} l h]
      simp only [decLines]
      rfl
    · split <;> rfl
  · unfold readInbound readFrom
    rw [DecShape.nongrammar_read O l h]
    rfl

/-- interleaving: a non-grammar line anywhere in a sequence changes neither the decoder's graphics state nor what the
other lines decode to -/
theorem nongrammar_decLine (O : Oracles) (pinned : Bool) (st : DecSt) (l : Bytes) (h : classify O l = .nonGrammar) :
    decLine O pinned st l = .ok { st with out := st.out ++ (if l = [] then [] else [some {}]) } :=
  DecShape.nongrammar_decLine O pinned st l h

example : classify default (asc "Memx=1") = .nonGrammar ∧ classify default (asc "hello world") = .nonGrammar ∧
    classify default (asc "HWCy#1=2") = .nonGrammar := by decide

end RawPanelVerif.C02
