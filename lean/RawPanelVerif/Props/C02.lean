import RawPanelVerif.Lemmas.InBits
import RawPanelVerif.Lemmas.TotalIn
import RawPanelVerif.Lemmas.DecShape
import RawPanelVerif.Lemmas.DecSound2
import RawPanelVerif.Lemmas.DecSound3
import RawPanelVerif.Lemmas.DecGfx3
import RawPanelVerif.Lemmas.DecCtx
import RawPanelVerif.Lemmas.EncDom3
import RawPanelVerif.Lemmas.DecFacts
import RawPanelVerif.Lemmas.StripIdem
/-!
# C02 — inbound ASCII lines decode to exactly the panel state they denote

Statements are about the decoder model `Model.In.decInE` (= `RawPanelASCIIstringsToInboundMessages` after the `fix:`
commits, tied by the correspondence) and the independent reader `Spec.In.readInbound` (DESIGN.md Appendix B).

Kernels, each for ALL values by arithmetic:
* `packed_total_mode`, `packed_total_ext`, `packed_total_color` — for every value `v < 2^32` (in particular the whole
  16-bit space) and every id list, the effects of the message the decoder builds equal the reference reading of `v`
  on every id;
* `colour_readability_bit_irrelevant` — bit 7 of a colour integer changes nothing (reader and decoder);
* `brightness_one_two_model`, `brightness_one_two_spec` — `PanelBrightness=n` and `PanelBrightness=n,n` decode to the same
  message / effect;
* `text_total` — `decText` against `readText` on every well-formed `HWCt#` value (all 21 fields, every presence pattern);
  `text_prefixes` — the property's "trailing fields omitted": all 22 prefixes of a full value, evaluated;
* `simple_vs_advanced_gfx_model`, `simple_vs_advanced_gfx_spec` — a header-less part 0 opens exactly the transfer the
  header `/2,64x32` opens (decoder state and reader state).

Main theorems (line sequences of any length, any interleaving):
* `dec_sound` (guard `noBlankImage`, `dec_sound_guard_exact`, `dec_sound_blank_image_counterexample`, `dec_sound_nb`),
  `nongrammar_silent`, `nongrammar_decLine`, `gfx_part_step`, `gfx_line`, `dec_sound_nogfx`, `dec_sound_partial` — see the
  section comments below.
* `dec_context_free` (`dec_context_free_nb`, `line_decoded_alone`) — batches WITH lines outside the grammar's domain
  (`classify = .outside`: an enumerated value outside its enumeration such as `SimulateEnvironmentalHealth=Weird`,
  `HWCrawADCValues#5=2`, a malformed number …; not graphics parts): on `Spec.In.inDomainLinesCtx` the decoded batch has
  the reader's effects for every well-formed / non-grammar line, in line order, and for every outside line exactly the
  effects that line has when decoded alone (`Spec.In.readInboundWith`) — no line repeats, drops or alters the message of
  a neighbour.  `line_decoded_alone`: what the decoder appends for a line that `regex_gfx` does not accept depends on
  nothing but the line.  The check evaluates `readInboundWith` on the implementation with `alone l` = what the
  implementation returns for `[l]` (`din.ctx` records).
* `enc_in_domain`, `roundtrip_in` — C01 and C02 composed: for messages of `inDomainIn` (plus the decidable
  `roundtripGuard`, without which both are false: `enc_in_domain_flag_counterexample`,
  `roundtrip_in_unguarded_counterexample`, `roundtrip_in_calibration_counterexample`) the encoder's lines are in
  `inDomainLines` and decode to messages with exactly the effects of the original messages.

JSON lines (`{…}`, `[…]`): the reference reader AND the decoder model take the parsed state / message list from the SAME
oracle `O` (= what `encoding/json` returned for that line, computed by the harness).  For these lines the theorems say
only that the decoder passes the parsed state on unchanged, in place and in order; there is no second, independent
reading of the JSON text.  (`jsonOracle` + examples: a non-default oracle with JSON lines between other families.)

Outside the domain (`inDomainLines` false): interleaved graphics transfers (`foreign_part_divergence`,
`foreign_format_divergence`: the decoder ignores parts of a foreign id list / format, the reader abandons; the protocol is
silent), `Flag#A=1` (`flag_letter_id_out_of_domain_behaviour`), arguments beyond 32 / 64 bits
(`uint32_arg_wrap_…`, `int32_arg_wrap_…` for all values, `numeric_overflow_…`), non-canonical base64
(`noncanonical_base64_…`): the model's behaviour (= the Go code's, by the correspondence on these very lines) is pinned
so that a change breaks a proof; none of it is a finding.

Tie of the six hand-written byte matchers to the Go regular expressions: `regex_sources_tie` (literal sources),
`regex_keywords_tie` / `regex_gfx_optional_groups` (alternation lists read out of the regenerated sources = keyword
tables, same order), and the bounded-exhaustive `din.match` / `din.rx` records against the library's real `regexp`
objects (harness/rxlink.go).

The concrete witnesses (`jsonOracle`, `jsonLines`, `interleavedXfer`, `fullText`, `hugeFlag`, `badCal`, `rtSample`, the
literal `src_*`, and the `Option` / effect views `decoded`, `decodedEffects` of the decoder's result) are defined in
Lemmas/DecFacts.lean together with the kernel-evaluated closed facts (`<theorem>_fact`, `decide +kernel`) that the
evaluated theorems below re-export.
-/
namespace RawPanelVerif.C02
open RawPanelVerif RawPanelVerif.Bytes RawPanelVerif.MsgIn RawPanelVerif.Model.In RawPanelVerif.InBits RawPanelVerif.TotalIn
open RawPanelVerif.Spec.In RawPanelVerif.ReadIn

theorem flatMap_singleton {α β : Type} (l : List α) (f : α → β) : l.flatMap (fun a => [f a]) = l.map f := by
  induction l with
  | nil => rfl
  | cons a as ih => simp [List.flatMap_cons, ih]

theorem effects_stateMsg (s : State) : effectsOfIn (stateMsg s) = effectsOfState s := by
  simp [effectsOfIn, stateMsg, effectsOfFlow, opt]

theorem u32_nat (n : Nat) (h : n < 4294967296) : u32 (n : Int) = n := by unfold u32; omega

theorem packed_total_mode (ids : List Nat) (v : Nat) (hv : v < 4294967296) :
    effectsOfIn (decMode ids (v : Int)) = ids.map (fun id => Effect.setMode id (readMode v)) := by
  unfold decMode
  rw [effects_stateMsg]
  unfold effectsOfState effectsOfStateId
  simp only [opt, List.append_nil]
  rw [flatMap_singleton]
  congr 1
  funext id
  unfold readMode
  rw [landNat_15, shr_nat, landNat_15, u32_nat _ (by omega)]
  have hb := landNat_bit v 5 (by omega)
  simp only [show (2:Nat)^5 = 32 from rfl] at hb
  rw [hb]
  simp only [show (2:Nat)^8 = 256 from rfl, Int.toNat_natCast]
  congr 2
  by_cases h : v / 32 % 2 = 1
  · simp [h]
  · have : v / 32 % 2 = 0 := by omega
    simp [this]

theorem packed_total_ext (ids : List Nat) (v : Nat) (hv : v < 4294967296) :
    effectsOfIn (decExt ids (v : Int)) = ids.map (fun id => Effect.setExt id (readExt v)) := by
  unfold decExt
  rw [effects_stateMsg]
  unfold effectsOfState effectsOfStateId
  simp only [opt, List.append_nil, List.nil_append]
  rw [flatMap_singleton]
  congr 1
  funext id
  unfold readExt
  rw [shr_nat, landNat_15, landNat_4095, u32_nat _ (by omega)]
  simp only [show (2:Nat)^12 = 4096 from rfl, Int.toNat_natCast]

theorem level2_85 (k : Nat) (h : k < 4) : level2 (85 * k) = k := by unfold level2; omega

theorem packed_total_color (ids : List Nat) (v : Nat) (hv : v < 4294967296) :
    effectsOfIn (decColor ids (v : Int)) = ids.map (fun id => Effect.setColor id (readColor v)) := by
  unfold decColor readColor
  have hb := landNat_bit v 6 (by omega)
  simp only [show (2:Nat)^6 = 64 from rfl] at hb
  rw [hb]
  by_cases h : v / 64 % 2 = 1
  · have h' : v / 64 % 2 * 64 > 0 := by omega
    rw [if_pos h', if_pos h]
    rw [effects_stateMsg]
    unfold effectsOfState effectsOfStateId
    simp only [opt, List.append_nil, List.nil_append, colorOf]
    rw [flatMap_singleton]
    congr 1
    funext id
    rw [shr_nat, shr_nat, shr_nat, landNat_3, landNat_3, landNat_3,
      expand2_eq _ (by omega), expand2_eq _ (by omega), expand2_eq _ (by omega),
      level2_85 _ (by omega), level2_85 _ (by omega), level2_85 _ (by omega)]
    simp only [show (2:Nat)^4 = 16 from rfl, show (2:Nat)^2 = 4 from rfl, show (2:Nat)^0 = 1 from rfl, Nat.div_one]
  · have h' : ¬ v / 64 % 2 * 64 > 0 := by omega
    rw [if_neg h', if_neg h]
    rw [effects_stateMsg]
    unfold effectsOfState effectsOfStateId
    simp only [opt, List.append_nil, List.nil_append, colorOf]
    rw [flatMap_singleton]
    congr 1
    funext id
    rw [landNat_31]
    simp only [Int.toNat_natCast]

/-- the readability bit (bit 7) of a colour integer is irrelevant -/
theorem colour_readability_bit_irrelevant (n : Nat) (h : n / 128 % 2 = 0) : readColor (n + 128) = readColor n := by
  unfold readColor
  have e1 : (n + 128) / 64 % 2 = n / 64 % 2 := by omega
  have e2 : (n + 128) / 16 % 4 = n / 16 % 4 := by omega
  have e3 : (n + 128) / 4 % 4 = n / 4 % 4 := by omega
  have e4 : (n + 128) % 4 = n % 4 := by omega
  have e5 : (n + 128) % 32 = n % 32 := by omega
  rw [e1, e2, e3, e4, e5]

/-- one- and two-argument brightness: `PanelBrightness=n` decodes to the same message as `PanelBrightness=n,n` -/
theorem brightness_one_two_model (s1 s2 d : Bytes) :
    decSingle [s1, asc "PanelBrightness", d] = decDual [s2, asc "PanelBrightness", d, d] := by
  simp only [decSingle, decDual, sub, bind, Except.bind, pure, Except.pure, List.getElem?_cons_succ, List.getElem?_cons_zero]
  rw [if_neg (by decide), if_neg (by decide), if_neg (by decide), if_neg (by decide), if_neg (by decide),
    if_neg (by decide), if_neg (by decide), if_neg (by decide), if_neg (by decide)]

/-- … and the reference reader gives both spellings the same effect -/
theorem brightness_one_two_spec (d : Bytes) (h : d.all isDigit = true) :
    readBrightness d = readBrightness (d ++ 44 :: d) := by
  have h44 : (44 : UInt8) ∉ d := EncSound.all_not_mem isDigit d 44 h (by decide)
  unfold readBrightness
  rw [cut_none 44 d h44, cut_append 44 d d h44]
  simp only []
  cases num? d <;> rfl

/-! ## dec_sound

The statement as first written,

    ∀ O ls, inDomainLines O ls = true → ∃ ms, decInE O ls = .ok ms ∧ ms.flatMap effectsOfMsgOpt = readInbound O ls

(`inDomainLines`: every line well-formed or non-grammar, graphics transfers in order) is FALSE:
`dec_sound_blank_image_counterexample`, witness `["HWCg#1=0/0,0x0:"]`.  The line is well-formed (header 0×0, last index
0, empty canonical base64); the reference reader delivers `setGfx 1 {mono, 0×0, no offset, no data}`; the decoder
delivers the message `{States:[{HWCIDs:[1], HWCGfx:{}}]}`, whose graphics sub-message is the all-default `HWCGfx` —
and `Spec.effectsOfStateId` gives an all-default sub-message no effect (it cannot tell "no graphics" from the
all-default image; its comment assumes that image is not expressible in ASCII, but it is).  So the guard comes from the
Spec's meaning function, not from the Go code: the decoder reassembles the image exactly (`dec_sound_nb`).

PROVED below, for all line sequences of any length and any interleaving:
* `dec_sound` — the statement above under the additional decidable guard `noBlankImage O none ls` (no graphics
  transfer of the sequence delivers the all-default image: mono, 0×0, no offset, empty data);
* `dec_sound_guard_exact` — on the domain the conclusion holds IFF the guard holds (the guard is the weakest possible);
* `dec_sound_nb` — without any guard: the decoder never panics on the domain and its messages' effects are the
  reader's effects minus the deliveries of the all-default image (`readFromNB`);
* `gfx_part_step` — one graphics part: the decoder's reassembly state and the reader's transfer state stay in
  correspondence (`DecGfx.Inv`), lines of other families in between leave both untouched;
* `text_total` — `decText` against `readText` on every well-formed `HWCt#` value;
* `dec_sound_nogfx` / `dec_sound_partial` — the conclusion, stated without guard, for sequences without graphics lines /
  without text and graphics lines (kept from the earlier rounds; no graphics part, so nothing for the guard to check).
Nothing of the first statement remains unproved except the instances refuted by the counterexample. -/

/-- the partial domain: a line that is non-grammar, or well-formed and not a text / graphics line -/
abbrev InPartialDomain := DecSound.InPartialDomain

/-- **dec_sound_partial** (unbounded in the number of lines) -/
theorem dec_sound_partial (O : Oracles) (ls : List Bytes) (h : ∀ l ∈ ls, InPartialDomain O l) :
    ∃ ms, decInE O ls = .ok ms ∧ ms.flatMap effectsOfMsgOpt = readInbound O ls :=
  DecSound.dec_sound_partial O ls h

/-- one line: the decoder appends exactly the messages whose effects the reference reader reads from the line, and
leaves its graphics state alone -/
theorem line_sound (O : Oracles) (l : Bytes) (hw : classify O l = .wellFormed) (hnt : DecSound.isTextOrGfx l = false) :
    DecSound.LineSound O l := DecSound.line_sound O l hw hnt

/-- non-vacuity: a mixed sequence of the partial domain -/
example : ∀ l ∈ [asc "HWC#1,2=293", asc "hello", asc "PanelBrightness=3", asc "PanelBrightness=3,4", asc "HWCc#7=209",
      asc "MemA1=5", asc "Flag#3=1", asc "Memx=1", asc "list", asc "HeartBeatTimer=4294967295"],
    InPartialDomain default l := by
  intro l hl
  simp only [List.mem_cons, List.not_mem_nil, or_false] at hl
  rcases hl with rfl | rfl | rfl | rfl | rfl | rfl | rfl | rfl | rfl | rfl <;>
    first
      | exact Or.inl (by decide)
      | exact Or.inr (by decide)

/-! ### text lines included -/

/-- the graphics-free domain: a line that is non-grammar, or well-formed and not an `HWCg#/HWCgRGB#/HWCgGray#` line
(contains `InPartialDomain`, plus every well-formed `HWCt#` line) -/
abbrev InNoGfxDomain := DecSound.InNoGfxDomain

theorem inNoGfxDomain_of_partial (O : Oracles) (l : Bytes) (h : InPartialDomain O l) : InNoGfxDomain O l :=
  DecSound.InNoGfxDomain_of_partial O l h

/-- **`decText` against `readText`**: on every well-formed `HWCt#` value (21 `|`-separated fields, every packed
formatting / icon / font / colour integer over its whole value space) the record the decoder builds means exactly the
text state the reference reader reads, and it is never the all-default record -/
theorem text_total (v : Bytes) (h : textWellFormed v = true) :
    ∃ t, readText v = some t ∧ normText (textOf (decText v)) = t ∧ decText v ≠ {} :=
  let ⟨t, h1, h2⟩ := DecText.text_kernel v h
  ⟨t, h1, h2, DecText.decText_ne_default v⟩

/-- **dec_sound_nogfx** (unbounded in the number of lines): `dec_sound` for every sequence without graphics lines —
all families of `dec_sound_partial` and `HWCt#` text lines -/
theorem dec_sound_nogfx (O : Oracles) (ls : List Bytes) (h : ∀ l ∈ ls, InNoGfxDomain O l) :
    ∃ ms, decInE O ls = .ok ms ∧ ms.flatMap effectsOfMsgOpt = readInbound O ls :=
  DecSound.dec_sound_nogfx O ls h

/-- one line, text lines included -/
theorem line_sound_nogfx (O : Oracles) (l : Bytes) (hw : classify O l = .wellFormed) (hng : DecSound.isGfxLine l = false) :
    DecSound.LineSound O l := DecSound.line_sound_nogfx O l hw hng

/-- non-vacuity: text lines (all 21 fields, negative value, format 10 with font size, colours, empty field 0 = hide)
mixed with other families -/
example : ∀ l ∈ [asc "HWCt#1,2=-12|1|11|Title|1|L1|L2|7|2|1|-5|5|-9|9||73|228|14|1|209|5", asc "HWC#1=293",
      asc "HWCt#5=32|10", asc "hello", asc "HWCt#7=|||x", asc "HWCt#9=", asc "HWCt#3=4294967295|11|||||b"],
    InNoGfxDomain default l := by
  intro l hl
  simp only [List.mem_cons, List.not_mem_nil, or_false] at hl
  rcases hl with rfl | rfl | rfl | rfl | rfl | rfl | rfl <;>
    first
      | exact Or.inl (by decide)
      | exact Or.inr (by decide)

example : textWellFormed (asc "-12|1|11|Title|1|L1|L2|7|2|1|-5|5|-9|9||73|228|14|1|209|5") = true := by decide

/-! ### graphics lines included: the whole domain -/

/-- the all-default image `{mono, 0×0, no offset, no data}` -/
abbrev blankGfx := DecGfx.blankGfx
/-- no graphics transfer of the sequence (reader state `x` at its start) delivers the all-default image -/
abbrev noBlankImage := DecGfx.noBlankImage
/-- the reference reader with the deliveries of the all-default image left out -/
abbrev readFromNB := DecGfx.readFromNB

/-- **the first statement of `dec_sound` is false**: the all-default image is expressible in ASCII, the reader
delivers it, and the message the decoder builds for it carries no effect under `effectsOfStateId` -/
theorem dec_sound_blank_image_counterexample :
    ¬ (∀ (O : Oracles) (ls : List Bytes), inDomainLines O ls = true →
        ∃ ms, decInE O ls = .ok ms ∧ ms.flatMap effectsOfMsgOpt = readInbound O ls) := by
  intro h
  obtain ⟨ms, h1, h2⟩ := h default [asc "HWCg#1=0/0,0x0:"] (by decide)
  have hd : (match decInE default [asc "HWCg#1=0/0,0x0:"] with
      | .ok ms => ms.flatMap effectsOfMsgOpt
      | .error _ => [Effect.flow .ping]) = [] := by decide
  rw [h1] at hd
  simp only [] at hd
  rw [hd] at h2
  exact absurd h2 (by decide)

/-- the witness in detail: in the domain, one effect for the reader, none in the decoder's message; also with the
image split over two lines -/
example : inDomainLines default [asc "HWCg#1=0/0,0x0:"] = true ∧
    readInbound default [asc "HWCg#1=0/0,0x0:"] = [.setGfx 1 blankGfx] ∧
    noBlankImage default none [asc "HWCg#1=0/0,0x0:"] = false ∧
    inDomainLines default [asc "HWCg#1=0/1,0x0:", asc "HWCg#1=1:"] = true ∧
    noBlankImage default none [asc "HWCg#1=0/1,0x0:", asc "HWCg#1=1:"] = false := by decide

/-- **dec_sound** (all line sequences of the domain, any length, any interleaving of graphics transfers with other
lines): the decoder does not panic and the messages it returns have exactly the effects the reference reader reads —
under the guard that no transfer delivers the all-default image -/
theorem dec_sound (O : Oracles) (ls : List Bytes) (h : inDomainLines O ls = true) (hb : noBlankImage O none ls = true) :
    ∃ ms, decInE O ls = .ok ms ∧ ms.flatMap effectsOfMsgOpt = readInbound O ls :=
  DecGfx.dec_sound O ls h hb

/-- the guard of `dec_sound` is exact -/
theorem dec_sound_guard_exact (O : Oracles) (ls : List Bytes) (h : inDomainLines O ls = true) :
    (∃ ms, decInE O ls = .ok ms ∧ ms.flatMap effectsOfMsgOpt = readInbound O ls) ↔ noBlankImage O none ls = true :=
  DecGfx.dec_sound_iff O ls h

/-- **dec_sound without guard**: no panic, and the effects are the reader's minus the deliveries of the all-default
image -/
theorem dec_sound_nb (O : Oracles) (ls : List Bytes) (h : inDomainLines O ls = true) :
    ∃ ms, decInE O ls = .ok ms ∧ ms.flatMap effectsOfMsgOpt = readFromNB O none ls :=
  DecGfx.dec_sound_nb O ls h

/-! ### batches with lines outside the grammar's domain: no line changes what its neighbours denote -/

/-- effects of what the decoder model returns for the one-line batch `[l]` -/
abbrev aloneModel := DecCtx.aloneModel

/-- what the decoder appends for a line that is not accepted by `regex_gfx` does not depend on the messages decoded
so far nor on the graphics reassembly state (which it leaves alone) -/
theorem line_decoded_alone (O : Oracles) (l : Bytes) (hg : matchGfx l = none) :
    ∃ outs : List (Option InMsg), ∀ st : DecSt, decLine O false st l = .ok { st with out := st.out ++ outs } :=
  DecCtx.decLine_local O l hg

/-- **dec_context_free, unguarded form** (any length, any interleaving; cf. `dec_sound_nb`) -/
theorem dec_context_free_nb (O : Oracles) (ls : List Bytes) (h : inDomainLinesCtx O ls = true) :
    ∃ ms, decInE O ls = .ok ms ∧ ms.flatMap effectsOfMsgOpt = DecCtx.readFromNBWith O (aloneModel O) none ls :=
  DecCtx.dec_context_free_nb O ls h

/-- **dec_context_free**: on every batch whose lines are well-formed, non-grammar, or outside the domain without being
graphics parts (graphics transfers in order; guard of `dec_sound`: no transfer delivers the all-default image) the
decoder does not panic and its messages have the reader's effects for the lines the grammar reads and, for every outside
line, the effects of that line decoded alone, all in line order -/
theorem dec_context_free (O : Oracles) (ls : List Bytes) (h : inDomainLinesCtx O ls = true)
    (hb : DecCtx.noBlankImageCtx O none ls = true) :
    ∃ ms, decInE O ls = .ok ms ∧ ms.flatMap effectsOfMsgOpt = readInboundWith O (aloneModel O) ls :=
  DecCtx.dec_context_free O ls h hb

/-- the domain of `dec_sound` is contained in the one of `dec_context_free`, and there the two readings coincide -/
theorem ctx_domain_contains_domain (O : Oracles) (alone : Bytes → List Effect) (ls : List Bytes) (h : inDomainLines O ls = true) :
    inDomainLinesCtx O ls = true ∧ readInboundWith O alone ls = readInbound O ls := by
  unfold inDomainLines at h
  simp only [Bool.and_eq_true, List.all_eq_true, bne_iff_ne, ne_eq] at h
  have hlone : ∀ l ∈ ls, isLoneLine O l = false := by
    intro l hl
    unfold isLoneLine
    have := h.1 l hl
    cases hc : classify O l <;> simp_all
  have key : ∀ (ls : List Bytes), (∀ l ∈ ls, isLoneLine O l = false) → ∀ x,
      gfxDisciplineCtx O x ls = gfxDiscipline O x ls ∧ readFromWith O alone x ls = readFrom O x ls := by
    intro ls
    induction ls with
    | nil => intro _ x; exact ⟨rfl, rfl⟩
    | cons l ls ih =>
      intro hl x
      have h0 : isLoneLine O l = false := hl l (by simp)
      have ih' := ih (fun y hy => hl y (by simp [hy]))
      unfold gfxDisciplineCtx gfxDiscipline readFromWith readFrom
      simp only [h0, Bool.false_eq_true, if_false]
      cases hr : readLine O l with
      | effects es => simp only []; exact ⟨(ih' x).1, by rw [(ih' x).2]⟩
      | gfx p =>
        simp only []
        refine ⟨?_, by rw [(ih' _).2]⟩
        split
        · rfl
        · exact (ih' _).1
  refine ⟨?_, (key ls hlone none).2⟩
  unfold inDomainLinesCtx
  simp only [Bool.and_eq_true, List.all_eq_true, Bool.or_eq_true, bne_iff_ne, ne_eq, Bool.not_eq_true']
  exact ⟨fun l hl => Or.inl (h.1 l hl), by rw [(key ls hlone none).1]; exact h.2⟩

/-- non-vacuity: an enumerated value outside its enumeration between two state lines, inside an open graphics transfer:
the batch is in the domain of `dec_context_free` and not in the one of `dec_sound`; the line alone decodes to nothing,
so the reading has exactly the effects of the other lines; a different `alone` shows in the reading, in place -/
example : classify default (asc "SimulateEnvironmentalHealth=Weird") = .outside ∧
    inDomainLines default [asc "HWC#5=4", asc "SimulateEnvironmentalHealth=Weird", asc "HWC#5=0"] = false ∧
    inDomainLinesCtx default [asc "HWCg#1=0/1,8x8:AAAA", asc "HWC#5=4", asc "SimulateEnvironmentalHealth=Weird", asc "HWCg#1=1:AAAA", asc "HWC#5=0"] = true ∧
    DecCtx.noBlankImageCtx default none [asc "HWCg#1=0/1,8x8:AAAA", asc "HWC#5=4", asc "SimulateEnvironmentalHealth=Weird", asc "HWCg#1=1:AAAA", asc "HWC#5=0"] = true ∧
    readInboundWith default (fun _ => []) [asc "HWC#5=4", asc "SimulateEnvironmentalHealth=Weird", asc "HWC#5=0"] =
      [.setMode 5 { state := 4, output := false, blink := 0 }, .setMode 5 { state := 0, output := false, blink := 0 }] ∧
    readInboundWith default (fun _ => [.flow .ping]) [asc "HWC#5=4", asc "SimulateEnvironmentalHealth=Weird", asc "HWC#5=0"] =
      [.setMode 5 { state := 4, output := false, blink := 0 }, .flow .ping, .setMode 5 { state := 0, output := false, blink := 0 }] := by
  decide +kernel

/-- one graphics part (sub-matches `m` of the line denote the part `p`, `DecGfx.GRel`): from corresponding states
(`DecGfx.Inv`) the decoder's `decGfx` (repaired semantics) and the reader's `stepGfx` reach corresponding states, and
the message of a completed transfer has the delivered effects (none for the all-default image) -/
theorem gfx_part_step (g : GfxSt) (x : Option Xfer) (l : Bytes) (m : List Bytes) (p : GfxPart)
    (hrel : DecGfx.GRel l m p) (hinv : DecGfx.Inv g x) (hdisc : stepGfx x p ≠ (none, [])) :
    ∃ g' r, decGfx false g m = .ok (g', r) ∧ DecGfx.Inv g' (stepGfx x p).1 ∧
      effectsOfMsgOpt r = (stepGfx x p).2.filter (fun e => !DecGfx.isBlankEffect e) :=
  DecGfx.gfx_step g x l m p hrel hinv hdisc

/-- every well-formed graphics line is a part for the reader and is accepted by `regex_gfx` (and by nothing before it)
with sub-matches denoting that part -/
theorem gfx_line (O : Oracles) (l : Bytes) (hw : classify O l = .wellFormed) (hg : DecSound.isGfxLine l = true) :
    DecGfx.GfxLine O l := DecGfx.gfx_line O l hw hg

/-- non-vacuity of `dec_sound`: three transfers (header with offset over two lines, default header over three lines,
one-line gray) interleaved with state, text, flow and non-grammar lines -/
example : inDomainLines default [asc "HWCg#1,2=0/1,8x8,3,4:AAAA", asc "HWC#5=4", asc "HWCt#7=-12|1|11|Title",
      asc "HWCg#1,2=1:AAAA", asc "hello", asc "HWCgRGB#9=0:AAAA", asc "HWCgRGB#9=1:", asc "ping", asc "HWCgRGB#9=2:AQID",
      asc "HWCgGray#3=0/0,2x2:/w=="] = true ∧
    noBlankImage default none [asc "HWCg#1,2=0/1,8x8,3,4:AAAA", asc "HWC#5=4", asc "HWCt#7=-12|1|11|Title",
      asc "HWCg#1,2=1:AAAA", asc "hello", asc "HWCgRGB#9=0:AAAA", asc "HWCgRGB#9=1:", asc "ping", asc "HWCgRGB#9=2:AQID",
      asc "HWCgGray#3=0/0,2x2:/w=="] = true := by decide

/-- **non-grammar lines never produce a state change, command or register write** (any line, any bytes, whose
keyword / key name is not part of the grammar, `classify O l = .nonGrammar`): the decoder returns at most the empty
message for it (nothing at all for the blank line), whose effect list is empty — and the reference reader reads no
effect either.  Holds for the pinned and the repaired tree. -/
theorem nongrammar_silent (O : Oracles) (l : Bytes) (h : classify O l = .nonGrammar) :
    (∃ ms, decInE O [l] = .ok ms ∧ ms.flatMap effectsOfMsgOpt = []) ∧ readInbound O [l] = [] := by
  constructor
  · refine ⟨if l = [] then [] else [some {}], ?_, ?_⟩
    · unfold decInE decLines
      rw [DecShape.nongrammar_decLine O false {} l h]
      simp only [decLines]
      rfl
    · split <;> rfl
  · unfold readInbound readFrom
    rw [DecShape.nongrammar_read O l h]
    rfl

/-- interleaving: a non-grammar line anywhere in a sequence changes neither the decoder's graphics state nor what the
other lines decode to -/
theorem nongrammar_decLine (O : Oracles) (pinned : Bool) (st : DecSt) (l : Bytes) (h : classify O l = .nonGrammar) :
    decLine O pinned st l = .ok { st with out := st.out ++ (if l = [] then [] else [some {}]) } :=
  DecShape.nongrammar_decLine O pinned st l h

example : classify default (asc "Memx=1") = .nonGrammar ∧ classify default (asc "hello world") = .nonGrammar ∧
    classify default (asc "HWCy#1=2") = .nonGrammar := by decide

/-! ## JSON lines: reader and decoder consult the SAME oracle

`Spec.readLine` gives a `{…}` line the effects of `O.parseState l` and a `[…]` line those of `O.parseMsgs l`;
`Model.decLine` appends `stateMsg (O.parseState l)` / the non-nil elements of `O.parseMsgs l`.  `O` is what
`encoding/json` returned for that very line (computed by the harness, record part `J`).  So for JSON lines `dec_sound`
says only: the decoder passes on, unchanged, in place and in order, whatever `encoding/json` parsed (no second reading of
the JSON text exists in this check).  `jsonOracle` is a concrete non-default oracle; the example puts JSON lines between
other families. -/

example : inDomainLines jsonOracle jsonLines = true ∧ noBlankImage jsonOracle none jsonLines = true := example_fact_1

/-- `dec_sound` applied to it: the JSON state has its effect on both ids, the array's messages follow in order, the
`null` element contributes nothing -/
example : ∃ ms, decInE jsonOracle jsonLines = .ok ms ∧ ms.flatMap effectsOfMsgOpt =
    [.setMode 1 { state := 4, output := false, blink := 0 }, .setMode 5 { state := 4, output := false, blink := 3 },
     .setMode 6 { state := 4, output := false, blink := 3 }, .flow .ping, .cmd .clearAll, .setColor 2 (.index 2)] := by
  obtain ⟨ms, h1, h2⟩ := dec_sound jsonOracle jsonLines jsonLines_dom_fact jsonLines_nb_fact
  exact ⟨ms, h1, by rw [h2]; exact jsonLines_effects_fact⟩

/-! ## outside the domain: what decoder and reader do there

`inDomainLines` excludes (a) interleaved graphics transfers, (b) grammar keywords with arguments that are no protocol
numerals, (c) non-canonical base64.  The protocol is silent there (DESIGN.md Appendix B; C05's `checkSafety` accepts
both a decoder that aborts on a stray chunk and one that ignores it), so these are no findings — but the behaviour of
the model (= the Go code, by the correspondence on exactly these lines) is pinned here, so that a change shows. -/

/-- **foreign part**: `gfxDiscipline` expels the sequence (the reference reader abandons a transfer at a part of
another one: it delivers nothing), while the decoder (after `fix:` 87cf381) ignores parts whose id list is not the open
transfer's and delivers B.  B0 restarts, so A is lost for both. -/
theorem foreign_part_divergence :
    interleavedXfer.all (fun l => classify default l == .wellFormed) = true ∧ inDomainLines default interleavedXfer = false ∧
    readInbound default interleavedXfer = [] ∧
    decodedEffects default interleavedXfer = [.setGfx 2 { kind := .mono, w := 8, h := 8, xy := none, data := [1, 2, 3, 4, 5, 6] }] :=
  foreign_part_divergence_fact

/-- a foreign part of ANOTHER FORMAT (`HWCgRGB#` inside an `HWCg#` transfer) is ignored by the decoder likewise; the
reader abandons -/
theorem foreign_format_divergence :
    inDomainLines default [asc "HWCg#1=0/1,8x8:AAAA", asc "HWCgRGB#1=1:AQID", asc "HWCg#1=1:BAUG"] = false ∧
    readInbound default [asc "HWCg#1=0/1,8x8:AAAA", asc "HWCgRGB#1=1:AQID", asc "HWCg#1=1:BAUG"] = [] ∧
    decodedEffects default [asc "HWCg#1=0/1,8x8:AAAA", asc "HWCgRGB#1=1:AQID", asc "HWCg#1=1:BAUG"] =
      [.setGfx 1 { kind := .mono, w := 8, h := 8, xy := none, data := [0, 0, 0, 4, 5, 6] }] :=
  foreign_format_divergence_fact

/-- `Atoi` on a string that starts with a byte that is neither a digit nor a sign: 0 -/
theorem atoiV_syntax (c : UInt8) (cs : Bytes) (hd : isDigit c = false) (h45 : c ≠ 45) (h43 : c ≠ 43) : atoiV (c :: cs) = 0 := by
  unfold atoiV
  split
  · rename_i e; injection e with e1 _; exact absurd e1 h45
  · rename_i e; injection e with e1 _; exact absurd e1 h43
  · simp only [List.cons_ne_nil, if_false]
    simp [scanU, hd]

/-- **`Flag#A=1`** (`regex_registers` lets `[A-Z0-9]*` through for `Flag#` too; the grammar wants digits): the decoder
writes FLAG register "0" (`Atoi` error value), the reader reads nothing; outside the domain -/
theorem flag_letter_id_out_of_domain_behaviour :
    classify default (asc "Flag#A=1") = .outside ∧ readInbound default [asc "Flag#A=1"] = [] ∧
    decoded default [asc "Flag#A=1"] = some [some (regMsg { reg := 1, id := asc "0", value := 1 })] ∧
    decoded default [asc "Flag#A7=0"] = some [some (regMsg { reg := 1, id := asc "0", value := 0 })] ∧
    decoded default [asc "Flag#7A=5"] = some [some (regMsg { reg := 1, id := asc "0", value := 1 })] :=
  flag_letter_id_out_of_domain_behaviour_fact

/-- in the domain the FLAG id is the number read: leading zeros go (`Flag#007=2` is flag 7, value = "set") -/
example : classify default (asc "Flag#007=2") = .wellFormed ∧
    decoded default [asc "Flag#007=2"] = some [some (regMsg { reg := 1, id := asc "7", value := 1 })] ∧
    readInbound default [asc "Flag#007=2"] = [.reg .flag (asc "7") 1] := example_fact_2

/-- **command arguments beyond 32 bits** (no `num`, outside the domain): `uint32` arguments are reduced modulo 2^32 … -/
theorem uint32_arg_wrap_out_of_domain_behaviour (s : Bytes) (n : Nat) (hn : n ≤ 9223372036854775807) :
    decSingle [s, asc "HeartBeatTimer", utoa n] = .ok (some (cmdOnly { setHeartBeatTimer := some (n % 4294967296) })) := by
  have ha : atoiV (utoa n) = (n : Int) := atoiV_itoa (n : Int) (by unfold minInt64; omega) (by unfold maxInt64; omega)
  simp only [decSingle, sub, bind, Except.bind, pure, Except.pure, List.getElem?_cons_succ, List.getElem?_cons_zero]
  rw [if_pos trivial, ha]
  congr 4

/-- … `int32` (enum) arguments wrap to the signed range -/
theorem int32_arg_wrap_out_of_domain_behaviour (s : Bytes) (n : Nat) (hn : n ≤ 9223372036854775807) :
    decSingle [s, asc "SleepMode", utoa n] =
      .ok (some (cmdOnly { setSleepMode := some (((n : Int) + 2147483648) % 4294967296 - 2147483648) })) := by
  have ha : atoiV (utoa n) = (n : Int) := atoiV_itoa (n : Int) (by unfold minInt64; omega) (by unfold maxInt64; omega)
  simp only [decSingle, sub, bind, Except.bind, pure, Except.pure, List.getElem?_cons_succ, List.getElem?_cons_zero]
  rw [if_pos trivial, ha]
  rfl

/-- whole lines: 2^32 wraps to 0, 2^32+1 to 1, 2^31 to the most negative enum value; beyond 64 bits `Atoi` clamps to
`MaxInt64` (low 32 bits all ones); a packed state integer beyond 64 bits likewise -/
theorem numeric_overflow_out_of_domain_behaviour :
    classify default (asc "HeartBeatTimer=4294967296") = .outside ∧
    decoded default [asc "HeartBeatTimer=4294967296"] = some [some (cmdOnly { setHeartBeatTimer := some 0 })] ∧
    decoded default [asc "SleepMode=4294967297"] = some [some (cmdOnly { setSleepMode := some 1 })] ∧
    decoded default [asc "SleepMode=2147483648"] = some [some (cmdOnly { setSleepMode := some (-2147483648) })] ∧
    decoded default [asc "HeartBeatTimer=99999999999999999999"] = some [some (cmdOnly { setHeartBeatTimer := some 4294967295 })] ∧
    decoded default [asc "HWC#1=99999999999999999999"] =
      some [some (stateMsg { ids := [1], mode := some { state := 15, output := true, blink := 15 } })] ∧
    readInbound default [asc "HeartBeatTimer=4294967296", asc "SleepMode=4294967297", asc "HWC#1=99999999999999999999"] = [] :=
  numeric_overflow_out_of_domain_behaviour_fact

example : decSingle [[], asc "HeartBeatTimer", utoa 4294967301] = .ok (some (cmdOnly { setHeartBeatTimer := some 5 })) :=
  uint32_arg_wrap_out_of_domain_behaviour [] 4294967301 (by decide)

/-- **non-canonical base64** (outside the domain): padding bits that are not zero (`QR==`) are accepted by
`base64.StdEncoding` and by the reader alike — same image; a payload `DecodeString` rejects (`QQ=`, short padding) makes the
decoder drop the transfer (no message at all) while the lenient reference reader would deliver what it could decode -/
theorem noncanonical_base64_out_of_domain_behaviour :
    classify default (asc "HWCg#1=0/0,1x1:QR==") = .outside ∧
    decodedEffects default [asc "HWCg#1=0/0,1x1:QR=="] = [.setGfx 1 { kind := .mono, w := 1, h := 1, xy := none, data := [65] }] ∧
    readInbound default [asc "HWCg#1=0/0,1x1:QR=="] = [.setGfx 1 { kind := .mono, w := 1, h := 1, xy := none, data := [65] }] ∧
    classify default (asc "HWCg#1=0/0,1x1:QQ=") = .outside ∧
    decoded default [asc "HWCg#1=0/0,1x1:QQ="] = some [] ∧
    readInbound default [asc "HWCg#1=0/0,1x1:QQ="] = [.setGfx 1 { kind := .mono, w := 1, h := 1, xy := none, data := [] }] :=
  noncanonical_base64_out_of_domain_behaviour_fact

/-! ## alternative spellings named by the property text -/

/-- **text lines with trailing fields omitted**: every prefix length 0..21 of the full value is a well-formed text value
and the record the decoder builds means what the reader reads (instances of `text_total`, evaluated) -/
theorem text_prefixes : ∀ n ∈ List.range 22,
    textWellFormed (join 124 (fullText.take n)) = true ∧
    readText (join 124 (fullText.take n)) = some (normText (textOf (decText (join 124 (fullText.take n))))) :=
  text_prefixes_fact

example : join 124 (fullText.take 4) = asc "-12|3|45|Title" := by decide

/-- **simple three-line vs advanced graphics**: a header-less part 0 puts the decoder's reassembly state exactly where
the header `/2,64x32` puts it — for every format keyword, id list, payload and previous state (`s`, `s'` are the
whole-line sub-matches, which `decGfx` does not read) -/
theorem simple_vs_advanced_gfx_model (pinned : Bool) (st : GfxSt) (s s' kw ids d : Bytes) :
    decGfx pinned st [s, kw, ids, asc "0", [], [], [], [], [], [], [], d] =
    decGfx pinned st [s', kw, ids, asc "0", asc "/2,64x32", asc "2", asc "64", asc "32", [], [], [], d] := by
  have e0 : atoiV (asc "0") = 0 := by decide
  have e2 : atoiV (asc "2") = 2 := by decide
  have e64 : u32 (atoiV (asc "64")) = 64 := by decide
  have e32 : u32 (atoiV (asc "32")) = 32 := by decide
  have en : u32 (atoiV []) = 0 := by decide
  simp only [decGfx, sub, bind, Except.bind, pure, Except.pure, List.getElem?_cons_succ, List.getElem?_cons_zero,
    e0, e2, e64, e32, en, if_true, List.length_nil, Nat.lt_irrefl, decide_false, if_false,
    show (asc "/2,64x32").length > 0 from by decide]

/-- … and the reference reader opens the same transfer for both spellings -/
theorem simple_vs_advanced_gfx_spec (x : Option Xfer) (p : GfxPart) (h0 : p.index = 0) :
    stepGfx x { p with header := none } = stepGfx x { p with header := some (2, 64, 32, none) } := by
  unfold stepGfx
  simp only [h0, if_true, true_or, and_true]

/-- whole lines: the two spellings of a 64×32 transfer decode to the same messages, whose effect is the reader's -/
example :
    decoded default [asc "HWCgRGB#4,5=0:AAEC", asc "HWCgRGB#4,5=1:", asc "HWCgRGB#4,5=2:AwQF"] =
      decoded default [asc "HWCgRGB#4,5=0/2,64x32:AAEC", asc "HWCgRGB#4,5=1:", asc "HWCgRGB#4,5=2:AwQF"] ∧
    decodedEffects default [asc "HWCgRGB#4,5=0:AAEC", asc "HWCgRGB#4,5=1:", asc "HWCgRGB#4,5=2:AwQF"] =
      readInbound default [asc "HWCgRGB#4,5=0/2,64x32:AAEC", asc "HWCgRGB#4,5=1:", asc "HWCgRGB#4,5=2:AwQF"] ∧
    readInbound default [asc "HWCgRGB#4,5=0:AAEC", asc "HWCgRGB#4,5=1:", asc "HWCgRGB#4,5=2:AwQF"] =
      [.setGfx 4 { kind := .rgb, w := 64, h := 32, xy := none, data := [0, 1, 2, 3, 4, 5] },
       .setGfx 5 { kind := .rgb, w := 64, h := 32, xy := none, data := [0, 1, 2, 3, 4, 5] }] :=
  example_fact_3

/-! ## round trip: messages → lines → messages (C01 and C02 composed)

For messages of C01's domain `inDomainIn` the lines the encoder writes lie in C02's domain `inDomainLines`
(`enc_in_domain`), so `dec_sound` applies to them and, with C01's `enc_sound`, the decoder returns messages with exactly
the effects of the messages that were encoded (`roundtrip_in`).  The comparison is in EFFECTS (`Spec.In.effectsOfIn`), i.e.
modulo the normal forms of Spec/PanelIn.lean: one returned message per line instead of the original grouping; colours as
2-bit levels; `normText` (value / font size / header bar / pair mode / scale ranges where meaningless); X/Y without offset
flag; FLAG ids as canonical numerals and values as Booleans; calibration payload in the C07 normal form; enum arguments
modulo 2^32.

`inDomainIn` alone is NOT enough — two places need `roundtripGuard` (decidable), and without it the statements are false:
* a FLAG register id must be empty or a protocol numeral `< 2^32` (`Flag#4294967296=1` is outside `inDomainLines`:
  `enc_in_domain_flag_counterexample`; beyond 64 bits `Atoi` clamps the id and the round trip itself fails:
  `roundtrip_in_unguarded_counterexample`);
* normalising a calibration payload twice must equal normalising it once (`normPayload (normPayload j) = normPayload j`;
  true of every valid UTF-8 string — `calibration_guard_of_validUtf8` — but for the invalid `E2 80 ⏎ 85 41` joining the trimmed lines
  creates the white-space rune U+2005 at the front, which the next normalisation strips:
  `roundtrip_in_calibration_counterexample`). -/

/-- `Spec.In.roundtripGuard` (decidable): FLAG ids are protocol numerals, calibration payloads are stable under the C07 normal form -/
abbrev roundtripGuard := Spec.In.roundtripGuard

/-- the encoder's lines lie in the decoder's domain and deliver no all-default image -/
theorem enc_in_domain (O : Oracles) (ms : List InMsg) (h : inDomainIn O ms = true) (hg : roundtripGuard ms = true) :
    inDomainLines O (encIn O ms) = true ∧ noBlankImage O none (encIn O ms) = true :=
  EncDom.enc_in_domain_all O ms h hg

/-- **round trip** (unbounded in messages, states, ids): decoding the encoder's lines gives messages with exactly the
effects of the original messages, in order -/
theorem roundtrip_in (O : Oracles) (ms : List InMsg) (h : inDomainIn O ms = true) (hg : roundtripGuard ms = true) :
    ∃ out, decInE O (encIn O ms) = .ok out ∧ out.flatMap effectsOfMsgOpt = ms.flatMap effectsOfIn := by
  obtain ⟨h1, h2⟩ := enc_in_domain O ms h hg
  obtain ⟨out, hd, he⟩ := dec_sound O (encIn O ms) h1 h2
  exact ⟨out, hd, by rw [he, EncSound.enc_sound_all O ms h]⟩

/-- **the calibration half of the guard holds of every valid UTF-8 payload** (`Strip.validUtf8` = Go `utf8.ValidString`;
protobuf strings are valid UTF-8): the C07 normal form of a valid UTF-8 text is trimmed, so normalising it again changes
nothing (`Strip.strip_idem`, Lemmas/StripIdem.lean) -/
theorem calibration_guard_of_validUtf8 (j : Bytes) (h : Strip.validUtf8 j = true) : Spec.In.rtCalOk j = true := by
  unfold Spec.In.rtCalOk
  rw [beq_iff_eq]
  exact Strip.strip_idem j h (C07.strip_no_lf j)

example : Strip.validUtf8 (asc "{\n  \"a\": 1 \n}") = true ∧ Spec.In.rtCalOk (asc "{\n  \"a\": 1 \n}") = true ∧
    Strip.validUtf8 [0xE2, 0x80, 0x0A, 0x85, 0x41] = false ∧ Spec.In.rtCalOk [0xE2, 0x80, 0x0A, 0x85, 0x41] = false := by decide

/-- `enc_in_domain` without the guard is false: an all-digit FLAG id of 2^32 is in `inDomainIn`, its line is `outside`
(the round trip itself still holds for this id: it fits `Atoi`) -/
theorem enc_in_domain_flag_counterexample :
    inDomainIn default [{ registers := [{ reg := 1, id := asc "4294967296", value := 1 }] }] = true ∧
    roundtripGuard [{ registers := [{ reg := 1, id := asc "4294967296", value := 1 }] }] = false ∧
    encIn default [{ registers := [{ reg := 1, id := asc "4294967296", value := 1 }] }] = [asc "Flag#4294967296=1"] ∧
    inDomainLines default [asc "Flag#4294967296=1"] = false ∧
    decodedEffects default [asc "Flag#4294967296=1"] = [.reg .flag (asc "4294967296") 1] :=
  enc_in_domain_flag_counterexample_fact

/-- **`roundtrip_in` without the guard is false**: a FLAG id beyond 64 bits comes back as `MaxInt64` -/
theorem roundtrip_in_unguarded_counterexample :
    ¬ (∀ (O : Oracles) (ms : List InMsg), inDomainIn O ms = true →
        ∃ out, decInE O (encIn O ms) = .ok out ∧ out.flatMap effectsOfMsgOpt = ms.flatMap effectsOfIn) := by
  intro h
  obtain ⟨out, h1, h2⟩ := h default hugeFlag hugeFlag_dom_fact
  have hd := hugeFlag_effects_fact
  unfold decodedEffects at hd
  rw [h1] at hd
  simp only [] at hd
  rw [hd] at h2
  exact absurd h2 hugeFlag_ne_fact

/-- the calibration clause of the guard: for a payload that is not valid UTF-8 the line is outside the decoder's domain
and the round trip fails (the decoded payload normalises to `A`, the original to `E2 80 85 41`) -/
theorem roundtrip_in_calibration_counterexample :
    inDomainIn default badCal = true ∧ roundtripGuard badCal = false ∧
    encIn default badCal = [asc "SetCalibrationProfile=" ++ [0xE2, 0x80, 0x85, 0x41]] ∧
    inDomainLines default (encIn default badCal) = false ∧
    decodedEffects default (encIn default badCal) = [.cmd (.setCalibrationProfile [0x41])] ∧
    badCal.flatMap effectsOfIn = [.cmd (.setCalibrationProfile [0xE2, 0x80, 0x85, 0x41])] :=
  roundtrip_in_calibration_counterexample_fact

example : inDomainIn default rtSample = true ∧ roundtripGuard rtSample = true := example_fact_4

example : ∃ out, decInE default (encIn default rtSample) = .ok out ∧ (out.flatMap effectsOfMsgOpt).length = 22 := by
  obtain ⟨out, h1, h2⟩ := roundtrip_in default rtSample rtSample_dom_fact rtSample_guard_fact
  exact ⟨out, h1, by rw [h2]; exact rtSample_len_fact⟩

/-! ## the tie between the hand-written byte matchers and the regular expressions of the Go source

`Gen.regex_*_src` are regenerated from `converterFunctions.go` on every run.  `regex_sources_tie` pins all six
inbound patterns literally (an edit of any character of a pattern in the Go source breaks this obligation);
`regex_keywords_tie` reads the alternation list of the first group out of each regenerated source
(`RegexAlts.altsOf`) and equates it with the keyword table the matcher uses — same keywords, same order (Go
alternation is leftmost-first, `firstKw` takes the first table entry that is a prefix).  The behaviour of the rest of
each pattern (classes, anchors, `.` excludes LF) is correspondence-tested against the real `regexp` values by the
bounded-exhaustive `din.match` records. -/

/-- the six regular expressions of the inbound decoder in the current source are literally the ones the byte matchers
of `Model/DecIn.lean` were written for -/
theorem regex_sources_tie :
    Gen.regex_cmd_src = src_cmd ∧ Gen.regex_gfx_src = src_gfx ∧ Gen.regex_genericDual_src = src_genericDual ∧
    Gen.regex_genericSingle_src = src_genericSingle ∧ Gen.regex_genericSingleStr_src = src_genericSingleStr ∧
    Gen.regex_registers_src = src_registers :=
  regex_sources_tie_fact

/-- the alternation lists inside the regenerated sources are the keyword tables of the matchers, in the same order -/
theorem regex_keywords_tie :
    RegexAlts.altsOf Gen.regex_cmd_src 0 = kwCmd ∧ RegexAlts.altsOf Gen.regex_gfx_src 0 = kwGfx ∧
    RegexAlts.altsOf Gen.regex_genericSingle_src 0 = kwSingle ∧ RegexAlts.altsOf Gen.regex_genericSingleStr_src 0 = kwStr ∧
    RegexAlts.altsOf Gen.regex_registers_src 0 = kwReg ∧
    RegexAlts.altsOf Gen.regex_genericDual_src 0 = [asc "PanelBrightness"] :=
  regex_keywords_tie_fact

/-- the header group of `regex_gfx` lists the header alternative first and the empty alternative second, the offset
group likewise (leftmost-first: a header is taken when present) -/
theorem regex_gfx_optional_groups :
    RegexAlts.altsOf Gen.regex_gfx_src 3 = [asc "/([0-9]+),([0-9]+)x([0-9]+)(,([0-9]+),([0-9]+)|)", []] :=
  regex_gfx_optional_groups_fact

/-- non-vacuity: the tables are the non-trivial ones and the matchers use them -/
example : kwCmd.length = 5 ∧ kwGfx.length = 3 ∧ kwSingle.length = 10 ∧ kwStr.length = 3 ∧ kwReg.length = 4 ∧
    matchCmd (asc "HWCrawADCValues#1=0") = some [asc "HWCrawADCValues#1=0", asc "HWCrawADCValues#", asc "1", asc "0"] ∧
    matchReg (asc "Flag#12=1") = some [asc "Flag#12=1", asc "Flag#", asc "12", asc "1"] ∧
    matchSingle (asc "SleepTimer=5") = some [asc "SleepTimer=5", asc "SleepTimer", asc "5"] := by decide

end RawPanelVerif.C02
