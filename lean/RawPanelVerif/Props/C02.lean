import RawPanelVerif.Lemmas.InBits
import RawPanelVerif.Lemmas.TotalIn
import RawPanelVerif.Lemmas.DecShape
import RawPanelVerif.Lemmas.DecSound2
import RawPanelVerif.Lemmas.DecSound3
import RawPanelVerif.Lemmas.DecGfx3
/-!
# C02 — inbound ASCII lines decode to exactly the panel state they denote

Kernels, each for ALL values by arithmetic:
* `packed_total_mode`, `packed_total_ext`, `packed_total_color` — for every value `v < 2^32` (in particular the whole
  16-bit space) and every id list, the effects of the message the decoder builds equal the reference reading of `v`
  on every id;
* `colour_readability_bit_irrelevant` — bit 7 of a colour integer changes nothing (reader and decoder);
* `brightness_one_two` — `PanelBrightness=n` and `PanelBrightness=n,n` decode to the same message / effect.
-/
namespace RawPanelVerif.C02
open RawPanelVerif RawPanelVerif.Bytes RawPanelVerif.MsgIn RawPanelVerif.Model.In RawPanelVerif.InBits RawPanelVerif.TotalIn
open RawPanelVerif.Spec.In RawPanelVerif.ReadIn

theorem flatMap_singleton {α β : Type} (l : List α) (f : α → β) : l.flatMap (fun a => [f a]) = l.map f := by
  induction l with
  | nil => rfl
  | cons a as ih => simp [List.flatMap_cons, ih]

theorem effects_stateMsg (s : State) : effectsOfIn (stateMsg s) = effectsOfState s := by
  simp [effectsOfIn, stateMsg, effectsOfFlow, opt]

theorem u32_nat (n : Nat) (h : n < 4294967296) : u32 (n : Int) = n := by unfold u32; omega

theorem packed_total_mode (ids : List Nat) (v : Nat) (hv : v < 4294967296) :
    effectsOfIn (decMode ids (v : Int)) = ids.map (fun id => Effect.setMode id (readMode v)) := by
  unfold decMode
  rw [effects_stateMsg]
  unfold effectsOfState effectsOfStateId
  simp only [opt, List.append_nil]
  rw [flatMap_singleton]
  congr 1
  funext id
  unfold readMode
  rw [landNat_15, shr_nat, landNat_15, u32_nat _ (by omega)]
  have hb := landNat_bit v 5 (by omega)
  simp only [show (2:Nat)^5 = 32 from rfl] at hb
  rw [hb]
  simp only [show (2:Nat)^8 = 256 from rfl, Int.toNat_natCast]
  congr 2
  by_cases h : v / 32 % 2 = 1
  · simp [h]
  · have : v / 32 % 2 = 0 := by omega
    simp [this]

theorem packed_total_ext (ids : List Nat) (v : Nat) (hv : v < 4294967296) :
    effectsOfIn (decExt ids (v : Int)) = ids.map (fun id => Effect.setExt id (readExt v)) := by
  unfold decExt
  rw [effects_stateMsg]
  unfold effectsOfState effectsOfStateId
  simp only [opt, List.append_nil, List.nil_append]
  rw [flatMap_singleton]
  congr 1
  funext id
  unfold readExt
  rw [shr_nat, landNat_15, landNat_4095, u32_nat _ (by omega)]
  simp only [show (2:Nat)^12 = 4096 from rfl, Int.toNat_natCast]

theorem level2_85 (k : Nat) (h : k < 4) : level2 (85 * k) = k := by unfold level2; omega

theorem packed_total_color (ids : List Nat) (v : Nat) (hv : v < 4294967296) :
    effectsOfIn (decColor ids (v : Int)) = ids.map (fun id => Effect.setColor id (readColor v)) := by
  unfold decColor readColor
  have hb := landNat_bit v 6 (by omega)
  simp only [show (2:Nat)^6 = 64 from rfl] at hb
  rw [hb]
  by_cases h : v / 64 % 2 = 1
  · have h' : v / 64 % 2 * 64 > 0 := by omega
    rw [if_pos h', if_pos h]
    rw [effects_stateMsg]
    unfold effectsOfState effectsOfStateId
    simp only [opt, List.append_nil, List.nil_append, colorOf]
    rw [flatMap_singleton]
    congr 1
    funext id
    rw [shr_nat, shr_nat, shr_nat, landNat_3, landNat_3, landNat_3,
      expand2_eq _ (by omega), expand2_eq _ (by omega), expand2_eq _ (by omega),
      level2_85 _ (by omega), level2_85 _ (by omega), level2_85 _ (by omega)]
    simp only [show (2:Nat)^4 = 16 from rfl, show (2:Nat)^2 = 4 from rfl, show (2:Nat)^0 = 1 from rfl, Nat.div_one]
  · have h' : ¬ v / 64 % 2 * 64 > 0 := by omega
    rw [if_neg h', if_neg h]
    rw [effects_stateMsg]
    unfold effectsOfState effectsOfStateId
    simp only [opt, List.append_nil, List.nil_append, colorOf]
    rw [flatMap_singleton]
    congr 1
    funext id
    rw [landNat_31]
    simp only [Int.toNat_natCast]

/-- the readability bit (bit 7) of a colour integer is irrelevant -/
theorem colour_readability_bit_irrelevant (n : Nat) (h : n / 128 % 2 = 0) : readColor (n + 128) = readColor n := by
  unfold readColor
  have e1 : (n + 128) / 64 % 2 = n / 64 % 2 := by omega
  have e2 : (n + 128) / 16 % 4 = n / 16 % 4 := by omega
  have e3 : (n + 128) / 4 % 4 = n / 4 % 4 := by omega
  have e4 : (n + 128) % 4 = n % 4 := by omega
  have e5 : (n + 128) % 32 = n % 32 := by omega
  rw [e1, e2, e3, e4, e5]

/-- one- and two-argument brightness: `PanelBrightness=n` decodes to the same message as `PanelBrightness=n,n` -/
theorem brightness_one_two_model (s1 s2 d : Bytes) :
    decSingle [s1, asc "PanelBrightness", d] = decDual [s2, asc "PanelBrightness", d, d] := by
  simp only [decSingle, decDual, sub, bind, Except.bind, pure, Except.pure, List.getElem?_cons_succ, List.getElem?_cons_zero]
  rw [if_neg (by decide), if_neg (by decide), if_neg (by decide), if_neg (by decide), if_neg (by decide),
    if_neg (by decide), if_neg (by decide), if_neg (by decide), if_neg (by decide)]

/-- … and the reference reader gives both spellings the same effect -/
theorem brightness_one_two_spec (d : Bytes) (h : d.all isDigit = true) :
    readBrightness d = readBrightness (d ++ 44 :: d) := by
  have h44 : (44 : UInt8) ∉ d := EncSound.all_not_mem isDigit d 44 h (by decide)
  unfold readBrightness
  rw [cut_none 44 d h44, cut_append 44 d d h44]
  simp only []
  cases num? d <;> rfl

/-! ## dec_sound

The statement as first written,

    ∀ O ls, inDomainLines O ls = true → ∃ ms, decInE O ls = .ok ms ∧ ms.flatMap effectsOfMsgOpt = readInbound O ls

(`inDomainLines`: every line well-formed or non-grammar, graphics transfers in order) is FALSE:
`dec_sound_blank_image_counterexample`, witness `["HWCg#1=0/0,0x0:"]`.  The line is well-formed (header 0×0, last index
0, empty canonical base64); the reference reader delivers `setGfx 1 {mono, 0×0, no offset, no data}`; the decoder
delivers the message `{States:[{HWCIDs:[1], HWCGfx:{}}]}`, whose graphics sub-message is the all-default `HWCGfx` —
and `Spec.effectsOfStateId` gives an all-default sub-message no effect (it cannot tell "no graphics" from the
all-default image; its comment assumes that image is not expressible in ASCII, but it is).  So the guard comes from the
Spec's meaning function, not from the Go code: the decoder reassembles the image exactly (`dec_sound_nb`).

PROVED below, for all line sequences of any length and any interleaving:
* `dec_sound` — the statement above under the additional decidable guard `noBlankImage O none ls` (no graphics
  transfer of the sequence delivers the all-default image: mono, 0×0, no offset, empty data);
* `dec_sound_guard_exact` — on the domain the conclusion holds IFF the guard holds (the guard is the weakest possible);
* `dec_sound_nb` — without any guard: the decoder never panics on the domain and its messages' effects are the
  reader's effects minus the deliveries of the all-default image (`readFromNB`);
* `gfx_part_step` — one graphics part: the decoder's reassembly state and the reader's transfer state stay in
  correspondence (`DecGfx.Inv`), lines of other families in between leave both untouched;
* `text_total` — `decText` against `readText` on every well-formed `HWCt#` value;
* `dec_sound_nogfx` / `dec_sound_partial` — the conclusion, stated without guard, for sequences without graphics lines /
  without text and graphics lines (kept from the earlier rounds; no graphics part, so nothing for the guard to check).
Nothing of the first statement remains unproved except the instances refuted by the counterexample. -/

/-- the partial domain: a line that is non-grammar, or well-formed and not a text / graphics line -/
abbrev InPartialDomain := DecSound.InPartialDomain

/-- **dec_sound_partial** (unbounded in the number of lines) -/
theorem dec_sound_partial (O : Oracles) (ls : List Bytes) (h : ∀ l ∈ ls, InPartialDomain O l) :
    ∃ ms, decInE O ls = .ok ms ∧ ms.flatMap effectsOfMsgOpt = readInbound O ls :=
  DecSound.dec_sound_partial O ls h

/-- one line: the decoder appends exactly the messages whose effects the reference reader reads from the line, and
leaves its graphics state alone -/
theorem line_sound (O : Oracles) (l : Bytes) (hw : classify O l = .wellFormed) (hnt : DecSound.isTextOrGfx l = false) :
    DecSound.LineSound O l := DecSound.line_sound O l hw hnt

/-- non-vacuity: a mixed sequence of the partial domain -/
example : ∀ l ∈ [asc "HWC#1,2=293", asc "hello", asc "PanelBrightness=3", asc "PanelBrightness=3,4", asc "HWCc#7=209",
      asc "MemA1=5", asc "Flag#3=1", asc "Memx=1", asc "list", asc "HeartBeatTimer=4294967295"],
    InPartialDomain default l := by
  intro l hl
  simp only [List.mem_cons, List.not_mem_nil, or_false] at hl
  rcases hl with rfl | rfl | rfl | rfl | rfl | rfl | rfl | rfl | rfl | rfl <;>
    first
      | exact Or.inl (by decide)
      | exact Or.inr (by decide)

/-! ### text lines included -/

/-- the graphics-free domain: a line that is non-grammar, or well-formed and not an `HWCg#/HWCgRGB#/HWCgGray#` line
(contains `InPartialDomain`, plus every well-formed `HWCt#` line) -/
abbrev InNoGfxDomain := DecSound.InNoGfxDomain

theorem inNoGfxDomain_of_partial (O : Oracles) (l : Bytes) (h : InPartialDomain O l) : InNoGfxDomain O l :=
  DecSound.InNoGfxDomain_of_partial O l h

/-- **`decText` against `readText`**: on every well-formed `HWCt#` value (21 `|`-separated fields, every packed
formatting / icon / font / colour integer over its whole value space) the record the decoder builds means exactly the
text state the reference reader reads, and it is never the all-default record -/
theorem text_total (v : Bytes) (h : textWellFormed v = true) :
    ∃ t, readText v = some t ∧ normText (textOf (decText v)) = t ∧ decText v ≠ {} :=
  let ⟨t, h1, h2⟩ := DecText.text_kernel v h
  ⟨t, h1, h2, DecText.decText_ne_default v⟩

/-- **dec_sound_nogfx** (unbounded in the number of lines): `dec_sound` for every sequence without graphics lines —
all families of `dec_sound_partial` and `HWCt#` text lines -/
theorem dec_sound_nogfx (O : Oracles) (ls : List Bytes) (h : ∀ l ∈ ls, InNoGfxDomain O l) :
    ∃ ms, decInE O ls = .ok ms ∧ ms.flatMap effectsOfMsgOpt = readInbound O ls :=
  DecSound.dec_sound_nogfx O ls h

/-- one line, text lines included -/
theorem line_sound_nogfx (O : Oracles) (l : Bytes) (hw : classify O l = .wellFormed) (hng : DecSound.isGfxLine l = false) :
    DecSound.LineSound O l := DecSound.line_sound_nogfx O l hw hng

/-- non-vacuity: text lines (all 21 fields, negative value, format 10 with font size, colours, empty field 0 = hide)
mixed with other families -/
example : ∀ l ∈ [asc "HWCt#1,2=-12|1|11|Title|1|L1|L2|7|2|1|-5|5|-9|9||73|228|14|1|209|5", asc "HWC#1=293",
      asc "HWCt#5=32|10", asc "hello", asc "HWCt#7=|||x", asc "HWCt#9=", asc "HWCt#3=4294967295|11|||||b"],
    InNoGfxDomain default l := by
  intro l hl
  simp only [List.mem_cons, List.not_mem_nil, or_false] at hl
  rcases hl with rfl | rfl | rfl | rfl | rfl | rfl | rfl <;>
    first
      | exact Or.inl (by decide)
      | exact Or.inr (by decide)

example : textWellFormed (asc "-12|1|11|Title|1|L1|L2|7|2|1|-5|5|-9|9||73|228|14|1|209|5") = true := by decide

/-! ### graphics lines included: the whole domain -/

/-- the all-default image `{mono, 0×0, no offset, no data}` -/
abbrev blankGfx := DecGfx.blankGfx
/-- no graphics transfer of the sequence (reader state `x` at its start) delivers the all-default image -/
abbrev noBlankImage := DecGfx.noBlankImage
/-- the reference reader with the deliveries of the all-default image left out -/
abbrev readFromNB := DecGfx.readFromNB

/-- **the first statement of `dec_sound` is false**: the all-default image is expressible in ASCII, the reader
delivers it, and the message the decoder builds for it carries no effect under `effectsOfStateId` -/
theorem dec_sound_blank_image_counterexample :
    ¬ (∀ (O : Oracles) (ls : List Bytes), inDomainLines O ls = true →
        ∃ ms, decInE O ls = .ok ms ∧ ms.flatMap effectsOfMsgOpt = readInbound O ls) := by
  intro h
  obtain ⟨ms, h1, h2⟩ := h default [asc "HWCg#1=0/0,0x0:"] (by decide)
  have hd : (match decInE default [asc "HWCg#1=0/0,0x0:"] with
      | .ok ms => ms.flatMap effectsOfMsgOpt
      | .error _ => [Effect.flow .ping]) = [] := by decide
  rw [h1] at hd
  simp only [] at hd
  rw [hd] at h2
  exact absurd h2 (by decide)

/-- the witness in detail: in the domain, one effect for the reader, none in the decoder's message; also with the
image split over two lines -/
example : inDomainLines default [asc "HWCg#1=0/0,0x0:"] = true ∧
    readInbound default [asc "HWCg#1=0/0,0x0:"] = [.setGfx 1 blankGfx] ∧
    noBlankImage default none [asc "HWCg#1=0/0,0x0:"] = false ∧
    inDomainLines default [asc "HWCg#1=0/1,0x0:", asc "HWCg#1=1:"] = true ∧
    noBlankImage default none [asc "HWCg#1=0/1,0x0:", asc "HWCg#1=1:"] = false := by decide

/-- **dec_sound** (all line sequences of the domain, any length, any interleaving of graphics transfers with other
lines): the decoder does not panic and the messages it returns have exactly the effects the reference reader reads —
under the guard that no transfer delivers the all-default image -/
theorem dec_sound (O : Oracles) (ls : List Bytes) (h : inDomainLines O ls = true) (hb : noBlankImage O none ls = true) :
    ∃ ms, decInE O ls = .ok ms ∧ ms.flatMap effectsOfMsgOpt = readInbound O ls :=
  DecGfx.dec_sound O ls h hb

/-- the guard of `dec_sound` is exact -/
theorem dec_sound_guard_exact (O : Oracles) (ls : List Bytes) (h : inDomainLines O ls = true) :
    (∃ ms, decInE O ls = .ok ms ∧ ms.flatMap effectsOfMsgOpt = readInbound O ls) ↔ noBlankImage O none ls = true :=
  DecGfx.dec_sound_iff O ls h

/-- **dec_sound without guard**: no panic, and the effects are the reader's minus the deliveries of the all-default
image -/
theorem dec_sound_nb (O : Oracles) (ls : List Bytes) (h : inDomainLines O ls = true) :
    ∃ ms, decInE O ls = .ok ms ∧ ms.flatMap effectsOfMsgOpt = readFromNB O none ls :=
  DecGfx.dec_sound_nb O ls h

/-- one graphics part (sub-matches `m` of the line denote the part `p`, `DecGfx.GRel`): from corresponding states
(`DecGfx.Inv`) the decoder's `decGfx` (repaired semantics) and the reader's `stepGfx` reach corresponding states, and
the message of a completed transfer has the delivered effects (none for the all-default image) -/
theorem gfx_part_step (g : GfxSt) (x : Option Xfer) (l : Bytes) (m : List Bytes) (p : GfxPart)
    (hrel : DecGfx.GRel l m p) (hinv : DecGfx.Inv g x) (hdisc : stepGfx x p ≠ (none, [])) :
    ∃ g' r, decGfx false g m = .ok (g', r) ∧ DecGfx.Inv g' (stepGfx x p).1 ∧
      effectsOfMsgOpt r = (stepGfx x p).2.filter (fun e => !DecGfx.isBlankEffect e) :=
  DecGfx.gfx_step g x l m p hrel hinv hdisc

/-- every well-formed graphics line is a part for the reader and is accepted by `regex_gfx` (and by nothing before it)
with sub-matches denoting that part -/
theorem gfx_line (O : Oracles) (l : Bytes) (hw : classify O l = .wellFormed) (hg : DecSound.isGfxLine l = true) :
    DecGfx.GfxLine O l := DecGfx.gfx_line O l hw hg

/-- non-vacuity of `dec_sound`: three transfers (header with offset over two lines, default header over three lines,
one-line gray) interleaved with state, text, flow and non-grammar lines -/
example : inDomainLines default [asc "HWCg#1,2=0/1,8x8,3,4:AAAA", asc "HWC#5=4", asc "HWCt#7=-12|1|11|Title",
      asc "HWCg#1,2=1:AAAA", asc "hello", asc "HWCgRGB#9=0:AAAA", asc "HWCgRGB#9=1:", asc "ping", asc "HWCgRGB#9=2:AQID",
      asc "HWCgGray#3=0/0,2x2:/w=="] = true ∧
    noBlankImage default none [asc "HWCg#1,2=0/1,8x8,3,4:AAAA", asc "HWC#5=4", asc "HWCt#7=-12|1|11|Title",
      asc "HWCg#1,2=1:AAAA", asc "hello", asc "HWCgRGB#9=0:AAAA", asc "HWCgRGB#9=1:", asc "ping", asc "HWCgRGB#9=2:AQID",
      asc "HWCgGray#3=0/0,2x2:/w=="] = true := by decide

/-- **non-grammar lines never produce a state change, command or register write** (any line, any bytes, whose
keyword / key name is not part of the grammar, `classify O l = .nonGrammar`): the decoder returns at most the empty
message for it (nothing at all for the blank line), whose effect list is empty — and the reference reader reads no
effect either.  Holds for the pinned and the repaired tree. -/
theorem nongrammar_silent (O : Oracles) (l : Bytes) (h : classify O l = .nonGrammar) :
    (∃ ms, decInE O [l] = .ok ms ∧ ms.flatMap effectsOfMsgOpt = []) ∧ readInbound O [l] = [] := by
  constructor
  · refine ⟨if l = [] then [] else [some {}], ?_, ?_⟩
    · unfold decInE decLines
      rw [DecShape.nongrammar_decLine O false {} l h]
      simp only [decLines]
      rfl
    · split <;> rfl
  · unfold readInbound readFrom
    rw [DecShape.nongrammar_read O l h]
    rfl

/-- interleaving: a non-grammar line anywhere in a sequence changes neither the decoder's graphics state nor what the
other lines decode to -/
theorem nongrammar_decLine (O : Oracles) (pinned : Bool) (st : DecSt) (l : Bytes) (h : classify O l = .nonGrammar) :
    decLine O pinned st l = .ok { st with out := st.out ++ (if l = [] then [] else [some {}]) } :=
  DecShape.nongrammar_decLine O pinned st l h

example : classify default (asc "Memx=1") = .nonGrammar ∧ classify default (asc "hello world") = .nonGrammar ∧
    classify default (asc "HWCy#1=2") = .nonGrammar := by decide

end RawPanelVerif.C02
