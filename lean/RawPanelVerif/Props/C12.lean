import RawPanelVerif.Lemmas.NetFeed
/-!
# C12 — protocol auto-detection classifies binary and ASCII panels correctly

Property theorems only.  `classifyClient` mirrors connecttopanel.go 90-130, `classifyDetector` mirrors
rawpanelhelpers.go 701-738 (Model/Net.lean); a `Reply` is what the single `Read` after the probe returns.  All
statements are for arbitrary reply bytes (no bound other than the 1000-byte reply buffer where it matters).

* `probe_bytes`                       the probe is the one frame `02 00 00 00 08 01` (given `marshal ping = 08 01`)
* `classifyClient_iff`                binary ⇔ more than 4 bytes and the length prefix + 4 equals the byte count
* `detector_iff`                      the detector says ASCII ⇔ read error, or ≥ 4 bytes starting `RDY\n` / `map=`
* `ack_frame_is_binary_both`          one well-formed frame that fits the buffer ⇒ binary, nothing written, both
* `silence_rdy_map_are_ascii_both`    silence, `RDY\n…`, `map=…` ⇒ ASCII and exactly one LF written, both
* `client_any_other_text_is_ascii`    client: any reply without NUL bytes ⇒ ASCII, one LF
* `errormsg_extracted`                client: `ErrorMsg=<text>` (up to the first LF or the end) ⇒ `<text>` to onconnect
* `entry_points_differ_example`       where the two legitimately differ (short non-text reply), for the record
-/
namespace RawPanelVerif.C12
open RawPanelVerif RawPanelVerif.Net

theorem probe_bytes : probeBytes [8, 1] = [2, 0, 0, 0, 8, 1] := by decide

/-- the probe is one complete length-prefixed message for the reference parser, and nothing else -/
theorem probe_is_one_ping_frame : Spec.Net.parse 4294967296 (probeBytes [8, 1]) = ([[8, 1]], .done) := by
  have := parse_encode 4294967296 (Nat.le_refl _) [[8, 1]] (by simp)
  simpa [encode, probeBytes] using this

theorem classifyClient_iff (b : Bytes) :
    (classifyClient (.bytes b)).binary = true ↔ b.length > 4 ∧ (le32 b + 4) % 4294967296 = b.length := by
  unfold classifyClient
  by_cases h4 : b.length > 4
  · by_cases hm : (le32 b + 4) % 4294967296 = b.length
    · simp [h4, hm]
    · simp [h4, hm]
  · simp [h4]

/-- without the `uint32` wrap-around (replies are at most a buffer long) -/
theorem classifyClient_iff_nowrap (b : Bytes) (hb : b.length < 4294967296) :
    (classifyClient (.bytes b)).binary = true ↔ b.length > 4 ∧ le32 b + 4 = b.length := by
  rw [classifyClient_iff]
  have := le32_lt b
  constructor
  · rintro ⟨h1, h2⟩; exact ⟨h1, by omega⟩
  · rintro ⟨h1, h2⟩; exact ⟨h1, by omega⟩

theorem client_timeout_error_ascii (r : Reply) (h : r = .timeout ∨ r = .error) :
    classifyClient r = ⟨false, [lf], []⟩ := by
  rcases h with h | h <;> subst h <;> rfl

theorem detector_iff (r : Reply) :
    (classifyDetector r).binary = false ↔
      (r = .timeout ∨ r = .error ∨ ∃ b, r = .bytes b ∧ b.length ≥ 4 ∧ (b.take 4 = rdy ∨ b.take 4 = mapEq)) := by
  cases r with
  | timeout => simp [classifyDetector]
  | error => simp [classifyDetector]
  | bytes b =>
    unfold classifyDetector
    by_cases h : b.length ≥ 4 ∧ (b.take 4 = rdy ∨ b.take 4 = mapEq)
    · simp only [h, and_self, if_true]; simp; exact h
    · simp only [h, if_false]
      have : ¬ (4 ≤ b.length ∧ (List.take 4 b = rdy ∨ List.take 4 b = mapEq)) := h
      split <;> simp [this] <;> (split <;> simp [this])

/-- whenever the detector says ASCII it writes exactly one LF; whenever it says binary it writes nothing -/
theorem detector_writes (r : Reply) :
    (classifyDetector r).writes = if (classifyDetector r).binary then [] else [lf] := by
  cases r with
  | timeout => rfl
  | error => rfl
  | bytes b =>
    by_cases h1 : b.length ≥ 4 ∧ (b.take 4 = rdy ∨ b.take 4 = mapEq)
    · simp [classifyDetector, h1]
    · by_cases h2 : b.length ≤ 4
      · simp [classifyDetector, h1, h2]
      · by_cases h3 : (le32 b + 4) % 4294967296 ≠ b.length
        · simp [classifyDetector, h1, h2, h3]
        · simp [classifyDetector, h1, h2, h3]

theorem client_writes (r : Reply) :
    (classifyClient r).writes = if (classifyClient r).binary then [] else [lf] := by
  cases r with
  | timeout => rfl
  | error => rfl
  | bytes b =>
    by_cases h1 : b.length > 4
    · by_cases h2 : (le32 b + 4) % 4294967296 = b.length
      · simp [classifyClient, h1, h2]
      · simp [classifyClient, h1, h2]
    · simp [classifyClient, h1]

/-- first four bytes of a frame: the length prefix -/
theorem frame_take4 (p : Bytes) : (frame p).take 4 = putLe32 p.length := by
  unfold frame; exact List.take_left' (putLe32_length _)

/-- a well-formed frame that fits the reply buffer (e.g. the acknowledge frame `02 00 00 00 08 02`) is classified
binary by both entry points, and nothing more is written -/
theorem ack_frame_is_binary_both (p : Bytes) (h0 : 0 < p.length) (hfit : p.length + 4 ≤ Gen.clientProbeBuf) :
    classifyClient (.bytes (frame p)) = ⟨true, [], []⟩ ∧ classifyDetector (.bytes (frame p)) = ⟨true, [], []⟩ := by
  have hlen : (frame p).length = p.length + 4 := by simp [frame, putLe32_length]; omega
  have hbuf : Gen.clientProbeBuf = 1000 := rfl
  have hle : le32 (frame p) = p.length := le32_putLe32 _ (by omega) _
  constructor
  · unfold classifyClient
    have h4 : (frame p).length > 4 := by omega
    have hm : (le32 (frame p) + 4) % 4294967296 = (frame p).length := by rw [hle, hlen]; omega
    simp [h4, hm]
  · -- the prefix of a frame of at most 1000 bytes has a zero third byte: it is neither "RDY\n" nor "map="
    have hne : ¬ ((frame p).take 4 = rdy ∨ (frame p).take 4 = mapEq) := by
      rw [frame_take4]
      have h3 : UInt8.ofNat (p.length / 65536) = 0 := by
        have : p.length / 65536 = 0 := by omega
        rw [this]; rfl
      simp only [putLe32, h3]
      intro h
      rcases h with h | h
      · simp only [rdy, List.cons.injEq] at h
        exact absurd h.2.2.1 (by decide)
      · simp only [mapEq, List.cons.injEq] at h
        exact absurd h.2.2.1 (by decide)
    unfold classifyDetector
    have h5 : ¬ (frame p).length ≤ 4 := by omega
    simp only [hne, and_false, if_false, h5]
    split <;> rfl

/-- the acknowledge frame itself -/
example : classifyClient (.bytes (frame [8, 2])) = ⟨true, [], []⟩ ∧ classifyDetector (.bytes (frame [8, 2])) = ⟨true, [], []⟩ :=
  ack_frame_is_binary_both [8, 2] (by decide) (by decide)

theorem le32_cons4 (a b c d : UInt8) (t : Bytes) : le32 (a :: b :: c :: d :: t) = le32 [a, b, c, d] := rfl

/-- a panel that stays silent (or whose connection fails), or answers `RDY\n…` or `map=…`, is ASCII for both entry
points, and both write exactly one bare line feed -/
theorem silence_rdy_map_are_ascii_both :
    (∀ r, (r = .timeout ∨ r = .error) →
      (classifyClient r).binary = false ∧ (classifyClient r).writes = [lf] ∧
      (classifyDetector r).binary = false ∧ (classifyDetector r).writes = [lf]) ∧
    (∀ t : Bytes, (rdy ++ t).length ≤ Gen.clientProbeBuf →
      (classifyClient (.bytes (rdy ++ t))).binary = false ∧ (classifyClient (.bytes (rdy ++ t))).writes = [lf] ∧
      (classifyDetector (.bytes (rdy ++ t))).binary = false ∧ (classifyDetector (.bytes (rdy ++ t))).writes = [lf]) ∧
    (∀ t : Bytes, (mapEq ++ t).length ≤ Gen.clientProbeBuf →
      (classifyClient (.bytes (mapEq ++ t))).binary = false ∧ (classifyClient (.bytes (mapEq ++ t))).writes = [lf] ∧
      (classifyDetector (.bytes (mapEq ++ t))).binary = false ∧ (classifyDetector (.bytes (mapEq ++ t))).writes = [lf]) := by
  have hbuf : Gen.clientProbeBuf = 1000 := rfl
  refine ⟨?_, ?_, ?_⟩
  · intro r h
    rcases h with h | h <;> subst h <;> exact ⟨rfl, rfl, rfl, rfl⟩
  · intro t ht
    have hc : (classifyClient (.bytes (rdy ++ t))).binary = false := by
      cases hb : (classifyClient (.bytes (rdy ++ t))).binary with
      | false => rfl
      | true =>
        have := (classifyClient_iff_nowrap _ (by omega)).mp hb
        have hl : le32 (rdy ++ t) = 173622354 := by
          show le32 (82 :: 68 :: 89 :: 10 :: t) = _
          rw [le32_cons4]; decide
        omega
    have hd : (classifyDetector (.bytes (rdy ++ t))).binary = false := by
      rw [detector_iff]
      refine Or.inr (Or.inr ⟨_, rfl, ?_, Or.inl ?_⟩)
      · simp [rdy]
      · exact List.take_left' rfl
    exact ⟨hc, by rw [client_writes, hc]; rfl, hd, by rw [detector_writes, hd]; rfl⟩
  · intro t ht
    have hc : (classifyClient (.bytes (mapEq ++ t))).binary = false := by
      cases hb : (classifyClient (.bytes (mapEq ++ t))).binary with
      | false => rfl
      | true =>
        have := (classifyClient_iff_nowrap _ (by omega)).mp hb
        have hl : le32 (mapEq ++ t) = 1030775149 := by
          show le32 (109 :: 97 :: 112 :: 61 :: t) = _
          rw [le32_cons4]; decide
        omega
    have hd : (classifyDetector (.bytes (mapEq ++ t))).binary = false := by
      rw [detector_iff]
      refine Or.inr (Or.inr ⟨_, rfl, ?_, Or.inr ?_⟩)
      · simp [mapEq]
      · exact List.take_left' rfl
    exact ⟨hc, by rw [client_writes, hc]; rfl, hd, by rw [detector_writes, hd]; rfl⟩

/-- the reconnecting client treats every reply that contains no NUL byte (any text) as ASCII -/
theorem client_any_other_text_is_ascii (b : Bytes) (hfit : b.length ≤ Gen.clientProbeBuf) (htext : ∀ c ∈ b, c ≠ 0) :
    (classifyClient (.bytes b)).binary = false ∧ (classifyClient (.bytes b)).writes = [lf] := by
  have hbuf : Gen.clientProbeBuf = 1000 := rfl
  have hc : (classifyClient (.bytes b)).binary = false := by
    cases hb : (classifyClient (.bytes b)).binary with
    | false => rfl
    | true =>
      have h := (classifyClient_iff_nowrap _ (by omega)).mp hb
      match b, htext, h, hfit with
      | a :: b' :: c :: d :: t, htext, h, hfit =>
        have hd : d ≠ 0 := htext d (by simp)
        have hd' : d.toNat ≠ 0 := fun e => hd (UInt8.toNat_inj.mp (by simpa using e))
        rw [le32_cons4] at h
        simp only [le32] at h
        omega
      | [], _, h, _ => simp at h
      | [_], _, h, _ => simp at h
      | [_, _], _, h, _ => simp at h
      | [_, _, _], _, h, _ => simp at h
  exact ⟨hc, by rw [client_writes, hc]; rfl⟩

theorem beforeLF_append_lf (m r : Bytes) (h : (10 : UInt8) ∉ m) : beforeLF (m ++ 10 :: r) = m := by
  induction m with
  | nil => simp [beforeLF]
  | cons x m ih =>
    have hx : x ≠ 10 := fun e => h (by simp [e])
    have hm : (10 : UInt8) ∉ m := fun e => h (by simp [e])
    simp [beforeLF, hx, ih hm]

theorem beforeLF_noLF (m : Bytes) (h : (10 : UInt8) ∉ m) : beforeLF m = m := by
  induction m with
  | nil => rfl
  | cons x m ih =>
    have hx : x ≠ 10 := fun e => h (by simp [e])
    have hm : (10 : UInt8) ∉ m := fun e => h (by simp [e])
    simp [beforeLF, hx, ih hm]

theorem hasPrefix_append (p t : Bytes) : hasPrefix (p ++ t) p = true := by
  induction p with
  | nil => cases t <;> rfl
  | cons x p ih => simp [hasPrefix, ih]

/-- the error text the client hands to `onconnect`: what follows `ErrorMsg=` up to the first LF (or the end) -/
theorem errormsg_extracted (msg rest : Bytes) (hmsg : (10 : UInt8) ∉ msg) :
    extractErrorMsg (errorMsgPrefix ++ msg ++ 10 :: rest) = msg ∧ extractErrorMsg (errorMsgPrefix ++ msg) = msg := by
  have hp : (10 : UInt8) ∉ errorMsgPrefix ++ msg := by
    simp only [List.mem_append, not_or]; exact ⟨by decide, hmsg⟩
  have h9 : errorMsgPrefix.length = 9 := by decide
  constructor
  · simp only [extractErrorMsg, beforeLF_append_lf _ rest hp, hasPrefix_append, if_true]
    exact List.drop_left' h9
  · simp only [extractErrorMsg, beforeLF_noLF _ hp, hasPrefix_append, if_true]
    exact List.drop_left' h9

/-- … and that text is what `classifyClient` returns for such a reply (no NUL bytes, fits the buffer) -/
theorem errormsg_passed_to_onconnect (msg rest : Bytes) (hmsg : (10 : UInt8) ∉ msg)
    (hfit : (errorMsgPrefix ++ msg ++ 10 :: rest).length ≤ Gen.clientProbeBuf)
    (htext : ∀ c ∈ errorMsgPrefix ++ msg ++ 10 :: rest, c ≠ 0) :
    classifyClient (.bytes (errorMsgPrefix ++ msg ++ 10 :: rest)) = ⟨false, [lf], msg⟩ := by
  have h := (client_any_other_text_is_ascii _ hfit htext).1
  have he := (errormsg_extracted msg rest hmsg).1
  generalize errorMsgPrefix ++ msg ++ 10 :: rest = B at h he
  have hn : ¬ (B.length > 4 ∧ (le32 B + 4) % 4294967296 = B.length) := by
    intro hc
    have := (classifyClient_iff B).mpr hc
    rw [h] at this
    exact Bool.noConfusion this
  by_cases h1 : B.length > 4
  · have h2 : ¬ (le32 B + 4) % 4294967296 = B.length := fun e => hn ⟨h1, e⟩
    simp [classifyClient, h1, h2, he]
  · simp [classifyClient, h1, he]

/-- where the entry points legitimately differ (not a class the property names): a short non-text reply -/
theorem entry_points_differ_example :
    (classifyClient (.bytes [1, 2])).binary = false ∧ (classifyDetector (.bytes [1, 2])).binary = true := by decide

/-! non-vacuity -/
example : classifyClient (.bytes (errorMsgPrefix ++ [66, 85, 83, 89] ++ 10 :: [66, 83, 89, 10])) = ⟨false, [lf], [66, 85, 83, 89]⟩ := by decide
example : (classifyClient (.bytes [2, 0, 0, 0, 8, 2])).binary = true := by decide
example : (classifyClient (.bytes [9, 0, 0, 0, 8, 2])).binary = false := by decide
example : classifyDetector (.bytes (mapEq ++ [49, 58, 50, 10])) = ⟨false, [lf], []⟩ := by decide

end RawPanelVerif.C12
