import RawPanelVerif.Lemmas.NetFeed
/-!
# C12 — protocol auto-detection classifies binary and ASCII panels correctly

Property theorems only.  `classifyClient` mirrors connecttopanel.go 90-130, `classifyDetector` mirrors
rawpanelhelpers.go 714-751 (Model/Net.lean); a `Reply` is what the single `Read` after the probe returns, and
`replyOf timeout delay reply closes buf` says which `Reply` that is when the panel answers `delay` ms after the probe:
`clientReply` / `detectorReply` instantiate it with the probe deadlines and buffer sizes regenerated from the two
sources (`Gen.clientProbeTimeoutMs`, `Gen.detectorProbeTimeoutMs`, …).  All statements are for arbitrary reply
bytes (no bound other than the 1000-byte reply buffer where it matters).

* `probe_bytes`                       the probe is the one frame `02 00 00 00 08 01` (given `marshal ping = 08 01`)
* `classifyClient_iff`                binary ⇔ more than 4 bytes and the length prefix + 4 equals the byte count
* `detector_iff`                      the detector says ASCII ⇔ read error, or ≥ 4 bytes starting `RDY\n` / `map=`
* `ack_frame_is_binary_both`          one well-formed frame that fits the buffer ⇒ binary, nothing written, both
* `silence_rdy_map_are_ascii_both`    silence, `RDY\n…`, `map=…` ⇒ ASCII and exactly one LF written, both
* `client_any_other_text_is_ascii`    client: any reply without NUL bytes ⇒ ASCII, one LF
Timing ("however long (below 2 s) it takes", "silent for the probe window"):
* `timeouts_are_two_seconds`          both regenerated probe deadlines are the 2000 ms the property speaks of
                                      (`timeouts_are_the_window_of_the_property_text`: = `Spec.Net.probeWindowMs`, the
                                      number the monitor takes from the property text)
* `probe_window_is_the_constant_deadline`   the first deadline call site regenerated from `ConnectToPanel` (in the
                                      connection loop, before the probe `Read`) is `SetReadDeadline(now + 2000 ms)` with a
                                      constant argument: the same window on the first connection and on every reconnect
* `late_is_silence`                   a reply that comes at or after the probe deadline is not seen: the verdict is
                                      that of silence (ASCII, exactly one LF), for both entry points
* `ack_before_timeout_is_binary`      an acknowledge frame (any well-formed frame that fits) at any delay below the
                                      deadline ⇒ binary, nothing written, both entry points
* `entry_points_see_same_reply`, `entry_points_agree_before_min_timeout`   below the smaller of the two deadlines both
                                      entry points see the same `Reply`, and for the replies the property names
                                      (frame, silence, `RDY\n…`, `map=…`) reach the same verdict and write the same
* `between_timeouts_disagree`         (for arbitrary deadlines) a reply between two different deadlines is silence for
                                      the one and data for the other: what shortening one deadline would break
Error text:
* `errormsg_extracted`, `errormsg_passed_to_onconnect` (LF-terminated), `errormsg_passed_to_onconnect_unterminated`
                                      client: `ErrorMsg=<text>` up to the first LF or the end ⇒ `<text>` to onconnect
* `errormsg_absent`                   no `ErrorMsg=` at the start of the reply (or no reply, or a binary verdict) ⇒ ""
Observations outside the domain (the property ranges over reply class × delay × entry point, not over how TCP cuts
the reply; decision of the project lead: documented, not judged; the monitor skips replies sent in several writes):
* `split_ack_disagree`                an acknowledge frame whose first segment has k bytes, 0 < k < 6 (e.g. header and
                                      payload written separately): the client says ASCII and writes a LF, the detector
                                      says binary.  Reproduced on the real client (`net.c12c … w02000000 s300 w0802`).
* `entry_points_differ_example`       a short non-text reply: the two entry points legitimately differ
-/
namespace RawPanelVerif.C12
open RawPanelVerif RawPanelVerif.Net

theorem probe_bytes : probeBytes [8, 1] = [2, 0, 0, 0, 8, 1] := by decide

/-- the probe is one complete length-prefixed message for the reference parser, and nothing else -/
theorem probe_is_one_ping_frame : Spec.Net.parse 4294967296 (probeBytes [8, 1]) = ([[8, 1]], .done) := by
  have := parse_encode 4294967296 (Nat.le_refl _) [[8, 1]] (by simp)
  simpa [encode, probeBytes] using this

theorem classifyClient_iff (b : Bytes) :
    (classifyClient (.bytes b)).binary = true ↔ b.length > 4 ∧ (le32 b + 4) % 4294967296 = b.length := by
  unfold classifyClient
  by_cases h4 : b.length > 4
  · by_cases hm : (le32 b + 4) % 4294967296 = b.length
    · simp [h4, hm]
    · simp [h4, hm]
  · simp [h4]

/-- without the `uint32` wrap-around (replies are at most a buffer long) -/
theorem classifyClient_iff_nowrap (b : Bytes) (hb : b.length < 4294967296) :
    (classifyClient (.bytes b)).binary = true ↔ b.length > 4 ∧ le32 b + 4 = b.length := by
  rw [classifyClient_iff]
  have := le32_lt b
  constructor
  · rintro ⟨h1, h2⟩; exact ⟨h1, by omega⟩
  · rintro ⟨h1, h2⟩; exact ⟨h1, by omega⟩

theorem client_timeout_error_ascii (r : Reply) (h : r = .timeout ∨ r = .error) :
    classifyClient r = ⟨false, [lf], []⟩ := by
  rcases h with h | h <;> subst h <;> rfl

theorem detector_iff (r : Reply) :
    (classifyDetector r).binary = false ↔
      (r = .timeout ∨ r = .error ∨ ∃ b, r = .bytes b ∧ b.length ≥ 4 ∧ (b.take 4 = rdy ∨ b.take 4 = mapEq)) := by
  cases r with
  | timeout => simp [classifyDetector]
  | error => simp [classifyDetector]
  | bytes b =>
    unfold classifyDetector
    by_cases h : b.length ≥ 4 ∧ (b.take 4 = rdy ∨ b.take 4 = mapEq)
    · simp only [h, and_self, if_true]; simp; exact h
    · simp only [h, if_false]
      have : ¬ (4 ≤ b.length ∧ (List.take 4 b = rdy ∨ List.take 4 b = mapEq)) := h
      split <;> simp [this] <;> (split <;> simp [this])

/-- whenever the detector says ASCII it writes exactly one LF; whenever it says binary it writes nothing -/
theorem detector_writes (r : Reply) :
    (classifyDetector r).writes = if (classifyDetector r).binary then [] else [lf] := by
  cases r with
  | timeout => rfl
  | error => rfl
  | bytes b =>
    by_cases h1 : b.length ≥ 4 ∧ (b.take 4 = rdy ∨ b.take 4 = mapEq)
    · simp [classifyDetector, h1]
    · by_cases h2 : b.length ≤ 4
      · simp [classifyDetector, h1, h2]
      · by_cases h3 : (le32 b + 4) % 4294967296 ≠ b.length
        · simp [classifyDetector, h1, h2, h3]
        · simp [classifyDetector, h1, h2, h3]

theorem client_writes (r : Reply) :
    (classifyClient r).writes = if (classifyClient r).binary then [] else [lf] := by
  cases r with
  | timeout => rfl
  | error => rfl
  | bytes b =>
    by_cases h1 : b.length > 4
    · by_cases h2 : (le32 b + 4) % 4294967296 = b.length
      · simp [classifyClient, h1, h2]
      · simp [classifyClient, h1, h2]
    · simp [classifyClient, h1]

/-- first four bytes of a frame: the length prefix -/
theorem frame_take4 (p : Bytes) : (frame p).take 4 = putLe32 p.length := by
  unfold frame; exact List.take_left' (putLe32_length _)

/-- a well-formed frame that fits the reply buffer (e.g. the acknowledge frame `02 00 00 00 08 02`) is classified
binary by both entry points, and nothing more is written -/
theorem ack_frame_is_binary_both (p : Bytes) (h0 : 0 < p.length) (hfit : p.length + 4 ≤ Gen.clientProbeBuf) :
    classifyClient (.bytes (frame p)) = ⟨true, [], []⟩ ∧ classifyDetector (.bytes (frame p)) = ⟨true, [], []⟩ := by
  have hlen : (frame p).length = p.length + 4 := by simp [frame, putLe32_length]; omega
  have hbuf : Gen.clientProbeBuf = 1000 := rfl
  have hle : le32 (frame p) = p.length := le32_putLe32 _ (by omega) _
  constructor
  · unfold classifyClient
    have h4 : (frame p).length > 4 := by omega
    have hm : (le32 (frame p) + 4) % 4294967296 = (frame p).length := by rw [hle, hlen]; omega
    simp [h4, hm]
  · -- the prefix of a frame of at most 1000 bytes has a zero third byte: it is neither "RDY\n" nor "map="
    have hne : ¬ ((frame p).take 4 = rdy ∨ (frame p).take 4 = mapEq) := by
      rw [frame_take4]
      have h3 : UInt8.ofNat (p.length / 65536) = 0 := by
        have : p.length / 65536 = 0 := by omega
        rw [this]; rfl
      simp only [putLe32, h3]
      intro h
      rcases h with h | h
      · simp only [rdy, List.cons.injEq] at h
        exact absurd h.2.2.1 (by decide)
      · simp only [mapEq, List.cons.injEq] at h
        exact absurd h.2.2.1 (by decide)
    unfold classifyDetector
    have h5 : ¬ (frame p).length ≤ 4 := by omega
    simp only [hne, and_false, if_false, h5]
    split <;> rfl

/-- the acknowledge frame itself -/
example : classifyClient (.bytes (frame [8, 2])) = ⟨true, [], []⟩ ∧ classifyDetector (.bytes (frame [8, 2])) = ⟨true, [], []⟩ :=
  ack_frame_is_binary_both [8, 2] (by decide) (by decide)

theorem le32_cons4 (a b c d : UInt8) (t : Bytes) : le32 (a :: b :: c :: d :: t) = le32 [a, b, c, d] := rfl

/-- a panel that stays silent (or whose connection fails), or answers `RDY\n…` or `map=…`, is ASCII for both entry
points, and both write exactly one bare line feed -/
theorem silence_rdy_map_are_ascii_both :
    (∀ r, (r = .timeout ∨ r = .error) →
      (classifyClient r).binary = false ∧ (classifyClient r).writes = [lf] ∧
      (classifyDetector r).binary = false ∧ (classifyDetector r).writes = [lf]) ∧
    (∀ t : Bytes, (rdy ++ t).length ≤ Gen.clientProbeBuf →
      (classifyClient (.bytes (rdy ++ t))).binary = false ∧ (classifyClient (.bytes (rdy ++ t))).writes = [lf] ∧
      (classifyDetector (.bytes (rdy ++ t))).binary = false ∧ (classifyDetector (.bytes (rdy ++ t))).writes = [lf]) ∧
    (∀ t : Bytes, (mapEq ++ t).length ≤ Gen.clientProbeBuf →
      (classifyClient (.bytes (mapEq ++ t))).binary = false ∧ (classifyClient (.bytes (mapEq ++ t))).writes = [lf] ∧
      (classifyDetector (.bytes (mapEq ++ t))).binary = false ∧ (classifyDetector (.bytes (mapEq ++ t))).writes = [lf]) := by
  have hbuf : Gen.clientProbeBuf = 1000 := rfl
  refine ⟨?_, ?_, ?_⟩
  · intro r h
    rcases h with h | h <;> subst h <;> exact ⟨rfl, rfl, rfl, rfl⟩
  · intro t ht
    have hc : (classifyClient (.bytes (rdy ++ t))).binary = false := by
      cases hb : (classifyClient (.bytes (rdy ++ t))).binary with
      | false => rfl
      | true =>
        have := (classifyClient_iff_nowrap _ (by omega)).mp hb
        have hl : le32 (rdy ++ t) = 173622354 := by
          show le32 (82 :: 68 :: 89 :: 10 :: t) = _
          rw [le32_cons4]; decide
        omega
    have hd : (classifyDetector (.bytes (rdy ++ t))).binary = false := by
      rw [detector_iff]
      refine Or.inr (Or.inr ⟨_, rfl, ?_, Or.inl ?_⟩)
      · simp [rdy]
      · exact List.take_left' rfl
    exact ⟨hc, by rw [client_writes, hc]; rfl, hd, by rw [detector_writes, hd]; rfl⟩
  · intro t ht
    have hc : (classifyClient (.bytes (mapEq ++ t))).binary = false := by
      cases hb : (classifyClient (.bytes (mapEq ++ t))).binary with
      | false => rfl
      | true =>
        have := (classifyClient_iff_nowrap _ (by omega)).mp hb
        have hl : le32 (mapEq ++ t) = 1030775149 := by
          show le32 (109 :: 97 :: 112 :: 61 :: t) = _
          rw [le32_cons4]; decide
        omega
    have hd : (classifyDetector (.bytes (mapEq ++ t))).binary = false := by
      rw [detector_iff]
      refine Or.inr (Or.inr ⟨_, rfl, ?_, Or.inr ?_⟩)
      · simp [mapEq]
      · exact List.take_left' rfl
    exact ⟨hc, by rw [client_writes, hc]; rfl, hd, by rw [detector_writes, hd]; rfl⟩

/-- the reconnecting client treats every reply that contains no NUL byte (any text) as ASCII -/
theorem client_any_other_text_is_ascii (b : Bytes) (hfit : b.length ≤ Gen.clientProbeBuf) (htext : ∀ c ∈ b, c ≠ 0) :
    (classifyClient (.bytes b)).binary = false ∧ (classifyClient (.bytes b)).writes = [lf] := by
  have hbuf : Gen.clientProbeBuf = 1000 := rfl
  have hc : (classifyClient (.bytes b)).binary = false := by
    cases hb : (classifyClient (.bytes b)).binary with
    | false => rfl
    | true =>
      have h := (classifyClient_iff_nowrap _ (by omega)).mp hb
      match b, htext, h, hfit with
      | a :: b' :: c :: d :: t, htext, h, hfit =>
        have hd : d ≠ 0 := htext d (by simp)
        have hd' : d.toNat ≠ 0 := fun e => hd (UInt8.toNat_inj.mp (by simpa using e))
        rw [le32_cons4] at h
        simp only [le32] at h
        omega
      | [], _, h, _ => simp at h
      | [_], _, h, _ => simp at h
      | [_, _], _, h, _ => simp at h
      | [_, _, _], _, h, _ => simp at h
  exact ⟨hc, by rw [client_writes, hc]; rfl⟩

theorem beforeLF_append_lf (m r : Bytes) (h : (10 : UInt8) ∉ m) : beforeLF (m ++ 10 :: r) = m := by
  induction m with
  | nil => simp [beforeLF]
  | cons x m ih =>
    have hx : x ≠ 10 := fun e => h (by simp [e])
    have hm : (10 : UInt8) ∉ m := fun e => h (by simp [e])
    simp [beforeLF, hx, ih hm]

theorem beforeLF_noLF (m : Bytes) (h : (10 : UInt8) ∉ m) : beforeLF m = m := by
  induction m with
  | nil => rfl
  | cons x m ih =>
    have hx : x ≠ 10 := fun e => h (by simp [e])
    have hm : (10 : UInt8) ∉ m := fun e => h (by simp [e])
    simp [beforeLF, hx, ih hm]

theorem hasPrefix_append (p t : Bytes) : hasPrefix (p ++ t) p = true := by
  induction p with
  | nil => cases t <;> rfl
  | cons x p ih => simp [hasPrefix, ih]

/-- the error text the client hands to `onconnect`: what follows `ErrorMsg=` up to the first LF (or the end) -/
theorem errormsg_extracted (msg rest : Bytes) (hmsg : (10 : UInt8) ∉ msg) :
    extractErrorMsg (errorMsgPrefix ++ msg ++ 10 :: rest) = msg ∧ extractErrorMsg (errorMsgPrefix ++ msg) = msg := by
  have hp : (10 : UInt8) ∉ errorMsgPrefix ++ msg := by
    simp only [List.mem_append, not_or]; exact ⟨by decide, hmsg⟩
  have h9 : errorMsgPrefix.length = 9 := by decide
  constructor
  · simp only [extractErrorMsg, beforeLF_append_lf _ rest hp, hasPrefix_append, if_true]
    exact List.drop_left' h9
  · simp only [extractErrorMsg, beforeLF_noLF _ hp, hasPrefix_append, if_true]
    exact List.drop_left' h9

/-- the client's verdict on any text reply that fits the buffer: ASCII, one LF, and the extracted error text -/
theorem client_text_verdict (B : Bytes) (hfit : B.length ≤ Gen.clientProbeBuf) (htext : ∀ c ∈ B, c ≠ 0) :
    classifyClient (.bytes B) = ⟨false, [lf], extractErrorMsg B⟩ := by
  have h := (client_any_other_text_is_ascii _ hfit htext).1
  have hn : ¬ (B.length > 4 ∧ (le32 B + 4) % 4294967296 = B.length) := by
    intro hc
    have := (classifyClient_iff B).mpr hc
    rw [h] at this
    exact Bool.noConfusion this
  by_cases h1 : B.length > 4
  · have h2 : ¬ (le32 B + 4) % 4294967296 = B.length := fun e => hn ⟨h1, e⟩
    simp [classifyClient, h1, h2]
  · simp [classifyClient, h1]

/-- … `ErrorMsg=<text>` followed by LF and anything: `<text>` is handed to `onconnect` -/
theorem errormsg_passed_to_onconnect (msg rest : Bytes) (hmsg : (10 : UInt8) ∉ msg)
    (hfit : (errorMsgPrefix ++ msg ++ 10 :: rest).length ≤ Gen.clientProbeBuf)
    (htext : ∀ c ∈ errorMsgPrefix ++ msg ++ 10 :: rest, c ≠ 0) :
    classifyClient (.bytes (errorMsgPrefix ++ msg ++ 10 :: rest)) = ⟨false, [lf], msg⟩ := by
  rw [client_text_verdict _ hfit htext, (errormsg_extracted msg rest hmsg).1]

/-- … and the unterminated form `ErrorMsg=<text>` (the reply ends without a LF): `<text>` all the same -/
theorem errormsg_passed_to_onconnect_unterminated (msg : Bytes) (hmsg : (10 : UInt8) ∉ msg)
    (hfit : (errorMsgPrefix ++ msg).length ≤ Gen.clientProbeBuf) (htext : ∀ c ∈ errorMsgPrefix ++ msg, c ≠ 0) :
    classifyClient (.bytes (errorMsgPrefix ++ msg)) = ⟨false, [lf], msg⟩ := by
  rw [client_text_verdict _ hfit htext, (errormsg_extracted msg [] hmsg).2]

/-- **no error text where there is none**: a reply whose first line does not start with `ErrorMsg=` (any bytes, any
length), no reply at all, or a reply classified binary: the error text handed to `onconnect` is empty -/
theorem errormsg_absent :
    (∀ b : Bytes, hasPrefix (beforeLF b) errorMsgPrefix = false → (classifyClient (.bytes b)).errorMsg = []) ∧
    (classifyClient .timeout).errorMsg = [] ∧ (classifyClient .error).errorMsg = [] ∧
    (∀ r, (classifyClient r).binary = true → (classifyClient r).errorMsg = []) := by
  refine ⟨?_, rfl, rfl, ?_⟩
  · intro b hb
    have he : extractErrorMsg b = [] := by simp [extractErrorMsg, hb]
    unfold classifyClient
    by_cases h1 : b.length > 4
    · by_cases h2 : (le32 b + 4) % 4294967296 = b.length
      · simp [h1, h2]
      · simp [h1, h2, he]
    · simp [h1, he]
  · intro r hr
    cases r with
    | timeout => rfl
    | error => rfl
    | bytes b =>
      obtain ⟨h1, h2⟩ := (classifyClient_iff b).mp hr
      simp [classifyClient, h1, h2]

/-! ### timing -/

/-- the two probe deadlines regenerated from the sources are the "2 s" of the property (the number the monitor uses) -/
theorem timeouts_are_two_seconds : probeTimeout = 2000 ∧ detectorTimeout = 2000 := ⟨rfl, rfl⟩

theorem timeouts_are_the_window_of_the_property_text :
    probeTimeout = Spec.Net.probeWindowMs ∧ detectorTimeout = Spec.Net.probeWindowMs := by decide

/-- **the probe window is that constant on every connection**: the first `Set…Deadline` call site of `ConnectToPanel`
(regenerated from the source on this run) sits in the connection loop before the probe `Read` and is
`SetReadDeadline(time.Now().Add(probeTimeout))` with a *constant* argument — the same window on the first connection and
on every reconnect.  A window kept in a variable (seeded change C12-9) is not a constant argument: this fails. -/
theorem probe_window_is_the_constant_deadline :
    (cfgOfSites Gen.deadlineSites).map (·.probeArm) = some (.arm .read probeTimeout) := by decide

example : (cfgOfSites [{ fn := 0, clear := false, addMs := none, loops := 1, path := [0], first := false, reads := 0 }]).map
    (·.probeArm) = none := by decide

/-- **a late reply is silence**: whatever the panel sends (or if it closes) at or after the probe deadline, the single
`Read` has already returned a timeout; both entry points then classify ASCII and write exactly one LF -/
theorem late_is_silence (timeout delay : Nat) (reply : Option Bytes) (closes : Bool) (buf : Nat) (h : timeout ≤ delay) :
    replyOf timeout delay reply closes buf = .timeout := by
  have hn : ¬ delay < timeout := by omega
  cases reply with
  | none => simp [replyOf, hn]
  | some b => simp [replyOf, hn]

theorem late_is_silence_both (delay : Nat) (reply : Option Bytes) (closes : Bool) :
    (probeTimeout ≤ delay → classifyClient (clientReply delay reply closes) = ⟨false, [lf], []⟩) ∧
    (detectorTimeout ≤ delay → classifyDetector (detectorReply delay reply closes) = ⟨false, [lf], []⟩) := by
  refine ⟨fun h => ?_, fun h => ?_⟩
  · rw [clientReply, late_is_silence _ _ _ _ _ h]; rfl
  · rw [detectorReply, late_is_silence _ _ _ _ _ h]; rfl

theorem frame_length (p : Bytes) : (frame p).length = p.length + 4 := by
  simp [frame, putLe32_length]; omega

theorem replyOf_in_time (timeout delay : Nat) (b : Bytes) (closes : Bool) (buf : Nat) (h : delay < timeout)
    (hne : b ≠ []) (hfit : b.length ≤ buf) : replyOf timeout delay (some b) closes buf = .bytes b := by
  have he : b.isEmpty = false := by cases b <;> simp_all
  simp [replyOf, h, he, List.take_of_length_le hfit]

/-- **an acknowledge frame, however long (below the deadline) it takes, is binary**: any well-formed frame that fits
the reply buffer, sent at any delay below the entry point's probe deadline, whether or not the panel closes
afterwards: binary, nothing further written -/
theorem ack_before_timeout_is_binary (p : Bytes) (h0 : 0 < p.length) (hfit : p.length + 4 ≤ Gen.clientProbeBuf)
    (delay : Nat) (closes : Bool) :
    (delay < probeTimeout → classifyClient (clientReply delay (some (frame p)) closes) = ⟨true, [], []⟩) ∧
    (delay < detectorTimeout → classifyDetector (detectorReply delay (some (frame p)) closes) = ⟨true, [], []⟩) := by
  have hb : Gen.detectorProbeBuf = Gen.clientProbeBuf := rfl
  have hne : frame p ≠ [] := by intro h; have := frame_length p; rw [h] at this; simp at this
  refine ⟨fun h => ?_, fun h => ?_⟩
  · rw [clientReply, replyOf_in_time _ _ _ _ _ h hne (by rw [frame_length]; exact hfit)]
    exact (ack_frame_is_binary_both p h0 hfit).1
  · rw [detectorReply, replyOf_in_time _ _ _ _ _ h hne (by rw [frame_length, hb]; exact hfit)]
    exact (ack_frame_is_binary_both p h0 hfit).2

/-- below the smaller of the two deadlines both entry points' `Read` returns the same thing -/
theorem entry_points_see_same_reply (delay : Nat) (reply : Option Bytes) (closes : Bool)
    (h : delay < min probeTimeout detectorTimeout) : clientReply delay reply closes = detectorReply delay reply closes := by
  have h1 : delay < probeTimeout := by omega
  have h2 : delay < detectorTimeout := by omega
  have hb : Gen.detectorProbeBuf = Gen.clientProbeBuf := rfl
  cases reply with
  | none => simp [clientReply, detectorReply, replyOf, h1, h2]
  | some b => simp [clientReply, detectorReply, replyOf, h1, h2, hb]

/-- the replies the property names -/
inductive Named : Option Bytes → Prop
  | silence : Named none
  | frame (p : Bytes) (h0 : 0 < p.length) (hfit : p.length + 4 ≤ Gen.clientProbeBuf) : Named (some (frame p))
  | rdy (t : Bytes) (hfit : (rdy ++ t).length ≤ Gen.clientProbeBuf) : Named (some (rdy ++ t))
  | map (t : Bytes) (hfit : (mapEq ++ t).length ≤ Gen.clientProbeBuf) : Named (some (mapEq ++ t))

/-- **client and detector agree** on every named reply that arrives before the smaller of the two probe deadlines
(and on silence): same protocol verdict, same bytes written -/
theorem entry_points_agree_before_min_timeout (delay : Nat) (reply : Option Bytes) (closes : Bool)
    (h : delay < min probeTimeout detectorTimeout) (hn : Named reply) :
    (classifyClient (clientReply delay reply closes)).binary = (classifyDetector (detectorReply delay reply closes)).binary ∧
    (classifyClient (clientReply delay reply closes)).writes = (classifyDetector (detectorReply delay reply closes)).writes := by
  have h1 : delay < probeTimeout := by omega
  have h2 : delay < detectorTimeout := by omega
  rw [← entry_points_see_same_reply delay reply closes h]
  cases hn with
  | silence =>
    have : clientReply delay none closes = .timeout ∨ clientReply delay none closes = .error := by
      cases closes <;> simp [clientReply, replyOf, h1]
    rcases this with e | e <;> rw [e] <;> exact ⟨rfl, rfl⟩
  | frame p h0 hfit =>
    have hne : frame p ≠ [] := by intro h; have := frame_length p; rw [h] at this; simp at this
    rw [clientReply, replyOf_in_time _ _ _ _ _ h1 hne (by rw [frame_length]; exact hfit)]
    have := ack_frame_is_binary_both p h0 hfit
    rw [this.1, this.2]; exact ⟨rfl, rfl⟩
  | rdy t hfit =>
    rw [clientReply, replyOf_in_time _ _ _ _ _ h1 (by simp [rdy]) hfit]
    obtain ⟨a, b, c, d⟩ := silence_rdy_map_are_ascii_both.2.1 t hfit
    rw [a, b, c, d]; exact ⟨rfl, rfl⟩
  | map t hfit =>
    rw [clientReply, replyOf_in_time _ _ _ _ _ h1 (by simp [mapEq]) hfit]
    obtain ⟨a, b, c, d⟩ := silence_rdy_map_are_ascii_both.2.2 t hfit
    rw [a, b, c, d]; exact ⟨rfl, rfl⟩

/-- what a shorter deadline at one entry point does (for arbitrary deadlines `t1 ≤ delay < t2`): the same reply is
silence for the one and data for the other -/
theorem between_timeouts_disagree (t1 t2 delay : Nat) (b : Bytes) (closes : Bool) (buf : Nat) (hne : b ≠ [])
    (hfit : b.length ≤ buf) (h1 : t1 ≤ delay) (h2 : delay < t2) :
    replyOf t1 delay (some b) closes buf = .timeout ∧ replyOf t2 delay (some b) closes buf = .bytes b :=
  ⟨late_is_silence _ _ _ _ _ h1, replyOf_in_time _ _ _ _ _ h2 hne hfit⟩

/-! ### observations outside the domain -/

/-- an acknowledge frame (`02 00 00 00 08 02`) that reaches the `Read` in two segments, the first of k bytes: the
client classifies ASCII and writes a line feed, the detector classifies binary -/
theorem split_ack_disagree (k : Nat) (h0 : 0 < k) (h6 : k < 6) :
    classifyClient (.bytes ((frame [8, 2]).take k)) = ⟨false, [lf], []⟩ ∧
    classifyDetector (.bytes ((frame [8, 2]).take k)) = ⟨true, [], []⟩ := by
  have : k = 1 ∨ k = 2 ∨ k = 3 ∨ k = 4 ∨ k = 5 := by omega
  rcases this with h | h | h | h | h <;> subst h <;> exact ⟨by decide, by decide⟩

/-- the whole frame in one segment: binary for both -/
example : classifyClient (.bytes ((frame [8, 2]).take 6)) = ⟨true, [], []⟩ ∧
    classifyDetector (.bytes ((frame [8, 2]).take 6)) = ⟨true, [], []⟩ := by decide

/-- where the entry points legitimately differ (not a class the property names): a short non-text reply -/
theorem entry_points_differ_example :
    (classifyClient (.bytes [1, 2])).binary = false ∧ (classifyDetector (.bytes [1, 2])).binary = true := by decide

/-! non-vacuity -/
example : classifyClient (.bytes (errorMsgPrefix ++ [66, 85, 83, 89] ++ 10 :: [66, 83, 89, 10])) = ⟨false, [lf], [66, 85, 83, 89]⟩ := by decide
example : classifyClient (.bytes (errorMsgPrefix ++ [66, 85, 83, 89])) = ⟨false, [lf], [66, 85, 83, 89]⟩ := by decide
example : (classifyClient (.bytes [66, 83, 89, 10])).errorMsg = [] := by decide
example : (classifyClient (.bytes [2, 0, 0, 0, 8, 2])).binary = true := by decide
example : (classifyClient (.bytes [9, 0, 0, 0, 8, 2])).binary = false := by decide
example : classifyDetector (.bytes (mapEq ++ [49, 58, 50, 10])) = ⟨false, [lf], []⟩ := by decide
example : classifyClient (clientReply 1999 (some (frame [8, 2])) false) = ⟨true, [], []⟩ := by decide
example : classifyClient (clientReply 2000 (some (frame [8, 2])) false) = ⟨false, [lf], []⟩ := by decide
example : Named (some (frame [8, 2])) := Named.frame [8, 2] (by decide) (by decide)

end RawPanelVerif.C12
