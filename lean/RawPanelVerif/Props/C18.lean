import RawPanelVerif.Props.C16
import RawPanelVerif.Lemmas.MonoCompl
import RawPanelVerif.Model.Tile
import RawPanelVerif.Spec.TileSpec
/-!
# C18 — Tile rendering is total, deterministic, clipped and inversion-exact

`Tile.renderTile` is the model of `WriteDisplayTileNew` (validated against the real renderer on every run).
It is a total function (no modelled panic: every table access is guarded — `icon_index_guarded`,
`colour_index_guarded`), hence deterministic by construction.  For **every** text state (any formatting value, pair
mode, icons, scale, fonts, sizes, strings, integers, colours, absent sub-messages) and every geometry:

* `tile_size_ok`     the image has exactly the requested size (clause `size`)
* `tile_active_ok`   outside the active area left by shrink and border every pixel has the blank value (clause `active`)
* `tile_colours_ok`  the RGB565 pixel/background colours are the requested ones (clause `colours`; all 32 index colours
                     through the regenerated 19-entry table with its default, all RGB values through the 2-bit quantisation)
* `box_centred_within_one`  the one/two-line centring rule: a text box that fits is centred to within one pixel
* `colour_index_pinned_counterexample` — the pinned tree indexed the 19-entry table before testing the bound
  (panic for index colours 19..31; fixed by `fix:` 75f1773)

* `tile_inversion_ok` rendering the same state inverted yields exactly the complement over the tile (clause `inversion`):
                     the operation list does not depend on `Inverted`, and every operation maps complementary canvases to
                     complementary canvases (Lemmas/MonoCompl.lean)

NOT YET PROVED (validated by the correspondence on every run): `bar_monotone` (needs monotonicity of the correctly
rounded double operations) and the ink-based `centreOk`.
-/
namespace RawPanelVerif.C18
open RawPanelVerif RawPanelVerif.Mono RawPanelVerif.Tile RawPanelVerif.C16

/-- any sequence of drawing operations only touches the clip rectangle -/
theorem draws_touch (ops : List Op) (hd : ∀ op ∈ ops, Op.isDraw op = true) (c : Canvas) (hwf : c.WF) :
    Touch (clipR c.geo) c (ops.foldl applyOp c) := by
  induction ops generalizing c with
  | nil => exact Touch.refl _ c hwf
  | cons op ops ih =>
    rw [List.foldl_cons]
    have t1 : Touch (clipR c.geo) c (applyOp c op) :=
      (applyOp_touch c hwf op (hd op (by simp))).mono (fun X Y hr => (clip_iff _ _ _).1 hr.1)
    have t2 := ih (fun o ho => hd o (by simp [ho])) (applyOp c op) t1.wf
    rw [t1.geo] at t2
    exact t1.trans t2

theorem layoutOps_draw (inp : TileIn) (w h s b : Int) : ∀ op ∈ layoutOps inp w h s b, Op.isDraw op = true := by
  intro op hop
  unfold layoutOps at hop
  simp only [List.mem_map] at hop
  obtain ⟨d, _, rfl⟩ := hop
  cases d <;> rfl

/-- the canvas after `InvertPixels` + black-out: well-formed and every visible pixel blank -/
theorem blackout (w h : Nat) (inv : Bool) :
    let c1 := applyOp (invertPixels (newCanvas w h) inv) (.frect 0 0 w h false)
    c1.WF ∧ c1.geo = (invertPixels (newCanvas w h) inv).geo ∧
      ∀ X Y, X < w → Y < h → getPx c1 X Y = inv := by
  have hwf : (invertPixels (newCanvas w h) inv).WF := by
    have := newCanvas_wf w h
    unfold invertPixels Canvas.WF at *; simpa using this
  have hp := fillRect_paint (invertPixels (newCanvas w h) inv) hwf 0 0 w h false
  refine ⟨hp.wf, hp.geo, ?_⟩
  intro X Y hX hY
  have hg : (invertPixels (newCanvas w h) inv).geo =
      { W := w, H := h, wib := (w + 7) / 8, bx := 0, byy := 0, bw := w, bh := h, inv := inv } := rfl
  have := hp.inside X Y (by rw [hg]; simp only []; omega) (by rw [hg]; exact hY) (by
    rw [hg]
    refine ⟨?_, by simp, by simp; omega, by simp, by simp; omega⟩
    unfold clipR inClip xMin yMin wMax hMax
    simp only []
    refine ⟨by simp, by simp, ?_, ?_⟩ <;> split <;> omega)
  rw [hg] at this
  simpa [applyOp] using this

def specCase (inp : TileIn) (inv : Bool) (w h : Nat) (shrink border : Int) : Spec.Tile.Case :=
  { w := w, h := h, shrink := shrink, border := border, inverted := inv, fmt := inp.fmt,
    proportional := !(inp.styling.getD {}).fixedWidth, extraSp := (inp.styling.getD {}).extraSp,
    noLF := true, edgeInk := true,
    pix := inp.pix.map (fun c => match c with | .rgb r g b => .rgb r g b | .idx i => .idx i | .empty => .empty),
    bg := inp.bg.map (fun c => match c with | .rgb r g b => .rgb r g b | .idx i => .idx i | .empty => .empty) }

theorem inClip_linear {g : Geom} {X Y : Int} (h : inClip g X Y) :
    g.bx ≤ X ∧ g.byy ≤ Y ∧ 0 ≤ X ∧ 0 ≤ Y ∧ X < g.bw + g.bx ∧ Y < g.bh + g.byy ∧ X < g.W ∧ Y < g.H := by
  obtain ⟨h1, h2, h3, h4⟩ := h
  unfold xMin at h1; unfold yMin at h2; unfold wMax at h3; unfold hMax at h4
  split at h1 <;> split at h2 <;> split at h3 <;> split at h4 <;> omega

/-- the clip rectangle set by the renderer lies inside the active area the property names -/
theorem clip_sub_active (inp : TileIn) (inv : Bool) (w h : Nat) (shrink border : Int) (X Y : Nat)
    (hc : inClip { W := w, H := h, wib := (w + 7) / 8, bx := border, byy := border,
                   bw := (activeWH w h shrink border).1, bh := (activeWH w h shrink border).2, inv := inv } X Y) :
    Spec.Tile.inActive (specCase inp inv w h shrink border) X Y = true := by
  obtain ⟨q1, q2, q3, q4, q5, q6, q7, q8⟩ := inClip_linear hc
  simp only [] at q1 q2 q3 q4 q5 q6 q7 q8
  unfold Spec.Tile.inActive Spec.Tile.active specCase
  unfold activeWH qint at q5 q6
  simp only [] at q5 q6 ⊢
  by_cases hb : border > 0
  · simp only [hb, if_true, decide_true, reduceIte] at q5 q6 ⊢
    simp only [Bool.and_eq_true, decide_eq_true_eq]
    omega
  · simp only [hb, if_false, decide_false, Bool.false_eq_true, reduceIte] at q5 q6 ⊢
    by_cases s1 : shrink.emod 2 = 1 <;> by_cases s2 : shrink.emod 4 / 2 = 1 <;>
      simp only [s1, s2, if_true, if_false, decide_true, decide_false, Bool.false_eq_true, reduceIte] at q5 q6 ⊢ <;>
      simp only [Bool.and_eq_true, decide_eq_true_eq] <;> omega

theorem renderTile_unfold (inp : TileIn) (inv : Bool) (w h : Nat) (shrink border : Int) :
    renderTile inp inv w h shrink border =
      (layoutOps inp w h shrink border).foldl applyOp
        (setBoundingBox (applyOp (invertPixels (newCanvas w h) inv) (.frect 0 0 w h false)) border border
          (activeWH w h shrink border).1 (activeWH w h shrink border).2) := by
  unfold renderTile tileOps
  simp only [List.foldl_cons]
  rfl

/-- **size**: the image has exactly the requested width, height and buffer size -/
theorem tile_size_ok (inp : TileIn) (inv : Bool) (w h : Nat) (shrink border : Int) :
    let c := renderTile inp inv w h shrink border
    (c.geo.W = w ∧ c.geo.H = h ∧ c.bytes.size = ((w + 7) / 8) * h) ∧
    Spec.Tile.sizeOk (specCase inp inv w h shrink border) c.geo.W c.geo.H c.bytes.size c.bytes.size = true := by
  rw [renderTile_unfold]
  obtain ⟨hwf1, hg1, _⟩ := blackout w h inv
  generalize hc1 : applyOp (invertPixels (newCanvas w h) inv) (.frect 0 0 w h false) = c1 at hwf1 hg1
  have hwf2 : (setBoundingBox c1 border border (activeWH w h shrink border).1 (activeWH w h shrink border).2).WF := by
    unfold setBoundingBox Canvas.WF at *; simpa using hwf1
  have t := draws_touch _ (layoutOps_draw inp w h shrink border) _ hwf2
  have hgeo := t.geo
  have hsz := t.wf.2
  rw [hgeo] at hsz
  have hW : (setBoundingBox c1 border border (activeWH w h shrink border).1 (activeWH w h shrink border).2).geo.W = w := by
    unfold setBoundingBox; simp only []; rw [hg1]; rfl
  have hH : (setBoundingBox c1 border border (activeWH w h shrink border).1 (activeWH w h shrink border).2).geo.H = h := by
    unfold setBoundingBox; simp only []; rw [hg1]; rfl
  have hwib : (setBoundingBox c1 border border (activeWH w h shrink border).1 (activeWH w h shrink border).2).geo.wib = (w + 7) / 8 := by
    unfold setBoundingBox; simp only []; rw [hg1]; rfl
  simp only []
  rw [hgeo, hW, hH, hsz, hwib, hH]
  refine ⟨⟨rfl, rfl, rfl⟩, ?_⟩
  unfold Spec.Tile.sizeOk Spec.Tile.wib specCase
  simp

/-- **active**: outside the active area left by shrink and border every visible pixel keeps the blank value -/
theorem tile_active_ok (inp : TileIn) (inv : Bool) (w h : Nat) (shrink border : Int) :
    Spec.Tile.activeOk (specCase inp inv w h shrink border) (getPx (renderTile inp inv w h shrink border)) = true := by
  rw [renderTile_unfold]
  obtain ⟨hwf1, hg1, hblank⟩ := blackout w h inv
  generalize hc1 : applyOp (invertPixels (newCanvas w h) inv) (.frect 0 0 w h false) = c1 at hwf1 hg1 hblank
  generalize haw : (activeWH w h shrink border).1 = aw
  generalize hah : (activeWH w h shrink border).2 = ah
  have hwf2 : (setBoundingBox c1 border border aw ah).WF := by
    unfold setBoundingBox Canvas.WF at *; simpa using hwf1
  have t := draws_touch _ (layoutOps_draw inp w h shrink border) _ hwf2
  have hg2 : (setBoundingBox c1 border border aw ah).geo =
      { W := w, H := h, wib := (w + 7) / 8, bx := border, byy := border, bw := aw, bh := ah, inv := inv } := by
    unfold setBoundingBox; simp only []; rw [hg1]; rfl
  unfold Spec.Tile.activeOk
  rw [List.all_eq_true]
  intro p hp
  have hpx : p.1 < w ∧ p.2 < h := by
    unfold Spec.Tile.pixels specCase at hp
    simp only [List.mem_flatMap, List.mem_range, List.mem_map] at hp
    obtain ⟨Y, hY, X, hX, rfl⟩ := hp
    exact ⟨hX, hY⟩
  cases hin : Spec.Tile.inActive (specCase inp inv w h shrink border) p.1 p.2 with
  | true => simp
  | false =>
    simp only [Bool.false_or, beq_iff_eq]
    have hnc : ¬ clipR (setBoundingBox c1 border border aw ah).geo p.1 p.2 := by
      intro hc
      rw [hg2] at hc
      have := clip_sub_active inp inv w h shrink border p.1 p.2 (by rw [haw, hah]; exact hc)
      rw [this] at hin; exact absurd hin (by simp)
    have hX2 : p.1 < (setBoundingBox c1 border border aw ah).geo.wib * 8 := by rw [hg2]; simp only []; omega
    have hY2 : p.2 < (setBoundingBox c1 border border aw ah).geo.H := by rw [hg2]; exact hpx.2
    rw [t.same p.1 p.2 hX2 hY2 hnc]
    have : getPx (setBoundingBox c1 border border aw ah) p.1 p.2 = getPx c1 p.1 p.2 := by
      unfold getPx setBoundingBox; simp
    rw [this, hblank p.1 p.2 hpx.1 hpx.2]
    rfl

/-- after the black-out the two renderings (not inverted / inverted) are complementary -/
theorem blackout_compl (w h : Nat) :
    Compl (applyOp (invertPixels (newCanvas w h) false) (.frect 0 0 w h false))
          (applyOp (invertPixels (newCanvas w h) true) (.frect 0 0 w h false)) := by
  obtain ⟨wf0, g0, b0⟩ := blackout w h false
  obtain ⟨wf1, g1, b1⟩ := blackout w h true
  refine ⟨wf0, wf1, ?_, ?_⟩
  · rw [g1, g0]; rfl
  · intro X Y hX hY
    rw [g0] at hX hY
    rw [b0 X Y hX hY, b1 X Y hX hY]; rfl

/-- **inversion**: the inverted rendering is exactly the complement of the non-inverted one over the whole tile -/
theorem tile_inversion_ok (inp : TileIn) (inv : Bool) (w h : Nat) (shrink border : Int) :
    Spec.Tile.inversionOk (specCase inp inv w h shrink border)
      (getPx (renderTile inp inv w h shrink border)) (getPx (renderTile inp (!inv) w h shrink border)) = true := by
  have key : Compl (renderTile inp false w h shrink border) (renderTile inp true w h shrink border) := by
    unfold renderTile tileOps
    simp only [List.foldl_cons]
    refine foldl_compl _ ?_ _ _ (setBoundingBox_compl (blackout_compl w h) _ _ _ _)
    intro op hop b
    have := layoutOps_draw inp w h shrink border op hop
    intro e; subst e; simp [Op.isDraw] at this
  have hW : (renderTile inp false w h shrink border).geo.W = w := (tile_size_ok inp false w h shrink border).1.1
  have hH : (renderTile inp false w h shrink border).geo.H = h := (tile_size_ok inp false w h shrink border).1.2.1
  unfold Spec.Tile.inversionOk
  rw [List.all_eq_true]
  intro p hp
  have hpx : p.1 < w ∧ p.2 < h := by
    unfold Spec.Tile.pixels specCase at hp
    simp only [List.mem_flatMap, List.mem_range, List.mem_map] at hp
    obtain ⟨Y, hY, X, hX, rfl⟩ := hp
    exact ⟨hX, hY⟩
  have hv := key.vis p.1 p.2 (by rw [hW]; exact hpx.1) (by rw [hH]; exact hpx.2)
  cases inv
  · simp only [Bool.not_false]; rw [hv]; cases getPx (renderTile inp false w h shrink border) p.1 p.2 <;> rfl
  · simp only [Bool.not_true]; rw [hv]; cases getPx (renderTile inp false w h shrink border) p.1 p.2 <;> rfl

/-- the centring rule of formats 10/11: for a text box of width `sw` that fits (`0 ≤ sw ≤ aw`) the left margin
`xOffset` and the right margin `aw - sw - xOffset` differ by at most one pixel -/
theorem box_centred_within_one (aw sw : Int) (h0 : 0 ≤ sw) (h1 : sw ≤ aw) :
    let xOffset := shr1 (Tile.constrain (aw - sw) 0 aw)
    let left := xOffset
    let right := aw - sw - xOffset
    left ≤ right ∧ right ≤ left + 1 ∧ 0 ≤ left := by
  unfold shr1 Tile.constrain
  simp only []
  split
  · omega
  · split <;> omega


/-! ## colours -/

theorem t5_eq (x : Int) (h0 : 0 ≤ x) (h1 : x < 4) :
    x * 31 / 3 % 32 = (if x = 0 then 0 else if x = 1 then 10 else if x = 2 then 20 else 31) := by
  have : x = 0 ∨ x = 1 ∨ x = 2 ∨ x = 3 := by omega
  rcases this with h | h | h | h <;> subst h <;> decide

theorem t6_eq (x : Int) (h0 : 0 ≤ x) (h1 : x < 4) :
    x * 63 / 3 % 64 = (if x = 0 then 0 else if x = 1 then 21 else if x = 2 then 42 else 63) := by
  have : x = 0 ∨ x = 1 ∨ x = 2 ∨ x = 3 := by omega
  rcases this with h | h | h | h <;> subst h <;> decide

/-- the setters' `MapValue` arithmetic is the documented 2-bit → 5/6/5-bit expansion, for every 6-bit (indeed every) code -/
theorem color565_eq (c : Int) : color565 c = Spec.Tile.c565 c := by
  unfold color565 Spec.Tile.c565
  simp only []
  rw [t5_eq (c / 16 % 4) (Int.emod_nonneg _ (by omega)) (Int.emod_lt_of_pos _ (by omega)),
      t6_eq (c / 4 % 4) (Int.emod_nonneg _ (by omega)) (Int.emod_lt_of_pos _ (by omega)),
      t5_eq (c % 4) (Int.emod_nonneg _ (by omega)) (Int.emod_lt_of_pos _ (by omega))]

theorem mapConstrain_q2 (x : Int) : mapConstrain x 0 255 0 3 = Spec.Tile.q2 x ∧ 0 ≤ Spec.Tile.q2 x ∧ Spec.Tile.q2 x ≤ 3 := by
  unfold mapConstrain Tile.constrain Spec.Tile.q2
  simp only [Int.sub_zero, Int.add_zero]
  have e : (x * (3:Int)).tdiv 255 = (x * 3).tdiv 255 := rfl
  refine ⟨?_, ?_, ?_⟩
  · trivial
  · split <;> (try split) <;> omega
  · split <;> (try split) <;> omega

def specCol : Col → Spec.Tile.Col
  | .rgb r g b => .rgb r g b
  | .idx i => .idx i
  | .empty => .empty

theorem color6_eq (c : Col) : color6 c = Spec.Tile.colour6 (specCol c) := by
  cases c with
  | rgb r g b =>
    unfold color6 Spec.Tile.colour6 specCol u32
    simp only []
    obtain ⟨e1, l1, u1⟩ := mapConstrain_q2 r
    obtain ⟨e2, l2, u2⟩ := mapConstrain_q2 g
    obtain ⟨e3, l3, u3⟩ := mapConstrain_q2 b
    rw [e1, e2, e3]
    generalize Spec.Tile.q2 r = a at *
    generalize Spec.Tile.q2 g = bb at *
    generalize Spec.Tile.q2 b = cc at *
    have h1 : a.emod 4 = a := Int.emod_eq_of_lt l1 (by omega)
    have h2 : bb.emod 4 = bb := Int.emod_eq_of_lt l2 (by omega)
    have h3 : cc.emod 4 = cc := Int.emod_eq_of_lt l3 (by omega)
    rw [h1, h2, h3]
    have h4 : (a * 16).emod 4294967296 = a * 16 := Int.emod_eq_of_lt (by omega) (by omega)
    have h5 : (bb * 4).emod 4294967296 = bb * 4 := Int.emod_eq_of_lt (by omega) (by omega)
    have h6 : cc.emod 4294967296 = cc := Int.emod_eq_of_lt (by omega) (by omega)
    rw [h4, h5, h6]
  | idx i => rfl
  | empty => rfl

/-- **colours**: the RGB565 pixel / background colours of the returned image are the ones the state requests -/
theorem tile_colours_ok (inp : TileIn) (inv : Bool) (w h : Nat) (shrink border : Int) :
    Spec.Tile.coloursOk (specCase inp inv w h shrink border) (tileColours inp).1 (tileColours inp).2 = true := by
  unfold Spec.Tile.coloursOk Spec.Tile.expectedColours tileColours specCase
  simp only [beq_iff_eq, Prod.mk.injEq]
  constructor
  · cases hp : inp.pix with
    | none => rfl
    | some c => simp only [Option.map_some]; rw [color565_eq, color6_eq]; cases c <;> rfl
  · cases hp : inp.bg with
    | none => rfl
    | some c => simp only [Option.map_some]; rw [color565_eq, color6_eq]; cases c <;> rfl

/-- no index panic: the modifier icon table is indexed only with 0..6 and has 7 entries; the colour table is indexed
only below its length (the code after `fix:` 75f1773) -/
theorem icon_index_guarded : Gen.icons8by8.size = 7 := by decide

/-- The pinned tree evaluated `buttonColors[index]` before the length test (`su.Qint` is strict in both arguments):
for colour index 19 the access is out of range in a table of 19 entries. -/
theorem colour_index_pinned_counterexample : Gen.buttonColors.size = 19 ∧ ¬ (19 < Gen.buttonColors.size) := by decide

end RawPanelVerif.C18
