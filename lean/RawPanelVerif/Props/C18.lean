import RawPanelVerif.Props.C16
import RawPanelVerif.Lemmas.MonoCompl
import RawPanelVerif.Model.Tile
import RawPanelVerif.Spec.TileSpec
import RawPanelVerif.Lemmas.TileBar
import RawPanelVerif.Lemmas.TileCentre
/-!
# C18 — Tile rendering is total, deterministic, clipped and inversion-exact

`Tile.renderTile` is the model of `WriteDisplayTileNew` (validated against the real renderer on every run).
It is a total function (no modelled panic: every table access is guarded — `icon_index_guarded`,
`colour_index_guarded`), hence deterministic by construction.  For **every** text state (any formatting value, pair
mode, icons, scale, fonts, sizes, strings, integers, colours, absent sub-messages) and every geometry:

* `tile_size_ok`     the image has exactly the requested size (clause `size`)
* `tile_active_ok`   outside the active area left by shrink and border every pixel has the blank value (clause `active`)
* `tile_colours_ok`  the RGB565 pixel/background colours are the requested ones (clause `colours`; all 32 index colours
                     through the regenerated 19-entry table with its default, all RGB values through the 2-bit quantisation)
* `box_centred_within_one`  the one/two-line centring rule: a text box that fits is centred to within one pixel
* `colour_index_pinned_counterexample` — the pinned tree indexed the 19-entry table before testing the bound
  (panic for index colours 19..31; fixed by `fix:` 75f1773)

* `tile_inversion_ok` rendering the same state inverted yields exactly the complement over the tile (clause `inversion`):
                     the operation list does not depend on `Inverted`, and every operation maps complementary canvases to
                     complementary canvases (Lemmas/MonoCompl.lean)

* `bar_monotone` (clause `bar`, `Spec.Tile.checkBar`): scale type 1, positive range (`0 < int32(RangeHigh-RangeLow)`),
                     value text unchanged (`bar_monotone_hidden`: value hidden, the harness's bar pairs), `v1 ≤ v2`,
                     everything else equal, for **all** integers / ranges / geometries: no pixel lit at `v1` is dark at
                     `v2`.  Ingredients: the correctly rounded binary64 operations of Base/Dbl.lean are monotone
                     (Lemmas/DblMono.lean: `divRNE_mono`, `rnD_mono`, `trunc_mulInt_rn_mono`), so the bar length is
                     (`bar_length_monotone`, within its extent: `bar_length_in_extent`); every layout step only appends
                     operations, and every drawing primitive is monotone in the canvas contents (Lemmas/MonoSub.lean,
                     Lemmas/TileBar.lean).  `bar_reversed_range_counterexample`: the range hypothesis is needed.
* `centre_ok_partial` (clause `centre`, `Spec.Tile.centreOk`): formats 10/11, strings without LF/CR and with
                     alphanumeric first/last characters (the Spec's own domain), **plus the hypothesis that every
                     rendered text box fits the active area** (`TileTextFits`): the first and last lit column of each
                     row band are exactly the ends of the text box (`text_ink_extent`, from `edge_facts*` over the
                     regenerated font tables), hence the margins differ by at most one pixel.
                     `tile_check_partial`: all clauses of `Spec.Tile.check` together under these hypotheses.

NOT YET PROVED (validated on the real renderer's output on every run): `centreOk` without `TileTextFits`, i.e. from
the Spec's own guard alone ("the observed ink is strictly inside the active area"): that needs, for clipped texts, that
ink cut off at an edge of the active area leaves visible ink touching that edge (a per-glyph vertical connectivity
fact); no counterexample is known.
-/
namespace RawPanelVerif.C18
open RawPanelVerif RawPanelVerif.Mono RawPanelVerif.Tile RawPanelVerif.C16 RawPanelVerif.C20

/-- any sequence of drawing operations only touches the clip rectangle -/
theorem draws_touch (ops : List Op) (hd : ∀ op ∈ ops, Op.isDraw op = true) (c : Canvas) (hwf : c.WF) :
    Touch (clipR c.geo) c (ops.foldl applyOp c) := by
  induction ops generalizing c with
  | nil => exact Touch.refl _ c hwf
  | cons op ops ih =>
    rw [List.foldl_cons]
    have t1 : Touch (clipR c.geo) c (applyOp c op) :=
      (applyOp_touch c hwf op (hd op (by simp))).mono (fun X Y hr => (clip_iff _ _ _).1 hr.1)
    have t2 := ih (fun o ho => hd o (by simp [ho])) (applyOp c op) t1.wf
    rw [t1.geo] at t2
    exact t1.trans t2

theorem layoutOps_draw (inp : TileIn) (w h s b : Int) : ∀ op ∈ layoutOps inp w h s b, Op.isDraw op = true := by
  intro op hop
  unfold layoutOps at hop
  simp only [List.mem_map] at hop
  obtain ⟨d, _, rfl⟩ := hop
  cases d <;> rfl

/-- the canvas after `InvertPixels` + black-out: well-formed and every visible pixel blank -/
theorem blackout (w h : Nat) (inv : Bool) :
    let c1 := applyOp (invertPixels (newCanvas w h) inv) (.frect 0 0 w h false)
    c1.WF ∧ c1.geo = (invertPixels (newCanvas w h) inv).geo ∧
      ∀ X Y, X < w → Y < h → getPx c1 X Y = inv := by
  have hwf : (invertPixels (newCanvas w h) inv).WF := by
    have := newCanvas_wf w h
    unfold invertPixels Canvas.WF at *; simpa using this
  have hp := fillRect_paint (invertPixels (newCanvas w h) inv) hwf 0 0 w h false
  refine ⟨hp.wf, hp.geo, ?_⟩
  intro X Y hX hY
  have hg : (invertPixels (newCanvas w h) inv).geo =
      { W := w, H := h, wib := (w + 7) / 8, bx := 0, byy := 0, bw := w, bh := h, inv := inv } := rfl
  have := hp.inside X Y (by rw [hg]; simp only []; omega) (by rw [hg]; exact hY) (by
    rw [hg]
    refine ⟨?_, by simp, by simp; omega, by simp, by simp; omega⟩
    unfold clipR inClip xMin yMin wMax hMax
    simp only []
    refine ⟨by simp, by simp, ?_, ?_⟩ <;> split <;> omega)
  rw [hg] at this
  simpa [applyOp] using this

def specCase (inp : TileIn) (inv : Bool) (w h : Nat) (shrink border : Int) : Spec.Tile.Case :=
  { w := w, h := h, shrink := shrink, border := border, inverted := inv, fmt := inp.fmt,
    proportional := !(inp.styling.getD {}).fixedWidth, extraSp := (inp.styling.getD {}).extraSp,
    noLF := true, edgeInk := true,
    pix := inp.pix.map (fun c => match c with | .rgb r g b => .rgb r g b | .idx i => .idx i | .empty => .empty),
    bg := inp.bg.map (fun c => match c with | .rgb r g b => .rgb r g b | .idx i => .idx i | .empty => .empty) }

theorem inClip_linear {g : Geom} {X Y : Int} (h : inClip g X Y) :
    g.bx ≤ X ∧ g.byy ≤ Y ∧ 0 ≤ X ∧ 0 ≤ Y ∧ X < g.bw + g.bx ∧ Y < g.bh + g.byy ∧ X < g.W ∧ Y < g.H := by
  obtain ⟨h1, h2, h3, h4⟩ := h
  unfold xMin at h1; unfold yMin at h2; unfold wMax at h3; unfold hMax at h4
  split at h1 <;> split at h2 <;> split at h3 <;> split at h4 <;> omega

/-- the clip rectangle set by the renderer lies inside the active area the property names -/
theorem clip_sub_active (inp : TileIn) (inv : Bool) (w h : Nat) (shrink border : Int) (X Y : Nat)
    (hc : inClip { W := w, H := h, wib := (w + 7) / 8, bx := border, byy := border,
                   bw := (activeWH w h shrink border).1, bh := (activeWH w h shrink border).2, inv := inv } X Y) :
    Spec.Tile.inActive (specCase inp inv w h shrink border) X Y = true := by
  obtain ⟨q1, q2, q3, q4, q5, q6, q7, q8⟩ := inClip_linear hc
  simp only [] at q1 q2 q3 q4 q5 q6 q7 q8
  unfold Spec.Tile.inActive Spec.Tile.active specCase
  unfold activeWH qint at q5 q6
  simp only [] at q5 q6 ⊢
  by_cases hb : border > 0
  · simp only [hb, if_true, decide_true, reduceIte] at q5 q6 ⊢
    simp only [Bool.and_eq_true, decide_eq_true_eq]
    omega
  · simp only [hb, if_false, decide_false, Bool.false_eq_true, reduceIte] at q5 q6 ⊢
    by_cases s1 : shrink.emod 2 = 1 <;> by_cases s2 : shrink.emod 4 / 2 = 1 <;>
      simp only [s1, s2, if_true, if_false, decide_true, decide_false, Bool.false_eq_true, reduceIte] at q5 q6 ⊢ <;>
      simp only [Bool.and_eq_true, decide_eq_true_eq] <;> omega

theorem renderTile_unfold (inp : TileIn) (inv : Bool) (w h : Nat) (shrink border : Int) :
    renderTile inp inv w h shrink border =
      (layoutOps inp w h shrink border).foldl applyOp
        (setBoundingBox (applyOp (invertPixels (newCanvas w h) inv) (.frect 0 0 w h false)) border border
          (activeWH w h shrink border).1 (activeWH w h shrink border).2) := by
  unfold renderTile tileOps
  simp only [List.foldl_cons]
  rfl

/-- **size**: the image has exactly the requested width, height and buffer size -/
theorem tile_size_ok (inp : TileIn) (inv : Bool) (w h : Nat) (shrink border : Int) :
    let c := renderTile inp inv w h shrink border
    (c.geo.W = w ∧ c.geo.H = h ∧ c.bytes.size = ((w + 7) / 8) * h) ∧
    Spec.Tile.sizeOk (specCase inp inv w h shrink border) c.geo.W c.geo.H c.bytes.size c.bytes.size = true := by
  rw [renderTile_unfold]
  obtain ⟨hwf1, hg1, _⟩ := blackout w h inv
  generalize hc1 : applyOp (invertPixels (newCanvas w h) inv) (.frect 0 0 w h false) = c1 at hwf1 hg1
  have hwf2 : (setBoundingBox c1 border border (activeWH w h shrink border).1 (activeWH w h shrink border).2).WF := by
    unfold setBoundingBox Canvas.WF at *; simpa using hwf1
  have t := draws_touch _ (layoutOps_draw inp w h shrink border) _ hwf2
  have hgeo := t.geo
  have hsz : (List.foldl applyOp (setBoundingBox c1 border border (activeWH w h shrink border).1 (activeWH w h shrink border).2)
      (layoutOps inp w h shrink border)).bytes.size = ((w + 7) / 8) * h := by
    rw [t.size]
    show c1.bytes.size = _
    rw [← hc1]
    have hwf0 : (invertPixels (newCanvas w h) inv).WF := by
      have := newCanvas_wf w h
      unfold invertPixels Canvas.WF at *; simpa using this
    exact (fillRect_paint (invertPixels (newCanvas w h) inv) hwf0 0 0 w h false).size.trans
      (by simp [invertPixels, newCanvas])
  have hW : (setBoundingBox c1 border border (activeWH w h shrink border).1 (activeWH w h shrink border).2).geo.W = w := by
    unfold setBoundingBox; simp only []; rw [hg1]; rfl
  have hH : (setBoundingBox c1 border border (activeWH w h shrink border).1 (activeWH w h shrink border).2).geo.H = h := by
    unfold setBoundingBox; simp only []; rw [hg1]; rfl
  have hwib : (setBoundingBox c1 border border (activeWH w h shrink border).1 (activeWH w h shrink border).2).geo.wib = (w + 7) / 8 := by
    unfold setBoundingBox; simp only []; rw [hg1]; rfl
  simp only []
  rw [hgeo, hW, hH, hsz]
  refine ⟨⟨rfl, rfl, rfl⟩, ?_⟩
  unfold Spec.Tile.sizeOk Spec.Tile.wib specCase
  simp

/-- **active**: outside the active area left by shrink and border every visible pixel keeps the blank value -/
theorem tile_active_ok (inp : TileIn) (inv : Bool) (w h : Nat) (shrink border : Int) :
    Spec.Tile.activeOk (specCase inp inv w h shrink border) (getPx (renderTile inp inv w h shrink border)) = true := by
  rw [renderTile_unfold]
  obtain ⟨hwf1, hg1, hblank⟩ := blackout w h inv
  generalize hc1 : applyOp (invertPixels (newCanvas w h) inv) (.frect 0 0 w h false) = c1 at hwf1 hg1 hblank
  generalize haw : (activeWH w h shrink border).1 = aw
  generalize hah : (activeWH w h shrink border).2 = ah
  have hwf2 : (setBoundingBox c1 border border aw ah).WF := by
    unfold setBoundingBox Canvas.WF at *; simpa using hwf1
  have t := draws_touch _ (layoutOps_draw inp w h shrink border) _ hwf2
  have hg2 : (setBoundingBox c1 border border aw ah).geo =
      { W := w, H := h, wib := (w + 7) / 8, bx := border, byy := border, bw := aw, bh := ah, inv := inv } := by
    unfold setBoundingBox; simp only []; rw [hg1]; rfl
  unfold Spec.Tile.activeOk
  rw [List.all_eq_true]
  intro p hp
  have hpx : p.1 < w ∧ p.2 < h := by
    unfold Spec.Tile.pixels specCase at hp
    simp only [List.mem_flatMap, List.mem_range, List.mem_map] at hp
    obtain ⟨Y, hY, X, hX, rfl⟩ := hp
    exact ⟨hX, hY⟩
  cases hin : Spec.Tile.inActive (specCase inp inv w h shrink border) p.1 p.2 with
  | true => simp
  | false =>
    simp only [Bool.false_or, beq_iff_eq]
    have hnc : ¬ clipR (setBoundingBox c1 border border aw ah).geo p.1 p.2 := by
      intro hc
      rw [hg2] at hc
      have := clip_sub_active inp inv w h shrink border p.1 p.2 (by rw [haw, hah]; exact hc)
      rw [this] at hin; exact absurd hin (by simp)
    have hX2 : p.1 < (setBoundingBox c1 border border aw ah).geo.wib * 8 := by rw [hg2]; simp only []; omega
    have hY2 : p.2 < (setBoundingBox c1 border border aw ah).geo.H := by rw [hg2]; exact hpx.2
    rw [t.same p.1 p.2 hX2 hY2 hnc]
    have : getPx (setBoundingBox c1 border border aw ah) p.1 p.2 = getPx c1 p.1 p.2 := by
      unfold getPx setBoundingBox; simp
    rw [this, hblank p.1 p.2 hpx.1 hpx.2]
    rfl

/-- after the black-out the two renderings (not inverted / inverted) are complementary -/
theorem blackout_compl (w h : Nat) :
    Compl (applyOp (invertPixels (newCanvas w h) false) (.frect 0 0 w h false))
          (applyOp (invertPixels (newCanvas w h) true) (.frect 0 0 w h false)) := by
  obtain ⟨wf0, g0, b0⟩ := blackout w h false
  obtain ⟨wf1, g1, b1⟩ := blackout w h true
  refine ⟨wf0, wf1, ?_, ?_⟩
  · rw [g1, g0]; rfl
  · intro X Y hX hY
    rw [g0] at hX hY
    rw [b0 X Y hX hY, b1 X Y hX hY]; rfl

/-- **inversion**: the inverted rendering is exactly the complement of the non-inverted one over the whole tile -/
theorem tile_inversion_ok (inp : TileIn) (inv : Bool) (w h : Nat) (shrink border : Int) :
    Spec.Tile.inversionOk (specCase inp inv w h shrink border)
      (getPx (renderTile inp inv w h shrink border)) (getPx (renderTile inp (!inv) w h shrink border)) = true := by
  have key : Compl (renderTile inp false w h shrink border) (renderTile inp true w h shrink border) := by
    unfold renderTile tileOps
    simp only [List.foldl_cons]
    refine foldl_compl _ ?_ _ _ (setBoundingBox_compl (blackout_compl w h) _ _ _ _)
    intro op hop b
    have := layoutOps_draw inp w h shrink border op hop
    intro e; subst e; simp [Op.isDraw] at this
  have hW : (renderTile inp false w h shrink border).geo.W = w := (tile_size_ok inp false w h shrink border).1.1
  have hH : (renderTile inp false w h shrink border).geo.H = h := (tile_size_ok inp false w h shrink border).1.2.1
  unfold Spec.Tile.inversionOk
  rw [List.all_eq_true]
  intro p hp
  have hpx : p.1 < w ∧ p.2 < h := by
    unfold Spec.Tile.pixels specCase at hp
    simp only [List.mem_flatMap, List.mem_range, List.mem_map] at hp
    obtain ⟨Y, hY, X, hX, rfl⟩ := hp
    exact ⟨hX, hY⟩
  have hv := key.vis p.1 p.2 (by rw [hW]; exact hpx.1) (by rw [hH]; exact hpx.2)
  cases inv
  · simp only [Bool.not_false]; rw [hv]; cases getPx (renderTile inp false w h shrink border) p.1 p.2 <;> rfl
  · simp only [Bool.not_true]; rw [hv]; cases getPx (renderTile inp false w h shrink border) p.1 p.2 <;> rfl

/-- the centring rule of formats 10/11: for a text box of width `sw` that fits (`0 ≤ sw ≤ aw`) the left margin
`xOffset` and the right margin `aw - sw - xOffset` differ by at most one pixel -/
theorem box_centred_within_one (aw sw : Int) (h0 : 0 ≤ sw) (h1 : sw ≤ aw) :
    let xOffset := shr1 (Tile.constrain (aw - sw) 0 aw)
    let left := xOffset
    let right := aw - sw - xOffset
    left ≤ right ∧ right ≤ left + 1 ∧ 0 ≤ left := by
  unfold shr1 Tile.constrain
  simp only []
  split
  · omega
  · split <;> omega


/-! ## colours -/

theorem t5_eq (x : Int) (h0 : 0 ≤ x) (h1 : x < 4) :
    x * 31 / 3 % 32 = (if x = 0 then 0 else if x = 1 then 10 else if x = 2 then 20 else 31) := by
  have : x = 0 ∨ x = 1 ∨ x = 2 ∨ x = 3 := by omega
  rcases this with h | h | h | h <;> subst h <;> decide

theorem t6_eq (x : Int) (h0 : 0 ≤ x) (h1 : x < 4) :
    x * 63 / 3 % 64 = (if x = 0 then 0 else if x = 1 then 21 else if x = 2 then 42 else 63) := by
  have : x = 0 ∨ x = 1 ∨ x = 2 ∨ x = 3 := by omega
  rcases this with h | h | h | h <;> subst h <;> decide

/-- the setters' `MapValue` arithmetic is the documented 2-bit → 5/6/5-bit expansion, for every 6-bit (indeed every) code -/
theorem color565_eq (c : Int) : color565 c = Spec.Tile.c565 c := by
  unfold color565 Spec.Tile.c565
  simp only []
  rw [t5_eq (c / 16 % 4) (Int.emod_nonneg _ (by omega)) (Int.emod_lt_of_pos _ (by omega)),
      t6_eq (c / 4 % 4) (Int.emod_nonneg _ (by omega)) (Int.emod_lt_of_pos _ (by omega)),
      t5_eq (c % 4) (Int.emod_nonneg _ (by omega)) (Int.emod_lt_of_pos _ (by omega))]

theorem mapConstrain_q2 (x : Int) : mapConstrain x 0 255 0 3 = Spec.Tile.q2 x ∧ 0 ≤ Spec.Tile.q2 x ∧ Spec.Tile.q2 x ≤ 3 := by
  unfold mapConstrain Tile.constrain Spec.Tile.q2
  simp only [Int.sub_zero, Int.add_zero]
  have e : (x * (3:Int)).tdiv 255 = (x * 3).tdiv 255 := rfl
  refine ⟨?_, ?_, ?_⟩
  · trivial
  · split <;> (try split) <;> omega
  · split <;> (try split) <;> omega

def specCol : Col → Spec.Tile.Col
  | .rgb r g b => .rgb r g b
  | .idx i => .idx i
  | .empty => .empty

theorem color6_eq (c : Col) : color6 c = Spec.Tile.colour6 (specCol c) := by
  cases c with
  | rgb r g b =>
    unfold color6 Spec.Tile.colour6 specCol u32
    simp only []
    obtain ⟨e1, l1, u1⟩ := mapConstrain_q2 r
    obtain ⟨e2, l2, u2⟩ := mapConstrain_q2 g
    obtain ⟨e3, l3, u3⟩ := mapConstrain_q2 b
    rw [e1, e2, e3]
    generalize Spec.Tile.q2 r = a at *
    generalize Spec.Tile.q2 g = bb at *
    generalize Spec.Tile.q2 b = cc at *
    have h1 : a.emod 4 = a := Int.emod_eq_of_lt l1 (by omega)
    have h2 : bb.emod 4 = bb := Int.emod_eq_of_lt l2 (by omega)
    have h3 : cc.emod 4 = cc := Int.emod_eq_of_lt l3 (by omega)
    rw [h1, h2, h3]
    have h4 : (a * 16).emod 4294967296 = a * 16 := Int.emod_eq_of_lt (by omega) (by omega)
    have h5 : (bb * 4).emod 4294967296 = bb * 4 := Int.emod_eq_of_lt (by omega) (by omega)
    have h6 : cc.emod 4294967296 = cc := Int.emod_eq_of_lt (by omega) (by omega)
    rw [h4, h5, h6]
  | idx i => rfl
  | empty => rfl

/-- **colours**: the RGB565 pixel / background colours of the returned image are the ones the state requests -/
theorem tile_colours_ok (inp : TileIn) (inv : Bool) (w h : Nat) (shrink border : Int) :
    Spec.Tile.coloursOk (specCase inp inv w h shrink border) (tileColours inp).1 (tileColours inp).2 = true := by
  unfold Spec.Tile.coloursOk Spec.Tile.expectedColours tileColours specCase
  simp only [beq_iff_eq, Prod.mk.injEq]
  constructor
  · cases hp : inp.pix with
    | none => rfl
    | some c => simp only [Option.map_some]; rw [color565_eq, color6_eq]; cases c <;> rfl
  · cases hp : inp.bg with
    | none => rfl
    | some c => simp only [Option.map_some]; rw [color565_eq, color6_eq]; cases c <;> rfl

/-- no index panic: the modifier icon table is indexed only with 0..6 and has 7 entries; the colour table is indexed
only below its length (the code after `fix:` 75f1773) -/
theorem icon_index_guarded : Gen.icons8by8.size = 7 := by decide

/-- The pinned tree evaluated `buttonColors[index]` before the length test (`su.Qint` is strict in both arguments):
for colour index 19 the access is out of range in a table of 19 entries. -/
theorem colour_index_pinned_counterexample : Gen.buttonColors.size = 19 ∧ ¬ (19 < Gen.buttonColors.size) := by decide

/-! ## bar -/

/-- the byte slice of a rendered canvas as the harness prints it -/
def canvasBytes (c : Canvas) : Array UInt8 := c.bytes.map (fun b => UInt8.ofNat b.toNat)

theorem bit_u8 (b : BitVec 8) (k : Nat) : (((UInt8.ofNat b.toNat).toNat >>> k) % 2 == 1) = b.getLsbD k := by
  have h : (UInt8.ofNat b.toNat).toNat = b.toNat := by
    simp
  rw [h, Nat.shiftRight_eq_div_pow, BitVec.getLsbD, Nat.testBit_eq_decide_div_mod_eq]
  generalize b.toNat / 2 ^ k % 2 = x
  by_cases hx : x = 1 <;> simp [hx]

theorem bitAt_canvasBytes (c : Canvas) (X Y : Nat) :
    Spec.Tile.bitAt c.geo.wib (canvasBytes c) X Y = getPx c X Y := by
  unfold Spec.Tile.bitAt canvasBytes getPx
  simp only [Array.getD_eq_getD_getElem?, Array.getElem?_map]
  cases h : c.bytes[Y * c.geo.wib + X / 8]? with
  | none => simp
  | some b => simp only [Option.map_some, Option.getD_some]; exact bit_u8 b _


theorem renderTile_geo (inp : TileIn) (inv : Bool) (w h : Nat) (shrink border : Int) :
    (renderTile inp inv w h shrink border).geo =
      { W := w, H := h, wib := (w + 7) / 8, bx := border, byy := border,
        bw := (activeWH w h shrink border).1, bh := (activeWH w h shrink border).2, inv := inv } := by
  rw [renderTile_unfold]
  obtain ⟨hwf1, hg1, _⟩ := blackout w h inv
  generalize hc1 : applyOp (invertPixels (newCanvas w h) inv) (.frect 0 0 w h false) = c1 at hwf1 hg1
  have hwf2 : (setBoundingBox c1 border border (activeWH w h shrink border).1 (activeWH w h shrink border).2).WF := by
    unfold setBoundingBox Canvas.WF at *; simpa using hwf1
  have t := draws_touch _ (layoutOps_draw inp w h shrink border) _ hwf2
  rw [t.geo]
  unfold setBoundingBox; simp only []; rw [hg1]; rfl

/-- raising the value (value text unchanged, scale type 1, positive range) only adds lit pixels -/
theorem renderTile_sub (inp : TileIn) (v2 : Int) (inv : Bool) (w h : Nat) (shrink border : Int)
    (hval : valueString inp.fmt inp.intVal = valueString inp.fmt v2)
    (ht : (inp.scale.getD {}).stype = 1) (hr : 0 < i32 ((inp.scale.getD {}).rh - (inp.scale.getD {}).rl))
    (hv : inp.intVal ≤ v2) :
    Sub (renderTile inp inv w h shrink border) (renderTile (setVal inp v2) inv w h shrink border) := by
  rw [renderTile_unfold, renderTile_unfold]
  obtain ⟨hwf1, _, _⟩ := blackout w h inv
  generalize applyOp (invertPixels (newCanvas w h) inv) (.frect 0 0 w h false) = c1 at hwf1
  have hwf2 : (setBoundingBox c1 border border (activeWH w h shrink border).1 (activeWH w h shrink border).2).WF := by
    unfold setBoundingBox Canvas.WF at *; simpa using hwf1
  exact (tileAcc_R inp v2 w h shrink border hval ht hr hv).sub _ _ (Sub.refl _ hwf2)

/-- **bar** (`Spec.Tile.checkBar`): scale type 1 with a positive range (`0 < int32(RangeHigh - RangeLow)`), value text
unchanged (e.g. hidden, `FMT_HIDE`), everything else equal: for `v1 ≤ v2` no pixel lit in the rendering at `v1` is
dark in the rendering at `v2` — for every text state, geometry, inversion, and all integers `v1`, `v2`, range bounds
(the bar length goes through correctly rounded double division/multiplication and truncation). -/
theorem bar_monotone (inp : TileIn) (v2 : Int) (inv : Bool) (w h : Nat) (shrink border : Int)
    (hval : valueString inp.fmt inp.intVal = valueString inp.fmt v2)
    (ht : (inp.scale.getD {}).stype = 1) (hr : 0 < i32 ((inp.scale.getD {}).rh - (inp.scale.getD {}).rl))
    (hv : inp.intVal ≤ v2) :
    Spec.Tile.checkBar (specCase inp inv w h shrink border)
      (canvasBytes (renderTile inp inv w h shrink border))
      (canvasBytes (renderTile (setVal inp v2) inv w h shrink border)) = none := by
  have hs := renderTile_sub inp v2 inv w h shrink border hval ht hr hv
  have g1 := renderTile_geo inp inv w h shrink border
  have g2 := renderTile_geo (setVal inp v2) inv w h shrink border
  have z1 := (tile_size_ok inp inv w h shrink border).1.2.2
  have z2 := (tile_size_ok (setVal inp v2) inv w h shrink border).1.2.2
  generalize renderTile inp inv w h shrink border = A1 at *
  generalize renderTile (setVal inp v2) inv w h shrink border = A2 at *
  unfold Spec.Tile.checkBar
  have hsz : (canvasBytes A1).size = (canvasBytes A2).size := by
    unfold canvasBytes; rw [Array.size_map, Array.size_map, z1, z2]
  rw [if_neg (by rw [hsz]; simp)]
  have hany : (Spec.Tile.pixels (specCase inp inv w h shrink border)).any (fun p =>
      (Spec.Tile.bitAt (Spec.Tile.wib (specCase inp inv w h shrink border)) (canvasBytes A1) p.1 p.2
          != (specCase inp inv w h shrink border).inverted) &&
        !(Spec.Tile.bitAt (Spec.Tile.wib (specCase inp inv w h shrink border)) (canvasBytes A2) p.1 p.2
          != (specCase inp inv w h shrink border).inverted)) = false := by
    rw [List.any_eq_false]
    intro p hp
    have hpx : p.1 < w ∧ p.2 < h := by
      unfold Spec.Tile.pixels specCase at hp
      simp only [List.mem_flatMap, List.mem_range, List.mem_map] at hp
      obtain ⟨Y, hY, X, hX, rfl⟩ := hp
      exact ⟨hX, hY⟩
    have w1 : Spec.Tile.wib (specCase inp inv w h shrink border) = A1.geo.wib := by rw [g1]; rfl
    have w2 : Spec.Tile.wib (specCase inp inv w h shrink border) = A2.geo.wib := by rw [g2]; rfl
    have i1 : (specCase inp inv w h shrink border).inverted = A1.geo.inv := by rw [g1]; rfl
    rw [i1]
    conv => enter [1, 1, 1, 1, 1]; rw [w1]
    conv => enter [1, 1, 2, 1, 1, 1]; rw [w2]
    rw [bitAt_canvasBytes, bitAt_canvasBytes]
    have := hs.vis p.1 p.2 (by rw [g1]; exact hpx.1) (by rw [g1]; exact hpx.2)
    cases hb : (getPx A1 p.1 p.2 != A1.geo.inv) with
    | false => simp
    | true => rw [this hb]; simp
  rw [hany]
  simp


/-- value hidden (`FMT_HIDE`, the harness's bar pairs): the instance of `bar_monotone` the driver evaluates -/
theorem bar_monotone_hidden (inp : TileIn) (v2 : Int) (inv : Bool) (w h : Nat) (shrink border : Int)
    (hf : inp.fmt = 7)
    (ht : (inp.scale.getD {}).stype = 1) (hr : 0 < i32 ((inp.scale.getD {}).rh - (inp.scale.getD {}).rl))
    (hv : inp.intVal ≤ v2) :
    Spec.Tile.checkBar (specCase inp inv w h shrink border)
      (canvasBytes (renderTile inp inv w h shrink border))
      (canvasBytes (renderTile (setVal inp v2) inv w h shrink border)) = none := by
  refine bar_monotone inp v2 inv w h shrink border ?_ ht hr hv
  unfold valueString
  rw [hf]
  rfl

/-- the bar length the model computes (`scaleBar_eq`: `scaleBar` draws the type-1 in-fill with exactly this width),
`ConstrainValue(int(float64(v - low)/float64(range)*float64(activeWidth)), 0, activeWidth)` in correctly rounded
binary64 arithmetic, is monotone in the value for every positive range and every width ≥ 0 … -/
theorem bar_length_monotone (v1 v2 low range activeWidth : Int) (hr : 0 < range) (hw : 0 ≤ activeWidth) (hv : v1 ≤ v2) :
    barLen (v1 - low) range activeWidth ≤ barLen (v2 - low) range activeWidth :=
  barLen_mono _ _ _ _ hr hw (by omega)

/-- … and stays within the bar's extent -/
theorem bar_length_in_extent (v low range activeWidth : Int) (hw : 0 ≤ activeWidth) :
    0 ≤ barLen (v - low) range activeWidth ∧ barLen (v - low) range activeWidth ≤ activeWidth :=
  barLen_range _ _ _ hw

/-- the range hypothesis is needed: for a reversed range the bar shrinks when the value grows (as it should) -/
theorem bar_reversed_range_counterexample :
    barLen (70 - 100) (i32 (0 - 100)) 64 < barLen (30 - 100) (i32 (0 - 100)) 64 := by decide +kernel

/-- non-vacuity: a 64×32 tile, hidden value 30 → 70 in the range 0..100 — the hypotheses hold, and the bar really grows -/
example :
    let inp : TileIn := { fmt := 7, intVal := 30, title := [65], scale := some { stype := 1, rl := 0, rh := 100, ll := 0, lh := 100 } }
    inp.fmt = 7 ∧ (inp.scale.getD {}).stype = 1 ∧ 0 < i32 ((inp.scale.getD {}).rh - (inp.scale.getD {}).rl) ∧
      inp.intVal ≤ 70 ∧ barLen (30 - 0) 100 64 = 19 ∧ barLen (70 - 0) 100 64 = 44 := by decide +kernel

/-- big ranges (the product value·width exceeds 32 bits; the quotient is not exactly representable) -/
example : barLen 100000000 2000000000 128 = 6 ∧ barLen 1999999999 2000000000 128 = 127 ∧
    barLen 2000000000 2000000000 128 = 128 := by decide +kernel

/-! ## centre -/

/-- the canvas the layout operations start from: blank, bounding box = active area -/
def startCanvas (inv : Bool) (w h : Nat) (shrink border : Int) : Canvas :=
  setBoundingBox (applyOp (invertPixels (newCanvas w h) inv) (.frect 0 0 w h false)) border border
    (activeWH w h shrink border).1 (activeWH w h shrink border).2

def tileGeo (inv : Bool) (w h : Nat) (shrink border : Int) : Geom :=
  { W := w, H := h, wib := (w + 7) / 8, bx := border, byy := border,
    bw := (activeWH w h shrink border).1, bh := (activeWH w h shrink border).2, inv := inv }

theorem startCanvas_facts (inv : Bool) (w h : Nat) (shrink border : Int) :
    (startCanvas inv w h shrink border).WF ∧ (startCanvas inv w h shrink border).geo = tileGeo inv w h shrink border ∧
    ∀ X Y, X < w → Y < h → getPx (startCanvas inv w h shrink border) X Y = inv := by
  obtain ⟨hwf1, hg1, hblank⟩ := blackout w h inv
  unfold startCanvas
  generalize applyOp (invertPixels (newCanvas w h) inv) (.frect 0 0 w h false) = c1 at hwf1 hg1 hblank
  refine ⟨?_, ?_, ?_⟩
  · unfold setBoundingBox Canvas.WF at *; simpa using hwf1
  · unfold setBoundingBox tileGeo; simp only []; rw [hg1]; rfl
  · intro X Y hX hY
    have : getPx (setBoundingBox c1 border border (activeWH w h shrink border).1 (activeWH w h shrink border).2) X Y
        = getPx c1 X Y := by unfold getPx setBoundingBox; simp
    rw [this]; exact hblank X Y hX hY

theorem tileGeo_box (inv : Bool) (w h : Nat) (shrink border : Int) (hb : 0 ≤ border) :
    BoxOnCanvas (tileGeo inv w h shrink border) := by
  unfold tileGeo activeWH qint
  by_cases hbo : border > 0
  · refine ⟨hb, hb, ?_, ?_⟩ <;> simp only [hbo, decide_true, if_true] <;> omega
  · refine ⟨hb, hb, ?_, ?_⟩ <;> simp only [hbo, decide_false, Bool.false_eq_true, if_false] <;> split <;> omega

/-- lit pixels after rendering one text on the start canvas = the text's ink region -/
theorem text_on_start (inv : Bool) (w h : Nat) (shrink border : Int) (t : TextSt) (s : List Nat)
    (hs : 10 ∉ s) (hw : t.wrap = false) (hc : t.tcol = true) (hbg : t.tbg = true) (X Y : Nat) (hX : X < w) (hY : Y < h) :
    (getPx (renderText (startCanvas inv w h shrink border, t) s).1 X Y ≠ inv) ↔
      textR (tileGeo inv w h shrink border) t s X Y := by
  obtain ⟨hwf, hg, hblank⟩ := startCanvas_facts inv w h shrink border
  have p := renderText_paint s hs _ hwf t hw (by rw [hbg, hc])
  rw [hg] at p
  have hX8 : X < (startCanvas inv w h shrink border).geo.wib * 8 := by rw [hg]; unfold tileGeo; simp only []; omega
  have hY' : Y < (startCanvas inv w h shrink border).geo.H := by rw [hg]; exact hY
  by_cases hr : textR (tileGeo inv w h shrink border) t s X Y
  · have := p.inside X Y hX8 hY' hr
    rw [this, hc]
    have : (tileGeo inv w h shrink border).inv = inv := rfl
    rw [this]
    cases inv <;> simp [hr]
  · have := p.same X Y hX8 hY' hr
    rw [this, hblank X Y hX hY]
    simp [hr]


/-- first and last character are ASCII letters or digits (the Spec's `edgeInk`; vacuous for the empty string) -/
def edgeAlnum (s : List Nat) : Bool :=
  match s.head?, s.getLast? with
  | some a, some b => alnum a && alnum b
  | _, _ => true

theorem edge_decomp (s : List Nat) (hne : s ≠ []) (he : edgeAlnum s = true) :
    ∃ c0 rest pre cL, s = c0 :: rest ∧ s = pre ++ [cL] ∧ alnum c0 = true ∧ alnum cL = true := by
  cases s with
  | nil => exact absurd rfl hne
  | cons c0 rest =>
    have hl : (c0 :: rest).getLast? = some ((c0 :: rest).getLast hne) := List.getLast?_eq_some_getLast hne
    unfold edgeAlnum at he
    rw [hl] at he
    simp only [List.head?_cons, Bool.and_eq_true] at he
    exact ⟨c0, rest, (c0 :: rest).dropLast, (c0 :: rest).getLast hne, rfl,
      (List.dropLast_concat_getLast hne).symm, he.1, he.2⟩

theorem glyphR_clip (g : Geom) (t : TextSt) (x y : Int) (ch : Nat) (h v : Int) (X Y : Nat)
    (hg : glyphR g t x y ch h v X Y) : clipR g X Y := by
  obtain ⟨i, j, _, _, _, hc, _⟩ := hg; exact hc

theorem textR_clip (g : Geom) (s : List Nat) (t : TextSt) (X Y : Nat) (hr : textR g t s X Y) : clipR g X Y := by
  induction s generalizing t with
  | nil => exact hr.elim
  | cons ch rest ih =>
    simp only [textR] at hr
    by_cases h13 : ch = 13
    · simp only [h13, if_true] at hr; exact ih t hr
    · simp only [h13, if_false] at hr
      rcases hr with ⟨_, hg⟩ | hr
      · exact glyphR_clip _ _ _ _ _ _ _ _ _ hg
      · exact ih _ hr

theorem active_xy (inp : TileIn) (inv : Bool) (w h : Nat) (shrink border : Int) (hb : 0 ≤ border) :
    Spec.Tile.active (specCase inp inv w h shrink border) =
      (border, border, border + (activeWH w h shrink border).1, border + (activeWH w h shrink border).2) := by
  unfold Spec.Tile.active specCase activeWH qint
  simp only []
  by_cases hbo : border > 0
  · simp only [hbo, decide_true, if_true, Prod.mk.injEq, true_and]; omega
  · simp only [hbo, decide_false, Bool.false_eq_true, if_false, Prod.mk.injEq]
    have : border = 0 := by omega
    subst this
    refine ⟨rfl, rfl, ?_, ?_⟩
    · by_cases hs : shrink.emod 2 = 1 <;> simp [hs]
    · by_cases hs : shrink.emod 4 / 2 = 1 <;> simp [hs]

/-- one row band of the tile whose lit pixels are exactly the ink of one centred text: the Spec's centring clause holds -/
theorem band_centred (inp : TileIn) (inv : Bool) (w h : Nat) (shrink border : Int) (hb : 0 ≤ border)
    (A : Nat → Nat → Bool) (ya yb : Int) (t : TextSt) (s : List Nat)
    (hlit : ∀ X Y, X < w → Y < h → (litIn inv A ya yb (X, Y) ↔ textR (tileGeo inv w h shrink border) t s X Y))
    (hp : t.prop = true) (hsp : t.spacing = 0) (hh : 1 ≤ t.tsH) (hv : 1 ≤ t.tsV)
    (h13 : 13 ∉ s) (he : edgeAlnum s = true) (hfit : s ≠ [] → TextFits (tileGeo inv w h shrink border) t s)
    (hcx : t.cx = shr1 (Tile.constrain ((activeWH w h shrink border).1 - strWidth t s) 0 (activeWH w h shrink border).1)) :
    Spec.Tile.centredIn (specCase inp inv w h shrink border) A ya yb = true := by
  refine centredIn_of_region _ A ya yb (textR (tileGeo inv w h shrink border) t s) hlit ?_ ?_
  · intro X Y hr
    have := inClip_bounds (textR_clip _ s t X Y hr)
    have e1 : (tileGeo inv w h shrink border).W = w := rfl
    have e2 : (tileGeo inv w h shrink border).H = h := rfl
    rw [e1, e2] at this
    show X < w ∧ Y < h
    omega
  · by_cases hne : s = []
    · left; subst hne; intro X Y hr; exact hr
    · right
      obtain ⟨c0, rest, pre, cL, hs0, hsL, ha0, haL⟩ := edge_decomp s hne he
      have hf := hfit hne
      obtain ⟨hall, ⟨XL, YL, hL, eL⟩, ⟨XR, YR, hR, eR⟩⟩ :=
        text_ink_extent (tileGeo inv w h shrink border) t c0 cL rest pre s hs0 hsL h13 hp hsp hh hv ha0 haL
          (tileGeo_box inv w h shrink border hb) hf
      refine ⟨XL, XR, ?_, ⟨YL, hL⟩, ⟨YR, hR⟩, ?_⟩
      · intro X Y hr
        have := hall X Y hr
        omega
      · rw [active_xy inp inv w h shrink border hb]
        simp only []
        have ebx : (tileGeo inv w h shrink border).bx = border := rfl
        have ebw : (tileGeo inv w h shrink border).bw = (activeWH w h shrink border).1 := rfl
        rw [ebx] at eL eR
        obtain ⟨f1, f2, _, _⟩ := hf
        rw [ebw] at f2
        have hsw : 1 ≤ strWidth t s := by have := hall XL YL hL; omega
        have hbox := box_centred_within_one (activeWH w h shrink border).1 (strWidth t s) (by omega) (by omega)
        simp only [] at hbox
        rw [← hcx] at hbox
        omega


/-- every (non-empty) text the layout renders has its text box inside the active area -/
def TileTextFits (inp : TileIn) (inv : Bool) (w h : Nat) (shrink border : Int) : Prop :=
  ∀ t s, DOp.text t s ∈ (tileAcc inp w h shrink border).ops.toList → s ≠ [] →
    TextFits (tileGeo inv w h shrink border) t s

theorem renderTile_start (inp : TileIn) (inv : Bool) (w h : Nat) (shrink border : Int) :
    renderTile inp inv w h shrink border =
      ((tileAcc inp w h shrink border).ops.toList.map DOp.toOp).foldl applyOp (startCanvas inv w h shrink border) := by
  rw [renderTile_unfold]; rfl

theorem lit_rows (inv : Bool) (w h : Nat) (shrink border : Int) (X Y : Nat)
    (hc : clipR (tileGeo inv w h shrink border) X Y) :
    border ≤ (Y : Int) ∧ (Y : Int) < border + (activeWH w h shrink border).2 := by
  obtain ⟨_, q2, _, _, _, q6, _, _⟩ := inClip_linear hc
  have e1 : (tileGeo inv w h shrink border).byy = border := rfl
  have e2 : (tileGeo inv w h shrink border).bh = (activeWH w h shrink border).2 := rfl
  rw [e1] at q2 q6; rw [e2] at q6
  omega

/-- **centre**, one-line format: if the text box fits the active area, the ink is centred to within one pixel -/
theorem centre_ok_fmt10 (inp : TileIn) (inv : Bool) (w h : Nat) (shrink border : Int) (hb : 0 ≤ border)
    (hf : inp.fmt = 10) (hprop : (inp.styling.getD {}).fixedWidth = false)
    (hsp : (inp.styling.getD {}).extraSp.emod 4 = 0)
    (hlf : 10 ∉ inp.title) (hcr : 13 ∉ inp.title) (he : edgeAlnum inp.title = true)
    (hfit : TileTextFits inp inv w h shrink border) :
    Spec.Tile.centreOk (specCase inp inv w h shrink border) (getPx (renderTile inp inv w h shrink border)) = true := by
  obtain ⟨t0, hops, hpt, hcx, _⟩ := tileAcc_fmt10 inp w h shrink border hf
  have hrt : renderTile inp inv w h shrink border =
      (renderText (startCanvas inv w h shrink border, t0) inp.title).1 := by
    rw [renderTile_start, hops]; rfl
  have hfit0 : inp.title ≠ [] → TextFits (tileGeo inv w h shrink border) t0 inp.title :=
    hfit t0 inp.title (by rw [hops]; simp)
  unfold Spec.Tile.centreOk
  rw [active_xy inp inv w h shrink border hb]
  have hcond : ((specCase inp inv w h shrink border).fmt = 10 ∨ (specCase inp inv w h shrink border).fmt = 11) ∧
      (specCase inp inv w h shrink border).proportional = true ∧ (specCase inp inv w h shrink border).extraSp.emod 4 = 0 ∧
      (specCase inp inv w h shrink border).noLF = true ∧ (specCase inp inv w h shrink border).edgeInk = true :=
    ⟨Or.inl hf, by unfold specCase; simp [hprop], hsp, rfl, rfl⟩
  rw [if_pos hcond]
  simp only []
  have hf' : (specCase inp inv w h shrink border).fmt = 10 := hf
  rw [if_pos hf']
  refine band_centred inp inv w h shrink border hb _ _ _ t0 inp.title ?_ (by rw [hpt.prop, hprop]; rfl)
    (by rw [hpt.spacing, hsp]; rfl) hpt.tsH hpt.tsV.1 hcr he hfit0 hcx
  intro X Y hX hY
  rw [hrt]
  have key := text_on_start inv w h shrink border t0 inp.title hlf hpt.wrap hpt.tcol hpt.tbg X Y hX hY
  unfold litIn
  simp only []
  constructor
  · rintro ⟨_, _, hl⟩; exact key.1 hl
  · intro hr
    have := lit_rows inv w h shrink border X Y (textR_clip _ _ _ X Y hr)
    exact ⟨this.1, this.2, key.2 hr⟩


/-- lit pixels after rendering two texts on the start canvas = union of the two ink regions -/
theorem two_texts_on_start (inv : Bool) (w h : Nat) (shrink border : Int) (t1 t2 : TextSt) (s1 s2 : List Nat)
    (hs1 : 10 ∉ s1) (hs2 : 10 ∉ s2) (hw1 : t1.wrap = false) (hc1 : t1.tcol = true) (hb1 : t1.tbg = true)
    (hw2 : t2.wrap = false) (hc2 : t2.tcol = true) (hb2 : t2.tbg = true) (X Y : Nat) (hX : X < w) (hY : Y < h) :
    (getPx (renderText ((renderText (startCanvas inv w h shrink border, t1) s1).1, t2) s2).1 X Y ≠ inv) ↔
      (textR (tileGeo inv w h shrink border) t1 s1 X Y ∨ textR (tileGeo inv w h shrink border) t2 s2 X Y) := by
  obtain ⟨hwf, hg, _⟩ := startCanvas_facts inv w h shrink border
  have k1 := text_on_start inv w h shrink border t1 s1 hs1 hw1 hc1 hb1 X Y hX hY
  have p1 := renderText_paint s1 hs1 _ hwf t1 hw1 (by rw [hb1, hc1])
  have p2 := renderText_paint s2 hs2 _ p1.wf t2 hw2 (by rw [hb2, hc2])
  have hg1 : (renderText (startCanvas inv w h shrink border, t1) s1).1.geo = tileGeo inv w h shrink border := by
    rw [p1.geo, hg]
  have hX8 : X < (renderText (startCanvas inv w h shrink border, t1) s1).1.geo.wib * 8 := by
    rw [hg1]; unfold tileGeo; simp only []; omega
  have hY' : Y < (renderText (startCanvas inv w h shrink border, t1) s1).1.geo.H := by rw [hg1]; exact hY
  rw [hg1] at p2
  by_cases hr : textR (tileGeo inv w h shrink border) t2 s2 X Y
  · have := p2.inside X Y hX8 hY' hr
    rw [this, hc2]
    have : (tileGeo inv w h shrink border).inv = inv := rfl
    rw [this]
    cases inv <;> simp [hr]
  · rw [p2.same X Y hX8 hY' hr, k1]
    simp [hr]

theorem lineHeight_small (t : TextSt) (h0 : 1 ≤ t.tsV) (h1 : t.tsV ≤ 4) :
    (lineHeight t : Int) = (t.fp.bbH : Int) * t.tsV := by
  obtain ⟨_, _, _, hall⟩ := font_tables_sized
  obtain ⟨_, _, hbb, _⟩ := hall t.font
  exact lineHeight_eq t (by omega) (by omega) (by unfold TextSt.fp; omega)

/-- **centre**, two-line format: each line whose text box fits the active area is centred to within one pixel -/
theorem centre_ok_fmt11 (inp : TileIn) (inv : Bool) (w h : Nat) (shrink border : Int) (hb : 0 ≤ border)
    (hf : inp.fmt = 11) (hprop : (inp.styling.getD {}).fixedWidth = false)
    (hsp : (inp.styling.getD {}).extraSp.emod 4 = 0)
    (hlf1 : 10 ∉ inp.line1) (hcr1 : 13 ∉ inp.line1) (he1 : edgeAlnum inp.line1 = true)
    (hlf2 : 10 ∉ inp.line2) (hcr2 : 13 ∉ inp.line2) (he2 : edgeAlnum inp.line2 = true)
    (hfit : TileTextFits inp inv w h shrink border) :
    Spec.Tile.centreOk (specCase inp inv w h shrink border) (getPx (renderTile inp inv w h shrink border)) = true := by
  obtain ⟨t1, t2, hops, hpt1, hst, hcx1, hcy1, hcx2, hcy2⟩ := tileAcc_fmt11 inp w h shrink border hf
  have hpt2 : PlainText inp t2 := hpt1.of_style hst
  have hrt : renderTile inp inv w h shrink border =
      (renderText ((renderText (startCanvas inv w h shrink border, t1) inp.line1).1, t2) inp.line2).1 := by
    rw [renderTile_start, hops]; rfl
  have hfit1 : inp.line1 ≠ [] → TextFits (tileGeo inv w h shrink border) t1 inp.line1 :=
    hfit t1 inp.line1 (by rw [hops]; simp)
  have hfit2 : inp.line2 ≠ [] → TextFits (tileGeo inv w h shrink border) t2 inp.line2 :=
    hfit t2 inp.line2 (by rw [hops]; simp)
  unfold Spec.Tile.centreOk
  rw [active_xy inp inv w h shrink border hb]
  have hcond : ((specCase inp inv w h shrink border).fmt = 10 ∨ (specCase inp inv w h shrink border).fmt = 11) ∧
      (specCase inp inv w h shrink border).proportional = true ∧ (specCase inp inv w h shrink border).extraSp.emod 4 = 0 ∧
      (specCase inp inv w h shrink border).noLF = true ∧ (specCase inp inv w h shrink border).edgeInk = true :=
    ⟨Or.inr hf, by unfold specCase; simp [hprop], hsp, rfl, rfl⟩
  rw [if_pos hcond]
  simp only []
  have hf' : ¬ (specCase inp inv w h shrink border).fmt = 10 := by
    show ¬ inp.fmt = 10
    omega
  rw [if_neg hf']
  have emid : border + (border + (activeWH w h shrink border).2 - border) / 2 = border + shr1 (activeWH w h shrink border).2 := by
    unfold shr1
    have : border + (activeWH w h shrink border).2 - border = (activeWH w h shrink border).2 := by omega
    rw [this]
  rw [emid]
  have lh1 := lineHeight_small t1 hpt1.tsV.1 hpt1.tsV.2
  have efp : t2.fp = t1.fp := by unfold TextSt.fp; rw [hst.font]
  have ebyy : (tileGeo inv w h shrink border).byy = border := rfl
  have key : ∀ X Y, X < w → Y < h → _ := fun X Y hX hY =>
    two_texts_on_start inv w h shrink border t1 t2 inp.line1 inp.line2 hlf1 hlf2 hpt1.wrap hpt1.tcol hpt1.tbg
      hpt2.wrap hpt2.tcol hpt2.tbg X Y hX hY
  rw [Bool.and_eq_true]
  constructor
  · refine band_centred inp inv w h shrink border hb _ _ _ t1 inp.line1 ?_ (by rw [hpt1.prop, hprop]; rfl)
      (by rw [hpt1.spacing, hsp]; rfl) hpt1.tsH hpt1.tsV.1 hcr1 he1 hfit1 hcx1
    intro X Y hX hY
    rw [hrt]
    unfold litIn
    simp only []
    constructor
    · rintro ⟨_, hlt, hl⟩
      rcases (key X Y hX hY).1 hl with hr | hr
      · exact hr
      · exfalso
        have := (textR_yrange _ _ t2 (by have := hpt2.tsV.1; omega) X Y hr).1
        rw [hcy2, ebyy] at this
        omega
    · intro hr
      have r1 := lit_rows inv w h shrink border X Y (textR_clip _ _ _ X Y hr)
      have r2 := (textR_yrange _ _ t1 (by have := hpt1.tsV.1; omega) X Y hr).2
      rw [hcy1, ebyy, lh1] at r2
      exact ⟨r1.1, by omega, (key X Y hX hY).2 (Or.inl hr)⟩
  · refine band_centred inp inv w h shrink border hb _ _ _ t2 inp.line2 ?_ (by rw [hpt2.prop, hprop]; rfl)
      (by rw [hpt2.spacing, hsp]; rfl) hpt2.tsH hpt2.tsV.1 hcr2 he2 hfit2 hcx2
    intro X Y hX hY
    rw [hrt]
    unfold litIn
    simp only []
    constructor
    · rintro ⟨hge, _, hl⟩
      rcases (key X Y hX hY).1 hl with hr | hr
      · exfalso
        have r2 := (textR_yrange _ _ t1 (by have := hpt1.tsV.1; omega) X Y hr).2
        rw [hcy1, ebyy, lh1] at r2
        omega
      · exact hr
    · intro hr
      have r1 := lit_rows inv w h shrink border X Y (textR_clip _ _ _ X Y hr)
      have r2 := (textR_yrange _ _ t2 (by have := hpt2.tsV.1; omega) X Y hr).1
      rw [hcy2, ebyy] at r2
      exact ⟨by omega, r1.2, (key X Y hX hY).2 (Or.inr hr)⟩


/-- the strings the one/two-line formats render -/
def plainStrings (inp : TileIn) : List (List Nat) := if inp.fmt = 10 then [inp.title] else [inp.line1, inp.line2]

/-- **centre** (`Spec.Tile.centreOk`): formats 10/11, proportional, no extra spacing; rendered strings without LF/CR
whose first and last characters are ASCII letters or digits (the Spec's `noLF`, `edgeInk`).  Hypothesis beyond the
Spec's own guard ("the observed ink is strictly inside the active area"): every rendered text box fits the active area
(`TileTextFits`) — hence `_partial`.  Then in every row band the first/last lit columns are exactly the ends of the text
box, and left and right margin differ by at most one pixel. -/
theorem centre_ok_partial (inp : TileIn) (inv : Bool) (w h : Nat) (shrink border : Int) (hb : 0 ≤ border)
    (hstr : ∀ s ∈ plainStrings inp, 10 ∉ s ∧ 13 ∉ s ∧ edgeAlnum s = true)
    (hfit : TileTextFits inp inv w h shrink border) :
    Spec.Tile.centreOk (specCase inp inv w h shrink border) (getPx (renderTile inp inv w h shrink border)) = true := by
  by_cases hcond : ((specCase inp inv w h shrink border).fmt = 10 ∨ (specCase inp inv w h shrink border).fmt = 11) ∧
      (specCase inp inv w h shrink border).proportional = true ∧ (specCase inp inv w h shrink border).extraSp.emod 4 = 0 ∧
      (specCase inp inv w h shrink border).noLF = true ∧ (specCase inp inv w h shrink border).edgeInk = true
  · obtain ⟨hfmt, hprop, hsp, _, _⟩ := hcond
    have hprop' : (inp.styling.getD {}).fixedWidth = false := by
      have : (!(inp.styling.getD {}).fixedWidth) = true := hprop
      simpa using this
    rcases hfmt with hf | hf
    · have hf' : inp.fmt = 10 := hf
      obtain ⟨a, b, c⟩ := hstr inp.title (by unfold plainStrings; rw [if_pos hf']; simp)
      exact centre_ok_fmt10 inp inv w h shrink border hb hf' hprop' hsp a b c hfit
    · have hf' : inp.fmt = 11 := hf
      have h10 : ¬ inp.fmt = 10 := by omega
      obtain ⟨a1, b1, c1⟩ := hstr inp.line1 (by unfold plainStrings; rw [if_neg h10]; simp)
      obtain ⟨a2, b2, c2⟩ := hstr inp.line2 (by unfold plainStrings; rw [if_neg h10]; simp)
      exact centre_ok_fmt11 inp inv w h shrink border hb hf' hprop' hsp a1 b1 c1 a2 b2 c2 hfit
  · unfold Spec.Tile.centreOk
    rw [if_neg hcond]

/-- **all clauses of `Spec.Tile.check` together** for a rendering and its inverted twin (determinism holds by
construction: `renderTile` is a function), under the hypotheses of `centre_ok_partial` -/
theorem tile_check_partial (inp : TileIn) (inv : Bool) (w h : Nat) (shrink border : Int) (hb : 0 ≤ border)
    (hstr : ∀ s ∈ plainStrings inp, 10 ∉ s ∧ 13 ∉ s ∧ edgeAlnum s = true)
    (hfit : TileTextFits inp inv w h shrink border) :
    Spec.Tile.check (specCase inp inv w h shrink border)
      (renderTile inp inv w h shrink border).geo.W (renderTile inp inv w h shrink border).geo.H
      (renderTile inp inv w h shrink border).bytes.size (renderTile inp (!inv) w h shrink border).bytes.size
      (getPx (renderTile inp inv w h shrink border)) (getPx (renderTile inp (!inv) w h shrink border))
      (tileColours inp).1 (tileColours inp).2 true = none := by
  have s1 := tile_size_ok inp inv w h shrink border
  have s2 := (tile_size_ok inp (!inv) w h shrink border).1.2.2
  simp only [] at s1
  have hsz : (renderTile inp (!inv) w h shrink border).bytes.size = (renderTile inp inv w h shrink border).bytes.size := by
    rw [s2, s1.1.2.2]
  unfold Spec.Tile.check
  rw [hsz, s1.2, tile_active_ok, tile_inversion_ok, tile_colours_ok, centre_ok_partial inp inv w h shrink border hb hstr hfit]
  rfl

/-- the text operations of an operation list (decidable view used by the examples) -/
def textOf : DOp → Option (TextSt × List Nat)
  | .text t s => some (t, s)
  | _ => none

/-- non-vacuity (one line): "Ab1" on a 64×32 tile: box at x = 24, width 15 (margins 24 / 25), y = 12, height 8 -/
example :
    let inp : TileIn := { fmt := 10, title := [65, 98, 49] }
    (∀ s ∈ plainStrings inp, 10 ∉ s ∧ 13 ∉ s ∧ edgeAlnum s = true) ∧ TileTextFits inp false 64 32 0 0 := by
  refine ⟨by decide, ?_⟩
  intro t s hm _
  have hops : (tileAcc { fmt := 10, title := [65, 98, 49] } ((64 : Nat) : Int) ((32 : Nat) : Int) 0 0).ops.toList.map textOf =
      [some ({ font := 0, prop := true, spacing := 0, cx := 24, cy := 12, tcol := true, tbg := true, tsH := 1,
               tsV := 1, wrap := false }, [65, 98, 49])] := by decide +kernel
  have := List.mem_map_of_mem (f := textOf) hm
  rw [hops] at this
  simp only [textOf, List.mem_singleton, Option.some.injEq, Prod.mk.injEq] at this
  obtain ⟨rfl, rfl⟩ := this
  constructor <;> decide +kernel

/-- non-vacuity (two lines, size 2, width shrunk by one): "Hi" / "7xZ" on a 64×32 tile -/
example :
    let inp : TileIn := { fmt := 11, line1 := [72, 105], line2 := [55, 120, 90], styling := some { unfSize := 2 } }
    (∀ s ∈ plainStrings inp, 10 ∉ s ∧ 13 ∉ s ∧ edgeAlnum s = true) ∧ TileTextFits inp true 64 32 1 0 := by
  refine ⟨by decide, ?_⟩
  intro t s hm _
  have hops : (tileAcc { fmt := 11, line1 := [72, 105], line2 := [55, 120, 90], styling := some { unfSize := 2 } }
      ((64 : Nat) : Int) ((32 : Nat) : Int) 1 0).ops.toList.map textOf =
      [some ({ font := 0, prop := true, spacing := 0, cx := 22, cy := 0, tcol := true, tbg := true, tsH := 2,
               tsV := 2, wrap := false }, [72, 105]),
       some ({ font := 0, prop := true, spacing := 0, cx := 14, cy := 16, tcol := true, tbg := true, tsH := 2,
               tsV := 2, wrap := false }, [55, 120, 90])] := by decide +kernel
  have := List.mem_map_of_mem (f := textOf) hm
  rw [hops] at this
  simp only [textOf, List.mem_cons, Option.some.injEq, Prod.mk.injEq, List.mem_nil_iff, or_false] at this
  rcases this with ⟨rfl, rfl⟩ | ⟨rfl, rfl⟩ <;> constructor <;> decide +kernel

end RawPanelVerif.C18
