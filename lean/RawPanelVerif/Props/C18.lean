import RawPanelVerif.Props.C16
import RawPanelVerif.Props.C17
import RawPanelVerif.Lemmas.MonoCompl
import RawPanelVerif.Model.Tile
import RawPanelVerif.Model.TileObs
import RawPanelVerif.Spec.TileSpec
import RawPanelVerif.Lemmas.TileBar
import RawPanelVerif.Lemmas.TileCentre
import RawPanelVerif.Lemmas.TileFits
import RawPanelVerif.Lemmas.TileWide
import RawPanelVerif.Lemmas.TileArg
import RawPanelVerif.Lemmas.TileWork
import RawPanelVerif.Lemmas.TileWorkLower
import RawPanelVerif.Lemmas.TileBarCover
/-!
# C18 — Tile rendering is total, deterministic, clipped and inversion-exact

`Tile.renderTile` is the model of `WriteDisplayTileNew` (validated against the real renderer on every run); it is a
function of the text state and the geometry, hence deterministic by construction (the harness renders every state in
the order A, B, C, A, B, C — B, C = the same state in the other font faces — and compares; compares with a rendering by a
fresh process; and renders the state before and after a *sibling* state with absent sub-messages was rendered and every
field of the sub-messages the renderer filled into it was then edited by its owner: `fillNil` gives each filled state its
own empty sub-messages, `tile_argument_ok`, so nothing a caller writes there can reach another state).
For **every** text state (any formatting value, pair mode, icons, scale, fonts, sizes, strings, integers, colours, absent
sub-messages) and every geometry (any `w, h ≥ 0`, any integer shrink / border):

* `tile_total`       **no panic**: the checked form of the whole call (`Model/TileChecked.lean`: every slice access of
                     the layout — 19-entry colour table, 7-entry icon table, font tables through `StrWidth`/`RenderText` —
                     and of the drawing of every emitted operation — canvas bytes, font tables, bitmap slices,
                     `Mono.applyOpC` — is `[i]?`) returns `some` of the plain model's canvas and colours, after at most
                     `tileWork` loop iterations.  Parts: `tile_layout_total`, `colour_index_guarded`, `icon_index_guarded`;
                     `colour_index_pinned_counterexample`: the pinned tree read the table before the length test
                     (index colours 19..31 panic; fixed by `fix:` 75f1773).  Strings are ranged over, never indexed.
* `tile_work_bound`  **no hang**: with `TitleBarPadding ≤ 3` (documented 2-bit range) one call executes at most
                     `w·(1+h) + 1522·L + 62·w + 900` loop iterations (`L` = length of all rendered strings), counted by the
                     tick counter of the checked mono model.  `tile_work_padding_witness`: the field is used unmasked —
                     `TitleBarPadding = 10^9` on a 64×32 tile costs more than 10^11 iterations: the clause holds on the
                     documented range only.
* `tile_size_ok`     the image has exactly the requested size (clause `size`)
* `tile_active_ok`   outside the active area left by shrink and border every pixel has the blank value (clause `active`)
* `tile_inversion_ok` rendering the same state inverted yields exactly the complement over the tile (clause `inversion`):
                     the operation list does not depend on `Inverted`, every operation maps complementary canvases to
                     complementary canvases (Lemmas/MonoCompl.lean)
* `tile_colours_ok`  the RGB565 pixel/background colours are the requested ones (clause `colours`).  The Spec side is
                     written from the protocol: band table for RGB channels (`mapConstrain_q2`: the code's
                     truncating-division-and-clamp is that table for every integer), `[k]?` look-up in the regenerated
                     colour table with `DEFAULT` for indices beyond it (`color6_idx`), documented 5/6/5 expansion
                     (`color565_eq`)
* `tile_export`      the same claim on the bytes `GetImgSliceRGB` returns (clause `export`), composed with C17's
                     `sliceRGB_size` / `sliceRGB_pixel` (the halves of `C17.export_holds`): `2·w·h` bytes, every pixel's
                     big-endian word is the requested pixel / background colour according to its bit
* `tile_argument_ok` the argument after the call (`fillNil`: absent `TextStyling`, its two fonts, `Scale` become empty
                     messages) differs from the argument before it only by absent → empty (clause `argument`);
                     `tile_argument_idempotent`; `tile_second_call_same`: rendering the mutated argument again gives the
                     same image, colours and export
* `box_centred_within_one`  the one/two-line centring arithmetic: a box that fits is centred to within one pixel
* `centre_ok`        clause `centre` (`Spec.Tile.centreOk`), **no hypothesis beyond the Spec's own domain** (rendered
                     strings without LF/CR and with alphanumeric first/last character): the Spec's guard — formats 10/11,
                     proportional, no extra spacing, border ≥ 0, the line(s) fit the active height (`fitsV`, measured
                     with the renderer's own `LineHeight()`, which the harness prints and the model reproduces) — yields
                     `linesFit` on the inputs (`vfits_of_arith`); then a text that fits horizontally (`fits_of_arith`:
                     `StrWidth ≤ activeWidth` puts the text box inside the active area) has its ink ends exactly at the box
                     ends (`text_ink_extent`, from `edge_facts*` over the regenerated font tables; `centre_ok_partial`), and
                     a text that is too wide gets the left margin 0 and shows nothing or ink in the left-most active
                     column (`text_left_touch`, Lemmas/TileWide.lean), where the clause — about ink strictly inside the
                     active area — demands nothing (`centre_ok_vpartial`).  `tile_check`: all clauses of
                     `Spec.Tile.check` together.
                     `centre_needs_vertical_fit_counterexample`: the vertical-fit guard (added in this round; the property
                     text says "fits … horizontally and vertically") is needed: two lines on a 64×4 tile, second line
                     "j": only the dot is visible, strictly inside, margins 33 / 30 — reproduced on the real renderer.
* `bar_monotone`     clause `bar` (`Spec.Tile.checkBar`): scale type 1, positive range (`0 < int32(RangeHigh-RangeLow)`),
                     value text unchanged (`bar_monotone_hidden`: hidden), `v1 ≤ v2`, everything else equal, for **all**
                     integers / ranges / geometries: no pixel lit at `v1` is dark at `v2` (Lemmas/DblMono.lean: the
                     correctly rounded binary64 operations are monotone; Lemmas/MonoSub.lean, Lemmas/TileBar.lean).
                     `bar_reversed_range_counterexample`: the range hypothesis is needed.
* `bar_covered`      the same for a value text that **changes** with the value, stated on the bar section only: everything
                     the scale section draws at `v1` (`barLayer`) is lit in the image at `v2` (`bar_layer_monotone` +
                     `bar_layer_in_image`: the operation list is `pre ++ barOps ++ post` and `post` only writes the
                     foreground colour unless a late `drawAllPixels` icon is shown — Lemmas/TileBarCover.lean,
                     Lemmas/TileGrow.lean)
* `bar_span_monotone` all scale types (1 bar, 2 marker, 3 centred bar): the rectangle the scale section fills
                     (`barSpan`, `bar_span_drawn`) never moves left when the value grows (both edges monotone)

Not proved at image level: monotonicity of the *lit set* for scale types 2 and 3 (the marker / the left half of the
centred bar legitimately go dark when the value grows; `bar_span_monotone` is the statement that is true of them).
-/
namespace RawPanelVerif.C18
open RawPanelVerif RawPanelVerif.Mono RawPanelVerif.Tile RawPanelVerif.C16 RawPanelVerif.C20

/-- any sequence of drawing operations only touches the clip rectangle -/
theorem draws_touch (ops : List Op) (hd : ∀ op ∈ ops, Op.isDraw op = true) (c : Canvas) (hwf : c.WF) :
    Touch (clipR c.geo) c (ops.foldl applyOp c) := by
  induction ops generalizing c with
  | nil => exact Touch.refl _ c hwf
  | cons op ops ih =>
    rw [List.foldl_cons]
    have t1 : Touch (clipR c.geo) c (applyOp c op) :=
      (applyOp_touch c hwf op (hd op (by simp))).mono (fun X Y hr => (clip_iff _ _ _).1 hr.1)
    have t2 := ih (fun o ho => hd o (by simp [ho])) (applyOp c op) t1.wf
    rw [t1.geo] at t2
    exact t1.trans t2

theorem layoutOps_draw (inp : TileIn) (w h s b : Int) : ∀ op ∈ layoutOps inp w h s b, Op.isDraw op = true := by
  intro op hop
  unfold layoutOps at hop
  simp only [List.mem_map] at hop
  obtain ⟨d, _, rfl⟩ := hop
  cases d <;> rfl

/-- the canvas after `InvertPixels` + black-out: well-formed and every visible pixel blank -/
theorem blackout (w h : Nat) (inv : Bool) :
    let c1 := applyOp (invertPixels (newCanvas w h) inv) (.frect 0 0 w h false)
    c1.WF ∧ c1.geo = (invertPixels (newCanvas w h) inv).geo ∧
      ∀ X Y, X < w → Y < h → getPx c1 X Y = inv := by
  have hwf : (invertPixels (newCanvas w h) inv).WF := by
    have := newCanvas_wf w h
    unfold invertPixels Canvas.WF at *; simpa using this
  have hp := fillRect_paint (invertPixels (newCanvas w h) inv) hwf 0 0 w h false
  refine ⟨hp.wf, hp.geo, ?_⟩
  intro X Y hX hY
  have hg : (invertPixels (newCanvas w h) inv).geo =
      { W := w, H := h, wib := (w + 7) / 8, bx := 0, byy := 0, bw := w, bh := h, inv := inv } := rfl
  have := hp.inside X Y (by rw [hg]; simp only []; omega) (by rw [hg]; exact hY) (by
    rw [hg]
    refine ⟨?_, by simp, by simp; omega, by simp, by simp; omega⟩
    unfold clipR inClip xMin yMin wMax hMax
    simp only []
    refine ⟨by simp, by simp, ?_, ?_⟩ <;> split <;> omega)
  rw [hg] at this
  simpa [applyOp] using this

def specCase (inp : TileIn) (inv : Bool) (w h : Nat) (shrink border : Int) : Spec.Tile.Case :=
  { w := w, h := h, shrink := shrink, border := border, inverted := inv, fmt := inp.fmt,
    proportional := !(inp.styling.getD {}).fixedWidth, extraSp := (inp.styling.getD {}).extraSp,
    noLF := true, edgeInk := true,
    pix := inp.pix.map (fun c => match c with | .rgb r g b => .rgb r g b | .idx i => .idx i | .empty => .empty),
    bg := inp.bg.map (fun c => match c with | .rgb r g b => .rgb r g b | .idx i => .idx i | .empty => .empty) }

theorem inClip_linear {g : Geom} {X Y : Int} (h : inClip g X Y) :
    g.bx ≤ X ∧ g.byy ≤ Y ∧ 0 ≤ X ∧ 0 ≤ Y ∧ X < g.bw + g.bx ∧ Y < g.bh + g.byy ∧ X < g.W ∧ Y < g.H := by
  obtain ⟨h1, h2, h3, h4⟩ := h
  unfold xMin at h1; unfold yMin at h2; unfold wMax at h3; unfold hMax at h4
  split at h1 <;> split at h2 <;> split at h3 <;> split at h4 <;> omega

/-- the clip rectangle set by the renderer lies inside the active area the property names -/
theorem clip_sub_active (inp : TileIn) (inv : Bool) (w h : Nat) (shrink border : Int) (X Y : Nat)
    (hc : inClip { W := w, H := h, wib := (w + 7) / 8, bx := border, byy := border,
                   bw := (activeWH w h shrink border).1, bh := (activeWH w h shrink border).2, inv := inv } X Y) :
    Spec.Tile.inActive (specCase inp inv w h shrink border) X Y = true := by
  obtain ⟨q1, q2, q3, q4, q5, q6, q7, q8⟩ := inClip_linear hc
  simp only [] at q1 q2 q3 q4 q5 q6 q7 q8
  unfold Spec.Tile.inActive Spec.Tile.active specCase
  unfold activeWH qint at q5 q6
  simp only [] at q5 q6 ⊢
  by_cases hb : border > 0
  · simp only [hb, if_true, decide_true, reduceIte] at q5 q6 ⊢
    simp only [Bool.and_eq_true, decide_eq_true_eq]
    omega
  · simp only [hb, if_false, decide_false, Bool.false_eq_true, reduceIte] at q5 q6 ⊢
    by_cases s1 : shrink.emod 2 = 1 <;> by_cases s2 : shrink.emod 4 / 2 = 1 <;>
      simp only [s1, s2, if_true, if_false, decide_true, decide_false, Bool.false_eq_true, reduceIte] at q5 q6 ⊢ <;>
      simp only [Bool.and_eq_true, decide_eq_true_eq] <;> omega

theorem renderTile_unfold (inp : TileIn) (inv : Bool) (w h : Nat) (shrink border : Int) :
    renderTile inp inv w h shrink border =
      (layoutOps inp w h shrink border).foldl applyOp
        (setBoundingBox (applyOp (invertPixels (newCanvas w h) inv) (.frect 0 0 w h false)) border border
          (activeWH w h shrink border).1 (activeWH w h shrink border).2) := by
  unfold renderTile tileOps
  simp only [List.foldl_cons]
  rfl

/-- **size**: the image has exactly the requested width, height and buffer size -/
theorem tile_size_ok (inp : TileIn) (inv : Bool) (w h : Nat) (shrink border : Int) :
    let c := renderTile inp inv w h shrink border
    (c.geo.W = w ∧ c.geo.H = h ∧ c.bytes.size = ((w + 7) / 8) * h) ∧
    Spec.Tile.sizeOk (specCase inp inv w h shrink border) c.geo.W c.geo.H c.bytes.size c.bytes.size = true := by
  rw [renderTile_unfold]
  obtain ⟨hwf1, hg1, _⟩ := blackout w h inv
  generalize hc1 : applyOp (invertPixels (newCanvas w h) inv) (.frect 0 0 w h false) = c1 at hwf1 hg1
  have hwf2 : (setBoundingBox c1 border border (activeWH w h shrink border).1 (activeWH w h shrink border).2).WF := by
    unfold setBoundingBox Canvas.WF at *; simpa using hwf1
  have t := draws_touch _ (layoutOps_draw inp w h shrink border) _ hwf2
  have hgeo := t.geo
  have hsz : (List.foldl applyOp (setBoundingBox c1 border border (activeWH w h shrink border).1 (activeWH w h shrink border).2)
      (layoutOps inp w h shrink border)).bytes.size = ((w + 7) / 8) * h := by
    rw [t.size]
    show c1.bytes.size = _
    rw [← hc1]
    have hwf0 : (invertPixels (newCanvas w h) inv).WF := by
      have := newCanvas_wf w h
      unfold invertPixels Canvas.WF at *; simpa using this
    exact (fillRect_paint (invertPixels (newCanvas w h) inv) hwf0 0 0 w h false).size.trans
      (by simp [invertPixels, newCanvas])
  have hW : (setBoundingBox c1 border border (activeWH w h shrink border).1 (activeWH w h shrink border).2).geo.W = w := by
    unfold setBoundingBox; simp only []; rw [hg1]; rfl
  have hH : (setBoundingBox c1 border border (activeWH w h shrink border).1 (activeWH w h shrink border).2).geo.H = h := by
    unfold setBoundingBox; simp only []; rw [hg1]; rfl
  have hwib : (setBoundingBox c1 border border (activeWH w h shrink border).1 (activeWH w h shrink border).2).geo.wib = (w + 7) / 8 := by
    unfold setBoundingBox; simp only []; rw [hg1]; rfl
  simp only []
  rw [hgeo, hW, hH, hsz]
  refine ⟨⟨rfl, rfl, rfl⟩, ?_⟩
  unfold Spec.Tile.sizeOk Spec.Tile.wib specCase
  simp

/-- **active**: outside the active area left by shrink and border every visible pixel keeps the blank value -/
theorem tile_active_ok (inp : TileIn) (inv : Bool) (w h : Nat) (shrink border : Int) :
    Spec.Tile.activeOk (specCase inp inv w h shrink border) (getPx (renderTile inp inv w h shrink border)) = true := by
  rw [renderTile_unfold]
  obtain ⟨hwf1, hg1, hblank⟩ := blackout w h inv
  generalize hc1 : applyOp (invertPixels (newCanvas w h) inv) (.frect 0 0 w h false) = c1 at hwf1 hg1 hblank
  generalize haw : (activeWH w h shrink border).1 = aw
  generalize hah : (activeWH w h shrink border).2 = ah
  have hwf2 : (setBoundingBox c1 border border aw ah).WF := by
    unfold setBoundingBox Canvas.WF at *; simpa using hwf1
  have t := draws_touch _ (layoutOps_draw inp w h shrink border) _ hwf2
  have hg2 : (setBoundingBox c1 border border aw ah).geo =
      { W := w, H := h, wib := (w + 7) / 8, bx := border, byy := border, bw := aw, bh := ah, inv := inv } := by
    unfold setBoundingBox; simp only []; rw [hg1]; rfl
  unfold Spec.Tile.activeOk
  rw [List.all_eq_true]
  intro p hp
  have hpx : p.1 < w ∧ p.2 < h := by
    unfold Spec.Tile.pixels specCase at hp
    simp only [List.mem_flatMap, List.mem_range, List.mem_map] at hp
    obtain ⟨Y, hY, X, hX, rfl⟩ := hp
    exact ⟨hX, hY⟩
  cases hin : Spec.Tile.inActive (specCase inp inv w h shrink border) p.1 p.2 with
  | true => simp
  | false =>
    simp only [Bool.false_or, beq_iff_eq]
    have hnc : ¬ clipR (setBoundingBox c1 border border aw ah).geo p.1 p.2 := by
      intro hc
      rw [hg2] at hc
      have := clip_sub_active inp inv w h shrink border p.1 p.2 (by rw [haw, hah]; exact hc)
      rw [this] at hin; exact absurd hin (by simp)
    have hX2 : p.1 < (setBoundingBox c1 border border aw ah).geo.wib * 8 := by rw [hg2]; simp only []; omega
    have hY2 : p.2 < (setBoundingBox c1 border border aw ah).geo.H := by rw [hg2]; exact hpx.2
    rw [t.same p.1 p.2 hX2 hY2 hnc]
    have : getPx (setBoundingBox c1 border border aw ah) p.1 p.2 = getPx c1 p.1 p.2 := by
      unfold getPx setBoundingBox; simp
    rw [this, hblank p.1 p.2 hpx.1 hpx.2]
    rfl

/-- after the black-out the two renderings (not inverted / inverted) are complementary -/
theorem blackout_compl (w h : Nat) :
    Compl (applyOp (invertPixels (newCanvas w h) false) (.frect 0 0 w h false))
          (applyOp (invertPixels (newCanvas w h) true) (.frect 0 0 w h false)) := by
  obtain ⟨wf0, g0, b0⟩ := blackout w h false
  obtain ⟨wf1, g1, b1⟩ := blackout w h true
  refine ⟨wf0, wf1, ?_, ?_⟩
  · rw [g1, g0]; rfl
  · intro X Y hX hY
    rw [g0] at hX hY
    rw [b0 X Y hX hY, b1 X Y hX hY]; rfl

/-- **inversion**: the inverted rendering is exactly the complement of the non-inverted one over the whole tile -/
theorem tile_inversion_ok (inp : TileIn) (inv : Bool) (w h : Nat) (shrink border : Int) :
    Spec.Tile.inversionOk (specCase inp inv w h shrink border)
      (getPx (renderTile inp inv w h shrink border)) (getPx (renderTile inp (!inv) w h shrink border)) = true := by
  have key : Compl (renderTile inp false w h shrink border) (renderTile inp true w h shrink border) := by
    unfold renderTile tileOps
    simp only [List.foldl_cons]
    refine foldl_compl _ ?_ _ _ (setBoundingBox_compl (blackout_compl w h) _ _ _ _)
    intro op hop b
    have := layoutOps_draw inp w h shrink border op hop
    intro e; subst e; simp [Op.isDraw] at this
  have hW : (renderTile inp false w h shrink border).geo.W = w := (tile_size_ok inp false w h shrink border).1.1
  have hH : (renderTile inp false w h shrink border).geo.H = h := (tile_size_ok inp false w h shrink border).1.2.1
  unfold Spec.Tile.inversionOk
  rw [List.all_eq_true]
  intro p hp
  have hpx : p.1 < w ∧ p.2 < h := by
    unfold Spec.Tile.pixels specCase at hp
    simp only [List.mem_flatMap, List.mem_range, List.mem_map] at hp
    obtain ⟨Y, hY, X, hX, rfl⟩ := hp
    exact ⟨hX, hY⟩
  have hv := key.vis p.1 p.2 (by rw [hW]; exact hpx.1) (by rw [hH]; exact hpx.2)
  cases inv
  · simp only [Bool.not_false]; rw [hv]; cases getPx (renderTile inp false w h shrink border) p.1 p.2 <;> rfl
  · simp only [Bool.not_true]; rw [hv]; cases getPx (renderTile inp false w h shrink border) p.1 p.2 <;> rfl

/-- the centring rule of formats 10/11: for a text box of width `sw` that fits (`0 ≤ sw ≤ aw`) the left margin
`xOffset` and the right margin `aw - sw - xOffset` differ by at most one pixel -/
theorem box_centred_within_one (aw sw : Int) (h0 : 0 ≤ sw) (h1 : sw ≤ aw) :
    let xOffset := shr1 (Tile.constrain (aw - sw) 0 aw)
    let left := xOffset
    let right := aw - sw - xOffset
    left ≤ right ∧ right ≤ left + 1 ∧ 0 ≤ left := by
  unfold shr1 Tile.constrain
  simp only []
  split
  · omega
  · split <;> omega


/-! ## colours -/

theorem t5_eq (x : Int) (h0 : 0 ≤ x) (h1 : x < 4) :
    x * 31 / 3 % 32 = (if x = 0 then 0 else if x = 1 then 10 else if x = 2 then 20 else 31) := by
  have : x = 0 ∨ x = 1 ∨ x = 2 ∨ x = 3 := by omega
  rcases this with h | h | h | h <;> subst h <;> decide

theorem t6_eq (x : Int) (h0 : 0 ≤ x) (h1 : x < 4) :
    x * 63 / 3 % 64 = (if x = 0 then 0 else if x = 1 then 21 else if x = 2 then 42 else 63) := by
  have : x = 0 ∨ x = 1 ∨ x = 2 ∨ x = 3 := by omega
  rcases this with h | h | h | h <;> subst h <;> decide

/-- the setters' `MapValue` arithmetic is the documented 2-bit → 5/6/5-bit expansion, for every 6-bit (indeed every) code -/
theorem color565_eq (c : Int) : color565 c = Spec.Tile.c565 c := by
  unfold color565 Spec.Tile.c565
  simp only []
  rw [t5_eq (c / 16 % 4) (Int.emod_nonneg _ (by omega)) (Int.emod_lt_of_pos _ (by omega)),
      t6_eq (c / 4 % 4) (Int.emod_nonneg _ (by omega)) (Int.emod_lt_of_pos _ (by omega)),
      t5_eq (c % 4) (Int.emod_nonneg _ (by omega)) (Int.emod_lt_of_pos _ (by omega))]

/-- `MapAndConstrainValue(x, 0, 255, 0, 3)` (truncating division, then clamping) is the Spec's band table
0-84, 85-169, 170-254, 255.. → 0,1,2,3, for every integer `x` (negative and beyond 255 included) -/
theorem mapConstrain_q2 (x : Int) : mapConstrain x 0 255 0 3 = Spec.Tile.q2 x := by
  unfold mapConstrain Tile.constrain Spec.Tile.q2
  simp only [Int.sub_zero, Int.add_zero]
  by_cases hx : 0 ≤ x
  · rw [Int.tdiv_eq_ediv_of_nonneg (by omega)]
    repeat' split
    all_goals omega
  · have e : (x * 3).tdiv 255 = -((-(x * 3)) / 255) := by
      rw [← Int.tdiv_eq_ediv_of_nonneg (by omega), Int.neg_tdiv, Int.neg_neg]
    rw [e]
    repeat' split
    all_goals omega

theorem q2_range (x : Int) : 0 ≤ Spec.Tile.q2 x ∧ Spec.Tile.q2 x ≤ 3 := by
  unfold Spec.Tile.q2
  repeat' split
  all_goals omega

def specCol : Col → Spec.Tile.Col
  | .rgb r g b => .rgb r g b
  | .idx i => .idx i
  | .empty => .empty

/-- the guarded table access of `convertToColorRGB16bit` (length test, then index; default entry 0) reads the same
entry as the Spec's `[k]?` look-up with default — for every index, with whatever table the extractor regenerated
(only the closed fact "the table has an entry 0" is evaluated) -/
theorem color6_idx (i : Int) : color6 (.idx i) = Spec.Tile.colour6 (.idx i) := by
  unfold color6 Spec.Tile.colour6 Spec.Tile.tableEntry
  simp only []
  generalize (i.emod 32).toNat = k
  by_cases hk : k < Gen.buttonColors.size
  · rw [if_pos hk, Array.getD_eq_getD_getElem?, Array.getElem?_eq_getElem hk]
    simp
  · rw [if_neg hk, Array.getElem?_eq_none (by omega)]
    simp only [Option.map_none]
    decide

theorem color6_eq (c : Col) : color6 c = Spec.Tile.colour6 (specCol c) := by
  cases c with
  | rgb r g b =>
    unfold color6 Spec.Tile.colour6 specCol u32
    simp only []
    rw [mapConstrain_q2 r, mapConstrain_q2 g, mapConstrain_q2 b]
    obtain ⟨l1, u1⟩ := q2_range r
    obtain ⟨l2, u2⟩ := q2_range g
    obtain ⟨l3, u3⟩ := q2_range b
    generalize Spec.Tile.q2 r = a at *
    generalize Spec.Tile.q2 g = bb at *
    generalize Spec.Tile.q2 b = cc at *
    have h1 : a.emod 4 = a := Int.emod_eq_of_lt l1 (by omega)
    have h2 : bb.emod 4 = bb := Int.emod_eq_of_lt l2 (by omega)
    have h3 : cc.emod 4 = cc := Int.emod_eq_of_lt l3 (by omega)
    rw [h1, h2, h3]
    have h4 : (a * 16).emod 4294967296 = a * 16 := Int.emod_eq_of_lt (by omega) (by omega)
    have h5 : (bb * 4).emod 4294967296 = bb * 4 := Int.emod_eq_of_lt (by omega) (by omega)
    have h6 : cc.emod 4294967296 = cc := Int.emod_eq_of_lt (by omega) (by omega)
    rw [h4, h5, h6]
  | idx i => exact color6_idx i
  | empty => rfl

/-- **colours**: the RGB565 pixel / background colours of the returned image are the ones the state requests -/
theorem tile_colours_ok (inp : TileIn) (inv : Bool) (w h : Nat) (shrink border : Int) :
    Spec.Tile.coloursOk (specCase inp inv w h shrink border) (tileColours inp).1 (tileColours inp).2 = true := by
  unfold Spec.Tile.coloursOk Spec.Tile.expectedColours tileColours specCase
  simp only [beq_iff_eq, Prod.mk.injEq]
  constructor
  · cases hp : inp.pix with
    | none => rfl
    | some c => simp only [Option.map_some]; rw [color565_eq, color6_eq]; cases c <;> rfl
  · cases hp : inp.bg with
    | none => rfl
    | some c => simp only [Option.map_some]; rw [color565_eq, color6_eq]; cases c <;> rfl

/-! ## total: no panic, no hang -/

/-- **no panic in the layout**: the checked layout (`Model/TileChecked.lean`: font tables, icon table read with `[i]?`)
returns what the plain model computes, for every text state — absent sub-messages, formats beyond 12, any strings,
any integers — and every geometry -/
theorem tile_layout_total (inp : TileIn) (width height shrink border : Int) :
    tileAccC inp width height shrink border = some (tileAcc inp width height shrink border) :=
  tileAccC_eq inp width height shrink border

/-- **no panic in the colour conversion**: the 19-entry table is read only below its length (the code after `fix:`
75f1773), entry 0 exists — for all index colours (incl. 19..31 and beyond), all RGB values -/
theorem colour_index_guarded (c : Col) : color6C c = some (color6 c) := color6C_eq c

/-- the modifier icon table is indexed only with 0..6 and has 7 entries -/
theorem icon_index_guarded : Gen.icons8by8.size = 7 ∧
    ∀ m : Int, m ≥ 1 ∧ m ≤ 7 → iconBytesC (m - 1).toNat = some (iconBytes (m - 1).toNat) := by
  refine ⟨by decide, fun m hm => ?_⟩
  have := icon_guard m (fun b => b) #[]
  rw [if_pos hm, if_pos hm] at this
  simpa using this

/-- The pinned tree evaluated `buttonColors[index]` before the length test (`su.Qint` is strict in both arguments):
for index colours 19..31 the access is out of range in a table of 19 entries — a panic. -/
theorem colour_index_pinned_counterexample :
    Gen.buttonColors.size = 19 ∧ ∀ i : Int, 19 ≤ i.emod 32 → color6Pinned (.idx i) = none :=
  ⟨by decide, color6Pinned_panics⟩

/-- **total** (`tile_total`): for every text state, every tile size `w, h ≥ 0` and every shrink / border, the whole
checked call — `NewImage`, the two colour conversions, black-out, bounding box, layout, and the drawing of every emitted
operation with every canvas / font-table / bitmap access checked (`Mono.applyOpC`) — ends without a panic, with the canvas
and colours of the plain model, after at most `tileWork` loop iterations.  (A negative size is outside the domain:
`renderTileC_negative`, `make` panics.) -/
theorem tile_total (inp : TileIn) (inv : Bool) (w h : Nat) (shrink border : Int) :
    ∃ k, renderTileC inp inv w h shrink border = some (renderTile inp inv w h shrink border, tileColours inp, k) ∧
      k ≤ tileWork inp w h shrink border :=
  renderTileC_eq inp inv w h shrink border

/-- **no hang** (`tile_work_bound`): with `TitleBarPadding ≤ 3` (its documented 2-bit range) the number of loop
iterations of one call is at most `w·(1+h) + 1522·L + 62·w + 900`, `L` = total length of the rendered strings (title,
two label lines, the two formatted values, twice "1/") — for every other field of the state unrestricted -/
theorem tile_work_bound (inp : TileIn) (inv : Bool) (w h : Nat) (shrink border : Int)
    (hp : (inp.styling.getD {}).titlePad ≤ 3) :
    ∃ k, renderTileC inp inv w h shrink border = some (renderTile inp inv w h shrink border, tileColours inp, k) ∧
      k ≤ w * (1 + h) + 1522 * textLen inp + 62 * w + 900 := by
  obtain ⟨k, e, b⟩ := renderTileC_eq inp inv w h shrink border
  exact ⟨k, e, Nat.le_trans b (tileWork_le inp w h shrink border hp)⟩

/-- the fields of a filled-round-rectangle operation -/
def frOf : Op → Option (Int × Int × Int × Int × Int × Bool)
  | .frrect x y w h r c => some (x, y, w, h, r, c)
  | _ => none

theorem frOf_some {op : Op} {x y w h r : Int} {c : Bool} (e : frOf op = some (x, y, w, h, r, c)) : op = .frrect x y w h r c := by
  cases op <;> simp [frOf] at e
  obtain ⟨rfl, rfl, rfl, rfl, rfl, rfl⟩ := e
  rfl

/-- **where the domain ends**: `TitleBarPadding` is used unmasked.  For the 64×32 tile with a solid title bar and
`TitleBarPadding = 1 000 000 000` (a legal `uint32`, outside the documented 0..3) the title box is 2 000 000 007 rows
high and the call executes more than 10^11 loop iterations (every row is visited and clipped away pixel by pixel):
the "no hang" clause holds on the documented range only. -/
theorem tile_work_padding_witness :
    ∃ k c cols, renderTileC { title := [65], solid := true, styling := some { titlePad := 1000000000 } } false 64 32 0 0 =
      some (c, cols, k) ∧ 100000000000 ≤ k := by
  obtain ⟨k, e, _⟩ := renderTileC_eq { title := [65], solid := true, styling := some { titlePad := 1000000000 } } false 64 32 0 0
  refine ⟨k, _, _, e, ?_⟩
  have hops : (tileOps { title := [65], solid := true, styling := some { titlePad := 1000000000 } } ((64 : Nat) : Int)
      ((32 : Nat) : Int) 0 0).filterMap frOf = [(0, 0, 64, 2000000007, 1, true)] := by decide +kernel
  have hm : Op.frrect 0 0 64 2000000007 1 true ∈
      tileOps { title := [65], solid := true, styling := some { titlePad := 1000000000 } } ((64 : Nat) : Int) ((32 : Nat) : Int) 0 0 := by
    have : (0, 0, 64, 2000000007, 1, true) ∈ (tileOps { title := [65], solid := true, styling := some { titlePad := 1000000000 } }
        ((64 : Nat) : Int) ((32 : Nat) : Int) 0 0).filterMap frOf := by rw [hops]; simp
    obtain ⟨op, hop, he⟩ := List.mem_filterMap.1 this
    rw [← frOf_some he]; exact hop
  -- unfold the checked call down to the run of the operation list
  unfold renderTileC newCanvasC at e
  rw [if_neg (by decide), tileColoursC_eq, tileAccC_eq] at e
  simp only [] at e
  cases hr : runOpsCList (invertPixels (newCanvas ((64 : Nat) : Int).toNat ((32 : Nat) : Int).toNat) false, 0)
      (tileOps { title := [65], solid := true, styling := some { titlePad := 1000000000 } } ((64 : Nat) : Int) ((32 : Nat) : Int) 0 0) with
  | none =>
    have e' := e
    unfold tileOps layoutOps at hr
    simp only [] at hr
    rw [hr] at e'
    cases e'
  | some s' =>
    have ge := runOpsCList_frrect_ge _ 0 0 64 2000000007 1 true hm _ s' hr
    have e' := e
    unfold tileOps layoutOps at hr
    simp only [] at hr
    rw [hr] at e'
    simp only [Option.map_some, Option.some.injEq, Prod.mk.injEq] at e'
    obtain ⟨_, _, rfl⟩ := e'
    have : ((64 : Int) - 2 * 1).toNat * (1 + (2000000007 : Int).toNat) = 62 * 2000000008 := by decide
    rw [this] at ge
    simp only [] at ge
    omega

/-! ## export: the bytes `GetImgSliceRGB` returns -/

theorem renderTile_wf (inp : TileIn) (inv : Bool) (w h : Nat) (shrink border : Int) :
    (renderTile inp inv w h shrink border).WF :=
  C16.reachable_wf w h (.inv inv :: tileOps inp w h shrink border)

theorem color565_range (c : Int) : 0 ≤ color565 c ∧ color565 c < 65536 := by
  unfold color565
  simp only []
  omega

theorem tileColours_range (inp : TileIn) :
    (0 ≤ (tileColours inp).1 ∧ (tileColours inp).1 < 65536) ∧ (0 ≤ (tileColours inp).2 ∧ (tileColours inp).2 < 65536) := by
  unfold tileColours
  simp only []
  constructor
  · cases inp.pix with
    | none => exact ⟨by decide, by decide⟩
    | some c => exact color565_range _
  · cases inp.bg with
    | none => exact ⟨by decide, by decide⟩
    | some c => exact color565_range _

/-- **export** (`Spec.Tile.exportOk`, composed with C17's `sliceRGB_size` / `sliceRGB_pixel`, the two halves of
`C17.export_holds`): `GetImgSliceRGB()` of the returned image does not panic, has `2·w·h` bytes, and the big-endian word
of every pixel is the *requested* pixel colour where the bit is set and the requested background colour where it is
clear — requested as the Spec reads the state (band table / regenerated colour table / documented 5-6-5 expansion) -/
theorem tile_export (inp : TileIn) (inv : Bool) (w h : Nat) (shrink border : Int) :
    ∃ rgb, tileRGB inp inv w h shrink border = some rgb ∧
      Spec.Tile.exportOk (specCase inp inv w h shrink border) (getPx (renderTile inp inv w h shrink border))
        (some (rgb.size, Pix.byteAt rgb)) = true := by
  have hwf := renderTile_wf inp inv w h shrink border
  obtain ⟨⟨p0, p1⟩, ⟨b0, b1⟩⟩ := tileColours_range inp
  have hp : (tileColours inp).1.toNat < 65536 := by omega
  have hb : (tileColours inp).2.toNat < 65536 := by omega
  obtain ⟨rgb, r1, r2⟩ := C17.sliceRGB_size _ hwf (tileColours inp).1.toNat (tileColours inp).2.toNat
  obtain ⟨rgb', r1', r3⟩ := C17.sliceRGB_pixel _ hwf (tileColours inp).1.toNat (tileColours inp).2.toNat hp hb
  rw [r1] at r1'; cases r1'
  have hW := (tile_size_ok inp inv w h shrink border).1.1
  have hH := (tile_size_ok inp inv w h shrink border).1.2.1
  have hcol := tile_colours_ok inp inv w h shrink border
  unfold Spec.Tile.coloursOk at hcol
  simp only [beq_iff_eq] at hcol
  refine ⟨rgb, r1, ?_⟩
  unfold Spec.Tile.exportOk
  simp only [Bool.and_eq_true, beq_iff_eq]
  rw [hW, hH] at r2
  refine ⟨r2, ?_⟩
  rw [List.all_eq_true]
  intro p hpm
  have hpx : p.1 < w ∧ p.2 < h := by
    unfold Spec.Tile.pixels specCase at hpm
    simp only [List.mem_flatMap, List.mem_range, List.mem_map] at hpm
    obtain ⟨Y, hY, X, hX, rfl⟩ := hpm
    exact ⟨hX, hY⟩
  obtain ⟨e1, e2⟩ := r3 p.1 p.2 (by rw [hW]; exact hpx.1) (by rw [hH]; exact hpx.2)
  rw [hW] at e1 e2
  unfold Spec.Tile.exportPixelOk
  simp only []
  have hkw : (specCase inp inv w h shrink border).w = w := rfl
  rw [hkw, e1, e2, ← hcol]
  cases getPx (renderTile inp inv w h shrink border) p.1 p.2
  · simp only [Bool.false_eq_true, if_false, beq_iff_eq]; omega
  · simp only [if_true, beq_iff_eq]; omega

/-- non-vacuity: an amber-on-dark-blue 8×8 tile with a title: the export exists and is not constant -/
example : (tileRGB { title := [65], pix := some (.idx 8), bg := some (.rgb 0 0 200) } false 8 8 0 0).map
    (fun rgb => (rgb.size, Pix.byteAt rgb 0 * 256 + Pix.byteAt rgb 1, Pix.byteAt rgb 6 * 256 + Pix.byteAt rgb 7)) =
    some (128, 40960, 703) := by
  decide +kernel

/-! ## argument -/

/-- **argument** (`Spec.Tile.argOk`): after the call the argument is the filled form `fillNil` of the state, which the
Spec accepts: nothing but absent → empty sub-messages changed.  (`Tile.fillNil_idem`: filling is idempotent;
`Tile.renderTile_fillNil`: the filled state renders exactly like the original one.) -/
theorem tile_argument_ok (inp : TileIn) (inv : Bool) :
    Spec.Tile.argOk (obsArg inp inv) (obsArg (fillNil inp) inv) = true := fillNil_arg_ok inp inv

theorem tile_argument_idempotent (inp : TileIn) : fillNil (fillNil inp) = fillNil inp := fillNil_idem inp

/-- rendering the argument as the first call left it gives the same image, colours and export again -/
theorem tile_second_call_same (inp : TileIn) (inv : Bool) (w h : Nat) (shrink border : Int) :
    renderTile (fillNil inp) inv w h shrink border = renderTile inp inv w h shrink border ∧
    tileColours (fillNil inp) = tileColours inp ∧
    tileRGB (fillNil inp) inv w h shrink border = tileRGB inp inv w h shrink border := by
  refine ⟨renderTile_fillNil inp inv w h shrink border, rfl, ?_⟩
  unfold tileRGB
  rw [renderTile_fillNil, tileColours_fillNil]

/-! ## bar -/

/-- the byte slice of a rendered canvas as the harness prints it -/
def canvasBytes (c : Canvas) : Array UInt8 := c.bytes.map (fun b => UInt8.ofNat b.toNat)

theorem bit_u8 (b : BitVec 8) (k : Nat) : (((UInt8.ofNat b.toNat).toNat >>> k) % 2 == 1) = b.getLsbD k := by
  have h : (UInt8.ofNat b.toNat).toNat = b.toNat := by
    simp
  rw [h, Nat.shiftRight_eq_div_pow, BitVec.getLsbD, Nat.testBit_eq_decide_div_mod_eq]
  generalize b.toNat / 2 ^ k % 2 = x
  by_cases hx : x = 1 <;> simp [hx]

theorem bitAt_canvasBytes (c : Canvas) (X Y : Nat) :
    Spec.Tile.bitAt c.geo.wib (canvasBytes c) X Y = getPx c X Y := by
  unfold Spec.Tile.bitAt canvasBytes getPx
  simp only [Array.getD_eq_getD_getElem?, Array.getElem?_map]
  cases h : c.bytes[Y * c.geo.wib + X / 8]? with
  | none => simp
  | some b => simp only [Option.map_some, Option.getD_some]; exact bit_u8 b _


theorem renderTile_geo (inp : TileIn) (inv : Bool) (w h : Nat) (shrink border : Int) :
    (renderTile inp inv w h shrink border).geo =
      { W := w, H := h, wib := (w + 7) / 8, bx := border, byy := border,
        bw := (activeWH w h shrink border).1, bh := (activeWH w h shrink border).2, inv := inv } := by
  rw [renderTile_unfold]
  obtain ⟨hwf1, hg1, _⟩ := blackout w h inv
  generalize hc1 : applyOp (invertPixels (newCanvas w h) inv) (.frect 0 0 w h false) = c1 at hwf1 hg1
  have hwf2 : (setBoundingBox c1 border border (activeWH w h shrink border).1 (activeWH w h shrink border).2).WF := by
    unfold setBoundingBox Canvas.WF at *; simpa using hwf1
  have t := draws_touch _ (layoutOps_draw inp w h shrink border) _ hwf2
  rw [t.geo]
  unfold setBoundingBox; simp only []; rw [hg1]; rfl

/-- raising the value (value text unchanged, scale type 1, positive range) only adds lit pixels -/
theorem renderTile_sub (inp : TileIn) (v2 : Int) (inv : Bool) (w h : Nat) (shrink border : Int)
    (hval : valueString inp.fmt inp.intVal = valueString inp.fmt v2)
    (ht : (inp.scale.getD {}).stype = 1) (hr : 0 < i32 ((inp.scale.getD {}).rh - (inp.scale.getD {}).rl))
    (hv : inp.intVal ≤ v2) :
    Sub (renderTile inp inv w h shrink border) (renderTile (setVal inp v2) inv w h shrink border) := by
  rw [renderTile_unfold, renderTile_unfold]
  obtain ⟨hwf1, _, _⟩ := blackout w h inv
  generalize applyOp (invertPixels (newCanvas w h) inv) (.frect 0 0 w h false) = c1 at hwf1
  have hwf2 : (setBoundingBox c1 border border (activeWH w h shrink border).1 (activeWH w h shrink border).2).WF := by
    unfold setBoundingBox Canvas.WF at *; simpa using hwf1
  exact (tileAcc_R inp v2 w h shrink border hval ht hr hv).sub _ _ (Sub.refl _ hwf2)

/-- **bar** (`Spec.Tile.checkBar`): scale type 1 with a positive range (`0 < int32(RangeHigh - RangeLow)`), value text
unchanged (e.g. hidden, `FMT_HIDE`), everything else equal: for `v1 ≤ v2` no pixel lit in the rendering at `v1` is
dark in the rendering at `v2` — for every text state, geometry, inversion, and all integers `v1`, `v2`, range bounds
(the bar length goes through correctly rounded double division/multiplication and truncation). -/
theorem bar_monotone (inp : TileIn) (v2 : Int) (inv : Bool) (w h : Nat) (shrink border : Int)
    (hval : valueString inp.fmt inp.intVal = valueString inp.fmt v2)
    (ht : (inp.scale.getD {}).stype = 1) (hr : 0 < i32 ((inp.scale.getD {}).rh - (inp.scale.getD {}).rl))
    (hv : inp.intVal ≤ v2) :
    Spec.Tile.checkBar (specCase inp inv w h shrink border)
      (canvasBytes (renderTile inp inv w h shrink border))
      (canvasBytes (renderTile (setVal inp v2) inv w h shrink border)) = none := by
  have hs := renderTile_sub inp v2 inv w h shrink border hval ht hr hv
  have g1 := renderTile_geo inp inv w h shrink border
  have g2 := renderTile_geo (setVal inp v2) inv w h shrink border
  have z1 := (tile_size_ok inp inv w h shrink border).1.2.2
  have z2 := (tile_size_ok (setVal inp v2) inv w h shrink border).1.2.2
  generalize renderTile inp inv w h shrink border = A1 at *
  generalize renderTile (setVal inp v2) inv w h shrink border = A2 at *
  unfold Spec.Tile.checkBar
  have hsz : (canvasBytes A1).size = (canvasBytes A2).size := by
    unfold canvasBytes; rw [Array.size_map, Array.size_map, z1, z2]
  rw [if_neg (by rw [hsz]; simp)]
  have hany : (Spec.Tile.pixels (specCase inp inv w h shrink border)).any (fun p =>
      (Spec.Tile.bitAt (Spec.Tile.wib (specCase inp inv w h shrink border)) (canvasBytes A1) p.1 p.2
          != (specCase inp inv w h shrink border).inverted) &&
        !(Spec.Tile.bitAt (Spec.Tile.wib (specCase inp inv w h shrink border)) (canvasBytes A2) p.1 p.2
          != (specCase inp inv w h shrink border).inverted)) = false := by
    rw [List.any_eq_false]
    intro p hp
    have hpx : p.1 < w ∧ p.2 < h := by
      unfold Spec.Tile.pixels specCase at hp
      simp only [List.mem_flatMap, List.mem_range, List.mem_map] at hp
      obtain ⟨Y, hY, X, hX, rfl⟩ := hp
      exact ⟨hX, hY⟩
    have w1 : Spec.Tile.wib (specCase inp inv w h shrink border) = A1.geo.wib := by rw [g1]; rfl
    have w2 : Spec.Tile.wib (specCase inp inv w h shrink border) = A2.geo.wib := by rw [g2]; rfl
    have i1 : (specCase inp inv w h shrink border).inverted = A1.geo.inv := by rw [g1]; rfl
    rw [i1]
    conv => enter [1, 1, 1, 1, 1]; rw [w1]
    conv => enter [1, 1, 2, 1, 1, 1]; rw [w2]
    rw [bitAt_canvasBytes, bitAt_canvasBytes]
    have := hs.vis p.1 p.2 (by rw [g1]; exact hpx.1) (by rw [g1]; exact hpx.2)
    cases hb : (getPx A1 p.1 p.2 != A1.geo.inv) with
    | false => simp
    | true => rw [this hb]; simp
  rw [hany]
  simp


/-- value hidden (`FMT_HIDE`, the harness's bar pairs): the instance of `bar_monotone` the driver evaluates -/
theorem bar_monotone_hidden (inp : TileIn) (v2 : Int) (inv : Bool) (w h : Nat) (shrink border : Int)
    (hf : inp.fmt = 7)
    (ht : (inp.scale.getD {}).stype = 1) (hr : 0 < i32 ((inp.scale.getD {}).rh - (inp.scale.getD {}).rl))
    (hv : inp.intVal ≤ v2) :
    Spec.Tile.checkBar (specCase inp inv w h shrink border)
      (canvasBytes (renderTile inp inv w h shrink border))
      (canvasBytes (renderTile (setVal inp v2) inv w h shrink border)) = none := by
  refine bar_monotone inp v2 inv w h shrink border ?_ ht hr hv
  unfold valueString
  rw [hf]
  rfl

/-- the bar length the model computes (`scaleBar_eq`: `scaleBar` draws the type-1 in-fill with exactly this width),
`ConstrainValue(int(float64(v - low)/float64(range)*float64(activeWidth)), 0, activeWidth)` in correctly rounded
binary64 arithmetic, is monotone in the value for every positive range and every width ≥ 0 … -/
theorem bar_length_monotone (v1 v2 low range activeWidth : Int) (hr : 0 < range) (hw : 0 ≤ activeWidth) (hv : v1 ≤ v2) :
    barLen (v1 - low) range activeWidth ≤ barLen (v2 - low) range activeWidth :=
  barLen_mono _ _ _ _ hr hw (by omega)

/-- … and stays within the bar's extent -/
theorem bar_length_in_extent (v low range activeWidth : Int) (hw : 0 ≤ activeWidth) :
    0 ≤ barLen (v - low) range activeWidth ∧ barLen (v - low) range activeWidth ≤ activeWidth :=
  barLen_range _ _ _ hw

/-- the range hypothesis is needed: for a reversed range the bar shrinks when the value grows (as it should) -/
theorem bar_reversed_range_counterexample :
    barLen (70 - 100) (i32 (0 - 100)) 64 < barLen (30 - 100) (i32 (0 - 100)) 64 := by decide +kernel

/-- non-vacuity: a 64×32 tile, hidden value 30 → 70 in the range 0..100 — the hypotheses hold, and the bar really grows -/
example :
    let inp : TileIn := { fmt := 7, intVal := 30, title := [65], scale := some { stype := 1, rl := 0, rh := 100, ll := 0, lh := 100 } }
    inp.fmt = 7 ∧ (inp.scale.getD {}).stype = 1 ∧ 0 < i32 ((inp.scale.getD {}).rh - (inp.scale.getD {}).rl) ∧
      inp.intVal ≤ 70 ∧ barLen (30 - 0) 100 64 = 19 ∧ barLen (70 - 0) 100 64 = 44 := by decide +kernel

/-- big ranges (the product value·width exceeds 32 bits; the quotient is not exactly representable) -/
example : barLen 100000000 2000000000 128 = 6 ∧ barLen 1999999999 2000000000 128 = 127 ∧
    barLen 2000000000 2000000000 128 = 128 := by decide +kernel

/-! ## bar, when the printed value changes: the bar section stays visible -/

theorem Sub.trans' {a b c : Canvas} (h1 : Sub a b) (h2 : Sub b c) : Sub a c :=
  ⟨h1.wf, h2.wf', by rw [h2.geo, h1.geo], fun X Y hX hY hl => by
    have := h2.vis X Y (by rw [h1.geo]; exact hX) (by rw [h1.geo]; exact hY) (by rw [h1.geo]; exact h1.vis X Y hX hY hl)
    rw [h1.geo] at this; exact this⟩

/-- the start canvas of a call (blank, bounding box = active area), as in `renderTile_unfold` -/
def tileStart (inv : Bool) (w h : Nat) (shrink border : Int) : Canvas :=
  setBoundingBox (applyOp (invertPixels (newCanvas w h) inv) (.frect 0 0 w h false)) border border
    (activeWH w h shrink border).1 (activeWH w h shrink border).2

theorem tileStart_facts (inv : Bool) (w h : Nat) (shrink border : Int) :
    (tileStart inv w h shrink border).WF ∧ (tileStart inv w h shrink border).geo.W = w ∧
    (tileStart inv w h shrink border).geo.H = h ∧ (tileStart inv w h shrink border).geo.inv = inv ∧
    ∀ X Y, X < w → Y < h → getPx (tileStart inv w h shrink border) X Y = inv := by
  obtain ⟨hwf1, hg1, hblank⟩ := blackout w h inv
  unfold tileStart
  generalize applyOp (invertPixels (newCanvas w h) inv) (.frect 0 0 w h false) = c1 at hwf1 hg1 hblank
  refine ⟨?_, ?_, ?_, ?_, ?_⟩
  · unfold setBoundingBox Canvas.WF at *; simpa using hwf1
  · unfold setBoundingBox; simp only []; rw [hg1]; rfl
  · unfold setBoundingBox; simp only []; rw [hg1]; rfl
  · unfold setBoundingBox; simp only []; rw [hg1]; rfl
  · intro X Y hX hY
    have : getPx (setBoundingBox c1 border border (activeWH w h shrink border).1 (activeWH w h shrink border).2) X Y
        = getPx c1 X Y := by unfold getPx setBoundingBox; simp
    rw [this]; exact hblank X Y hX hY

/-- nothing is lit on the start canvas: it is below every canvas of the same geometry -/
theorem tileStart_sub (inv : Bool) (w h : Nat) (shrink border : Int) (X : Canvas) (hwf : X.WF)
    (hgeo : X.geo = (tileStart inv w h shrink border).geo) : Sub (tileStart inv w h shrink border) X := by
  obtain ⟨swf, sW, sH, sinv, sblank⟩ := tileStart_facts inv w h shrink border
  refine ⟨swf, hwf, hgeo, fun x y hx hy hl => ?_⟩
  rw [sW] at hx; rw [sH] at hy
  rw [sblank x y hx hy, sinv] at hl
  simp at hl

theorem runOps_touch (ops : Array DOp) (c : Canvas) (hwf : c.WF) : (runOps ops c).WF ∧ (runOps ops c).geo = c.geo := by
  have t := draws_touch (ops.toList.map DOp.toOp) (by
    intro op hop
    simp only [List.mem_map] at hop
    obtain ⟨d, _, rfl⟩ := hop
    cases d <;> rfl) c hwf
  exact ⟨t.wf, t.geo⟩

/-- the bar layer: the scale section's operations alone, on the blank tile -/
def barLayer (inp : TileIn) (inv : Bool) (w h : Nat) (shrink border : Int) : Canvas :=
  runOps (barOps inp w h shrink border) (tileStart inv w h shrink border)

theorem renderTile_runOps (inp : TileIn) (inv : Bool) (w h : Nat) (shrink border : Int) :
    renderTile inp inv w h shrink border = runOps (tileAcc inp w h shrink border).ops (tileStart inv w h shrink border) := by
  rw [renderTile_unfold]; rfl

/-- **the bar section stays visible**: unless the "no access" icon or a modifier icon (the two `drawAllPixels` bitmaps
drawn after it) is shown, every pixel the scale section lights on the blank tile — base line, bar / marker / centred bar,
limit markers — is lit in the final image: for every scale type, every format (the value text may be anything), pair
mode, title, fonts, geometry -/
theorem bar_layer_in_image (inp : TileIn) (inv : Bool) (w h : Nat) (shrink border : Int)
    (hic : inp.stateIcon ≠ 3 ∧ ¬ (inp.modIcon ≥ 1 ∧ inp.modIcon ≤ 7)) :
    Sub (barLayer inp inv w h shrink border) (renderTile inp inv w h shrink border) := by
  obtain ⟨pre, post, hops, hlit⟩ := tileAcc_bar_decomp inp w h shrink border hic
  obtain ⟨swf, _⟩ := tileStart_facts inv w h shrink border
  rw [renderTile_runOps, hops, runOps_append, runOps_append]
  unfold barLayer
  obtain ⟨pwf, pgeo⟩ := runOps_touch pre _ swf
  have h1 : Sub (runOps (barOps inp w h shrink border) (tileStart inv w h shrink border))
      (runOps (barOps inp w h shrink border) (runOps pre (tileStart inv w h shrink border))) :=
    runOps_sub _ (tileStart_sub inv w h shrink border _ pwf pgeo)
  unfold runOps at h1 ⊢
  refine foldl_grow _ ?_ _ _ h1
  intro op hop
  simp only [List.mem_map] at hop
  obtain ⟨d, hd, rfl⟩ := hop
  exact hlit d hd

/-- the bar layer grows with the value: scale type 1, positive range, `v1 ≤ v2` — for every format -/
theorem bar_layer_monotone (inp : TileIn) (v2 : Int) (inv : Bool) (w h : Nat) (shrink border : Int)
    (ht : (inp.scale.getD {}).stype = 1) (hr : 0 < i32 ((inp.scale.getD {}).rh - (inp.scale.getD {}).rl))
    (hv : inp.intVal ≤ v2) :
    Sub (barLayer inp inv w h shrink border) (barLayer (setVal inp v2) inv w h shrink border) := by
  obtain ⟨swf, _⟩ := tileStart_facts inv w h shrink border
  unfold barLayer barOps
  have e1 : (setVal inp v2).fmt = inp.fmt := rfl
  have e2 : derive (setVal inp v2) w h shrink border = derive inp w h shrink border := rfl
  have e3 : availOf (setVal inp v2) (derive inp w h shrink border) w h = availOf inp (derive inp w h shrink border) w h := rfl
  rw [e1, e2, e3]
  split
  · exact Sub.refl _ (runOps_touch _ _ swf).1
  · split
    · unfold scaleOps
      exact (scaleBar_R {} inp v2 (derive inp w h shrink border).sc w (derive inp w h shrink border).aw
        (derive inp w h shrink border).ah ht hr hv).sub _ _ (Sub.refl _ swf)
    · exact Sub.refl _ (runOps_touch _ _ swf).1

/-- **bar, for a value text that changes with the value** (scale type 1, positive range, `v1 ≤ v2`, no late
`drawAllPixels` icon): everything the scale section shows at `v1` — in particular the whole bar of length
`barLen (v1 - low) range activeWidth` — is lit in the image rendered at `v2`.  Stated on the bar section only: the digits
of the printed value are different pixels in the two images. -/
theorem bar_covered (inp : TileIn) (v2 : Int) (inv : Bool) (w h : Nat) (shrink border : Int)
    (ht : (inp.scale.getD {}).stype = 1) (hr : 0 < i32 ((inp.scale.getD {}).rh - (inp.scale.getD {}).rl))
    (hv : inp.intVal ≤ v2) (hic : inp.stateIcon ≠ 3 ∧ ¬ (inp.modIcon ≥ 1 ∧ inp.modIcon ≤ 7)) :
    Sub (barLayer inp inv w h shrink border) (renderTile (setVal inp v2) inv w h shrink border) :=
  Sub.trans' (bar_layer_monotone inp v2 inv w h shrink border ht hr hv)
    (bar_layer_in_image (setVal inp v2) inv w h shrink border hic)

/-- **bar, all scale types**: the rectangle the scale section fills (`barSpan`: type 1 a bar from the left edge, type 2
a 3-pixel marker, type 3 a bar from the centre; `bar_span_drawn`: `scaleBar` draws exactly this rectangle in the rows
`activeHeight-3…`) never moves left when the value grows: for `v1 ≤ v2`, a positive range and an active width of at least 3
pixels, its left edge and its right edge at `v2` are at or right of those at `v1` (type 1: the left edge stays at 0 and
the bar only gets longer).  With `bar_layer_in_image` the rectangle is visible in the image for every value text. -/
theorem bar_span_monotone (stype v1 v2 low range aw : Int) (hs : stype = 1 ∨ stype = 2 ∨ stype = 3)
    (hr : 0 < range) (haw : 3 ≤ aw) (hv : v1 ≤ v2) :
    ∀ x1 d1 x2 d2, barSpan stype (barLen (v1 - low) range aw) aw = some (x1, d1) →
      barSpan stype (barLen (v2 - low) range aw) aw = some (x2, d2) → x1 ≤ x2 ∧ x1 + d1 ≤ x2 + d2 := by
  have hm := barLen_mono (v1 - low) (v2 - low) range aw hr (by omega) (by omega)
  obtain ⟨l1, u1⟩ := barLen_range (v1 - low) range aw (by omega)
  obtain ⟨l2, u2⟩ := barLen_range (v2 - low) range aw (by omega)
  generalize barLen (v1 - low) range aw = w1 at *
  generalize barLen (v2 - low) range aw = w2 at *
  intro x1 d1 x2 d2 e1 e2
  rcases hs with rfl | rfl | rfl
  · unfold barSpan at e1 e2
    simp only [if_true] at e1 e2
    split at e1 <;> split at e2 <;> simp only [Option.some.injEq, Prod.mk.injEq, reduceCtorEq] at e1 e2
    obtain ⟨rfl, rfl⟩ := e1
    obtain ⟨rfl, rfl⟩ := e2
    omega
  · unfold barSpan at e1 e2
    simp only [show ¬ (2 : Int) = 1 by decide, if_false, if_true, Option.some.injEq, Prod.mk.injEq] at e1 e2
    obtain ⟨rfl, rfl⟩ := e1
    obtain ⟨rfl, rfl⟩ := e2
    have := marker_monotone w1 w2 aw hm haw
    omega
  · exact centre_bar_edges_monotone w1 w2 aw hm l1 u2 (by omega) x1 d1 x2 d2 e1 e2

/-- the scale section draws the `barSpan` rectangle (3 rows high, radius 0, foreground colour) -/
theorem bar_span_drawn (inp : TileIn) (sc : Scale) (width aw ah x wd : Int)
    (hs : sc.stype > 0 ∧ i32 (sc.rh - sc.rl) ≠ 0)
    (hb : barSpan sc.stype (barLen (inp.intVal - sc.rl) (i32 (sc.rh - sc.rl)) aw) aw = some (x, wd)) :
    DOp.frrect x (ah - 3) wd 3 0 true ∈ (scaleOps inp sc width aw ah).toList :=
  scaleOps_bar_mem inp sc width aw ah x wd hs hb

/-- non-vacuity: a 64×32 tile, value 30 → 70 in 0..100 printed as an integer (different digits at 30 and 70): the scale
section is the base line plus the bar of 19 resp. 44 pixels in rows 29..31 -/
def exBar : TileIn := { intVal := 30, title := [65], scale := some { stype := 1, rl := 0, rh := 100, ll := 0, lh := 100 } }
example : (barOps exBar 64 32 0 0).size = 2 := by decide +kernel
example : (barOps exBar 64 32 0 0).toList.filterMap (fun d => frOf d.toOp) = [(0, 29, 19, 3, 0, true)] := by decide +kernel
example : (barOps (setVal exBar 70) 64 32 0 0).toList.filterMap (fun d => frOf d.toOp) = [(0, 29, 44, 3, 0, true)] := by
  decide +kernel
example : exBar.stateIcon ≠ 3 ∧ ¬ (exBar.modIcon ≥ 1 ∧ exBar.modIcon ≤ 7) := by decide
example :
    barSpan 1 (barLen (30 - 0) 100 64) 64 = some (0, 19) ∧ barSpan 2 (barLen (30 - 0) 100 64) 64 = some (18, 3) ∧
    barSpan 3 (barLen (30 - 0) 100 64) 64 = some (19, 13) ∧ barSpan 3 (barLen (70 - 0) 100 64) 64 = some (32, 12) := by
  decide +kernel

/-! ## centre -/

/-- the canvas the layout operations start from: blank, bounding box = active area -/
def startCanvas (inv : Bool) (w h : Nat) (shrink border : Int) : Canvas :=
  setBoundingBox (applyOp (invertPixels (newCanvas w h) inv) (.frect 0 0 w h false)) border border
    (activeWH w h shrink border).1 (activeWH w h shrink border).2

def tileGeo (inv : Bool) (w h : Nat) (shrink border : Int) : Geom :=
  { W := w, H := h, wib := (w + 7) / 8, bx := border, byy := border,
    bw := (activeWH w h shrink border).1, bh := (activeWH w h shrink border).2, inv := inv }

theorem startCanvas_facts (inv : Bool) (w h : Nat) (shrink border : Int) :
    (startCanvas inv w h shrink border).WF ∧ (startCanvas inv w h shrink border).geo = tileGeo inv w h shrink border ∧
    ∀ X Y, X < w → Y < h → getPx (startCanvas inv w h shrink border) X Y = inv := by
  obtain ⟨hwf1, hg1, hblank⟩ := blackout w h inv
  unfold startCanvas
  generalize applyOp (invertPixels (newCanvas w h) inv) (.frect 0 0 w h false) = c1 at hwf1 hg1 hblank
  refine ⟨?_, ?_, ?_⟩
  · unfold setBoundingBox Canvas.WF at *; simpa using hwf1
  · unfold setBoundingBox tileGeo; simp only []; rw [hg1]; rfl
  · intro X Y hX hY
    have : getPx (setBoundingBox c1 border border (activeWH w h shrink border).1 (activeWH w h shrink border).2) X Y
        = getPx c1 X Y := by unfold getPx setBoundingBox; simp
    rw [this]; exact hblank X Y hX hY

theorem tileGeo_box (inv : Bool) (w h : Nat) (shrink border : Int) (hb : 0 ≤ border) :
    BoxOnCanvas (tileGeo inv w h shrink border) := by
  unfold tileGeo activeWH qint
  by_cases hbo : border > 0
  · refine ⟨hb, hb, ?_, ?_⟩ <;> simp only [hbo, decide_true, if_true] <;> omega
  · refine ⟨hb, hb, ?_, ?_⟩ <;> simp only [hbo, decide_false, Bool.false_eq_true, if_false] <;> split <;> omega

/-- lit pixels after rendering one text on the start canvas = the text's ink region -/
theorem text_on_start (inv : Bool) (w h : Nat) (shrink border : Int) (t : TextSt) (s : List Nat)
    (hs : 10 ∉ s) (hw : t.wrap = false) (hc : t.tcol = true) (hbg : t.tbg = true) (X Y : Nat) (hX : X < w) (hY : Y < h) :
    (getPx (renderText (startCanvas inv w h shrink border, t) s).1 X Y ≠ inv) ↔
      textR (tileGeo inv w h shrink border) t s X Y := by
  obtain ⟨hwf, hg, hblank⟩ := startCanvas_facts inv w h shrink border
  have p := renderText_paint s hs _ hwf t hw (by rw [hbg, hc])
  rw [hg] at p
  have hX8 : X < (startCanvas inv w h shrink border).geo.wib * 8 := by rw [hg]; unfold tileGeo; simp only []; omega
  have hY' : Y < (startCanvas inv w h shrink border).geo.H := by rw [hg]; exact hY
  by_cases hr : textR (tileGeo inv w h shrink border) t s X Y
  · have := p.inside X Y hX8 hY' hr
    rw [this, hc]
    have : (tileGeo inv w h shrink border).inv = inv := rfl
    rw [this]
    cases inv <;> simp [hr]
  · have := p.same X Y hX8 hY' hr
    rw [this, hblank X Y hX hY]
    simp [hr]


/-- first and last character are ASCII letters or digits (the Spec's `edgeInk`; vacuous for the empty string) -/
def edgeAlnum (s : List Nat) : Bool :=
  match s.head?, s.getLast? with
  | some a, some b => alnum a && alnum b
  | _, _ => true

theorem edge_decomp (s : List Nat) (hne : s ≠ []) (he : edgeAlnum s = true) :
    ∃ c0 rest pre cL, s = c0 :: rest ∧ s = pre ++ [cL] ∧ alnum c0 = true ∧ alnum cL = true := by
  cases s with
  | nil => exact absurd rfl hne
  | cons c0 rest =>
    have hl : (c0 :: rest).getLast? = some ((c0 :: rest).getLast hne) := List.getLast?_eq_some_getLast hne
    unfold edgeAlnum at he
    rw [hl] at he
    simp only [List.head?_cons, Bool.and_eq_true] at he
    exact ⟨c0, rest, (c0 :: rest).dropLast, (c0 :: rest).getLast hne, rfl,
      (List.dropLast_concat_getLast hne).symm, he.1, he.2⟩

theorem glyphR_clip (g : Geom) (t : TextSt) (x y : Int) (ch : Nat) (h v : Int) (X Y : Nat)
    (hg : glyphR g t x y ch h v X Y) : clipR g X Y := by
  obtain ⟨i, j, _, _, _, hc, _⟩ := hg; exact hc

theorem textR_clip (g : Geom) (s : List Nat) (t : TextSt) (X Y : Nat) (hr : textR g t s X Y) : clipR g X Y := by
  induction s generalizing t with
  | nil => exact hr.elim
  | cons ch rest ih =>
    simp only [textR] at hr
    by_cases h13 : ch = 13
    · simp only [h13, if_true] at hr; exact ih t hr
    · simp only [h13, if_false] at hr
      rcases hr with ⟨_, hg⟩ | hr
      · exact glyphR_clip _ _ _ _ _ _ _ _ _ hg
      · exact ih _ hr

theorem active_xy (inp : TileIn) (inv : Bool) (w h : Nat) (shrink border : Int) (hb : 0 ≤ border) :
    Spec.Tile.active (specCase inp inv w h shrink border) =
      (border, border, border + (activeWH w h shrink border).1, border + (activeWH w h shrink border).2) := by
  unfold Spec.Tile.active specCase activeWH qint
  simp only []
  by_cases hbo : border > 0
  · simp only [hbo, decide_true, if_true, Prod.mk.injEq, true_and]; omega
  · simp only [hbo, decide_false, Bool.false_eq_true, if_false, Prod.mk.injEq]
    have : border = 0 := by omega
    subst this
    refine ⟨rfl, rfl, ?_, ?_⟩
    · by_cases hs : shrink.emod 2 = 1 <;> simp [hs]
    · by_cases hs : shrink.emod 4 / 2 = 1 <;> simp [hs]

/-- one row band of the tile whose lit pixels are exactly the ink of one centred text: the Spec's centring clause holds -/
theorem band_centred (inp : TileIn) (inv : Bool) (w h : Nat) (shrink border : Int) (hb : 0 ≤ border)
    (A : Nat → Nat → Bool) (ya yb : Int) (t : TextSt) (s : List Nat)
    (hlit : ∀ X Y, X < w → Y < h → (litIn inv A ya yb (X, Y) ↔ textR (tileGeo inv w h shrink border) t s X Y))
    (hp : t.prop = true) (hsp : t.spacing = 0) (hh : 1 ≤ t.tsH) (hv : 1 ≤ t.tsV)
    (h13 : 13 ∉ s) (he : edgeAlnum s = true) (hfit : s ≠ [] → TextFits (tileGeo inv w h shrink border) t s)
    (hcx : t.cx = shr1 (Tile.constrain ((activeWH w h shrink border).1 - strWidth t s) 0 (activeWH w h shrink border).1)) :
    Spec.Tile.centredIn (specCase inp inv w h shrink border) A ya yb = true := by
  refine centredIn_of_region _ A ya yb (textR (tileGeo inv w h shrink border) t s) hlit ?_ ?_
  · intro X Y hr
    have := inClip_bounds (textR_clip _ s t X Y hr)
    have e1 : (tileGeo inv w h shrink border).W = w := rfl
    have e2 : (tileGeo inv w h shrink border).H = h := rfl
    rw [e1, e2] at this
    show X < w ∧ Y < h
    omega
  · by_cases hne : s = []
    · left; subst hne; intro X Y hr; exact hr
    · right
      obtain ⟨c0, rest, pre, cL, hs0, hsL, ha0, haL⟩ := edge_decomp s hne he
      have hf := hfit hne
      obtain ⟨hall, ⟨XL, YL, hL, eL⟩, ⟨XR, YR, hR, eR⟩⟩ :=
        text_ink_extent (tileGeo inv w h shrink border) t c0 cL rest pre s hs0 hsL h13 hp hsp hh hv ha0 haL
          (tileGeo_box inv w h shrink border hb) hf
      refine ⟨XL, XR, ?_, ⟨YL, hL⟩, ⟨YR, hR⟩, ?_⟩
      · intro X Y hr
        have := hall X Y hr
        omega
      · rw [active_xy inp inv w h shrink border hb]
        simp only []
        have ebx : (tileGeo inv w h shrink border).bx = border := rfl
        have ebw : (tileGeo inv w h shrink border).bw = (activeWH w h shrink border).1 := rfl
        rw [ebx] at eL eR
        obtain ⟨f1, f2, _, _⟩ := hf
        rw [ebw] at f2
        have hsw : 1 ≤ strWidth t s := by have := hall XL YL hL; omega
        have hbox := box_centred_within_one (activeWH w h shrink border).1 (strWidth t s) (by omega) (by omega)
        simp only [] at hbox
        rw [← hcx] at hbox
        omega


theorem shr1_fit (aw sw : Int) (h0 : 0 ≤ aw) (h1 : sw ≤ aw) :
    0 ≤ shr1 (Tile.constrain (aw - sw) 0 aw) ∧ shr1 (Tile.constrain (aw - sw) 0 aw) + sw ≤ aw := by
  unfold shr1 Tile.constrain
  split
  · omega
  · split <;> omega

theorem plainStyle_tsH (inp : TileIn) : 1 ≤ (plainStyle inp).tsH := by
  unfold plainStyle; exact setTextSize_tsH _ _ _

/-- a non-empty string that starts with a letter or digit is at least one pixel wide in proportional mode -/
theorem strWidth_pos (t : TextSt) (hp : t.prop = true) (hh : 1 ≤ t.tsH) (s : List Nat) (hne : s ≠ [])
    (he : edgeAlnum s = true) : 1 ≤ strWidth t s := by
  obtain ⟨c0, rest, pre, cL, hs0, _, ha0, _⟩ := edge_decomp s hne he
  obtain ⟨h2, _, _, _⟩ := edge_glyph t hp c0 ha0
  rw [strWidth_eq, hs0]
  simp only [advSum]
  have hr := advSum_nonneg t (by omega) rest
  have m0 : (2 : Int) * t.tsH ≤ (charWidth t c0 : Int) * t.tsH := Int.mul_le_mul_of_nonneg_right (by omega) (by omega)
  omega

/-- one row band of the tile whose lit pixels are exactly the ink of one centred text that lies **vertically** inside
the active area: the Spec's centring clause holds — if the text also fits horizontally by `band_centred`, and if it is too
wide because its left margin was clamped to 0, so that it shows nothing or ink in the left-most active column
(`text_left_touch`) -/
theorem band_centred_v (inp : TileIn) (inv : Bool) (w h : Nat) (shrink border : Int) (hb : 0 ≤ border)
    (A : Nat → Nat → Bool) (ya yb : Int) (t : TextSt) (s : List Nat)
    (hlit : ∀ X Y, X < w → Y < h → (litIn inv A ya yb (X, Y) ↔ textR (tileGeo inv w h shrink border) t s X Y))
    (hp : t.prop = true) (hsp : t.spacing = 0) (hh : 1 ≤ t.tsH) (hv : 1 ≤ t.tsV)
    (h13 : 13 ∉ s) (he : edgeAlnum s = true) (hvf : s ≠ [] → TextVFits (tileGeo inv w h shrink border) t)
    (hcx : t.cx = shr1 (Tile.constrain ((activeWH w h shrink border).1 - strWidth t s) 0 (activeWH w h shrink border).1)) :
    Spec.Tile.centredIn (specCase inp inv w h shrink border) A ya yb = true := by
  by_cases hsw : strWidth t s ≤ (activeWH w h shrink border).1
  · refine band_centred inp inv w h shrink border hb A ya yb t s hlit hp hsp hh hv h13 he ?_ hcx
    intro hne
    obtain ⟨v1, v2⟩ := hvf hne
    have hpos := strWidth_pos t hp hh s hne he
    obtain ⟨c1, c2⟩ := shr1_fit _ _ (by omega) hsw
    exact ⟨by rw [hcx]; exact c1, by rw [hcx]; exact c2, v1, v2⟩
  · have hin : ∀ X Y, textR (tileGeo inv w h shrink border) t s X Y → X < w ∧ Y < h := by
      intro X Y hr
      have := inClip_bounds (textR_clip _ s t X Y hr)
      have e1 : (tileGeo inv w h shrink border).W = w := rfl
      have e2 : (tileGeo inv w h shrink border).H = h := rfl
      rw [e1, e2] at this
      omega
    by_cases hne : s = []
    · refine centredIn_of_region _ A ya yb (textR (tileGeo inv w h shrink border) t s) hlit hin (Or.inl ?_)
      subst hne; intro X Y hr; exact hr
    · obtain ⟨c0, rest, pre, cL, hs0, _, ha0, _⟩ := edge_decomp s hne he
      have hcx0 : t.cx = 0 := by
        rw [hcx]; unfold shr1 Tile.constrain
        rw [if_pos (by omega)]; rfl
      rcases text_left_touch (tileGeo inv w h shrink border) t c0 rest hp hh hv ha0 (tileGeo_box inv w h shrink border hb)
          hcx0 (hvf hne) with hnone | ⟨X, Y, hR, hX⟩
      · refine centredIn_of_region _ A ya yb (textR (tileGeo inv w h shrink border) t s) hlit hin (Or.inl ?_)
        rw [hs0]; exact hnone
      · refine centredIn_of_left_touch _ A ya yb (textR (tileGeo inv w h shrink border) t s) hlit hin ⟨X, Y, by rw [hs0]; exact hR, ?_⟩
        rw [active_xy inp inv w h shrink border hb]
        exact hX

/-- every (non-empty) text the layout renders has its text box inside the active area -/
def TileTextFits (inp : TileIn) (inv : Bool) (w h : Nat) (shrink border : Int) : Prop :=
  ∀ t s, DOp.text t s ∈ (tileAcc inp w h shrink border).ops.toList → s ≠ [] →
    TextFits (tileGeo inv w h shrink border) t s

/-- every (non-empty) text the layout renders lies vertically inside the active area -/
def TileTextVFits (inp : TileIn) (inv : Bool) (w h : Nat) (shrink border : Int) : Prop :=
  ∀ t s, DOp.text t s ∈ (tileAcc inp w h shrink border).ops.toList → s ≠ [] →
    TextVFits (tileGeo inv w h shrink border) t

theorem TileTextFits.v {inp : TileIn} {inv : Bool} {w h : Nat} {shrink border : Int}
    (hf : TileTextFits inp inv w h shrink border) : TileTextVFits inp inv w h shrink border :=
  fun t s hm hne => ⟨(hf t s hm hne).cy, (hf t s hm hne).h⟩

theorem renderTile_start (inp : TileIn) (inv : Bool) (w h : Nat) (shrink border : Int) :
    renderTile inp inv w h shrink border =
      ((tileAcc inp w h shrink border).ops.toList.map DOp.toOp).foldl applyOp (startCanvas inv w h shrink border) := by
  rw [renderTile_unfold]; rfl

theorem lit_rows (inv : Bool) (w h : Nat) (shrink border : Int) (X Y : Nat)
    (hc : clipR (tileGeo inv w h shrink border) X Y) :
    border ≤ (Y : Int) ∧ (Y : Int) < border + (activeWH w h shrink border).2 := by
  obtain ⟨_, q2, _, _, _, q6, _, _⟩ := inClip_linear hc
  have e1 : (tileGeo inv w h shrink border).byy = border := rfl
  have e2 : (tileGeo inv w h shrink border).bh = (activeWH w h shrink border).2 := rfl
  rw [e1] at q2 q6; rw [e2] at q6
  omega

/-- **centre**, one-line format: if the text box fits the active area, the ink is centred to within one pixel -/
theorem centre_ok_fmt10 (inp : TileIn) (inv : Bool) (w h : Nat) (shrink border : Int) (hb : 0 ≤ border)
    (hf : inp.fmt = 10) (hprop : (inp.styling.getD {}).fixedWidth = false)
    (hsp : (inp.styling.getD {}).extraSp.emod 4 = 0)
    (hlf : 10 ∉ inp.title) (hcr : 13 ∉ inp.title) (he : edgeAlnum inp.title = true)
    (hfit : TileTextVFits inp inv w h shrink border) (LH : Int)
    (hfv : Spec.Tile.fitsV (specCase inp inv w h shrink border) LH = true) :
    Spec.Tile.centreOk (specCase inp inv w h shrink border) (getPx (renderTile inp inv w h shrink border)) LH = true := by
  obtain ⟨t0, hops, hpt, hcx, _⟩ := tileAcc_fmt10 inp w h shrink border hf
  have hrt : renderTile inp inv w h shrink border =
      (renderText (startCanvas inv w h shrink border, t0) inp.title).1 := by
    rw [renderTile_start, hops]; rfl
  have hfit0 : inp.title ≠ [] → TextVFits (tileGeo inv w h shrink border) t0 :=
    hfit t0 inp.title (by rw [hops]; simp)
  unfold Spec.Tile.centreOk
  rw [active_xy inp inv w h shrink border hb]
  have hcond : ((specCase inp inv w h shrink border).fmt = 10 ∨ (specCase inp inv w h shrink border).fmt = 11) ∧
      (specCase inp inv w h shrink border).proportional = true ∧ (specCase inp inv w h shrink border).extraSp.emod 4 = 0 ∧
      (specCase inp inv w h shrink border).noLF = true ∧ (specCase inp inv w h shrink border).edgeInk = true ∧
      0 ≤ (specCase inp inv w h shrink border).border ∧ Spec.Tile.fitsV (specCase inp inv w h shrink border) LH = true :=
    ⟨Or.inl hf, by unfold specCase; simp [hprop], hsp, rfl, rfl, hb, hfv⟩
  rw [if_pos hcond]
  simp only []
  have hf' : (specCase inp inv w h shrink border).fmt = 10 := hf
  rw [if_pos hf']
  refine band_centred_v inp inv w h shrink border hb _ _ _ t0 inp.title ?_ (by rw [hpt.prop, hprop]; rfl)
    (by rw [hpt.spacing, hsp]; rfl) hpt.tsH hpt.tsV.1 hcr he hfit0 hcx
  intro X Y hX hY
  rw [hrt]
  have key := text_on_start inv w h shrink border t0 inp.title hlf hpt.wrap hpt.tcol hpt.tbg X Y hX hY
  unfold litIn
  simp only []
  constructor
  · rintro ⟨_, _, hl⟩; exact key.1 hl
  · intro hr
    have := lit_rows inv w h shrink border X Y (textR_clip _ _ _ X Y hr)
    exact ⟨this.1, this.2, key.2 hr⟩


/-- lit pixels after rendering two texts on the start canvas = union of the two ink regions -/
theorem two_texts_on_start (inv : Bool) (w h : Nat) (shrink border : Int) (t1 t2 : TextSt) (s1 s2 : List Nat)
    (hs1 : 10 ∉ s1) (hs2 : 10 ∉ s2) (hw1 : t1.wrap = false) (hc1 : t1.tcol = true) (hb1 : t1.tbg = true)
    (hw2 : t2.wrap = false) (hc2 : t2.tcol = true) (hb2 : t2.tbg = true) (X Y : Nat) (hX : X < w) (hY : Y < h) :
    (getPx (renderText ((renderText (startCanvas inv w h shrink border, t1) s1).1, t2) s2).1 X Y ≠ inv) ↔
      (textR (tileGeo inv w h shrink border) t1 s1 X Y ∨ textR (tileGeo inv w h shrink border) t2 s2 X Y) := by
  obtain ⟨hwf, hg, _⟩ := startCanvas_facts inv w h shrink border
  have k1 := text_on_start inv w h shrink border t1 s1 hs1 hw1 hc1 hb1 X Y hX hY
  have p1 := renderText_paint s1 hs1 _ hwf t1 hw1 (by rw [hb1, hc1])
  have p2 := renderText_paint s2 hs2 _ p1.wf t2 hw2 (by rw [hb2, hc2])
  have hg1 : (renderText (startCanvas inv w h shrink border, t1) s1).1.geo = tileGeo inv w h shrink border := by
    rw [p1.geo, hg]
  have hX8 : X < (renderText (startCanvas inv w h shrink border, t1) s1).1.geo.wib * 8 := by
    rw [hg1]; unfold tileGeo; simp only []; omega
  have hY' : Y < (renderText (startCanvas inv w h shrink border, t1) s1).1.geo.H := by rw [hg1]; exact hY
  rw [hg1] at p2
  by_cases hr : textR (tileGeo inv w h shrink border) t2 s2 X Y
  · have := p2.inside X Y hX8 hY' hr
    rw [this, hc2]
    have : (tileGeo inv w h shrink border).inv = inv := rfl
    rw [this]
    cases inv <;> simp [hr]
  · rw [p2.same X Y hX8 hY' hr, k1]
    simp [hr]

theorem lineHeight_small (t : TextSt) (h0 : 1 ≤ t.tsV) (h1 : t.tsV ≤ 4) :
    (lineHeight t : Int) = (t.fp.bbH : Int) * t.tsV := by
  obtain ⟨_, _, _, hall⟩ := font_tables_sized
  obtain ⟨_, _, hbb, _⟩ := hall t.font
  exact lineHeight_eq t (by omega) (by omega) (by unfold TextSt.fp; omega)

/-- **centre**, two-line format: each line whose text box fits the active area is centred to within one pixel -/
theorem centre_ok_fmt11 (inp : TileIn) (inv : Bool) (w h : Nat) (shrink border : Int) (hb : 0 ≤ border)
    (hf : inp.fmt = 11) (hprop : (inp.styling.getD {}).fixedWidth = false)
    (hsp : (inp.styling.getD {}).extraSp.emod 4 = 0)
    (hlf1 : 10 ∉ inp.line1) (hcr1 : 13 ∉ inp.line1) (he1 : edgeAlnum inp.line1 = true)
    (hlf2 : 10 ∉ inp.line2) (hcr2 : 13 ∉ inp.line2) (he2 : edgeAlnum inp.line2 = true)
    (hfit : TileTextVFits inp inv w h shrink border) (LH : Int)
    (hfv : Spec.Tile.fitsV (specCase inp inv w h shrink border) LH = true) :
    Spec.Tile.centreOk (specCase inp inv w h shrink border) (getPx (renderTile inp inv w h shrink border)) LH = true := by
  obtain ⟨t1, t2, hops, hpt1, hst, hcx1, hcy1, hcx2, hcy2⟩ := tileAcc_fmt11 inp w h shrink border hf
  have hpt2 : PlainText inp t2 := hpt1.of_style hst
  have hrt : renderTile inp inv w h shrink border =
      (renderText ((renderText (startCanvas inv w h shrink border, t1) inp.line1).1, t2) inp.line2).1 := by
    rw [renderTile_start, hops]; rfl
  have hfit1 : inp.line1 ≠ [] → TextVFits (tileGeo inv w h shrink border) t1 :=
    hfit t1 inp.line1 (by rw [hops]; simp)
  have hfit2 : inp.line2 ≠ [] → TextVFits (tileGeo inv w h shrink border) t2 :=
    hfit t2 inp.line2 (by rw [hops]; simp)
  unfold Spec.Tile.centreOk
  rw [active_xy inp inv w h shrink border hb]
  have hcond : ((specCase inp inv w h shrink border).fmt = 10 ∨ (specCase inp inv w h shrink border).fmt = 11) ∧
      (specCase inp inv w h shrink border).proportional = true ∧ (specCase inp inv w h shrink border).extraSp.emod 4 = 0 ∧
      (specCase inp inv w h shrink border).noLF = true ∧ (specCase inp inv w h shrink border).edgeInk = true ∧
      0 ≤ (specCase inp inv w h shrink border).border ∧ Spec.Tile.fitsV (specCase inp inv w h shrink border) LH = true :=
    ⟨Or.inr hf, by unfold specCase; simp [hprop], hsp, rfl, rfl, hb, hfv⟩
  rw [if_pos hcond]
  simp only []
  have hf' : ¬ (specCase inp inv w h shrink border).fmt = 10 := by
    show ¬ inp.fmt = 10
    omega
  rw [if_neg hf']
  have emid : border + (border + (activeWH w h shrink border).2 - border) / 2 = border + shr1 (activeWH w h shrink border).2 := by
    unfold shr1
    have : border + (activeWH w h shrink border).2 - border = (activeWH w h shrink border).2 := by omega
    rw [this]
  rw [emid]
  have lh1 := lineHeight_small t1 hpt1.tsV.1 hpt1.tsV.2
  have efp : t2.fp = t1.fp := by unfold TextSt.fp; rw [hst.font]
  have ebyy : (tileGeo inv w h shrink border).byy = border := rfl
  have key : ∀ X Y, X < w → Y < h → _ := fun X Y hX hY =>
    two_texts_on_start inv w h shrink border t1 t2 inp.line1 inp.line2 hlf1 hlf2 hpt1.wrap hpt1.tcol hpt1.tbg
      hpt2.wrap hpt2.tcol hpt2.tbg X Y hX hY
  rw [Bool.and_eq_true]
  constructor
  · refine band_centred_v inp inv w h shrink border hb _ _ _ t1 inp.line1 ?_ (by rw [hpt1.prop, hprop]; rfl)
      (by rw [hpt1.spacing, hsp]; rfl) hpt1.tsH hpt1.tsV.1 hcr1 he1 hfit1 hcx1
    intro X Y hX hY
    rw [hrt]
    unfold litIn
    simp only []
    constructor
    · rintro ⟨_, hlt, hl⟩
      rcases (key X Y hX hY).1 hl with hr | hr
      · exact hr
      · exfalso
        have := (textR_yrange _ _ t2 (by have := hpt2.tsV.1; omega) X Y hr).1
        rw [hcy2, ebyy] at this
        omega
    · intro hr
      have r1 := lit_rows inv w h shrink border X Y (textR_clip _ _ _ X Y hr)
      have r2 := (textR_yrange _ _ t1 (by have := hpt1.tsV.1; omega) X Y hr).2
      rw [hcy1, ebyy, lh1] at r2
      exact ⟨r1.1, by omega, (key X Y hX hY).2 (Or.inl hr)⟩
  · refine band_centred_v inp inv w h shrink border hb _ _ _ t2 inp.line2 ?_ (by rw [hpt2.prop, hprop]; rfl)
      (by rw [hpt2.spacing, hsp]; rfl) hpt2.tsH hpt2.tsV.1 hcr2 he2 hfit2 hcx2
    intro X Y hX hY
    rw [hrt]
    unfold litIn
    simp only []
    constructor
    · rintro ⟨hge, _, hl⟩
      rcases (key X Y hX hY).1 hl with hr | hr
      · exfalso
        have r2 := (textR_yrange _ _ t1 (by have := hpt1.tsV.1; omega) X Y hr).2
        rw [hcy1, ebyy, lh1] at r2
        omega
      · exact hr
    · intro hr
      have r1 := lit_rows inv w h shrink border X Y (textR_clip _ _ _ X Y hr)
      have r2 := (textR_yrange _ _ t2 (by have := hpt2.tsV.1; omega) X Y hr).1
      rw [hcy2, ebyy] at r2
      exact ⟨by omega, r1.2, (key X Y hX hY).2 (Or.inr hr)⟩


/-! ### "fits" from arithmetic on the inputs -/

/-- **fits, from the inputs** (formats 10/11): if the active width is not negative, every non-empty rendered string is —
measured with `StrWidth` in the format's own text state `plainStyle inp`, a function of the styling fields — at most as
wide as the active area, and the line(s) fit vertically (`linesFit`: `LineHeight ≤ activeHeight` for one line,
`2·LineHeight ≤ activeHeight` for two), then every text box the layout emits lies inside the active area -/
theorem fits_of_arith (inp : TileIn) (inv : Bool) (w h : Nat) (shrink border : Int)
    (hfmt : inp.fmt = 10 ∨ inp.fmt = 11)
    (H : ∀ s ∈ (if inp.fmt = 10 then [inp.title] else [inp.line1, inp.line2]), s ≠ [] →
      0 ≤ (activeWH w h shrink border).1 ∧ strWidth (plainStyle inp) s ≤ (activeWH w h shrink border).1 ∧
      linesFit inp (activeWH w h shrink border).2) :
    TileTextFits inp inv w h shrink border := by
  intro t s hm hne
  rcases hfmt with hf | hf
  · obtain ⟨t0, hops, hpt, hcx, hcy⟩ := tileAcc_fmt10 inp w h shrink border hf
    obtain ⟨x, y, hops'⟩ := tileAcc_fmt10_style inp w h shrink border hf
    rw [hops] at hm hops'
    simp only [List.mem_singleton, DOp.text.injEq] at hm
    obtain ⟨rfl, rfl⟩ := hm
    have et : t = setCursor (plainStyle inp) x y := by
      have := congrArg (fun a => a[0]?) hops'
      simpa using this
    have hst : SameStyle (plainStyle inp) t := by rw [et]; exact setCursor_style _ _ _
    obtain ⟨h0, hw, hl⟩ := H inp.title (by rw [if_pos hf]; simp) hne
    unfold linesFit at hl
    rw [if_pos hf, ← lineHeight_style _ _ hst] at hl
    rw [← strWidth_style _ _ hst] at hw
    have lh := lineHeight_small t hpt.tsV.1 hpt.tsV.2
    obtain ⟨c1, c2⟩ := shr1_fit _ _ h0 hw
    refine ⟨by rw [hcx]; exact c1, by rw [hcx]; exact c2, ?_, ?_⟩
    · rw [hcy]; unfold shr1; omega
    · show t.cy + (t.fp.bbH : Int) * t.tsV ≤ (activeWH w h shrink border).2
      rw [hcy, ← lh]; unfold shr1; omega
  · obtain ⟨t1, t2, hops, hpt1, hst12, hcx1, hcy1, hcx2, hcy2⟩ := tileAcc_fmt11 inp w h shrink border hf
    obtain ⟨x1, y1, t2', hops', hst2'⟩ := tileAcc_fmt11_style inp w h shrink border hf
    have h10 : ¬ inp.fmt = 10 := by omega
    rw [hops] at hm hops'
    have e1 : t1 = setCursor (plainStyle inp) x1 y1 := by
      have := congrArg (fun a => a[0]?) hops'
      simpa using this
    have hs1 : SameStyle (plainStyle inp) t1 := by rw [e1]; exact setCursor_style _ _ _
    have hs2 : SameStyle (plainStyle inp) t2 := hs1.trans hst12
    have hpt2 : PlainText inp t2 := hpt1.of_style hst12
    simp only [List.mem_cons, DOp.text.injEq, List.mem_nil_iff, or_false] at hm
    rcases hm with ⟨rfl, rfl⟩ | ⟨rfl, rfl⟩
    · obtain ⟨h0, hw, hl⟩ := H inp.line1 (by rw [if_neg h10]; simp) hne
      unfold linesFit at hl
      rw [if_neg h10, ← lineHeight_style _ _ hs1] at hl
      rw [← strWidth_style _ _ hs1] at hw
      have lh := lineHeight_small t hpt1.tsV.1 hpt1.tsV.2
      obtain ⟨c1, c2⟩ := shr1_fit _ _ h0 hw
      refine ⟨by rw [hcx1]; exact c1, by rw [hcx1]; exact c2, ?_, ?_⟩
      · rw [hcy1]; unfold shr1; omega
      · show t.cy + (t.fp.bbH : Int) * t.tsV ≤ (activeWH w h shrink border).2
        rw [hcy1, ← lh]; unfold shr1; omega
    · obtain ⟨h0, hw, hl⟩ := H inp.line2 (by rw [if_neg h10]; simp) hne
      unfold linesFit at hl
      rw [if_neg h10, ← lineHeight_style _ _ hs2] at hl
      rw [← strWidth_style _ _ hs2] at hw
      have lh := lineHeight_small t hpt2.tsV.1 hpt2.tsV.2
      obtain ⟨c1, c2⟩ := shr1_fit _ _ h0 hw
      refine ⟨by rw [hcx2]; exact c1, by rw [hcx2]; exact c2, ?_, ?_⟩
      · rw [hcy2]; unfold shr1; omega
      · show t.cy + (t.fp.bbH : Int) * t.tsV ≤ (activeWH w h shrink border).2
        rw [hcy2, ← lh]; unfold shr1; omega

/-- the strings the one/two-line formats render -/
def plainStrings (inp : TileIn) : List (List Nat) := if inp.fmt = 10 then [inp.title] else [inp.line1, inp.line2]

/-- **centre** (`Spec.Tile.centreOk`): formats 10/11, proportional, no extra spacing; rendered strings without LF/CR
whose first and last characters are ASCII letters or digits (the Spec's `noLF`, `edgeInk`).  Hypothesis beyond the
Spec's own guard ("the observed ink is strictly inside the active area"): every rendered text box fits the active area
(`TileTextFits`) — hence `_partial`.  Then in every row band the first/last lit columns are exactly the ends of the text
box, and left and right margin differ by at most one pixel. -/
theorem centre_ok_partial (inp : TileIn) (inv : Bool) (w h : Nat) (shrink border : Int) (hb : 0 ≤ border)
    (hstr : ∀ s ∈ plainStrings inp, 10 ∉ s ∧ 13 ∉ s ∧ edgeAlnum s = true)
    (hfit : TileTextFits inp inv w h shrink border) (LH : Int) :
    Spec.Tile.centreOk (specCase inp inv w h shrink border) (getPx (renderTile inp inv w h shrink border)) LH = true := by
  by_cases hcond : ((specCase inp inv w h shrink border).fmt = 10 ∨ (specCase inp inv w h shrink border).fmt = 11) ∧
      (specCase inp inv w h shrink border).proportional = true ∧ (specCase inp inv w h shrink border).extraSp.emod 4 = 0 ∧
      (specCase inp inv w h shrink border).noLF = true ∧ (specCase inp inv w h shrink border).edgeInk = true ∧
      0 ≤ (specCase inp inv w h shrink border).border ∧ Spec.Tile.fitsV (specCase inp inv w h shrink border) LH = true
  · obtain ⟨hfmt, hprop, hsp, _, _, _, hfv⟩ := hcond
    have hprop' : (inp.styling.getD {}).fixedWidth = false := by
      have : (!(inp.styling.getD {}).fixedWidth) = true := hprop
      simpa using this
    rcases hfmt with hf | hf
    · have hf' : inp.fmt = 10 := hf
      obtain ⟨a, b, c⟩ := hstr inp.title (by unfold plainStrings; rw [if_pos hf']; simp)
      exact centre_ok_fmt10 inp inv w h shrink border hb hf' hprop' hsp a b c hfit.v LH hfv
    · have hf' : inp.fmt = 11 := hf
      have h10 : ¬ inp.fmt = 10 := by omega
      obtain ⟨a1, b1, c1⟩ := hstr inp.line1 (by unfold plainStrings; rw [if_neg h10]; simp)
      obtain ⟨a2, b2, c2⟩ := hstr inp.line2 (by unfold plainStrings; rw [if_neg h10]; simp)
      exact centre_ok_fmt11 inp inv w h shrink border hb hf' hprop' hsp a1 b1 c1 a2 b2 c2 hfit.v LH hfv
  · unfold Spec.Tile.centreOk
    rw [if_neg hcond]

/-- **vertical fit, from the inputs** (formats 10/11): if the line(s) fit vertically (`linesFit`: `LineHeight ≤ activeHeight`
for one line, `2·LineHeight ≤ activeHeight` for two), every text box the layout emits lies vertically inside the active area -/
theorem vfits_of_arith (inp : TileIn) (inv : Bool) (w h : Nat) (shrink border : Int)
    (hfmt : inp.fmt = 10 ∨ inp.fmt = 11) (hl : linesFit inp (activeWH w h shrink border).2) :
    TileTextVFits inp inv w h shrink border := by
  intro t s hm hne
  rcases hfmt with hf | hf
  · obtain ⟨t0, hops, hpt, hcx, hcy⟩ := tileAcc_fmt10 inp w h shrink border hf
    obtain ⟨x, y, hops'⟩ := tileAcc_fmt10_style inp w h shrink border hf
    rw [hops] at hm hops'
    simp only [List.mem_singleton, DOp.text.injEq] at hm
    obtain ⟨rfl, rfl⟩ := hm
    have et : t = setCursor (plainStyle inp) x y := by
      have := congrArg (fun a => a[0]?) hops'
      simpa using this
    have hst : SameStyle (plainStyle inp) t := by rw [et]; exact setCursor_style _ _ _
    unfold linesFit at hl
    rw [if_pos hf, ← lineHeight_style _ _ hst] at hl
    have lh := lineHeight_small t hpt.tsV.1 hpt.tsV.2
    refine ⟨?_, ?_⟩
    · rw [hcy]; unfold shr1; omega
    · show t.cy + (t.fp.bbH : Int) * t.tsV ≤ (activeWH w h shrink border).2
      rw [hcy, ← lh]; unfold shr1; omega
  · obtain ⟨t1, t2, hops, hpt1, hst12, hcx1, hcy1, hcx2, hcy2⟩ := tileAcc_fmt11 inp w h shrink border hf
    obtain ⟨x1, y1, t2', hops', hst2'⟩ := tileAcc_fmt11_style inp w h shrink border hf
    have h10 : ¬ inp.fmt = 10 := by omega
    rw [hops] at hm hops'
    have e1 : t1 = setCursor (plainStyle inp) x1 y1 := by
      have := congrArg (fun a => a[0]?) hops'
      simpa using this
    have hs1 : SameStyle (plainStyle inp) t1 := by rw [e1]; exact setCursor_style _ _ _
    have hs2 : SameStyle (plainStyle inp) t2 := hs1.trans hst12
    have hpt2 : PlainText inp t2 := hpt1.of_style hst12
    unfold linesFit at hl
    rw [if_neg h10] at hl
    simp only [List.mem_cons, DOp.text.injEq, List.mem_nil_iff, or_false] at hm
    rcases hm with ⟨rfl, rfl⟩ | ⟨rfl, rfl⟩
    · rw [← lineHeight_style _ _ hs1] at hl
      have lh := lineHeight_small t hpt1.tsV.1 hpt1.tsV.2
      refine ⟨?_, ?_⟩
      · rw [hcy1]; unfold shr1; omega
      · show t.cy + (t.fp.bbH : Int) * t.tsV ≤ (activeWH w h shrink border).2
        rw [hcy1, ← lh]; unfold shr1; omega
    · rw [← lineHeight_style _ _ hs2] at hl
      have lh := lineHeight_small t hpt2.tsV.1 hpt2.tsV.2
      refine ⟨?_, ?_⟩
      · rw [hcy2]; unfold shr1; omega
      · show t.cy + (t.fp.bbH : Int) * t.tsV ≤ (activeWH w h shrink border).2
        rw [hcy2, ← lh]; unfold shr1; omega

/-- the centring clause from vertical fit alone (horizontally the text may fit or be too wide) -/
theorem centre_ok_vpartial (inp : TileIn) (inv : Bool) (w h : Nat) (shrink border : Int) (hb : 0 ≤ border)
    (hstr : ∀ s ∈ plainStrings inp, 10 ∉ s ∧ 13 ∉ s ∧ edgeAlnum s = true)
    (hfit : TileTextVFits inp inv w h shrink border) (LH : Int) :
    Spec.Tile.centreOk (specCase inp inv w h shrink border) (getPx (renderTile inp inv w h shrink border)) LH = true := by
  by_cases hcond : ((specCase inp inv w h shrink border).fmt = 10 ∨ (specCase inp inv w h shrink border).fmt = 11) ∧
      (specCase inp inv w h shrink border).proportional = true ∧ (specCase inp inv w h shrink border).extraSp.emod 4 = 0 ∧
      (specCase inp inv w h shrink border).noLF = true ∧ (specCase inp inv w h shrink border).edgeInk = true ∧
      0 ≤ (specCase inp inv w h shrink border).border ∧ Spec.Tile.fitsV (specCase inp inv w h shrink border) LH = true
  · obtain ⟨hfmt, hprop, hsp, _, _, _, hfv⟩ := hcond
    have hprop' : (inp.styling.getD {}).fixedWidth = false := by
      have : (!(inp.styling.getD {}).fixedWidth) = true := hprop
      simpa using this
    rcases hfmt with hf | hf
    · have hf' : inp.fmt = 10 := hf
      obtain ⟨a, b, c⟩ := hstr inp.title (by unfold plainStrings; rw [if_pos hf']; simp)
      exact centre_ok_fmt10 inp inv w h shrink border hb hf' hprop' hsp a b c hfit LH hfv
    · have hf' : inp.fmt = 11 := hf
      have h10 : ¬ inp.fmt = 10 := by omega
      obtain ⟨a1, b1, c1⟩ := hstr inp.line1 (by unfold plainStrings; rw [if_neg h10]; simp)
      obtain ⟨a2, b2, c2⟩ := hstr inp.line2 (by unfold plainStrings; rw [if_neg h10]; simp)
      exact centre_ok_fmt11 inp inv w h shrink border hb hf' hprop' hsp a1 b1 c1 a2 b2 c2 hfit LH hfv
  · unfold Spec.Tile.centreOk
    rw [if_neg hcond]

/-- the line height the renderer reports after the call (`LineHeight()` of the returned image) -/
def tileLineHeight (inp : TileIn) (w h : Nat) (shrink border : Int) : Int := lineHeight (tileAcc inp w h shrink border).t

/-- **centre** (`Spec.Tile.centreOk`), **no hypothesis beyond the Spec's own domain**: for every text state whose rendered
strings of the one/two-line formats contain no LF/CR and start and end with a letter or digit (the Spec's `noLF`,
`edgeInk`), every geometry and inversion, the clause holds of the rendering and the reported line height.  The Spec's
guard — formats 10/11, proportional, no extra spacing, border ≥ 0, the line(s) fit the active height (`fitsV`, with the
renderer's own `LineHeight()`) — gives `linesFit` on the inputs; then a text that fits horizontally has its ink ends at the
box ends (`fits_of_arith`, `text_ink_extent`), and a too-wide text shows nothing or ink in the left-most active column
(`text_left_touch`).  `centre_needs_vertical_fit_counterexample`: the guard `fitsV` cannot be dropped. -/
theorem centre_ok (inp : TileIn) (inv : Bool) (w h : Nat) (shrink border : Int)
    (hstr : ∀ s ∈ plainStrings inp, 10 ∉ s ∧ 13 ∉ s ∧ edgeAlnum s = true) :
    Spec.Tile.centreOk (specCase inp inv w h shrink border) (getPx (renderTile inp inv w h shrink border))
      (tileLineHeight inp w h shrink border) = true := by
  by_cases hg : (inp.fmt = 10 ∨ inp.fmt = 11) ∧ 0 ≤ border ∧
      Spec.Tile.fitsV (specCase inp inv w h shrink border) (tileLineHeight inp w h shrink border) = true
  · obtain ⟨hfmt, hb, hfv⟩ := hg
    have hl : linesFit inp (activeWH w h shrink border).2 := by
      have hst := tileAcc_plain_t inp w h shrink border hfmt
      have e : (lineHeight (plainStyle inp) : Int) = tileLineHeight inp w h shrink border := by
        unfold tileLineHeight; rw [lineHeight_style _ _ hst]
      unfold Spec.Tile.fitsV at hfv
      rw [active_xy inp inv w h shrink border hb] at hfv
      simp only [] at hfv
      have efmt : (specCase inp inv w h shrink border).fmt = inp.fmt := rfl
      rw [efmt] at hfv
      unfold linesFit
      rw [e]
      by_cases h10 : inp.fmt = 10
      · rw [if_pos h10] at hfv ⊢; simp only [decide_eq_true_eq] at hfv; omega
      · rw [if_neg h10] at hfv ⊢; simp only [decide_eq_true_eq] at hfv; omega
    exact centre_ok_vpartial inp inv w h shrink border hb hstr (vfits_of_arith inp inv w h shrink border hfmt hl) _
  · unfold Spec.Tile.centreOk
    rw [if_neg]
    intro hc
    exact hg ⟨hc.1, hc.2.2.2.2.2.1, hc.2.2.2.2.2.2⟩

/-- **the vertical-fit guard of the centring clause is needed** (the property text says "fits … horizontally and
vertically"): two lines in a 64×4 tile (`LineHeight` 8), second line "j" — only the dot of the j is visible, strictly
inside the active area, 33 dark columns to its left and 30 to its right.  Without the guard (`lineH := 0`) the clause is
false of this rendering; with the reported line height 8 it does not apply.  Reproduced on the real renderer:
record `tile.render 64 4 0 0 0 0 0 11 0 0 0 0 - - 6a ~ ~ ~ ~ 0 0`. -/
theorem centre_needs_vertical_fit_counterexample :
    Spec.Tile.centreOk (specCase { fmt := 11, line2 := [106] } false 64 4 0 0)
      (getPx (renderTile { fmt := 11, line2 := [106] } false 64 4 0 0)) 0 = false ∧
    tileLineHeight { fmt := 11, line2 := [106] } 64 4 0 0 = 8 ∧
    (∀ s ∈ plainStrings { fmt := 11, line2 := [106] }, 10 ∉ s ∧ 13 ∉ s ∧ edgeAlnum s = true) := by
  decide +kernel

/-- **all clauses of `Spec.Tile.check` together** for a rendering, its inverted twin, the argument after the call and
the RGB565 export (determinism holds by construction: `renderTile` is a function), under the hypotheses of
`centre_ok_partial` -/
theorem tile_check_partial (inp : TileIn) (inv : Bool) (w h : Nat) (shrink border : Int) (hb : 0 ≤ border)
    (hstr : ∀ s ∈ plainStrings inp, 10 ∉ s ∧ 13 ∉ s ∧ edgeAlnum s = true)
    (hfit : TileTextFits inp inv w h shrink border) :
    Spec.Tile.check (specCase inp inv w h shrink border)
      (renderTile inp inv w h shrink border).geo.W (renderTile inp inv w h shrink border).geo.H
      (renderTile inp inv w h shrink border).bytes.size (renderTile inp (!inv) w h shrink border).bytes.size
      (getPx (renderTile inp inv w h shrink border)) (getPx (renderTile inp (!inv) w h shrink border))
      (tileColours inp).1 (tileColours inp).2 true (obsArg inp inv) (obsArg (fillNil inp) inv)
      ((tileRGB inp inv w h shrink border).map (fun r => (r.size, Pix.byteAt r))) (tileLineHeight inp w h shrink border) = none := by
  have s1 := tile_size_ok inp inv w h shrink border
  have s2 := (tile_size_ok inp (!inv) w h shrink border).1.2.2
  simp only [] at s1
  have hsz : (renderTile inp (!inv) w h shrink border).bytes.size = (renderTile inp inv w h shrink border).bytes.size := by
    rw [s2, s1.1.2.2]
  obtain ⟨rgb, hr, hx⟩ := tile_export inp inv w h shrink border
  unfold Spec.Tile.check
  rw [hsz, s1.2, tile_active_ok, tile_inversion_ok, tile_colours_ok, centre_ok_partial inp inv w h shrink border hb hstr hfit,
    tile_argument_ok]
  have hx' : Spec.Tile.exportOk (specCase inp inv w h shrink border) (getPx (renderTile inp inv w h shrink border))
      ((tileRGB inp inv w h shrink border).map (fun r => (r.size, Pix.byteAt r))) = true := by
    rw [hr]; exact hx
  rw [hx']
  rfl

/-- **all clauses of `Spec.Tile.check` together**, for every text state whose one/two-line strings are in the Spec's domain
(no LF/CR, alphanumeric ends), every geometry and inversion: rendering, inverted twin, colours, argument after the call,
RGB565 export, reported line height -/
theorem tile_check (inp : TileIn) (inv : Bool) (w h : Nat) (shrink border : Int)
    (hstr : ∀ s ∈ plainStrings inp, 10 ∉ s ∧ 13 ∉ s ∧ edgeAlnum s = true) :
    Spec.Tile.check (specCase inp inv w h shrink border)
      (renderTile inp inv w h shrink border).geo.W (renderTile inp inv w h shrink border).geo.H
      (renderTile inp inv w h shrink border).bytes.size (renderTile inp (!inv) w h shrink border).bytes.size
      (getPx (renderTile inp inv w h shrink border)) (getPx (renderTile inp (!inv) w h shrink border))
      (tileColours inp).1 (tileColours inp).2 true (obsArg inp inv) (obsArg (fillNil inp) inv)
      ((tileRGB inp inv w h shrink border).map (fun r => (r.size, Pix.byteAt r))) (tileLineHeight inp w h shrink border) = none := by
  have s1 := tile_size_ok inp inv w h shrink border
  have s2 := (tile_size_ok inp (!inv) w h shrink border).1.2.2
  simp only [] at s1
  have hsz : (renderTile inp (!inv) w h shrink border).bytes.size = (renderTile inp inv w h shrink border).bytes.size := by
    rw [s2, s1.1.2.2]
  obtain ⟨rgb, hr, hx⟩ := tile_export inp inv w h shrink border
  unfold Spec.Tile.check
  rw [hsz, s1.2, tile_active_ok, tile_inversion_ok, tile_colours_ok, centre_ok inp inv w h shrink border hstr,
    tile_argument_ok]
  have hx' : Spec.Tile.exportOk (specCase inp inv w h shrink border) (getPx (renderTile inp inv w h shrink border))
      ((tileRGB inp inv w h shrink border).map (fun r => (r.size, Pix.byteAt r))) = true := by
    rw [hr]; exact hx
  rw [hx']
  rfl

/-- non-vacuity of `centre_ok` / `tile_check` (one line): "Ab1" is 15 pixels wide and 8 high, the tile 64×32 -/
def exOneLine : TileIn := { fmt := 10, title := [65, 98, 49] }
example :
    (∀ s ∈ plainStrings exOneLine, 10 ∉ s ∧ 13 ∉ s ∧ edgeAlnum s = true) ∧
    (∀ s ∈ plainStrings exOneLine, strWidth (plainStyle exOneLine) s ≤ (activeWH 64 32 0 0).1) ∧
    linesFit exOneLine (activeWH 64 32 0 0).2 ∧
    strWidth (plainStyle exOneLine) [65, 98, 49] = 15 ∧ lineHeight (plainStyle exOneLine) = 8 := by
  decide +kernel

/-- non-vacuity (two lines, size 2, one pixel shaved off by `shrink`, border 1) -/
def exTwoLines : TileIn := { fmt := 11, line1 := [72, 105], line2 := [55, 120, 90], styling := some { unfSize := 2 } }
example :
    (∀ s ∈ plainStrings exTwoLines, 10 ∉ s ∧ 13 ∉ s ∧ edgeAlnum s = true) ∧
    (∀ s ∈ plainStrings exTwoLines, strWidth (plainStyle exTwoLines) s ≤ (activeWH 64 34 1 1).1) ∧
    linesFit exTwoLines (activeWH 64 34 1 1).2 := by
  decide +kernel

/-- the width hypothesis is a real restriction: ten capital W at size 2 do not fit 64 pixels -/
example : ¬ strWidth (plainStyle { fmt := 10, title := List.replicate 10 87, styling := some { unfSize := 2 } })
    (List.replicate 10 87) ≤ (activeWH 64 32 0 0).1 := by decide +kernel

/-- the text operations of an operation list (decidable view used by the examples) -/
def textOf : DOp → Option (TextSt × List Nat)
  | .text t s => some (t, s)
  | _ => none

/-- non-vacuity (one line): "Ab1" on a 64×32 tile: box at x = 24, width 15 (margins 24 / 25), y = 12, height 8 -/
example :
    let inp : TileIn := { fmt := 10, title := [65, 98, 49] }
    (∀ s ∈ plainStrings inp, 10 ∉ s ∧ 13 ∉ s ∧ edgeAlnum s = true) ∧ TileTextFits inp false 64 32 0 0 := by
  refine ⟨by decide, ?_⟩
  intro t s hm _
  have hops : (tileAcc { fmt := 10, title := [65, 98, 49] } ((64 : Nat) : Int) ((32 : Nat) : Int) 0 0).ops.toList.map textOf =
      [some ({ font := 0, prop := true, spacing := 0, cx := 24, cy := 12, tcol := true, tbg := true, tsH := 1,
               tsV := 1, wrap := false }, [65, 98, 49])] := by decide +kernel
  have := List.mem_map_of_mem (f := textOf) hm
  rw [hops] at this
  simp only [textOf, List.mem_singleton, Option.some.injEq, Prod.mk.injEq] at this
  obtain ⟨rfl, rfl⟩ := this
  constructor <;> decide +kernel

/-- non-vacuity (two lines, size 2, width shrunk by one): "Hi" / "7xZ" on a 64×32 tile -/
example :
    let inp : TileIn := { fmt := 11, line1 := [72, 105], line2 := [55, 120, 90], styling := some { unfSize := 2 } }
    (∀ s ∈ plainStrings inp, 10 ∉ s ∧ 13 ∉ s ∧ edgeAlnum s = true) ∧ TileTextFits inp true 64 32 1 0 := by
  refine ⟨by decide, ?_⟩
  intro t s hm _
  have hops : (tileAcc { fmt := 11, line1 := [72, 105], line2 := [55, 120, 90], styling := some { unfSize := 2 } }
      ((64 : Nat) : Int) ((32 : Nat) : Int) 1 0).ops.toList.map textOf =
      [some ({ font := 0, prop := true, spacing := 0, cx := 22, cy := 0, tcol := true, tbg := true, tsH := 2,
               tsV := 2, wrap := false }, [72, 105]),
       some ({ font := 0, prop := true, spacing := 0, cx := 14, cy := 16, tcol := true, tbg := true, tsH := 2,
               tsV := 2, wrap := false }, [55, 120, 90])] := by decide +kernel
  have := List.mem_map_of_mem (f := textOf) hm
  rw [hops] at this
  simp only [textOf, List.mem_cons, Option.some.injEq, Prod.mk.injEq, List.mem_nil_iff, or_false] at this
  rcases this with ⟨rfl, rfl⟩ | ⟨rfl, rfl⟩ <;> constructor <;> decide +kernel

end RawPanelVerif.C18
