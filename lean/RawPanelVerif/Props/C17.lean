import RawPanelVerif.Lemmas.PixLemmas
import RawPanelVerif.Lemmas.PixGray
import RawPanelVerif.Lemmas.MonoOps
import RawPanelVerif.Spec.PixSpec
/-!
# C17 — pixel-format conversions agree with each other and with the mono bitmap

Property theorems only.  The statements are the executable predicates of `Spec/PixSpec.lean` (the same ones the
check evaluates on the implementation's outputs) applied to the outputs of `Model/Pix.lean`, in which every Go
slice access is `a[i]?` (`none` = index-out-of-range panic).  All theorems are for **all** sizes (0 and odd
included), all bit patterns, all data lengths and all target canvas sizes; nothing is enumerated except the
64-entry colour table.

(1) `sliceRGB_size`, `sliceRGB_pixel`, `sliceGray_size` (all widths), `sliceGray_pixel` (even widths), `export_holds`
(2) `sixbit_table` (64 codes by `decide`), `sixbit_closed_form`, `sixbit_to_565` (every code incl. the don't-care bits)
(3) `mono_image_roundtrip`, `roundtrip_holds`
(4) `expansion_mono`, `expansion_rgb`, `expansion_gray`, `routines_agree`, `rwp_centering`, `rwp_uncovered_black` (the rest
    of the target canvas is black: with `rwp_centering` the whole output of `RwpImgToImage` is determined), `gfx_holds`,
    `short_data_no_panic` (index panics: never; allocation panics: never when `4·W·H` fits an `int`),
    `huge_size_panics_counterexample`
Also: `sliceGray_content` (every byte of the grey export for **every** width, odd ones included), `export_of_long`
(`CreateFromBytes` with a slice longer than `⌈w/8⌉·h`: the C16 constructor, well-formed, exports unaffected).
`short_mono_png_black_counterexample`: the defect of the pinned tree (repaired by `fix-C17-short-mono.patch`).
Objects in use (`Model/Pix.lean` `Obj`, `ObjCall`: the `pix.obj` records): `applyObj_good` / `runObj_good` (no call of any
history panics, the canvas stays well-formed), `obj_export_holds` (clause (1) after ANY call history, for the colours the
object shows at that moment), `obj_roundtrip_holds` (a conversion into a used object does not depend on what it held;
clause (3)), `obj_self_roundtrip_holds`.  The placement fields `XYoffset`/`X`/`Y` of a graphics message are not parameters of
any modelled conversion nor of `Spec.Pix.checkGfx` (records `pix.gfxo` set them; `rwp_centering` is the placement rule).
Conversions in a row whose results the caller keeps (records `pix.seq`): no theorem of its own — every modelled conversion is
a function of its arguments (no state between calls in `Model/Pix.lean`), so the model prints each result identically
right after its call and after the later calls; the run compares both printings of the implementation with it and adds the
clause `retained` (`Driver/Pix.seqSpec`: the tokens printed at the end equal the tokens printed right after the call).

**Observations outside the domain** (the property quantifies over "declared sizes up to a few hundred pixels"; `HWCGfx.W/H`
are `uint32` taken from the message unchecked; reproduced on the unchanged library with a state of one data byte):
* `W = H = 2^31`: `ConvertGfxStateToPngBytes` panics in all three formats (mono: `makeslice: len out of range` in `NewImage`;
  RGB / grey: `image: NewRGBA Rectangle has huge or negative dimensions`) — `huge_size_panics_counterexample`;
* `W = H = 65536`, RGB: `image.NewRGBA` asks for 16 GiB (`fatal error: out of memory` under a 4 GB limit, not recoverable);
  20000 × 20000 with one data byte: 1.5 GiB resident, 6.7 s;
* `RwpImgToImage` with `W = H = 2^31` into an 8 × 8 target allocates nothing but loops `W·H = 2^62` times.
Such sizes are kept out of the generator.
-/
namespace RawPanelVerif.C17
open RawPanelVerif RawPanelVerif.Mono RawPanelVerif.Pix

/-! ## (1) exports -/

/-- RGB565 export: exactly `2·w·h` bytes, any canvas size -/
theorem sliceRGB_size (c : Canvas) (hwf : c.WF) (pcol bcol : Nat) :
    ∃ out, sliceRGB c pcol bcol = some out ∧ out.size = 2 * c.geo.W * c.geo.H := by
  obtain ⟨out, h1, h2, _⟩ := sliceRGB_spec c hwf pcol bcol
  exact ⟨out, h1, by rw [h2, Nat.mul_comm (c.geo.W * c.geo.H) 2, Nat.mul_assoc]⟩

/-- RGB565 export: pixel (x,y) is the big-endian 16-bit pixel / background colour according to its bit; all widths -/
theorem sliceRGB_pixel (c : Canvas) (hwf : c.WF) (pcol bcol : Nat) (hp : pcol < 65536) (hb : bcol < 65536) :
    ∃ out, sliceRGB c pcol bcol = some out ∧
      ∀ x y, x < c.geo.W → y < c.geo.H →
        byteAt out (2 * (y * c.geo.W + x)) = (if getPx c x y then pcol else bcol) / 256 ∧
        byteAt out (2 * (y * c.geo.W + x) + 1) = (if getPx c x y then pcol else bcol) % 256 := by
  obtain ⟨out, h1, _, h3⟩ := sliceRGB_spec c hwf pcol bcol
  refine ⟨out, h1, ?_⟩
  intro x y hx hy
  obtain ⟨g1, g2⟩ := h3 x y hx hy
  unfold byteAt
  rw [Array.getD_eq_getD_getElem?, g1, Array.getD_eq_getD_getElem?, g2]
  unfold hiB loB
  cases getPx c x y <;> simp [msb_toNat _ hp, msb_toNat _ hb] <;> rw [and_255] <;> omega

/-- 4-bit-grey export: exactly `w·h/2` bytes and no panic, for every width (odd ones included) -/
theorem sliceGray_size (c : Canvas) (hwf : c.WF) (pcol bcol : Nat) :
    ∃ out, sliceGray c pcol bcol = some out ∧ out.size = c.geo.W * c.geo.H / 2 :=
  sliceGray_total c hwf pcol bcol

/-- 4-bit-grey export, even widths: pixel number `i = y·w+x` sits in byte `i/2`, first pixel in the high nibble,
and is the top nibble of the luma of the pixel / background colour according to its bit -/
theorem sliceGray_pixel (c : Canvas) (hwf : c.WF) (pcol bcol : Nat) (hev : c.geo.W % 2 = 0) :
    ∃ out, sliceGray c pcol bcol = some out ∧
      ∀ x y, x < c.geo.W → y < c.geo.H →
        (if (y * c.geo.W + x) % 2 = 0 then byteAt out ((y * c.geo.W + x) / 2) / 16
          else byteAt out ((y * c.geo.W + x) / 2) % 16) =
        Spec.Pix.luma8 (if getPx c x y then pcol else bcol) / 16 := by
  obtain ⟨out, h1, _, h3⟩ := sliceGray_spec c hwf pcol bcol hev
  refine ⟨out, h1, ?_⟩
  intro x y hx hy
  have := h3 x y hx hy
  have hv : (gv c (rgb16ToGray pcol) (rgb16ToGray bcol) x y >>> 4).toNat =
      Spec.Pix.luma8 (if getPx c x y then pcol else bcol) / 16 := by
    rw [BitVec.toNat_ushiftRight, Nat.shiftRight_eq_div_pow]
    unfold gv
    cases getPx c x y <;> simp only [if_true, Bool.false_eq_true, if_false, rgb16ToGray_eq]
  rw [← hv, ← this]
  unfold nibOf byteAt
  by_cases hodd : (y * c.geo.W + x) % 2 = 0
  · rw [if_pos hodd, if_pos hodd, BitVec.toNat_ushiftRight, Nat.shiftRight_eq_div_pow]
  · rw [if_neg hodd, if_neg hodd, BitVec.toNat_and]
    show _ = _ &&& 15
    rw [and_15]

/-- **4-bit-grey export, every width — odd ones included**: byte `p` of the output belongs to row `p / ⌈w/2⌉` and holds the
pair of stored bits `2j`, `2j+1` (`j = p % ⌈w/2⌉`) of that row: high nibble = top nibble of the luma of the first, low nibble
of the second.  For odd `w` the second bit of a row's last pair is the padding bit at column `w`, and the pairs beyond the
`⌊w·h/2⌋` bytes that exist are dropped.  (Even `w`: this is `sliceGray_pixel`.) -/
theorem sliceGray_content (c : Canvas) (hwf : c.WF) (pcol bcol : Nat) :
    ∃ out, sliceGray c pcol bcol = some out ∧ out.size = c.geo.W * c.geo.H / 2 ∧
      ∀ p, p < c.geo.W * c.geo.H / 2 →
        byteAt out p / 16 =
          Spec.Pix.luma8 (if getPx c (2 * (p % ((c.geo.W + 1) / 2))) (p / ((c.geo.W + 1) / 2)) then pcol else bcol) / 16 ∧
        byteAt out p % 16 =
          Spec.Pix.luma8 (if getPx c (2 * (p % ((c.geo.W + 1) / 2)) + 1) (p / ((c.geo.W + 1) / 2)) then pcol else bcol) / 16 := by
  obtain ⟨out, h1, h2, h3⟩ := sliceGray_bytes c hwf pcol bcol
  refine ⟨out, h1, h2, ?_⟩
  intro p hp
  have hb := h3 p hp
  have hv : ∀ x y, (gv c (rgb16ToGray pcol) (rgb16ToGray bcol) x y >>> 4).toNat =
      Spec.Pix.luma8 (if getPx c x y then pcol else bcol) / 16 := by
    intro x y
    rw [BitVec.toNat_ushiftRight, Nat.shiftRight_eq_div_pow]
    unfold gv
    cases getPx c x y <;> simp only [if_true, Bool.false_eq_true, if_false, rgb16ToGray_eq]
  have hget : out.getD p 0#8 = pairByte c (rgb16ToGray pcol) (rgb16ToGray bcol) (2 * (p % ((c.geo.W + 1) / 2))) (p / ((c.geo.W + 1) / 2)) := by
    rw [Array.getD_eq_getD_getElem?, hb]; rfl
  unfold byteAt
  rw [hget]
  constructor
  · rw [← hv, ← pairByte_hi, BitVec.toNat_ushiftRight, Nat.shiftRight_eq_div_pow]
  · rw [← hv, ← pairByte_lo, BitVec.toNat_and]
    show _ = _ &&& 15
    rw [and_15]

/-- **clause (1)** through the Spec predicate: both exports of any well-formed mono image satisfy `checkExport` -/
theorem export_holds (c : Canvas) (hwf : c.WF) (pcol bcol : Nat) (hp : pcol < 65536) (hb : bcol < 65536) :
    ∃ rgb gray, sliceRGB c pcol bcol = some rgb ∧ sliceGray c pcol bcol = some gray ∧
      Spec.Pix.checkExport c.geo.W c.geo.H (getPx c) pcol bcol rgb.size (byteAt rgb) gray.size (byteAt gray) = none := by
  obtain ⟨rgb, r1, r2⟩ := sliceRGB_size c hwf pcol bcol
  obtain ⟨rgb', r1', r3⟩ := sliceRGB_pixel c hwf pcol bcol hp hb
  rw [r1] at r1'; cases r1'
  obtain ⟨gray, g1, g2⟩ := sliceGray_size c hwf pcol bcol
  refine ⟨rgb, gray, r1, g1, ?_⟩
  unfold Spec.Pix.checkExport
  rw [if_neg (by simp [r2]), if_neg (by simp [g2])]
  have hrgb : (Spec.Pix.allPixels c.geo.W c.geo.H).find?
      (fun p => !Spec.Pix.rgbPixelOk c.geo.W (getPx c) pcol bcol (byteAt rgb) p) = none := by
    rw [List.find?_eq_none]
    intro p hp'
    obtain ⟨hx, hy⟩ := mem_allPixels hp'
    obtain ⟨e1, e2⟩ := r3 p.1 p.2 hx hy
    simp [Spec.Pix.rgbPixelOk, e1, e2]
  rw [hrgb]
  simp only []
  by_cases hev : c.geo.W % 2 = 0
  · rw [if_pos hev]
    obtain ⟨gray', g1', g3⟩ := sliceGray_pixel c hwf pcol bcol hev
    rw [g1] at g1'; cases g1'
    have hgray : (Spec.Pix.allPixels c.geo.W c.geo.H).find?
        (fun p => !Spec.Pix.grayPixelOk c.geo.W (getPx c) pcol bcol (byteAt gray) p) = none := by
      rw [List.find?_eq_none]
      intro p hp'
      obtain ⟨hx, hy⟩ := mem_allPixels hp'
      have := g3 p.1 p.2 hx hy
      simp [Spec.Pix.grayPixelOk, this]
    rw [hgray]
  · rw [if_neg hev]

/-! ## (2) colours -/

/-- all 64 six-bit colours, by evaluation of both setters' arithmetic against the documented table -/
theorem sixbit_table : ∀ code : Fin 64, Pix.color565 code.val = Spec.Pix.color565 code.val := by decide

/-- **clause (2)**, every colour code (the don't-care bits `xx` and beyond included):
`xxrrggbb` ↦ `bbbbbggg gggrrrrr` with r,b ↦ 0,10,20,31 and g ↦ 0,21,42,63 -/
theorem sixbit_to_565 (code : Nat) : Spec.Pix.checkColor code (Pix.color565 code) = none := by
  unfold Spec.Pix.checkColor
  rw [if_pos]
  rw [color565_closed, spec_color565_closed]

/-- the closed form of both setters: each 2-bit field `v` becomes `v·31/3` (red, blue) resp. `v·63/3` (green) -/
theorem sixbit_closed_form (code : Nat) :
    Pix.color565 code = (code % 4 * 31 / 3) * 2048 + (code / 4 % 4 * 63 / 3) * 32 + code / 16 % 4 * 31 / 3 :=
  color565_closed code

/-! ## (3) round trip -/

/-- `ConvertToImage(invert)` then `CreateFromImage`: same size, every visible pixel reproduced (complemented for `invert`) -/
theorem mono_image_roundtrip (c : Canvas) (hwf : c.WF) (invert : Bool) :
    ∃ img back, toImage c invert = some img ∧ fromImage img = some back ∧
      back.geo.W = c.geo.W ∧ back.geo.H = c.geo.H ∧
      ∀ x y, x < c.geo.W → y < c.geo.H → getPx back x y = (getPx c x y != invert) := by
  obtain ⟨hW, hsz⟩ := hwf
  obtain ⟨img, h1, _, h3, h4, h5⟩ := toImage_spec c hW (by omega) invert
  obtain ⟨back, g1, g2, _, g4⟩ := fromImage_spec img
  refine ⟨img, back, h1, g1, by rw [g2, ← h3]; rfl, by rw [g2, ← h4]; rfl, ?_⟩
  intro x y hx hy
  rw [g4 x y (by omega) (by omega), h5 x y hx hy]
  unfold monoColour darkBit
  cases getPx c x y <;> cases invert <;> decide

/-- **clause (3)** through the Spec predicate -/
theorem roundtrip_holds (c : Canvas) (hwf : c.WF) (invert : Bool) :
    ∃ img back, toImage c invert = some img ∧ fromImage img = some back ∧
      Spec.Pix.checkRoundtrip c.geo.W c.geo.H invert (getPx c) back.geo.W back.geo.H (getPx back) = none := by
  obtain ⟨img, back, h1, h2, h3, h4, h5⟩ := mono_image_roundtrip c hwf invert
  refine ⟨img, back, h1, h2, ?_⟩
  unfold Spec.Pix.checkRoundtrip
  rw [if_neg (by omega)]
  have : (Spec.Pix.allPixels c.geo.W c.geo.H).find?
      (fun p => getPx back p.1 p.2 != (getPx c p.1 p.2 != invert)) = none := by
    rw [List.find?_eq_none]
    intro p hp
    obtain ⟨hx, hy⟩ := mem_allPixels hp
    simp [h5 p.1 p.2 hx hy]
  rw [this]

/-! ## (4) graphics states -/

/-- mono data through the PNG path (`CreateFromBytes` + `ConvertToImage(true)`): declared size; every pixel whose byte
exists is white for bit 1 and black for bit 0 — for data shorter, equal or longer than `⌈W/8⌉·H` -/
theorem expansion_mono (W H : Nat) (data : Array Byte) :
    ∃ img, gfxToPngImage .mono W H data = some img ∧ img.w = W ∧ img.h = H ∧
      ∀ x y, x < W → y < H → Spec.Pix.covered 0 W data.size x y = true →
        img.at x y = Spec.Pix.expand 0 W (byteAt data) x y := by
  obtain ⟨img, h1, _, h3, h4, h5⟩ := gfxToPngImage_spec .mono W H data
  refine ⟨img, h1, h3, h4, ?_⟩
  intro x y hx hy hc
  rw [h5 x y hx hy ((covered_iff .mono W data x y).1 hc)]
  exact (expand_eq .mono W data x y).symm

/-- RGB565 data through `CreateImgObjectFromRGBBytes`: channels ×255/31, ×255/63, alpha 255, any data length -/
theorem expansion_rgb (W H : Nat) (data : Array Byte) :
    ∃ img, imgFromRGBBytes W H data = some img ∧ img.w = W ∧ img.h = H ∧
      ∀ x y, x < W → y < H → Spec.Pix.covered 1 W data.size x y = true →
        img.at x y = Spec.Pix.expand 1 W (byteAt data) x y := by
  obtain ⟨img, h1, _, h3, h4, h5⟩ := imgFromRGBBytes_spec W H data
  refine ⟨img, h1, h3, h4, ?_⟩
  intro x y hx hy hc
  rw [h5 x y hx hy ((covered_iff .rgb W data x y).1 hc)]
  exact (expand_eq .rgb W data x y).symm

/-- 4-bit-grey data through `CreateImgObjectFromGrayBytes`: nibble ×17 on all three channels, alpha 255, any data length -/
theorem expansion_gray (W H : Nat) (data : Array Byte) :
    ∃ img, imgFromGrayBytes W H data = some img ∧ img.w = W ∧ img.h = H ∧
      ∀ x y, x < W → y < H → Spec.Pix.covered 2 W data.size x y = true →
        img.at x y = Spec.Pix.expand 2 W (byteAt data) x y := by
  obtain ⟨img, h1, _, h3, h4, h5⟩ := imgFromGrayBytes_spec W H data
  refine ⟨img, h1, h3, h4, ?_⟩
  intro x y hx hy hc
  rw [h5 x y hx hy ((covered_iff .gray W data x y).1 hc)]
  exact (expand_eq .gray W data x y).symm

/-- `RwpImgToImage(img, tw, th)`, all three formats, any target canvas (smaller or larger), any data length:
canvas of exactly `tw × th`; every covered image pixel that lands inside the canvas at offset
`((tw−W)/2, (th−H)/2)` (truncated division) carries the documented expansion; the others are dropped (no panic) -/
theorem rwp_centering (fmt : Fmt) (W H : Nat) (data : Array Byte) (tw th : Nat) :
    ∃ img, rwpImgToImage fmt W H data tw th = some img ∧ img.w = tw ∧ img.h = th ∧
      ∀ x y, x < W → y < H → Spec.Pix.covered fmt.code W data.size x y = true →
        0 ≤ (x : Int) + ((tw : Int) - W).tdiv 2 → (x : Int) + ((tw : Int) - W).tdiv 2 < tw →
        0 ≤ (y : Int) + ((th : Int) - H).tdiv 2 → (y : Int) + ((th : Int) - H).tdiv 2 < th →
        img.at (x + ((tw : Int) - W).tdiv 2) (y + ((th : Int) - H).tdiv 2) = Spec.Pix.expand fmt.code W (byteAt data) x y := by
  obtain ⟨img, h1, _, h3, h4, h5⟩ := rwpImgToImage_spec fmt W H data tw th
  refine ⟨img, h1, h3, h4, ?_⟩
  intro x y hx hy hc b1 b2 b3 b4
  rw [h5 x y hx hy ((covered_iff fmt W data x y).1 hc) b1 b2 b3 b4]
  exact (expand_eq fmt W data x y).symm

/-- the PNG path and `RwpImgToImage` at the declared size give images of the same (declared) size that agree on every
pixel the data cover, in all three formats and for every data length (for RGB and grey the third routine,
`CreateImgObjectFrom…Bytes`, *is* the PNG path's image) -/
theorem routines_agree (fmt : Fmt) (W H : Nat) (data : Array Byte) :
    ∃ png rwp, gfxToPngImage fmt W H data = some png ∧ rwpImgToImage fmt W H data W H = some rwp ∧
      png.w = W ∧ png.h = H ∧ rwp.w = W ∧ rwp.h = H ∧
      ∀ x y, x < W → y < H → Spec.Pix.covered fmt.code W data.size x y = true → png.at x y = rwp.at x y := by
  obtain ⟨png, h1, _, h3, h4, h5⟩ := gfxToPngImage_spec fmt W H data
  obtain ⟨rwp, g1, _, g3, g4, g5⟩ := rwpImgToImage_spec fmt W H data W H
  refine ⟨png, rwp, h1, g1, h3, h4, g3, g4, ?_⟩
  intro x y hx hy hc
  have hc' := (covered_iff fmt W data x y).1 hc
  have := g5 x y hx hy hc'
  simp only [Int.sub_self, Int.zero_tdiv, Int.add_zero] at this
  rw [h5 x y hx hy hc', this (by omega) (by omega) (by omega) (by omega)]

/-- the third routine: `CreateImgObjectFrom{RGB,Gray}Bytes` is the function whose image the PNG path encodes; none for mono -/
def directOf (fmt : Fmt) (png : Img) : Option Img :=
  match fmt with
  | .mono => none
  | _ => some png

/-- what the check observes of one graphics state, computed by the model -/
def gfxObs (direct : Option Img) (rwp centred png : Img) : Spec.Pix.GfxObs :=
  { direct := direct.map Img.obs, rwp := rwp.obs, centred := centred.obs, png := (pngCodec png).map Img.obs }

/-- **clause (4)** through the Spec predicate: for every format, declared size, data length and target canvas size, no
routine panics and their outputs satisfy `checkGfx` (sizes, expansion on covered pixels in every routine, centring) -/
theorem gfx_holds (fmt : Fmt) (W H : Nat) (data : Array Byte) (tw th : Nat) :
    ∃ rwp centred png,
      rwpImgToImage fmt W H data W H = some rwp ∧ rwpImgToImage fmt W H data tw th = some centred ∧
      gfxToPngImage fmt W H data = some png ∧
      Spec.Pix.checkGfx fmt.code W H data.size (byteAt data) tw th
        (gfxObs (directOf fmt png) rwp centred png) = none := by
  obtain ⟨png, h1, _, h3, h4, h5⟩ := gfxToPngImage_spec fmt W H data
  obtain ⟨rwp, g1, _, g3, g4, g5⟩ := rwpImgToImage_spec fmt W H data W H
  obtain ⟨cen, k1, _, k3, k4, k5⟩ := rwpImgToImage_spec fmt W H data tw th
  refine ⟨rwp, cen, png, g1, k1, h1, ?_⟩
  unfold Spec.Pix.checkGfx gfxObs
  have s1 : Spec.Pix.sizeIs rwp.obs W H = true := by simp [Spec.Pix.sizeIs, Img.obs, g3, g4]
  have s2 : Spec.Pix.sizeIs cen.obs tw th = true := by simp [Spec.Pix.sizeIs, Img.obs, k3, k4]
  have s3 : Spec.Pix.sizeIs png.obs W H = true := by simp [Spec.Pix.sizeIs, Img.obs, h3, h4]
  have s4 : Spec.Pix.whenSome ((directOf fmt png).map Img.obs) false (fun a => !Spec.Pix.sizeIs a W H) = false := by
    cases fmt <;> simp [Spec.Pix.whenSome, directOf, s3]
  have s5 : Spec.Pix.whenSome ((pngCodec png).map Img.obs) (decide (W ≠ 0 ∧ H ≠ 0)) (fun a => !Spec.Pix.sizeIs a W H) = false := by
    unfold pngCodec
    by_cases hz : png.w = 0 ∨ png.h = 0
    · rw [if_pos hz]; simp only [Option.map_none, Spec.Pix.whenSome]; rw [h3, h4] at hz; simp; omega
    · rw [if_neg hz]; simp [Spec.Pix.whenSome, s3]
  simp only [s1, s2, Bool.not_true, Bool.false_eq_true, if_false]
  rw [s4, s5]
  simp only [Bool.false_eq_true, if_false]
  rw [List.findSome?_eq_none_iff]
  intro p hp
  obtain ⟨hx, hy⟩ := mem_allPixels hp
  unfold Spec.Pix.pixelFail
  simp only []
  by_cases hc : Spec.Pix.covered fmt.code W data.size p.1 p.2 = true
  · have hc' := (covered_iff fmt W data p.1 p.2).1 hc
    have e := expand_eq fmt W data p.1 p.2
    have hpng : png.obs.px p.1 p.2 = Spec.Pix.expand fmt.code W (byteAt data) p.1 p.2 := by
      rw [e]; exact h5 p.1 p.2 hx hy hc'
    have hrwp : rwp.obs.px p.1 p.2 = Spec.Pix.expand fmt.code W (byteAt data) p.1 p.2 := by
      rw [e]
      have := g5 p.1 p.2 hx hy hc'
      simp only [Int.sub_self, Int.zero_tdiv, Int.add_zero] at this
      exact this (by omega) (by omega) (by omega) (by omega)
    have hdir : Spec.Pix.whenSome ((directOf fmt png).map Img.obs) false
        (fun a => a.px p.1 p.2 != Spec.Pix.expand fmt.code W (byteAt data) p.1 p.2) = false := by
      cases fmt <;> simp [Spec.Pix.whenSome, directOf, hpng]
    have hpn : Spec.Pix.whenSome ((pngCodec png).map Img.obs) false
        (fun a => a.px p.1 p.2 != Spec.Pix.expand fmt.code W (byteAt data) p.1 p.2) = false := by
      unfold pngCodec; split <;> simp [Spec.Pix.whenSome, hpng]
    rw [hc]
    simp only [Bool.not_true, Bool.false_eq_true, if_false, hrwp, bne_self_eq_false]
    rw [hdir, hpn]
    simp only [Bool.false_eq_true, if_false]
    split
    · rename_i hin
      obtain ⟨b1, b2, b3, b4⟩ := hin
      have hcen : cen.obs.px ((p.1 : Int) + ((tw : Int) - W).tdiv 2).toNat ((p.2 : Int) + ((th : Int) - H).tdiv 2).toNat =
          Spec.Pix.expand fmt.code W (byteAt data) p.1 p.2 := by
        rw [e]
        show cen.at _ _ = _
        rw [Int.toNat_of_nonneg b1, Int.toNat_of_nonneg b3]
        exact k5 p.1 p.2 hx hy hc' b1 b2 b3 b4
      rw [hcen]
      simp
    · rfl
  · have : Spec.Pix.covered fmt.code W data.size p.1 p.2 = false := by simpa using hc
    rw [this]; rfl

/-- `RwpImgToImage`, the rest of the target canvas: every pixel that no *covered* pixel of the image lands on — the canvas
around the image and the places of pixels beyond the end of the data — is black.  With `rwp_centering` this determines
the whole output image. -/
theorem rwp_uncovered_black (fmt : Fmt) (W H : Nat) (data : Array Byte) (tw th : Nat) :
    ∃ img, rwpImgToImage fmt W H data tw th = some img ∧
      ∀ (X Y : Int), 0 ≤ X → X < tw → 0 ≤ Y → Y < th →
        (¬ ∃ x y : Nat, x < W ∧ y < H ∧ Spec.Pix.covered fmt.code W data.size x y = true ∧
          (x : Int) + ((tw : Int) - W).tdiv 2 = X ∧ (y : Int) + ((th : Int) - H).tdiv 2 = Y) →
        img.at X Y = black := by
  obtain ⟨img, h1, h2⟩ := rwpImgToImage_frame fmt W H data tw th
  refine ⟨img, h1, ?_⟩
  intro X Y a1 a2 a3 a4 hn
  refine h2 X Y a1 a2 a3 a4 ?_
  rintro ⟨x, y, hx, hy, hc, e1, e2⟩
  exact hn ⟨x, y, hx, hy, (covered_iff fmt W data x y).2 hc, e1, e2⟩

/-- **exports of a buffer longer than the canvas needs**: `CreateFromBytes(w, h, bytes)` with `len(bytes) ≥ ⌈w/8⌉·h` installs the
caller's slice itself (`Mono.createFromBytesOn`, the constructor of the C16 command language); the canvas is well-formed
in C16's sense and both exports satisfy clause (1) — the surplus bytes are never read. -/
theorem export_of_long (w h : Nat) (bytes : Array Byte) (hlen : ((w + 7) / 8) * h ≤ bytes.size)
    (pcol bcol : Nat) (hp : pcol < 65536) (hb : bcol < 65536) :
    (createFromBytes w h bytes).1 = createFromBytesOn false w h bytes ∧
    (createFromBytes w h bytes).1.bytes = bytes ∧ (createFromBytes w h bytes).1.WF ∧
    ∃ rgb gray, sliceRGB (createFromBytes w h bytes).1 pcol bcol = some rgb ∧
      sliceGray (createFromBytes w h bytes).1 pcol bcol = some gray ∧
      Spec.Pix.checkExport w h (getPx (createFromBytes w h bytes).1) pcol bcol rgb.size (byteAt rgb) gray.size (byteAt gray) = none := by
  have hnot : ¬ ((newCanvas w h).geo.wib * h > bytes.size) := by simp only [newCanvas]; omega
  have e1 : (createFromBytes w h bytes).1 = { newCanvas w h with bytes := bytes } := by
    unfold createFromBytes; simp only []; rw [if_neg hnot]
  have e0 : (createFromBytes w h bytes).1 = createFromBytesOn false w h bytes := by
    rw [e1]; unfold createFromBytesOn; simp only []; rw [if_neg hnot]; rfl
  have hwf : (createFromBytes w h bytes).1.WF := by
    rw [e1]; unfold Canvas.WF newCanvas; simp only []; omega
  refine ⟨e0, by rw [e1], hwf, ?_⟩
  have := export_holds (createFromBytes w h bytes).1 hwf pcol bcol hp hb
  have gw : (createFromBytes w h bytes).1.geo.W = w := by rw [e1]; rfl
  have gh : (createFromBytes w h bytes).1.geo.H = h := by rw [e1]; rfl
  rw [gw, gh] at this
  exact this

/-! ## One object used more than once: any call history (`pix.obj`) -/

/-- what every reachable object satisfies: well-formed canvas, 16-bit colours -/
def ObjGood (o : Obj) : Prop := o.c.WF ∧ o.pcol < 65536 ∧ o.bcol < 65536

/-- calls a caller can make: the fresh image of `fromMono` is built from at least its `⌈w/8⌉·h` bytes -/
def CallValid : ObjCall → Prop
  | .fromMono w h _ bits => (w + 7) / 8 * h ≤ bits.size
  | _ => True

theorem color565_lt (code : Nat) : color565 code < 65536 := Nat.mod_lt _ (by decide)

theorem newCanvas_wf (w h : Nat) : (newCanvas w h).WF := by
  unfold Canvas.WF newCanvas; simp only [Array.size_replicate]; omega

theorem recreated_good (c : Canvas) (h : c.WF) : ObjGood (Obj.recreated c) :=
  ⟨h, by show (0xFFFF : Nat) < 65536; decide, by show (0 : Nat) < 65536; decide⟩

theorem fromImage_good (src : Img) : ∃ cv, fromImage src = some cv ∧ ObjGood (Obj.recreated cv) := by
  obtain ⟨cv, h1, h2, h3, _⟩ := fromImage_spec src
  refine ⟨cv, h1, recreated_good cv ?_⟩
  unfold Canvas.WF
  rw [h2, h3]
  simp only [newCanvas]
  omega

/-- **no call on a good object panics, and the object stays good** -/
theorem applyObj_good (o : Obj) (hg : ObjGood o) (call : ObjCall) (hv : CallValid call) : ∃ o', applyObj o call = some o' ∧ ObjGood o' := by
  cases call with
  | pixelColor code => exact ⟨_, rfl, hg.1, color565_lt code, hg.2.2⟩
  | bckgColor code => exact ⟨_, rfl, hg.1, hg.2.1, color565_lt code⟩
  | newImage w h => exact ⟨_, rfl, recreated_good _ (newCanvas_wf w h)⟩
  | fromBytes w h bytes =>
    refine ⟨_, rfl, recreated_good _ ?_⟩
    obtain ⟨g1, g2, _⟩ := createFromBytes_spec w h bytes
    unfold Canvas.WF
    refine ⟨?_, g2⟩
    rw [g1]; simp only [newCanvas]; omega
  | fillRect x y w h col => exact ⟨_, rfl, (fillRect_paint o.c hg.1 x y w h col).wf, hg.2.1, hg.2.2⟩
  | fromMono w h inv bits =>
    have hwf : (canvasOfBits w h bits).WF := by
      unfold Canvas.WF canvasOfBits newCanvas; simp only []; exact ⟨by omega, hv⟩
    obtain ⟨img, i1, _⟩ := toImage_spec (canvasOfBits w h bits) hwf.1 hwf.2 inv
    obtain ⟨cv, c1, c2⟩ := fromImage_good img
    exact ⟨Obj.recreated cv, by simp [applyObj, i1, c1], c2⟩
  | fromImg src =>
    obtain ⟨cv, c1, c2⟩ := fromImage_good src
    exact ⟨Obj.recreated cv, by simp [applyObj, c1], c2⟩
  | selfRoundtrip inv =>
    obtain ⟨img, i1, _⟩ := toImage_spec o.c hg.1.1 hg.1.2 inv
    obtain ⟨cv, c1, c2⟩ := fromImage_good img
    exact ⟨Obj.recreated cv, by simp [applyObj, i1, c1], c2⟩
  | exports => exact ⟨o, rfl, hg⟩

theorem runObj_good (calls : List ObjCall) (o : Obj) (hg : ObjGood o) (hv : ∀ c ∈ calls, CallValid c) :
    ∃ o', runObj o calls = some o' ∧ ObjGood o' := by
  induction calls generalizing o with
  | nil => exact ⟨o, rfl, hg⟩
  | cons call rest ih =>
    obtain ⟨o1, a1, g1⟩ := applyObj_good o hg call (hv call (by simp))
    obtain ⟨o2, a2, g2⟩ := ih o1 g1 (fun c hc => hv c (by simp [hc]))
    exact ⟨o2, by simp [runObj, a1, a2], g2⟩

/-- **Exports of an object in use**: after ANY call history on one object (colour setters, (re)creations from sizes, byte
slices — short, exact, long — and image objects, drawing, earlier exports, in any order) no call has panicked and both
exports satisfy clause (1) for the colours the object's fields show at that moment and the bitmap it holds then.  (Every
prefix of a history is a history, so this is the statement for every export made along the way.) -/
theorem obj_export_holds (calls : List ObjCall) (hv : ∀ c ∈ calls, CallValid c) :
    ∃ o, runObj {} calls = some o ∧ ∃ rgb gray, sliceRGB o.c o.pcol o.bcol = some rgb ∧ sliceGray o.c o.pcol o.bcol = some gray ∧
      Spec.Pix.checkExport o.c.geo.W o.c.geo.H (getPx o.c) o.pcol o.bcol rgb.size (byteAt rgb) gray.size (byteAt gray) = none := by
  obtain ⟨o, h1, hg⟩ := runObj_good calls {} ⟨newCanvas_wf 0 0, by decide, by decide⟩ hv
  exact ⟨o, h1, export_holds o.c hg.1 o.pcol o.bcol hg.2.1 hg.2.2⟩

/-- **Conversion into an object in use**: `CreateFromImage` of a converted mono image gives the same object whatever the
destination held before (size, bits, colours), and the result satisfies clause (3) -/
theorem obj_roundtrip_holds (o : Obj) (w h : Nat) (inv : Bool) (bits : Array Byte) (hv : (w + 7) / 8 * h ≤ bits.size) :
    applyObj o (.fromMono w h inv bits) = applyObj {} (.fromMono w h inv bits) ∧
    ∃ o', applyObj o (.fromMono w h inv bits) = some o' ∧
      Spec.Pix.checkRoundtrip w h inv (getPx (canvasOfBits w h bits)) o'.c.geo.W o'.c.geo.H (getPx o'.c) = none := by
  refine ⟨rfl, ?_⟩
  have hwf : (canvasOfBits w h bits).WF := by
    unfold Canvas.WF canvasOfBits newCanvas; simp only []; exact ⟨by omega, hv⟩
  obtain ⟨img, back, h1, h2, h3⟩ := roundtrip_holds (canvasOfBits w h bits) hwf inv
  exact ⟨Obj.recreated back, by simp [applyObj, h1, h2], h3⟩

/-- the same for the object's own image: `CreateFromImage(ConvertToImage(inv))` on one and the same good object -/
theorem obj_self_roundtrip_holds (o : Obj) (hg : ObjGood o) (inv : Bool) :
    ∃ o', applyObj o (.selfRoundtrip inv) = some o' ∧
      Spec.Pix.checkRoundtrip o.c.geo.W o.c.geo.H inv (getPx o.c) o'.c.geo.W o'.c.geo.H (getPx o'.c) = none := by
  obtain ⟨img, back, h1, h2, h3⟩ := roundtrip_holds o.c hg.1 inv
  exact ⟨Obj.recreated back, by simp [applyObj, h1, h2], h3⟩

/-- non-vacuity: a history with a colour set before a re-creation, a conversion into the used object and an export; the
re-creation has reset the colours (the export is white on black, not the colour set before) -/
example : (runObj {} [.bckgColor 63, .newImage 9 2, .fillRect 0 0 9 2 true, .fromMono 9 2 true #[0xAA#8, 0, 0x55#8, 0x80#8], .exports]).map
    (fun o => (o.pcol, o.bcol, o.c.geo.W, o.c.geo.H)) = some (0xFFFF, 0, 9, 2) := by decide +kernel

/-- **no panic**: no modelled routine ever indexes outside a slice or fails an allocation (`none` is the model's panic) —
the graphics-state routines for every format, **data length** (shorter, equal, longer) and every declared / target size
whose `image.NewRGBA` buffer length `4·w·h` fits an `int` (and, for the mono PNG path, whose `⌈W/8⌉·H`-byte slice can be
made); the exports, `ConvertToImage` and the round trip for every well-formed mono image of any size (odd widths included);
`CreateFromImage` for every image.  Without the size guard the statement is false: `huge_size_panics_counterexample`. -/
theorem short_data_no_panic (fmt : Fmt) (W H : Nat) (data : Array Byte) (tw th : Nat)
    (hWH : rgbaAllocOk W H = true) (hmono : sliceAllocOk (((W + 7) / 8) * H) = true) (ht : rgbaAllocOk tw th = true) :
    (imgFromRGBBytes? W H data).isSome ∧ (imgFromGrayBytes? W H data).isSome ∧
    (rwpImgToImage? fmt W H data tw th).isSome ∧ (gfxToPngImage? fmt W H data).isSome ∧
    (∀ src : Img, (fromImage src).isSome) ∧
    (∀ (c : Canvas), c.WF → ∀ (pcol bcol : Nat) (invert : Bool),
      (sliceRGB c pcol bcol).isSome ∧ (sliceGray c pcol bcol).isSome ∧ (toImage c invert).isSome) := by
  obtain ⟨_, h1, _⟩ := imgFromRGBBytes_spec W H data
  obtain ⟨_, h2, _⟩ := imgFromGrayBytes_spec W H data
  obtain ⟨_, h3, _⟩ := rwpImgToImage_spec fmt W H data tw th
  obtain ⟨_, h4, _⟩ := gfxToPngImage_spec fmt W H data
  refine ⟨by unfold imgFromRGBBytes?; rw [if_pos hWH, h1]; rfl, by unfold imgFromGrayBytes?; rw [if_pos hWH, h2]; rfl,
    by unfold rwpImgToImage?; rw [if_pos ht, h3]; rfl, ?_, ?_, ?_⟩
  · cases fmt with
    | mono => unfold gfxToPngImage?; simp only [hmono, hWH, Bool.and_self, if_true]; rw [h4]; rfl
    | rgb => unfold gfxToPngImage? imgFromRGBBytes?; simp only []; rw [if_pos hWH, h1]; rfl
    | gray => unfold gfxToPngImage? imgFromGrayBytes?; simp only []; rw [if_pos hWH, h2]; rfl
  · intro src
    obtain ⟨_, h, _⟩ := fromImage_spec src
    rw [h]; rfl
  · intro c hwf pcol bcol invert
    obtain ⟨_, g1, _⟩ := sliceRGB_spec c hwf pcol bcol
    obtain ⟨_, g2, _⟩ := sliceGray_total c hwf pcol bcol
    obtain ⟨_, g3, _⟩ := toImage_spec c hwf.1 (by have := hwf.2; omega) invert
    exact ⟨by rw [g1]; rfl, by rw [g2]; rfl, by rw [g3]; rfl⟩

/-- the guard of `short_data_no_panic` is needed: a state message declaring 2^31 × 2^31 pixels with one byte of data makes
`ConvertGfxStateToPngBytes` panic in all three formats (mono: `makeslice: len out of range` in `NewImage`; RGB / grey:
`image: NewRGBA Rectangle has huge or negative dimensions`), observed on the real routine; sizes "up to a few hundred
pixels" (the property's domain) are far inside the guard -/
theorem huge_size_panics_counterexample :
    gfxToPngImage? .mono 2147483648 2147483648 #[0xFF#8] = none ∧
    gfxToPngImage? .rgb 2147483648 2147483648 #[0xFF#8] = none ∧
    gfxToPngImage? .gray 2147483648 2147483648 #[0xFF#8] = none ∧
    rgbaAllocOk 1000 1000 = true ∧ sliceAllocOk (((1000 + 7) / 8) * 1000) = true := by
  refine ⟨?_, ?_, ?_, by decide, by decide⟩
  · unfold gfxToPngImage?; simp only []; rw [if_neg (by decide)]
  · unfold gfxToPngImage? imgFromRGBBytes?; simp only []; rw [if_neg (by decide)]
  · unfold gfxToPngImage? imgFromGrayBytes?; simp only []; rw [if_neg (by decide)]

/-! ## non-vacuity and the defect of the pinned tree -/

/-- a well-formed 13×5 canvas with ink exists; its exports have the stated sizes (26·5 and — odd width — 32 bytes) -/
example : (drawPixel (newCanvas 13 5) 2 1 true).WF ∧ getPx (drawPixel (newCanvas 13 5) 2 1 true) 2 1 = true := by
  constructor
  · exact drawPixel_wf _ _ _ _ (by unfold newCanvas Canvas.WF; simp)
  · decide

/-- the covered / uncovered distinction is real: 3 bytes of a 16×2 mono image cover (7,1) but not (8,1) -/
example : Spec.Pix.covered 0 16 3 7 1 = true ∧ Spec.Pix.covered 0 16 3 8 1 = false := by decide

/-- the Spec predicates reject wrong outputs: a wrong colour word, and an all-black "PNG" image for data `ff` -/
example : Spec.Pix.checkColor 0b110000 0x001F = none ∧ Spec.Pix.checkColor 0b110000 0xF800 = some "color" := by decide

/-- **Defect of the pinned tree** (mono, 16×2 declared, 3 of 4 bytes `ff`): `CreateFromBytes` returns an error that
`ConvertGfxStateToPngBytes` only logs and keeps the zeroed buffer, so the PNG path paints pixel (0,0) black while
`RwpImgToImage` paints it white — the routines disagree on a pixel the data cover.  With the repair both are white. -/
theorem short_mono_png_black_counterexample :
    let data : Array Byte := #[0xFF#8, 0xFF#8, 0xFF#8]
    (gfxToPngImagePinned .mono 16 2 data).map (fun i => i.at 0 0) = some black ∧
    (rwpImgToImage .mono 16 2 data 16 2).map (fun i => i.at 0 0) = some white ∧
    (gfxToPngImage .mono 16 2 data).map (fun i => i.at 0 0) = some white ∧
    Spec.Pix.covered 0 16 data.size 0 0 = true := by decide +kernel

end RawPanelVerif.C17
