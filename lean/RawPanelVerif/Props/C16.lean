import RawPanelVerif.Lemmas.MonoOps
import RawPanelVerif.Spec.MonoSpec
/-!
# C16 — Drawing never escapes the canvas or its clip region

Property theorems only.  The statement of the property is `Spec.Mono.check` (Spec/MonoSpec.lean): the
same executable predicate the check evaluates on the implementation's before/after buffers.

* `C16.step_holds`      for every well-formed canvas and **every** operation (any coordinates, sizes, radii,
                        bitmaps shorter than declared, any text state / string): size kept, every stored bit
                        outside `clip ∩ footprint(op)` unchanged (padding bits included), and for pixels,
                        lines and filled rectangles every bit of `clip ∩ footprint` gets the drawing colour.
* `C16.reachable_wf`    every canvas reachable from `NewImage` by any operation sequence is well-formed, hence
* `C16.all_steps_hold`  the clauses hold at every step of every operation sequence on every canvas size.
* `C16.padding_never_modified`, `C16.outside_canvas_dropped` corollaries in the property's own words.
* `C16.pinned_row_wrap_counterexample` the defect of the pinned tree (fixed by `fix:` d38b978), for the record.
-/
namespace RawPanelVerif.C16
open RawPanelVerif RawPanelVerif.Mono

def specG (g : Geom) : Spec.Mono.G :=
  { W := g.W, H := g.H, wib := g.wib, bx := g.bx, byy := g.byy, bw := g.bw, bh := g.bh, inv := g.inv }

/-- the Spec-level description of a model operation (what the harness prints for it) -/
def specOp : Op → Spec.Mono.Op
  | .px x y c => .px x y c
  | .hline x y w c => .hline x y w c
  | .vline x y h c => .vline x y h c
  | .frect x y w h c => .frect x y w h c
  | .rrect x y w h r c => .rrect x y w h r c
  | .frrect x y w h r c => .frrect x y w h r c
  | .circ x0 y0 r k c => .circ x0 y0 r k c
  | .fcirc x0 y0 r k d c => .fcirc x0 y0 r k d c
  | .bitmap x y _ w h _ _ _ => .bitmap x y w h
  | .glyph t x y ch _ _ h v => .glyph x y (charWidth t ch) t.fp.bbH h v
  | .text _ _ => .text
  | .bbox _ _ _ _ => .noop
  | .inv _ => .noop

/-- drawing operations (everything except the two geometry setters) -/
def Op.isDraw : Op → Bool
  | .bbox _ _ _ _ => false
  | .inv _ => false
  | _ => true

def specRegion (g : Geom) (op : Spec.Mono.Op) : Region :=
  fun X Y => Spec.Mono.clip (specG g) X Y = true ∧ Spec.Mono.footprint (specG g) op X Y = true

theorem clip_iff (g : Geom) (X Y : Nat) : Spec.Mono.clip (specG g) X Y = true ↔ clipR g X Y := by
  unfold Spec.Mono.clip Spec.Mono.inBox clipR inClip xMin yMin wMax hMax specG
  simp only [Bool.and_eq_true, decide_eq_true_eq, Int.max_def, Int.min_def]
  constructor
  · rintro ⟨⟨⟨h1, h2⟩, h3⟩, h4⟩
    refine ⟨?_, ?_, ?_, ?_⟩ <;> split <;> (split at h1 <;> split at h2 <;> split at h3 <;> split at h4 <;> omega)
  · rintro ⟨h1, h2, h3, h4⟩
    refine ⟨⟨⟨?_, ?_⟩, ?_⟩, ?_⟩ <;> split <;> (split at h1 <;> split at h2 <;> split at h3 <;> split at h4 <;> omega)

theorem inBox_iff (a b c d X Y : Int) :
    Spec.Mono.inBox a b c d X Y = true ↔ a ≤ X ∧ X < c ∧ b ≤ Y ∧ Y < d := by
  unfold Spec.Mono.inBox
  simp only [Bool.and_eq_true, decide_eq_true_eq]
  constructor
  · rintro ⟨⟨⟨h1, h2⟩, h3⟩, h4⟩; exact ⟨h1, h2, h3, h4⟩
  · rintro ⟨h1, h2, h3, h4⟩; exact ⟨⟨⟨h1, h2⟩, h3⟩, h4⟩

theorem boxR_iff (g : Geom) (x y x1 y1 : Int) (X Y : Nat) :
    boxR g (x + g.bx) (y + g.byy) (x1 + g.bx) (y1 + g.byy) X Y ↔
      (Spec.Mono.clip (specG g) X Y = true ∧
        Spec.Mono.inBox x y x1 y1 ((X : Int) - g.bx) ((Y : Int) - g.byy) = true) := by
  unfold boxR
  rw [clip_iff, inBox_iff]
  constructor
  · rintro ⟨hc, h1, h2, h3, h4⟩; exact ⟨hc, by omega, by omega, by omega, by omega⟩
  · rintro ⟨hc, h1, h2, h3, h4⟩; exact ⟨hc, by omega, by omega, by omega, by omega⟩

theorem circR_iff (g : Geom) (x0 y0 r : Int) (X Y : Nat) (h : circR g x0 y0 r X Y) :
    Spec.Mono.clip (specG g) X Y = true ∧ Spec.Mono.fpCirc x0 y0 r ((X : Int) - g.bx) ((Y : Int) - g.byy) = true := by
  unfold circR boxR at h
  obtain ⟨hc, h1, h2, h3, h4⟩ := h
  refine ⟨(clip_iff g X Y).2 hc, ?_⟩
  unfold Spec.Mono.fpCirc
  simp only [Bool.and_eq_true, decide_eq_true_eq]
  exact ⟨by omega, (inBox_iff _ _ _ _ _ _).2 ⟨by omega, by omega, by omega, by omega⟩⟩

theorem fcircR_iff (g : Geom) (x0 y0 r d : Int) (X Y : Nat) (h : fcircR g x0 y0 r d X Y) :
    Spec.Mono.clip (specG g) X Y = true ∧ Spec.Mono.fpFCirc x0 y0 r d ((X : Int) - g.bx) ((Y : Int) - g.byy) = true := by
  unfold fcircR boxR at h
  obtain ⟨hc, h1, h2, h3, h4⟩ := h
  refine ⟨(clip_iff g X Y).2 hc, ?_⟩
  unfold Spec.Mono.fpFCirc
  simp only [Bool.and_eq_true, decide_eq_true_eq]
  exact ⟨by omega, (inBox_iff _ _ _ _ _ _).2 ⟨by omega, by omega, by omega, by omega⟩⟩

/-- bytes and geometry reads are untouched by the two setters -/
theorem setter_getPx (c : Canvas) (op : Op) (h : Op.isDraw op = false) (X Y : Nat) :
    getPx (applyOp c op) X Y = getPx c X Y ∧ (applyOp c op).bytes = c.bytes := by
  cases op <;> simp [Op.isDraw] at h <;> simp [applyOp, setBoundingBox, invertPixels, getPx]

/-- **Frame**: every operation leaves every stored bit outside `clip ∩ footprint` alone. -/
theorem applyOp_touch (c : Canvas) (hwf : c.WF) (op : Op) (hd : Op.isDraw op = true) :
    Touch (specRegion c.geo (specOp op)) c (applyOp c op) := by
  have box := fun (x y x1 y1 : Int) (X Y : Nat) => (boxR_iff c.geo x y x1 y1 X Y).1
  cases op with
  | px x y col =>
    refine (drawPixel_paint c hwf x y col).toTouch.mono ?_
    rintro X Y ⟨hc, hX, hY⟩
    refine ⟨(clip_iff _ _ _).2 hc, ?_⟩
    simp [Spec.Mono.footprint, Spec.Mono.footprintRel, specOp, specG]; omega
  | hline x y w col =>
    refine (hline_paint c hwf x y w col).toTouch.mono ?_
    intro X Y hh
    have := box x y (x + w) (y + 1) X Y (by
      have e1 : x + w + c.geo.bx = x + c.geo.bx + w := by omega
      have e2 : y + 1 + c.geo.byy = y + c.geo.byy + 1 := by omega
      rw [e1, e2]; exact hh)
    exact this
  | vline x y h col =>
    refine (vline_paint c hwf x y h col).toTouch.mono ?_
    intro X Y hh
    exact box x y (x + 1) (y + h) X Y (by
      have e1 : x + 1 + c.geo.bx = x + c.geo.bx + 1 := by omega
      have e2 : y + h + c.geo.byy = y + c.geo.byy + h := by omega
      rw [e1, e2]; exact hh)
  | frect x y w h col =>
    refine (fillRect_paint c hwf x y w h col).toTouch.mono ?_
    intro X Y hh
    exact box x y (x + w) (y + h) X Y (by
      have e1 : x + w + c.geo.bx = x + c.geo.bx + w := by omega
      have e2 : y + h + c.geo.byy = y + c.geo.byy + h := by omega
      rw [e1, e2]; exact hh)
  | rrect x y w h r col =>
    refine (drawRoundRect_touch c hwf x y w h r col).mono ?_
    intro X Y hh
    unfold specRegion Spec.Mono.footprint Spec.Mono.footprintRel specOp
    simp only [Bool.or_eq_true]
    have g1 : (specG c.geo).bx = c.geo.bx := rfl
    have g2 : (specG c.geo).byy = c.geo.byy := rfl
    rw [g1, g2]
    rcases hh with hh | hh | hh | hh | hh | hh | hh | hh
    · have := box (x + r) y (x + r + (w - 2 * r)) (y + 1) X Y (by
        have e1 : x + r + (w - 2 * r) + c.geo.bx = x + r + c.geo.bx + (w - 2 * r) := by omega
        have e2 : y + 1 + c.geo.byy = y + c.geo.byy + 1 := by omega
        rw [e1, e2]; exact hh)
      exact ⟨this.1, by simp [this.2]⟩
    · have := box (x + r) (y + h - 1) (x + r + (w - 2 * r)) (y + h) X Y (by
        have e1 : x + r + (w - 2 * r) + c.geo.bx = x + r + c.geo.bx + (w - 2 * r) := by omega
        have e2 : y + h + c.geo.byy = y + h - 1 + c.geo.byy + 1 := by omega
        rw [e1, e2]; exact hh)
      exact ⟨this.1, by simp [this.2]⟩
    · have := box x (y + r) (x + 1) (y + r + (h - 2 * r)) X Y (by
        have e1 : x + 1 + c.geo.bx = x + c.geo.bx + 1 := by omega
        have e2 : y + r + (h - 2 * r) + c.geo.byy = y + r + c.geo.byy + (h - 2 * r) := by omega
        rw [e1, e2]; exact hh)
      exact ⟨this.1, by simp [this.2]⟩
    · have := box (x + w - 1) (y + r) (x + w) (y + r + (h - 2 * r)) X Y (by
        have e1 : x + w + c.geo.bx = x + w - 1 + c.geo.bx + 1 := by omega
        have e2 : y + r + (h - 2 * r) + c.geo.byy = y + r + c.geo.byy + (h - 2 * r) := by omega
        rw [e1, e2]; exact hh)
      exact ⟨this.1, by simp [this.2]⟩
    · have := circR_iff _ _ _ _ _ _ hh; exact ⟨this.1, by simp [this.2]⟩
    · have := circR_iff _ _ _ _ _ _ hh; exact ⟨this.1, by simp [this.2]⟩
    · have := circR_iff _ _ _ _ _ _ hh; exact ⟨this.1, by simp [this.2]⟩
    · have := circR_iff _ _ _ _ _ _ hh; exact ⟨this.1, by simp [this.2]⟩
  | frrect x y w h r col =>
    refine (fillRoundRect_touch c hwf x y w h r col).mono ?_
    intro X Y hh
    unfold specRegion Spec.Mono.footprint Spec.Mono.footprintRel specOp
    simp only [Bool.or_eq_true]
    have g1 : (specG c.geo).bx = c.geo.bx := rfl
    have g2 : (specG c.geo).byy = c.geo.byy := rfl
    rw [g1, g2]
    rcases hh with hh | hh | hh
    · have := box (x + r) y (x + r + (w - 2 * r)) (y + h) X Y (by
        have e1 : x + r + (w - 2 * r) + c.geo.bx = x + r + c.geo.bx + (w - 2 * r) := by omega
        have e2 : y + h + c.geo.byy = y + c.geo.byy + h := by omega
        rw [e1, e2]; exact hh)
      exact ⟨this.1, by simp [this.2]⟩
    · have := fcircR_iff _ _ _ _ _ _ _ hh; exact ⟨this.1, by simp [this.2]⟩
    · have := fcircR_iff _ _ _ _ _ _ _ hh; exact ⟨this.1, by simp [this.2]⟩
  | circ x0 y0 r k col =>
    refine (drawCircleHelper_touch c hwf x0 y0 r k col).mono ?_
    intro X Y hh
    exact circR_iff _ _ _ _ _ _ hh
  | fcirc x0 y0 r k d col =>
    refine (fillCircleHelper_touch c hwf x0 y0 r k d col).mono ?_
    intro X Y hh
    exact fcircR_iff _ _ _ _ _ _ _ hh
  | bitmap x y bits w h col i a =>
    refine (drawBitmap_touch c hwf x y bits w h col i a).mono ?_
    intro X Y hh
    exact box x y (x + w) (y + h) X Y (by
      have e1 : x + w + c.geo.bx = x + c.geo.bx + w := by omega
      have e2 : y + h + c.geo.byy = y + c.geo.byy + h := by omega
      rw [e1, e2]; exact hh)
  | glyph t x y ch col bg h v =>
    refine (drawChar_touch c hwf t x y ch col bg h v).mono ?_
    intro X Y hh
    exact box x y (x + (charWidth t ch : Int) * h) (y + (t.fp.bbH : Int) * v) X Y (by
      have e1 : x + (charWidth t ch : Int) * h + c.geo.bx = x + c.geo.bx + (charWidth t ch : Int) * h := by omega
      have e2 : y + (t.fp.bbH : Int) * v + c.geo.byy = y + c.geo.byy + (t.fp.bbH : Int) * v := by omega
      rw [e1, e2]; exact hh)
  | text t s =>
    refine (renderText_touch s c hwf t).mono ?_
    intro X Y hh
    exact ⟨(clip_iff _ _ _).2 hh, rfl⟩
  | bbox _ _ _ _ => simp [Op.isDraw] at hd
  | inv _ => simp [Op.isDraw] at hd

/-- **Exactness**: pixels, straight lines and filled rectangles set every bit of `clip ∩ footprint`. -/
theorem applyOp_exact (c : Canvas) (hwf : c.WF) (op : Op) (col : Bool)
    (he : Spec.Mono.exactColour (specOp op) = some col) (X Y : Nat)
    (hX : X < c.geo.wib * 8) (hY : Y < c.geo.H) (hr : specRegion c.geo (specOp op) X Y) :
    getPx (applyOp c op) X Y = (col != c.geo.inv) := by
  have box := fun (x y x1 y1 : Int) (X Y : Nat) => (boxR_iff c.geo x y x1 y1 X Y).2
  obtain ⟨hc, hf⟩ := hr
  cases op with
  | px x y c0 =>
    simp [specOp, Spec.Mono.exactColour] at he; subst he
    refine (drawPixel_paint c hwf x y c0).inside X Y hX hY ⟨(clip_iff _ _ _).1 hc, ?_⟩
    simp [Spec.Mono.footprint, Spec.Mono.footprintRel, specOp, specG] at hf; omega
  | hline x y w c0 =>
    simp [specOp, Spec.Mono.exactColour] at he; subst he
    refine (hline_paint c hwf x y w c0).inside X Y hX hY ?_
    have := box x y (x + w) (y + 1) X Y ⟨hc, hf⟩
    have e1 : x + w + c.geo.bx = x + c.geo.bx + w := by omega
    have e2 : y + 1 + c.geo.byy = y + c.geo.byy + 1 := by omega
    rw [e1, e2] at this; exact this
  | vline x y h c0 =>
    simp [specOp, Spec.Mono.exactColour] at he; subst he
    refine (vline_paint c hwf x y h c0).inside X Y hX hY ?_
    have := box x y (x + 1) (y + h) X Y ⟨hc, hf⟩
    have e1 : x + 1 + c.geo.bx = x + c.geo.bx + 1 := by omega
    have e2 : y + h + c.geo.byy = y + c.geo.byy + h := by omega
    rw [e1, e2] at this; exact this
  | frect x y w h c0 =>
    simp [specOp, Spec.Mono.exactColour] at he; subst he
    refine (fillRect_paint c hwf x y w h c0).inside X Y hX hY ?_
    have := box x y (x + w) (y + h) X Y ⟨hc, hf⟩
    have e1 : x + w + c.geo.bx = x + c.geo.bx + w := by omega
    have e2 : y + h + c.geo.byy = y + c.geo.byy + h := by omega
    rw [e1, e2] at this; exact this
  | _ => simp [specOp, Spec.Mono.exactColour] at he

theorem applyOp_wf (c : Canvas) (hwf : c.WF) (op : Op) : (applyOp c op).WF := by
  by_cases hd : Op.isDraw op = true
  · exact (applyOp_touch c hwf op hd).wf
  · cases op <;> simp [Op.isDraw] at hd <;> exact hwf

theorem mem_allPixels (g : Spec.Mono.G) (p : Nat × Nat) (h : p ∈ Spec.Mono.allPixels g) :
    p.1 < g.wib * 8 ∧ p.2 < g.H := by
  unfold Spec.Mono.allPixels at h
  simp only [List.mem_flatMap, List.mem_range, List.mem_map] at h
  obtain ⟨Y, hY, X, hX, rfl⟩ := h
  exact ⟨hX, hY⟩

/-- **C16, one step**: the property predicate holds for every operation on every well-formed canvas. -/
theorem step_holds (c : Canvas) (hwf : c.WF) (op : Op) :
    Spec.Mono.check (specG c.geo) (specOp op) c.bytes.size (applyOp c op).bytes.size
      (getPx c) (getPx (applyOp c op)) = none := by
  have hlen : (applyOp c op).bytes.size = c.bytes.size := by
    by_cases hd : Op.isDraw op = true
    · exact (applyOp_touch c hwf op hd).len hwf
    · rw [(setter_getPx c op (by simpa using hd) 0 0).2]
  unfold Spec.Mono.check
  rw [if_neg (by rw [hlen]; simp)]
  have hnone : (Spec.Mono.allPixels (specG c.geo)).find?
      (fun p => !Spec.Mono.pixelOk (specG c.geo) (specOp op) (getPx c) (getPx (applyOp c op)) p.1 p.2) = none := by
    rw [List.find?_eq_none]
    intro p hp
    obtain ⟨hX, hY⟩ := mem_allPixels _ p hp
    simp only [Bool.not_eq_true, Bool.not_eq_false']
    unfold Spec.Mono.pixelOk
    simp only []
    by_cases hd : Op.isDraw op = true
    · have ht := applyOp_touch c hwf op hd
      by_cases hr : specRegion c.geo (specOp op) p.1 p.2
      · have hr' := hr
        obtain ⟨h1, h2⟩ := hr'
        rw [h1, h2]
        simp only [Bool.and_self, if_true]
        cases he : Spec.Mono.exactColour (specOp op) with
        | none => rfl
        | some col =>
          simp only []
          rw [applyOp_exact c hwf op col he p.1 p.2 hX hY hr]
          simp [specG]
      · have hcond : (Spec.Mono.clip (specG c.geo) ↑p.1 ↑p.2 && Spec.Mono.footprint (specG c.geo) (specOp op) ↑p.1 ↑p.2) = false := by
          cases h1 : Spec.Mono.clip (specG c.geo) ↑p.1 ↑p.2 <;> cases h2 : Spec.Mono.footprint (specG c.geo) (specOp op) ↑p.1 ↑p.2 <;> simp
          exact hr ⟨h1, h2⟩
        rw [hcond]
        simp only [Bool.false_eq_true, if_false]
        rw [ht.same p.1 p.2 hX hY hr]; simp
    · have hs := setter_getPx c op (by simpa using hd) p.1 p.2
      have hno : Spec.Mono.footprint (specG c.geo) (specOp op) ↑p.1 ↑p.2 = false := by
        cases op <;> simp [Op.isDraw] at hd <;> rfl
      rw [hno, hs.1]; simp
  rw [hnone]

/-- every canvas reachable from `NewImage(w,h)` by any operation sequence is well-formed -/
theorem newCanvas_wf (w h : Nat) : (newCanvas w h).WF := by
  unfold newCanvas Canvas.WF
  simp only [Array.size_replicate, and_true]
  omega

theorem reachable_wf (w h : Nat) (ops : List Op) : (ops.foldl applyOp (newCanvas w h)).WF := by
  have : ∀ (c : Canvas), c.WF → (ops.foldl applyOp c).WF := by
    induction ops with
    | nil => intro c h; exact h
    | cons op ops ih => intro c h; exact ih _ (applyOp_wf c h op)
  exact this _ (newCanvas_wf w h)

/-- **C16, all histories**: after any prefix `pre` of any operation sequence on any canvas size, the next
operation satisfies every clause of the property. -/
theorem all_steps_hold (w h : Nat) (pre : List Op) (op : Op) :
    let c := pre.foldl applyOp (newCanvas w h)
    Spec.Mono.check (specG c.geo) (specOp op) c.bytes.size (applyOp c op).bytes.size
      (getPx c) (getPx (applyOp c op)) = none :=
  step_holds _ (reachable_wf w h pre) op

/-- padding bits beyond the canvas width are never modified, by any operation sequence step -/
theorem padding_never_modified (c : Canvas) (hwf : c.WF) (op : Op) (X Y : Nat)
    (hX : c.geo.W ≤ X) (hX' : X < c.geo.wib * 8) (hY : Y < c.geo.H) :
    getPx (applyOp c op) X Y = getPx c X Y := by
  by_cases hd : Op.isDraw op = true
  · refine (applyOp_touch c hwf op hd).same X Y hX' hY ?_
    rintro ⟨hc, _⟩
    have := inClip_bounds ((clip_iff _ _ _).1 hc)
    omega
  · exact (setter_getPx c op (by simpa using hd) X Y).1

/-- a pixel addressed outside the canvas is dropped: `DrawPixel` with an out-of-canvas target changes nothing -/
theorem outside_canvas_dropped (c : Canvas) (x y : Int) (col : Bool)
    (hout : x + c.geo.bx < 0 ∨ y + c.geo.byy < 0 ∨ x + c.geo.bx ≥ c.geo.W ∨ y + c.geo.byy ≥ c.geo.H) :
    drawPixel c x y col = c := by
  unfold drawPixel
  simp only []
  rw [if_neg]
  intro hc
  have := inClip_bounds hc
  omega

/-- non-vacuity: a concrete well-formed canvas with a non-trivial bounding box exists and is reachable -/
example : (applyOp (newCanvas 13 5) (.bbox 2 1 9 3)).WF ∧ getPx (applyOp (applyOp (newCanvas 13 5) (.bbox 2 1 9 3)) (.px 0 0 true)) 2 1 = true := by
  constructor
  · exact applyOp_wf _ (newCanvas_wf 13 5) _
  · decide

/-- The pinned tree's `DrawPixel` (no lower bound) wrote x = -8 on row 1 into pixel (8,0) of a 16×2 canvas. -/
theorem pinned_row_wrap_counterexample :
    getPx (drawPixelPinned (newCanvas 16 2) (-8) 1 true) 8 0 = true ∧
    getPx (drawPixel (newCanvas 16 2) (-8) 1 true) 8 0 = false := by decide

end RawPanelVerif.C16
