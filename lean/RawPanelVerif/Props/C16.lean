import RawPanelVerif.Lemmas.MonoOps
import RawPanelVerif.Lemmas.MonoQuadrant
import RawPanelVerif.Lemmas.MonoTotal
import RawPanelVerif.Lemmas.MonoInt64
import RawPanelVerif.Spec.MonoSpec
/-!
# C16 — Drawing never escapes the canvas or its clip region

Property theorems only.  The statement of the property is `Spec.Mono.check` / `checkBytes` (Spec/MonoSpec.lean): the
same executable predicate the check evaluates on the implementation's before/after buffers.

* `C16.step_holds`      for every well-formed canvas (row stride ≥ width/8, buffer of **at least** `wib·H` bytes — the slice
                        `CreateFromBytes` installs may be longer) and **every** operation (any coordinates, sizes, radii,
                        bitmaps shorter than declared, any text state / string): size kept, every stored bit outside
                        `clip ∩ footprint(op)` unchanged (padding bits included), and for pixels, lines and filled
                        rectangles every bit of `clip ∩ footprint` gets the drawing colour.  The footprint of a corner
                        helper / rounded rectangle is quadrant-exact (`Spec.Mono.fpCircQ`).
* `C16.step_tail_holds` bytes beyond the `wib·H` row bytes are never modified.
* `C16.reachable_wf`, `C16.reachable_wf_cmds`  every canvas reachable from `NewImage` by any sequence of drawing
                        operations, `NewImage` and `CreateFromBytes` (slices shorter / equal / longer) is well-formed, hence
* `C16.all_steps_hold`, `C16.all_steps_hold_cmds`  the clauses hold at every step of every such sequence.
* `C16.padding_never_modified`, `C16.outside_canvas_dropped` corollaries in the property's own words.
* `C16.no_panic`, `C16.no_panic_seq`, `C16.strWidth_no_panic`  in the panic-carrying form of the model
                        (`Model/MonoChecked.lean`: canvas bytes, font table and bitmap slice are `a[i]?`, negative shift
                        counts panic) no operation on **any** canvas with **any** arguments ever fails, and it computes
                        what the `getD` model computes.
* `C16.work_bound`      the number of loop iterations is at most `(L+1)·(82+72·E·(E+1))` for extents ≤ `E` and `L`
                        characters, independent of coordinates / canvas / bounding box (no hang; huge positive extents
                        are the only way to make a call slow).
* `C16.int64_safe`, `C16.strWidth_int64_safe`  with geometry and arguments below `2^31` every Go `int` value stays inside
                        `(-2^62, 2^62)` (`Model/MonoInt64.lean`), so the unbounded-`Int` model is exact there.
* `C16.circ_quadrant`, `C16.fcirc_side`, `C16.drawBitmap_exact`  exact regions of corner helpers; exact effect of `DrawBitmap`.
* `C16.pinned_row_wrap_counterexample` the defect of the pinned tree (fixed by `fix:` d38b978), for the record.
-/
namespace RawPanelVerif.C16
open RawPanelVerif RawPanelVerif.Mono

def specG (g : Geom) : Spec.Mono.G :=
  { W := g.W, H := g.H, wib := g.wib, bx := g.bx, byy := g.byy, bw := g.bw, bh := g.bh, inv := g.inv }

/-- the Spec-level description of a model operation (what the harness prints for it) -/
def specOp : Op → Spec.Mono.Op
  | .px x y c => .px x y c
  | .hline x y w c => .hline x y w c
  | .vline x y h c => .vline x y h c
  | .frect x y w h c => .frect x y w h c
  | .rrect x y w h r c => .rrect x y w h r c
  | .frrect x y w h r c => .frrect x y w h r c
  | .circ x0 y0 r k c => .circ x0 y0 r k c
  | .fcirc x0 y0 r k d c => .fcirc x0 y0 r k d c
  | .bitmap x y _ w h _ _ _ => .bitmap x y w h
  | .glyph t x y ch _ _ h v => .glyph x y (charWidth t ch) t.fp.bbH h v
  | .text _ _ => .text
  | .bbox _ _ _ _ => .noop
  | .inv _ => .noop

/-- drawing operations (everything except the two geometry setters) -/
def Op.isDraw : Op → Bool
  | .bbox _ _ _ _ => false
  | .inv _ => false
  | _ => true

def specRegion (g : Geom) (op : Spec.Mono.Op) : Region :=
  fun X Y => Spec.Mono.clip (specG g) X Y = true ∧ Spec.Mono.footprint (specG g) op X Y = true

theorem clip_iff (g : Geom) (X Y : Nat) : Spec.Mono.clip (specG g) X Y = true ↔ clipR g X Y := by
  unfold Spec.Mono.clip Spec.Mono.inBox clipR inClip xMin yMin wMax hMax specG
  simp only [Bool.and_eq_true, decide_eq_true_eq, Int.max_def, Int.min_def]
  constructor
  · rintro ⟨⟨⟨h1, h2⟩, h3⟩, h4⟩
    refine ⟨?_, ?_, ?_, ?_⟩ <;> split <;> (split at h1 <;> split at h2 <;> split at h3 <;> split at h4 <;> omega)
  · rintro ⟨h1, h2, h3, h4⟩
    refine ⟨⟨⟨?_, ?_⟩, ?_⟩, ?_⟩ <;> split <;> (split at h1 <;> split at h2 <;> split at h3 <;> split at h4 <;> omega)

theorem inBox_iff (a b c d X Y : Int) :
    Spec.Mono.inBox a b c d X Y = true ↔ a ≤ X ∧ X < c ∧ b ≤ Y ∧ Y < d := by
  unfold Spec.Mono.inBox
  simp only [Bool.and_eq_true, decide_eq_true_eq]
  constructor
  · rintro ⟨⟨⟨h1, h2⟩, h3⟩, h4⟩; exact ⟨h1, h2, h3, h4⟩
  · rintro ⟨h1, h2, h3, h4⟩; exact ⟨⟨⟨h1, h2⟩, h3⟩, h4⟩

theorem boxR_iff (g : Geom) (x y x1 y1 : Int) (X Y : Nat) :
    boxR g (x + g.bx) (y + g.byy) (x1 + g.bx) (y1 + g.byy) X Y ↔
      (Spec.Mono.clip (specG g) X Y = true ∧
        Spec.Mono.inBox x y x1 y1 ((X : Int) - g.bx) ((Y : Int) - g.byy) = true) := by
  unfold boxR
  rw [clip_iff, inBox_iff]
  constructor
  · rintro ⟨hc, h1, h2, h3, h4⟩; exact ⟨hc, by omega, by omega, by omega, by omega⟩
  · rintro ⟨hc, h1, h2, h3, h4⟩; exact ⟨hc, by omega, by omega, by omega, by omega⟩

theorem cbit_eq (corner : Int) : ∀ m ∈ [1, 2, 4, 8], Spec.Mono.cbit corner m = cornerBit corner m := by
  have hlt : (corner.emod 16).toNat < 16 := by
    have := Int.emod_lt_of_pos corner (by decide : (0 : Int) < 16)
    have := Int.emod_nonneg corner (by decide : (16 : Int) ≠ 0)
    show (corner % 16).toNat < 16
    omega
  unfold Spec.Mono.cbit cornerBit
  generalize (corner.emod 16).toNat = v at hlt
  have key : ∀ v : Fin 16, ∀ m ∈ [1, 2, 4, 8], (v.val / m % 2 == 1) = ((v.val &&& m) != 0) := by decide
  exact key ⟨v, hlt⟩

theorem circQR_iff (g : Geom) (x0 y0 r k : Int) (X Y : Nat) (h : circQR g x0 y0 r k X Y) :
    Spec.Mono.clip (specG g) X Y = true ∧ Spec.Mono.fpCircQ x0 y0 r k ((X : Int) - g.bx) ((Y : Int) - g.byy) = true := by
  obtain ⟨⟨hc, h1, h2, h3, h4⟩, hq⟩ := h
  refine ⟨(clip_iff g X Y).2 hc, ?_⟩
  unfold Spec.Mono.fpCircQ Spec.Mono.fpCirc
  rw [cbit_eq k 4 (by simp), cbit_eq k 2 (by simp), cbit_eq k 8 (by simp), cbit_eq k 1 (by simp)]
  simp only [Bool.and_eq_true, Bool.or_eq_true, decide_eq_true_eq]
  refine ⟨⟨by omega, (inBox_iff _ _ _ _ _ _).2 ⟨by omega, by omega, by omega, by omega⟩⟩, ?_⟩
  rcases hq with ⟨q, q1, q2⟩ | ⟨q, q1, q2⟩ | ⟨q, q1, q2⟩ | ⟨q, q1, q2⟩
  · exact Or.inl (Or.inl (Or.inl ⟨⟨q, by omega⟩, by omega⟩))
  · exact Or.inl (Or.inl (Or.inr ⟨⟨q, by omega⟩, by omega⟩))
  · exact Or.inl (Or.inr ⟨⟨q, by omega⟩, by omega⟩)
  · exact Or.inr ⟨⟨q, by omega⟩, by omega⟩

theorem fcircQR_iff (g : Geom) (x0 y0 r k d : Int) (X Y : Nat) (h : fcircQR g x0 y0 r k d X Y) :
    Spec.Mono.clip (specG g) X Y = true ∧ Spec.Mono.fpFCircQ x0 y0 r k d ((X : Int) - g.bx) ((Y : Int) - g.byy) = true := by
  obtain ⟨⟨hc, h1, h2, h3, h4⟩, hq⟩ := h
  refine ⟨(clip_iff g X Y).2 hc, ?_⟩
  unfold Spec.Mono.fpFCircQ Spec.Mono.fpFCirc
  rw [cbit_eq k 1 (by simp), cbit_eq k 2 (by simp)]
  simp only [Bool.and_eq_true, Bool.or_eq_true, decide_eq_true_eq]
  refine ⟨⟨by omega, (inBox_iff _ _ _ _ _ _).2 ⟨by omega, by omega, by omega, by omega⟩⟩, ?_⟩
  rcases hq with ⟨q, q1⟩ | ⟨q, q1⟩
  · exact Or.inl ⟨q, by omega⟩
  · exact Or.inr ⟨q, by omega⟩

/-- bytes and geometry reads are untouched by the two setters -/
theorem setter_getPx (c : Canvas) (op : Op) (h : Op.isDraw op = false) (X Y : Nat) :
    getPx (applyOp c op) X Y = getPx c X Y ∧ (applyOp c op).bytes = c.bytes := by
  cases op <;> simp [Op.isDraw] at h <;> simp [applyOp, setBoundingBox, invertPixels, getPx]

/-- **Frame**: every operation leaves every stored bit outside `clip ∩ footprint` alone. -/
theorem applyOp_touch (c : Canvas) (hwf : c.WF) (op : Op) (hd : Op.isDraw op = true) :
    Touch (specRegion c.geo (specOp op)) c (applyOp c op) := by
  have box := fun (x y x1 y1 : Int) (X Y : Nat) => (boxR_iff c.geo x y x1 y1 X Y).1
  cases op with
  | px x y col =>
    refine (drawPixel_paint c hwf x y col).toTouch.mono ?_
    rintro X Y ⟨hc, hX, hY⟩
    refine ⟨(clip_iff _ _ _).2 hc, ?_⟩
    simp [Spec.Mono.footprint, Spec.Mono.footprintRel, specOp, specG]; omega
  | hline x y w col =>
    refine (hline_paint c hwf x y w col).toTouch.mono ?_
    intro X Y hh
    have := box x y (x + w) (y + 1) X Y (by
      have e1 : x + w + c.geo.bx = x + c.geo.bx + w := by omega
      have e2 : y + 1 + c.geo.byy = y + c.geo.byy + 1 := by omega
      rw [e1, e2]; exact hh)
    exact this
  | vline x y h col =>
    refine (vline_paint c hwf x y h col).toTouch.mono ?_
    intro X Y hh
    exact box x y (x + 1) (y + h) X Y (by
      have e1 : x + 1 + c.geo.bx = x + c.geo.bx + 1 := by omega
      have e2 : y + h + c.geo.byy = y + c.geo.byy + h := by omega
      rw [e1, e2]; exact hh)
  | frect x y w h col =>
    refine (fillRect_paint c hwf x y w h col).toTouch.mono ?_
    intro X Y hh
    exact box x y (x + w) (y + h) X Y (by
      have e1 : x + w + c.geo.bx = x + c.geo.bx + w := by omega
      have e2 : y + h + c.geo.byy = y + c.geo.byy + h := by omega
      rw [e1, e2]; exact hh)
  | rrect x y w h r col =>
    refine (drawRoundRect_touchQ c hwf x y w h r col).mono ?_
    intro X Y hh
    unfold specRegion Spec.Mono.footprint Spec.Mono.footprintRel specOp
    simp only [Bool.or_eq_true]
    have g1 : (specG c.geo).bx = c.geo.bx := rfl
    have g2 : (specG c.geo).byy = c.geo.byy := rfl
    rw [g1, g2]
    rcases hh with hh | hh | hh | hh | hh | hh | hh | hh
    · have := box (x + r) y (x + r + (w - 2 * r)) (y + 1) X Y (by
        have e1 : x + r + (w - 2 * r) + c.geo.bx = x + r + c.geo.bx + (w - 2 * r) := by omega
        have e2 : y + 1 + c.geo.byy = y + c.geo.byy + 1 := by omega
        rw [e1, e2]; exact hh)
      exact ⟨this.1, by simp [this.2]⟩
    · have := box (x + r) (y + h - 1) (x + r + (w - 2 * r)) (y + h) X Y (by
        have e1 : x + r + (w - 2 * r) + c.geo.bx = x + r + c.geo.bx + (w - 2 * r) := by omega
        have e2 : y + h + c.geo.byy = y + h - 1 + c.geo.byy + 1 := by omega
        rw [e1, e2]; exact hh)
      exact ⟨this.1, by simp [this.2]⟩
    · have := box x (y + r) (x + 1) (y + r + (h - 2 * r)) X Y (by
        have e1 : x + 1 + c.geo.bx = x + c.geo.bx + 1 := by omega
        have e2 : y + r + (h - 2 * r) + c.geo.byy = y + r + c.geo.byy + (h - 2 * r) := by omega
        rw [e1, e2]; exact hh)
      exact ⟨this.1, by simp [this.2]⟩
    · have := box (x + w - 1) (y + r) (x + w) (y + r + (h - 2 * r)) X Y (by
        have e1 : x + w + c.geo.bx = x + w - 1 + c.geo.bx + 1 := by omega
        have e2 : y + r + (h - 2 * r) + c.geo.byy = y + r + c.geo.byy + (h - 2 * r) := by omega
        rw [e1, e2]; exact hh)
      exact ⟨this.1, by simp [this.2]⟩
    · have := circQR_iff _ _ _ _ _ _ _ hh; exact ⟨this.1, by simp [this.2]⟩
    · have := circQR_iff _ _ _ _ _ _ _ hh; exact ⟨this.1, by simp [this.2]⟩
    · have := circQR_iff _ _ _ _ _ _ _ hh; exact ⟨this.1, by simp [this.2]⟩
    · have := circQR_iff _ _ _ _ _ _ _ hh; exact ⟨this.1, by simp [this.2]⟩
  | frrect x y w h r col =>
    refine (fillRoundRect_touchQ c hwf x y w h r col).mono ?_
    intro X Y hh
    unfold specRegion Spec.Mono.footprint Spec.Mono.footprintRel specOp
    simp only [Bool.or_eq_true]
    have g1 : (specG c.geo).bx = c.geo.bx := rfl
    have g2 : (specG c.geo).byy = c.geo.byy := rfl
    rw [g1, g2]
    rcases hh with hh | hh | hh
    · have := box (x + r) y (x + r + (w - 2 * r)) (y + h) X Y (by
        have e1 : x + r + (w - 2 * r) + c.geo.bx = x + r + c.geo.bx + (w - 2 * r) := by omega
        have e2 : y + h + c.geo.byy = y + c.geo.byy + h := by omega
        rw [e1, e2]; exact hh)
      exact ⟨this.1, by simp [this.2]⟩
    · have := fcircQR_iff _ _ _ _ _ _ _ _ hh; exact ⟨this.1, by simp [this.2]⟩
    · have := fcircQR_iff _ _ _ _ _ _ _ _ hh; exact ⟨this.1, by simp [this.2]⟩
  | circ x0 y0 r k col =>
    refine (drawCircleHelper_touchQ c hwf x0 y0 r k col).mono ?_
    intro X Y hh
    exact circQR_iff _ _ _ _ _ _ _ hh
  | fcirc x0 y0 r k d col =>
    refine (fillCircleHelper_touchQ c hwf x0 y0 r k d col).mono ?_
    intro X Y hh
    exact fcircQR_iff _ _ _ _ _ _ _ _ hh
  | bitmap x y bits w h col i a =>
    refine (drawBitmap_touch c hwf x y bits w h col i a).mono ?_
    intro X Y hh
    exact box x y (x + w) (y + h) X Y (by
      have e1 : x + w + c.geo.bx = x + c.geo.bx + w := by omega
      have e2 : y + h + c.geo.byy = y + c.geo.byy + h := by omega
      rw [e1, e2]; exact hh)
  | glyph t x y ch col bg h v =>
    refine (drawChar_touch c hwf t x y ch col bg h v).mono ?_
    intro X Y hh
    exact box x y (x + (charWidth t ch : Int) * h) (y + (t.fp.bbH : Int) * v) X Y (by
      have e1 : x + (charWidth t ch : Int) * h + c.geo.bx = x + c.geo.bx + (charWidth t ch : Int) * h := by omega
      have e2 : y + (t.fp.bbH : Int) * v + c.geo.byy = y + c.geo.byy + (t.fp.bbH : Int) * v := by omega
      rw [e1, e2]; exact hh)
  | text t s =>
    refine (renderText_touch s c hwf t).mono ?_
    intro X Y hh
    exact ⟨(clip_iff _ _ _).2 hh, rfl⟩
  | bbox _ _ _ _ => simp [Op.isDraw] at hd
  | inv _ => simp [Op.isDraw] at hd

/-- **Exactness**: pixels, straight lines and filled rectangles set every bit of `clip ∩ footprint`. -/
theorem applyOp_exact (c : Canvas) (hwf : c.WF) (op : Op) (col : Bool)
    (he : Spec.Mono.exactColour (specOp op) = some col) (X Y : Nat)
    (hX : X < c.geo.wib * 8) (hY : Y < c.geo.H) (hr : specRegion c.geo (specOp op) X Y) :
    getPx (applyOp c op) X Y = (col != c.geo.inv) := by
  have box := fun (x y x1 y1 : Int) (X Y : Nat) => (boxR_iff c.geo x y x1 y1 X Y).2
  obtain ⟨hc, hf⟩ := hr
  cases op with
  | px x y c0 =>
    simp [specOp, Spec.Mono.exactColour] at he; subst he
    refine (drawPixel_paint c hwf x y c0).inside X Y hX hY ⟨(clip_iff _ _ _).1 hc, ?_⟩
    simp [Spec.Mono.footprint, Spec.Mono.footprintRel, specOp, specG] at hf; omega
  | hline x y w c0 =>
    simp [specOp, Spec.Mono.exactColour] at he; subst he
    refine (hline_paint c hwf x y w c0).inside X Y hX hY ?_
    have := box x y (x + w) (y + 1) X Y ⟨hc, hf⟩
    have e1 : x + w + c.geo.bx = x + c.geo.bx + w := by omega
    have e2 : y + 1 + c.geo.byy = y + c.geo.byy + 1 := by omega
    rw [e1, e2] at this; exact this
  | vline x y h c0 =>
    simp [specOp, Spec.Mono.exactColour] at he; subst he
    refine (vline_paint c hwf x y h c0).inside X Y hX hY ?_
    have := box x y (x + 1) (y + h) X Y ⟨hc, hf⟩
    have e1 : x + 1 + c.geo.bx = x + c.geo.bx + 1 := by omega
    have e2 : y + h + c.geo.byy = y + c.geo.byy + h := by omega
    rw [e1, e2] at this; exact this
  | frect x y w h c0 =>
    simp [specOp, Spec.Mono.exactColour] at he; subst he
    refine (fillRect_paint c hwf x y w h c0).inside X Y hX hY ?_
    have := box x y (x + w) (y + h) X Y ⟨hc, hf⟩
    have e1 : x + w + c.geo.bx = x + c.geo.bx + w := by omega
    have e2 : y + h + c.geo.byy = y + c.geo.byy + h := by omega
    rw [e1, e2] at this; exact this
  | _ => simp [specOp, Spec.Mono.exactColour] at he

theorem applyOp_wf (c : Canvas) (hwf : c.WF) (op : Op) : (applyOp c op).WF := by
  by_cases hd : Op.isDraw op = true
  · exact (applyOp_touch c hwf op hd).wf
  · cases op <;> simp [Op.isDraw] at hd <;> exact hwf

theorem mem_allPixels (g : Spec.Mono.G) (p : Nat × Nat) (h : p ∈ Spec.Mono.allPixels g) :
    p.1 < g.wib * 8 ∧ p.2 < g.H := by
  unfold Spec.Mono.allPixels at h
  simp only [List.mem_flatMap, List.mem_range, List.mem_map] at h
  obtain ⟨Y, hY, X, hX, rfl⟩ := h
  exact ⟨hX, hY⟩

/-- **C16, one step**: the property predicate holds for every operation on every well-formed canvas. -/
theorem step_holds (c : Canvas) (hwf : c.WF) (op : Op) :
    Spec.Mono.check (specG c.geo) (specOp op) c.bytes.size (applyOp c op).bytes.size
      (getPx c) (getPx (applyOp c op)) = none := by
  have hlen : (applyOp c op).bytes.size = c.bytes.size := by
    by_cases hd : Op.isDraw op = true
    · exact (applyOp_touch c hwf op hd).len hwf
    · rw [(setter_getPx c op (by simpa using hd) 0 0).2]
  unfold Spec.Mono.check
  rw [if_neg (by rw [hlen]; simp)]
  have hnone : (Spec.Mono.allPixels (specG c.geo)).find?
      (fun p => !Spec.Mono.pixelOk (specG c.geo) (specOp op) (getPx c) (getPx (applyOp c op)) p.1 p.2) = none := by
    rw [List.find?_eq_none]
    intro p hp
    obtain ⟨hX, hY⟩ := mem_allPixels _ p hp
    simp only [Bool.not_eq_true, Bool.not_eq_false']
    unfold Spec.Mono.pixelOk
    simp only []
    by_cases hd : Op.isDraw op = true
    · have ht := applyOp_touch c hwf op hd
      by_cases hr : specRegion c.geo (specOp op) p.1 p.2
      · have hr' := hr
        obtain ⟨h1, h2⟩ := hr'
        rw [h1, h2]
        simp only [Bool.and_self, if_true]
        cases he : Spec.Mono.exactColour (specOp op) with
        | none => rfl
        | some col =>
          simp only []
          rw [applyOp_exact c hwf op col he p.1 p.2 hX hY hr]
          simp [specG]
      · have hcond : (Spec.Mono.clip (specG c.geo) ↑p.1 ↑p.2 && Spec.Mono.footprint (specG c.geo) (specOp op) ↑p.1 ↑p.2) = false := by
          cases h1 : Spec.Mono.clip (specG c.geo) ↑p.1 ↑p.2 <;> cases h2 : Spec.Mono.footprint (specG c.geo) (specOp op) ↑p.1 ↑p.2 <;> simp
          exact hr ⟨h1, h2⟩
        rw [hcond]
        simp only [Bool.false_eq_true, if_false]
        rw [ht.same p.1 p.2 hX hY hr]; simp
    · have hs := setter_getPx c op (by simpa using hd) p.1 p.2
      have hno : Spec.Mono.footprint (specG c.geo) (specOp op) ↑p.1 ↑p.2 = false := by
        cases op <;> simp [Op.isDraw] at hd <;> rfl
      rw [hno, hs.1]; simp
  rw [hnone]

/-- every canvas reachable from `NewImage(w,h)` by any operation sequence is well-formed -/
theorem newCanvas_wf (w h : Nat) : (newCanvas w h).WF := by
  unfold newCanvas Canvas.WF
  simp only [Array.size_replicate, and_true]
  omega

theorem reachable_wf (w h : Nat) (ops : List Op) : (ops.foldl applyOp (newCanvas w h)).WF := by
  have : ∀ (c : Canvas), c.WF → (ops.foldl applyOp c).WF := by
    induction ops with
    | nil => intro c h; exact h
    | cons op ops ih => intro c h; exact ih _ (applyOp_wf c h op)
  exact this _ (newCanvas_wf w h)

/-- **C16, all histories**: after any prefix `pre` of any operation sequence on any canvas size, the next
operation satisfies every clause of the property. -/
theorem all_steps_hold (w h : Nat) (pre : List Op) (op : Op) :
    let c := pre.foldl applyOp (newCanvas w h)
    Spec.Mono.check (specG c.geo) (specOp op) c.bytes.size (applyOp c op).bytes.size
      (getPx c) (getPx (applyOp c op)) = none :=
  step_holds _ (reachable_wf w h pre) op

/-- padding bits beyond the canvas width are never modified, by any operation sequence step -/
theorem padding_never_modified (c : Canvas) (hwf : c.WF) (op : Op) (X Y : Nat)
    (hX : c.geo.W ≤ X) (hX' : X < c.geo.wib * 8) (hY : Y < c.geo.H) :
    getPx (applyOp c op) X Y = getPx c X Y := by
  by_cases hd : Op.isDraw op = true
  · refine (applyOp_touch c hwf op hd).same X Y hX' hY ?_
    rintro ⟨hc, _⟩
    have := inClip_bounds ((clip_iff _ _ _).1 hc)
    omega
  · exact (setter_getPx c op (by simpa using hd) X Y).1

/-- a pixel addressed outside the canvas is dropped: `DrawPixel` with an out-of-canvas target changes nothing -/
theorem outside_canvas_dropped (c : Canvas) (x y : Int) (col : Bool)
    (hout : x + c.geo.bx < 0 ∨ y + c.geo.byy < 0 ∨ x + c.geo.bx ≥ c.geo.W ∨ y + c.geo.byy ≥ c.geo.H) :
    drawPixel c x y col = c := by
  unfold drawPixel
  simp only []
  rw [if_neg]
  intro hc
  have := inClip_bounds hc
  omega

/-! ## buffers longer than the canvas rows; (re)constructors as commands -/

/-- **tail**: bytes beyond the `wib·H` row bytes (a longer slice installed by `CreateFromBytes`) are never modified -/
theorem step_tail_holds (c : Canvas) (hwf : c.WF) (op : Op) :
    Spec.Mono.tailOk (specG c.geo) c.bytes.size (fun i => (c.bytes.getD i 0).toNat)
      (fun i => ((applyOp c op).bytes.getD i 0).toNat) = true := by
  unfold Spec.Mono.tailOk
  rw [List.all_eq_true]
  intro k _
  simp only [beq_iff_eq]
  have hsame : (applyOp c op).bytes[c.geo.wib * c.geo.H + k]? = c.bytes[c.geo.wib * c.geo.H + k]? := by
    by_cases hd : Op.isDraw op = true
    · exact (applyOp_touch c hwf op hd).tail _ (by omega)
    · rw [(setter_getPx c op (by simpa using hd) 0 0).2]
  show ((applyOp c op).bytes.getD (c.geo.wib * c.geo.H + k) 0).toNat = (c.bytes.getD (c.geo.wib * c.geo.H + k) 0).toNat
  rw [Array.getD_eq_getD_getElem?, Array.getD_eq_getD_getElem?, hsame]

theorem copyBytes_size (dst src : Array (BitVec 8)) : (copyBytes dst src).size = dst.size := by
  unfold copyBytes; simp

/-- `NewImage` / `CreateFromBytes` (any slice: shorter, exact, **longer** than `wib·h`) produce well-formed canvases -/
theorem applyCmd_wf (c : Canvas) (hwf : c.WF) (cmd : Cmd) : (applyCmd c cmd).WF := by
  cases cmd with
  | op o => exact applyOp_wf c hwf o
  | newImage w h =>
    have := newCanvas_wf w h
    unfold applyCmd newImageOn Canvas.WF at *; simpa using this
  | fromBytes w h b =>
    unfold applyCmd createFromBytesOn Canvas.WF newCanvas
    simp only []
    refine ⟨by omega, ?_⟩
    split
    · rw [copyBytes_size]; simp
    · omega

/-- every canvas reachable by drawing operations, `NewImage` and `CreateFromBytes` in any order is well-formed -/
theorem reachable_wf_cmds (w h : Nat) (cmds : List Cmd) : (cmds.foldl applyCmd (newCanvas w h)).WF := by
  have : ∀ (c : Canvas), c.WF → (cmds.foldl applyCmd c).WF := by
    induction cmds with
    | nil => intro c h; exact h
    | cons x xs ih => intro c h; exact ih _ (applyCmd_wf c h x)
  exact this _ (newCanvas_wf w h)

/-- **C16, all histories incl. buffer replacement**: after any prefix of drawing operations, `NewImage` and
`CreateFromBytes` calls (slices of any length), the next drawing operation satisfies every clause, the tail clause included. -/
theorem all_steps_hold_cmds (w h : Nat) (pre : List Cmd) (op : Op) :
    let c := pre.foldl applyCmd (newCanvas w h)
    Spec.Mono.check (specG c.geo) (specOp op) c.bytes.size (applyOp c op).bytes.size
      (getPx c) (getPx (applyOp c op)) = none ∧
    Spec.Mono.tailOk (specG c.geo) c.bytes.size (fun i => (c.bytes.getD i 0).toNat)
      (fun i => ((applyOp c op).bytes.getD i 0).toNat) = true :=
  ⟨step_holds _ (reachable_wf_cmds w h pre) op, step_tail_holds _ (reachable_wf_cmds w h pre) op⟩

/-- non-vacuity: a 9×2 canvas loaded from a 7-byte slice (4 needed) is well-formed, keeps 7 bytes, and drawing on it
changes byte 0 only -/
example :
    let c := applyCmd (newCanvas 0 0) (.fromBytes 9 2 #[0, 0, 0, 0, 0xAA#8, 0xBB#8, 0xCC#8])
    c.bytes.size = 7 ∧ (applyOp c (.px 0 0 true)).bytes = #[0x80#8, 0, 0, 0, 0xAA#8, 0xBB#8, 0xCC#8] := by decide

/-! ## no panic, no hang -/

/-- **No panic, bounded work — every operation, every canvas, all arguments.**  In the panic-carrying form of the model
(`Model/MonoChecked.lean`: `imgBytes[index]`, `font[...]`, `bitmap[idx]` are checked accesses, a negative shift count
panics) no operation ever fails: it returns exactly the canvas of the `getD`-totalised model, after at most `opWork op`
loop iterations.  No well-formedness is needed: `DrawPixel`'s own index guard protects every buffer. -/
theorem no_panic (c : Canvas) (n : Nat) (op : Op) :
    ∃ k, applyOpC (c, n) op = some (applyOp c op, n + k) ∧ k ≤ opWork op := applyOpC_runs c n op

/-- the same for every operation sequence -/
theorem no_panic_seq (c : Canvas) (n : Nat) (ops : List Op) :
    ∃ k, runOpsC (c, n) ops = some (ops.foldl applyOp c, n + k) ∧ k ≤ (ops.map opWork).sum := runOpsC_runs ops c n

/-- `StrWidth` never panics either (any font number, mode, string) -/
theorem strWidth_no_panic (t : TextSt) (s : List Nat) : strWidthC t s = some (strWidth t s) := strWidthC_eq t s

/-- **No hang**: the number of loop iterations depends on the extents (widths, heights, radii, text sizes, string length)
only — never on coordinates, canvas or bounding box: with every extent ≤ `E` and at most `L` characters it is at most
`(L+1)·(82 + 72·E·(E+1))`.  Huge *coordinates* are therefore harmless; a huge positive *extent* is not (the loop runs
that often, each pixel dropped by the clip test) — that is the no-hang domain of the generator. -/
theorem work_bound (c : Canvas) (n : Nat) (op : Op) (E L : Nat) (he : extentsLe E op) (hl : strLen op ≤ L) :
    ∃ k, applyOpC (c, n) op = some (applyOp c op, n + k) ∧ k ≤ (L + 1) * (82 + 72 * (E * (E + 1))) := by
  obtain ⟨k, e, b⟩ := applyOpC_runs c n op
  exact ⟨k, e, Nat.le_trans b (opWork_le op E L he hl)⟩

/-- non-vacuity: a line starting at x = 2^31 - 3 with 10 pixels on a 16×2 canvas costs 10 iterations and draws nothing;
the checked accesses are real (a font table that is too short makes the checked width computation fail) -/
example : applyOpC (newCanvas 16 2, 0) (.hline 2147483645 1 10 true) = some (newCanvas 16 2, 10) ∧
    startBlanksC { bbH := 8, bbW := 6, first := 32, last := 127, tight := 1, table := #[] } 0 5 0 = none := by
  constructor <;> decide

/-! ## exact regions of the corner helpers and of bitmaps -/

/-- **Each corner-name bit paints only its quadrant**: `DrawCircleHelper(x0, y0, r, corner)` leaves every stored bit
unchanged that is not — inside clip and radius box — in a quadrant whose bit is set: bit 1 upper left (`X ≤ x0, Y ≤ y0`),
2 upper right, 4 lower right, 8 lower left of the centre.  (The Spec's footprint of `circ` / `rrect` is this region, so the
run also rejects an implementation that draws a corner into the wrong quadrant.) -/
theorem circ_quadrant (c : Canvas) (hwf : c.WF) (x0 y0 r corner : Int) (col : Bool) (X Y : Nat)
    (hX : X < c.geo.wib * 8) (hY : Y < c.geo.H) (hout : ¬ circQR c.geo x0 y0 r corner X Y) :
    getPx (drawCircleHelper c x0 y0 r corner col) X Y = getPx c X Y :=
  (drawCircleHelper_touchQ c hwf x0 y0 r corner col).same X Y hX hY hout

/-- `FillCircleHelper`: bit 1 fills only columns `X ≥ x0`, bit 2 only columns `X ≤ x0` -/
theorem fcirc_side (c : Canvas) (hwf : c.WF) (x0 y0 r corner delta : Int) (col : Bool) (X Y : Nat)
    (hX : X < c.geo.wib * 8) (hY : Y < c.geo.H) (hout : ¬ fcircQR c.geo x0 y0 r corner delta X Y) :
    getPx (fillCircleHelper c x0 y0 r corner delta col) X Y = getPx c X Y :=
  (fillCircleHelper_touchQ c hwf x0 y0 r corner delta col).same X Y hX hY hout

/-- non-vacuity: corner name 4 on a 16×16 canvas: (12,12) is in its quadrant region, (4,4) (upper left) is not -/
example : circQR (newCanvas 16 16).geo 8 8 5 4 12 12 ∧ ¬ circQR (newCanvas 16 16).geo 8 8 5 4 4 4 := by
  unfold circQR circR boxR clipR inClip xMin yMin wMax hMax cornerBit newCanvas
  constructor
  · decide
  · decide

/-- **`DrawBitmap`, exact**: a stored bit is written iff it lies in the clip, is bit `(i, j)` of the `w × h` bitmap, the
supplied slice reaches that bit, and (`drawAllPixels` or the bit, xor `inverted`, is set); it then gets
`color != !bit` (xor the inversion flag).  Every other stored bit keeps its value. -/
theorem drawBitmap_exact (c : Canvas) (hwf : c.WF) (x y : Int) (bits : Array UInt8) (w h : Int)
    (col inverted drawAll : Bool) (X Y : Nat) (hX : X < c.geo.wib * 8) (hY : Y < c.geo.H) :
    (bitmapR c.geo x y bits w h inverted drawAll X Y →
      getPx (drawBitmap c x y bits w h col inverted drawAll) X Y = bitmapV c.geo x y bits w col inverted X Y) ∧
    (¬ bitmapR c.geo x y bits w h inverted drawAll X Y →
      getPx (drawBitmap c x y bits w h col inverted drawAll) X Y = getPx c X Y) :=
  ⟨(drawBitmap_paintF c hwf x y bits w h col inverted drawAll).inside X Y hX hY,
   (drawBitmap_paintF c hwf x y bits w h col inverted drawAll).same X Y hX hY⟩

/-! ## Go `int` is int64: no overflow on the 32-bit domain -/

/-- **int64-safe**: in `Model/MonoInt64.lean` every value the Go code computes in an `int` is checked to stay inside
`(-2^62, 2^62)` (a quarter of int64).  If the canvas size, the row stride and the bounding-box fields are below `2^31` and
every argument of the operation is below `2^31` in magnitude (text: cursor and sizes below `2^31`, spacing a byte, at most
`2^22` characters) no check fails and the result is the canvas of the `Int` model: on this domain Go's wrap-around
arithmetic and the model's unbounded integers agree.  Beyond it nothing is claimed (Go wraps silently; e.g. a cursor near
`2^63` plus an advance). -/
theorem int64_safe (c : Canvas) (hg : SmallG c.geo) (op : Op) (ho : SmallOp op) : applyOp64 c op = some (applyOp c op) :=
  applyOp64_eq c hg op ho

/-- `StrWidth`'s running sum likewise -/
theorem strWidth_int64_safe (t : TextSt) (s : List Nat) (hH : -2147483648 < t.tsH ∧ t.tsH < 2147483648)
    (hsp : t.spacing < 256) (hl : s.length ≤ 4194304) : strWidth64 t s = some (strWidth t s) :=
  strWidth64_eq t s hH hsp hl

/-- canvases of `NewImage(w, h)` with `w, h < 2^31` are in the domain, and drawing never changes the geometry -/
theorem newCanvas_small (w h : Nat) (hw : w < 2147483648) (hh : h < 2147483648) : SmallG (newCanvas w h).geo := by
  unfold SmallG newCanvas
  simp only []
  omega

/-- non-vacuity: the checks are real (a coordinate of `2^62` fails the very first addition), and an operation at the edge
of the domain passes them -/
example : applyOp64 (newCanvas 16 2) (.px 4611686018427387904 0 true) = none ∧
    applyOp64 (newCanvas 16 2) (.hline 2147483640 1 2147483647 true) ≠ none := by
  constructor
  · decide
  · rw [int64_safe _ (newCanvas_small 16 2 (by omega) (by omega)) _ (by unfold SmallOp; omega)]
    exact fun h => nomatch h

/-- non-vacuity: a concrete well-formed canvas with a non-trivial bounding box exists and is reachable -/
example : (applyOp (newCanvas 13 5) (.bbox 2 1 9 3)).WF ∧ getPx (applyOp (applyOp (newCanvas 13 5) (.bbox 2 1 9 3)) (.px 0 0 true)) 2 1 = true := by
  constructor
  · exact applyOp_wf _ (newCanvas_wf 13 5) _
  · decide

/-- The pinned tree's `DrawPixel` (no lower bound) wrote x = -8 on row 1 into pixel (8,0) of a 16×2 canvas. -/
theorem pinned_row_wrap_counterexample :
    getPx (drawPixelPinned (newCanvas 16 2) (-8) 1 true) 8 0 = true ∧
    getPx (drawPixel (newCanvas 16 2) (-8) 1 true) 8 0 = false := by decide

end RawPanelVerif.C16
