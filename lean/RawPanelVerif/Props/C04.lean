import RawPanelVerif.Lemmas.OutDecReg
import RawPanelVerif.Gen.Consts
/-!
# C04 — Panel ASCII lines decode to exactly the events and information they denote

Statements are about the decoder model `DecOut.decLine` / `decOut` (= `RawPanelASCIIstringsToOutboundMessages`, tied
by the correspondence; `repaired` = the code after the `fix:` that adds `Raw` to the event regex) and the independent
reader `Spec.Out.readLine`.

Main theorems (for ALL byte strings / line lists; `hfmt`: in this direction a float is the token `ParseFloat` returned,
so `effectsOfOut` must not re-format it):
* `decOut_sound` : for every list of lines none of which the reader puts outside the domain (each line is well-formed
  in the grammar of DESIGN.md Appendix B, or non-grammar; `inDomainLines` is decidable) the decoded messages carry exactly
  the effects the reader assigns, in line order — every event kind incl. `Raw` with and without edge suffix, signed values
  over the full ranges, map, all 29 keys, capability lists in any order with duplicates, SysStat with any subset/order,
  `;`-lists, registers; Press = press then release.
* `nongrammar_silent` : a line whose keyword / key is not part of the grammar (also `key=` without value, blank line)
  never produces an event or a report.
* `support_any_order`, `support_same_set` : for ANY list of parts the decoded flag of each capability is "its name occurs
  in the list"; two lists naming the same set decode to the same flags.
* `sysstat_any_subset_order` : whatever SysStat record line the reader accepts (any subset, any order of the 20 keys), the
  sliding scan (`a++`) builds the record with exactly the reader's values, absent fields zero.
* `regex_sources_tie` : the four regular expressions of the current source are literally the ones the byte matchers
  of the model were written for (regenerated `Gen.Consts`); an edit of a regex breaks this obligation.
* `press_is_down_then_up` : `HWC#id[.edge]=Press` decodes, for every id and edge, to a press followed by a release.
* `raw_event_lost_counterexample` : with the pinned regex (no `Raw`) `HWC#5=Raw:123` decoded to an empty message while
  the grammar assigns a raw-analog event; the repaired decoder returns that event.
  `raw_case_would_panic` : the pinned `case "Raw"` indexed `regex_cmd` (4 groups) at [6]: had the regex let `Raw`
  through, the decoder would have panicked.

Notes on lines OUTSIDE the well-formed domain (modelled and correspondence-tested, not findings — the grammar uses `.`
and typed arguments): the edge separator of the event regex is the wildcard `.`, so `HWC#5x4=Down` and `HWC#5=4=Down` decode
as id 5 edge 4 (`HWC#54=Down` is unambiguous: greedy digits, empty alternative first → id 54); `Down|Up|Press` followed
by `:value` ignore the value; `Enc|Abs|Speed|Raw` without value read 0; values beyond 32 bits wrap (cast) or clamp (Atoi);
`_panelType=Foo` / `EnvironmentalHealth=Foo` append no message at all; a SysStat value that is itself a key name is re-read
as a key by the sliding scan (`a++`).
-/
namespace RawPanelVerif.C04
open RawPanelVerif RawPanelVerif.Bytes RawPanelVerif.MsgOut RawPanelVerif.EncOut RawPanelVerif.DecOut RawPanelVerif.Spec.Out
open RawPanelVerif.OutLemmas (IsNum)

def src_cmd_inbound : String := "^HWC#([0-9]+)(|.([0-9]+))=(Down|Up|Press|Abs|Speed|Enc|Raw)(|:([-0-9]+))$"
def src_map : String := "^map=([0-9]+):([0-9]+)$"
def src_generic : String := "^(_model|_serial|_version|_platform|_bluePillReady|_name|_panelType|_support|_isSleeping|_sleepTimer|_panelTopology_svgbase|_panelTopology_HWC|_burninProfile|_networkConfig|_calibrationProfile|_defaultCalibrationProfile|_serverModeLockToIP|_serverModeMaxClients|_heartBeatTimer|DimmedGain|_connections|_bootsCount|_totalUptimeMin|_sessionUptimeMin|_screenSaverOnMin|ErrorMsg|Msg|EnvironmentalHealth|SysStat)=(.+)$"
def src_registers : String := "^(Flag#|Mem|Shift|State)([A-Z0-9]*)=([0-9]+)$"

/-- the regular expressions in the current source are the ones the model's matchers implement -/
theorem regex_sources_tie :
    Gen.regex_cmd_inbound_src = src_cmd_inbound ∧ Gen.regex_map_src = src_map ∧
    Gen.regex_genericSingle_inbound_src = src_generic ∧ Gen.regex_registersOut_src = src_registers := by
  decide +kernel

/-- **Press = Down then Up**, for every id and every edge suffix (`edgeText none = ""`, `edgeText (some e) = "." ++ e`) -/
theorem press_is_down_then_up (o : OutOracle) (ids : Bytes) (hid : IsNum ids) (eds : Option Bytes) (he : OutLemmas.EdgeOk eds) :
    decLine repaired o (kHWC ++ ids ++ OutLemmas.edgeText eds ++ 61 :: asc "Press") =
      some { events := [binEv (natOfDigits ids) true (OutLemmas.edgeVal eds), binEv (natOfDigits ids) false (OutLemmas.edgeVal eds)] } := by
  have := OutLemmas.decLine_binary o ids hid eds he (asc "Press") (Or.inr (Or.inr rfl))
  simpa using this

example : IsNum (asc "4294967295") ∧ IsNum (asc "16") := by
  refine ⟨⟨by decide, by decide, by decide⟩, ⟨by decide, by decide, by decide⟩⟩

def testOracle : OutOracle := ⟨fun _ t => t, fun t => t, fun _ => [], fun _ => none⟩

/-- The pinned tree (event regex without `Raw`) lost the raw-analog event: `HWC#5=Raw:123` → empty message, although the
grammar (and the encoder of the same library) assign it `raw 5 123`.  The repaired decoder returns the event. -/
theorem raw_event_lost_counterexample :
    decOutV pinned testOracle [asc "HWC#5=Raw:123"] = [{}] ∧
    readOutbound testOracle [asc "HWC#5=Raw:123"] = [.event .raw 5 0 false 123] ∧
    (decOut testOracle [asc "HWC#5=Raw:123"]).flatMap (effectsOfOut testOracle) = [.event .raw 5 0 false 123] := by
  decide

/-- the pinned `case "Raw"` indexes a 4-group regex at [6]: with `Raw` in the event regex but the case unchanged the
decoder panics -/
theorem raw_case_would_panic :
    (match decLineE ⟨kindsRepaired, true⟩ testOracle (asc "HWC#5=Raw:123") with | .error .index => true | _ => false) = true ∧
    (match decLineE repaired testOracle (asc "HWC#5=Raw:123") with | .ok (some _) => true | _ => false) = true := by
  decide

/-- effects of what one line decodes to -/
abbrev lineEffects (o : OutOracle) (l : Bytes) : List Effect := (decLine repaired o l).toList.flatMap (effectsOfOut o)

/-- **One line decodes to exactly what it denotes** (well-formed or non-grammar line) -/
theorem decLine_sound (o : OutOracle) (l : Bytes) (hfmt : ∀ p t, o.fmtF p t = t) (h : readLine o l ≠ .outside) :
    lineEffects o l = (readLine o l).effects := OutLemmas.dec_line_sound o l hfmt h

/-- **Soundness of the decoder**: for every sequence of well-formed / non-grammar lines the decoded messages carry exactly
the events and values the independent reading of the grammar assigns to each line, in line order -/
theorem decOut_sound (o : OutOracle) (ls : List Bytes) (hfmt : ∀ p t, o.fmtF p t = t) (h : inDomainLines o ls = true) :
    (decOut o ls).flatMap (effectsOfOut o) = readOutbound o ls := by
  unfold inDomainLines at h
  rw [List.all_eq_true] at h
  unfold decOut decOutV readOutbound
  induction ls with
  | nil => rfl
  | cons l rest ih =>
    have hl : readLine o l ≠ .outside := by simpa using h l (by simp)
    have hd := decLine_sound o l hfmt hl
    have ih' := ih (fun x hx => h x (by simp [hx]))
    simp only [List.flatMap_cons]
    rw [← hd, ← ih']
    cases hx : decLine repaired o l with
    | none => simp [hx, lineEffects]
    | some m => simp [hx, lineEffects]

/-- **Non-grammar lines are silent**: never an event or a report -/
theorem nongrammar_silent (o : OutOracle) (l : Bytes) (hfmt : ∀ p t, o.fmtF p t = t) (h : readLine o l = .nonGrammar) :
    lineEffects o l = [] := by
  have := decLine_sound o l hfmt (by rw [h]; simp)
  rw [this, h]; rfl

/-- **Capability list in any order**: for ANY list of parts (any order, duplicates, unknown names) the decoded flag of each
of the 13 capabilities is exactly "its name occurs in the list" -/
theorem support_any_order (parts : List Bytes) (c : Cap) : (supportOfParts parts).get c = parts.contains (Cap.name c) :=
  OutLemmas.supportOfParts_get parts c

theorem support_ext (s t : Support) (h : ∀ c, s.get c = t.get c) : s = t := by
  have h1 := h .ascii; have h2 := h .binary; have h3 := h .jsonFeedback; have h4 := h .jsonInbound
  have h5 := h .jsonOutbound; have h6 := h .system; have h7 := h .rawADCValues; have h8 := h .burninProfile
  have h9 := h .envHealth; have h10 := h .registers; have h11 := h .calibration; have h12 := h .processors
  have h13 := h .networkSettings
  cases s; cases t
  simp only [Support.get] at h1 h2 h3 h4 h5 h6 h7 h8 h9 h10 h11 h12 h13
  simp [h1, h2, h3, h4, h5, h6, h7, h8, h9, h10, h11, h12, h13]

/-- two part lists naming the same set (permutations, duplicates) decode to the same flags -/
theorem support_same_set (p1 p2 : List Bytes) (h : ∀ n, n ∈ p1 ↔ n ∈ p2) : supportOfParts p1 = supportOfParts p2 := by
  apply support_ext
  intro c
  rw [support_any_order, support_any_order]
  have := h (Cap.name c)
  by_cases hm : Cap.name c ∈ p1
  · simp [hm, this.1 hm]
  · have hm2 : Cap.name c ∉ p2 := fun x => hm (this.2 x)
    simp [hm, hm2]

/-- **SysStat with any subset and order of the 20 fields** (the scan slides by one, as written) -/
theorem sysstat_any_subset_order (o : OutOracle) (v : Bytes) (effs : List Effect) (hfmt : ∀ p t, o.fmtF p t = t)
    (h : readSysStat o v = .grammar effs) : sysStatEff o (sysScan o (splitOn 58 v) {}) = effs :=
  OutLemmas.dec_sysstat o v effs hfmt h

/-- non-vacuity: a mixed sequence (events incl. Raw and an edge suffix, Press, map, keys, a permuted capability list with a
duplicate, a SysStat line with 3 fields in reverse order, a register, non-grammar lines) is in the domain -/
def exLines : List Bytes :=
  [asc "list", asc "HWC#5=Raw:123", asc "HWC#007.4=Press", asc "HWC#4294967295=Speed:-2147483648", asc "map=1:4294967295",
   asc "_model=SK X", asc "_support=Binary,ASCII,Binary,NetworkSettings", asc "SysStat=Throttled:1:MemFree:-5:CPUTemp:45.3:",
   asc "_serverModeLockToIP= 10.0.0.1 ;;b", asc "Flag#007=5", asc "_model=", asc "hello", asc ""]

example : inDomainLines testOracle exLines = true := by decide
example : (decOut testOracle exLines).flatMap (effectsOfOut testOracle) = readOutbound testOracle exLines := by decide
example : readLine testOracle (asc "_model=") = .nonGrammar ∧ readLine testOracle (asc "pong") = .nonGrammar := by decide

end RawPanelVerif.C04
