import RawPanelVerif.Lemmas.OutDecReg
import RawPanelVerif.Lemmas.OutDomain
import RawPanelVerif.Base.RegexAlts
import RawPanelVerif.Gen.Consts
/-!
# C04 — Panel ASCII lines decode to exactly the events and information they denote

Statements are about the decoder model `DecOut.decLine` / `decOut` (= `RawPanelASCIIstringsToOutboundMessages`, tied
by the correspondence; `repaired` = the code after the `fix:` that adds `Raw` to the event regex) and the independent
reader `Spec.Out.readLine`.

Main theorems (for ALL byte strings / line lists; `hfmt`: in this direction a float is the token `ParseFloat` returned,
so `effectsOfOut` must not re-format it):
* `decOut_sound` : for every list of lines none of which the reader puts outside the domain (each line is well-formed
  in the grammar of DESIGN.md Appendix B as extended in Spec/GrammarOut.lean, or non-grammar; `inDomainLines` is
  decidable) the decoded messages carry exactly the effects the reader assigns, in line order — Down/Up/Press with and
  without edge suffix, Enc/Abs/Speed/Raw with and without edge suffix (the suffix of a value event carries no
  information), signed values over the full ranges, map, all 29 keys, capability lists in any order with duplicates,
  SysStat with any subset/order, `;`-lists, registers; Press = press then release.
* `decOut_context_free` : for ALL line lists (no domain hypothesis) the effects of the decoded batch are the reader's effects of
  every well-formed / non-grammar line and, for every line the grammar says nothing about (`readLine = .outside`:
  `_panelType=Foo`, `EnvironmentalHealth=Weird`, `_support=Foo`, `SysStat=Foo:5`, `HWC#5=Enc` …), exactly the effects that line
  has when decoded alone (`Spec.Out.readOutboundWith`), in line order — no line repeats, drops or alters the message of a
  neighbour.  `decOut_line_local` : `decOut (a ++ b) = decOut a ++ decOut b`; `readOutboundWith_eq` : on `inDomainLines` the
  reading is `readOutbound`.  The check evaluates `readOutboundWith` on the implementation with `alone l` = what the
  implementation returns for `[l]` (`dout.ctx` records).
* `value_edge_ignored` : `HWC#id.edge=Kind:v` (Kind one of Enc, Speed, Abs, Raw; every id, every admitted edge, every
  value numeral) is read AND decoded exactly as `HWC#id=Kind:v`.
* `nongrammar_silent` : a line whose keyword / key is not part of the grammar (also `key=` without value, blank line,
  an `HWC#…=Word` line whose kind word is not one of the seven) never produces an event or a report.
  `unknown_kind_silent` : the explicit form for `HWC#lhs=rhs` with an unknown kind word, for every `lhs`.
* `support_any_order`, `support_same_set` : for ANY list of parts the flag of each capability computed by the `switch`
  loop (`supportOfParts`) is "its name occurs in the list"; two lists naming the same set give the same flags.
  `support_line_any_order`, `support_lines_same_set` : the same through the whole decoder `decOut` on a
  `_support=` line with any non-empty LF-free value.
* `sysstat_any_subset_order` : whatever SysStat record line the reader accepts (any subset, any order of the 20 keys), the
  sliding scan (`a++`) builds the record with exactly the reader's values, absent fields zero.
* `items_spec` : `;`-lists — the reader's `readItems` and the model of `TrimExplode` both meet the relational
  specification `Spec.Out.ItemsOf` (which is functional), with its membership form.
* `regex_sources_tie` : the four regular expressions of the current source are literally the ones the byte matchers
  of the model were written for (regenerated `Gen.Consts`); an edit of a regex breaks this obligation.
  `regex_alternations_tie` : the alternation lists INSIDE the regenerated sources (parsed by `RegexAlts.altsOf`) are the
  keyword tables the matchers iterate over (`genericKeys`, `kindsRepaired`, `regWords`), and the reader's own tables
  (`infoKeys`, `kindWords`, register words) name the same sets.
* `press_is_down_then_up` : `HWC#id[.edge]=Press` decodes, for every id and edge, to a press followed by a release.
* `roundtrip_out` : C03 ∘ C04 — for every list of messages of the ASCII-representable domain (`inDomainOut`) the encoder's
  lines are all in `inDomainLines` (`OutLemmas.encOut_inDomainLines`, Lemmas/OutDomain.lean) and decode to messages with
  exactly the effects of the original messages, in order (normalisations listed at the theorem).
* `raw_event_lost_counterexample` : with the pinned regex (no `Raw`) `HWC#5=Raw:123` decoded to an empty message while
  the grammar assigns a raw-analog event; the repaired decoder returns that event.
  `raw_case_would_panic` : the pinned `case "Raw"` indexed `regex_cmd` (4 groups) at [6]: had the regex let `Raw`
  through, the decoder would have panicked.

Notes on lines OUTSIDE the well-formed domain (modelled and correspondence-tested, not findings — the grammar uses `.`
and typed arguments): the edge separator of the event regex is the wildcard `.`, so `HWC#5x4=Down` and `HWC#5=4=Down` decode
as id 5 edge 4 (`HWC#54=Down` is unambiguous: greedy digits, empty alternative first → id 54); `Down|Up|Press` followed
by `:value` ignore the value; `Enc|Abs|Speed|Raw` without value read 0; values beyond 32 bits wrap (cast) or clamp (Atoi);
an edge outside {0,1,2,4,8,16}; `_panelType=Foo` / `EnvironmentalHealth=Foo` append no message at all; a SysStat value that is
itself a key name is re-read as a key by the sliding scan (`a++`).
-/
namespace RawPanelVerif.C04
open RawPanelVerif RawPanelVerif.Bytes RawPanelVerif.MsgOut RawPanelVerif.EncOut RawPanelVerif.DecOut RawPanelVerif.Spec.Out
open RawPanelVerif.OutLemmas (IsNum)

def src_cmd_inbound : String := "^HWC#([0-9]+)(|.([0-9]+))=(Down|Up|Press|Abs|Speed|Enc|Raw)(|:([-0-9]+))$"
def src_map : String := "^map=([0-9]+):([0-9]+)$"
def src_generic : String := "^(_model|_serial|_version|_platform|_bluePillReady|_name|_panelType|_support|_isSleeping|_sleepTimer|_panelTopology_svgbase|_panelTopology_HWC|_burninProfile|_networkConfig|_calibrationProfile|_defaultCalibrationProfile|_serverModeLockToIP|_serverModeMaxClients|_heartBeatTimer|DimmedGain|_connections|_bootsCount|_totalUptimeMin|_sessionUptimeMin|_screenSaverOnMin|ErrorMsg|Msg|EnvironmentalHealth|SysStat)=(.+)$"
def src_registers : String := "^(Flag#|Mem|Shift|State)([A-Z0-9]*)=([0-9]+)$"

/-- the regular expressions in the current source are the ones the model's matchers implement -/
theorem regex_sources_tie :
    Gen.regex_cmd_inbound_src = src_cmd_inbound ∧ Gen.regex_map_src = src_map ∧
    Gen.regex_genericSingle_inbound_src = src_generic ∧ Gen.regex_registersOut_src = src_registers := by
  decide +kernel

/-- the alternation lists inside the regenerated regex sources are the keyword tables of the matchers, and the reader's
tables name the same sets -/
theorem regex_alternations_tie :
    RegexAlts.altsOf Gen.regex_genericSingle_inbound_src 0 = genericKeys ∧
    RegexAlts.altsOf Gen.regex_cmd_inbound_src 2 = kindsRepaired ∧
    RegexAlts.altsOf Gen.regex_registersOut_src 0 = regWords ∧
    (∀ k, k ∈ genericKeys ↔ k ∈ infoKeys) ∧ (∀ k, k ∈ kindsRepaired ↔ k ∈ kindWords) ∧
    regWords = asc "Flag#" :: regWordsSpec := by
  refine ⟨by decide +kernel, by decide +kernel, by decide +kernel, ?_, ?_, by decide⟩
  · intro k; exact ⟨OutLemmas.generic_iff_info.1 k, OutLemmas.generic_iff_info.2 k⟩
  · intro k
    constructor
    · exact OutLemmas.kindsRepaired_sub k
    · revert k; decide

/-- **Press = Down then Up**, for every id and every edge suffix (`edgeText none = ""`, `edgeText (some e) = "." ++ e`) -/
theorem press_is_down_then_up (o : OutOracle) (ids : Bytes) (hid : IsNum ids) (eds : Option Bytes) (he : OutLemmas.EdgeOk eds) :
    decLine repaired o (kHWC ++ ids ++ OutLemmas.edgeText eds ++ 61 :: asc "Press") =
      some { events := [binEv (natOfDigits ids) true (OutLemmas.edgeVal eds), binEv (natOfDigits ids) false (OutLemmas.edgeVal eds)] } := by
  have := OutLemmas.decLine_binary o ids hid eds he (asc "Press") (Or.inr (Or.inr rfl))
  simpa using this

example : IsNum (asc "4294967295") ∧ IsNum (asc "16") := by
  refine ⟨⟨by decide, by decide, by decide⟩, ⟨by decide, by decide, by decide⟩⟩

def testOracle : OutOracle := ⟨fun _ t => t, fun t => t, fun _ => [], fun _ => none⟩

/-- The pinned tree (event regex without `Raw`) lost the raw-analog event: `HWC#5=Raw:123` → empty message, although the
grammar (and the encoder of the same library) assign it `raw 5 123`.  The repaired decoder returns the event. -/
theorem raw_event_lost_counterexample :
    decOutV pinned testOracle [asc "HWC#5=Raw:123"] = [{}] ∧
    readOutbound testOracle [asc "HWC#5=Raw:123"] = [.event .raw 5 0 false 123] ∧
    (decOut testOracle [asc "HWC#5=Raw:123"]).flatMap (effectsOfOut testOracle) = [.event .raw 5 0 false 123] := by
  decide

/-- the pinned `case "Raw"` indexes a 4-group regex at [6]: with `Raw` in the event regex but the case unchanged the
decoder panics -/
theorem raw_case_would_panic :
    (match decLineE ⟨kindsRepaired, true⟩ testOracle (asc "HWC#5=Raw:123") with | .error .index => true | _ => false) = true ∧
    (match decLineE repaired testOracle (asc "HWC#5=Raw:123") with | .ok (some _) => true | _ => false) = true := by
  decide

/-- effects of what one line decodes to -/
abbrev lineEffects (o : OutOracle) (l : Bytes) : List Effect := (decLine repaired o l).toList.flatMap (effectsOfOut o)

/-- **One line decodes to exactly what it denotes** (well-formed or non-grammar line) -/
theorem decLine_sound (o : OutOracle) (l : Bytes) (hfmt : ∀ p t, o.fmtF p t = t) (h : readLine o l ≠ .outside) :
    lineEffects o l = (readLine o l).effects := OutLemmas.dec_line_sound o l hfmt h

/-- **Soundness of the decoder**: for every sequence of well-formed / non-grammar lines the decoded messages carry exactly
the events and values the independent reading of the grammar assigns to each line, in line order -/
theorem decOut_sound (o : OutOracle) (ls : List Bytes) (hfmt : ∀ p t, o.fmtF p t = t) (h : inDomainLines o ls = true) :
    (decOut o ls).flatMap (effectsOfOut o) = readOutbound o ls := by
  unfold inDomainLines at h
  rw [List.all_eq_true] at h
  unfold decOut decOutV readOutbound
  induction ls with
  | nil => rfl
  | cons l rest ih =>
    have hl : readLine o l ≠ .outside := by simpa using h l (by simp)
    have hd := decLine_sound o l hfmt hl
    have ih' := ih (fun x hx => h x (by simp [hx]))
    simp only [List.flatMap_cons]
    rw [← hd, ← ih']
    cases hx : decLine repaired o l with
    | none => simp [hx, lineEffects]
    | some m => simp [hx, lineEffects]

/-- the decoder treats every line on its own: a batch decodes to the concatenation of its lines decoded alone -/
theorem decOut_line_local (o : OutOracle) (a b : List Bytes) : decOut o (a ++ b) = decOut o a ++ decOut o b := by
  unfold decOut decOutV
  exact List.filterMap_append

/-- **No line changes what its neighbours denote** (ALL line lists, no domain hypothesis): the effects of the decoded
batch are the reader's effects of every well-formed / non-grammar line, in line order, and for every line the grammar
says nothing about (`readLine = .outside`: `_panelType=Foo`, `EnvironmentalHealth=Weird`, `HWC#5=Enc`, `SysStat=Foo:5` …)
exactly the effects that line has when decoded alone — in particular such a line never repeats, drops or alters the
message of the line before or after it.  The check evaluates `readOutboundWith` on the implementation with `alone l` =
what the implementation returns for `[l]` (`dout.ctx` records). -/
theorem decOut_context_free (o : OutOracle) (ls : List Bytes) (hfmt : ∀ p t, o.fmtF p t = t) :
    (decOut o ls).flatMap (effectsOfOut o) =
      readOutboundWith o (fun l => (decOut o [l]).flatMap (effectsOfOut o)) ls := by
  unfold readOutboundWith
  induction ls with
  | nil => rfl
  | cons l rest ih =>
    have hsplit : decOut o (l :: rest) = decOut o [l] ++ decOut o rest := decOut_line_local o [l] rest
    rw [hsplit, List.flatMap_append, ih, List.flatMap_cons]
    congr 1
    unfold readLineWith
    cases hr : readLine o l with
    | outside => rfl
    | nonGrammar =>
      have hd := decLine_sound o l hfmt (by rw [hr]; simp)
      rw [hr] at hd
      simp only [decOut, decOutV, List.filterMap_cons, List.filterMap_nil]
      cases hx : decLine repaired o l with
      | none => simp [LineClass.effects]
      | some m => simpa [hx, lineEffects] using hd
    | grammar effs =>
      have hd := decLine_sound o l hfmt (by rw [hr]; simp)
      rw [hr] at hd
      simp only [decOut, decOutV, List.filterMap_cons, List.filterMap_nil]
      cases hx : decLine repaired o l with
      | none => simpa [hx, lineEffects] using hd
      | some m => simpa [hx, lineEffects] using hd

/-- on the domain of `decOut_sound` the two readings coincide -/
theorem readOutboundWith_eq (o : OutOracle) (alone : Bytes → List Effect) (ls : List Bytes) (h : inDomainLines o ls = true) :
    readOutboundWith o alone ls = readOutbound o ls := by
  unfold inDomainLines at h
  rw [List.all_eq_true] at h
  unfold readOutboundWith readOutbound
  induction ls with
  | nil => rfl
  | cons l rest ih =>
    have hl : readLine o l ≠ .outside := by simpa using h l (by simp)
    simp only [List.flatMap_cons]
    rw [ih (fun x hx => h x (by simp [hx]))]
    congr 1
    unfold readLineWith
    cases hr : readLine o l with
    | outside => exact absurd hr hl
    | nonGrammar => rfl
    | grammar effs => rfl

/-- non-vacuity: an enumerated value outside its enumeration between two events: the reading has exactly the two events
(the line alone decodes to nothing), so a decoder that re-appends the previous message there violates the statement -/
example : readLine testOracle (asc "_panelType=Foo") = .outside ∧
    (decOut testOracle [asc "HWC#7=Down", asc "_panelType=Foo", asc "HWC#7=Up"]).flatMap (effectsOfOut testOracle) =
      [.event .binary 7 0 true 0, .event .binary 7 0 false 0] ∧
    readOutboundWith testOracle (fun l => (decOut testOracle [l]).flatMap (effectsOfOut testOracle))
      [asc "HWC#7=Down", asc "_panelType=Foo", asc "HWC#7=Up"] = [.event .binary 7 0 true 0, .event .binary 7 0 false 0] ∧
    readOutboundWith testOracle (fun _ => [.flow (asc "ping")])
      [asc "HWC#7=Down", asc "_panelType=Foo"] = [.event .binary 7 0 true 0, .flow (asc "ping")] := by
  decide

/-- **Non-grammar lines are silent**: never an event or a report -/
theorem nongrammar_silent (o : OutOracle) (l : Bytes) (hfmt : ∀ p t, o.fmtF p t = t) (h : readLine o l = .nonGrammar) :
    lineEffects o l = [] := by
  have := decLine_sound o l hfmt (by rw [h]; simp)
  rw [this, h]; rfl

/-- **Capability list in any order**: for ANY list of parts (any order, duplicates, unknown names) the decoded flag of each
of the 13 capabilities is exactly "its name occurs in the list" -/
theorem support_any_order (parts : List Bytes) (c : Cap) : (supportOfParts parts).get c = parts.contains (Cap.name c) :=
  OutLemmas.supportOfParts_get parts c

theorem support_ext (s t : Support) (h : ∀ c, s.get c = t.get c) : s = t := by
  have h1 := h .ascii; have h2 := h .binary; have h3 := h .jsonFeedback; have h4 := h .jsonInbound
  have h5 := h .jsonOutbound; have h6 := h .system; have h7 := h .rawADCValues; have h8 := h .burninProfile
  have h9 := h .envHealth; have h10 := h .registers; have h11 := h .calibration; have h12 := h .processors
  have h13 := h .networkSettings
  cases s; cases t
  simp only [Support.get] at h1 h2 h3 h4 h5 h6 h7 h8 h9 h10 h11 h12 h13
  simp [h1, h2, h3, h4, h5, h6, h7, h8, h9, h10, h11, h12, h13]

/-- two part lists naming the same set (permutations, duplicates) decode to the same flags -/
theorem support_same_set (p1 p2 : List Bytes) (h : ∀ n, n ∈ p1 ↔ n ∈ p2) : supportOfParts p1 = supportOfParts p2 := by
  apply support_ext
  intro c
  rw [support_any_order, support_any_order]
  have := h (Cap.name c)
  by_cases hm : Cap.name c ∈ p1
  · simp [hm, this.1 hm]
  · have hm2 : Cap.name c ∉ p2 := fun x => hm (this.2 x)
    simp [hm, hm2]

/-- **SysStat with any subset and order of the 20 fields** (the scan slides by one, as written) -/
theorem sysstat_any_subset_order (o : OutOracle) (v : Bytes) (effs : List Effect) (hfmt : ∀ p t, o.fmtF p t = t)
    (h : readSysStat o v = .grammar effs) : sysStatEff o (sysScan o (splitOn 58 v) {}) = effs :=
  OutLemmas.dec_sysstat o v effs hfmt h

/-! ## value events with an edge suffix, unknown kind words -/

/-- **A value event with an edge suffix denotes, and decodes to, the same event as without it.**  For every id, every
edge the grammar admits, each of the four value-carrying kinds and every value numeral: the reader assigns
`HWC#id.edge=Kind:v` exactly what it assigns `HWC#id=Kind:v`, and the decoder returns the same message for both
(the value events of the message type have no edge field; sub-match 3 is not consulted). -/
theorem value_edge_ignored (o : OutOracle) (ids eds k v : Bytes) (x : Int) (hid : IsNum ids) (hed : IsNum eds)
    (hev : natOfDigits eds ∈ edgeValues) (hk : k = asc "Enc" ∨ k = asc "Speed" ∨ k = asc "Abs" ∨ k = asc "Raw")
    (hv : readInt v = some x) :
    readLine o (kHWC ++ (ids ++ 46 :: eds ++ 61 :: (k ++ 58 :: v))) = readLine o (kHWC ++ (ids ++ 61 :: (k ++ 58 :: v))) ∧
    decLine repaired o (kHWC ++ (ids ++ 46 :: eds ++ 61 :: (k ++ 58 :: v))) = decLine repaired o (kHWC ++ (ids ++ 61 :: (k ++ 58 :: v))) := by
  obtain ⟨_, hne, hall⟩ := OutLemmas.intval_readInt v x hv
  have hlt : natOfDigits eds < 2147483648 := by
    unfold edgeValues at hev; simp only [List.mem_cons, List.not_mem_nil, or_false] at hev; omega
  have hk58 : (58 : UInt8) ∉ k := by rcases hk with h | h | h | h <;> subst h <;> decide
  have hkc : ∀ c : UInt8, c = 61 ∨ c = 10 → c ∉ k := by
    intro c hc; rcases hc with rfl | rfl <;> rcases hk with h | h | h | h <;> subst h <;> decide
  have hvc : ∀ c : UInt8, isDashDigit c = false → c ∉ v := fun c hc => OutLemmas.dashDigit_no v hall c hc
  have hrhs : ∀ c : UInt8, c = 61 ∨ c = 10 → c ∉ k ++ 58 :: v := by
    intro c hc hm
    simp only [List.mem_append, List.mem_cons] at hm
    rcases hm with hm | hm | hm
    · exact hkc c hc hm
    · rcases hc with rfl | rfl <;> exact absurd hm (by decide)
    · exact hvc c (by rcases hc with rfl | rfl <;> decide) hm
  have hlhs1 : ∀ c : UInt8, isDigit c = false → c ∉ ids := fun c hc => OutLemmas.isNum_no ids hid c hc
  have hlhs2 : ∀ c : UInt8, isDigit c = false → c ≠ 46 → c ∉ ids ++ 46 :: eds := by
    intro c hc h46 hm
    simp only [List.mem_append, List.mem_cons] at hm
    rcases hm with hm | hm | hm
    · exact hlhs1 c hc hm
    · exact h46 hm
    · exact OutLemmas.isNum_no eds hed c hc hm
  constructor
  · have hl : kHWC = asc "HWC#" := rfl
    rw [hl, OutLemmas.readLine_hwc o _ (by
        intro hm; simp only [List.mem_append, List.mem_cons] at hm
        rcases hm with (hm | hm | hm) | hm | hm
        · exact hlhs1 10 (by decide) hm
        · exact absurd hm (by decide)
        · exact OutLemmas.isNum_no eds hed 10 (by decide) hm
        · exact absurd hm (by decide)
        · exact hrhs 10 (Or.inr rfl) (by simpa using hm)),
      OutLemmas.readLine_hwc o _ (by
        intro hm; simp only [List.mem_append, List.mem_cons] at hm
        rcases hm with hm | hm | hm
        · exact hlhs1 10 (by decide) hm
        · exact absurd hm (by decide)
        · exact hrhs 10 (Or.inr rfl) (by simpa using hm))]
    unfold readEvent
    rw [OutLemmas.splitOn_two 61 _ _ (hlhs2 61 (by decide) (by decide)) (hrhs 61 (Or.inl rfl)),
      OutLemmas.splitOn_two 61 _ _ (hlhs1 61 (by decide)) (hrhs 61 (Or.inl rfl))]
    simp only []
    have hid1 : readIdEdge ids = some (natOfDigits ids, none) := by
      unfold readIdEdge
      rw [splitOn_nosep 46 _ (hlhs1 46 (by decide))]
      simp only []
      rw [OutLemmas.readNum_of_isNum ids hid]; rfl
    have hid2 : readIdEdge (ids ++ 46 :: eds) = some (natOfDigits ids, some (natOfDigits eds)) := by
      unfold readIdEdge
      rw [OutLemmas.splitOn_two 46 _ _ (hlhs1 46 (by decide)) (OutLemmas.isNum_no eds hed 46 (by decide))]
      simp only []
      rw [OutLemmas.readNum_of_isNum ids hid, OutLemmas.readNum_of_isNum eds hed]
      simp only []
      rw [if_pos hev]
    rw [hid1, hid2]
    simp only []
    have hne3 : k ++ 58 :: v ≠ asc "Down" ∧ k ++ 58 :: v ≠ asc "Up" ∧ k ++ 58 :: v ≠ asc "Press" :=
      ⟨OutLemmas.kind_colon_ne _ _ _ (by decide), OutLemmas.kind_colon_ne _ _ _ (by decide), OutLemmas.kind_colon_ne _ _ _ (by decide)⟩
    rw [if_neg hne3.1, if_neg hne3.2.1, if_neg hne3.2.2, if_neg hne3.1, if_neg hne3.2.1, if_neg hne3.2.2]
  · have h1 := OutLemmas.decLine_value o ids (some eds) k v hid ⟨hed, hlt⟩ hk hne hall
    have h2 := OutLemmas.decLine_value o ids none k v hid trivial hk hne hall
    simp only [OutLemmas.edgeText, List.append_nil] at h1 h2
    rw [h1, h2]
    rcases hk with h | h | h | h <;> subst h
    · rw [OutLemmas.decEvent_enc, OutLemmas.decEvent_enc]
    · rw [OutLemmas.decEvent_speed, OutLemmas.decEvent_speed]
    · rw [OutLemmas.decEvent_abs, OutLemmas.decEvent_abs]
    · rw [OutLemmas.decEvent_raw, OutLemmas.decEvent_raw]

/-- non-vacuity: the reading of `HWC#5.4=Enc:-3` / `HWC#7.16=Raw:9` is the event without edge, and the lines are in the domain -/
example : readLine testOracle (asc "HWC#5.4=Enc:-3") = .grammar [.event .enc 5 0 false (-3)] ∧
    readLine testOracle (asc "HWC#7.16=Raw:9") = .grammar [.event .raw 7 0 false 9] ∧
    lineEffects testOracle (asc "HWC#5.4=Enc:-3") = [.event .enc 5 0 false (-3)] ∧
    readLine testOracle (asc "HWC#5.3=Enc:-3") = .outside := by decide

/-- **An `HWC#` line whose kind word is not one of the seven is silent**: for every left-hand side whatsoever and every
right-hand side that does not begin (up to its first `:`) with `Down|Up|Press|Enc|Abs|Speed|Raw`, the reader classifies
`HWC#lhs=rhs` as non-grammar and the decoder returns the empty message — no event, no report. -/
theorem unknown_kind_silent (o : OutOracle) (lhs rhs : Bytes) (h61l : (61 : UInt8) ∉ lhs) (h61r : (61 : UInt8) ∉ rhs)
    (h10 : (10 : UInt8) ∉ lhs ++ rhs) (hk : kindOf rhs ∉ kindWords) :
    readLine o (asc "HWC#" ++ (lhs ++ 61 :: rhs)) = .nonGrammar ∧
    decLine repaired o (asc "HWC#" ++ (lhs ++ 61 :: rhs)) = some {} ∧ lineEffects o (asc "HWC#" ++ (lhs ++ 61 :: rhs)) = [] := by
  have hr : readEvent (lhs ++ 61 :: rhs) = .nonGrammar := by
    unfold readEvent
    rw [OutLemmas.splitOn_two 61 _ _ h61l h61r]
    simp only []
    rw [if_pos hk]
  refine ⟨?_, (OutLemmas.dec_unknown_kind o _ hr).1, (OutLemmas.dec_unknown_kind o _ hr).2⟩
  rw [OutLemmas.readLine_hwc o _ (by
    intro hm; simp only [List.mem_append, List.mem_cons] at hm h10
    rcases hm with hm | hm | hm
    · exact h10 (Or.inl hm)
    · exact absurd hm (by decide)
    · exact h10 (Or.inr hm)), hr]

example : readLine testOracle (asc "HWC#5=Foo") = .nonGrammar ∧ readLine testOracle (asc "HWC#5.4=Foo:3") = .nonGrammar ∧
    readLine testOracle (asc "HWC#x=down") = .nonGrammar ∧ decOut testOracle [asc "HWC#5=Foo"] = [{}] ∧
    readLine testOracle (asc "HWC#5=Down:3") = .outside := by decide

/-! ## `;`-lists against the relational specification -/

/-- the reader's `;`-list reading and the model of `TrimExplode` both meet the relational specification
`Spec.Out.ItemsOf` (items = the pieces, in order, without their surrounding white space, empty ones left out), which
determines the item list uniquely; `x` is an item iff it is the non-empty trimmed form of some piece -/
theorem items_spec (v : Bytes) :
    ItemsOf (splitOn 59 v) (readItems v) ∧ ItemsOf (splitOn 59 v) (trimExplode 59 v) ∧
    (∀ a b, ItemsOf (splitOn 59 v) a → ItemsOf (splitOn 59 v) b → a = b) ∧
    (∀ x, x ∈ trimExplode 59 v ↔ ∃ p ∈ splitOn 59 v, x = trimSpace p ∧ x ≠ []) :=
  ⟨OutLemmas.readItems_meets v, OutLemmas.trimExplode_meets v, fun a b => OutLemmas.itemsOf_functional _ a b,
   OutLemmas.itemsOf_mem _ _ (OutLemmas.trimExplode_meets v)⟩

example : trimExplode 59 (asc " 10.0.0.1 ;;b\t; ") = [asc "10.0.0.1", asc "b"] ∧
    readItems (asc " 10.0.0.1 ;;b\t; ") = [asc "10.0.0.1", asc "b"] := by decide

/-! ## the capability list through the whole decoder -/

/-- **`_support=` lines, any order**: for EVERY non-empty LF-free value `v` the decoder returns exactly one message, a
panel-info message whose capability set has, for each of the 13 capabilities, the flag "its name occurs among the
comma-separated parts of `v`" -/
theorem support_line_any_order (o : OutOracle) (v : Bytes) (hv : v ≠ []) (h10 : (10 : UInt8) ∉ v) :
    ∃ s : Support, decOut o [asc "_support=" ++ v] = [piMsg { support := some s }] ∧
      ∀ c : Cap, s.get c = (splitOn 44 v).contains (Cap.name c) := by
  refine ⟨supportOfParts (splitOn 44 v), ?_, fun c => support_any_order _ c⟩
  have hd : decLine repaired o (asc "_support" ++ 61 :: v) = decGeneric o (asc "_support") v :=
    OutLemmas.decLine_kv o _ v (by decide) hv h10
  have e : asc "_support=" ++ v = asc "_support" ++ 61 :: v := by
    have : asc "_support=" = asc "_support" ++ [61] := by decide
    rw [this, List.append_assoc]; rfl
  unfold decOut decOutV
  rw [e]
  simp only [List.filterMap_cons, List.filterMap_nil, hd, OutLemmas.dg_sup]

/-- two `_support=` lines whose part lists name the same set (any permutation, duplicates) decode to the same messages -/
theorem support_lines_same_set (o : OutOracle) (v w : Bytes) (hv : v ≠ []) (hw : w ≠ []) (hv10 : (10 : UInt8) ∉ v)
    (hw10 : (10 : UInt8) ∉ w) (h : ∀ n, n ∈ splitOn 44 v ↔ n ∈ splitOn 44 w) :
    decOut o [asc "_support=" ++ v] = decOut o [asc "_support=" ++ w] := by
  obtain ⟨s, hs, hsg⟩ := support_line_any_order o v hv hv10
  obtain ⟨t, ht, htg⟩ := support_line_any_order o w hw hw10
  rw [hs, ht]
  have : s = t := by
    apply support_ext
    intro c
    rw [hsg, htg]
    have := h (Cap.name c)
    by_cases hm : Cap.name c ∈ splitOn 44 v
    · simp [hm, this.1 hm]
    · have hm2 : Cap.name c ∉ splitOn 44 w := fun x => hm (this.2 x)
      simp [hm, hm2]
  rw [this]

example : decOut testOracle [asc "_support=Binary,ASCII,Binary,Foo"] = decOut testOracle [asc "_support=ASCII,Foo,Binary"] := by decide

/-! ## round trip: encoder, then decoder -/

/-- **Outbound round trip (C03 ∘ C04), on effects.**  For every list of messages of the ASCII-representable domain
`inDomainOut` the lines the encoder produces are all in the decoder theorem's domain (`inDomainLines`: well-formed, or a
`key=` line without value), and decoding them yields messages that carry exactly the events and information of the
original messages, in order.  Equality is of `effectsOfOut`, i.e. up to the normalisations of Spec/PanelOut.lean, stated
there explicitly: a scalar without presence at its default value is not reported; an empty capability set / `;`-list /
payload is not reported; JSON and message payloads are compared in the C07 normal form `normLines` (white space at the
edges of the original lines and the line feeds are insignificant — the decoded payload IS the flattened text), the SVG by
its white-space-free content; FLAG registers are Booleans with numeric ids; SysStat floats are the decimal texts the
line carries (`hpf`, `hfmt`: in this composition a float token is that text in both directions); the decoder returns one
message per line, so the grouping of effects into messages is not preserved — only their sequence. -/
theorem roundtrip_out (o : OutOracle) (ms : List OutMsg) (h : inDomainOut o ms = true)
    (hpf : ∀ t, o.parseF t = t) (hfmt : ∀ p t, o.fmtF p t = t) :
    inDomainLines o (encOut o ms) = true ∧
    (decOut o (encOut o ms)).flatMap (effectsOfOut o) = ms.flatMap (effectsOfOut o) := by
  have hd := OutLemmas.encOut_inDomainLines o ms h
  refine ⟨hd, ?_⟩
  rw [decOut_sound o _ hfmt hd, OutLemmas.encOut_R]
  unfold inDomainOut at h
  rw [List.all_eq_true] at h
  exact OutLemmas.flatMap_congr' ms _ _ (fun m hm => OutLemmas.msg_sound_full o m (h m hm) hpf)

def rtOracle : OutOracle := ⟨fun _ t => t, fun t => t, fun _ => asc "{}", fun _ => some {}⟩

def rtMsgs : List OutMsg :=
  [{ flow := 1 },
   { panelInfo := some { model := asc "SK X", maxClients := 7, lockedToIPs := [asc "10.0.0.1", asc "a b"], panelType := 5,
                         bluePillReady := true, support := some { binary := true, networkSettings := true } },
     topology := some { svgbase := asc "<svg>\n  <path d=\"M0 0\n  L1 1\"/>\n</svg>\n", json := asc "{\n  \"a\": [ 1,\r\n\t2 ]\n}" },
     netConfig := some {}, sleepTimeout := some 0, connections := some [], message := some (asc "hello\n  big world "),
     avail := [(1, 4294967295), (65535, 0)], envHealth := some 2,
     sysStat := some { cpuUsage := 99, cpuTemp := asc "45.3", memFree := -2147483648, throttled := true },
     events := [{ hwcid := 4294967295, binary := some ⟨true, 16⟩ }, { hwcid := 5, pulsed := some (-2147483648), rawAnalog := some 4294967295 }],
     registers := [⟨1, asc "007", 5⟩, ⟨3, asc "A9", 4294967295⟩] }]

/-- non-vacuity: the sample is in the domain; its lines decode to messages with the same effects (40 of them), although
not to the same messages (one message per line, payloads flattened, `Flag#007` → flag 7 …) -/
example : inDomainOut rtOracle rtMsgs = true ∧
    (decOut rtOracle (encOut rtOracle rtMsgs)).flatMap (effectsOfOut rtOracle) = rtMsgs.flatMap (effectsOfOut rtOracle) ∧
    (rtMsgs.flatMap (effectsOfOut rtOracle)).length = 40 ∧ decOut rtOracle (encOut rtOracle rtMsgs) ≠ rtMsgs := by decide

/-- non-vacuity: a mixed sequence (events incl. Raw, binary and value events with an edge suffix, an unknown kind word, Press, map, keys, a permuted capability list with a
duplicate, a SysStat line with 3 fields in reverse order, a register, non-grammar lines) is in the domain -/
def exLines : List Bytes :=
  [asc "list", asc "HWC#5=Raw:123", asc "HWC#007.4=Press", asc "HWC#4294967295=Speed:-2147483648", asc "HWC#5.4=Enc:-3",
   asc "HWC#9.16=Abs:4294967295", asc "HWC#5=Foo", asc "map=1:4294967295",
   asc "_model=SK X", asc "_support=Binary,ASCII,Binary,NetworkSettings", asc "SysStat=Throttled:1:MemFree:-5:CPUTemp:45.3:",
   asc "_serverModeLockToIP= 10.0.0.1 ;;b", asc "Flag#007=5", asc "_model=", asc "hello", asc ""]

example : inDomainLines testOracle exLines = true := by decide
example : (decOut testOracle exLines).flatMap (effectsOfOut testOracle) = readOutbound testOracle exLines := by decide
example : readLine testOracle (asc "_model=") = .nonGrammar ∧ readLine testOracle (asc "pong") = .nonGrammar := by decide

end RawPanelVerif.C04
