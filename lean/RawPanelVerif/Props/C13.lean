import RawPanelVerif.Lemmas.TopoLookup
/-!
# C13 — Topology look-ups resolve type plus override correctly and never mutate

Property theorems only.  The statement of the property is `Spec.Topo.checkLookup` (+ `predCompat`), the same
executable predicate the check evaluates on the implementation's answers (Spec/TopologySpec.lean).
All theorems are for **every** topology (any component list incl. duplicate ids, type 0, types missing from the
index; any type index; every combination of override attributes — no hypothesis on `t` anywhere) and every id.

* `lookup_holds`            every look-up of the interface, on every topology, satisfies every clause of the Spec
                            (overlay, not-found results, agreement of the two resolvers, no mutation).
* `resolveA_eq_overlay`     `GetTypeDefWithOverride` = attribute-wise overlay of the override on the indexed base type.
* `getHWCtype_eq_overlay`   `GetHWCtype(id)` = overlay for the first component carrying the id.
* `not_found_results`       unknown ids: (-1,-1), "", nil+error, empty definition, empty component; index ≥ len: empty definition.
* `resolvers_agree_on_shared`  both resolvers agree on the nine shared attributes whenever the type is indexed.
* `resolveB_never_panics_on_valid_index` the second resolver is total for indices ≥ 0 (it does panic for negative ones:
                            `resolveB_negative_index_panics`).
* `predicates_depend_only_on_resolved`  two observations (any topologies, any ids / free-standing definitions) with equal
                            resolved definitions report equal predicate values.
* `lookups_do_not_mutate`   after any look-up the topology, hence its serialised form, is what it was.
-/
namespace RawPanelVerif.C13
open RawPanelVerif RawPanelVerif.Topo

/-- integer arguments the Spec makes a claim about: ids are `uint32` values, indices are not negative -/
def InDomain : Query → Prop
  | .resolveB k => 0 ≤ k
  | .resolveBid id => 0 ≤ id ∧ id < 4294967296
  | .defId id => 0 ≤ id ∧ id < 4294967296
  | _ => True

theorem lookups_do_not_mutate (t : Topology) (q : Query) :
    (exec t q).2 = t ∧ (exec t q).1.after = serialise t := by
  have h : (execRes t q).2 = t := by
    cases q <;> simp only [execRes, getHWCs, getHWCxy, getHWCtext, getHWCtype, getHWCsWithDisplay] <;>
      (try split) <;> rfl
  simp only [exec, h, and_self]

theorem resolveA_eq_overlay (t : Topology) (c : HWc) :
    getTypeDefWithOverride t c = Spec.Topo.overlay ((Spec.Topo.base t c.type).getD Spec.Topo.zero) c.ov :=
  resolveA_overlay t c

theorem getHWCtype_eq_overlay (t : Topology) (id : Nat) (c : HWc) (h : Spec.Topo.firstWithId t id = some c) :
    (getHWCtype t id).1 = .inl (Spec.Topo.resolved t c) := by
  obtain ⟨j, hj⟩ := findIdx_some t.hwc id 0 c h
  simp only [getHWCtype, hj, resolveA_overlay]

theorem not_found_results (t : Topology) (id : Nat) (h : Spec.Topo.firstWithId t id = none) :
    (getHWCxy t id).1 = (-1, -1) ∧ (getHWCtext t id).1 = [] ∧ (∃ msg, (getHWCtype t id).1 = .inr msg) ∧
    (id < 4294967296 → getHWCTypeDefinitionFromHWCid t id = some Spec.Topo.zero ∧
      getHWCDefinitionFromHWCid t id = {}) ∧
    (∀ k : Int, k ≥ t.hwc.length → getHWCTypeDefinition t k = some Spec.Topo.zero) := by
  have hf := findIdx_none t.hwc id 0 h
  refine ⟨by simp only [getHWCxy, hf], by simp only [getHWCtext, hf], ⟨noHWCmsg id, by simp only [getHWCtype, hf]⟩, ?_, ?_⟩
  · intro hid
    have : toU32 id = id := by unfold toU32; omega
    simp only [getHWCTypeDefinitionFromHWCid, getHWCDefinitionFromHWCid, this, hf, zeroTD_eq, and_self]
  · intro k hk
    simp only [getHWCTypeDefinition, hk, if_true, zeroTD_eq]

theorem resolvers_agree_on_shared (t : Topology) (k : Nat) (c : HWc) (hc : t.hwc[k]? = some c)
    (hidx : (Spec.Topo.base t c.type).isSome) :
    ∃ td, getHWCTypeDefinition t k = some td ∧
      Spec.Topo.sharedEq td (getTypeDefWithOverride t c) = true := by
  have h := checkB_at t k c hc
  obtain ⟨bt, hb⟩ := Option.isSome_iff_exists.mp hidx
  unfold Spec.Topo.checkB at h
  simp only [hb] at h
  cases hr : getHWCTypeDefinition t k with
  | none => simp [hr, resB] at h
  | some td =>
    refine ⟨td, rfl, ?_⟩
    simp only [hr, resB, Spec.Topo.ok] at h
    rw [resolveA_overlay]
    cases hs : Spec.Topo.sharedEq td (Spec.Topo.resolved t c) with
    | true => rfl
    | false => simp [hs] at h

theorem resolveB_never_panics_on_valid_index (t : Topology) (k : Int) (hk : 0 ≤ k) :
    (getHWCTypeDefinition t k).isSome := by
  unfold getHWCTypeDefinition
  split
  · rfl
  · rename_i h1
    have h2 : ¬ (k < 0) := by omega
    have h3 : k.toNat < t.hwc.length := by omega
    simp only [h2, if_false, List.getElem?_eq_getElem h3]
    split
    · rfl
    · split <;> rfl

theorem resolveB_negative_index_panics (t : Topology) (k : Int) (hk : k < 0) :
    getHWCTypeDefinition t k = none := by
  unfold getHWCTypeDefinition
  have h1 : ¬ (k ≥ (t.hwc.length : Int)) := by omega
  simp only [h1, hk, if_false, if_true]

/-- C13, all clauses, every look-up, every topology -/
theorem lookup_holds (t : Topology) (q : Query) (hq : InDomain q) :
    Spec.Topo.checkLookup t (serialise t) q (exec t q).1 = none := by
  have hm := (lookups_do_not_mutate t q).2
  unfold Spec.Topo.checkLookup
  rw [hm]
  simp only [ne_eq, not_true_eq_false, if_false]
  cases q with
  | hwcs => simp only [exec, execRes, getHWCs, foldl_ids]; simp [Spec.Topo.ok]
  | xy id =>
    simp only [exec, execRes, getHWCxy]
    cases hf : Spec.Topo.firstWithId t id with
    | none => simp [findIdx_none t.hwc id 0 hf, Spec.Topo.ok]
    | some c => obtain ⟨j, hj⟩ := findIdx_some t.hwc id 0 c hf; simp [hj, Spec.Topo.ok]
  | text id =>
    simp only [exec, execRes, getHWCtext]
    cases hf : Spec.Topo.firstWithId t id with
    | none => simp [findIdx_none t.hwc id 0 hf, Spec.Topo.ok]
    | some c => obtain ⟨j, hj⟩ := findIdx_some t.hwc id 0 c hf; simp [hj, Spec.Topo.ok]
  | type id =>
    simp only [exec, execRes, getHWCtype]
    cases hf : Spec.Topo.firstWithId t id with
    | none => simp [findIdx_none t.hwc id 0 hf]
    | some c => obtain ⟨j, hj⟩ := findIdx_some t.hwc id 0 c hf; simp [hj, Spec.Topo.ok, resolveA_overlay]
  | withDisplay => simp only [exec, execRes, getHWCsWithDisplay, foldl_disp]; simp [Spec.Topo.ok]
  | resolveA k =>
    simp only [exec, execRes]
    cases hc : t.hwc[k]? with
    | none => simp
    | some c => simp [Spec.Topo.ok, resolveA_overlay]
  | resolveAx c => simp [exec, execRes, Spec.Topo.ok, resolveA_overlay]
  | resolveB k =>
    have hk : 0 ≤ k := hq
    have hk' : ¬ (k < 0) := by omega
    simp only [exec, execRes, hk', if_false]
    cases hc : t.hwc[k.toNat]? with
    | some c =>
      have := checkB_at t k.toNat c hc
      rw [Int.toNat_of_nonneg hk] at this
      exact this
    | none =>
      have hlen : t.hwc.length ≤ k.toNat := by
        rcases Nat.lt_or_ge k.toNat t.hwc.length with h1 | h1
        · rw [List.getElem?_eq_getElem h1] at hc; cases hc
        · exact h1
      have hge : k ≥ (t.hwc.length : Int) := by omega
      simp [Spec.Topo.checkB, getHWCTypeDefinition, hge, Spec.Topo.ok, zeroTD_eq]
  | resolveBid id =>
    obtain ⟨h0, h1⟩ : 0 ≤ id ∧ id < 4294967296 := hq
    have hd : ¬ (id < 0 ∨ id ≥ 4294967296) := by omega
    have hu : toU32 id = id.toNat := by unfold toU32; omega
    simp only [exec, execRes, hd, if_false, getHWCTypeDefinitionFromHWCid, hu]
    cases hf : Spec.Topo.firstWithId t id.toNat with
    | none => simp [findIdx_none t.hwc id.toNat 0 hf, Spec.Topo.checkB, Spec.Topo.ok, zeroTD_eq]
    | some c =>
      obtain ⟨j, hj⟩ := findIdx_some t.hwc id.toNat 0 c hf
      have hg := (findIdx_get t.hwc id.toNat 0 j c hj).2
      simp only [Nat.sub_zero] at hg
      simp only [hj]
      exact checkB_at t j c hg
  | defId id =>
    obtain ⟨h0, h1⟩ : 0 ≤ id ∧ id < 4294967296 := hq
    have hd : ¬ (id < 0 ∨ id ≥ 4294967296) := by omega
    have hu : toU32 id = id.toNat := by unfold toU32; omega
    simp only [exec, execRes, hd, if_false, getHWCDefinitionFromHWCid, hu]
    cases hf : Spec.Topo.firstWithId t id.toNat with
    | none => simp [findIdx_none t.hwc id.toNat 0 hf, Spec.Topo.ok]
    | some c => obtain ⟨j, hj⟩ := findIdx_some t.hwc id.toNat 0 c hf; simp [hj, Spec.Topo.ok]
  | pred td => simp [exec, execRes]
  | predOf id =>
    simp only [exec, execRes, getHWCtype]
    cases hf : Spec.Topo.firstWithId t id with
    | none => simp [findIdx_none t.hwc id 0 hf]
    | some c => obtain ⟨j, hj⟩ := findIdx_some t.hwc id 0 c hf; simp [hj, Spec.Topo.ok, resolveA_overlay]

/-- "derived predicates depend only on the resolved definition": any two predicate observations — through a
look-up by id on any topology or on a free-standing definition — are compatible -/
theorem predicates_depend_only_on_resolved (t t' : Topology) (q q' : Query) (x y : TypeDef × Preds)
    (hx : Spec.Topo.predPair q (exec t q).1.res = some x) (hy : Spec.Topo.predPair q' (exec t' q').1.res = some y) :
    Spec.Topo.predCompat x y = true := by
  have key : ∀ (t : Topology) (q : Query) (x : TypeDef × Preds),
      Spec.Topo.predPair q (exec t q).1.res = some x → x.2 = predsOf x.1 := by
    intro t q x h
    cases q with
    | pred td =>
      simp only [exec, execRes, Spec.Topo.predPair, Option.some.injEq] at h
      subst h; rfl
    | predOf id =>
      simp only [exec, execRes, getHWCtype] at h
      cases hf : findIdx t.hwc id 0 with
      | none => simp [hf, Spec.Topo.predPair] at h
      | some jc =>
        simp only [hf, Spec.Topo.predPair, Option.some.injEq] at h
        subst h; rfl
    | _ => simp [exec, execRes, Spec.Topo.predPair] at h
  have h1 := key t q x hx
  have h2 := key t' q' y hy
  unfold Spec.Topo.predCompat
  by_cases he : x.1 = y.1
  · simp [h1, h2, he]
  · simp [he]

/-! ## non-vacuity: concrete instances on which the clauses are exercised -/

def exBase : TypeDef := { w := 100, h := 50, inp := [98], desc := [65], subidx := 2, rotate := [57, 48], sub := [{ idx := 1 }] }
def exOv : TypeDef := { w := 0, h := 7, inp := [112, 98, 44, 120], subidx := -1, disp := some { w := 64 } }
def exTopo : Topology :=
  { hwc := [{ id := 1, x := 5, y := 6, type := 3, ov := some exOv }, { id := 1, type := 9 }, { id := 4, type := 0 }],
    ti := [(3, exBase)] }

/-- height, input kind and display come from the override; width (override 0), handle index (override -1),
description, rotation and sub-elements stay those of the base type -/
example : (getHWCtype exTopo 1).1 =
    .inl { w := 100, h := 7, inp := [112, 98, 44, 120], desc := [65], subidx := 2, rotate := [57, 48],
           disp := some { w := 64 }, sub := [{ idx := 1 }] } := by decide
example : (execRes exTopo (.predOf 1)).1 = .typePreds (Spec.Topo.resolved exTopo exTopo.hwc[0]) (predsOf (Spec.Topo.resolved exTopo exTopo.hwc[0])) := by decide
example : (predsOf (Spec.Topo.resolved exTopo exTopo.hwc[0])).isButton = true ∧ (predsOf (Spec.Topo.resolved exTopo exTopo.hwc[0])).isPulsed = true
    ∧ (predsOf (Spec.Topo.resolved exTopo exTopo.hwc[0])).hasDisplay = true := by decide
example : (getHWCxy exTopo 7).1 = (-1, -1) ∧ (getHWCtype exTopo 7).1 = .inr (noHWCmsg 7) := by decide
example : getHWCTypeDefinition exTopo 1 = some {} ∧ getHWCTypeDefinition exTopo 0 ≠ some {} ∧ getHWCTypeDefinition exTopo (-1) = none := by decide
example : InDomain (.resolveB 0) ∧ InDomain (.resolveBid 4) ∧ InDomain (.type 4) := by simp [InDomain]
/-- the Spec is not trivially satisfied: a wrong answer is rejected -/
example : Spec.Topo.checkLookup exTopo [] (.type 1) { res := .typeDef exBase, after := [] } = some "overlay" := by decide
example : Spec.Topo.checkLookup exTopo [] (.xy 7) { res := .xy 0 0, after := [] } = some "notfound.xy" := by decide
example : Spec.Topo.checkLookup exTopo [] (.xy 7) { res := .xy (-1) (-1), after := [1] } = some "mutated" := by decide
example : Spec.Topo.checkLookup exTopo [] (.resolveB 0) { res := .typeDef exBase, after := [] } = some "agree" := by decide

end RawPanelVerif.C13
