import RawPanelVerif.Lemmas.TopoLookup
import RawPanelVerif.Lemmas.TopoPreds
import RawPanelVerif.Lemmas.TopoAlias
/-!
# C13 — Topology look-ups resolve type plus override correctly and never mutate

Property theorems only.  The statement of the property is `Spec.Topo.checkLookup` (+ `checkPreds`, `predCompat`), the
same executable predicate the check evaluates on the implementation's answers (Spec/TopologySpec.lean).
All theorems are for **every** topology (any component list incl. duplicate ids, type 0, types missing from the index;
any type index; every combination of override attributes — no hypothesis on `t` anywhere) and every id.

Value level (`Model/Topology.lean`)
* `lookup_holds`            every look-up of the interface, on every topology, satisfies every clause of the Spec
                            (overlay, not-found results, agreement of the two resolvers, predicate values, no mutation).
* `resolveA_eq_overlay`     `GetTypeDefWithOverride` = attribute-wise overlay of the override on the indexed base type
                            (rotation: "non-empty" = not a zero of either sign, `-0 != 0` is false in Go).
* `getHWCtype_eq_overlay`   `GetHWCtype(id)` = overlay for the first component carrying the id.
* `not_found_results`       unknown ids, exactly: (-1,-1), "", nil + the error text `No HWC found for <id>`, empty
                            definition, empty component; index ≥ len: empty definition.
* `resolveB_eq`             what the second resolver returns when the type is indexed: the overlay with description and
                            render hints of the *base* type (it never assigns them).  `resolvers_agree_on_shared` is the
                            corollary on the nine shared attributes; `resolvers_diverge_desc_counterexample` pins the difference.
* `resolvers_on_unindexed`, `resolvers_diverge_unindexed_counterexample`  type not indexed: second resolver = empty
                            definition, first = override over the empty definition (they differ as soon as the override is not empty).
* `resolveBid_wraps`, `resolveBid_minus_one`, `wrapped_in_domain`  `int` ids outside `0…2^32-1` are looked up as their
                            residue (`uint32(HWCid)`): `GetHWCTypeDefinitionFromHWCid(-1)` is the look-up of id 4294967295.
                            `lookup_holds_any_int`: so every `int` id satisfies the Spec at its residue.
* `resolveB_never_panics_on_valid_index`, `resolveB_negative_index_panics`.
* `preds_meet_spec`         every derived predicate has the value the Spec's independent reading gives it: input kind =
                            first comma-separated token (`inputType_is_first_token`: relational characterisation), kind
                            lists for button/binary/pulsed/absolute/intensity, LED on the whole strings
                            (`hasLED_whole_string_counterexample`), steps = index span, LED-bar steps on "contains".
                            `button_implies_binary`, `button_and_pulsed_iff`.
* `predicates_depend_only_on_resolved`  two observations with equal resolved definitions report equal predicate values.
* `lookups_do_not_mutate`   value level: after any look-up the topology is what it was.

Reference level (`Model/TopoAlias.lean`: `TypeOverride`, `Disp` pointers and `Sub` backing arrays are heap cells)
* `execR_refines`           the value model is the abstraction of the store-of-cells model (every look-up, every closed heap).
* `lookups_write_no_cell`   a look-up only allocates: every existing address holds what it held.
* `lookups_do_not_mutate_heap`  hence topology and `ToJSON()` read the same afterwards.
* `returned_refs_alias_storage`  the `Disp` / `Sub` references of a returned definition are the ones stored in the base
                            type or the override: the result aliases topology storage (documented hazard, not a violation).
* `alias_hazard_sub/disp/override`  concrete heaps: writing through the returned value changes `ToJSON()`
                            (observed on the implementation by the `topo.alias` records; the model predicts each outcome).
* `caller_edit_of_own_copy_keeps_topology`  what a caller writes into the struct it was handed (every field, or new
                            `Disp`/`Sub` cells) changes no cell of the topology: serialised form and every later answer
                            are unchanged.  Together with `lookup_holds` this is the statement the history records check on
                            the implementation: look up, edit the returned value / the topology, look up again on the SAME
                            object — the second answer is the fresh resolution on the topology as it stands.
* `layout_denotes`, `layout_lookup`  every value topology has a closed layout; look-ups through it give the value model's answers.
-/
namespace RawPanelVerif.C13
open RawPanelVerif RawPanelVerif.Topo

/-- integer arguments the Spec makes a claim about: ids are `uint32` values, indices are not negative -/
def InDomain : Query → Prop
  | .resolveB k => 0 ≤ k
  | .resolveBid id => 0 ≤ id ∧ id < 4294967296
  | .defId id => 0 ≤ id ∧ id < 4294967296
  | _ => True

theorem lookups_do_not_mutate (t : Topology) (q : Query) :
    (exec t q).2 = t ∧ (exec t q).1.after = serialise t := by
  have h : (execRes t q).2 = t := by
    cases q <;> simp only [execRes, getHWCs, getHWCxy, getHWCtext, getHWCtype, getHWCsWithDisplay] <;>
      (try split) <;> rfl
  simp only [exec, h, and_self]

theorem resolveA_eq_overlay (t : Topology) (c : HWc) :
    getTypeDefWithOverride t c = Spec.Topo.overlay ((Spec.Topo.base t c.type).getD Spec.Topo.zero) c.ov :=
  resolveA_overlay t c

theorem getHWCtype_eq_overlay (t : Topology) (id : Nat) (c : HWc) (h : Spec.Topo.firstWithId t id = some c) :
    (getHWCtype t id).1 = .inl (Spec.Topo.resolved t c) := by
  obtain ⟨j, hj⟩ := findIdx_some t.hwc id 0 c h
  simp only [getHWCtype, hj, resolveA_overlay]

theorem not_found_results (t : Topology) (id : Nat) (h : Spec.Topo.firstWithId t id = none) :
    (getHWCxy t id).1 = (-1, -1) ∧ (getHWCtext t id).1 = [] ∧
    (getHWCtype t id).1 = .inr (Spec.Topo.bytes "No HWC found for " ++ (Nat.toDigits 10 id).map (fun c => c.toNat.toUInt8)) ∧
    (id < 4294967296 → getHWCTypeDefinitionFromHWCid t id = some Spec.Topo.zero ∧
      getHWCDefinitionFromHWCid t id = {}) ∧
    (∀ k : Int, k ≥ t.hwc.length → getHWCTypeDefinition t k = some Spec.Topo.zero) := by
  have hf := findIdx_none t.hwc id 0 h
  refine ⟨by simp only [getHWCxy, hf], by simp only [getHWCtext, hf], by simp only [getHWCtype, hf]; rfl, ?_, ?_⟩
  · intro hid
    have : toU32 id = id := by unfold toU32; omega
    simp only [getHWCTypeDefinitionFromHWCid, getHWCDefinitionFromHWCid, this, hf, zeroTD_eq, and_self]
  · intro k hk
    simp only [getHWCTypeDefinition, hk, if_true, zeroTD_eq]

theorem resolvers_agree_on_shared (t : Topology) (k : Nat) (c : HWc) (hc : t.hwc[k]? = some c)
    (hidx : (Spec.Topo.base t c.type).isSome) :
    ∃ td, getHWCTypeDefinition t k = some td ∧
      Spec.Topo.sharedEq td (getTypeDefWithOverride t c) = true := by
  have h := checkB_at t k c hc
  obtain ⟨bt, hb⟩ := Option.isSome_iff_exists.mp hidx
  unfold Spec.Topo.checkB at h
  simp only [hb] at h
  cases hr : getHWCTypeDefinition t k with
  | none => simp [hr, resB] at h
  | some td =>
    refine ⟨td, rfl, ?_⟩
    simp only [hr, resB, Spec.Topo.ok] at h
    rw [resolveA_overlay]
    cases hs : Spec.Topo.sharedEq td (Spec.Topo.resolved t c) with
    | true => rfl
    | false => simp [hs] at h

theorem resolveB_never_panics_on_valid_index (t : Topology) (k : Int) (hk : 0 ≤ k) :
    (getHWCTypeDefinition t k).isSome := by
  unfold getHWCTypeDefinition
  split
  · rfl
  · rename_i h1
    have h2 : ¬ (k < 0) := by omega
    have h3 : k.toNat < t.hwc.length := by omega
    simp only [h2, if_false, List.getElem?_eq_getElem h3]
    split
    · rfl
    · split <;> rfl

theorem resolveB_negative_index_panics (t : Topology) (k : Int) (hk : k < 0) :
    getHWCTypeDefinition t k = none := by
  unfold getHWCTypeDefinition
  have h1 : ¬ (k ≥ (t.hwc.length : Int)) := by omega
  simp only [h1, hk, if_false, if_true]

/-! ## the second resolver, exactly; integer ids outside `uint32` -/

/-- what `GetHWCTypeDefinition` returns for a component whose type is indexed: the overlay, except that the
description and the render hints stay those of the base type (the second resolver has no assignment for them) -/
theorem resolveB_eq (t : Topology) (k : Nat) (c : HWc) (hc : t.hwc[k]? = some c) (bt : TypeDef)
    (hb : Spec.Topo.base t c.type = some bt) :
    getHWCTypeDefinition t k = some { Spec.Topo.resolved t c with desc := bt.desc, render := bt.render } := by
  have hk : k < t.hwc.length := by
    rcases Nat.lt_or_ge k t.hwc.length with h1 | h1
    · exact h1
    · rw [List.getElem?_eq_none h1] at hc; cases hc
  have h1 : ¬ ((k : Int) ≥ (t.hwc.length : Int)) := by omega
  have h2 : ¬ ((k : Int) < 0) := by omega
  simp only [getHWCTypeDefinition, h1, h2, if_false, Int.toNat_natCast, hc, lookup_eq_base, hb, Spec.Topo.resolved,
    Option.getD_some]
  cases ho : c.ov with
  | none => rfl
  | some o =>
    simp only [ovW_eq, ovH_eq, ovSubidx_eq, ovOut_eq, ovIn_eq, ovExt_eq, ovRotate_eq, ovDisp_eq, ovSub_eq,
      Spec.Topo.overlay]
    cases o.disp <;> cases o.sub <;> rfl

/-- … and for a component whose type is **not** indexed the two resolvers part: the second returns the empty
definition, the first the override laid over the empty definition -/
theorem resolvers_on_unindexed (t : Topology) (k : Nat) (c : HWc) (hc : t.hwc[k]? = some c)
    (hb : Spec.Topo.base t c.type = none) :
    getHWCTypeDefinition t k = some Spec.Topo.zero ∧
    getTypeDefWithOverride t c = Spec.Topo.overlay Spec.Topo.zero c.ov := by
  have hk : k < t.hwc.length := by
    rcases Nat.lt_or_ge k t.hwc.length with h1 | h1
    · exact h1
    · rw [List.getElem?_eq_none h1] at hc; cases hc
  have h1 : ¬ ((k : Int) ≥ (t.hwc.length : Int)) := by omega
  have h2 : ¬ ((k : Int) < 0) := by omega
  refine ⟨by simp only [getHWCTypeDefinition, h1, h2, if_false, Int.toNat_natCast, hc, lookup_eq_base, hb, zeroTD_eq], ?_⟩
  rw [resolveA_overlay, Spec.Topo.resolved, hb]; rfl

/-- pinned divergence: type 9 is not indexed, the override supplies a width — the first resolver reports it, the
second reports nothing -/
theorem resolvers_diverge_unindexed_counterexample :
    let t : Topology := { hwc := [{ id := 1, type := 9, ov := some { w := 7, desc := [65] } }], ti := [(3, { w := 100 })] }
    getHWCTypeDefinition t 0 = some {} ∧ getTypeDefWithOverride t t.hwc[0] = { w := 7, desc := [65] } ∧
    (match getHWCTypeDefinition t 0 with
      | some td => Spec.Topo.sharedEq td (getTypeDefWithOverride t t.hwc[0]) | none => false) = false := by decide

/-- indexed type: the two resolvers differ exactly in description and render hints (override `desc` ignored by the second) -/
theorem resolvers_diverge_desc_counterexample :
    let t : Topology := { hwc := [{ id := 1, type := 3, ov := some { desc := [66], render := [116] } }], ti := [(3, { w := 100, desc := [65] })] }
    getHWCTypeDefinition t 0 = some { w := 100, desc := [65] } ∧
    getTypeDefWithOverride t t.hwc[0] = { w := 100, desc := [66], render := [116] } := by decide

theorem toU32_mod (id : Int) : toU32 (id % 4294967296) = toU32 id := by
  unfold toU32; rw [Int.emod_emod_of_dvd id (Int.dvd_refl _)]

/-- `uint32(HWCid)`: an `int` argument outside `0 … 2^32-1` is looked up as its residue — `-1` is the id 4294967295 -/
theorem resolveBid_wraps (t : Topology) (id : Int) :
    getHWCTypeDefinitionFromHWCid t id = getHWCTypeDefinitionFromHWCid t (id % 4294967296) ∧
    getHWCDefinitionFromHWCid t id = getHWCDefinitionFromHWCid t (id % 4294967296) := by
  simp only [getHWCTypeDefinitionFromHWCid, getHWCDefinitionFromHWCid, toU32_mod, and_self]

theorem wrapped_in_domain (id : Int) :
    InDomain (.resolveBid (id % 4294967296)) ∧ InDomain (.defId (id % 4294967296)) := by
  have h1 := Int.emod_nonneg id (b := 4294967296) (by decide)
  have h2 := Int.emod_lt_of_pos id (b := 4294967296) (by decide)
  exact ⟨⟨h1, h2⟩, ⟨h1, h2⟩⟩

theorem resolveBid_minus_one (t : Topology) :
    getHWCTypeDefinitionFromHWCid t (-1) = getHWCTypeDefinitionFromHWCid t 4294967295 ∧
    getHWCDefinitionFromHWCid t (-1) = getHWCDefinitionFromHWCid t 4294967295 := resolveBid_wraps t (-1)

/-! ## the derived predicates have the values the protocol's kind vocabulary gives them -/

/-- every predicate of every definition meets the Spec's independent reading (`Spec.Topo.checkPreds`):
input kind = first comma-separated token; button / binary / pulsed / absolute / intensity = membership of that
token in the kind lists; LED on the whole strings; steps = index span; LED-bar steps on "contains" -/
theorem preds_meet_spec (td : TypeDef) : Spec.Topo.checkPreds td (predsOf td) = none := by
  unfold Spec.Topo.checkPreds
  simp only [predsOf, getInputType_eq, isButton_eq, isBinary_eq, isPulsed_eq, isAbsolute_eq, isIntensity_eq, hasLED_eq,
    isMotorized_eq, hasDisplay, ledBarSteps, containsSub_eq_hasInfix, ne_eq, not_true_eq_false, if_false]
  have hl : (if Spec.Topo.hasInfix sSteps td.ext = true then (td.sub.length : Int) else 0)
      = (if Spec.Topo.hasInfix (Spec.Topo.bytes "steps") td.ext = true then (td.sub.length : Int) else 0) := rfl
  simp only [hl, not_true_eq_false, if_false]
  by_cases he : td.ext = Spec.Topo.bytes "steps"
  · simp only [he, not_true_eq_false, if_false]
    cases hs : Spec.Topo.stepSpan td with
    | none => rfl
    | some n =>
      have hh : hasSteps td = n := hasSteps_span td he n hs
      simp only [hh, not_true_eq_false, if_false]
  · have h0 : hasSteps td = 0 := by
      rw [hasSteps_unfold, if_neg]; exact he
    simp only [he, not_false_eq_true, if_true, h0, not_true_eq_false, if_false]

/-- the input kind is *the* first comma-separated token, in the relational reading -/
theorem inputType_is_first_token (td : TypeDef) (tok : Str) :
    Spec.Topo.IsFirstToken td.inp tok ↔ tok = getInputType td := by
  rw [getInputType_eq]
  exact ⟨isFirst_unique td.inp tok, fun h => h ▸ firstTok_isFirst td.inp⟩

/-- every button is a binary input -/
theorem button_implies_binary (td : TypeDef) (h : isButton td = true) : isBinary td = true := by
  unfold isBinary; simp [h]

/-- pulsed buttons (`pb`) are the only kind that is both a button and pulsed -/
theorem button_and_pulsed_iff (td : TypeDef) :
    (isButton td = true ∧ isPulsed td = true) ↔ getInputType td = bytesOf "pb" := by
  unfold isButton isPulsed
  generalize getInputType td = i
  simp only [Bool.or_eq_true, decide_eq_true_eq]
  constructor
  · rintro ⟨h1, h2 | h2⟩
    · exact h2
    · subst h2; revert h1; decide
  · intro h; subst h; decide

/-- `HasLED` looks at the **whole** input string, the other kind predicates at its first token: `rg,x` is no LED
input although its input kind is `rg` (pinned behaviour of the code, also what the Spec says) -/
theorem hasLED_whole_string_counterexample :
    let td : TypeDef := { inp := bytesOf "rg,x" }
    getInputType td = bytesOf "rg" ∧ hasLED td = false ∧ hasLED { td with inp := bytesOf "rg" } = true := by decide

/-- C13, all clauses, every look-up, every topology -/
theorem lookup_holds (t : Topology) (q : Query) (hq : InDomain q) :
    Spec.Topo.checkLookup t (serialise t) q (exec t q).1 = none := by
  have hm := (lookups_do_not_mutate t q).2
  unfold Spec.Topo.checkLookup
  rw [hm]
  simp only [ne_eq, not_true_eq_false, if_false]
  cases q with
  | hwcs => simp only [exec, execRes, getHWCs, foldl_ids]; simp [Spec.Topo.ok]
  | xy id =>
    simp only [exec, execRes, getHWCxy]
    cases hf : Spec.Topo.firstWithId t id with
    | none => simp [findIdx_none t.hwc id 0 hf, Spec.Topo.ok]
    | some c => obtain ⟨j, hj⟩ := findIdx_some t.hwc id 0 c hf; simp [hj, Spec.Topo.ok]
  | text id =>
    simp only [exec, execRes, getHWCtext]
    cases hf : Spec.Topo.firstWithId t id with
    | none => simp [findIdx_none t.hwc id 0 hf, Spec.Topo.ok]
    | some c => obtain ⟨j, hj⟩ := findIdx_some t.hwc id 0 c hf; simp [hj, Spec.Topo.ok]
  | type id =>
    simp only [exec, execRes, getHWCtype]
    cases hf : Spec.Topo.firstWithId t id with
    | none => simp [findIdx_none t.hwc id 0 hf]
    | some c => obtain ⟨j, hj⟩ := findIdx_some t.hwc id 0 c hf; simp [hj, Spec.Topo.ok, resolveA_overlay]
  | withDisplay => simp only [exec, execRes, getHWCsWithDisplay, foldl_disp]; simp [Spec.Topo.ok]
  | resolveA k =>
    simp only [exec, execRes]
    cases hc : t.hwc[k]? with
    | none => simp
    | some c => simp [Spec.Topo.ok, resolveA_overlay]
  | resolveAx c => simp [exec, execRes, Spec.Topo.ok, resolveA_overlay]
  | resolveB k =>
    have hk : 0 ≤ k := hq
    have hk' : ¬ (k < 0) := by omega
    simp only [exec, execRes, hk', if_false]
    cases hc : t.hwc[k.toNat]? with
    | some c =>
      have := checkB_at t k.toNat c hc
      rw [Int.toNat_of_nonneg hk] at this
      exact this
    | none =>
      have hlen : t.hwc.length ≤ k.toNat := by
        rcases Nat.lt_or_ge k.toNat t.hwc.length with h1 | h1
        · rw [List.getElem?_eq_getElem h1] at hc; cases hc
        · exact h1
      have hge : k ≥ (t.hwc.length : Int) := by omega
      simp [Spec.Topo.checkB, getHWCTypeDefinition, hge, Spec.Topo.ok, zeroTD_eq]
  | resolveBid id =>
    obtain ⟨h0, h1⟩ : 0 ≤ id ∧ id < 4294967296 := hq
    have hd : ¬ (id < 0 ∨ id ≥ 4294967296) := by omega
    have hu : toU32 id = id.toNat := by unfold toU32; omega
    simp only [exec, execRes, hd, if_false, getHWCTypeDefinitionFromHWCid, hu]
    cases hf : Spec.Topo.firstWithId t id.toNat with
    | none => simp [findIdx_none t.hwc id.toNat 0 hf, Spec.Topo.checkB, Spec.Topo.ok, zeroTD_eq]
    | some c =>
      obtain ⟨j, hj⟩ := findIdx_some t.hwc id.toNat 0 c hf
      have hg := (findIdx_get t.hwc id.toNat 0 j c hj).2
      simp only [Nat.sub_zero] at hg
      simp only [hj]
      exact checkB_at t j c hg
  | defId id =>
    obtain ⟨h0, h1⟩ : 0 ≤ id ∧ id < 4294967296 := hq
    have hd : ¬ (id < 0 ∨ id ≥ 4294967296) := by omega
    have hu : toU32 id = id.toNat := by unfold toU32; omega
    simp only [exec, execRes, hd, if_false, getHWCDefinitionFromHWCid, hu]
    cases hf : Spec.Topo.firstWithId t id.toNat with
    | none => simp [findIdx_none t.hwc id.toNat 0 hf, Spec.Topo.ok]
    | some c => obtain ⟨j, hj⟩ := findIdx_some t.hwc id.toNat 0 c hf; simp [hj, Spec.Topo.ok]
  | pred td => exact preds_meet_spec td
  | predOf id =>
    simp only [exec, execRes, getHWCtype]
    cases hf : Spec.Topo.firstWithId t id with
    | none => simp [findIdx_none t.hwc id 0 hf]
    | some c =>
      obtain ⟨j, hj⟩ := findIdx_some t.hwc id 0 c hf
      simp only [hj, resolveA_overlay, beq_self_eq_true, if_true]
      exact preds_meet_spec _

/-- "derived predicates depend only on the resolved definition": any two predicate observations — through a
look-up by id on any topology or on a free-standing definition — are compatible -/
theorem lookup_holds_any_int (t : Topology) (id : Int) :
    (exec t (.resolveBid id)).1 = (exec t (.resolveBid (id % 4294967296))).1 ∧
    (exec t (.defId id)).1 = (exec t (.defId (id % 4294967296))).1 ∧
    Spec.Topo.checkLookup t (serialise t) (.resolveBid (id % 4294967296)) (exec t (.resolveBid id)).1 = none ∧
    Spec.Topo.checkLookup t (serialise t) (.defId (id % 4294967296)) (exec t (.defId id)).1 = none := by
  have hw := resolveBid_wraps t id
  have e1 : (exec t (.resolveBid id)).1 = (exec t (.resolveBid (id % 4294967296))).1 := by
    simp only [exec, execRes, hw.1]
  have e2 : (exec t (.defId id)).1 = (exec t (.defId (id % 4294967296))).1 := by
    simp only [exec, execRes, hw.2]
  refine ⟨e1, e2, ?_, ?_⟩
  · rw [e1]; exact lookup_holds t _ (wrapped_in_domain id).1
  · rw [e2]; exact lookup_holds t _ (wrapped_in_domain id).2

theorem predicates_depend_only_on_resolved (t t' : Topology) (q q' : Query) (x y : TypeDef × Preds)
    (hx : Spec.Topo.predPair q (exec t q).1.res = some x) (hy : Spec.Topo.predPair q' (exec t' q').1.res = some y) :
    Spec.Topo.predCompat x y = true := by
  have key : ∀ (t : Topology) (q : Query) (x : TypeDef × Preds),
      Spec.Topo.predPair q (exec t q).1.res = some x → x.2 = predsOf x.1 := by
    intro t q x h
    cases q with
    | pred td =>
      simp only [exec, execRes, Spec.Topo.predPair, Option.some.injEq] at h
      subst h; rfl
    | predOf id =>
      simp only [exec, execRes, getHWCtype] at h
      cases hf : findIdx t.hwc id 0 with
      | none => simp [hf, Spec.Topo.predPair] at h
      | some jc =>
        simp only [hf, Spec.Topo.predPair, Option.some.injEq] at h
        subst h; rfl
    | _ => simp [exec, execRes, Spec.Topo.predPair] at h
  have h1 := key t q x hx
  have h2 := key t' q' y hy
  unfold Spec.Topo.predCompat
  by_cases he : x.1 = y.1
  · simp [h1, h2, he]
  · simp [he]

/-! ## references: the store-of-cells model (`Model/TopoAlias.lean`)

`TypeOverride`, `Disp` (pointers) and `Sub` (slice over a backing array) are heap cells; the resolvers copy the
addresses.  A look-up is `Heap → result × Heap`. -/

section alias
open RawPanelVerif.Topo.Alias

/-- the value model used by every other theorem is the abstraction of the store-of-cells model: the answer of each
look-up, read in the heap it leaves behind, is the value model's answer on the topology the heap denotes -/
theorem execR_refines (h : Heap) (t : TopologyR) (hc : Closed h t) (q : Query) :
    absRes (execR h t q).2 (execR h t q).1 = (execRes (absTopo h t) q).1 := execR_refines' h t hc q

/-- no look-up writes a cell: the heap afterwards is the heap before plus freshly allocated cells at the end
(`return &typeDef`), so every address that existed holds what it held -/
theorem lookups_write_no_cell (h : Heap) (t : TopologyR) (q : Query) :
    ∃ fresh, (execR h t q).2 = h ++ fresh ∧ ∀ a, a < h.length → (execR h t q).2[a]? = h[a]? := by
  obtain ⟨x, hx⟩ := execR_extends h t q
  exact ⟨x, hx, fun a ha => by rw [hx]; exact List.getElem?_append_left ha⟩

/-- … hence the topology, and its serialised form, read the same after any look-up (`ToJSON()` unchanged) -/
theorem lookups_do_not_mutate_heap (h : Heap) (t : TopologyR) (hc : Closed h t) (q : Query) :
    absTopo (execR h t q).2 t = absTopo h t ∧
    serialise (absTopo (execR h t q).2 t) = serialise (absTopo h t) ∧ Closed (execR h t q).2 t := by
  obtain ⟨x, hx⟩ := execR_extends h t q
  rw [hx, absTopo_ext h x t hc]
  exact ⟨rfl, rfl, closed_ext h x t hc⟩

/-- **the documented hazard**: the display pointer and the sub-element slice of a resolved definition are the
addresses stored in the indexed base type or in the component's override — the returned value aliases topology
storage (nothing is deep-copied) -/
theorem returned_refs_alias_storage (h : Heap) (t : TopologyR) (c : HWcR) :
    ((resolveAR h t c).dispP = ((Map.lookup t.ti c.c.type).getD zeroR).dispP ∨
      ∃ a, c.ovP = some a ∧ (resolveAR h t c).dispP = (h.tdAt a).dispP) ∧
    ((resolveAR h t c).subP = ((Map.lookup t.ti c.c.type).getD zeroR).subP ∨
      ∃ a, c.ovP = some a ∧ (resolveAR h t c).subP = (h.tdAt a).subP) := resolveAR_refs h t c

/-- **the caller's own copy**: whatever a caller writes into the struct a look-up handed it (`own`: every field
overwritten; `ownrefs`: its `Disp`/`Sub` pointed at cells the caller allocates) — the topology, its serialised form and
therefore the answer of every later look-up are what they were.  (Writing THROUGH the `Disp`/`Sub` references it
contains is the documented hazard, `alias_hazard_*`.)  The `topo.wedit` records observe both on the implementation; the
look-ups that follow are judged against the topology as it then stands. -/
theorem caller_edit_of_own_copy_keeps_topology (h : Heap) (t : TopologyR) (hc : Closed h t) (q : Query) (via : Via)
    (hv : via = .own ∨ via = .ownrefs) (h' : Heap) (hw : writeVia (execR h t q).2 (execR h t q).1 via = some h') :
    absTopo h' t = absTopo h t ∧ serialise (absTopo h' t) = serialise (absTopo h t) ∧
    ∀ q', (execRes (absTopo h' t) q').1 = (execRes (absTopo h t) q').1 := by
  have he : ∃ z, h' = h ++ z := by
    rcases hv with rfl | rfl
    · exact writeOwn_extends h t q _ _ h' hw
    · exact writeOwn_extends h t q _ _ h' hw
  obtain ⟨z, rfl⟩ := he
  rw [absTopo_ext h z t hc]
  exact ⟨rfl, rfl, fun _ => rfl⟩

/-- every value topology has a closed layout that denotes it (each reference in its own cell, as after
`json.Unmarshal`), so the theorems above are not about an empty class of heaps -/
theorem layout_denotes (t : Topology) : Closed (layTopo t).1 (layTopo t).2 ∧ absTopo (layTopo t).1 (layTopo t).2 = t :=
  layTopo_spec t

/-- on such a layout the look-ups through the heap give exactly the value model's answers -/
theorem layout_lookup (t : Topology) (q : Query) :
    absRes (execR (layTopo t).1 (layTopo t).2 q).2 (execR (layTopo t).1 (layTopo t).2 q).1 = (execRes t q).1 := by
  have h := execR_refines (layTopo t).1 (layTopo t).2 (layTopo_spec t).1 q
  rw [(layTopo_spec t).2] at h
  exact h

end alias

/-! ## non-vacuity: concrete instances on which the clauses are exercised -/

def exBase : TypeDef := { w := 100, h := 50, inp := [98], desc := [65], subidx := 2, rotate := [57, 48], sub := [{ idx := 1 }] }
def exOv : TypeDef := { w := 0, h := 7, inp := [112, 98, 44, 120], subidx := -1, disp := some { w := 64 } }
def exTopo : Topology :=
  { hwc := [{ id := 1, x := 5, y := 6, type := 3, ov := some exOv }, { id := 1, type := 9 }, { id := 4, type := 0 }],
    ti := [(3, exBase)] }

/-- height, input kind and display come from the override; width (override 0), handle index (override -1),
description, rotation and sub-elements stay those of the base type -/
example : (getHWCtype exTopo 1).1 =
    .inl { w := 100, h := 7, inp := [112, 98, 44, 120], desc := [65], subidx := 2, rotate := [57, 48],
           disp := some { w := 64 }, sub := [{ idx := 1 }] } := by decide
example : (execRes exTopo (.predOf 1)).1 = .typePreds (Spec.Topo.resolved exTopo exTopo.hwc[0]) (predsOf (Spec.Topo.resolved exTopo exTopo.hwc[0])) := by decide
example : (predsOf (Spec.Topo.resolved exTopo exTopo.hwc[0])).isButton = true ∧ (predsOf (Spec.Topo.resolved exTopo exTopo.hwc[0])).isPulsed = true
    ∧ (predsOf (Spec.Topo.resolved exTopo exTopo.hwc[0])).hasDisplay = true := by decide
example : (getHWCxy exTopo 7).1 = (-1, -1) ∧ (getHWCtype exTopo 7).1 = .inr (noHWCmsg 7) := by decide
example : getHWCTypeDefinition exTopo 1 = some {} ∧ getHWCTypeDefinition exTopo 0 ≠ some {} ∧ getHWCTypeDefinition exTopo (-1) = none := by decide
example : InDomain (.resolveB 0) ∧ InDomain (.resolveBid 4) ∧ InDomain (.type 4) := by simp [InDomain]
/-- the Spec is not trivially satisfied: a wrong answer is rejected -/
example : Spec.Topo.checkLookup exTopo [] (.type 1) { res := .typeDef exBase, after := [] } = some "overlay" := by decide
example : Spec.Topo.checkLookup exTopo [] (.xy 7) { res := .xy 0 0, after := [] } = some "notfound.xy" := by decide
example : Spec.Topo.checkLookup exTopo [] (.xy 7) { res := .xy (-1) (-1), after := [1] } = some "mutated" := by decide
example : Spec.Topo.checkLookup exTopo [] (.resolveB 0) { res := .typeDef exBase, after := [] } = some "agree" := by decide


/-! ### aliasing, on a concrete heap: component 1 of `exTopo` resolves to the base type's sub-element array and to
its own override's display cell -/
section aliasex
open RawPanelVerif.Topo.Alias
def exH : Heap := (layTopo exTopo).1
def exR : TopologyR := (layTopo exTopo).2
example : absTopo exH exR = exTopo := by decide +kernel
/-- write through the returned `Sub[0]` (the base type's array, shared by every component of type 3): `ToJSON()` changes -/
theorem alias_hazard_sub : aliasOutcome exH exR (execR exH exR (.type 1)) .sub = (true, true) := by decide +kernel
/-- write through the returned `Disp` (the override's cell): `ToJSON()` changes -/
theorem alias_hazard_disp : aliasOutcome exH exR (execR exH exR (.type 1)) .disp = (true, true) := by decide +kernel
/-- the component getter returns a copy whose `TypeOverride` pointer is the topology's -/
theorem alias_hazard_override : aliasOutcome exH exR (execR exH exR (.defId 1)) .ov = (true, true) := by decide +kernel
/-- the second resolver shares the same cells -/
example : aliasOutcome exH exR (execR exH exR (.resolveB 0)) .sub = (true, true) := by decide +kernel
/-- a free-standing component: its own override cell is not topology storage (no change), the base type's is -/
example :
    let p := layHWc exH { id := 9, type := 3, ov := some { sub := [{ x := 1 }] } }
    aliasOutcome p.1 exR (execRx p.1 exR p.2) .sub = (true, false) ∧
    (let p2 := layHWc exH { id := 9, type := 3, ov := some { w := 5 } }
     aliasOutcome p2.1 exR (execRx p2.1 exR p2.2) .sub = (true, true)) := by decide +kernel
/-- nothing to write through: component 4 has type 0, no override -/
example : aliasOutcome exH exR (execR exH exR (.type 4)) .sub = (false, false) := by decide +kernel
/-- the caller scribbles over the definition `GetHWCtype(1)` handed it / points it at new cells: something was written
(a cell of the heap for the returned pointer), the topology reads the same; a component copy is the caller's own -/
example : aliasOutcome exH exR (execR exH exR (.type 1)) .own = (true, false) ∧
    aliasOutcome exH exR (execR exH exR (.type 1)) .ownrefs = (true, false) ∧
    aliasOutcome exH exR (execR exH exR (.defId 1)) .own = (true, false) ∧
    aliasOutcome exH exR (execR exH exR (.xy 1)) .own = (false, false) := by decide +kernel
example : (writeVia (execR exH exR (.type 1)).2 (execR exH exR (.type 1)).1 .own).map (fun h' => h'.tdAt exH.length) = some scribbled := by
  decide +kernel
/-- the look-up itself leaves every cell alone -/
example : (execR exH exR (.type 1)).2.take exH.length = exH ∧ (execR exH exR (.type 1)).2.length = exH.length + 1 := by decide +kernel
end aliasex

end RawPanelVerif.C13
